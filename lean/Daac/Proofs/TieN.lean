/-
Translation tie, pattern-insertion side: `NfaBuilder::{new, add, is_registered, child_id}` GENERATED
from the repository's `src/nfa_builder.rs` by tools/nfa2lean.py (`Daac/Gen/Nfa.lean`: states in an
id-indexed array, edges as label-sorted association lists of child ids) refines the hand-written
path-keyed model `NfaAcc.add` / `Trie.insert` (Daac/Model/Trie.lean).

`Rep st pth t id pre`: the array `st` represents the tree `t` at state `id`; `pth` is a ghost
labelling of state ids by their path (it makes distinct nodes have distinct ids, which is what the
frame argument needs: a write to one state does not disturb the subtrees of its siblings).
-/
import Daac.Gen.Nfa
import Daac.Proofs.TrieFacts
namespace Daac.Tie.N
open Daac Daac.Gen Daac.Gen.N

variable {V : Type}

abbrev St (V : Type) := Array (NfaBuilderState V)
abbrev Pth := Nat → Option (List Nat)

mutual
/-- State `id` of `st` (whose path is `pre`) represents the tree `t`. -/
def Rep (st : St V) (pth : Pth) : Trie V → Nat → List Nat → Prop
  | .node out kids, id, pre =>
    ∃ s, st[id]? = some s ∧ pth id = some pre ∧ s.output = out ∧ RepK st pth kids pre 0 s.edges
/-- The edge list `es` (labels ≥ `lo`, strictly increasing) represents the children `ks`. -/
def RepK (st : St V) (pth : Pth) : Kids V → List Nat → Nat → List (Nat × Nat) → Prop
  | .nil, _, _, es => es = []
  | .cons l t ks, pre, lo, es =>
    ∃ cid es', es = (l, cid) :: es' ∧ lo ≤ l ∧ Rep st pth t cid (pre ++ [l]) ∧ RepK st pth ks pre (l + 1) es'
end

/-- States whose path extends `p` are the same in `st'`/`pth'`. -/
def FrameAt (st st' : St V) (pth pth' : Pth) (p : List Nat) : Prop :=
  ∀ j s pj, st[j]? = some s → pth j = some pj → p <+: pj → st'[j]? = some s ∧ pth' j = some pj

/-- States whose path does not extend `p` (or that have no path: the dead state) are the same. -/
def Out (st st' : St V) (pth pth' : Pth) (p : List Nat) : Prop :=
  ∀ j s, st[j]? = some s → (∀ pj, pth j = some pj → ¬ p <+: pj) → st'[j]? = some s ∧ pth' j = pth j

theorem FrameAt.mono {st st' : St V} {pth pth' : Pth} {p p' : List Nat}
    (h : FrameAt st st' pth pth' p) (hp : p <+: p') : FrameAt st st' pth pth' p' :=
  fun j s pj h1 h2 h3 => h j s pj h1 h2 (List.IsPrefix.trans hp h3)

theorem snoc_prefix_inj {pre pj : List Nat} {l c : Nat}
    (h1 : (pre ++ [l]) <+: pj) (h2 : (pre ++ [c]) <+: pj) : l = c := by
  obtain ⟨r1, h1⟩ := h1
  obtain ⟨r2, h2⟩ := h2
  have : pre ++ ([l] ++ r1) = pre ++ ([c] ++ r2) := by
    rw [← List.append_assoc, ← List.append_assoc, h1, h2]
  have := List.append_cancel_left this
  simp at this
  exact this.1

theorem not_snoc_prefix (pre : List Nat) (c : Nat) : ¬ (pre ++ [c]) <+: pre := by
  intro h
  have := h.length_le
  simp at this
  omega

theorem Out.frameAt {st st' : St V} {pth pth' : Pth} {pre : List Nat} {c l : Nat}
    (h : Out st st' pth pth' (pre ++ [c])) (hl : l ≠ c) : FrameAt st st' pth pth' (pre ++ [l]) := by
  intro j s pj h1 h2 h3
  have := h j s h1 (fun pj' e hc => by
    rw [h2] at e; cases e
    exact hl (snoc_prefix_inj h3 hc))
  exact ⟨this.1, by rw [this.2, h2]⟩

theorem Out.weaken {st st' : St V} {pth pth' : Pth} {p p' : List Nat}
    (h : Out st st' pth pth' p') (hp : p <+: p') : Out st st' pth pth' p :=
  fun j s h1 h2 => h j s h1 (fun pj e hc => h2 pj e (List.IsPrefix.trans hp hc))

theorem Out.trans {st st2 st' : St V} {pth pth2 pth' : Pth} {p : List Nat}
    (h1 : Out st st2 pth pth2 p) (h2 : Out st2 st' pth2 pth' p) : Out st st' pth pth' p := by
  intro j s hs hp
  have a := h1 j s hs hp
  have b := h2 j s a.1 (by rw [a.2]; exact hp)
  exact ⟨b.1, by rw [b.2, a.2]⟩

theorem FrameAt.trans {st st2 st' : St V} {pth pth2 pth' : Pth} {p : List Nat}
    (h1 : FrameAt st st2 pth pth2 p) (h2 : FrameAt st2 st' pth2 pth' p) : FrameAt st st' pth pth' p := by
  intro j s pj hs hp hpre
  have a := h1 j s pj hs hp hpre
  exact h2 j s pj a.1 a.2 hpre

mutual
theorem Rep.frame {st st' : St V} {pth pth' : Pth} : (t : Trie V) → (id : Nat) → (pre : List Nat) →
    Rep st pth t id pre → FrameAt st st' pth pth' pre → Rep st' pth' t id pre
  | .node out kids, id, pre, h, hf => by
    unfold Rep at h ⊢
    obtain ⟨s, h1, h2, h3, h4⟩ := h
    have := hf id s pre h1 h2 (List.prefix_refl _)
    exact ⟨s, this.1, this.2, h3,
      RepK.frame kids pre 0 s.edges h4 (fun l _ => hf.mono (List.prefix_append _ _))⟩
theorem RepK.frame {st st' : St V} {pth pth' : Pth} : (ks : Kids V) → (pre : List Nat) → (lo : Nat) →
    (es : List (Nat × Nat)) → RepK st pth ks pre lo es →
    (∀ l, lo ≤ l → FrameAt st st' pth pth' (pre ++ [l])) → RepK st' pth' ks pre lo es
  | .nil, pre, lo, es, h, hf => by
    unfold RepK at h ⊢; exact h
  | .cons l t r, pre, lo, es, h, hf => by
    unfold RepK at h ⊢
    obtain ⟨cid, es', h1, h2, h3, h4⟩ := h
    exact ⟨cid, es', h1, h2, Rep.frame t cid _ h3 (hf l h2),
      RepK.frame r pre (l + 1) es' h4 (fun l' hl' => hf l' (by omega))⟩
end

/-! ### (1) `child_id` / `EdgeMap.get` vs `Kids.find?` -/

theorem RepK.find {st : St V} {pth : Pth} (c : Nat) : (ks : Kids V) → (pre : List Nat) → (lo : Nat) →
    (es : List (Nat × Nat)) → RepK st pth ks pre lo es →
    match ks.find? c, Rs.EdgeMap.get es c with
    | some t, some cid => Rep st pth t cid (pre ++ [c])
    | none, none => True
    | _, _ => False
  | .nil, pre, lo, es, h => by
    unfold RepK at h; subst h; simp [Kids.find?, Rs.EdgeMap.get]
  | .cons l t r, pre, lo, es, h => by
    unfold RepK at h
    obtain ⟨cid, es', h1, h2, h3, h4⟩ := h
    subst h1
    by_cases hl : l = c
    · subst hl; simpa [Kids.find?, Rs.EdgeMap.get] using h3
    · simpa [Kids.find?, Rs.EdgeMap.get, hl] using RepK.find c r pre (l + 1) es' h4

theorem index_eq {α : Type} (a : Array α) (i : Nat) (s : α) (h : a[i]? = some s) : Rs.index a i = .ok s := by
  simp [Rs.index, h]

/-- `child_id` under `Rep`. -/
theorem child_id_rep (g : NfaBuilder V) (pth : Pth) (out : Option (V × Nat)) (kids : Kids V) (id : Nat)
    (pre : List Nat) (c : Nat) (h : Rep g.states pth (.node out kids) id pre) :
    ∃ r, NfaBuilder.child_id g id c = .ok r ∧
      match kids.find? c, r with
      | some t, some cid => Rep g.states pth t cid (pre ++ [c])
      | none, none => True
      | _, _ => False := by
  unfold Rep at h
  obtain ⟨s, h1, h2, h3, h4⟩ := h
  exact ⟨_, by simp [NfaBuilder.child_id, index_eq _ _ _ h1], RepK.find c kids pre 0 s.edges h4⟩

/-! ### (2) `is_registered` = `Trie.isRegistered` -/

theorem is_registered_loop (g : NfaBuilder V) (pth : Pth) (pat : List Nat) : (cs : List Nat) → (t : Trie V) →
    (id : Nat) → (pre : List Nat) → Rep g.states pth t id pre →
    NfaBuilder.is_registered.loop0 g pat cs id = .ok (t.isRegistered cs)
  | [], .node out kids, id, pre, h => by
    unfold Rep at h
    obtain ⟨s, h1, h2, h3, h4⟩ := h
    simp [NfaBuilder.is_registered.loop0, index_eq _ _ _ h1, Trie.isRegistered, Trie.walk, Trie.out, h3]
  | c :: cs, .node out kids, id, pre, h => by
    obtain ⟨r, hr, hm⟩ := child_id_rep g pth out kids id pre c h
    rw [Trie.isRegistered_cons]
    cases hf : kids.find? c with
    | none =>
      rw [hf] at hm
      cases r with
      | some _ => simp at hm
      | none => simp [NfaBuilder.is_registered.loop0, hr, Trie.empty, Trie.isRegistered, Trie.out]; cases cs <;> simp [Trie.walk, Kids.find?]
    | some tc =>
      rw [hf] at hm
      cases r with
      | none => simp at hm
      | some cid =>
        simp only at hm
        simp [NfaBuilder.is_registered.loop0, hr, is_registered_loop g pth pat cs tc cid _ hm]

theorem is_registered_rep (g : NfaBuilder V) (pth : Pth) (pat : List Nat) (t : Trie V)
    (h : Rep g.states pth t 0 []) : NfaBuilder.is_registered g pat = .ok (t.isRegistered pat) := by
  simp [NfaBuilder.is_registered, Gen.rootStateId, is_registered_loop g pth pat pat t 0 [] h]

/-! ### Lockstep of `Kids.set` and `EdgeMap.insert` -/

theorem RepK.set {st st' : St V} {pth pth' : Pth} (c cid : Nat) (t' : Trie V) : (ks : Kids V) → (pre : List Nat) →
    (lo : Nat) → (es : List (Nat × Nat)) → RepK st pth ks pre lo es → lo ≤ c →
    (∀ l, l ≠ c → FrameAt st st' pth pth' (pre ++ [l])) → Rep st' pth' t' cid (pre ++ [c]) →
    RepK st' pth' (ks.set c t') pre lo (Rs.EdgeMap.insert es c cid)
  | .nil, pre, lo, es, h, hlo, hf, hr => by
    unfold RepK at h; subst h
    simp only [Kids.set, Rs.EdgeMap.insert]
    unfold RepK
    exact ⟨cid, [], rfl, hlo, hr, by unfold RepK; rfl⟩
  | .cons l t r, pre, lo, es, h, hlo, hf, hr => by
    unfold RepK at h
    obtain ⟨w, es', h1, h2, h3, h4⟩ := h
    subst h1
    simp only [Kids.set, Rs.EdgeMap.insert]
    by_cases hcl : c < l
    · simp only [hcl, if_true]
      unfold RepK
      refine ⟨cid, _, rfl, hlo, hr, ?_⟩
      unfold RepK
      exact ⟨w, es', rfl, by omega, Rep.frame t w _ h3 (hf l (by omega)),
        RepK.frame r pre (l + 1) es' h4 (fun l' hl' => hf l' (by omega))⟩
    · simp only [hcl, if_false]
      by_cases he : c = l
      · subst he
        simp only [if_true]
        unfold RepK
        exact ⟨cid, es', rfl, h2, hr, RepK.frame r pre (c + 1) es' h4 (fun l' hl' => hf l' (by omega))⟩
      · simp only [he, if_false]
        unfold RepK
        exact ⟨w, _, rfl, h2, Rep.frame t w _ h3 (hf l (fun e => he e.symm)),
          RepK.set c cid t' r pre (l + 1) es' h4 (by omega) hf hr⟩

/-- Re-inserting the edge that is already there changes nothing. -/
theorem RepK.insert_same {st : St V} {pth : Pth} (c cid : Nat) : (ks : Kids V) → (pre : List Nat) →
    (lo : Nat) → (es : List (Nat × Nat)) → RepK st pth ks pre lo es → Rs.EdgeMap.get es c = some cid →
    Rs.EdgeMap.insert es c cid = es ∧ lo ≤ c
  | .nil, pre, lo, es, h, hg => by
    unfold RepK at h; subst h; simp [Rs.EdgeMap.get] at hg
  | .cons l t r, pre, lo, es, h, hg => by
    unfold RepK at h
    obtain ⟨w, es', h1, h2, h3, h4⟩ := h
    subst h1
    by_cases hl : l = c
    · subst hl
      simp [Rs.EdgeMap.get] at hg
      subst hg
      simp [Rs.EdgeMap.insert, h2]
    · simp [Rs.EdgeMap.get, hl] at hg
      have ih := RepK.insert_same c cid r pre (l + 1) es' h4 hg
      have h5 : ¬ c < l := by omega
      have h6 : ¬ c = l := fun e => hl e.symm
      simp [Rs.EdgeMap.insert, h5, h6, ih.1]
      omega

/-! ### One step of the generated loop -/

theorem child_id_eq (g : NfaBuilder V) (id c : Nat) (s : NfaBuilderState V) (h : g.states[id]? = some s) :
    NfaBuilder.child_id g id c = .ok (Rs.EdgeMap.get s.edges c) := by
  simp [NfaBuilder.child_id, index_eq _ _ _ h]

/-- What the generated code does once the leftmost-first test fires. -/
def shadowK (g : NfaBuilder V) (pat : List Nat) : Except BuildErr (Unit × NfaBuilder V) :=
  match NfaBuilder.is_registered g pat with
  | .error e => .error e
  | .ok r =>
    if r then .error .duplicatePattern
    else if g.shadowed.contains pat then .error .duplicatePattern
    else .ok ((), { g with shadowed := pat :: g.shadowed })

theorem step_shadow (pat : List Nat) (v : V) (pl c : Nat) (cs : List Nat) (g : NfaBuilder V) (id : Nat)
    (s : NfaBuilderState V) (h : g.states[id]? = some s) (hk : (g.match_kind == 2) = true)
    (ho : s.output.isSome = true) :
    NfaBuilder.add.loop0 pat v pl (c :: cs) g id = shadowK g pat := by
  simp only [NfaBuilder.add.loop0, hk, if_true, index_eq _ _ _ h, ho, shadowK, Rs.SetL.insert]
  cases NfaBuilder.is_registered g pat with
  | error e => rfl
  | ok r =>
    cases r
    · by_cases hc : pat ∈ g.shadowed <;> simp [hc]
    · simp

theorem step_found (pat : List Nat) (v : V) (pl c : Nat) (cs : List Nat) (g : NfaBuilder V) (id cid : Nat)
    (s : NfaBuilderState V) (h : g.states[id]? = some s)
    (hns : ((g.match_kind == 2) && s.output.isSome) = false)
    (hg : Rs.EdgeMap.get s.edges c = some cid) :
    NfaBuilder.add.loop0 pat v pl (c :: cs) g id = NfaBuilder.add.loop0 pat v pl cs g cid := by
  simp only [NfaBuilder.add.loop0, index_eq _ _ _ h, child_id_eq g id c s h, hg]
  by_cases hk : (g.match_kind == 2) = true
  · have ho : s.output.isSome = false := by simpa [hk] using hns
    simp [hk, ho]
  · simp [hk]

theorem step_new (pat : List Nat) (v : V) (pl c : Nat) (cs : List Nat) (g : NfaBuilder V) (id : Nat)
    (s : NfaBuilderState V) (h : g.states[id]? = some s)
    (hns : ((g.match_kind == 2) && s.output.isSome) = false)
    (hg : Rs.EdgeMap.get s.edges c = none) (hsz : g.states.size ≤ 4294967295) :
    NfaBuilder.add.loop0 pat v pl (c :: cs) g id =
      NfaBuilder.add.loop0 pat v pl cs
        { g with states := (g.states.setIfInBounds id { s with edges := Rs.EdgeMap.insert s.edges c g.states.size }).push NfaBuilderState.default }
        g.states.size := by
  have hu : Rs.u32TryFrom g.states.size = some g.states.size := by simp [Rs.u32TryFrom, Rs.u32Max, hsz]
  simp only [NfaBuilder.add.loop0, index_eq _ _ _ h, child_id_eq g id c s h, hg, hu]
  by_cases hk : (g.match_kind == 2) = true
  · have ho : s.output.isSome = false := by simpa [hk] using hns
    simp [hk, ho]
  · simp [hk]

/-! ### Frames of the two kinds of write -/

def upd (pth : Pth) (n : Nat) (q : List Nat) : Pth := fun j => if j = n then some q else pth j

theorem lt_of_get {st : St V} {j : Nat} {s : NfaBuilderState V} (h : st[j]? = some s) : j < st.size := by
  obtain ⟨h, _⟩ := Array.getElem?_eq_some_iff.mp h; exact h

theorem write_keep (st : St V) (id j : Nat) (x s : NfaBuilderState V) (h : st[j]? = some s) (hne : j ≠ id) :
    (st.setIfInBounds id x)[j]? = some s := by
  have : ¬ id = j := fun e => hne e.symm
  simp [this, h]

theorem write_out (st : St V) (pth : Pth) (id : Nat) (pre : List Nat) (x : NfaBuilderState V)
    (hp : pth id = some pre) : Out st (st.setIfInBounds id x) pth pth pre := by
  intro j s hs hc
  have : j ≠ id := by
    intro e; subst e; exact hc pre hp (List.prefix_refl _)
  exact ⟨write_keep st id j x s hs this, rfl⟩

theorem write_frame (st : St V) (pth : Pth) (id : Nat) (pre : List Nat) (l : Nat) (x : NfaBuilderState V)
    (hp : pth id = some pre) : FrameAt st (st.setIfInBounds id x) pth pth (pre ++ [l]) := by
  intro j s pj hs hpj hpre
  have : j ≠ id := by
    intro e; subst e; rw [hp] at hpj; cases hpj; exact not_snoc_prefix _ _ hpre
  exact ⟨write_keep st id j x s hs this, hpj⟩

theorem push_out (st : St V) (pth : Pth) (x : NfaBuilderState V) (q p : List Nat) :
    Out st (st.push x) pth (upd pth st.size q) p := by
  intro j s hs _
  have hlt := lt_of_get hs
  have : ¬ j = st.size := by omega
  exact ⟨by simp [Array.getElem?_push, this, hs], by simp [upd, this]⟩

theorem push_frame (st : St V) (pth : Pth) (x : NfaBuilderState V) (q p : List Nat) :
    FrameAt st (st.push x) pth (upd pth st.size q) p := by
  intro j s pj hs hpj _
  have hlt := lt_of_get hs
  have : ¬ j = st.size := by omega
  exact ⟨by simp [Array.getElem?_push, this, hs], by simp [upd, this, hpj]⟩

theorem push_get_size (st : St V) (id : Nat) (x y : NfaBuilderState V) :
    ((st.setIfInBounds id x).push y)[st.size]? = some y := by
  have h : (st.setIfInBounds id x).size = st.size := by simp
  rw [← h]; exact Array.getElem?_push_size

theorem insert_empty_ok (lf : Bool) (o : V × Nat) : (cs : List Nat) →
    ∃ t', Trie.insert lf o (Trie.empty : Trie V) cs = .ok t'
  | [] => by simp [Trie.empty, Trie.insert]
  | c :: cs => by
    obtain ⟨t', h⟩ := insert_empty_ok lf o cs
    refine ⟨.node none (Kids.set .nil c t'), ?_⟩
    have h' : Trie.insert lf o (Trie.node none Kids.nil) cs = .ok t' := h
    simp [Trie.empty, Trie.insert, Kids.find?, h']

/-! ### (3)+(4) The insertion loop refines `Trie.insert` -/

theorem loop_refines (pat : List Nat) (v : V) (pl : Nat) : (cs : List Nat) → (t : Trie V) →
    (g : NfaBuilder V) → (pth : Pth) → (id : Nat) → (pre : List Nat) → Rep g.states pth t id pre →
    g.states.size + cs.length ≤ 4294967295 →
    match Trie.insert (g.match_kind == 2) (v, pl) t cs with
    | .dup => NfaBuilder.add.loop0 pat v pl cs g id = .error .duplicatePattern
    | .shadowed => NfaBuilder.add.loop0 pat v pl cs g id = shadowK g pat
    | .ok t' => ∃ g' pth', NfaBuilder.add.loop0 pat v pl cs g id = .ok ((), g') ∧
        Rep g'.states pth' t' id pre ∧ Out g.states g'.states pth pth' pre ∧
        g'.len = g.len + 1 ∧ g'.shadowed = g.shadowed ∧ g'.match_kind = g.match_kind ∧
        g'.states.size ≤ g.states.size + cs.length
  | [], .node out kids, g, pth, id, pre, h, hsz => by
    unfold Rep at h
    obtain ⟨s, h1, h2, h3, h4⟩ := h
    subst h3
    cases ho : s.output.isSome with
    | true => simp [Trie.insert, ho, NfaBuilder.add.loop0, index_eq _ _ _ h1, Rs.optReplace]
    | false =>
      simp only [Trie.insert, ho, NfaBuilder.add.loop0, index_eq _ _ _ h1, Rs.optReplace]
      refine ⟨_, pth, rfl, ?_, write_out _ pth id pre _ h2, rfl, rfl, rfl, by simp⟩
      unfold Rep
      refine ⟨{ s with output := some (v, pl) }, ?_, h2, rfl, ?_⟩
      · simp [lt_of_get h1]
      · exact RepK.frame kids pre 0 s.edges h4 (fun l _ => write_frame _ pth id pre l _ h2)
  | c :: cs, .node out kids, g, pth, id, pre, h, hsz => by
    unfold Rep at h
    obtain ⟨s, h1, h2, h3, h4⟩ := h
    subst h3
    have hid := lt_of_get h1
    by_cases hsh : ((g.match_kind == 2) && s.output.isSome) = true
    · have hsh' := hsh
      simp only [Bool.and_eq_true] at hsh'
      simp only [Trie.insert, hsh, if_true]
      exact step_shadow pat v pl c cs g id s h1 hsh'.1 hsh'.2
    · have hns : ((g.match_kind == 2) && s.output.isSome) = false := by simpa using hsh
      have hfind := RepK.find c kids pre 0 s.edges h4
      simp only [Trie.insert, hns]
      cases hf : kids.find? c with
      | some tc =>
        rw [hf] at hfind
        cases hg : Rs.EdgeMap.get s.edges c with
        | none => rw [hg] at hfind; exact hfind.elim
        | some cid =>
          rw [hg] at hfind
          have hfind : Rep g.states pth tc cid (pre ++ [c]) := hfind
          rw [step_found pat v pl c cs g id cid s h1 hns hg]
          have ih := loop_refines pat v pl cs tc g pth cid (pre ++ [c]) hfind (by simp at hsz; omega)
          simp only [Option.getD_some]
          cases hi : Trie.insert (g.match_kind == 2) (v, pl) tc cs with
          | dup => rw [hi] at ih; simpa using ih
          | shadowed => rw [hi] at ih; simpa using ih
          | ok t'' =>
            rw [hi] at ih
            obtain ⟨g', pth', heq, hrep', hout, hlen, hshd, hmk, hsize⟩ := ih
            refine ⟨g', pth', heq, ?_, hout.weaken (List.prefix_append _ _), hlen, hshd, hmk, by simp; omega⟩
            have hs := hout id s h1 (fun pj e hc => by
              rw [h2] at e; cases e; exact not_snoc_prefix _ _ hc)
            have hsame := RepK.insert_same c cid kids pre 0 s.edges h4 hg
            unfold Rep
            refine ⟨s, hs.1, by rw [hs.2, h2], rfl, ?_⟩
            have := RepK.set c cid t'' kids pre 0 s.edges h4 (Nat.zero_le _)
              (fun l hl => hout.frameAt hl) hrep'
            rw [hsame.1] at this
            exact this
      | none =>
        rw [hf] at hfind
        cases hg : Rs.EdgeMap.get s.edges c with
        | some cid => rw [hg] at hfind; exact hfind.elim
        | none =>
          rw [step_new pat v pl c cs g id s h1 hns hg (by omega)]
          simp only [Option.getD_none]
          obtain ⟨t'', hi⟩ := insert_empty_ok (g.match_kind == 2) (v, pl) cs
          rw [hi]
          have hrep2 : Rep ((g.states.setIfInBounds id { s with edges := Rs.EdgeMap.insert s.edges c g.states.size }).push NfaBuilderState.default)
              (upd pth g.states.size (pre ++ [c])) (Trie.empty : Trie V) g.states.size (pre ++ [c]) := by
            unfold Trie.empty Rep
            refine ⟨NfaBuilderState.default, push_get_size _ _ _ _, by simp [upd], rfl, ?_⟩
            unfold RepK
            rfl
          have ih := loop_refines pat v pl cs Trie.empty
            { g with states := (g.states.setIfInBounds id { s with edges := Rs.EdgeMap.insert s.edges c g.states.size }).push NfaBuilderState.default }
            (upd pth g.states.size (pre ++ [c])) g.states.size (pre ++ [c]) hrep2
            (by simp at hsz ⊢; omega)
          rw [hi] at ih
          obtain ⟨g', pth', heq, hrep', hout, hlen, hshd, hmk, hsize⟩ := ih
          try dsimp only at hout hlen hshd hmk
          have hne : ¬ id = g.states.size := by omega
          have hs2 := hout id { s with edges := Rs.EdgeMap.insert s.edges c g.states.size }
            (by simp [Array.getElem?_push, hne, hid])
            (fun pj e hc => by
              simp [upd, hne, h2] at e; subst e; exact not_snoc_prefix _ _ hc)
          have hsz2 : (g.states.setIfInBounds id { s with edges := Rs.EdgeMap.insert s.edges c g.states.size }).size = g.states.size := by simp
          have hsize' : g'.states.size ≤ g.states.size + (c :: cs).length := by
            simp at hsize ⊢; omega
          refine ⟨g', pth', heq, ?_, ?_, hlen, hshd, hmk, hsize'⟩
          · unfold Rep
            refine ⟨_, hs2.1, by rw [hs2.2]; simp [upd, hne, h2], rfl, ?_⟩
            refine RepK.set c g.states.size t'' kids pre 0 s.edges h4 (Nat.zero_le _) (fun l hl => ?_) hrep'
            refine FrameAt.trans (FrameAt.trans (write_frame g.states pth id pre l { s with edges := Rs.EdgeMap.insert s.edges c g.states.size } h2) ?_) (hout.frameAt hl)
            have := push_frame (g.states.setIfInBounds id { s with edges := Rs.EdgeMap.insert s.edges c g.states.size }) pth NfaBuilderState.default (pre ++ [c]) (pre ++ [l])
            rw [hsz2] at this
            exact this
          · refine Out.trans (Out.trans (write_out g.states pth id pre { s with edges := Rs.EdgeMap.insert s.edges c g.states.size } h2) ?_) (hout.weaken (List.prefix_append _ _))
            have := push_out (g.states.setIfInBounds id { s with edges := Rs.EdgeMap.insert s.edges c g.states.size }) pth NfaBuilderState.default (pre ++ [c]) pre
            rw [hsz2] at this
            exact this

/-! ### `NfaBuilder::add` refines `NfaAcc.add` -/

/-- The generated builder `g` represents the model accumulator `a`: state 0 is the root of the
trie, state 1 is the (untouched) dead state. -/
def RepAcc (g : NfaBuilder V) (a : NfaAcc V) : Prop :=
  ∃ pth : Pth, Rep g.states pth a.trie 0 [] ∧ g.len = a.len ∧ g.shadowed = a.shadowed ∧
    g.states[1]? = some NfaBuilderState.default ∧ pth 1 = none

theorem new_rep (kind : Nat) : RepAcc (NfaBuilder.new kind : NfaBuilder V) NfaAcc.init := by
  refine ⟨fun j => if j = 0 then some [] else none, ?_, rfl, rfl, by simp [NfaBuilder.new], by simp⟩
  unfold NfaAcc.init Trie.empty Rep
  refine ⟨NfaBuilderState.default, by simp [NfaBuilder.new], by simp, rfl, ?_⟩
  unfold RepK; rfl

theorem foldl_width (nb : Nat → Nat) : (l : List Nat) → (n : Nat) →
    List.foldl (fun acc c => (acc + (nb c))) n l = n + (l.map nb).sum
  | [], n => by simp
  | c :: l, n => by simp [foldl_width nb l (n + nb c)]; omega

theorem add_eq (nb : Nat → Nat) (g : NfaBuilder V) (p : LPat V)
    (hlen : (p.key.map nb).sum = p.blen ∧ p.blen ≤ 4294967295) :
    NfaBuilder.add nb g p.key p.value =
      if p.blen = 0 then .error .invalidArgument
      else NfaBuilder.add.loop0 p.key p.value p.blen p.key g 0 := by
  have h1 : List.foldl (fun acc c => (acc + (nb c))) 0 p.key = p.blen := by
    rw [foldl_width, hlen.1]; simp
  have h2 : Rs.u32TryFrom p.blen = some p.blen := by simp [Rs.u32TryFrom, Rs.u32Max, hlen.2]
  unfold NfaBuilder.add
  rw [h1, h2]
  by_cases h0 : p.blen = 0 <;> simp [Rs.mapErr, Rs.okOrElse, Rs.nonZeroU32New, h0, Gen.rootStateId]

theorem add_refines (nb : Nat → Nat) (g : NfaBuilder V) (a : NfaAcc V) (h : RepAcc g a) (p : LPat V)
    (hsz : g.states.size + p.key.length ≤ 4294967295)
    (hlen : (p.key.map nb).sum = p.blen ∧ p.blen ≤ 4294967295) :
    match NfaBuilder.add nb g p.key p.value, a.add (g.match_kind == 2) p with
    | .ok (_, g'), .ok a' => RepAcc g' a' ∧ g'.match_kind = g.match_kind ∧
        g'.states.size ≤ g.states.size + p.key.length
    | .error e, .error e' => e = e'
    | _, _ => False := by
  obtain ⟨pth, hrep, hl, hs, hd, hp1⟩ := h
  rw [add_eq nb g p hlen]
  unfold NfaAcc.add
  by_cases h0 : p.blen = 0
  · simp [h0]
  · simp only [h0, if_false]
    have hloop := loop_refines p.key p.value p.blen p.key a.trie g pth 0 [] hrep hsz
    cases hi : Trie.insert (g.match_kind == 2) (p.value, p.blen) a.trie p.key with
    | dup => rw [hi] at hloop; simp [hloop]
    | shadowed =>
      rw [hi] at hloop
      simp only [hloop, shadowK, is_registered_rep g pth p.key a.trie hrep, hs]
      cases hr : a.trie.isRegistered p.key with
      | true => simp
      | false =>
        cases hc : a.shadowed.contains p.key with
        | true => simp
        | false =>
          simp
          exact ⟨pth, hrep, hl, hs ▸ rfl, hd, hp1⟩
    | ok t' =>
      rw [hi] at hloop
      obtain ⟨g', pth', heq, hrep', hout, hlen', hshd, hmk, hsize⟩ := hloop
      simp only [heq]
      have hdead := hout 1 _ hd (fun pj e => by rw [hp1] at e; cases e)
      exact ⟨⟨pth', hrep', by simp [hlen', hl], by simp [hshd, hs], hdead.1, by rw [hdead.2, hp1]⟩, hmk, hsize⟩

/-! ### The fold over a pattern list (`build_sparse_nfa`'s loop) vs `NfaAcc.addAll` -/

/-- `for (pattern, value) in patvals { nfa.add(pattern, value)?; }` on the generated builder. -/
def addAllGen (nb : Nat → Nat) : NfaBuilder V → List (LPat V) → Except BuildErr (NfaBuilder V)
  | g, [] => .ok g
  | g, p :: ps =>
    match NfaBuilder.add nb g p.key p.value with
    | .error e => .error e
    | .ok (_, g') => addAllGen nb g' ps

theorem addAll_refines (nb : Nat → Nat) : (ps : List (LPat V)) → (g : NfaBuilder V) → (a : NfaAcc V) →
    RepAcc g a → g.states.size + (ps.map (·.key.length)).sum ≤ 4294967295 →
    (∀ p ∈ ps, (p.key.map nb).sum = p.blen ∧ p.blen ≤ 4294967295) →
    match addAllGen nb g ps, a.addAll (g.match_kind == 2) ps with
    | .ok g', .ok a' => RepAcc g' a' ∧ g'.match_kind = g.match_kind
    | .error e, .error e' => e = e'
    | _, _ => False
  | [], g, a, h, _, _ => by simp [addAllGen, NfaAcc.addAll, h]
  | p :: ps, g, a, h, hsz, hlen => by
    have hsz' : g.states.size + p.key.length + (ps.map (·.key.length)).sum ≤ 4294967295 := by
      simp at hsz; omega
    have hstep := add_refines nb g a h p (by omega) (hlen p (by simp))
    unfold addAllGen NfaAcc.addAll
    cases hg : NfaBuilder.add nb g p.key p.value with
    | error e =>
      rw [hg] at hstep
      cases hm : a.add (g.match_kind == 2) p with
      | error e' => rw [hm] at hstep; simpa using hstep
      | ok a' => rw [hm] at hstep; exact hstep.elim
    | ok r =>
      obtain ⟨u, g'⟩ := r
      rw [hg] at hstep
      cases hm : a.add (g.match_kind == 2) p with
      | error e' => rw [hm] at hstep; exact hstep.elim
      | ok a' =>
        rw [hm] at hstep
        obtain ⟨hr, hmk, hsize⟩ := hstep
        have ih := addAll_refines nb ps g' a' hr (by omega) (fun q hq => hlen q (by simp [hq]))
        rw [hmk] at ih
        simp only
        cases h1 : addAllGen nb g' ps <;> cases h2 : a'.addAll (g.match_kind == 2) ps <;>
          rw [h1, h2] at ih <;> simp_all

/-- From the empty builder: the generated insertion phase and the model's agree on the outcome, and on
success the final array represents the final trie. -/
theorem build_refines (nb : Nat → Nat) (kind : Nat) (ps : List (LPat V))
    (hsz : 2 + (ps.map (·.key.length)).sum ≤ 4294967295)
    (hlen : ∀ p ∈ ps, (p.key.map nb).sum = p.blen ∧ p.blen ≤ 4294967295) :
    match addAllGen nb (NfaBuilder.new kind) ps, (NfaAcc.init : NfaAcc V).addAll (kind == 2) ps with
    | .ok g', .ok a' => RepAcc g' a'
    | .error e, .error e' => e = e'
    | _, _ => False := by
  have h := addAll_refines nb ps (NfaBuilder.new kind) NfaAcc.init (new_rep kind)
    (by simpa [NfaBuilder.new] using hsz) hlen
  have hk : (NfaBuilder.new kind : NfaBuilder V).match_kind = kind := rfl
  rw [hk] at h
  cases h1 : addAllGen nb (NfaBuilder.new kind : NfaBuilder V) ps <;>
    cases h2 : (NfaAcc.init : NfaAcc V).addAll (kind == 2) ps <;> rw [h1, h2] at h <;> simp_all

end Daac.Tie.N

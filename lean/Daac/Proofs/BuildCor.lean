/-
Corollaries about the whole construction pipeline `buildDA` (`Daac/Model/Build.lean`):
it succeeds only on valid collections, fails in the insertion phase with a documented error on
invalid ones, records kind and variant, reports `1 + #distinct non-empty prefixes` states, and
(for the non-leftmost-first kinds) does not depend on the order of the patterns.
-/
import Daac.Model.Build
import Daac.Proofs.TrieFacts
namespace Daac
variable {V : Type}

/-- Everything after the insertion phase. -/
def buildRest (variant : Variant) (cfg : Cfg) (mapper : Mapper) (t : Trie V) (len : Nat) :
    Except BuildErr (DA V) :=
  if len = 0 then .error .invalidArgument else
  if variant = .bytewise ∧ len > u24Max then .error .automatonScale else
  let nfa := buildNfa t (cfg.kind != 0)
  match buildLayout variant cfg mapper t nfa with
  | .error e => .error e
  | .ok states =>
    .ok { variant := variant, states := states, outputs := nfa.out.outs, mapTable := mapper.table,
          alphaSize := mapper.alphaSize, kind := cfg.kind, numStates := t.size }

def mapperFor (variant : Variant) (P : List (LPat V)) : Mapper :=
  match variant with
  | .bytewise => (⟨#[], 0⟩ : Mapper)
  | .charwise => Mapper.build P

theorem buildDA_eq (variant : Variant) (cfg : Cfg) (P : List (LPat V)) :
    buildDA variant cfg P =
      if cfg.nfb = 0 then .error (.panic "assert!(n >= 1)") else
      match NfaAcc.init.addAll (cfg.kind == 2) P with
      | .error e => .error e
      | .ok acc => buildRest variant cfg (mapperFor variant P) acc.trie acc.len := by
  rfl

theorem buildRest_ok (variant : Variant) (cfg : Cfg) (m : Mapper) (t : Trie V) (len : Nat)
    (da : DA V) (h : buildRest variant cfg m t len = .ok da) :
    len ≠ 0 ∧ da.kind = cfg.kind ∧ da.variant = variant ∧ da.numStates = t.size := by
  unfold buildRest at h
  split at h
  · cases h
  · rename_i hl
    refine ⟨hl, ?_⟩
    split at h
    · cases h
    · simp only at h
      split at h
      · cases h
      · cases h; exact ⟨rfl, rfl, rfl⟩

/-- Success of the pipeline decomposes into: enough free blocks requested, successful insertion
of all patterns, at least one registered pattern, success of everything after insertion. -/
theorem buildDA_ok_decomp (variant : Variant) (cfg : Cfg) (P : List (LPat V)) (da : DA V)
    (h : buildDA variant cfg P = .ok da) :
    cfg.nfb ≠ 0 ∧ ∃ acc, NfaAcc.init.addAll (cfg.kind == 2) P = .ok acc ∧ acc.len ≠ 0 ∧
      buildTrie cfg.kind P = .ok acc.trie ∧
      buildRest variant cfg (mapperFor variant P) acc.trie acc.len = .ok da := by
  rw [buildDA_eq] at h
  by_cases h0 : cfg.nfb = 0
  · simp [h0] at h
  · refine ⟨h0, ?_⟩
    simp only [h0, if_false] at h
    cases hadd : NfaAcc.init.addAll (cfg.kind == 2) P with
    | error e => rw [hadd] at h; cases h
    | ok acc =>
      rw [hadd] at h
      have hl := (buildRest_ok _ _ _ _ _ _ h).1
      refine ⟨acc, rfl, hl, ?_, h⟩
      simp [buildTrie, hadd, hl]

theorem buildDA_ok_valid (variant : Variant) (cfg : Cfg) (P : List (LPat V)) (h : keysOk P)
    (da : DA V) : buildDA variant cfg P = .ok da →
      P ≠ [] ∧ (∀ p ∈ P, p.key ≠ []) ∧ (P.map (·.key)).Nodup := by
  intro hb
  obtain ⟨_, acc, _, _, ht, _⟩ := buildDA_ok_decomp variant cfg P da hb
  exact (buildTrie_ok_iff cfg.kind P h).mp ⟨_, ht⟩

/-- If the insertion phase fails, the pipeline fails with the same error. -/
theorem buildDA_of_buildTrie_err (variant : Variant) (cfg : Cfg) (P : List (LPat V))
    (hn : cfg.nfb ≠ 0) (e : BuildErr) (he : buildTrie cfg.kind P = .error e) :
    buildDA variant cfg P = .error e := by
  rw [buildDA_eq]
  simp only [hn, if_false]
  unfold buildTrie at he
  cases hadd : NfaAcc.init.addAll (cfg.kind == 2) P with
  | error e' => rw [hadd] at he; simpa using he
  | ok acc =>
    rw [hadd] at he
    by_cases hl : acc.len = 0
    · simp only [hl, if_true] at he
      cases he
      simp [buildRest, hl]
    · simp [hl] at he

theorem buildDA_invalid_err (variant : Variant) (cfg : Cfg) (P : List (LPat V)) (h : keysOk P)
    (hn : cfg.nfb ≠ 0)
    (hinv : ¬ (P ≠ [] ∧ (∀ p ∈ P, p.key ≠ []) ∧ (P.map (·.key)).Nodup)) :
    ∃ e, buildDA variant cfg P = .error e ∧
      ((e = .invalidArgument ∧ (P = [] ∨ ∃ p ∈ P, p.key = [])) ∨
       (e = .duplicatePattern ∧ ¬ (P.map (·.key)).Nodup)) := by
  cases ht : buildTrie cfg.kind P with
  | ok t => exact absurd ((buildTrie_ok_iff cfg.kind P h).mp ⟨t, ht⟩) hinv
  | error e =>
    exact ⟨e, buildDA_of_buildTrie_err variant cfg P hn e ht, buildTrie_err_kind cfg.kind P h e ht⟩

theorem buildDA_kind_variant (variant : Variant) (cfg : Cfg) (P : List (LPat V)) (da : DA V) :
    buildDA variant cfg P = .ok da → da.kind = cfg.kind ∧ da.variant = variant := by
  intro hb
  obtain ⟨_, acc, _, _, _, hr⟩ := buildDA_ok_decomp variant cfg P da hb
  have := buildRest_ok _ _ _ _ _ _ hr
  exact ⟨this.2.1, this.2.2.1⟩

theorem buildDA_numStates (variant : Variant) (cfg : Cfg) (P : List (LPat V)) (h : keysOk P)
    (da : DA V) (hb : buildDA variant cfg P = .ok da) (L : List (List Nat)) (hL : L.Nodup)
    (hmem : ∀ u, u ∈ L ↔
      ∃ k ∈ retainedKeys (cfg.kind == 2) (P.map (·.key)), u ∈ nprefixes k) :
    da.numStates = 1 + L.length := by
  obtain ⟨_, acc, _, _, ht, hr⟩ := buildDA_ok_decomp variant cfg P da hb
  have := (buildRest_ok _ _ _ _ _ _ hr).2.2.2
  rw [this, buildTrie_size cfg.kind P h acc.trie ht L hL hmem]

/-! ## Order independence -/

/-- `Mapper.build` from the table length and the frequency array. -/
def Mapper.ofFreqs (len : Nat) (freqs : Array Nat) : Mapper := Id.run do
  let mut sorted : List (Nat × Nat) := []
  for c in [0:len] do
    if freqs[c]! != 0 then sorted := insertFreq (c, freqs[c]!) sorted
  let mut table : Array Nat := Array.replicate len invalidCode
  let mut i := 0
  for x in sorted do
    table := table.set! x.1 i
    i := i + 1
  return ⟨table, sorted.length⟩

def maxLabel (P : List (LPat V)) : Nat := P.foldl (fun m p => p.key.foldl max m) 0
def tableLen (P : List (LPat V)) : Nat :=
  if P.any (fun p => !p.key.isEmpty) then maxLabel P + 1 else 0

def bump (a : Array Nat) (c : Nat) : Array Nat := a.modify c (· + 1)

def freqsOf (len : Nat) (P : List (LPat V)) : Array Nat :=
  (P.flatMap (·.key)).foldl bump (Array.replicate len 0)

theorem Mapper.build_eq (P : List (LPat V)) :
    Mapper.build P = Mapper.ofFreqs (tableLen P) (freqsOf (tableLen P) P) := by
  have hf : freqsOf (tableLen P) P = Id.run (do
      let mut freqs : Array Nat := Array.replicate (tableLen P) 0
      for p in P do
        for c in p.key do
          freqs := freqs.modify c (· + 1)
      return freqs) := by
    simp [freqsOf, List.foldl_flatMap]
    rfl
  rw [hf]
  rfl

theorem bump_comm (a : Array Nat) (i j : Nat) : bump (bump a i) j = bump (bump a j) i := by
  unfold bump
  apply Array.ext
  · simp
  · intro k h1 h2
    simp only [Array.getElem_modify]
    split <;> split <;> rfl

theorem maxLabel_perm {P P' : List (LPat V)} (hp : P.Perm P') : maxLabel P = maxLabel P' := by
  have h : ∀ Q : List (LPat V), maxLabel Q = (Q.flatMap (·.key)).foldl max 0 := by
    intro Q; simp [maxLabel, List.foldl_flatMap]
  rw [h, h]
  exact (hp.flatMap_right _).foldl_eq' (fun x _ y _ z => by omega) 0

theorem tableLen_perm {P P' : List (LPat V)} (hp : P.Perm P') : tableLen P = tableLen P' := by
  unfold tableLen
  rw [hp.any_eq, maxLabel_perm hp]

theorem freqsOf_perm (len : Nat) {P P' : List (LPat V)} (hp : P.Perm P') :
    freqsOf len P = freqsOf len P' :=
  (hp.flatMap_right _).foldl_eq' (fun x _ y _ z => bump_comm z x y) _

/-- The code mapper does not depend on the order of the patterns. -/
theorem Mapper.build_perm {P P' : List (LPat V)} (hp : P.Perm P') :
    Mapper.build P = Mapper.build P' := by
  rw [Mapper.build_eq, Mapper.build_eq, tableLen_perm hp, freqsOf_perm _ hp]

theorem mapperFor_perm (variant : Variant) {P P' : List (LPat V)} (hp : P.Perm P') :
    mapperFor variant P = mapperFor variant P' := by
  cases variant
  · rfl
  · exact Mapper.build_perm hp

/-- Order independence of the whole pipeline (standard and leftmost-longest kinds), given order
independence of the insertion phase (`hadd`, provided by `addAll_perm` of `TriePerm.lean`). -/
theorem buildDA_perm (variant : Variant) (cfg : Cfg) (hk : cfg.kind ≠ 2) (P P' : List (LPat V))
    (hp : P.Perm P')
    (hadd : ∀ a1, NfaAcc.init.addAll false P = .ok a1 →
      ∃ a2, NfaAcc.init.addAll false P' = .ok a2 ∧ a2.trie = a1.trie ∧ a2.len = a1.len)
    (da : DA V) : buildDA variant cfg P = .ok da → buildDA variant cfg P' = .ok da := by
  intro hb
  have hlf : (cfg.kind == 2) = false := by simpa using hk
  obtain ⟨hn, acc, ha, _, _, hr⟩ := buildDA_ok_decomp variant cfg P da hb
  rw [hlf] at ha
  obtain ⟨a2, h2, ht, hl⟩ := hadd acc ha
  rw [buildDA_eq]
  simp only [hn, if_false, hlf, h2]
  rw [ht, hl, ← mapperFor_perm variant hp]
  exact hr

#print axioms buildDA_ok_valid
#print axioms buildDA_invalid_err
#print axioms buildDA_kind_variant
#print axioms buildDA_numStates
#print axioms Mapper.build_perm
#print axioms buildDA_perm
end Daac

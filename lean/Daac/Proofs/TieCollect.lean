/-
Translation tie: lifting the per-call equalities (`*_next_eq`) to whole searches — a generated
iterator that simulates a model iterator under an abstraction map gives the same `collectWith`
result (same matches, same pulled counts, same faults).
-/
import Daac.Proofs.TieBase
namespace Daac.Tie
open Daac Daac.Gen

variable {V : Type}

/-- A generated `next` (result pair) as a model-style `Step` function. -/
def asStep {σ : Type} (next : σ → Except Fault (Option (Rs.Match V) × σ)) (s : σ) :
    Except Fault (Step σ V) :=
  match next s with
  | .error e => .error e
  | .ok (r, s') => .ok ⟨r.map Rs.Match.toModel, s'⟩

theorem collect_sim {σ τ : Type}
    (nextG : σ → Except Fault (Option (Rs.Match V) × σ)) (nextM : τ → Except Fault (Step τ V))
    (abs : σ → τ) (Inv : σ → Prop) (pulledG : σ → Nat) (pulledM : τ → Nat)
    (hp : ∀ s, pulledG s = pulledM (abs s))
    (hstep : ∀ s, Inv s → (nextG s).map (obs abs) = (nextM (abs s)).map obsM)
    (hinv : ∀ s r s', Inv s → nextG s = .ok (r, s') → Inv s') :
    ∀ (fuel : Nat) (s : σ), Inv s →
      collectWith (asStep nextG) pulledG fuel s = collectWith nextM pulledM fuel (abs s) := by
  intro fuel
  induction fuel with
  | zero => intro s _; rfl
  | succ fuel ih =>
    intro s hs
    have h1 := hstep s hs
    cases hg : nextG s with
    | error e =>
      have hA : asStep nextG s = .error e := by simp [asStep, hg]
      rw [hg] at h1
      cases hm : nextM (abs s) with
      | error e' =>
        rw [hm] at h1; simp [Except.map] at h1
        simp only [collectWith, hA, hm, h1]
      | ok st => rw [hm] at h1; simp [Except.map] at h1
    | ok p =>
      obtain ⟨r, s'⟩ := p
      have hA : asStep nextG s = .ok ⟨r.map Rs.Match.toModel, s'⟩ := by simp [asStep, hg]
      rw [hg] at h1
      have hs' := hinv s r s' hs hg
      cases hm : nextM (abs s) with
      | error e' => rw [hm] at h1; simp [Except.map] at h1
      | ok st =>
        rw [hm] at h1
        simp only [Except.map, obs, obsM, Except.ok.injEq, Prod.mk.injEq] at h1
        obtain ⟨hr, hit⟩ := h1
        obtain ⟨res, it⟩ := st
        simp only at hr hit
        subst hit
        cases r with
        | none =>
          simp only [Option.map_none] at hr
          subst hr
          simp only [collectWith, hA, hm, Option.map_none, hp]
        | some m =>
          simp only [Option.map_some] at hr
          subst hr
          simp only [collectWith, hA, hm, Option.map_some, ih s' hs', hp]

end Daac.Tie

/-
Interface between the two halves of the Rung-1 proof for the standard kind:
`Daac/Proofs/StdSem2.lean` proves `DA.tableInv … → StdSem da P`;
`Daac/Proofs/StdIter.lean` proves that, given `StdSem da P`, the three standard-kind iterators
return exactly the item-level specification below.
-/
import Daac.Inv
import Daac.Proofs.StdSem
namespace Daac
variable {V : Type}

/-- The output chain starting at (1-based) position `p` lists exactly the records `l`. -/
inductive ChainIs (da : DA V) : Nat → List (V × Nat) → Prop where
  | nil : ChainIs da 0 []
  | cons {p : Nat} {o : Out V} {l : List (V × Nat)} :
      p ≠ 0 → da.out p = .ok o → ChainIs da o.parent l → ChainIs da p ((o.value, o.length) :: l)

/-- Patterns (label level) that are suffixes of `x`, longest first; never the empty key. -/
def sufLPats (P : List (LPat V)) (x : List Nat) : List (LPat V) :=
  (sufs x).flatMap (fun s => if s = [] then [] else P.filter (fun p => p.key = s))

/-- Index of the node `u`. -/
def DA.idx (da : DA V) (u : List Nat) : Nat := (da.walk u).getD rootIdx

/-- A label the evaluation of the invariants ranged over, or one without a code (char-wise
only). For the byte-wise automaton this is `c < 256`. -/
def LabelOk (da : DA V) (c : Nat) : Prop := c ∈ da.sigma ∨ da.code c = none

/-- Semantics of the tables of a standard-kind automaton for the pattern list `P`. -/
structure StdSem (da : DA V) (P : List (LPat V)) : Prop where
  root : da.idx [] = rootIdx
  /-- the transition function computes the longest suffix that is a node, without faulting -/
  next_ok : ∀ u ∈ nodeList P, ∀ c, LabelOk da c →
    da.next (da.idx u) c = .ok (da.idx (lsuf (nodeList P) (u ++ [c])))
  /-- each node's output chain lists the patterns that are suffixes of its string -/
  chain_ok : ∀ u ∈ nodeList P, ∃ st, da.st (da.idx u) = .ok st ∧
    ChainIs da st.opos ((sufLPats P u).map (fun p => (p.value, p.blen)))

/-- The match for the label-level pattern `p` ending at byte offset `e`. -/
def lmatchAt (p : LPat V) (e : Nat) : Match V := ⟨e - p.blen, e, p.value⟩

/-- Item-level specification of the overlapping search: `pre` = labels consumed so far. -/
def specOvItems (P : List (LPat V)) : List Nat → List Item → List (Match V)
  | _, [] => []
  | pre, it :: rest =>
    (sufLPats P (pre ++ [it.label])).map (fun p => lmatchAt p it.stop) ++
      specOvItems P (pre ++ [it.label]) rest

def specNoSufItems (P : List (LPat V)) : List Nat → List Item → List (Match V)
  | _, [] => []
  | pre, it :: rest =>
    ((sufLPats P (pre ++ [it.label])).head?.map (fun p => lmatchAt p it.stop)).toList ++
      specNoSufItems P (pre ++ [it.label]) rest

/-- `seen` = labels consumed since the end of the previous match. -/
def specFindItems (P : List (LPat V)) : List Nat → List Item → List (Match V)
  | _, [] => []
  | seen, it :: rest =>
    match (sufLPats P (seen ++ [it.label])).head? with
    | some p => lmatchAt p it.stop :: specFindItems P [] rest
    | none => specFindItems P (seen ++ [it.label]) rest

/-- All items of a haystack as the standard-kind iterators see them. -/
def itemsOfHay (v : Variant) (h : List Nat) : Except Fault (List Item) :=
  match allItems v (h.length + 1) ⟨h, 0⟩ with
  | .error e => .error e
  | .ok ws => .ok (ws.map fun w => ⟨w.label, w.stop⟩)

end Daac

/-
Interface for the NFA-level proofs of the leftmost kinds: the statement (F) about the fail links
(proved in Proofs/NfaLm.lean) as a predicate, and the leftmost transition function on the sparse
NFA (what `next_state_id_leftmost_unchecked` computes once the NFA is laid out in the tables).
-/
import Daac.Proofs.NfaIface
namespace Daac
variable {V : Type}

/-- (F): the fail link of every non-root node is dead iff following the ordinary fail link would
lose the leftmost-longest occurrence contained in the node; otherwise it is the ordinary link. -/
def FailChar (P : List (LPat V)) (fm : FailMap) : Prop :=
  ∀ u, u ∈ nodeList P → u ≠ [] →
    fm.get u =
      (match bestIn P u 0 with
       | some (s, _) => if u.length - (lps (nodeList P) u).length > s then .dead
                        else .node (lps (nodeList P) u)
       | none => .node (lps (nodeList P) u))

/-- The leftmost transition on the sparse NFA: child if present; at the root stay; if the fail
link is dead go to the root; else retry from the fail target. -/
def nfaNextLm (t : Trie V) (fm : FailMap) : Nat → List Nat → Nat → List Nat
  | 0, _, _ => []
  | fuel + 1, u, c =>
    if t.hasNode (u ++ [c]) then u ++ [c]
    else if u = [] then []
    else match fm.get u with
      | .dead => []
      | .node f => nfaNextLm t fm fuel f c

end Daac

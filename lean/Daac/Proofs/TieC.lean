/-
Translation tie, char-wise: the definitions GENERATED from /repo's Rust source by
tools/rs2lean.py (`Daac/Gen/SearchC.lean`) are extensionally equal to the hand-written model
(`Daac/Model/Search.lean`) that every property theorem is about.
-/
import Daac.Gen.SearchC
import Daac.Proofs.TieBase
import Daac.Proofs.Utf8
namespace Daac.Tie
open Daac Daac.Gen

variable {V : Type}

namespace C

def absFind (it : Gen.C.FindIterator V) : FindIt := ⟨it.haystack.inner⟩
def absNoSuf (it : Gen.C.FindOverlappingNoSuffixIterator V) : NoSufIt := ⟨it.haystack.inner, it.state_id⟩
def absOv (it : Gen.C.FindOverlappingIterator V) : OvIt :=
  ⟨it.haystack.inner, it.state_id, it.pos, optNat it.output_pos⟩
def absLm (it : Gen.C.LestmostFindIterator V) : LmIt := ⟨it.haystack, it.pos⟩

theorem getU_states (da : DA V) (i : Nat) :
    Rs.getUnchecked da.states i .oobStates = da.st i := by
  unfold Rs.getUnchecked DA.st; cases da.states[i]? <;> rfl

theorem getU_outputs (da : DA V) (p : Nat) (hp : p ≠ 0) :
    Rs.getUnchecked da.outputs (p - 1) .oobOutputs = da.out p := by
  unfold Rs.getUnchecked DA.out; simp only [hp, if_false]; cases da.outputs[p - 1]? <;> rfl

theorem mapper_get_eq (da : DA V) (hv : da.variant = .charwise) (c : Nat) :
    Gen.C.CodeMapper.get da c = da.code c := by
  unfold Gen.C.CodeMapper.get DA.code
  rw [hv]
  simp only [invalidCode]
  cases da.mapTable[c]? with
  | none => rfl
  | some code => by_cases h : code = Gen.invalidCode <;> simp [h]

theorem child_eq (da : DA V) (hv : da.variant = .charwise) (s c : Nat) :
    Gen.C.DA.child_index_unchecked da s c = da.child s c := by
  unfold Gen.C.DA.child_index_unchecked DA.child
  simp only [getU_states, hv]
  cases da.st s with
  | error e => rfl
  | ok st =>
    simp only [Rs.St.base, Rs.nonZero]
    by_cases hb : st.base = 0
    · simp [hb]
    · simp only [hb, if_false]
      cases da.st (st.base ^^^ c) with
      | error e => rfl
      | ok ch => by_cases hc : ch.check = s <;> simp [hc]

theorem loop_eq (da : DA V) (hv : da.variant = .charwise) (mc fuel s n : Nat) :
    Gen.C.DA.next_state_id_unchecked.loop0 da mc fuel s = (da.nextLoop fuel s mc n).map (·.1) := by
  induction fuel generalizing s n with
  | zero => rfl
  | succ fuel ih =>
    unfold Gen.C.DA.next_state_id_unchecked.loop0 DA.nextLoop
    simp only [child_eq da hv, getU_states]
    cases da.child s mc with
    | error e => rfl
    | ok r =>
      cases r with
      | some t => rfl
      | none =>
        simp only [rootIdx]
        by_cases hs : s = Gen.rootStateIdx
        · simp [hs, Except.map]
        · simp only [hs, decide_false, if_false]
          cases da.st s with
          | error e => rfl
          | ok st => exact ih st.fail (n + 1)

theorem next_state_eq (da : DA V) (hv : da.variant = .charwise) (s c : Nat) :
    Gen.C.DA.next_state_id_unchecked da s c = da.next s c := by
  unfold Gen.C.DA.next_state_id_unchecked DA.next DA.nextS
  rw [mapper_get_eq da hv]
  cases da.code c with
  | none => rfl
  | some mc => exact loop_eq da hv mc _ s 0

theorem loopLm_eq (da : DA V) (hv : da.variant = .charwise) (mc fuel s n : Nat) :
    Gen.C.DA.next_state_id_leftmost_unchecked.loop0 da mc fuel s
      = (da.nextLoopLm fuel s mc n).map (·.1) := by
  induction fuel generalizing s n with
  | zero => rfl
  | succ fuel ih =>
    unfold Gen.C.DA.next_state_id_leftmost_unchecked.loop0 DA.nextLoopLm
    simp only [child_eq da hv, getU_states]
    cases da.child s mc with
    | error e => rfl
    | ok r =>
      cases r with
      | some t => rfl
      | none =>
        simp only [rootIdx, deadIdx]
        by_cases hs : s = Gen.rootStateIdx
        · simp [hs, Except.map]
        · simp only [hs, decide_false, if_false]
          cases da.st s with
          | error e => rfl
          | ok st =>
            by_cases hd : st.fail = Gen.deadStateIdx
            · simp [hd, Except.map]
            · simp only [hd, decide_false, if_false]
              exact ih st.fail (n + 1)

theorem next_state_lm_eq (da : DA V) (hv : da.variant = .charwise) (s c : Nat) :
    Gen.C.DA.next_state_id_leftmost_unchecked da s c = da.nextLm s c := by
  unfold Gen.C.DA.next_state_id_leftmost_unchecked DA.nextLm DA.nextLmS
  rw [mapper_get_eq da hv]
  cases da.code c with
  | none => rfl
  | some mc => exact loopLm_eq da hv mc _ s 0

theorem isScalar_lt128 (c : Nat) (h : c < 128) : isScalar c = true := by
  simp [isScalar]; omega

/-- `CharWithEndOffsetIterator::next` = the model's decoder `decodeNext` (same faults, same
end offsets, same remaining source). -/
theorem decoder_next_eq (it : Gen.C.CharWithEndOffsetIterator V) :
    (Gen.C.CharWithEndOffsetIterator.next it).map
        (fun p => (p.1.map (fun q => (⟨q.2, q.1⟩ : Item)), p.2.inner))
      = (decodeNext it.inner).map (fun o => match o with
          | none => (none, it.inner)
          | some (item, src') => (some item, src')) := by
  obtain ⟨⟨rest, pulled⟩⟩ := it
  unfold Gen.C.CharWithEndOffsetIterator.next decodeNext
  simp only [Rs.Enumerate.next, Src.pull, Rs.unwrapUnchecked, Rs.charFromU32Unchecked]
  cases rest with
  | nil => rfl
  | cons b0 r =>
    simp only []
    by_cases h0 : b0 < 128
    · simp [h0, isScalar_lt128 b0 h0, Except.map]
    · simp only [h0, decide_false, if_false]
      cases r with
      | nil => rfl
      | cons b1 r =>
        simp only []
        by_cases h1 : b0 < 224
        · simp only [h1, decide_true, if_true]
          generalize (b0 &&& 31) <<< 6 ||| b1 &&& 63 = cp
          cases hs : isScalar cp <;> simp [Except.map]
        · simp only [h1, decide_false, if_false]
          cases r with
          | nil => rfl
          | cons b2 r =>
            simp only []
            by_cases h2 : b0 < 240
            · simp only [h2, decide_true, if_true]
              generalize (b0 &&& 15) <<< 12 ||| ((b1 &&& 63) <<< 6 ||| b2 &&& 63) = cp
              cases hs : isScalar cp <;> simp [Except.map]
            · simp only [h2, decide_false, if_false]
              cases r with
              | nil => rfl
              | cons b3 r =>
                simp only []
                generalize (b0 &&& 7) <<< 18 ||| (((b1 &&& 63) <<< 6 ||| b2 &&& 63) <<< 6 ||| b3 &&& 63) = cp
                cases hs : isScalar cp <;> simp [Except.map]


theorem decoder_cases (it : Gen.C.CharWithEndOffsetIterator V) :
    Gen.C.CharWithEndOffsetIterator.next it =
      (match decodeNext it.inner with
       | .error e => .error e
       | .ok none => .ok (none, it)
       | .ok (some (item, src')) => .ok (some (item.stop, item.label), ⟨src'⟩)) := by
  have h := decoder_next_eq it
  cases hn : Gen.C.CharWithEndOffsetIterator.next it with
  | error e =>
    cases hd : decodeNext it.inner with
    | error e' => simp [hn, hd, Except.map] at h; simp [h]
    | ok o => simp [hn, hd, Except.map] at h
  | ok p =>
    obtain ⟨r, ⟨s⟩⟩ := p
    cases hd : decodeNext it.inner with
    | error e' => simp [hn, hd, Except.map] at h
    | ok o =>
      obtain ⟨src⟩ := it
      cases o with
      | none =>
        simp [hn, hd, Except.map] at h
        simp [h]
      | some q =>
        obtain ⟨item, src'⟩ := q
        simp [hn, hd, Except.map] at h
        obtain ⟨h1, h2⟩ := h
        cases r with
        | none => simp at h1
        | some q =>
          obtain ⟨a, b⟩ := q
          simp at h1
          obtain ⟨_, _, ⟨rfl, rfl⟩, rfl⟩ := h1
          subst h2
          rfl

def fFind : Ctl (Option (Rs.Match V) × Gen.C.FindIterator V) (Gen.C.FindIterator V × Nat) →
    Option (Daac.Match V) × DA V × Src
  | .ret (r, i) => (r.map Rs.Match.toModel, i.pma, i.haystack.inner)
  | .done (i, _) => (none, i.pma, i.haystack.inner)

theorem outputPos_eq (st : St) : Rs.St.outputPos st = if st.opos = 0 then none else some st.opos := rfl

theorem find_loop (fuel : Nat) (it : Gen.C.FindIterator V) (hv : it.pma.variant = .charwise)
    (state : Nat) :
    (Gen.C.FindIterator.next.loop0 fuel it state).map fFind
      = (scanFirst it.pma fuel state it.haystack.inner).map (fun x => (x.1, it.pma, x.2.2)) := by
  induction fuel generalizing it state with
  | zero => rfl
  | succ fuel ih =>
    unfold Gen.C.FindIterator.next.loop0 scanFirst
    simp only [hv, nextItem, decoder_cases]
    cases decodeNext it.haystack.inner with
    | error e => rfl
    | ok o =>
      cases o with
      | none => rfl
      | some q =>
        obtain ⟨item, src'⟩ := q
        simp only [next_state_eq _ hv, getU_states]
        cases it.pma.next state item.label with
        | error e => rfl
        | ok state' =>
          simp only []
          cases it.pma.st state' with
          | error e => rfl
          | ok st =>
            simp only [outputPos_eq]
            by_cases ho : st.opos = 0
            · simp only [ho, if_true, ne_eq, not_true, if_false]
              exact ih ⟨it.pma, ⟨src'⟩⟩ hv state'
            · simp only [ho, if_false, ne_eq, not_false_eq_true, if_true, getU_outputs _ _ ho]
              cases it.pma.out st.opos with
              | error e => rfl
              | ok o => simp [Except.map, fFind, mkMatch, Rs.Match.toModel]

theorem find_next_eq (it : Gen.C.FindIterator V) (hv : it.pma.variant = .charwise) :
    (Gen.C.FindIterator.next it).map (obs (fun i => (i.pma, absFind i)))
      = (FindIt.next it.pma (absFind it)).map (fun st => (st.result, (it.pma, st.it))) := by
  have h := find_loop (it.haystack.inner.rest.length + 1) it hv Gen.rootStateIdx
  unfold Gen.C.FindIterator.next FindIt.next
  simp only [absFind, rootIdx]
  cases hl : Gen.C.FindIterator.next.loop0 (it.haystack.inner.rest.length + 1) it Gen.rootStateIdx with
  | error e =>
    cases hs : scanFirst it.pma (it.haystack.inner.rest.length + 1) Gen.rootStateIdx it.haystack.inner with
    | error e' => simp [hl, hs, Except.map] at h; simp [h, Except.map]
    | ok x => simp [hl, hs, Except.map] at h
  | ok c =>
    cases hs : scanFirst it.pma (it.haystack.inner.rest.length + 1) Gen.rootStateIdx it.haystack.inner with
    | error e' => simp [hl, hs, Except.map] at h
    | ok x =>
      obtain ⟨r, s', src'⟩ := x
      simp [hl, hs, Except.map] at h
      cases c with
      | ret p => 
        obtain ⟨r', i⟩ := p
        simp [fFind] at h
        simp [Except.map, obs, h]
      | done p =>
        obtain ⟨i, s⟩ := p
        simp [fFind] at h
        simp [Except.map, obs, h]
def fNoSuf : Ctl (Option (Rs.Match V) × Gen.C.FindOverlappingNoSuffixIterator V)
      (Gen.C.FindOverlappingNoSuffixIterator V) → Option (Daac.Match V) × DA V × Src × Nat
  | .ret (r, i) => (r.map Rs.Match.toModel, i.pma, i.haystack.inner, i.state_id)
  | .done i => (none, i.pma, i.haystack.inner, i.state_id)

theorem nosuf_loop (fuel : Nat) (it : Gen.C.FindOverlappingNoSuffixIterator V)
    (hv : it.pma.variant = .charwise) :
    (Gen.C.FindOverlappingNoSuffixIterator.next.loop0 fuel it).map fNoSuf
      = (scanFirst it.pma fuel it.state_id it.haystack.inner).map
          (fun x => (x.1, it.pma, x.2.2, x.2.1)) := by
  induction fuel generalizing it with
  | zero => rfl
  | succ fuel ih =>
    unfold Gen.C.FindOverlappingNoSuffixIterator.next.loop0 scanFirst
    simp only [hv, nextItem, decoder_cases]
    cases decodeNext it.haystack.inner with
    | error e => rfl
    | ok o =>
      cases o with
      | none => rfl
      | some q =>
        obtain ⟨item, src'⟩ := q
        simp only [next_state_eq _ hv, getU_states]
        cases it.pma.next it.state_id item.label with
        | error e => rfl
        | ok state' =>
          simp only []
          cases it.pma.st state' with
          | error e => rfl
          | ok st =>
            simp only [outputPos_eq]
            by_cases ho : st.opos = 0
            · simp only [ho, if_true, ne_eq, not_true, if_false]
              exact ih ⟨it.pma, ⟨src'⟩, state'⟩ hv
            · simp only [ho, if_false, ne_eq, not_false_eq_true, if_true, getU_outputs _ _ ho]
              cases it.pma.out st.opos with
              | error e => rfl
              | ok o => simp [Except.map, fNoSuf, mkMatch, Rs.Match.toModel]

theorem nosuf_next_eq (it : Gen.C.FindOverlappingNoSuffixIterator V) (hv : it.pma.variant = .charwise) :
    (Gen.C.FindOverlappingNoSuffixIterator.next it).map (obs (fun i => (i.pma, absNoSuf i)))
      = (NoSufIt.next it.pma (absNoSuf it)).map (fun st => (st.result, (it.pma, st.it))) := by
  have h := nosuf_loop (it.haystack.inner.rest.length + 1) it hv
  unfold Gen.C.FindOverlappingNoSuffixIterator.next NoSufIt.next
  simp only [absNoSuf]
  cases hl : Gen.C.FindOverlappingNoSuffixIterator.next.loop0 (it.haystack.inner.rest.length + 1) it with
  | error e =>
    cases hs : scanFirst it.pma (it.haystack.inner.rest.length + 1) it.state_id it.haystack.inner with
    | error e' => simp [hl, hs, Except.map] at h; simp [h, Except.map]
    | ok x => simp [hl, hs, Except.map] at h
  | ok c =>
    cases hs : scanFirst it.pma (it.haystack.inner.rest.length + 1) it.state_id it.haystack.inner with
    | error e' => simp [hl, hs, Except.map] at h
    | ok x =>
      obtain ⟨r, s', src'⟩ := x
      simp [hl, hs, Except.map] at h
      cases c with
      | ret p =>
        obtain ⟨r', i⟩ := p
        simp [fNoSuf] at h
        simp [Except.map, obs, h]
      | done i =>
        simp [fNoSuf] at h
        simp [Except.map, obs, h]

def OvWf (it : Gen.C.FindOverlappingIterator V) : Prop := it.output_pos ≠ some 0

def fOv : Ctl (Option (Rs.Match V) × Gen.C.FindOverlappingIterator V)
      (Gen.C.FindOverlappingIterator V) → Option (Daac.Match V) × DA V × OvIt
  | .ret (r, i) => (r.map Rs.Match.toModel, i.pma, absOv i)
  | .done i => (none, i.pma, absOv i)

theorem optNat_some (p : Nat) : optNat (some p) = p := rfl

theorem optNat_nonZero (x : Nat) : optNat (Rs.nonZero x) = x := by
  unfold Rs.nonZero; split <;> simp [optNat, *]

theorem ov_loop (fuel : Nat) (it : Gen.C.FindOverlappingIterator V)
    (hv : it.pma.variant = .charwise) :
    (Gen.C.FindOverlappingIterator.next.loop0 fuel it).map fOv
      = (scanOv it.pma fuel (absOv it)).map (fun st => (st.result, it.pma, st.it)) := by
  induction fuel generalizing it with
  | zero => rfl
  | succ fuel ih =>
    unfold Gen.C.FindOverlappingIterator.next.loop0 scanOv
    simp only [hv, nextItem, decoder_cases, absOv]
    cases decodeNext it.haystack.inner with
    | error e => rfl
    | ok o =>
      cases o with
      | none => rfl
      | some q =>
        obtain ⟨item, src'⟩ := q
        simp only [next_state_eq _ hv, getU_states]
        cases it.pma.next it.state_id item.label with
        | error e => rfl
        | ok state' =>
          simp only []
          cases it.pma.st state' with
          | error e => rfl
          | ok st =>
            simp only [outputPos_eq]
            by_cases ho : st.opos = 0
            · simp only [ho, if_true, ne_eq, not_true, if_false]
              exact ih ⟨it.pma, ⟨src'⟩, state', item.stop, it.output_pos⟩ hv
            · simp only [ho, if_false, ne_eq, not_false_eq_true, if_true, getU_outputs _ _ ho]
              cases it.pma.out st.opos with
              | error e => rfl
              | ok o => simp [Except.map, fOv, absOv, mkMatch, Rs.Match.toModel, Rs.Out.parent, optNat_nonZero]

theorem ov_next_eq (it : Gen.C.FindOverlappingIterator V) (hv : it.pma.variant = .charwise)
    (hw : OvWf it) :
    (Gen.C.FindOverlappingIterator.next it).map (obs (fun i => (i.pma, absOv i)))
      = (OvIt.next it.pma (absOv it)).map (fun st => (st.result, (it.pma, st.it))) := by
  unfold Gen.C.FindOverlappingIterator.next OvIt.next
  cases hop : it.output_pos with
  | some p =>
    have hp : p ≠ 0 := by intro h; subst h; exact hw hop
    simp only [absOv, hop, optNat_some, ne_eq, hp, not_false_eq_true, if_true, getU_outputs _ _ hp]
    cases it.pma.out p with
    | error e => rfl
    | ok o => simp [Except.map, obs, mkMatch, Rs.Match.toModel, Rs.Out.parent, optNat_nonZero]
  | none =>
    have h := ov_loop (it.haystack.inner.rest.length + 1) it hv
    have e : (absOv it).opos = 0 := by simp [absOv, hop, optNat]
    have e2 : (absOv it).src = it.haystack.inner := rfl
    simp only [e, ne_eq, not_true, if_false, e2]
    cases hl : Gen.C.FindOverlappingIterator.next.loop0 (it.haystack.inner.rest.length + 1) it with
    | error e =>
      cases hs : scanOv it.pma (it.haystack.inner.rest.length + 1) (absOv it) with
      | error e' => simp [hl, hs, Except.map] at h; simp [h, Except.map]
      | ok x => simp [hl, hs, Except.map] at h
    | ok c =>
      cases hs : scanOv it.pma (it.haystack.inner.rest.length + 1) (absOv it) with
      | error e' => simp [hl, hs, Except.map] at h
      | ok x =>
        obtain ⟨r, oi⟩ := x
        simp [hl, hs, Except.map] at h
        cases c with
        | ret p =>
          obtain ⟨r', i⟩ := p
          simp [fOv] at h
          simp [Except.map, obs, h]
        | done i =>
          simp [fOv] at h
          simp [Except.map, obs, h]

theorem nonZero_ne (x : Nat) : Rs.nonZero x ≠ some 0 := by
  unfold Rs.nonZero; split <;> simp [*]

theorem ov_loop_wf (fuel : Nat) (it : Gen.C.FindOverlappingIterator V) :
    match Gen.C.FindOverlappingIterator.next.loop0 fuel it with
    | .error _ => True
    | .ok (.ret (_, it')) => OvWf it'
    | .ok (.done it') => it'.output_pos = it.output_pos := by
  induction fuel generalizing it with
  | zero => simp [Gen.C.FindOverlappingIterator.next.loop0]
  | succ fuel ih =>
    unfold Gen.C.FindOverlappingIterator.next.loop0
    simp only [decoder_cases]
    cases decodeNext it.haystack.inner with
    | error e => simp
    | ok o =>
      cases o with
      | none => simp
      | some q =>
        obtain ⟨item, src'⟩ := q
        simp only []
        cases Gen.C.DA.next_state_id_unchecked it.pma it.state_id item.label with
        | error e => simp
        | ok state' =>
          simp only []
          cases Rs.getUnchecked it.pma.states state' Fault.oobStates with
          | error e => simp
          | ok st =>
            simp only []
            cases Rs.St.outputPos st with
            | none => exact ih ⟨it.pma, ⟨src'⟩, state', item.stop, it.output_pos⟩
            | some p =>
              simp only []
              cases Rs.getUnchecked it.pma.outputs (p - 1) Fault.oobOutputs with
              | error e => simp
              | ok o => simp [OvWf, Rs.Out.parent, nonZero_ne]

theorem ov_next_wf (it : Gen.C.FindOverlappingIterator V) (hw : OvWf it)
    (r : Option (Rs.Match V)) (it' : Gen.C.FindOverlappingIterator V)
    (h : Gen.C.FindOverlappingIterator.next it = .ok (r, it')) : OvWf it' := by
  have _ := hw
  unfold Gen.C.FindOverlappingIterator.next at h
  cases hop : it.output_pos with
  | some p =>
    simp only [hop] at h
    cases hg : Rs.getUnchecked it.pma.outputs (p - 1) Fault.oobOutputs with
    | error e => simp [hg] at h
    | ok o =>
      simp [hg] at h
      obtain ⟨-, rfl⟩ := h
      simp [OvWf, Rs.Out.parent, nonZero_ne]
  | none =>
    simp only [hop] at h
    have hl := ov_loop_wf (it.haystack.inner.rest.length + 1) it
    cases hc : Gen.C.FindOverlappingIterator.next.loop0 (it.haystack.inner.rest.length + 1) it with
    | error e => simp [hc] at h
    | ok c =>
      cases c with
      | ret p =>
        obtain ⟨r', i⟩ := p
        simp [hc] at h hl
        obtain ⟨-, rfl⟩ := h
        exact hl
      | done i =>
        simp [hc] at h hl
        obtain ⟨-, rfl⟩ := h
        simp [OvWf, hl, hop]

theorem str_next_eq (it : Gen.C.StrIterator V) :
    (Gen.C.StrIterator.next it) =
      (match it.inner.drop it.pos with
       | [] => (none, it)
       | b :: _ => (some b, { it with pos := it.pos + 1 })) := by
  unfold Gen.C.StrIterator.next
  cases h : it.inner[it.pos]? with
  | none =>
    have : it.inner.drop it.pos = [] := by
      rw [List.drop_eq_nil_iff]; exact List.getElem?_eq_none_iff.1 h
    simp [this]
  | some b =>
    obtain ⟨hlt, hb⟩ := List.getElem?_eq_some_iff.1 h
    rw [List.drop_eq_getElem_cons hlt]
    simp [hb]

theorem lenUtf8_eq (c : Nat) : Rs.lenUtf8 c = utf8Width c := rfl

/-- What `LestmostFindIterator::next` does with the result of its loop. -/
def lmFin (r : Except Fault (Ctl (Option (Rs.Match V) × Gen.C.LestmostFindIterator V)
      (Gen.C.LestmostFindIterator V × Nat × Option Nat × Nat))) :
    Except Fault (Option (Rs.Match V) × Gen.C.LestmostFindIterator V) :=
  match r with
  | .error e => .error e
  | .ok (.ret r) => .ok r
  | .ok (.done (self, _, last_output_pos, _)) =>
    match last_output_pos with
    | none => .ok (none, self)
    | some output_pos =>
      match Rs.getUnchecked self.pma.outputs (output_pos - 1) .oobOutputs with
      | .error e => .error e
      | .ok out =>
        .ok ((some ({ length := out.length, end_ := self.pos, value := out.value } : Rs.Match V)), self)

theorem lm_loop (cs : List Nat) (it : Gen.C.LestmostFindIterator V) (hv : it.pma.variant = .charwise)
    (state : Nat) (cand : Option Nat) (skips p : Nat) (hc : cand ≠ some 0) :
    (lmFin (Gen.C.LestmostFindIterator.next.loop0 cs it state cand skips)).map
        (obs (fun i => (i.pma, absLm i)))
      = (lmLoop it.pma (itemsOf cs p) state (optNat cand) it.pos skips).map
          (fun x => (x.1, (it.pma, (⟨it.haystack, x.2⟩ : LmIt)))) := by
  induction cs generalizing it state cand skips p with
  | nil =>
    unfold Gen.C.LestmostFindIterator.next.loop0
    simp only [itemsOf_nil, lmLoop, lmFin]
    cases cand with
    | none => simp [optNat, Except.map, obs, absLm]
    | some q =>
      have hq : q ≠ 0 := by intro h; subst h; exact hc rfl
      simp only [optNat_some, hq, if_false, getU_outputs _ _ hq]
      cases it.pma.out q with
      | error e => rfl
      | ok o => simp [Except.map, obs, absLm, mkMatch, Rs.Match.toModel]
  | cons c rest ih =>
    unfold Gen.C.LestmostFindIterator.next.loop0
    simp only [itemsOf_cons, lmLoop, next_state_lm_eq _ hv, lenUtf8_eq, hv, rootIdx]
    cases it.pma.nextLm state c with
    | error e => rfl
    | ok state' =>
      simp only []
      by_cases hr : state' = Gen.rootStateIdx
      · simp only [hr, decide_true, if_true]
        cases cand with
        | none =>
          simp only [optNat, ne_eq, not_true, if_false]
          exact ih it hv Gen.rootStateIdx none (skips + utf8Width c) _ (by simp)
        | some q =>
          have hq : q ≠ 0 := by intro h; subst h; exact hc rfl
          simp only [optNat_some, ne_eq, hq, not_false_eq_true, if_true, getU_outputs _ _ hq]
          cases it.pma.out q with
          | error e => rfl
          | ok o => simp [lmFin, Except.map, obs, absLm, mkMatch, Rs.Match.toModel]
      · simp only [hr, decide_false, if_false, getU_states]
        cases it.pma.st state' with
        | error e => rfl
        | ok st =>
          simp only [outputPos_eq]
          by_cases ho : st.opos = 0
          · simp only [ho, if_true, ne_eq, not_true, if_false]
            exact ih it hv state' cand (skips + utf8Width c) _ hc
          · simp only [ho, if_false, ne_eq, not_false_eq_true, if_true]
            exact ih ⟨it.pma, it.haystack, it.pos + (skips + utf8Width c)⟩ hv state' (some st.opos) 0 _
              (by simp [ho])

/-- The char-wise leftmost iterator on a `str` (valid UTF-8, `t1`/`t2` its scalar values) whose
resume offset is the character boundary after `t1`. `char::len_utf8` of std is the true width of
the character, the model counts the bytes the decoder pulled: they agree on valid UTF-8. -/
theorem lm_next_eq (it : Gen.C.LestmostFindIterator V) (hv : it.pma.variant = .charwise)
    (t1 t2 : List Nat) (h1 : ∀ c ∈ t1, isScalar c = true) (h2 : ∀ c ∈ t2, isScalar c = true)
    (hh : it.haystack = encAll t1 ++ encAll t2) (hp : it.pos = (encAll t1).length) :
    (Gen.C.LestmostFindIterator.next it).map (obs (fun i => (i.pma, absLm i)))
      = (LmIt.next it.pma (absLm it)).map (fun st => (st.result, (it.pma, st.it))) := by
  have _ := h1
  have hh' : it.haystack = encAll (t1 ++ t2) := by rw [hh, encAll_append]
  have e1 : Rs.strGetUncheckedFrom it.haystack it.pos = .ok (encAll t2) := by
    unfold Rs.strGetUncheckedFrom
    rw [hh', hp, isBoundary_encAll]
    simp
  have e2 : Rs.chars (encAll t2) = .ok t2 := by
    unfold Rs.chars
    rw [allItems_encAll t2 h2 0 _ (Nat.le_refl _)]
    simp [itemsOf_labels]
  have e3 : lmItems .charwise it.haystack it.pos = .ok (itemsOf t2 it.pos) := by
    rw [hh', hp]; exact lmItems_encAll t1 t2 h2
  have hl := lm_loop t2 it hv Gen.rootStateIdx none 0 it.pos (by simp)
  have key : Gen.C.LestmostFindIterator.next it
      = lmFin (Gen.C.LestmostFindIterator.next.loop0 t2 it Gen.rootStateIdx none 0) := by
    unfold Gen.C.LestmostFindIterator.next
    simp only [e1, e2]
    rfl
  rw [key, hl]
  unfold LmIt.next
  simp only [absLm, hv, e3, rootIdx, optNat]
  cases lmLoop it.pma (itemsOf t2 it.pos) Gen.rootStateIdx 0 it.pos 0 with
  | error e => rfl
  | ok x => rfl

end C
end Daac.Tie

/-
The layout pass of the byte-wise builder (`buildLayout .bytewise`, Model/Build.lean) yields a table
that mirrors the sparse NFA (`LayoutSem`, Proofs/LayoutIface.lean).
-/
import Daac.Proofs.LayoutIface
import Daac.Proofs.HelperFacts
import Daac.Proofs.NfaQueue
import Daac.Proofs.NoFault
import Daac.Proofs.TrieFacts
namespace Daac.LayB
variable {V : Type}

/-! ## 0. XOR facts -/

theorem xor_div256 (a b : Nat) : (a ^^^ b) / 256 = a / 256 ^^^ b / 256 :=
  Nat.xor_div_two_pow (n := 8)

theorem xor_eq_zero {a b : Nat} (h : a ^^^ b = 0) : a = b := by
  have : (a ^^^ b) ^^^ b = 0 ^^^ b := by rw [h]
  rw [Nat.xor_assoc, Nat.xor_self, Nat.xor_zero, Nat.zero_xor] at this
  exact this

theorem xor_div_small {b c : Nat} (hc : c < 256) : (b ^^^ c) / 256 = b / 256 := by
  rw [xor_div256, Nat.div_eq_of_lt hc, Nat.xor_zero]

theorem xor_lt_of_block {a b : Nat} (h : a / 256 = b / 256) : a ^^^ b < 256 := by
  have := xor_div256 a b
  rw [h, Nat.xor_self] at this
  omega

theorem block_of_xor_lt {a b : Nat} (h : a ^^^ b < 256) : a / 256 = b / 256 := by
  have := xor_div256 a b
  rw [Nat.div_eq_of_lt h] at this
  exact xor_eq_zero this.symm

theorem xor_cancel_right (a b : Nat) : (a ^^^ b) ^^^ b = a := by
  rw [Nat.xor_assoc, Nat.xor_self, Nat.xor_zero]

theorem xor_cancel_left (a b : Nat) : (a ^^^ b) ^^^ a = b := by
  rw [Nat.xor_comm a b, xor_cancel_right]

theorem xor_right_inj {a b c : Nat} (h : a ^^^ c = b ^^^ c) : a = b := by
  have := congrArg (· ^^^ c) h
  simpa [xor_cancel_right] using this

theorem xor_left_inj {a b c : Nat} (h : c ^^^ a = c ^^^ b) : a = b := by
  rw [Nat.xor_comm c a, Nat.xor_comm c b] at h
  exact xor_right_inj h

theorem xor_eq_iff (i ub c : Nat) : i = ub ^^^ c ↔ c = i ^^^ ub := by
  constructor
  · intro h; rw [h, xor_cancel_left]
  · intro h; rw [h, Nat.xor_comm i ub, ← Nat.xor_assoc, Nat.xor_self, Nat.zero_xor]

/-! ## 1. Pigeonhole -/

theorem php_fun : ∀ (n : Nat) (f : Nat → Nat), (∀ i, i < n → f i < n) →
    (∀ i j, i < n → j < n → f i = f j → i = j) → ∀ k, k < n → ∃ i, i < n ∧ f i = k := by
  intro n
  induction n with
  | zero => intro f _ _ k hk; omega
  | succ n ih =>
    intro f hlt hinj k hk
    let g : Nat → Nat := fun i => if f i = n then f n else f i
    have glt : ∀ i, i < n → g i < n := by
      intro i hi
      show (if f i = n then f n else f i) < n
      split
      · rename_i e
        have h1 := hlt n (by omega)
        have h2 : f n ≠ n := by
          intro e2
          have := hinj i n (by omega) (by omega) (by rw [e, e2])
          omega
        omega
      · rename_i e
        have := hlt i (by omega); omega
    have ginj : ∀ i j, i < n → j < n → g i = g j → i = j := by
      intro i j hi hj e
      have e' : (if f i = n then f n else f i) = (if f j = n then f n else f j) := e
      split at e' <;> split at e'
      · rename_i a b; exact hinj i j (by omega) (by omega) (by rw [a, b])
      · have := hinj n j (by omega) (by omega) e'; omega
      · have := hinj i n (by omega) (by omega) e'; omega
      · exact hinj i j (by omega) (by omega) e'
    have gsur := ih g glt ginj
    by_cases hkn : k = n
    · subst hkn
      by_cases hfn : f k = k
      · exact ⟨k, by omega, hfn⟩
      · have h1 := hlt k (by omega)
        obtain ⟨i, hi, e⟩ := gsur (f k) (by omega)
        have e' : (if f i = k then f k else f i) = f k := e
        split at e'
        · rename_i a; exact ⟨i, by omega, a⟩
        · have := hinj i k (by omega) (by omega) e'; omega
    · obtain ⟨i, hi, e⟩ := gsur k (by omega)
      have e' : (if f i = n then f n else f i) = k := e
      split at e'
      · exact ⟨n, by omega, e'⟩
      · exact ⟨i, by omega, e'⟩

theorem php (n : Nat) (R : Nat → Nat → Prop) (tot : ∀ i, i < n → ∃ j, j < n ∧ R i j)
    (inj : ∀ i i' j, i < n → i' < n → j < n → R i j → R i' j → i = i') :
    ∀ j, j < n → ∃ i, i < n ∧ R i j := by
  have : ∀ i, ∃ j, i < n → (j < n ∧ R i j) := by
    intro i
    by_cases hi : i < n
    · obtain ⟨j, a, b⟩ := tot i hi; exact ⟨j, fun _ => ⟨a, b⟩⟩
    · exact ⟨0, fun h => absurd h hi⟩
  obtain ⟨f, hf⟩ := Classical.axiomOfChoice this
  intro j hj
  obtain ⟨i, hi, e⟩ := php_fun n f (fun i hi => (hf i hi).1)
    (fun i i' hi hi' e => inj i i' (f i) hi hi' (hf i hi).1 (hf i hi).2 (by rw [e]; exact (hf i' hi').2))
    j hj
  exact ⟨i, hi, by rw [← e]; exact (hf i hi).2⟩

/-! ## 2. Reading the state array -/

/-- Total read: elements beyond the array read as the default element. -/
def gs (s : Array St) (j : Nat) : St := s.getD j stDefaultB

theorem gs_append_default (s : Array St) (n : Nat) :
    gs (s ++ Array.replicate n stDefaultB) = gs s := by
  funext j
  unfold gs
  simp only [Array.getD_eq_getD_getElem?, Array.getElem?_append, Array.getElem?_replicate]
  split
  · rfl
  · rename_i h
    have : s[j]? = none := by simp; omega
    rw [this]
    split <;> rfl

theorem gs_replicate (n j : Nat) : gs (Array.replicate n stDefaultB) j = stDefaultB := by
  unfold gs
  simp only [Array.getD_eq_getD_getElem?, Array.getElem?_replicate]
  split <;> rfl

theorem setSt_ok {s s' : Array St} {i : Nat} {f : St → St} (e : setSt s i f = .ok s') :
    i < s.size ∧ s'.size = s.size ∧ gs s' i = f (gs s i) ∧ ∀ j, j ≠ i → gs s' j = gs s j := by
  unfold setSt at e
  split at e
  · rename_i hlt
    simp only [Except.ok.injEq] at e; subst e
    refine ⟨hlt, by simp, ?_, ?_⟩
    · unfold gs
      simp [Array.getD_eq_getD_getElem?, hlt, Array.getElem_modify_self]
    · intro j hj
      unfold gs
      simp [Array.getD_eq_getD_getElem?, Array.getElem?_modify, Ne.symm hj]
  · cases e

theorem st_ok (da : DA V) {i : Nat} (h : i < da.states.size) : da.st i = .ok (gs da.states i) := by
  unfold DA.st gs
  simp [Array.getD_eq_getD_getElem?, h]

/-! ## 3. The sanitiser -/

/-- The sanitiser's vacancy test. -/
def vac (h : Helper) (j : Nat) : Prop := j = 0 ∨ j = 1 ∨ h.usedI j = false

instance (h : Helper) (j : Nat) : Decidable (vac h j) := by unfold vac; infer_instance

theorem rootIdx_eq : rootIdx = 0 := rfl
theorem deadIdx_eq : deadIdx = 1 := rfl

theorem sanitiseLoop_spec (h : Helper) (ub : Nat) : ∀ (n c : Nat) (s s' : Array St),
    sanitiseLoop h ub n c s = .ok s' →
    s'.size = s.size ∧ ∀ j, gs s' j =
      if c ≤ (j ^^^ ub) ∧ (j ^^^ ub) < c + n ∧ vac h j then { gs s j with check := j ^^^ ub }
      else gs s j := by
  intro n
  induction n with
  | zero =>
    intro c s s' e
    unfold sanitiseLoop at e
    simp only [Except.ok.injEq] at e; subst e
    refine ⟨rfl, fun j => ?_⟩
    rw [if_neg]; omega
  | succ n ih =>
    intro c s s' e
    unfold sanitiseLoop at e
    simp only [rootIdx_eq, deadIdx_eq] at e
    -- the vacancy test
    have hv : ∀ r, (if ub ^^^ c = 0 ∨ ub ^^^ c = 1 then (Except.ok true : Except BuildErr Bool) else
        match h.isUsedIndex (ub ^^^ c) with
        | .error e => .error e
        | .ok u => .ok (!u)) = .ok r → (r = true ↔ vac h (ub ^^^ c)) := by
      intro r hr
      split at hr
      · rename_i h01
        simp only [Except.ok.injEq] at hr; subst hr
        simp only [true_iff]
        rcases h01 with a | a
        · exact Or.inl a
        · exact Or.inr (Or.inl a)
      · rename_i h01
        split at hr
        · cases hr
        · rename_i u eu
          simp only [Except.ok.injEq] at hr; subst hr
          have := (Helper.isUsedIndex_ok.1 eu).2
          unfold vac
          rw [← this]
          cases u <;> simp_all
    split at e
    · cases e
    · rename_i hvac
      have hnv : ¬ vac h (ub ^^^ c) := fun hh => by have := (hv false hvac).2 hh; cases this
      obtain ⟨sz, hs⟩ := ih (c + 1) s s' e
      refine ⟨sz, fun j => ?_⟩
      rw [hs j]
      by_cases hj : j = ub ^^^ c
      · have hc : j ^^^ ub = c := ((xor_eq_iff j ub c).1 hj).symm
        rw [if_neg (by omega), if_neg]
        rw [hj]; intro hh; exact hnv hh.2.2
      · have hc : j ^^^ ub ≠ c := fun hh => hj ((xor_eq_iff j ub c).2 hh.symm)
        by_cases hcond : c ≤ j ^^^ ub ∧ j ^^^ ub < c + (n + 1) ∧ vac h j
        · rw [if_pos hcond, if_pos ⟨by omega, by omega, hcond.2.2⟩]
        · rw [if_neg hcond, if_neg]
          intro hh; exact hcond ⟨by omega, by omega, hh.2.2⟩
    · rename_i hvac
      have hnv := (hv true hvac).1 rfl
      split at e
      · cases e
      · rename_i s1 e1
        obtain ⟨ilt, sz1, hi, ho⟩ := setSt_ok e1
        obtain ⟨sz, hs⟩ := ih (c + 1) s1 s' e
        refine ⟨sz.trans sz1, fun j => ?_⟩
        rw [hs j]
        by_cases hj : j = ub ^^^ c
        · have hc : j ^^^ ub = c := ((xor_eq_iff j ub c).1 hj).symm
          rw [if_neg (by omega), if_pos ⟨by omega, by omega, by rw [hj]; exact hnv⟩]
          rw [hj, hi, ← hj, hc]
        · have hc : j ^^^ ub ≠ c := fun hh => hj ((xor_eq_iff j ub c).2 hh.symm)
          rw [ho j hj]
          by_cases hcond : c ≤ j ^^^ ub ∧ j ^^^ ub < c + (n + 1) ∧ vac h j
          · rw [if_pos hcond, if_pos ⟨by omega, by omega, hcond.2.2⟩]
          · rw [if_neg hcond, if_neg]
            intro hh; exact hcond ⟨by omega, by omega, hh.2.2⟩

/-- `removeInvalidChecks` on block `B`: either every BASE value of the block is used and nothing
changes, or the vacant elements of the block get `check j = j ^^^ ub` for an unused BASE `ub`. -/
theorem removeInvalidChecks_spec {s s' : Array St} {h : Helper} {B : Nat} (hbl : h.blockLen = 256)
    (e : removeInvalidChecks s h B = .ok s') :
    s'.size = s.size ∧
    ((s' = s ∧ ∀ b, b / 256 = B → h.Active b ∧ h.usedB b = true) ∨
     (∃ ub, ub / 256 = B ∧ h.Active ub ∧ h.usedB ub = false ∧
        ∀ j, gs s' j = if j / 256 = B ∧ vac h j then { gs s j with check := j ^^^ ub } else gs s j)) := by
  unfold removeInvalidChecks at e
  split at e
  · cases e
  · rename_i hn
    simp only [Except.ok.injEq] at e; subst e
    refine ⟨rfl, Or.inl ⟨rfl, fun b hb => ?_⟩⟩
    apply Helper.unusedBaseInBlock_none hn b <;> rw [hbl] <;> omega
  · rename_i ub hub
    obtain ⟨lo, hi, act, un, _⟩ := Helper.unusedBaseInBlock_ok hub
    rw [hbl] at lo hi
    obtain ⟨sz, hs⟩ := sanitiseLoop_spec h ub 256 0 s s' e
    have hB : ub / 256 = B := by omega
    refine ⟨sz, Or.inr ⟨ub, hB, act, un, fun j => ?_⟩⟩
    rw [hs j]
    by_cases hj : j / 256 = B
    · have := xor_lt_of_block (hj.trans hB.symm)
      by_cases hv : vac h j
      · rw [if_pos ⟨by omega, by omega, hv⟩, if_pos ⟨hj, hv⟩]
      · rw [if_neg (fun hh => hv hh.2.2), if_neg (fun hh => hv hh.2)]
    · have : ¬ (j ^^^ ub < 256) := fun hh => hj ((block_of_xor_lt hh).trans hB)
      rw [if_neg (fun hh => this (by omega)), if_neg (fun hh => hj hh.1)]

/-! ## 4. Ghost notions and the loop invariant -/

def HasKid (t : Trie V) (u : List Nat) : Prop := ∃ c, t.hasNode (u ++ [c]) = true

/-- Nodes that have an element: the root and the children of the processed nodes. -/
def Pl (t : Trie V) (done : List (List Nat)) (w : List Nat) : Prop :=
  w = [] ∨ ∃ p c, w = p ++ [c] ∧ p ∈ done ∧ t.hasNode w = true

/-- Elements occupied by a non-root node. -/
def Occ (t : Trie V) (done : List (List Nat)) (ix : List Nat → Nat) (j : Nat) : Prop :=
  ∃ p c, p ∈ done ∧ t.hasNode (p ++ [c]) = true ∧ ix (p ++ [c]) = j

/-- BASE values of processed nodes. -/
def IsBase (done : List (List Nat)) (ix : List Nat → Nat) (st : Nat → St) (b : Nat) : Prop :=
  ∃ u, u ∈ done ∧ (st (ix u)).base = b

/-- A non-occupied element cannot be mistaken for a child of a node whose BASE lies in its block. -/
def VacOK (t : Trie V) (done : List (List Nat)) (ix : List Nat → Nat) (st : Nat → St) (j : Nat) :
    Prop :=
  ¬ Occ t done ix j → ∀ b, IsBase done ix st b → b / 256 = j / 256 → (st j).check ≠ j ^^^ b

structure Inv (t : Trie V) (done stack : List (List Nat)) (ix : List Nat → Nat) (st : Nat → St)
    (n : Nat) (h : Helper) : Prop where
  wf : h.WF
  bl : h.blockLen = 256
  size : n = h.numBlocks * 256
  nbpos : 0 < h.numBlocks
  root : ix [] = 0
  lt : ∀ w, Pl t done w → ix w < n
  inj : ∀ w w', Pl t done w → Pl t done w' → ix w = ix w' → w = w'
  ne1 : ∀ w, Pl t done w → ix w ≠ 1
  usedI : ∀ j, h.Active j → (h.usedI j = true ↔ (j = 0 ∨ j = 1 ∨ Occ t done ix j))
  check : ∀ p c, p ∈ done → t.hasNode (p ++ [c]) = true → (st (ix (p ++ [c]))).check = c
  base0 : ∀ j, (st j).base ≠ 0 → ∃ u, u ∈ done ∧ ix u = j
  baseK : ∀ u, u ∈ done → (st (ix u)).base ≠ 0 ∧ (st (ix u)).base < n ∧
      ∀ c, t.hasNode (u ++ [c]) = true → ix (u ++ [c]) = (st (ix u)).base ^^^ c
  usedB : ∀ b, h.Active b → (h.usedB b = true ↔ IsBase done ix st b)
  baseInj : ∀ u u', u ∈ done → u' ∈ done → (st (ix u)).base = (st (ix u')).base → u = u'
  closed : ∀ j, j / 256 < h.activeStart → VacOK t done ix st j
  doneKid : ∀ u, u ∈ done → HasKid t u
  donePl : ∀ u, u ∈ done → Pl t done u
  stackPl : ∀ u, u ∈ stack → Pl t done u
  stackND : stack.Nodup
  stackDone : ∀ u, u ∈ stack → u ∉ done
  cover : ∀ w, Pl t done w → w ∈ done ∨ w ∈ stack ∨ ¬ HasKid t w

theorem Pl.node {t : Trie V} {done : List (List Nat)} {w : List Nat} (h : Pl t done w) :
    t.hasNode w = true := by
  rcases h with rfl | ⟨p, c, _, _, hn⟩
  · exact Trie.hasNode_nil t
  · exact hn

theorem Pl.kid {t : Trie V} {done : List (List Nat)} {p : List Nat} {c : Nat} (hp : p ∈ done)
    (hn : t.hasNode (p ++ [c]) = true) : Pl t done (p ++ [c]) :=
  Or.inr ⟨p, c, rfl, hp, hn⟩

theorem snoc_ne_nil {α} (p : List α) (c : α) : p ++ [c] ≠ [] := by simp

theorem nodup_reverse' {α} {l : List α} (h : l.Nodup) : l.reverse.Nodup := by
  rw [List.Nodup, List.pairwise_reverse]
  exact List.Pairwise.imp (fun hab => Ne.symm hab) h

theorem snoc_inj {α} {p q : List α} {c d : α} (h : p ++ [c] = q ++ [d]) : p = q ∧ c = d := by
  have := List.append_inj' h rfl
  exact ⟨this.1, by simpa using this.2⟩

section InvFacts
variable {t : Trie V} {done stack : List (List Nat)} {ix : List Nat → Nat} {st : Nat → St}
  {n : Nat} {h : Helper}

theorem Inv.occ (inv : Inv t done stack ix st n h) {j : Nat} (ho : Occ t done ix j) :
    j ≠ 0 ∧ j ≠ 1 ∧ j < n := by
  obtain ⟨p, c, hp, hn, rfl⟩ := ho
  have pl := Pl.kid hp hn
  refine ⟨?_, inv.ne1 _ pl, inv.lt _ pl⟩
  intro e
  have := inv.inj _ _ pl (Or.inl rfl) (e.trans inv.root.symm)
  exact snoc_ne_nil _ _ this

theorem active_iff_div {h : Helper} (hbl : h.blockLen = 256) (j : Nat) :
    h.Active j ↔ h.activeStart ≤ j / 256 ∧ j / 256 < h.numBlocks := by
  unfold Helper.Active
  rw [hbl, Nat.le_div_iff_mul_le (by omega), Nat.div_lt_iff_lt_mul (by omega)]

theorem Inv.active_iff (inv : Inv t done stack ix st n h) (j : Nat) :
    h.Active j ↔ h.activeStart ≤ j / 256 ∧ j / 256 < h.numBlocks := active_iff_div inv.bl j

theorem Inv.active_lt (inv : Inv t done stack ix st n h) {j : Nat} (a : h.Active j) : j < n := by
  have := (inv.active_iff j).1 a
  rw [inv.size]; omega

theorem Inv.active_block (inv : Inv t done stack ix st n h) {B j : Nat} (hlo : h.activeStart ≤ B)
    (hhi : B < h.numBlocks) (hj : j / 256 = B) : h.Active j := by
  rw [inv.active_iff]
  omega

theorem Inv.isBase_lt (inv : Inv t done stack ix st n h) {b : Nat} (hb : IsBase done ix st b) :
    b ≠ 0 ∧ b < n := by
  obtain ⟨u, hu, rfl⟩ := hb
  exact ⟨(inv.baseK u hu).1, (inv.baseK u hu).2.1⟩

/-- A Pl node is the root or occupies its element. -/
theorem Inv.pl_cases (inv : Inv t done stack ix st n h) {w : List Nat} (pl : Pl t done w) :
    ix w = 0 ∨ Occ t done ix (ix w) := by
  rcases pl with rfl | ⟨p, c, rfl, hp, hn⟩
  · exact Or.inl inv.root
  · exact Or.inr ⟨p, c, hp, hn, rfl⟩

/-- An active unused element is not the element of any placed node. -/
theorem Inv.free_fresh (inv : Inv t done stack ix st n h) {j : Nat} (a : h.Active j)
    (hf : h.usedI j = false) : j ≠ 0 ∧ j ≠ 1 ∧ ¬ Occ t done ix j ∧ ∀ w, Pl t done w → ix w ≠ j := by
  have hh := inv.usedI j a
  rw [hf] at hh
  have h0 : j ≠ 0 := fun e => by have := hh.2 (Or.inl e); cases this
  have h1 : j ≠ 1 := fun e => by have := hh.2 (Or.inr (Or.inl e)); cases this
  have ho : ¬ Occ t done ix j := fun e => by have := hh.2 (Or.inr (Or.inr e)); cases this
  refine ⟨h0, h1, ho, fun w pl e => ?_⟩
  rcases inv.pl_cases pl with z | o
  · omega
  · rw [e] at o; exact ho o

/-- Changing only CHECK values of elements that are neither occupied nor in a closed block (and any
FAIL / output position) keeps the invariant. -/
theorem Inv.congr (inv : Inv t done stack ix st n h) {st' : Nat → St}
    (hbase : ∀ j, (st' j).base = (st j).base)
    (hocc : ∀ j, Occ t done ix j → (st' j).check = (st j).check)
    (hcl : ∀ j, j / 256 < h.activeStart → (st' j).check = (st j).check) :
    Inv t done stack ix st' n h := by
  have hib : ∀ b, IsBase done ix st' b ↔ IsBase done ix st b := by
    intro b
    constructor
    · rintro ⟨u, hu, e⟩; exact ⟨u, hu, by rw [← hbase]; exact e⟩
    · rintro ⟨u, hu, e⟩; exact ⟨u, hu, by rw [hbase]; exact e⟩
  refine { inv with check := ?_, base0 := ?_, baseK := ?_, usedB := ?_, baseInj := ?_, closed := ?_ }
  · intro p c hp hn
    rw [hocc _ ⟨p, c, hp, hn, rfl⟩]; exact inv.check p c hp hn
  · intro j hj; rw [hbase] at hj; exact inv.base0 j hj
  · intro u hu; rw [hbase]; exact inv.baseK u hu
  · intro b a; rw [hib]; exact inv.usedB b a
  · intro u u' hu hu' e; rw [hbase, hbase] at e; exact inv.baseInj u u' hu hu' e
  · intro j hj ho b hb hblk
    rw [hcl j hj]
    exact inv.closed j hj ho b ((hib b).1 hb) hblk

end InvFacts

/-! ## 5. Sanitising one block -/

section Sanitise
variable {t : Trie V} {done stack : List (List Nat)} {ix : List Nat → Nat} {n : Nat} {h : Helper}

/-- The counting argument: if all 256 BASE values of a block are used, all its elements are
occupied (every such BASE owns a child slot in the block, and slots are pairwise distinct). -/
theorem all_occ_of_full {st : Nat → St} (hbytes : ∀ u, t.hasNode u = true → ∀ c ∈ u, c < 256)
    (inv : Inv t done stack ix st n h) {B : Nat}
    (hfull : ∀ b, b / 256 = B → h.Active b ∧ h.usedB b = true) :
    ∀ j, j / 256 = B → Occ t done ix j := by
  let R : Nat → Nat → Prop := fun i j' => ∃ u c, u ∈ done ∧ t.hasNode (u ++ [c]) = true ∧
    (st (ix u)).base = B * 256 + i ∧ ix (u ++ [c]) = B * 256 + j'
  have tot : ∀ i, i < 256 → ∃ j', j' < 256 ∧ R i j' := by
    intro i hi
    obtain ⟨a, ub⟩ := hfull (B * 256 + i) (by omega)
    obtain ⟨u, hu, eb⟩ := (inv.usedB _ a).1 ub
    obtain ⟨c, hc⟩ := inv.doneKid u hu
    have hc256 : c < 256 := hbytes _ hc c (by simp)
    have e1 := (inv.baseK u hu).2.2 c hc
    have e2 := xor_div_small (b := (st (ix u)).base) hc256
    rw [eb] at e1 e2
    refine ⟨(B * 256 + i ^^^ c) % 256, by omega, u, c, hu, hc, eb, ?_⟩
    rw [e1]; omega
  have inj : ∀ i i' j', i < 256 → i' < 256 → j' < 256 → R i j' → R i' j' → i = i' := by
    rintro i i' j' _ _ _ ⟨u, c, hu, hc, eb, ej⟩ ⟨u', c', hu', hc', eb', ej'⟩
    have := inv.inj _ _ (Pl.kid hu hc) (Pl.kid hu' hc') (ej.trans ej'.symm)
    have := (snoc_inj this).1
    subst this
    omega
  intro j hj
  obtain ⟨i, _, u, c, hu, hc, _, ej⟩ := php 256 R tot inj (j % 256) (by omega)
  exact ⟨u, c, hu, hc, by rw [ej]; omega⟩

theorem sanitise_block {s s' : Array St} (hbytes : ∀ u, t.hasNode u = true → ∀ c ∈ u, c < 256)
    (inv : Inv t done stack ix (gs s) n h) {B : Nat} (hlo : h.activeStart ≤ B)
    (hhi : B < h.numBlocks) (e : removeInvalidChecks s h B = .ok s') :
    s'.size = s.size ∧ Inv t done stack ix (gs s') n h ∧
    (∀ j, j / 256 = B → VacOK t done ix (gs s') j) ∧
    (∀ j, j / 256 ≠ B → gs s' j = gs s j) ∧
    (∀ j, (gs s' j).base = (gs s j).base ∧ (gs s' j).fail = (gs s j).fail ∧
      (gs s' j).opos = (gs s j).opos) := by
  obtain ⟨sz, hcase⟩ := removeInvalidChecks_spec inv.bl e
  rcases hcase with ⟨rfl, hfull⟩ | ⟨ub, hub, aub, uub, hs⟩
  · refine ⟨rfl, inv, ?_, fun _ _ => rfl, fun _ => ⟨rfl, rfl, rfl⟩⟩
    intro j hj ho
    exact absurd (all_occ_of_full hbytes inv hfull j hj) ho
  · have hfr : ∀ j, (gs s' j).base = (gs s j).base ∧ (gs s' j).fail = (gs s j).fail ∧
        (gs s' j).opos = (gs s j).opos := by
      intro j; rw [hs j]; split <;> exact ⟨rfl, rfl, rfl⟩
    have hoth : ∀ j, j / 256 ≠ B → gs s' j = gs s j := by
      intro j hj; rw [hs j, if_neg (fun hh => hj hh.1)]
    have hocc : ∀ j, Occ t done ix j → gs s' j = gs s j := by
      intro j ho
      rw [hs j, if_neg]
      rintro ⟨hj, hv⟩
      have a := inv.active_block hlo hhi hj
      obtain ⟨n0, n1, _⟩ := inv.occ ho
      rcases hv with z | z | z
      · exact n0 z
      · exact n1 z
      · have := (inv.usedI j a).2 (Or.inr (Or.inr ho))
        rw [z] at this; cases this
    have inv' : Inv t done stack ix (gs s') n h := by
      apply inv.congr (fun j => (hfr j).1) (fun j ho => by rw [hocc j ho])
      intro j hj
      rw [hoth j]
      omega
    refine ⟨sz, inv', ?_, hoth, hfr⟩
    intro j hj ho b hb hblk
    have a := inv.active_block hlo hhi hj
    have hv : vac h j := by
      unfold vac
      cases hu : h.usedI j with
      | false => exact Or.inr (Or.inr rfl)
      | true =>
        rcases (inv.usedI j a).1 hu with z | z | z
        · exact Or.inl z
        · exact Or.inr (Or.inl z)
        · exact absurd z ho
    rw [hs j, if_pos ⟨hj, hv⟩]
    show j ^^^ ub ≠ j ^^^ b
    intro hh
    have hbu : ub = b := xor_left_inj hh
    subst hbu
    have ab := inv.active_block hlo hhi hub
    have := (inv'.usedB _ ab).2 hb
    rw [uub] at this; cases this

end Sanitise

/-! ## 6. Extending the array -/

section Extend
variable {t : Trie V} {done stack : List (List Nat)} {ix : List Nat → Nat} {n : Nat} {h : Helper}

theorem Inv.push {st : Nat → St} (inv : Inv t done stack ix st n h) {h' : Helper}
    (e : h.pushBlock = .ok h')
    (hcl : ∀ j, j / 256 < h'.activeStart → VacOK t done ix st j) :
    Inv t done stack ix st (n + 256) h' ∧ h'.Active n ∧ h'.usedB n = false := by
  obtain ⟨nb, bl, nfb, wf', fresh, old⟩ := Helper.pushBlock_ok inv.wf e
  have hbl := inv.bl
  have hsz := inv.size
  have hnfb := inv.wf.nfb_pos
  rw [hbl] at fresh old
  have eA' : h'.activeStart = h.numBlocks + 1 - h.nfb := by unfold Helper.activeStart; rw [nb, nfb]
  have eA : h.activeStart = h.numBlocks - h.nfb := rfl
  have act' : ∀ j, h'.Active j ↔ h'.activeStart ≤ j / 256 ∧ j / 256 < h.numBlocks + 1 := by
    intro j; rw [active_iff_div (bl.trans hbl), nb]
  have act : ∀ j, h.Active j ↔ h.activeStart ≤ j / 256 ∧ j / 256 < h.numBlocks :=
    active_iff_div hbl
  have actOld : ∀ j, h'.Active j → j < n → h.Active j := by
    intro j a lt; rw [act' j] at a; rw [act j]; omega
  have an : h'.Active n := by rw [act' n]; omega
  refine ⟨?_, an, (fresh n (by omega) (by omega)).2⟩
  have hnb' : 0 < h'.numBlocks := by omega
  refine { inv with
    wf := wf', bl := bl.trans hbl, size := ?_, nbpos := hnb', lt := ?_
    usedI := ?_, baseK := ?_, usedB := ?_, closed := hcl }
  · rw [nb]; omega
  · intro w pl; have := inv.lt w pl; omega
  · intro j a
    by_cases lt : j < n
    · rw [(old j a (by omega)).1]; exact inv.usedI j (actOld j a lt)
    · rw [(fresh j (by omega) (by have := (act' j).1 a; omega)).1]
      constructor
      · intro hh; cases hh
      · have := inv.nbpos
        rintro (z | z | z)
        · omega
        · omega
        · have := (inv.occ z).2.2; omega
  · intro u hu
    obtain ⟨a, b, c⟩ := inv.baseK u hu
    exact ⟨a, by omega, c⟩
  · intro b a
    by_cases lt : b < n
    · rw [(old b a (by omega)).2]; exact inv.usedB b (actOld b a lt)
    · rw [(fresh b (by omega) (by have := (act' b).1 a; omega)).2]
      constructor
      · intro hh; cases hh
      · intro z; have := (inv.isBase_lt z).2; omega

theorem extend_inv (hbytes : ∀ u, t.hasNode u = true → ∀ c ∈ u, c < 256) {lay lay1 : Lay}
    (inv : Inv t done stack ix (gs lay.states) lay.states.size lay.h)
    (e : extendArray .bytewise lay = .ok lay1) :
    Inv t done stack ix (gs lay1.states) lay1.states.size lay1.h ∧ lay1.idx = lay.idx ∧
    lay1.h.Active lay.states.size ∧ lay1.h.usedB lay.states.size = false := by
  unfold extendArray at e
  split at e
  · cases e
  · simp only at e
    have hbl := inv.bl
    have hsz := inv.size
    have hnfb := inv.wf.nfb_pos
    cases hd : lay.h.droppedBlock with
    | none =>
      rw [hd] at e
      simp only at e
      split at e
      · cases e
      · rename_i h' ep
        simp only [Except.ok.injEq] at e; subst e
        have hcl : ∀ j, j / 256 < h'.activeStart → VacOK t done ix (gs lay.states) j := by
          intro j hj
          obtain ⟨nb, _, nfb, _⟩ := Helper.pushBlock_ok inv.wf ep
          unfold Helper.droppedBlock at hd
          split at hd
          · cases hd
          · rename_i hc
            rw [inv.wf.cap_eq, Helper.numElements, hbl] at hc
            have : h'.activeStart = 0 := by unfold Helper.activeStart; rw [nb, nfb]; omega
            rw [this] at hj; omega
        obtain ⟨i1, i2, i3⟩ := inv.push ep hcl
        refine ⟨?_, rfl, i2, i3⟩
        simp only [stDefault, gs_append_default, Array.size_append, Array.size_replicate, hbl]
        exact i1
    | some cb =>
      rw [hd] at e
      simp only at e
      split at e
      · cases e
      · rename_i s1 es
        split at e
        · cases e
        · rename_i h' ep
          simp only [Except.ok.injEq] at e; subst e
          unfold Helper.droppedBlock at hd
          split at hd
          · rename_i hc
            simp only [Option.some.injEq] at hd; subst hd
            rw [inv.wf.cap_eq, Helper.numElements, hbl] at hc
            have hlt : lay.h.activeStart < lay.h.numBlocks := by
              unfold Helper.activeStart; have := inv.nbpos; omega
            obtain ⟨sz, inv1, hv, hoth, _⟩ := sanitise_block hbytes inv (Nat.le_refl _) hlt es
            have hcl : ∀ j, j / 256 < h'.activeStart → VacOK t done ix (gs s1) j := by
              intro j hj
              obtain ⟨nb, _, nfb, _⟩ := Helper.pushBlock_ok inv.wf ep
              have e1 : h'.activeStart = lay.h.activeStart + 1 := by
                unfold Helper.activeStart; rw [nb, nfb]; omega
              rw [e1] at hj
              by_cases hb : j / 256 = lay.h.activeStart
              · exact hv j hb
              · exact inv1.closed j (by omega)
            obtain ⟨i1, i2, i3⟩ := inv1.push ep hcl
            refine ⟨?_, rfl, i2, i3⟩
            simp only [stDefault, gs_append_default, Array.size_append, Array.size_replicate, hbl, sz]
            exact i1
          · cases hd

end Extend

/-! ## 7. Placing the children of one node -/

theorem placeChildren_spec (sidx base : Nat) : ∀ (edges : List (Nat × List Nat)) (lay lay' : Lay),
    lay.h.WF → (edges.map (·.2)).Nodup →
    placeChildren .bytewise sidx base edges lay = .ok lay' →
    lay'.h.WF ∧ lay'.h.blockLen = lay.h.blockLen ∧ lay'.h.nfb = lay.h.nfb ∧
    lay'.h.numBlocks = lay.h.numBlocks ∧
    (∀ j, lay'.h.usedB j = lay.h.usedB j) ∧ lay'.states.size = lay.states.size ∧
    (∀ e, e ∈ edges → lay.h.Active (base ^^^ e.1) ∧ lay.h.usedI (base ^^^ e.1) = false ∧
        lay'.h.usedI (base ^^^ e.1) = true ∧
        base ^^^ e.1 < lay.states.size ∧ lay'.idx.getD e.2 deadIdx = base ^^^ e.1 ∧
        gs lay'.states (base ^^^ e.1) = { gs lay.states (base ^^^ e.1) with check := e.1 }) ∧
    (∀ j, lay.h.Active j → (∀ e, e ∈ edges → base ^^^ e.1 ≠ j) →
        lay'.h.usedI j = lay.h.usedI j) ∧
    (∀ j, (∀ e, e ∈ edges → base ^^^ e.1 ≠ j) → gs lay'.states j = gs lay.states j) ∧
    (∀ w, w ∉ edges.map (·.2) → lay'.idx.getD w deadIdx = lay.idx.getD w deadIdx) := by
  intro edges
  induction edges with
  | nil =>
    intro lay lay' wf _ e
    unfold placeChildren at e
    simp only [Except.ok.injEq] at e; subst e
    refine ⟨wf, rfl, rfl, rfl, fun _ => rfl, rfl, ?_, fun _ _ _ => rfl, fun _ _ => rfl, fun _ _ => rfl⟩
    intro e he; cases he
  | cons hd rest ih =>
    intro lay lay' wf nd e
    obtain ⟨c, child⟩ := hd
    unfold placeChildren at e
    simp only at e
    split at e
    · cases e
    · rename_i h1 eu
      split at e
      · cases e
      · rename_i s1 es
        obtain ⟨a, uf, ut, ifr, bfr, ebl, enfb, enb, wf1⟩ := Helper.useIndex_ok wf eu
        obtain ⟨ilt, sz1, hi, ho⟩ := setSt_ok es
        simp only [List.map_cons, List.nodup_cons] at nd
        obtain ⟨r1, r2, r3, r4, r5, r6, r7, r8, r9, r10⟩ := ih ⟨s1, h1, lay.idx.insert child (base ^^^ c)⟩ lay' wf1 nd.2 e
        simp only at r1 r2 r3 r4 r5 r6 r7 r8 r9 r10
        have ac := Helper.Active_congr ebl enfb enb
        -- slots of the remaining edges differ from the first slot
        have hne : ∀ e, e ∈ rest → base ^^^ e.1 ≠ base ^^^ c := by
          intro e he hh
          have := (r7 e he).2.1
          rw [hh, ut] at this; cases this
        refine ⟨r1, r2.trans ebl, r3.trans enfb, r4.trans enb, fun j => (r5 j).trans (bfr j),
          r6.trans sz1, ?_, ?_, ?_, ?_⟩
        · intro e he
          simp only [List.mem_cons] at he
          rcases he with rfl | he
          · refine ⟨a, uf, ?_, ilt, ?_, ?_⟩
            · rw [r8 _ ((ac _).2 a) hne]; exact ut
            · rw [r10 _ nd.1]
              exact Std.HashMap.getD_insert_self
            · rw [r9 _ hne]; exact hi
          · obtain ⟨q1, q2, q3, q4, q5, q6⟩ := r7 e he
            have ne := hne e he
            refine ⟨(ac _).1 q1, ?_, q3, by omega, q5, ?_⟩
            · rw [← ifr _ ((ac _).1 q1) ne]; exact q2
            · rw [q6, ho _ ne]
        · intro j aj hj
          rw [r8 j ((ac j).2 aj) (fun e he => hj e (List.mem_cons_of_mem _ he))]
          exact ifr j aj (Ne.symm (hj (c, child) (List.mem_cons_self)))
        · intro j hj
          rw [r9 j (fun e he => hj e (List.mem_cons_of_mem _ he))]
          exact ho j (Ne.symm (hj (c, child) (List.mem_cons_self)))
        · intro w hw
          simp only [List.map_cons, List.mem_cons, not_or] at hw
          rw [r10 w hw.2, Std.HashMap.getD_insert]
          have : (child == w) = false := by simpa using Ne.symm hw.1
          rw [this]; rfl

/-! ## 8. One DFS step for a node with children (after the array has been extended) -/

/-- What `placeChildren`, the BASE write and `useBase` do, in ghost terms. -/
structure StepB (t : Trie V) (u : List Nat) (base : Nat) (ix ix' : List Nat → Nat)
    (st st' : Nat → St) (h h' : Helper) : Prop where
  wf' : h'.WF
  bl' : h'.blockLen = h.blockLen
  nfb' : h'.nfb = h.nfb
  nb' : h'.numBlocks = h.numBlocks
  slotAct : ∀ c, t.hasNode (u ++ [c]) = true → h.Active (base ^^^ c)
  slotFree : ∀ c, t.hasNode (u ++ [c]) = true → h.usedI (base ^^^ c) = false
  ixKid : ∀ c, t.hasNode (u ++ [c]) = true → ix' (u ++ [c]) = base ^^^ c
  ixOld : ∀ w, w ∉ t.childPaths u → ix' w = ix w
  usedIKid : ∀ c, t.hasNode (u ++ [c]) = true → h'.usedI (base ^^^ c) = true
  usedIOld : ∀ j, h.Active j → (∀ c, t.hasNode (u ++ [c]) = true → base ^^^ c ≠ j) →
    h'.usedI j = h.usedI j
  usedBNew : h'.usedB base = true
  usedBOld : ∀ j, h.Active j → j ≠ base → h'.usedB j = h.usedB j
  baseAct : h.Active base
  baseFree : h.usedB base = false
  baseNe : base ≠ 0
  stU : st' (ix u) = { st (ix u) with base := base }
  stKid : ∀ c, t.hasNode (u ++ [c]) = true → st' (base ^^^ c) = { st (base ^^^ c) with check := c }
  stOther : ∀ j, j ≠ ix u → (∀ c, t.hasNode (u ++ [c]) = true → base ^^^ c ≠ j) → st' j = st j

section StepBFacts
variable {t : Trie V} {done rest : List (List Nat)} {u : List Nat} {base : Nat}
  {ix ix' : List Nat → Nat} {st st' : Nat → St} {n : Nat} {h h' : Helper}

theorem sb_u (inv : Inv t done (u :: rest) ix st n h) :
    Pl t done u ∧ u ∉ done ∧ t.hasNode u = true :=
  ⟨inv.stackPl u List.mem_cons_self, inv.stackDone u List.mem_cons_self,
    (inv.stackPl u List.mem_cons_self).node⟩

theorem sb_mem_kids (inv : Inv t done (u :: rest) ix st n h) (w : List Nat) :
    w ∈ t.childPaths u ↔ ∃ c, w = u ++ [c] ∧ t.hasNode (u ++ [c]) = true := by
  rw [Trie.mem_childPaths]
  constructor
  · rintro ⟨c, a, b, _⟩; exact ⟨c, a, b⟩
  · rintro ⟨c, a, b⟩; exact ⟨c, a, b, (sb_u inv).2.2⟩

theorem sb_old_not_kid (inv : Inv t done (u :: rest) ix st n h) {w : List Nat}
    (pl : Pl t done w) : w ∉ t.childPaths u := by
  intro hm
  obtain ⟨c, rfl, _⟩ := (sb_mem_kids inv w).1 hm
  rcases pl with e | ⟨p, c', e, hp, _⟩
  · exact snoc_ne_nil _ _ e
  · have := (snoc_inj e).1
    subst this
    exact (sb_u inv).2.1 hp

theorem sb_pl' (inv : Inv t done (u :: rest) ix st n h) (w : List Nat) :
    Pl t (u :: done) w ↔ Pl t done w ∨ w ∈ t.childPaths u := by
  rw [sb_mem_kids inv]
  constructor
  · rintro (e | ⟨p, c, e, hp, hn⟩)
    · exact Or.inl (Or.inl e)
    · simp only [List.mem_cons] at hp
      rcases hp with rfl | hp
      · exact Or.inr ⟨c, e, by rw [← e]; exact hn⟩
      · exact Or.inl (Or.inr ⟨p, c, e, hp, hn⟩)
  · rintro ((e | ⟨p, c, e, hp, hn⟩) | ⟨c, e, hn⟩)
    · exact Or.inl e
    · exact Or.inr ⟨p, c, e, List.mem_cons_of_mem _ hp, hn⟩
    · exact Or.inr ⟨u, c, e, List.mem_cons_self, by rw [e]; exact hn⟩

theorem sb_slot_fresh (inv : Inv t done (u :: rest) ix st n h)
    (sb : StepB t u base ix ix' st st' h h') {c : Nat} (hc : t.hasNode (u ++ [c]) = true) :
    base ^^^ c ≠ 0 ∧ base ^^^ c ≠ 1 ∧ ¬ Occ t done ix (base ^^^ c) ∧
      ∀ w, Pl t done w → ix w ≠ base ^^^ c :=
  inv.free_fresh (sb.slotAct c hc) (sb.slotFree c hc)

theorem sb_ix_old (inv : Inv t done (u :: rest) ix st n h)
    (sb : StepB t u base ix ix' st st' h h') {w : List Nat} (pl : Pl t done w) : ix' w = ix w :=
  sb.ixOld w (sb_old_not_kid inv pl)

theorem sb_base_frame (_inv : Inv t done (u :: rest) ix st n h)
    (sb : StepB t u base ix ix' st st' h h') {j : Nat} (hj : j ≠ ix u) :
    (st' j).base = (st j).base := by
  by_cases hs : ∃ c, t.hasNode (u ++ [c]) = true ∧ base ^^^ c = j
  · obtain ⟨c, hc, rfl⟩ := hs
    rw [sb.stKid c hc]
  · rw [sb.stOther j hj (fun c hc e => hs ⟨c, hc, e⟩)]

theorem sb_check_frame (_inv : Inv t done (u :: rest) ix st n h)
    (sb : StepB t u base ix ix' st st' h h') {j : Nat}
    (hj : ∀ c, t.hasNode (u ++ [c]) = true → base ^^^ c ≠ j) :
    (st' j).check = (st j).check := by
  by_cases hu : j = ix u
  · subst hu; rw [sb.stU]
  · rw [sb.stOther j hu hj]

theorem sb_occ' (inv : Inv t done (u :: rest) ix st n h)
    (sb : StepB t u base ix ix' st st' h h') (j : Nat) :
    Occ t (u :: done) ix' j ↔
      Occ t done ix j ∨ ∃ c, t.hasNode (u ++ [c]) = true ∧ base ^^^ c = j := by
  constructor
  · rintro ⟨p, c, hp, hn, e⟩
    simp only [List.mem_cons] at hp
    rcases hp with rfl | hp
    · rw [sb.ixKid c hn] at e; exact Or.inr ⟨c, hn, e⟩
    · rw [sb_ix_old inv sb (Pl.kid hp hn)] at e; exact Or.inl ⟨p, c, hp, hn, e⟩
  · rintro (⟨p, c, hp, hn, e⟩ | ⟨c, hn, e⟩)
    · exact ⟨p, c, List.mem_cons_of_mem _ hp, hn, by rw [sb_ix_old inv sb (Pl.kid hp hn)]; exact e⟩
    · exact ⟨u, c, List.mem_cons_self, hn, by rw [sb.ixKid c hn]; exact e⟩

theorem sb_done_ne (inv : Inv t done (u :: rest) ix st n h) {u0 : List Nat} (h0 : u0 ∈ done) :
    ix u0 ≠ ix u := by
  intro e
  have := inv.inj _ _ (inv.donePl u0 h0) (sb_u inv).1 e
  subst this
  exact (sb_u inv).2.1 h0

theorem sb_base_u (inv : Inv t done (u :: rest) ix st n h)
    (sb : StepB t u base ix ix' st st' h h') : (st' (ix' u)).base = base := by
  rw [sb_ix_old inv sb (sb_u inv).1, sb.stU]

theorem sb_base_done (inv : Inv t done (u :: rest) ix st n h)
    (sb : StepB t u base ix ix' st st' h h') {u0 : List Nat} (h0 : u0 ∈ done) :
    (st' (ix' u0)).base = (st (ix u0)).base := by
  rw [sb_ix_old inv sb (inv.donePl u0 h0), sb_base_frame inv sb (sb_done_ne inv h0)]

theorem sb_isBase' (inv : Inv t done (u :: rest) ix st n h)
    (sb : StepB t u base ix ix' st st' h h') (b : Nat) :
    IsBase (u :: done) ix' st' b ↔ IsBase done ix st b ∨ b = base := by
  constructor
  · rintro ⟨u0, h0, e⟩
    simp only [List.mem_cons] at h0
    rcases h0 with rfl | h0
    · rw [sb_base_u inv sb] at e; exact Or.inr e.symm
    · rw [sb_base_done inv sb h0] at e; exact Or.inl ⟨u0, h0, e⟩
  · rintro (⟨u0, h0, e⟩ | e)
    · exact ⟨u0, List.mem_cons_of_mem _ h0, by rw [sb_base_done inv sb h0]; exact e⟩
    · exact ⟨u, List.mem_cons_self, by rw [sb_base_u inv sb]; exact e.symm⟩

theorem sb_not_isBase (inv : Inv t done (u :: rest) ix st n h)
    (sb : StepB t u base ix ix' st st' h h') : ¬ IsBase done ix st base := by
  intro hb
  have := (inv.usedB base sb.baseAct).2 hb
  rw [sb.baseFree] at this; cases this

theorem sb_active (sb : StepB t u base ix ix' st st' h h') (j : Nat) : h'.Active j ↔ h.Active j :=
  Helper.Active_congr sb.bl' sb.nfb' sb.nb' j

theorem sb_activeStart (sb : StepB t u base ix ix' st st' h h') : h'.activeStart = h.activeStart := by
  unfold Helper.activeStart; rw [sb.nb', sb.nfb']

end StepBFacts

section StepBInv
variable {t : Trie V} {done rest : List (List Nat)} {u : List Nat} {base : Nat}
  {ix ix' : List Nat → Nat} {st st' : Nat → St} {n : Nat} {h h' : Helper}

theorem sb_inj (inv : Inv t done (u :: rest) ix st n h)
    (sb : StepB t u base ix ix' st st' h h') :
    ∀ w w', Pl t (u :: done) w → Pl t (u :: done) w' → ix' w = ix' w' → w = w' := by
  intro w w' pw pw' e
  rw [sb_pl' inv] at pw pw'
  rcases pw with pw | kw <;> rcases pw' with pw' | kw'
  · rw [sb_ix_old inv sb pw, sb_ix_old inv sb pw'] at e
    exact inv.inj w w' pw pw' e
  · obtain ⟨c, rfl, hc⟩ := (sb_mem_kids inv w').1 kw'
    rw [sb_ix_old inv sb pw, sb.ixKid c hc] at e
    exact absurd e ((sb_slot_fresh inv sb hc).2.2.2 w pw)
  · obtain ⟨c, rfl, hc⟩ := (sb_mem_kids inv w).1 kw
    rw [sb_ix_old inv sb pw', sb.ixKid c hc] at e
    exact absurd e.symm ((sb_slot_fresh inv sb hc).2.2.2 w' pw')
  · obtain ⟨c, rfl, hc⟩ := (sb_mem_kids inv w).1 kw
    obtain ⟨c', rfl, hc'⟩ := (sb_mem_kids inv w').1 kw'
    rw [sb.ixKid c hc, sb.ixKid c' hc'] at e
    rw [xor_left_inj e]

theorem sb_usedI (inv : Inv t done (u :: rest) ix st n h)
    (sb : StepB t u base ix ix' st st' h h') :
    ∀ j, h'.Active j → (h'.usedI j = true ↔ (j = 0 ∨ j = 1 ∨ Occ t (u :: done) ix' j)) := by
  intro j a
  rw [sb_active sb] at a
  rw [sb_occ' inv sb]
  by_cases hs : ∃ c, t.hasNode (u ++ [c]) = true ∧ base ^^^ c = j
  · obtain ⟨c, hc, rfl⟩ := hs
    rw [sb.usedIKid c hc]
    simp only [true_iff]
    exact Or.inr (Or.inr (Or.inr ⟨c, hc, rfl⟩))
  · rw [sb.usedIOld j a (fun c hc e => hs ⟨c, hc, e⟩), inv.usedI j a]
    constructor
    · rintro (z | z | z)
      · exact Or.inl z
      · exact Or.inr (Or.inl z)
      · exact Or.inr (Or.inr (Or.inl z))
    · rintro (z | z | z | z)
      · exact Or.inl z
      · exact Or.inr (Or.inl z)
      · exact Or.inr (Or.inr z)
      · exact absurd z hs

theorem sb_usedB (inv : Inv t done (u :: rest) ix st n h)
    (sb : StepB t u base ix ix' st st' h h') :
    ∀ b, h'.Active b → (h'.usedB b = true ↔ IsBase (u :: done) ix' st' b) := by
  intro b a
  rw [sb_active sb] at a
  rw [sb_isBase' inv sb]
  by_cases hb : b = base
  · subst hb; rw [sb.usedBNew]; simp
  · rw [sb.usedBOld b a hb, inv.usedB b a]
    constructor
    · exact Or.inl
    · rintro (z | z)
      · exact z
      · exact absurd z hb

theorem sb_stack (hsort : t.Sorted) (inv : Inv t done (u :: rest) ix st n h) :
    (∀ w, w ∈ (t.childPaths u).reverse ++ rest → Pl t (u :: done) w) ∧
    ((t.childPaths u).reverse ++ rest).Nodup ∧
    (∀ w, w ∈ (t.childPaths u).reverse ++ rest → w ∉ u :: done) ∧
    (∀ w, Pl t (u :: done) w → w ∈ u :: done ∨ w ∈ (t.childPaths u).reverse ++ rest ∨ ¬ HasKid t w) := by
  have hnd := inv.stackND
  simp only [List.nodup_cons] at hnd
  refine ⟨?_, ?_, ?_, ?_⟩
  · intro w hw
    rw [sb_pl' inv]
    simp only [List.mem_append, List.mem_reverse] at hw
    rcases hw with hw | hw
    · exact Or.inr hw
    · exact Or.inl (inv.stackPl w (List.mem_cons_of_mem _ hw))
  · rw [List.nodup_append]
    refine ⟨nodup_reverse' (Trie.nodup_childPaths t hsort u), hnd.2, ?_⟩
    intro a ha b hb e
    subst e
    simp only [List.mem_reverse] at ha
    exact sb_old_not_kid inv (inv.stackPl a (List.mem_cons_of_mem _ hb)) ha
  · intro w hw hm
    simp only [List.mem_append, List.mem_reverse] at hw
    simp only [List.mem_cons] at hm
    rcases hw with hw | hw
    · rcases hm with rfl | hm
      · exact sb_old_not_kid inv (sb_u inv).1 hw
      · exact sb_old_not_kid inv (inv.donePl w hm) hw
    · rcases hm with rfl | hm
      · exact hnd.1 hw
      · exact inv.stackDone w (List.mem_cons_of_mem _ hw) hm
  · intro w pw
    rw [sb_pl' inv] at pw
    rcases pw with pw | kw
    · rcases inv.cover w pw with z | z | z
      · exact Or.inl (List.mem_cons_of_mem _ z)
      · simp only [List.mem_cons] at z
        rcases z with rfl | z
        · exact Or.inl List.mem_cons_self
        · exact Or.inr (Or.inl (List.mem_append_right _ z))
      · exact Or.inr (Or.inr z)
    · exact Or.inr (Or.inl (List.mem_append_left _ (List.mem_reverse.2 kw)))

theorem stepB_inv (hsort : t.Sorted) (inv : Inv t done (u :: rest) ix st n h) (hk : HasKid t u)
    (sb : StepB t u base ix ix' st st' h h') :
    Inv t (u :: done) ((t.childPaths u).reverse ++ rest) ix' st' n h' := by
  obtain ⟨s1, s2, s3, s4⟩ := sb_stack hsort inv
  have hupl := (sb_u inv).1
  have kidpl : ∀ c, t.hasNode (u ++ [c]) = true → Pl t (u :: done) (u ++ [c]) :=
    fun c hc => Pl.kid List.mem_cons_self hc
  refine
    { wf := sb.wf', bl := sb.bl'.trans inv.bl, size := by rw [sb.nb']; exact inv.size
      nbpos := by rw [sb.nb']; exact inv.nbpos
      root := by rw [sb_ix_old inv sb (Or.inl rfl)]; exact inv.root
      lt := ?_, inj := sb_inj inv sb, ne1 := ?_, usedI := sb_usedI inv sb, check := ?_, base0 := ?_
      baseK := ?_, usedB := sb_usedB inv sb, baseInj := ?_, closed := ?_, doneKid := ?_, donePl := ?_
      stackPl := s1, stackND := s2, stackDone := s3, cover := s4 }
  · -- lt
    intro w pw
    rw [sb_pl' inv] at pw
    rcases pw with pw | kw
    · rw [sb_ix_old inv sb pw]; exact inv.lt w pw
    · obtain ⟨c, rfl, hc⟩ := (sb_mem_kids inv w).1 kw
      rw [sb.ixKid c hc]; exact inv.active_lt (sb.slotAct c hc)
  · -- ne1
    intro w pw
    rw [sb_pl' inv] at pw
    rcases pw with pw | kw
    · rw [sb_ix_old inv sb pw]; exact inv.ne1 w pw
    · obtain ⟨c, rfl, hc⟩ := (sb_mem_kids inv w).1 kw
      rw [sb.ixKid c hc]; exact (sb_slot_fresh inv sb hc).2.1
  · -- check
    intro p c hp hn
    simp only [List.mem_cons] at hp
    rcases hp with rfl | hp
    · rw [sb.ixKid c hn, sb.stKid c hn]
    · have pl := Pl.kid hp hn
      rw [sb_ix_old inv sb pl, sb_check_frame inv sb]
      · exact inv.check p c hp hn
      · intro c' hc' e
        exact (sb_slot_fresh inv sb hc').2.2.2 _ pl e.symm
  · -- base0
    intro j hj
    by_cases hu : j = ix u
    · exact ⟨u, List.mem_cons_self, by rw [sb_ix_old inv sb hupl]; exact hu.symm⟩
    · rw [sb_base_frame inv sb hu] at hj
      obtain ⟨u0, h0, e⟩ := inv.base0 j hj
      exact ⟨u0, List.mem_cons_of_mem _ h0, by rw [sb_ix_old inv sb (inv.donePl u0 h0)]; exact e⟩
  · -- baseK
    intro u0 h0
    simp only [List.mem_cons] at h0
    rcases h0 with rfl | h0
    · rw [sb_base_u inv sb]
      exact ⟨sb.baseNe, inv.active_lt sb.baseAct, fun c hc => sb.ixKid c hc⟩
    · rw [sb_base_done inv sb h0]
      obtain ⟨a, b, c⟩ := inv.baseK u0 h0
      refine ⟨a, b, fun c' hc' => ?_⟩
      rw [sb_ix_old inv sb (Pl.kid h0 hc')]; exact c c' hc'
  · -- baseInj
    intro u0 u1 h0 h1 e
    simp only [List.mem_cons] at h0 h1
    rcases h0 with rfl | h0 <;> rcases h1 with rfl | h1
    · rfl
    · rw [sb_base_u inv sb, sb_base_done inv sb h1] at e
      exact absurd ⟨u1, h1, e.symm⟩ (sb_not_isBase inv sb)
    · rw [sb_base_u inv sb, sb_base_done inv sb h0] at e
      exact absurd ⟨u0, h0, e⟩ (sb_not_isBase inv sb)
    · rw [sb_base_done inv sb h0, sb_base_done inv sb h1] at e
      exact inv.baseInj u0 u1 h0 h1 e
  · -- closed
    intro j hj ho b hb hblk
    rw [sb_activeStart sb] at hj
    rw [sb_occ' inv sb] at ho
    rw [sb_isBase' inv sb] at hb
    have hns : ∀ c, t.hasNode (u ++ [c]) = true → base ^^^ c ≠ j := fun c hc e => ho (Or.inr ⟨c, hc, e⟩)
    rw [sb_check_frame inv sb hns]
    rcases hb with hb | rfl
    · exact inv.closed j hj (fun z => ho (Or.inl z)) b hb hblk
    · have := (inv.active_iff b).1 sb.baseAct
      omega
  · -- doneKid
    intro u0 h0
    simp only [List.mem_cons] at h0
    rcases h0 with rfl | h0
    · exact hk
    · exact inv.doneKid u0 h0
  · -- donePl
    intro u0 h0
    rw [sb_pl' inv]
    simp only [List.mem_cons] at h0
    rcases h0 with rfl | h0
    · exact Or.inl hupl
    · exact Or.inl (inv.donePl u0 h0)

end StepBInv

/-! ## 9. `findBase`, the edge list -/

theorem baseOk_true {h : Helper} {b : Nat} {codes : List Nat}
    (e : baseOk .bytewise h b codes = .ok true) : h.Active b ∧ h.usedB b = false ∧ b ≠ 0 := by
  unfold baseOk at e
  simp only at e
  split at e
  · cases e
  · cases e
  · rename_i hu
    obtain ⟨a, ub⟩ := Helper.isUsedBase_ok.1 hu
    split at e
    · cases e
    · rename_i r _
      simp only [Except.ok.injEq, Bool.and_eq_true, bne_iff_ne, ne_eq] at e
      exact ⟨a, ub.symm, e.2⟩

theorem findBaseIn_some {h : Helper} {c0 : Nat} {codes : List Nat} :
    ∀ (l : List Nat) {b : Nat}, findBaseIn .bytewise h c0 codes l = .ok (some b) →
      h.Active b ∧ h.usedB b = false ∧ b ≠ 0 := by
  intro l
  induction l with
  | nil => intro b e; unfold findBaseIn at e; cases e
  | cons i r ih =>
    intro b e
    unfold findBaseIn at e
    split at e
    · cases e
    · rename_i hok
      simp only [Except.ok.injEq, Option.some.injEq] at e; subst e
      exact baseOk_true hok
    · exact ih e

theorem findBase_spec {lay : Lay} {codes : List Nat} {base : Nat}
    (e : findBase .bytewise lay codes = .ok base) :
    (lay.h.Active base ∧ lay.h.usedB base = false ∧ base ≠ 0) ∨ base = lay.states.size := by
  unfold findBase at e
  simp only at e
  split at e
  · cases e
  · split at e
    · cases e
    · rename_i b hb
      simp only [Except.ok.injEq] at e; subst e
      exact Or.inl (findBaseIn_some _ hb)
    · simp only [Except.ok.injEq] at e
      exact Or.inr e.symm

/-- The edge list of the byte-wise builder. -/
def edgesB (t : Trie V) (u : List Nat) : List (Nat × List Nat) :=
  (t.childPaths u).map fun w => (w.getLastD 0, w)

theorem edgesB_map_snd (t : Trie V) (u : List Nat) : (edgesB t u).map (·.2) = t.childPaths u := by
  unfold edgesB
  rw [List.map_map]
  exact List.map_id' _

theorem mem_edgesB {t : Trie V} {u : List Nat} (hu : t.hasNode u = true) (e : Nat × List Nat) :
    e ∈ edgesB t u ↔ ∃ c, t.hasNode (u ++ [c]) = true ∧ e = (c, u ++ [c]) := by
  unfold edgesB
  simp only [List.mem_map, Trie.mem_childPaths]
  constructor
  · rintro ⟨w, ⟨c, rfl, hc, _⟩, rfl⟩
    exact ⟨c, hc, by rw [List.getLastD_concat]⟩
  · rintro ⟨c, hc, rfl⟩
    exact ⟨u ++ [c], ⟨c, rfl, hc, hu⟩, by rw [List.getLastD_concat]⟩

theorem hasKid_iff {t : Trie V} {u : List Nat} (hu : t.hasNode u = true) :
    HasKid t u ↔ t.childPaths u ≠ [] := by
  constructor
  · rintro ⟨c, hc⟩ e
    have : u ++ [c] ∈ t.childPaths u := (Trie.mem_childPaths t u _).2 ⟨c, rfl, hc, hu⟩
    rw [e] at this; cases this
  · intro hne
    cases hk : t.childPaths u with
    | nil => exact absurd hk hne
    | cons w r =>
      have : w ∈ t.childPaths u := by rw [hk]; exact List.mem_cons_self
      obtain ⟨c, rfl, hc, _⟩ := (Trie.mem_childPaths t u _).1 this
      exact ⟨c, hc⟩

/-- Popping a leaf from the stack. -/
theorem Inv.pop_leaf {t : Trie V} {done rest : List (List Nat)} {u : List Nat}
    {ix : List Nat → Nat} {st : Nat → St} {n : Nat} {h : Helper}
    (inv : Inv t done (u :: rest) ix st n h) (hk : ¬ HasKid t u) : Inv t done rest ix st n h := by
  have hnd := inv.stackND
  simp only [List.nodup_cons] at hnd
  refine { inv with stackPl := ?_, stackND := hnd.2, stackDone := ?_, cover := ?_ }
  · intro w hw; exact inv.stackPl w (List.mem_cons_of_mem _ hw)
  · intro w hw; exact inv.stackDone w (List.mem_cons_of_mem _ hw)
  · intro w pw
    rcases inv.cover w pw with z | z | z
    · exact Or.inl z
    · simp only [List.mem_cons] at z
      rcases z with rfl | z
      · exact Or.inr (Or.inr hk)
      · exact Or.inr (Or.inl z)
    · exact Or.inr (Or.inr z)

/-! ## 10. The DFS step and loop -/

def ixOf (lay : Lay) : List Nat → Nat := fun w => lay.idx.getD w deadIdx

theorem stepB_of_ops {t : Trie V} {done rest : List (List Nat)} {u : List Nat} (hsort : t.Sorted)
    {lay1 lay2 : Lay} {states' : Array St} {h' : Helper} {base : Nat}
    (inv : Inv t done (u :: rest) (ixOf lay1) (gs lay1.states) lay1.states.size lay1.h)
    (hfree : lay1.h.usedB base = false) (hne : base ≠ 0)
    (e1 : placeChildren .bytewise (ixOf lay1 u) base (edgesB t u) lay1 = .ok lay2)
    (e2 : setSt lay2.states (ixOf lay1 u) (fun st => { st with base := base }) = .ok states')
    (e3 : lay2.h.useBase base = .ok h') :
    StepB t u base (ixOf lay1) (ixOf lay2) (gs lay1.states) (gs states') lay1.h h' ∧
      states'.size = lay1.states.size := by
  have hun := (sb_u inv).2.2
  have nd : ((edgesB t u).map (·.2)).Nodup := by
    rw [edgesB_map_snd]; exact Trie.nodup_childPaths t hsort u
  obtain ⟨r1, r2, r3, r4, r5, r6, r7, r8, r9, r10⟩ :=
    placeChildren_spec (ixOf lay1 u) base (edgesB t u) lay1 lay2 inv.wf nd e1
  obtain ⟨ilt, sz, hi, ho⟩ := setSt_ok e2
  obtain ⟨ab, ubt, ubo, ui, b1, b2, b3, wf'⟩ := Helper.useBase_ok r1 e3
  have ac := Helper.Active_congr r2 r3 r4
  have memE : ∀ c, t.hasNode (u ++ [c]) = true → (c, u ++ [c]) ∈ edgesB t u :=
    fun c hc => (mem_edgesB hun _).2 ⟨c, hc, rfl⟩
  have notE : ∀ j, (∀ c, t.hasNode (u ++ [c]) = true → base ^^^ c ≠ j) →
      ∀ e, e ∈ edgesB t u → base ^^^ e.1 ≠ j := by
    intro j hj e he
    obtain ⟨c, hc, rfl⟩ := (mem_edgesB hun e).1 he
    exact hj c hc
  -- the element of `u` is none of the new slots
  have hsl : ∀ c, t.hasNode (u ++ [c]) = true → base ^^^ c ≠ ixOf lay1 u := by
    intro c hc e
    have q := r7 _ (memE c hc)
    exact (inv.free_fresh q.1 q.2.1).2.2.2 u (sb_u inv).1 e.symm
  refine ⟨?_, sz.trans r6⟩
  refine
    { wf' := wf', bl' := b1.trans r2, nfb' := b2.trans r3, nb' := b3.trans r4
      slotAct := fun c hc => (r7 _ (memE c hc)).1
      slotFree := fun c hc => (r7 _ (memE c hc)).2.1
      ixKid := fun c hc => (r7 _ (memE c hc)).2.2.2.2.1
      ixOld := ?_
      usedIKid := fun c hc => by rw [ui]; exact (r7 _ (memE c hc)).2.2.1
      usedIOld := fun j aj hj => by rw [ui]; exact r8 j aj (notE j hj)
      usedBNew := ubt
      usedBOld := fun j aj hj => by rw [ubo j ((ac j).2 aj) hj]; exact r5 j
      baseAct := (ac base).1 ab
      baseFree := hfree
      baseNe := hne
      stU := ?_, stKid := ?_, stOther := ?_ }
  · intro w hw
    apply r10 w
    rw [edgesB_map_snd]; exact hw
  · rw [hi, r9 _ (notE _ hsl)]
  · intro c hc
    rw [ho _ (hsl c hc)]
    exact (r7 _ (memE c hc)).2.2.2.2.2
  · intro j hj hs
    rw [ho j hj, r9 j (notE j hs)]

theorem layoutStep_inv {t : Trie V} {done rest : List (List Nat)} {u : List Nat} (hsort : t.Sorted)
    (hbytes : ∀ u, t.hasNode u = true → ∀ c ∈ u, c < 256) {m : Mapper} {lay lay' : Lay}
    {stack' : List (List Nat)}
    (inv : Inv t done (u :: rest) (ixOf lay) (gs lay.states) lay.states.size lay.h)
    (e : layoutStep .bytewise m t u rest lay = .ok (stack', lay')) :
    ∃ done', Inv t done' stack' (ixOf lay') (gs lay'.states) lay'.states.size lay'.h := by
  unfold layoutStep at e
  simp only [edgeCodes] at e
  split at e
  · cases e
  · rename_i heq
    simp only [Except.ok.injEq, List.map_eq_nil_iff] at heq
    simp only [Except.ok.injEq, Prod.mk.injEq] at e
    obtain ⟨rfl, rfl⟩ := e
    have hk : ¬ HasKid t u := fun hk => (hasKid_iff (sb_u inv).2.2).1 hk heq
    exact ⟨done, inv.pop_leaf hk⟩
  · rename_i edges hne heq
    simp only [Except.ok.injEq] at heq
    have hE : edges = edgesB t u := heq.symm
    subst hE
    have hk : HasKid t u := by
      rw [hasKid_iff (sb_u inv).2.2]
      intro e0; apply hne; unfold edgesB; rw [e0]; rfl
    split at e
    · cases e
    · rename_i base hfb
      split at e
      · cases e
      · rename_i lay1 hext
        -- the state after the (possible) extension
        have h1 : Inv t done (u :: rest) (ixOf lay1) (gs lay1.states) lay1.states.size lay1.h ∧
            lay1.idx = lay.idx ∧ lay1.h.usedB base = false ∧ base ≠ 0 := by
          rcases findBase_spec hfb with ⟨a, ub, hne0⟩ | hsz
          · have : ¬ lay.states.size ≤ base := by have := inv.active_lt a; omega
            rw [if_neg this] at hext
            simp only [Except.ok.injEq] at hext; subst hext
            exact ⟨inv, rfl, ub, hne0⟩
          · rw [if_pos (by omega)] at hext
            obtain ⟨i1, i2, _, i4⟩ := extend_inv hbytes inv hext
            have hix : ixOf lay1 = ixOf lay := by unfold ixOf; rw [i2]
            rw [hix]
            refine ⟨i1, i2, by rw [hsz]; exact i4, ?_⟩
            have := inv.size; have := inv.nbpos; omega
        obtain ⟨inv1, hidx, hfree, hne0⟩ := h1
        have hsidx : lay.idx.getD u deadIdx = ixOf lay1 u := by unfold ixOf; rw [hidx]
        rw [hsidx] at e
        split at e
        · cases e
        · rename_i lay2 e1
          split at e
          · cases e
          · rename_i states' e2
            split at e
            · cases e
            · rename_i h' e3
              simp only [Except.ok.injEq, Prod.mk.injEq] at e
              obtain ⟨rfl, rfl⟩ := e
              obtain ⟨sb, sz⟩ := stepB_of_ops hsort inv1 hfree hne0 e1 e2 e3
              have := stepB_inv hsort inv1 hk sb
              rw [edgesB_map_snd]
              refine ⟨u :: done, ?_⟩
              show Inv t (u :: done) _ (ixOf lay2) (gs states') states'.size h'
              rw [sz]; exact this

theorem layoutLoop_inv {t : Trie V} (hsort : t.Sorted)
    (hbytes : ∀ u, t.hasNode u = true → ∀ c ∈ u, c < 256) {m : Mapper} :
    ∀ (fuel : Nat) (stack done : List (List Nat)) (lay lay' : Lay),
      Inv t done stack (ixOf lay) (gs lay.states) lay.states.size lay.h →
      layoutLoop .bytewise m t fuel stack lay = .ok lay' →
      ∃ done', Inv t done' [] (ixOf lay') (gs lay'.states) lay'.states.size lay'.h := by
  intro fuel
  induction fuel with
  | zero =>
    intro stack done lay lay' inv e
    cases stack with
    | nil =>
      unfold layoutLoop at e
      simp only [Except.ok.injEq] at e; subst e
      exact ⟨done, inv⟩
    | cons u rest => unfold layoutLoop at e; cases e
  | succ fuel ih =>
    intro stack done lay lay' inv e
    cases stack with
    | nil =>
      unfold layoutLoop at e
      simp only [Except.ok.injEq] at e; subst e
      exact ⟨done, inv⟩
    | cons u rest =>
      unfold layoutLoop at e
      split at e
      · cases e
      · rename_i stack1 lay1 hs
        obtain ⟨done1, inv1⟩ := layoutStep_inv hsort hbytes inv hs
        exact ih stack1 done1 lay1 lay' inv1 e

section Final
variable {t : Trie V} {done : List (List Nat)} {ix : List Nat → Nat} {st : Nat → St} {n : Nat}
  {h : Helper}

theorem Inv.done_of_kid (inv : Inv t done [] ix st n h) {w : List Nat} (pl : Pl t done w)
    (hk : HasKid t w) : w ∈ done := by
  rcases inv.cover w pl with z | z | z
  · exact z
  · cases z
  · exact absurd hk z

theorem Inv.all_nodes (inv : Inv t done [] ix st n h) :
    ∀ (k : Nat) (w : List Nat), w.length = k → t.hasNode w = true → Pl t done w := by
  intro k
  induction k with
  | zero =>
    intro w hl _
    exact Or.inl (List.length_eq_zero_iff.1 hl)
  | succ k ih =>
    intro w hl hn
    have hne : w ≠ [] := by intro e; rw [e] at hl; cases hl
    have hw := List.dropLast_concat_getLast hne
    rw [← hw] at hn
    have hp := ih w.dropLast (by rw [List.length_dropLast]; omega) (Trie.hasNode_of_snoc t _ _ hn)
    have := inv.done_of_kid hp ⟨_, hn⟩
    rw [← hw]
    exact Pl.kid this hn

theorem Inv.node_pl (inv : Inv t done [] ix st n h) {w : List Nat} (hn : t.hasNode w = true) :
    Pl t done w := inv.all_nodes w.length w rfl hn

end Final

/-! ## 11. `setFailOut` and the final sanitising pass -/

/-- The FAIL value `setFailOut` writes for node `u`. -/
def failIdx (nfa : Nfa V) (ix : List Nat → Nat) (u : List Nat) : Nat :=
  match nfa.fail.get u with
  | .dead => deadIdx
  | .node w => ix w

theorem setFailOut_spec (nfa : Nfa V) : ∀ (l : List (List Nat)) (lay lay' : Lay),
    setFailOut .bytewise nfa l lay = .ok lay' →
    lay'.idx = lay.idx ∧ lay'.h = lay.h ∧ lay'.states.size = lay.states.size ∧
    (∀ j, (gs lay'.states j).base = (gs lay.states j).base ∧
      (gs lay'.states j).check = (gs lay.states j).check) ∧
    (∀ j, (∀ u, u ∈ l → ixOf lay u ≠ j) → gs lay'.states j = gs lay.states j) ∧
    ((∀ u u', u ∈ l → u' ∈ l → ixOf lay u = ixOf lay u' → u = u') →
      ∀ u, u ∈ l → ixOf lay u < lay.states.size ∧
        (gs lay'.states (ixOf lay u)).opos = nfa.out.opos.getD u 0 ∧
        (gs lay'.states (ixOf lay u)).fail = failIdx nfa (ixOf lay) u) := by
  intro l
  induction l with
  | nil =>
    intro lay lay' e
    unfold setFailOut at e
    simp only [Except.ok.injEq] at e; subst e
    refine ⟨rfl, rfl, rfl, fun _ => ⟨rfl, rfl⟩, fun _ _ => rfl, fun _ u hu => ?_⟩
    cases hu
  | cons u rest ih =>
    intro lay lay' e
    unfold setFailOut at e
    simp only at e
    split at e
    · cases e
    · split at e
      · cases e
      · rename_i s1 es
        obtain ⟨ilt, sz, hi, ho⟩ := setSt_ok es
        obtain ⟨r1, r2, r3, r4, r5, r6⟩ := ih { lay with states := s1 } lay' e
        have hix : ixOf { lay with states := s1 } = ixOf lay := rfl
        rw [hix] at r5 r6
        simp only at r1 r2 r3 r4 r5 r6
        have hi' : gs s1 (ixOf lay u) = { gs lay.states (ixOf lay u) with
            opos := nfa.out.opos.getD u 0, fail := failIdx nfa (ixOf lay) u } := hi
        refine ⟨r1, r2, r3.trans sz, ?_, ?_, ?_⟩
        · intro j
          rw [(r4 j).1, (r4 j).2]
          by_cases hj : j = ixOf lay u
          · rw [hj, hi']; exact ⟨rfl, rfl⟩
          · rw [ho j hj]; exact ⟨rfl, rfl⟩
        · intro j hj
          rw [r5 j (fun u' hu' => hj u' (List.mem_cons_of_mem _ hu'))]
          exact ho j (Ne.symm (hj u List.mem_cons_self))
        · intro hinj u' hu'
          have hinj' : ∀ a b, a ∈ rest → b ∈ rest → ixOf lay a = ixOf lay b → a = b :=
            fun a b ha hb => hinj a b (List.mem_cons_of_mem _ ha) (List.mem_cons_of_mem _ hb)
          by_cases hr : u' ∈ rest
          · obtain ⟨q1, q2, q3⟩ := r6 hinj' u' hr
            exact ⟨by omega, q2, q3⟩
          · simp only [List.mem_cons] at hu'
            rcases hu' with rfl | hu'
            · have : ∀ a, a ∈ rest → ixOf lay a ≠ ixOf lay u' := by
                intro a ha e
                have := hinj a u' (List.mem_cons_of_mem _ ha) List.mem_cons_self e
                subst this
                exact hr ha
              rw [r5 _ this, hi']
              exact ⟨ilt, rfl, rfl⟩
            · exact absurd hu' hr

section SanBlocks
variable {t : Trie V} {done stack : List (List Nat)} {ix : List Nat → Nat} {n : Nat} {h : Helper}

theorem VacOK.congr {st st' : Nat → St} {j : Nat} (hbase : ∀ x, (st' x).base = (st x).base)
    (hchk : (st' j).check = (st j).check) (v : VacOK t done ix st j) : VacOK t done ix st' j := by
  intro ho b hb hblk
  rw [hchk]
  apply v ho b _ hblk
  obtain ⟨u, hu, e⟩ := hb
  exact ⟨u, hu, by rw [← hbase]; exact e⟩

theorem sanitiseBlocks_spec (hbytes : ∀ u, t.hasNode u = true → ∀ c ∈ u, c < 256) :
    ∀ (k B : Nat) (s s' : Array St), Inv t done stack ix (gs s) n h → h.activeStart ≤ B →
      B + k ≤ h.numBlocks →
      (∀ j, h.activeStart ≤ j / 256 → j / 256 < B → VacOK t done ix (gs s) j) →
      sanitiseBlocks h k B s = .ok s' →
      s'.size = s.size ∧ Inv t done stack ix (gs s') n h ∧
      (∀ j, h.activeStart ≤ j / 256 → j / 256 < B + k → VacOK t done ix (gs s') j) ∧
      (∀ j, (gs s' j).base = (gs s j).base ∧ (gs s' j).fail = (gs s j).fail ∧
        (gs s' j).opos = (gs s j).opos) := by
  intro k
  induction k with
  | zero =>
    intro B s s' inv _ _ hv e
    unfold sanitiseBlocks at e
    simp only [Except.ok.injEq] at e; subst e
    exact ⟨rfl, inv, hv, fun _ => ⟨rfl, rfl, rfl⟩⟩
  | succ k ih =>
    intro B s s' inv hlo hhi hv e
    unfold sanitiseBlocks at e
    split at e
    · cases e
    · rename_i s1 e1
      obtain ⟨sz1, inv1, hv1, hoth, hfr⟩ := sanitise_block hbytes inv hlo (by omega) e1
      have hv' : ∀ j, h.activeStart ≤ j / 256 → j / 256 < B + 1 → VacOK t done ix (gs s1) j := by
        intro j lo hi
        by_cases hj : j / 256 = B
        · exact hv1 j hj
        · exact (hv j lo (by omega)).congr (fun x => (hfr x).1) (by rw [hoth j hj])
      obtain ⟨q1, q2, q3, q4⟩ := ih (B + 1) s1 s' inv1 (by omega) (by omega) hv' e
      refine ⟨q1.trans sz1, q2, ?_, ?_⟩
      · intro j lo hi; exact q3 j lo (by omega)
      · intro j
        obtain ⟨a1, a2, a3⟩ := q4 j
        obtain ⟨b1, b2, b3⟩ := hfr j
        exact ⟨a1.trans b1, a2.trans b2, a3.trans b3⟩

end SanBlocks

/-! ## 12. The initial state -/

theorem init_inv (t : Trie V) {nfb : Nat} {h0 h1 h2 h3 : Helper}
    (e0 : Helper.new 256 nfb = .ok h0) (e1 : h0.pushBlock = .ok h1)
    (e2 : h1.useIndex 0 = .ok h2) (e3 : h2.useIndex 1 = .ok h3) :
    Inv t [] [[]] (ixOf ⟨Array.replicate 256 stDefaultB, h3,
        ({} : Std.HashMap (List Nat) Nat).insert [] 0⟩)
      (gs (Array.replicate 256 stDefaultB)) 256 h3 := by
  obtain ⟨wf, nb, bl, nfbe, _, act, u0, u1, ufree, ub⟩ := Helper.init_ok e0 e1 e2 e3
  have hpl : ∀ w, Pl t [] w → w = [] := by
    rintro w (e | ⟨p, c, _, hp, _⟩)
    · exact e
    · cases hp
  have hocc : ∀ ix j, ¬ Occ t [] ix j := by
    rintro ix j ⟨p, c, hp, _⟩; cases hp
  have hroot : ixOf ⟨Array.replicate 256 stDefaultB, h3,
      ({} : Std.HashMap (List Nat) Nat).insert [] 0⟩ [] = 0 := by
    unfold ixOf; exact Std.HashMap.getD_insert_self
  refine
    { wf := wf, bl := bl, size := by rw [nb], nbpos := by rw [nb]; omega, root := hroot
      lt := ?_, inj := ?_, ne1 := ?_, usedI := ?_, check := ?_, base0 := ?_, baseK := ?_, usedB := ?_
      baseInj := ?_, closed := ?_, doneKid := ?_, donePl := ?_, stackPl := ?_, stackND := ?_
      stackDone := ?_, cover := ?_ }
  · intro w pl; rw [hpl w pl, hroot]; omega
  · intro w w' pl pl' _; rw [hpl w pl, hpl w' pl']
  · intro w pl; rw [hpl w pl, hroot]; omega
  · intro j a
    have hj := (act j).1 a
    by_cases h0 : j = 0
    · subst h0; simp [u0]
    · by_cases h1 : j = 1
      · subst h1; simp [u1]
      · rw [ufree j (by omega) hj]
        constructor
        · intro hh; cases hh
        · rintro (z | z | z)
          · exact absurd z h0
          · exact absurd z h1
          · exact absurd z (hocc _ _)
  · intro p c hp; cases hp
  · intro j hj; rw [gs_replicate] at hj; exact absurd rfl hj
  · intro u hu; cases hu
  · intro b _
    rw [ub b]
    constructor
    · intro hh; cases hh
    · rintro ⟨u, hu, _⟩; cases hu
  · intro u u' hu; cases hu
  · intro j hj
    have : h3.activeStart = 0 := by
      unfold Helper.activeStart; rw [nb, nfbe]
      have := wf.nfb_pos; rw [nfbe] at this; omega
    rw [this] at hj; omega
  · intro u hu; cases hu
  · intro u hu; cases hu
  · intro u hu
    simp only [List.mem_singleton] at hu
    exact Or.inl hu
  · simp
  · intro u _ hu; cases hu
  · intro w pl
    exact Or.inr (Or.inl (by rw [hpl w pl]; exact List.mem_singleton.2 rfl))

/-! ## 13. Assembling `LayoutSem` -/

theorem labelOk_lt {da : DA V} (hv : da.variant = .bytewise) {c : Nat} (hc : LabelOk da c) :
    c < 256 := by
  unfold LabelOk DA.sigma DA.code at hc
  rw [hv] at hc
  simp only [List.mem_range, reduceCtorEq, or_false] at hc
  exact hc

theorem layoutSem_of_inv {t : Trie V} {nfa : Nfa V} {done : List (List Nat)} {ix : List Nat → Nat}
    {h : Helper} (da : DA V) (hv : da.variant = .bytewise) (hout : da.outputs = nfa.out.outs)
    (inv : Inv t done [] ix (gs da.states) da.states.size h)
    (hvac : ∀ j, VacOK t done ix (gs da.states) j)
    (hfo : ∀ u, t.hasNode u = true → (gs da.states (ix u)).opos = nfa.out.opos.getD u 0 ∧
      (gs da.states (ix u)).fail = failIdx nfa ix u) :
    LayoutSem da t nfa ix ∧ (∀ u, t.hasNode u = true → ix u < da.states.size) ∧
    (∀ u w, t.hasNode u = true → t.hasNode w = true → ix u = ix w → u = w) := by
  refine ⟨⟨inv.root, ?_, ?_, ?_, hout⟩, fun u hu => inv.lt u (inv.node_pl hu),
    fun u w hu hw e => inv.inj u w (inv.node_pl hu) (inv.node_pl hw) e⟩
  · -- nonroot
    intro u hu hne
    have pl := inv.node_pl hu
    refine ⟨?_, inv.ne1 u pl⟩
    intro e
    exact hne (inv.inj u [] pl (Or.inl rfl) (e.trans inv.root.symm))
  · -- node
    intro u hu
    have pl := inv.node_pl hu
    refine ⟨gs da.states (ix u), st_ok da (inv.lt u pl), (hfo u hu).1, fun _ => (hfo u hu).2⟩
  · -- child
    intro u hu c hc
    have hc256 := labelOk_lt hv hc
    have pl := inv.node_pl hu
    have hcode : da.code c = some c := by unfold DA.code; rw [hv]
    unfold DA.childL
    rw [hcode]
    simp only
    unfold DA.child
    rw [st_ok da (inv.lt u pl)]
    simp only
    by_cases hk : HasKid t u
    · have hud := inv.done_of_kid pl hk
      obtain ⟨b0, blt, bk⟩ := inv.baseK u hud
      rw [if_neg b0]
      have hx : (gs da.states (ix u)).base ^^^ c < da.states.size := by
        have := inv.size
        have e1 := xor_div_small (b := (gs da.states (ix u)).base) hc256
        omega
      rw [st_ok da hx, hv]
      simp only
      by_cases hn : t.hasNode (u ++ [c]) = true
      · rw [if_pos hn, ← bk c hn, inv.check u c hud hn, if_pos rfl]
      · rw [if_neg hn, if_neg]
        intro hchk
        by_cases ho : Occ t done ix ((gs da.states (ix u)).base ^^^ c)
        · obtain ⟨p, c', hp, hn', e⟩ := ho
          have e1 := inv.check p c' hp hn'
          rw [e, hchk] at e1
          subst e1
          rw [(inv.baseK p hp).2.2 c hn'] at e
          have := inv.baseInj p u hp hud (xor_right_inj e)
          subst this
          exact hn hn'
        · have := hvac _ ho _ ⟨u, hud, rfl⟩ (xor_div_small hc256).symm
          rw [xor_cancel_left] at this
          exact this hchk
    · have hb : (gs da.states (ix u)).base = 0 := by
        apply Classical.byContradiction
        intro hb
        obtain ⟨u0, h0, e⟩ := inv.base0 _ hb
        have := inv.inj u0 u (inv.donePl u0 h0) pl e
        subst this
        exact hk (inv.doneKid u0 h0)
      rw [if_pos hb, if_neg]
      intro hn; exact hk ⟨c, hn⟩

/-! ## 14. The main theorem -/

theorem layoutSem_bytewise (cfg : Cfg) (m : Mapper) (t : Trie V) (nfa : Nfa V) (states : Array St)
    (hb : buildLayout .bytewise cfg m t nfa = .ok states) (hsort : t.Sorted)
    (hbytes : ∀ u, t.hasNode u = true → ∀ c ∈ u, c < 256) (kind numStates : Nat) :
    ∃ idx : List Nat → Nat,
      LayoutSem ({ variant := .bytewise, states := states, outputs := nfa.out.outs, mapTable := #[],
                   alphaSize := 0, kind := kind, numStates := numStates } : DA V) t nfa idx ∧
      (∀ u, t.hasNode u = true → idx u < states.size) ∧
      (∀ u w, t.hasNode u = true → t.hasNode w = true → idx u = idx w → u = w) := by
  unfold buildLayout at hb
  simp only at hb
  split at hb
  · cases hb
  · rename_i h0 e0
    split at hb
    · cases hb
    · rename_i h1 e1
      split at hb
      · cases hb
      · rename_i h2 e2
        split at hb
        · cases hb
        · rename_i h3 e3
          split at hb
          · cases hb
          · rename_i lay1 eloop
            split at hb
            · cases hb
            · rename_i lay2 efo
              have inv0 := init_inv t e0 e1 e2 e3
              have inv0' : Inv t [] [[]]
                  (ixOf ⟨Array.replicate 256 stDefaultB, h3,
                    ({} : Std.HashMap (List Nat) Nat).insert [] 0⟩)
                  (gs (Array.replicate 256 stDefaultB)) (Array.replicate 256 stDefaultB).size h3 := by
                rw [Array.size_replicate]; exact inv0
              obtain ⟨done, inv1⟩ := layoutLoop_inv hsort hbytes _ _ _ _ lay1 inv0' eloop
              obtain ⟨r1, r2, r3, r4, _, r6⟩ := setFailOut_spec nfa _ _ _ efo
              have hnodes : ∀ u, u ∈ t.paths [] ↔ t.hasNode u = true := fun u =>
                Trie.mem_paths_nil t hsort u
              have hfo := r6 (fun u u' hu hu' e =>
                inv1.inj u u' (inv1.node_pl ((hnodes u).1 hu)) (inv1.node_pl ((hnodes u').1 hu')) e)
              have inv2 : Inv t done [] (ixOf lay1) (gs lay2.states) lay2.states.size lay2.h := by
                rw [r2, r3]
                exact inv1.congr (fun j => (r4 j).1) (fun j _ => (r4 j).2) (fun j _ => (r4 j).2)
              have hA : lay2.h.activeStart ≤ lay2.h.numBlocks := by
                unfold Helper.activeStart; omega
              obtain ⟨q1, q2, q3, q4⟩ := sanitiseBlocks_spec hbytes _ _ _ _ inv2 (Nat.le_refl _)
                (by omega) (fun j lo hi => by omega) hb
              rw [← q1] at q2
              have hvac : ∀ j, VacOK t done (ixOf lay1) (gs states) j := by
                intro j
                by_cases hlo : j / 256 < lay2.h.activeStart
                · exact q2.closed j hlo
                · by_cases hhi : j / 256 < lay2.h.numBlocks
                  · exact q3 j (by omega) (by omega)
                  · intro _ b hb' hblk
                    have := (q2.isBase_lt hb').2
                    have := q2.size
                    omega
              refine ⟨ixOf lay1, layoutSem_of_inv _ rfl rfl q2 hvac ?_⟩
              intro u hu
              obtain ⟨_, f1, f2⟩ := hfo u ((hnodes u).2 hu)
              show (gs states (ixOf lay1 u)).opos = _ ∧ (gs states (ixOf lay1 u)).fail = _
              rw [(q4 _).2.2, (q4 _).2.1]
              exact ⟨f1, f2⟩

end Daac.LayB

#print axioms Daac.LayB.layoutSem_bytewise

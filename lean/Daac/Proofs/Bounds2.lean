/-
`BoundsInv` (Daac/Inv.lean) holds for every double array returned by the construction pipeline
`buildDA`: the hypothesis of the memory-safety theorems of Proofs/NoFault.lean is established by
the builder itself.

Layers: (1) the output table of the sparse NFA (any fail map): stored positions are in range and
parents point backwards; (2) a small frame invariant of the layout loop (both variants): FAIL and
output position of every element keep their default value, every recorded index is in range;
(3) `setFailOut` writes in-range values; (4) assembly with the invariants of LayoutB / LayoutC
(array length, BASE values) and the mapper facts.
-/
import Daac.Proofs.LayoutB
import Daac.Proofs.LayoutC
import Daac.Proofs.MapperFacts
import Daac.Proofs.BuildCor
namespace Daac
variable {V : Type}

/-! ## 1. The output table -/

/-- Every stored output position is at most the number of records, parents point backwards. -/
def OutOk (a : OutAcc V) : Prop :=
  (∀ u, a.opos.getD u 0 ≤ a.outs.size) ∧ ∀ j (h : j < a.outs.size), (a.outs[j]).parent ≤ j

theorem oposOf_le {a : OutAcc V} (h : OutOk a) (f : FailTo) : a.oposOf f ≤ a.outs.size := by
  cases f with
  | dead => exact Nat.zero_le _
  | node u => exact h.1 u

theorem outStep_ok (t : Trie V) (fm : FailMap) (a : OutAcc V) (s : List Nat) (h : OutOk a) :
    OutOk (outStep t fm a s) := by
  unfold outStep
  split
  · refine ⟨fun u => ?_, fun j hj => ?_⟩
    · simp only [Std.HashMap.getD_insert, Array.size_push]
      split
      · omega
      · have := h.1 u; omega
    · simp only [Array.size_push] at hj
      simp only [Array.getElem_push]
      split
      · exact h.2 j _
      · have := oposOf_le h (fm.get s)
        simp only
        omega
  · refine ⟨fun u => ?_, h.2⟩
    simp only [Std.HashMap.getD_insert]
    split
    · exact oposOf_le h _
    · exact h.1 u

theorem foldl_outStep_ok (t : Trie V) (fm : FailMap) (L : List (List Nat)) (a : OutAcc V)
    (h : OutOk a) : OutOk (L.foldl (outStep t fm) a) := by
  induction L generalizing a with
  | nil => exact h
  | cons s L ih => exact ih _ (outStep_ok t fm a s h)

theorem buildOutAcc_ok (t : Trie V) (fm : FailMap) : OutOk (buildOutAcc t fm) := by
  unfold buildOutAcc
  apply foldl_outStep_ok
  refine ⟨fun u => ?_, fun j hj => ?_⟩
  · simp
  · simp at hj

theorem buildNfa_outOk (t : Trie V) (lm : Bool) : OutOk (buildNfa t lm).out :=
  buildOutAcc_ok t _

/-! ## 2. A frame invariant of the layout loop (both variants) -/

/-- FAIL and output position of every element have the value of the element `d`. -/
def FO (d : St) (s : Array St) : Prop :=
  ∀ i (h : i < s.size), (s[i]).fail = d.fail ∧ (s[i]).opos = d.opos

theorem setSt_frame {s s' : Array St} {i : Nat} {f : St → St}
    (e : setSt s i f = .ok s') (hf : ∀ x, (f x).fail = x.fail ∧ (f x).opos = x.opos) : i < s.size ∧ s'.size = s.size ∧ (∀ d, FO d s → FO d s') := by
  unfold setSt at e
  split at e
  · rename_i hlt
    simp only [Except.ok.injEq] at e; subst e
    refine ⟨hlt, Array.size_modify .., fun d h j hj => ?_⟩
    simp only [Array.size_modify] at hj
    rw [Array.getElem_modify]
    split
    · rw [(hf _).1, (hf _).2]; exact h j hj
    · exact h j hj
  · cases e

theorem sanitiseLoop_frame (h : Helper) (ub : Nat) : ∀ (n c : Nat) (s s' : Array St),
    sanitiseLoop h ub n c s = .ok s' → s'.size = s.size ∧ ∀ d, FO d s → FO d s' := by
  intro n
  induction n with
  | zero =>
    intro c s s' e
    unfold sanitiseLoop at e
    simp only [Except.ok.injEq] at e; subst e
    exact ⟨rfl, fun _ h => h⟩
  | succ n ih =>
    intro c s s' e
    unfold sanitiseLoop at e
    simp only at e
    split at e
    · cases e
    · exact ih _ _ _ e
    · split at e
      · cases e
      · rename_i s1 e1
        obtain ⟨_, sz1, f1⟩ := setSt_frame e1 (fun _ => ⟨rfl, rfl⟩)
        obtain ⟨sz, f⟩ := ih _ _ _ e
        exact ⟨sz.trans sz1, fun d h => f d (f1 d h)⟩

theorem removeInvalidChecks_frame {s s' : Array St} {h : Helper} {b : Nat}
    (e : removeInvalidChecks s h b = .ok s') : s'.size = s.size ∧ ∀ d, FO d s → FO d s' := by
  unfold removeInvalidChecks at e
  split at e
  · cases e
  · simp only [Except.ok.injEq] at e; subst e
    exact ⟨rfl, fun _ h => h⟩
  · exact sanitiseLoop_frame _ _ _ _ _ _ e

theorem FO_append (d : St) (s : Array St) (n : Nat) (h : FO d s) :
    FO d (s ++ Array.replicate n d) := by
  intro i hi
  rw [Array.getElem_append]
  split
  · exact h i _
  · rw [Array.getElem_replicate]; exact ⟨rfl, rfl⟩

theorem extendArray_frame (v : Variant) {lay lay' : Lay} (e : extendArray v lay = .ok lay') :
    lay'.idx = lay.idx ∧ lay.states.size ≤ lay'.states.size ∧
      (FO (stDefault v) lay.states → FO (stDefault v) lay'.states) := by
  unfold extendArray at e
  split at e
  · cases e
  · simp only at e
    split at e
    · cases e
    · rename_i states hs
      have h1 : states.size = lay.states.size ∧ ∀ d, FO d lay.states → FO d states := by
        split at hs
        · exact removeInvalidChecks_frame hs
        · simp only [Except.ok.injEq] at hs; subst hs
          exact ⟨rfl, fun _ h => h⟩
      split at e
      · cases e
      · simp only [Except.ok.injEq] at e; subst e
        refine ⟨rfl, ?_, fun h => FO_append _ _ _ (h1.2 _ h)⟩
        simp only [Array.size_append, Array.size_replicate]
        omega

/-- The generic part of the loop invariant. -/
structure GInv (d : St) (lay : Lay) : Prop where
  two : 1 < lay.states.size
  idx : ∀ w, lay.idx.getD w deadIdx < lay.states.size
  fo : FO d lay.states

theorem placeChildren_frame (v : Variant) (sidx base : Nat) (d : St) :
    ∀ (edges : List (Nat × List Nat)) (lay lay' : Lay),
      placeChildren v sidx base edges lay = .ok lay' → GInv d lay → GInv d lay' := by
  intro edges
  induction edges with
  | nil =>
    intro lay lay' e G
    unfold placeChildren at e
    simp only [Except.ok.injEq] at e; subst e
    exact G
  | cons hd rest ih =>
    intro lay lay' e G
    obtain ⟨c, child⟩ := hd
    unfold placeChildren at e
    simp only at e
    split at e
    · cases e
    · rename_i h1 _
      split at e
      · cases e
      · rename_i s1 es
        obtain ⟨ilt, sz, f⟩ := setSt_frame es (fun _ => ⟨rfl, rfl⟩)
        apply ih _ _ e
        refine ⟨by simp only; rw [sz]; exact G.two, fun w => ?_, f d G.fo⟩
        simp only [Std.HashMap.getD_insert]
        rw [sz]
        split
        · exact ilt
        · exact G.idx w

theorem layoutStep_frame (v : Variant) (m : Mapper) (t : Trie V) (u : List Nat)
    (stack stack' : List (List Nat)) (lay lay' : Lay)
    (e : layoutStep v m t u stack lay = .ok (stack', lay')) (G : GInv (stDefault v) lay) :
    GInv (stDefault v) lay' := by
  unfold layoutStep at e
  split at e
  · cases e
  · simp only [Except.ok.injEq, Prod.mk.injEq] at e
    obtain ⟨_, rfl⟩ := e
    exact G
  · simp only at e
    split at e
    · cases e
    · rename_i base _
      split at e
      · cases e
      · rename_i lay1 hext
        have G1 : GInv (stDefault v) lay1 := by
          split at hext
          · obtain ⟨a, b, c⟩ := extendArray_frame v hext
            refine ⟨by have := G.two; omega, fun w => ?_, c G.fo⟩
            rw [a]; have := G.idx w; omega
          · simp only [Except.ok.injEq] at hext; subst hext; exact G
        split at e
        · cases e
        · rename_i lay2 e1
          have G2 := placeChildren_frame v _ _ _ _ _ _ e1 G1
          split at e
          · cases e
          · rename_i states' e2
            obtain ⟨_, sz, f⟩ := setSt_frame e2 (fun _ => ⟨rfl, rfl⟩)
            split at e
            · cases e
            · simp only [Except.ok.injEq, Prod.mk.injEq] at e
              obtain ⟨_, rfl⟩ := e
              exact ⟨by simp only; rw [sz]; exact G2.two,
                fun w => by simp only; rw [sz]; exact G2.idx w, f _ G2.fo⟩

theorem layoutLoop_frame (v : Variant) (m : Mapper) (t : Trie V) :
    ∀ (fuel : Nat) (stack : List (List Nat)) (lay lay' : Lay),
      layoutLoop v m t fuel stack lay = .ok lay' → GInv (stDefault v) lay →
      GInv (stDefault v) lay' := by
  intro fuel
  induction fuel with
  | zero =>
    intro stack lay lay' e G
    cases stack with
    | nil =>
      unfold layoutLoop at e
      simp only [Except.ok.injEq] at e; subst e; exact G
    | cons u rest => unfold layoutLoop at e; cases e
  | succ fuel ih =>
    intro stack lay lay' e G
    cases stack with
    | nil =>
      unfold layoutLoop at e
      simp only [Except.ok.injEq] at e; subst e; exact G
    | cons u rest =>
      unfold layoutLoop at e
      split at e
      · cases e
      · rename_i stack1 lay1 hs
        exact ih _ _ _ e (layoutStep_frame v m t u rest stack1 lay lay1 hs G)

theorem ginv_init (d : St) (bl : Nat) (h : Helper) (hbl : 2 ≤ bl) :
    GInv d ⟨Array.replicate bl d, h, ({} : Std.HashMap (List Nat) Nat).insert [] rootIdx⟩ := by
  refine ⟨by simp only [Array.size_replicate]; omega, fun w => ?_, fun i hi => ?_⟩
  · simp only [Std.HashMap.getD_insert, Array.size_replicate]
    split
    · show 0 < bl; omega
    · simp only [Std.HashMap.getD_empty]
      show 1 < bl; omega
  · rw [Array.getElem_replicate]; exact ⟨rfl, rfl⟩

end Daac
#print axioms Daac.layoutLoop_frame
#print axioms Daac.ginv_init

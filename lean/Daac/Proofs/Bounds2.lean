/-
`BoundsInv` (Daac/Inv.lean) holds for every double array returned by the construction pipeline
`buildDA`: the hypothesis of the memory-safety theorems of Proofs/NoFault.lean is established by
the builder itself.

Layers: (1) the output table of the sparse NFA (any fail map): stored positions are in range and
parents point backwards; (2) a small frame invariant of the layout loop (both variants): FAIL and
output position of every element keep their default value, every recorded index is in range;
(3) `setFailOut` writes in-range values; (4) assembly with the invariants of LayoutB / LayoutC
(array length, BASE values) and the mapper facts.
-/
import Daac.Proofs.LayoutB
import Daac.Proofs.LayoutC
import Daac.Proofs.MapperFacts
import Daac.Proofs.BuildCor
namespace Daac
variable {V : Type}

/-! ## 1. The output table -/

/-- Every stored output position is at most the number of records, parents point backwards. -/
def OutOk (a : OutAcc V) : Prop :=
  (∀ u, a.opos.getD u 0 ≤ a.outs.size) ∧ ∀ j (h : j < a.outs.size), (a.outs[j]).parent ≤ j

theorem oposOf_le {a : OutAcc V} (h : OutOk a) (f : FailTo) : a.oposOf f ≤ a.outs.size := by
  cases f with
  | dead => exact Nat.zero_le _
  | node u => exact h.1 u

theorem outStep_ok (t : Trie V) (fm : FailMap) (a : OutAcc V) (s : List Nat) (h : OutOk a) :
    OutOk (outStep t fm a s) := by
  unfold outStep
  split
  · refine ⟨fun u => ?_, fun j hj => ?_⟩
    · simp only [Std.HashMap.getD_insert, Array.size_push]
      split
      · omega
      · have := h.1 u; omega
    · simp only [Array.size_push] at hj
      simp only [Array.getElem_push]
      split
      · exact h.2 j _
      · have := oposOf_le h (fm.get s)
        simp only
        omega
  · refine ⟨fun u => ?_, h.2⟩
    simp only [Std.HashMap.getD_insert]
    split
    · exact oposOf_le h _
    · exact h.1 u

theorem foldl_outStep_ok (t : Trie V) (fm : FailMap) (L : List (List Nat)) (a : OutAcc V)
    (h : OutOk a) : OutOk (L.foldl (outStep t fm) a) := by
  induction L generalizing a with
  | nil => exact h
  | cons s L ih => exact ih _ (outStep_ok t fm a s h)

theorem buildOutAcc_ok (t : Trie V) (fm : FailMap) : OutOk (buildOutAcc t fm) := by
  unfold buildOutAcc
  apply foldl_outStep_ok
  refine ⟨fun u => ?_, fun j hj => ?_⟩
  · simp
  · simp at hj

theorem buildNfa_outOk (t : Trie V) (lm : Bool) : OutOk (buildNfa t lm).out :=
  buildOutAcc_ok t _

/-! ## 2. A frame invariant of the layout loop (both variants) -/

/-- FAIL and output position of every element have the value of the element `d`. -/
def FO (d : St) (s : Array St) : Prop :=
  ∀ i (h : i < s.size), (s[i]).fail = d.fail ∧ (s[i]).opos = d.opos

theorem setSt_frame {s s' : Array St} {i : Nat} {f : St → St}
    (e : setSt s i f = .ok s') (hf : ∀ x, (f x).fail = x.fail ∧ (f x).opos = x.opos) : i < s.size ∧ s'.size = s.size ∧ (∀ d, FO d s → FO d s') := by
  unfold setSt at e
  split at e
  · rename_i hlt
    simp only [Except.ok.injEq] at e; subst e
    refine ⟨hlt, Array.size_modify .., fun d h j hj => ?_⟩
    simp only [Array.size_modify] at hj
    rw [Array.getElem_modify]
    split
    · rw [(hf _).1, (hf _).2]; exact h j hj
    · exact h j hj
  · cases e

theorem sanitiseLoop_frame (h : Helper) (ub : Nat) : ∀ (n c : Nat) (s s' : Array St),
    sanitiseLoop h ub n c s = .ok s' → s'.size = s.size ∧ ∀ d, FO d s → FO d s' := by
  intro n
  induction n with
  | zero =>
    intro c s s' e
    unfold sanitiseLoop at e
    simp only [Except.ok.injEq] at e; subst e
    exact ⟨rfl, fun _ h => h⟩
  | succ n ih =>
    intro c s s' e
    unfold sanitiseLoop at e
    simp only at e
    split at e
    · cases e
    · exact ih _ _ _ e
    · split at e
      · cases e
      · rename_i s1 e1
        obtain ⟨_, sz1, f1⟩ := setSt_frame e1 (fun _ => ⟨rfl, rfl⟩)
        obtain ⟨sz, f⟩ := ih _ _ _ e
        exact ⟨sz.trans sz1, fun d h => f d (f1 d h)⟩

theorem removeInvalidChecks_frame {s s' : Array St} {h : Helper} {b : Nat}
    (e : removeInvalidChecks s h b = .ok s') : s'.size = s.size ∧ ∀ d, FO d s → FO d s' := by
  unfold removeInvalidChecks at e
  split at e
  · cases e
  · simp only [Except.ok.injEq] at e; subst e
    exact ⟨rfl, fun _ h => h⟩
  · exact sanitiseLoop_frame _ _ _ _ _ _ e

theorem FO_append (d : St) (s : Array St) (n : Nat) (h : FO d s) :
    FO d (s ++ Array.replicate n d) := by
  intro i hi
  rw [Array.getElem_append]
  split
  · exact h i _
  · rw [Array.getElem_replicate]; exact ⟨rfl, rfl⟩

theorem extendArray_frame (v : Variant) {lay lay' : Lay} (e : extendArray v lay = .ok lay') :
    lay'.idx = lay.idx ∧ lay.states.size ≤ lay'.states.size ∧
      (FO (stDefault v) lay.states → FO (stDefault v) lay'.states) := by
  unfold extendArray at e
  split at e
  · cases e
  · simp only at e
    split at e
    · cases e
    · rename_i states hs
      have h1 : states.size = lay.states.size ∧ ∀ d, FO d lay.states → FO d states := by
        split at hs
        · exact removeInvalidChecks_frame hs
        · simp only [Except.ok.injEq] at hs; subst hs
          exact ⟨rfl, fun _ h => h⟩
      split at e
      · cases e
      · simp only [Except.ok.injEq] at e; subst e
        refine ⟨rfl, ?_, fun h => FO_append _ _ _ (h1.2 _ h)⟩
        simp only [Array.size_append, Array.size_replicate]
        omega

/-- The generic part of the loop invariant. -/
structure GInv (d : St) (lay : Lay) : Prop where
  two : 1 < lay.states.size
  idx : ∀ w, lay.idx.getD w deadIdx < lay.states.size
  fo : FO d lay.states

theorem placeChildren_frame (v : Variant) (sidx base : Nat) (d : St) :
    ∀ (edges : List (Nat × List Nat)) (lay lay' : Lay),
      placeChildren v sidx base edges lay = .ok lay' → GInv d lay → GInv d lay' := by
  intro edges
  induction edges with
  | nil =>
    intro lay lay' e G
    unfold placeChildren at e
    simp only [Except.ok.injEq] at e; subst e
    exact G
  | cons hd rest ih =>
    intro lay lay' e G
    obtain ⟨c, child⟩ := hd
    unfold placeChildren at e
    simp only at e
    split at e
    · cases e
    · rename_i h1 _
      split at e
      · cases e
      · rename_i s1 es
        obtain ⟨ilt, sz, f⟩ := setSt_frame es (fun _ => ⟨rfl, rfl⟩)
        apply ih _ _ e
        refine ⟨by simp only; rw [sz]; exact G.two, fun w => ?_, f d G.fo⟩
        simp only [Std.HashMap.getD_insert]
        rw [sz]
        split
        · exact ilt
        · exact G.idx w

theorem layoutStep_frame (v : Variant) (m : Mapper) (t : Trie V) (u : List Nat)
    (stack stack' : List (List Nat)) (lay lay' : Lay)
    (e : layoutStep v m t u stack lay = .ok (stack', lay')) (G : GInv (stDefault v) lay) :
    GInv (stDefault v) lay' := by
  unfold layoutStep at e
  split at e
  · cases e
  · simp only [Except.ok.injEq, Prod.mk.injEq] at e
    obtain ⟨_, rfl⟩ := e
    exact G
  · simp only at e
    split at e
    · cases e
    · rename_i base _
      split at e
      · cases e
      · rename_i lay1 hext
        have G1 : GInv (stDefault v) lay1 := by
          split at hext
          · obtain ⟨a, b, c⟩ := extendArray_frame v hext
            refine ⟨by have := G.two; omega, fun w => ?_, c G.fo⟩
            rw [a]; have := G.idx w; omega
          · simp only [Except.ok.injEq] at hext; subst hext; exact G
        split at e
        · cases e
        · rename_i lay2 e1
          have G2 := placeChildren_frame v _ _ _ _ _ _ e1 G1
          split at e
          · cases e
          · rename_i states' e2
            obtain ⟨_, sz, f⟩ := setSt_frame e2 (fun _ => ⟨rfl, rfl⟩)
            split at e
            · cases e
            · simp only [Except.ok.injEq, Prod.mk.injEq] at e
              obtain ⟨_, rfl⟩ := e
              exact ⟨by simp only; rw [sz]; exact G2.two,
                fun w => by simp only; rw [sz]; exact G2.idx w, f _ G2.fo⟩

theorem layoutLoop_frame (v : Variant) (m : Mapper) (t : Trie V) :
    ∀ (fuel : Nat) (stack : List (List Nat)) (lay lay' : Lay),
      layoutLoop v m t fuel stack lay = .ok lay' → GInv (stDefault v) lay →
      GInv (stDefault v) lay' := by
  intro fuel
  induction fuel with
  | zero =>
    intro stack lay lay' e G
    cases stack with
    | nil =>
      unfold layoutLoop at e
      simp only [Except.ok.injEq] at e; subst e; exact G
    | cons u rest => unfold layoutLoop at e; cases e
  | succ fuel ih =>
    intro stack lay lay' e G
    cases stack with
    | nil =>
      unfold layoutLoop at e
      simp only [Except.ok.injEq] at e; subst e; exact G
    | cons u rest =>
      unfold layoutLoop at e
      split at e
      · cases e
      · rename_i stack1 lay1 hs
        exact ih _ _ _ e (layoutStep_frame v m t u rest stack1 lay lay1 hs G)

theorem ginv_init (d : St) (bl : Nat) (h : Helper) (hbl : 2 ≤ bl) :
    GInv d ⟨Array.replicate bl d, h, ({} : Std.HashMap (List Nat) Nat).insert [] rootIdx⟩ := by
  refine ⟨by simp only [Array.size_replicate]; omega, fun w => ?_, fun i hi => ?_⟩
  · simp only [Std.HashMap.getD_insert, Array.size_replicate]
    split
    · show 0 < bl; omega
    · simp only [Std.HashMap.getD_empty]
      show 1 < bl; omega
  · rw [Array.getElem_replicate]; exact ⟨rfl, rfl⟩

/-! ## 3. `setFailOut` writes in-range values -/

/-- All FAIL values are in range and all output positions at most `M`. -/
def FOB (M : Nat) (s : Array St) : Prop :=
  ∀ i (h : i < s.size), (s[i]).fail < s.size ∧ (s[i]).opos ≤ M

theorem setSt_eq {s s' : Array St} {i : Nat} {f : St → St} (e : setSt s i f = .ok s') :
    i < s.size ∧ s' = s.modify i f := by
  unfold setSt at e
  split at e
  · rename_i h
    simp only [Except.ok.injEq] at e
    exact ⟨h, e.symm⟩
  · cases e

theorem setFailOut_bounds (v : Variant) (nfa : Nfa V) (M : Nat)
    (hop : ∀ u, nfa.out.opos.getD u 0 ≤ M) :
    ∀ (L : List (List Nat)) (lay lay' : Lay), setFailOut v nfa L lay = .ok lay' →
      1 < lay.states.size → (∀ w, lay.idx.getD w deadIdx < lay.states.size) →
      FOB M lay.states → lay'.states.size = lay.states.size ∧ FOB M lay'.states := by
  intro L
  induction L with
  | nil =>
    intro lay lay' e _ _ hf
    unfold setFailOut at e
    simp only [Except.ok.injEq] at e; subst e
    exact ⟨rfl, hf⟩
  | cons u rest ih =>
    intro lay lay' e h1 hidx hf
    unfold setFailOut at e
    simp only at e
    split at e
    · cases e
    · split at e
      · cases e
      · rename_i s1 es
        obtain ⟨ilt, rfl⟩ := setSt_eq es
        have hfail : (match nfa.fail.get u with
            | .dead => deadIdx
            | .node w => lay.idx.getD w deadIdx) < lay.states.size := by
          split
          · exact h1
          · exact hidx _
        have hf1 : FOB M (lay.states.modify (lay.idx.getD u deadIdx) fun s =>
            { s with opos := nfa.out.opos.getD u 0,
                     fail := match nfa.fail.get u with
                       | .dead => deadIdx
                       | .node w => lay.idx.getD w deadIdx }) := by
          intro i hi
          simp only [Array.size_modify] at hi ⊢
          rw [Array.getElem_modify]
          split
          · exact ⟨hfail, hop u⟩
          · exact hf i hi
        obtain ⟨r1, r2⟩ := ih _ _ e (by simpa using h1) (by simpa using hidx) hf1
        refine ⟨?_, r2⟩
        rw [r1]; simp

/-! ## 4. Assembling `boundsInv` -/

theorem isPow2_two_pow (n : Nat) : isPow2 (2 ^ n) = true := by
  have := (Nat.ne_zero_and_sub_one_eq_zero_iff_isPowerOfTwo (n := 2 ^ n)).2 ⟨n, rfl⟩
  simp [isPow2, this.2]

theorem boundsInv_intro (da : DA V) (n k : Nat) (hbl : da.blockLen = 2 ^ n) (hk : 0 < k)
    (hsz : da.states.size = k * 2 ^ n)
    (hst : ∀ i (h : i < da.states.size), (da.states[i]).base < da.states.size ∧
      (da.states[i]).fail < da.states.size ∧ (da.states[i]).opos ≤ da.outputs.size)
    (hout : ∀ j (h : j < da.outputs.size), (da.outputs[j]).parent ≤ j)
    (hmap : da.variant = .charwise → ∀ c ∈ da.mapTable, c = invalidCode ∨ c < da.blockLen) :
    da.boundsInv = true := by
  simp only [DA.boundsInv, Bool.and_eq_true, bne_iff_ne, ne_eq, beq_iff_eq]
  refine ⟨⟨⟨⟨⟨?_, ?_⟩, ?_⟩, ?_⟩, ?_⟩, ?_⟩
  · have := Nat.two_pow_pos n
    have := Nat.mul_pos hk this
    omega
  · rw [hbl]; exact isPow2_two_pow n
  · rw [hbl, hsz]; exact Nat.mul_mod_left ..
  · rw [Array.all_eq_true]
    intro i h
    simpa [and_assoc] using hst i h
  · rw [List.all_eq_true]
    rintro ⟨o, j⟩ hm
    rw [List.mem_zipIdx_iff_getElem?] at hm
    simp only [Array.getElem?_toList] at hm
    obtain ⟨hj, rfl⟩ := Array.getElem?_eq_some_iff.1 hm
    simpa using hout j hj
  · cases hv : da.variant with
    | bytewise => rfl
    | charwise =>
      simp only
      rw [Array.all_eq_true_iff_forall_mem]
      intro c hc
      rcases hmap hv c hc with h | h
      · simp [h]
      · simp [h]

/-- What `boundsInv` says about the element array. -/
structure LayoutBounds (BL M : Nat) (states : Array St) : Prop where
  size : ∃ k, 0 < k ∧ states.size = k * BL
  elems : ∀ i (h : i < states.size), (states[i]).base < states.size ∧
    (states[i]).fail < states.size ∧ (states[i]).opos ≤ M

theorem gs_eq {s : Array St} {j : Nat} (h : j < s.size) : LayB.gs s j = s[j] := by
  simp [LayB.gs, h]

theorem gd_eq {s : Array St} {j : Nat} (h : j < s.size) : LayC.gd s j = s[j] := by
  simp [LayC.gd, h]

/-! ### Byte-wise -/

theorem layoutBounds_bytewise (cfg : Cfg) (m : Mapper) (t : Trie V) (nfa : Nfa V)
    (states : Array St) (hb : buildLayout .bytewise cfg m t nfa = .ok states) (hsort : t.Sorted)
    (hbytes : ∀ u, t.hasNode u = true → ∀ c ∈ u, c < 256) (ho : OutOk nfa.out) :
    LayoutBounds 256 nfa.out.outs.size states := by
  unfold buildLayout at hb
  simp only at hb
  split at hb
  · cases hb
  rename_i h0 e0
  split at hb
  · cases hb
  rename_i h1 e1
  split at hb
  · cases hb
  rename_i h2 e2
  split at hb
  · cases hb
  rename_i h3 e3
  split at hb
  · cases hb
  rename_i lay1 eloop
  split at hb
  · cases hb
  rename_i lay2 efo
  have inv0 := LayB.init_inv t e0 e1 e2 e3
  have inv0' : LayB.Inv t [] [[]]
      (LayB.ixOf ⟨Array.replicate 256 stDefaultB, h3,
        ({} : Std.HashMap (List Nat) Nat).insert [] 0⟩)
      (LayB.gs (Array.replicate 256 stDefaultB)) (Array.replicate 256 stDefaultB).size h3 := by
    rw [Array.size_replicate]; exact inv0
  obtain ⟨done, inv1⟩ := LayB.layoutLoop_inv hsort hbytes _ _ _ _ lay1 inv0' eloop
  have G0 : GInv (stDefault .bytewise) ⟨Array.replicate 256 stDefaultB, h3,
      ({} : Std.HashMap (List Nat) Nat).insert [] rootIdx⟩ :=
    ginv_init stDefaultB 256 h3 (by decide)
  have G1 := layoutLoop_frame .bytewise m t _ _ _ _ eloop G0
  have F1 : FOB nfa.out.outs.size lay1.states := by
    intro i hi
    obtain ⟨a, b⟩ := G1.fo i hi
    rw [a, b]
    have := G1.two
    exact ⟨by show 0 < _; omega, Nat.zero_le _⟩
  obtain ⟨_, r2, r3, r4, _, _⟩ := LayB.setFailOut_spec nfa _ _ _ efo
  obtain ⟨b1, b2⟩ := setFailOut_bounds .bytewise nfa _ ho.1 _ _ _ efo G1.two G1.idx F1
  have inv2 : LayB.Inv t done [] (LayB.ixOf lay1) (LayB.gs lay2.states) lay2.states.size
      lay2.h := by
    rw [r2, r3]
    exact inv1.congr (fun j => (r4 j).1) (fun j _ => (r4 j).2) (fun j _ => (r4 j).2)
  have hA : lay2.h.activeStart ≤ lay2.h.numBlocks := by
    unfold Helper.activeStart; omega
  obtain ⟨q1, q2, _, q4⟩ := LayB.sanitiseBlocks_spec hbytes _ _ _ _ inv2 (Nat.le_refl _)
    (by omega) (fun j lo hi => by omega) hb
  rw [← q1] at q2
  refine ⟨⟨lay2.h.numBlocks, q2.nbpos, q2.size⟩, fun i hi => ?_⟩
  have hi2 : i < lay2.states.size := by omega
  have e := q4 i
  rw [gs_eq hi, gs_eq hi2] at e
  refine ⟨?_, ?_, ?_⟩
  · by_cases hb0 : (LayB.gs states i).base = 0
    · rw [← gs_eq hi, hb0]; omega
    · obtain ⟨u, hu, rfl⟩ := q2.base0 i hb0
      rw [← gs_eq hi]; exact (q2.baseK u hu).2.1
  · rw [e.2.1, q1]; exact (b2 i hi2).1
  · rw [e.2.2]; exact (b2 i hi2).2

/-! ### Char-wise -/

theorem base_lt_charwise {m : Mapper} {t : Trie V} {BL n : Nat} {lay : Lay} (hpow : BL = 2 ^ n)
    (hα : m.alphaSize ≤ BL) (hm : LayC.MapperOk m) (I : LayC.Inv m t BL lay []) (i : Nat) :
    (LayC.gd lay.states i).base < lay.states.size := by
  have hpos : 0 < lay.states.size := by
    have := I.ixLt [] I.hasRoot; omega
  have hns : ∀ u : List Nat, u ∉ ([] : List (List Nat)) := fun u => by simp
  by_cases hex : ∃ u, LayC.has lay u ∧ LayC.ix lay u = i
  · obtain ⟨u, hu, rfl⟩ := hex
    by_cases hk : ∃ c, t.hasNode (u ++ [c]) = true
    · obtain ⟨c, hc⟩ := hk
      obtain ⟨_, k, hk, hix⟩ := I.baseSome u hu (hns u) c hc
      have h1 := I.ixLt _ (I.kids u hu (hns u) c hc)
      have hkBL : k < 2 ^ n := hpow ▸ Nat.lt_of_lt_of_le (hm.1 c k hk) hα
      rw [hix, I.size, hpow] at h1
      rw [I.size, hpow]
      exact (LayC.xor_lt_iff hkBL).1 h1
    · rw [I.baseNone u hu (hns u) (fun c => by
        cases h : t.hasNode (u ++ [c]) with
        | false => rfl
        | true => exact absurd ⟨c, h⟩ hk)]
      exact hpos
  · rw [I.baseD i (fun u hu _ e => hex ⟨u, hu, e⟩)]
    exact hpos

theorem layoutBounds_charwise (cfg : Cfg) (m : Mapper) (t : Trie V) (nfa : Nfa V)
    (states : Array St) (hb : buildLayout .charwise cfg m t nfa = .ok states) (hsort : t.Sorted)
    (hm : LayC.MapperOk m) (ho : OutOk nfa.out) :
    LayoutBounds (max 2 (Nat.nextPowerOfTwo m.alphaSize)) nfa.out.outs.size states := by
  unfold buildLayout at hb
  simp only at hb
  split at hb
  · cases hb
  rename_i h0 e0
  split at hb
  · cases hb
  rename_i h1 e1
  split at hb
  · cases hb
  rename_i h2 e2
  split at hb
  · cases hb
  rename_i h3 e3
  split at hb
  · cases hb
  rename_i lay1 el
  split at hb
  · cases hb
  rename_i lay2 ef
  simp only [Except.ok.injEq] at hb
  subst hb
  obtain ⟨⟨n, hpow⟩, hBL, hα⟩ := LayC.blockLen_facts m.alphaSize
  have I0 := LayC.inv_init (m := m) (t := t) e0 e1 e2 e3
  have I := LayC.layoutLoop_inv hBL hα hm hsort _ _ _ _ I0 el
  have G0 : GInv (stDefault .charwise) ⟨Array.replicate (max 2 (Nat.nextPowerOfTwo m.alphaSize))
      stDefaultC, h3, ({} : Std.HashMap (List Nat) Nat).insert [] rootIdx⟩ :=
    ginv_init stDefaultC _ h3 hBL
  have G1 := layoutLoop_frame .charwise m t _ _ _ _ el G0
  have F1 : FOB nfa.out.outs.size lay1.states := by
    intro i hi
    obtain ⟨a, b⟩ := G1.fo i hi
    rw [a, b]
    have := G1.two
    exact ⟨by show 1 < _; omega, Nat.zero_le _⟩
  obtain ⟨_, c2, c3, _, _⟩ := LayC.setFailOut_spec nfa _ _ _ ef
  obtain ⟨_, b2⟩ := setFailOut_bounds .charwise nfa _ ho.1 _ _ _ ef G1.two G1.idx F1
  have hnb : 0 < lay1.h.numBlocks := by
    have h0 := I.ixLt [] I.hasRoot
    rw [I.size] at h0
    rcases Nat.eq_zero_or_pos lay1.h.numBlocks with h1 | h1
    · rw [h1, Nat.zero_mul] at h0; omega
    · exact h1
  refine ⟨⟨lay1.h.numBlocks, hnb, c2.trans I.size⟩, fun i hi => ⟨?_, (b2 i hi).1, (b2 i hi).2⟩⟩
  rw [← gd_eq hi, (c3 i).1, c2]
  exact base_lt_charwise hpow hα hm I i

/-! ### The pipeline -/

theorem mem_retainedKeys_sub (lf : Bool) (ks : List (List Nat)) (k : List Nat)
    (h : k ∈ retainedKeys lf ks) : k ∈ ks := by
  unfold retainedKeys at h
  split at h
  · obtain ⟨i, hi, e, _⟩ := (mem_retKeys ks k).1 h
    rw [← e]; exact List.getElem_mem hi
  · exact h

/-- The labels on the paths of a built trie are labels of the patterns. -/
theorem node_labels_lt (kind : Nat) (P : List (LPat V)) (hk : keysOk P) (t : Trie V)
    (ht : buildTrie kind P = .ok t) (hb : ∀ p ∈ P, ∀ c ∈ p.key, c < 256) :
    ∀ u, t.hasNode u = true → ∀ c ∈ u, c < 256 := by
  intro u hu c hc
  rcases (buildTrie_nodes kind P hk t ht u).1 hu with rfl | ⟨k, hk', hu'⟩
  · cases hc
  · obtain ⟨p, hp, rfl⟩ := List.mem_map.1 (mem_retainedKeys_sub _ _ _ hk')
    exact hb p hp c (((mem_nprefixes _ u).1 hu').2.subset hc)

/-- Every raw entry of the mapper table is `invalidCode` or a code below the block length. -/
theorem mapper_entry_lt (P : List (LPat V)) : ∀ c ∈ (Mapper.build P).table,
    c = invalidCode ∨ c < max 2 (Nat.nextPowerOfTwo (Mapper.build P).alphaSize) := by
  intro c hc
  by_cases h : c = invalidCode
  · exact Or.inl h
  · right
    obtain ⟨i, hi, rfl⟩ := Array.mem_iff_getElem.1 hc
    have hg : (Mapper.build P).get i = some ((Mapper.build P).table[i]) := by
      unfold Mapper.get
      rw [Array.getElem?_eq_getElem hi]
      simp [h]
    have h1 := (mapperOk_build' P).1 i _ hg
    have h2 := (LayC.blockLen_facts (Mapper.build P).alphaSize).2.2
    omega

/-- **`BoundsInv` holds for every automaton the construction pipeline returns.** -/
theorem boundsInv_of_build (variant : Variant) (cfg : Cfg) (P : List (LPat V)) (da : DA V)
    (hb : buildDA variant cfg P = .ok da) (hk : keysOk P)
    (hbytes : variant = .bytewise → ∀ p ∈ P, ∀ c ∈ p.key, c < 256) : da.boundsInv = true := by
  obtain ⟨_, acc, _, _, ht, hr⟩ := buildDA_ok_decomp variant cfg P da hb
  have hsort := buildTrie_sorted _ _ _ ht
  have ho := buildNfa_outOk acc.trie (cfg.kind != 0)
  unfold buildRest at hr
  split at hr
  · cases hr
  split at hr
  · cases hr
  simp only at hr
  split at hr
  · cases hr
  rename_i states hst
  cases hr
  cases variant with
  | bytewise =>
    have hby := node_labels_lt cfg.kind P hk acc.trie ht (hbytes rfl)
    obtain ⟨⟨k, hk0, hsz⟩, hel⟩ := layoutBounds_bytewise cfg _ _ _ states hst hsort hby ho
    exact boundsInv_intro _ 8 k rfl hk0 hsz hel ho.2 (fun h => nomatch h)
  | charwise =>
    have hm : LayC.MapperOk (Mapper.build P) := ⟨(mapperOk_build' P).1, (mapperOk_build' P).2⟩
    obtain ⟨⟨k, hk0, hsz⟩, hel⟩ := layoutBounds_charwise cfg (mapperFor .charwise P) _ _ states
      hst hsort hm ho
    obtain ⟨⟨n, hpow⟩, _, _⟩ := LayC.blockLen_facts (Mapper.build P).alphaSize
    refine boundsInv_intro _ n k hpow hk0 ?_ hel ho.2 (fun _ => mapper_entry_lt P)
    rw [← hpow]; exact hsz

#print axioms boundsInv_of_build

end Daac

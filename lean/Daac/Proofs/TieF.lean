/-
Translation tie, fail-link / output passes: `NfaBuilder::{build_fails, build_fails_leftmost,
build_outputs}` GENERATED from `src/nfa_builder.rs` by tools/nfa2lean.py (`Daac/Gen/Nfa.lean`) refine
the hand-written path-keyed model `buildFailMap` / `buildOutAcc` (Daac/Model/Nfa.lean).
-/
import Daac.Proofs.TieFBase
import Daac.Proofs.TieFOut
import Daac.Proofs.TieFCount
namespace Daac.Tie.F
open Daac Daac.Gen Daac.Gen.N Daac.Tie.N

variable {V : Type}

/-! ## 1. The standard pass: the inner fail walk -/

/-- The links of the nodes in `D` are set: code and model agree (the model target is a node, never
the dead state), and the target is strictly shorter (or root ↦ root). -/
def FInv (st : Tie.N.St V) (m : FailMap) (D : List Nat → Prop) : Prop :=
  ∀ u i, D u → idAt st 0 u = some i → ∃ s : NfaBuilderState V, st[i]? = some s ∧
    ∃ nx, m.get u = .node nx ∧ idAt st 0 nx = some s.fail ∧ (nx.length < u.length ∨ (u = [] ∧ nx = []))

theorem hasNode_snoc_eq {t : Trie V} {f : List Nat} {n : Trie V} (c : Nat) (hw : t.walk f = some n) :
    t.hasNode (f ++ [c]) = (n.kids.find? c).isSome := by
  unfold Trie.hasNode
  rw [Trie.walk_snoc, hw]; rfl

/-- The inner `loop` of `build_fails` = `failWalkStd`, when all nodes of length ≤ `L` carry their link. -/
theorem walk_std (g : NfaBuilder V) (pth : Pth) (t : Trie V) (m : FailMap) (c L : Nat)
    (hrep : Rep g.states pth t 0 []) (hinv : FInv g.states m (fun u => u.length ≤ L)) :
    ∀ (fm fc : Nat) (f : List Nat) (fid : Nat), idAt g.states 0 f = some fid → f.length ≤ L →
      f.length < fm → f.length < fc →
      ∃ r fid' w, NfaBuilder.build_fails.loop3 g c fc fid = .ok (r, fid') ∧
        failWalkStd t m fm f c = .node w ∧ idAt g.states 0 w = some r ∧ w.length ≤ f.length + 1 := by
  intro fm
  induction fm with
  | zero => intro fc f fid _ _ h; omega
  | succ fm ih =>
    intro fc f fid hfid hL hfm hfc
    cases fc with
    | zero => omega
    | succ fc =>
      obtain ⟨n, hw, hr⟩ := walk_some_of_idAt hrep hfid
      obtain ⟨s, hs, _, hk⟩ := rep_get hr
      have hfind := RepK.find c n.kids f 0 s.edges hk
      simp only [NfaBuilder.build_fails.loop3, child_id_eq g fid c s hs, failWalkStd, hasNode_snoc_eq c hw]
      cases hkf : n.kids.find? c with
      | some tc =>
        rw [hkf] at hfind
        cases hg : Rs.EdgeMap.get s.edges c with
        | none => rw [hg] at hfind; exact hfind.elim
        | some cid =>
          refine ⟨cid, fid, f ++ [c], by simp, by simp, ?_, by simp⟩
          rw [idAt_snoc f c fid s hfid hs, hg]
      | none =>
        rw [hkf] at hfind
        cases hg : Rs.EdgeMap.get s.edges c with
        | some cid => rw [hg] at hfind; exact hfind.elim
        | none =>
          obtain ⟨s', hs', nx, hm, hnx, hsh⟩ := hinv f fid hL hfid
          rw [hs] at hs'; cases hs'
          simp only [index_eq _ _ _ hs, hm, Option.isSome_none, Bool.false_eq_true, if_false]
          by_cases hf0 : f = []
          · subst hf0
            have hfid0 : fid = 0 := by simpa [idAt] using hfid.symm
            have hnx0 : nx = [] := by
              rcases hsh with h | h
              · simp at h
              · exact h.2
            subst hnx0
            have hsf : s.fail = 0 := by simpa [idAt] using hnx.symm
            refine ⟨0, fid, [], ?_, by simp, by simp [idAt], by simp⟩
            simp [hfid0, hsf, Gen.rootStateId]
          · have hfid0 : fid ≠ 0 := by
              intro e
              subst e
              exact hf0 (idAt_inj hrep hfid (by simp [idAt]))
            have hlt : nx.length < f.length := by
              rcases hsh with h | h
              · exact h
              · exact (hf0 h.1).elim
            obtain ⟨r, fid', w, h1, h2, h3, h4⟩ := ih fc nx s.fail hnx (by omega) (by omega) (by omega)
            refine ⟨r, fid', w, ?_, ?_, h3, by omega⟩
            · simp [hfid0, Gen.rootStateId, h1]
            · simp [hf0, h2]


/-! ## 2. The standard pass: one queue entry (`for (&c, &child_id) in &s.edges`) = `failStepStd` -/

theorem FInv.mono {st : Tie.N.St V} {m : FailMap} {D D' : List Nat → Prop} (h : FInv st m D)
    (hd : ∀ u, D' u → D u) : FInv st m D' :=
  fun u i hu hi => h u i (hd u hu) hi

theorem FInv.mono' {st : Tie.N.St V} {m : FailMap} {D D' : List Nat → Prop} (h : FInv st m D)
    (hd : ∀ u i, idAt st 0 u = some i → D' u → D u) : FInv st m D' :=
  fun u i hu hi => h u i (hd u i hi hu) hi

theorem idAt_shape_iff {st st' : Tie.N.St V} (hs : SameShape st st') (u : List Nat) (i j : Nat) :
    idAt st' i u = some j ↔ idAt st i u = some j :=
  ⟨idAt_shape hs.symm u i j, idAt_shape hs u i j⟩

/-- Members of a represented edge list are found by `get` (labels are strictly increasing). -/
theorem RepK.get_mem {st : Tie.N.St V} {pth : Pth} : (ks : Kids V) → (pre : List Nat) → (lo : Nat) →
    (es : List (Nat × Nat)) → RepK st pth ks pre lo es → ∀ l cid, (l, cid) ∈ es →
    Rs.EdgeMap.get es l = some cid ∧ lo ≤ l
  | .nil, pre, lo, es, h, l, cid, hm => by
    unfold RepK at h; subst h; simp at hm
  | .cons l0 t r, pre, lo, es, h, l, cid, hm => by
    unfold RepK at h
    obtain ⟨w, es', h1, h2, h3, h4⟩ := h
    subst h1
    rcases List.mem_cons.mp hm with e | e
    · cases e; simp [Rs.EdgeMap.get, h2]
    · have ih := RepK.get_mem r pre (l0 + 1) es' h4 l cid e
      have : ¬ l0 = l := by omega
      simp [Rs.EdgeMap.get, this, ih.1]; omega

/-- `output_pos` fields are kept. -/
def PosKeep (st st' : Tie.N.St V) : Prop :=
  ∀ (i : Nat) (s : NfaBuilderState V), st[i]? = some s → ∃ s' : NfaBuilderState V, st'[i]? = some s' ∧ s'.output_pos = s.output_pos

theorem PosKeep.refl (st : Tie.N.St V) : PosKeep st st := fun _ s h => ⟨s, h, rfl⟩

theorem PosKeep.trans {a b c : Tie.N.St V} (h1 : PosKeep a b) (h2 : PosKeep b c) : PosKeep a c := by
  intro i s hs
  obtain ⟨s', e1, e2⟩ := h1 i s hs
  obtain ⟨s'', f1, f2⟩ := h2 i s' e1
  exact ⟨s'', f1, by rw [f2, e2]⟩

theorem PosKeep.set (st : Tie.N.St V) (i : Nat) (s x : NfaBuilderState V) (h : st[i]? = some s)
    (he : x.output_pos = s.output_pos) : PosKeep st (st.setIfInBounds i x) := by
  intro j sj hj
  by_cases e : i = j
  · subst e
    rw [h] at hj; cases hj
    exact ⟨x, by simp [lt_of_get h], he⟩
  · exact ⟨sj, by simp [e, hj], rfl⟩

/-- The step function of the fold in `failStepStd`. -/
abbrev stdStep (t : Trie V) (s : List Nat) : FailMap → List Nat → FailMap := fun m child =>
  match m.get s, child.getLast? with
  | .node f, some c => m.insert child (failWalkStd t m (s.length + 2) f c)
  | _, _ => m

theorem step_std (pth : Pth) (t : Trie V) (s : List Nat) (sid : Nat) (hs0 : s ≠ []) :
    ∀ (ks : Kids V) (lo : Nat) (es : List (Nat × Nat)) (g : NfaBuilder V) (q : Array Nat) (m : FailMap)
      (P : List Nat → Prop),
      Rep g.states pth t 0 [] → RepK g.states pth ks s lo es → idAt g.states 0 s = some sid →
      (∀ l cid, (l, cid) ∈ es → idAt g.states 0 (s ++ [l]) = some cid) →
      (∀ u i, idAt g.states 0 u = some i → u.length < g.states.size) →
      FInv g.states m (fun u => (u.length < s.length ∨ u = s) ∨ P u) →
      ∃ g' q', NfaBuilder.build_fails.loop2 sid es g q = .ok (g', q') ∧
        q'.toList = q.toList ++ es.map (·.2) ∧ SameShape g.states g'.states ∧ g'.outputs = g.outputs ∧
        FInv g'.states ((ks.labelList.map (fun c => s ++ [c])).foldl (stdStep t s) m)
          (fun u => (u.length < s.length ∨ u = s) ∨ P u ∨ ∃ l ∈ ks.labelList, u = s ++ [l]) ∧
        PosKeep g.states g'.states
  | .nil, lo, es, g, q, m, P, hrep, hk, hsid, hes, hdep, hinv => by
    unfold RepK at hk; subst hk
    refine ⟨g, q, by simp [NfaBuilder.build_fails.loop2], by simp, SameShape.refl _, rfl, ?_, PosKeep.refl _⟩
    simp only [Kids.labelList, List.map_nil, List.foldl_nil]
    exact hinv.mono (fun u hu => by
      rcases hu with h | h | ⟨l, hl, _⟩
      · exact Or.inl h
      · exact Or.inr h
      · simp at hl)
  | .cons l tc r, lo, es, g, q, m, P, hrep, hk, hsid, hes, hdep, hinv => by
    unfold RepK at hk
    obtain ⟨cid, es', h1, h2, h3, h4⟩ := hk
    subst h1
    -- the parent state and its link
    obtain ⟨ss, hss, f, hmf, hf, hsh⟩ := hinv s sid (Or.inl (Or.inr rfl)) hsid
    have hflt : f.length < s.length := by
      rcases hsh with h | h
      · exact h
      · exact (hs0 h.1).elim
    have hfsz := hdep f ss.fail hf
    obtain ⟨rr, fid', w, hw1, hw2, hw3, hw4⟩ :=
      walk_std g pth t m l (s.length - 1) hrep (hinv.mono (fun u hu => Or.inl (Or.inl (by omega)))) (s.length + 2) (g.states.size + 1)
        f ss.fail hf (by omega) (by omega) (by omega)
    obtain ⟨sc, hsc, _, _⟩ := rep_get h3
    have hcid : idAt g.states 0 (s ++ [l]) = some cid := hes l cid (by simp)
    -- the write
    let g1 : NfaBuilder V := { g with states := g.states.setIfInBounds cid { sc with fail := rr } }
    have hshape : SameShape g.states g1.states := SameShape.set g.states cid sc _ hsc rfl rfl
    have hinv1 : FInv g1.states (m.insert (s ++ [l]) (.node w))
        (fun u => (u.length < s.length ∨ u = s) ∨ (P u ∨ u = s ++ [l])) := by
      intro u i hu hi
      have hi' := (idAt_shape_iff hshape u 0 i).mp hi
      by_cases hul : u = s ++ [l]
      · subst hul
        rw [hcid] at hi'; cases hi'
        refine ⟨{ sc with fail := rr }, by simp [g1, lt_of_get hsc], w, by simp [FailMap.get_insert],
          idAt_shape hshape w 0 rr hw3, Or.inl (by simp; omega)⟩
      · have hne : i ≠ cid := by
          intro e; subst e; exact hul (idAt_inj hrep hi' hcid)
        have hu' : (u.length < s.length ∨ u = s) ∨ P u := by
          rcases hu with h | h | h
          · exact Or.inl h
          · exact Or.inr h
          · exact (hul h).elim
        obtain ⟨su, hsu, nx, hm, hnx, hl⟩ := hinv u i hu' hi'
        have hne' : ¬ (s ++ [l] = u) := fun e => hul e.symm
        exact ⟨su, write_keep g.states cid i _ su hsu hne, nx, by simp [FailMap.get_insert, hne', hm],
          idAt_shape hshape nx 0 su.fail hnx, hl⟩
    have ih := step_std pth t s sid hs0 r (l + 1) es' g1 (q.push cid) (m.insert (s ++ [l]) (.node w))
      (fun u => P u ∨ u = s ++ [l]) (rep_shape t 0 [] hrep hshape) (repK_shape r s (l + 1) es' h4 hshape)
      (idAt_shape hshape s 0 sid hsid)
      (fun l' c' hm' => idAt_shape hshape _ 0 c' (hes l' c' (by simp [hm'])))
      (fun u i hi => by
        have := hdep u i ((idAt_shape_iff hshape u 0 i).mp hi)
        rw [hshape.1]; exact this)
      hinv1
    obtain ⟨g', q', e1, e2, e3, e4, e5, e6⟩ := ih
    refine ⟨g', q', ?_, by simp [e2], hshape.trans e3, by rw [e4], ?_,
      (PosKeep.set g.states cid sc { sc with fail := rr } hsc rfl).trans e6⟩
    · simp only [NfaBuilder.build_fails.loop2, index_eq _ _ _ hss, hw1, index_eq _ _ _ hsc]
      exact e1
    · have hstep : stdStep t s m (s ++ [l]) = m.insert (s ++ [l]) (.node w) := by
        simp [stdStep, hmf, hw2]
      simp only [Kids.labelList, List.map_cons, List.foldl_cons, hstep]
      exact e5.mono (fun u hu => by
        rcases hu with h | h | ⟨l', hl', e⟩
        · exact Or.inl h
        · exact Or.inr (Or.inl (Or.inl h))
        · rcases List.mem_cons.mp hl' with e' | e'
          · subst e'; exact Or.inr (Or.inl (Or.inr e))
          · exact Or.inr (Or.inr ⟨l', e', e⟩))


/-! ## 3. The explicit-queue BFS visits the nodes in the order of `Trie.queue` -/

theorem levels_fix (t : Trie V) : (d : Nat) →
    (List.range d).flatMap (fun k => t.level (k + 1)) ++ t.level (d + 1) =
      t.level 1 ++ ((List.range d).flatMap (fun k => t.level (k + 1))).flatMap t.childPaths
  | 0 => by simp
  | d + 1 => by
    have ih := levels_fix t d
    have hl : t.level (d + 2) = (t.level (d + 1)).flatMap t.childPaths := rfl
    rw [List.range_succ, List.flatMap_append, List.flatMap_append]
    simp only [List.flatMap_cons, List.flatMap_nil, List.append_nil]
    rw [hl, ← List.append_assoc (t.level 1), ← ih]

/-- `Trie.queue` is a fixpoint of the BFS equation. -/
theorem queue_fix (t : Trie V) : t.queue = t.childPaths [] ++ t.queue.flatMap t.childPaths := by
  have h := levels_fix t t.depth
  have h0 : t.level (t.depth + 1) = [] := by
    apply List.eq_nil_iff_forall_not_mem.mpr
    intro u hu
    have := (Trie.mem_level t _ u).mp hu
    have := Trie.hasNode_length_le_depth t u this.1
    omega
  have h1 : t.level 1 = t.childPaths [] := by simp [Trie.level]
  rw [h0, h1, List.append_nil] at h
  exact h

theorem flatMap_fix_nil (t : Trie V) (r : List (List Nat)) (h : r = r.flatMap t.childPaths) : r = [] := by
  have key : ∀ n : Nat, ∀ x ∈ r, n ≤ x.length := by
    intro n
    induction n with
    | zero => intro x _; omega
    | succ n ih =>
      intro x hx
      rw [h] at hx
      obtain ⟨y, hy, hxy⟩ := List.mem_flatMap.mp hx
      obtain ⟨c, rfl, _, _⟩ := (Trie.mem_childPaths t y x).mp hxy
      have := ih y hy
      simp; omega
  cases r with
  | nil => rfl
  | cons x r => have := key (x.length + 1) x (by simp); omega

/-- A prefix of the queue that satisfies the BFS equation is the whole queue. -/
theorem fix_unique (t : Trie V) (d : List (List Nat)) (hp : d <+: t.queue)
    (hd : d = t.childPaths [] ++ d.flatMap t.childPaths) : d = t.queue := by
  obtain ⟨r, hr⟩ := hp
  have hq := queue_fix t
  rw [← hr, List.flatMap_append, ← List.append_assoc, ← hd] at hq
  have := flatMap_fix_nil t r (List.append_cancel_left hq)
  rw [this, List.append_nil] at hr
  exact hr

theorem prefix_step (t : Trie V) (d : List (List Nat)) (hp : d <+: t.queue) :
    (t.childPaths [] ++ d.flatMap t.childPaths) <+: t.queue := by
  obtain ⟨r, hr⟩ := hp
  refine ⟨r.flatMap t.childPaths, ?_⟩
  have hq := queue_fix t
  rw [← hr, List.flatMap_append, ← List.append_assoc] at hq
  rw [← hr]
  exact hq.symm

theorem idsOf_mid {st : Tie.N.St V} : (a : List (List Nat)) → (l : List Nat) → (s : List Nat) →
    (b : List (List Nat)) → IdsOf st l (a ++ s :: b) → ∃ x, l[a.length]? = some x ∧ idAt st 0 s = some x
  | [], l, s, b, h => by
    cases h with
    | cons h1 _ => exact ⟨_, by simp, h1⟩
  | y :: a, l, s, b, h => by
    cases h with
    | cons _ h2 =>
      obtain ⟨x, e1, e2⟩ := idsOf_mid a _ s b h2
      exact ⟨x, by simpa using e1, e2⟩

theorem RepK.labels {st : Tie.N.St V} {pth : Pth} : (ks : Kids V) → (pre : List Nat) → (lo : Nat) →
    (es : List (Nat × Nat)) → RepK st pth ks pre lo es → es.map (·.1) = ks.labelList
  | .nil, pre, lo, es, h => by unfold RepK at h; subst h; rfl
  | .cons l t r, pre, lo, es, h => by
    unfold RepK at h
    obtain ⟨w, es', h1, _, _, h4⟩ := h
    subst h1
    simp [Kids.labelList, RepK.labels r pre (l + 1) es' h4]

theorem idsOf_edges {st : Tie.N.St V} (s : List Nat) : (es : List (Nat × Nat)) →
    (∀ l cid, (l, cid) ∈ es → idAt st 0 (s ++ [l]) = some cid) →
    IdsOf st (es.map (·.2)) ((es.map (·.1)).map (fun c => s ++ [c]))
  | [], _ => .nil
  | (l, cid) :: es, h => by
    simp only [List.map_cons]
    exact .cons (h l cid (by simp)) (idsOf_edges s es (fun l' c' hm => h l' c' (by simp [hm])))

theorem idsOf_append {st : Tie.N.St V} {a c : List Nat} {b d : List (List Nat)} (h1 : IdsOf st a b)
    (h2 : IdsOf st c d) : IdsOf st (a ++ c) (b ++ d) := by
  induction h1 with
  | nil => exact h2
  | cons hi _ ih => exact .cons hi ih


theorem childPaths_eq {t : Trie V} {s : List Nat} {n : Trie V} (hw : t.walk s = some n) :
    t.childPaths s = n.kids.labelList.map (fun c => s ++ [c]) := by
  simp [Trie.childPaths, hw]

theorem failStepStd_eq {t : Trie V} {s : List Nat} {n : Trie V} (hw : t.walk s = some n) (m : FailMap) :
    failStepStd t m s = (n.kids.labelList.map (fun c => s ++ [c])).foldl (stdStep t s) m := by
  unfold failStepStd
  rw [childPaths_eq hw]
  rfl

/-- The `while qi < q.len()` loop of `build_fails`: `done` are the processed entries, `pend` the pending ones. -/
theorem bfs_std (pth : Pth) (t : Trie V) (st0 : Tie.N.St V) (hrep0 : Rep st0 pth t 0 [])
    (hdep : ∀ u i, idAt st0 0 u = some i → u.length < st0.size) :
    ∀ (fuel : Nat) (g : NfaBuilder V) (q : Array Nat) (qi : Nat) (done pend : List (List Nat)) (m : FailMap),
      SameShape st0 g.states → IdsOf st0 q.toList (done ++ pend) → qi = done.length →
      done ++ pend = t.childPaths [] ++ done.flatMap t.childPaths →
      (done ++ pend) <+: t.queue →
      m = done.foldl (failStepStd t) {} →
      FInv g.states m (fun u => u = [] ∨ u ∈ done ++ pend) →
      t.queue.length - qi < fuel →
      ∃ g' q' qi', NfaBuilder.build_fails.loop1 fuel g q qi = .ok (g', q', qi') ∧
        SameShape st0 g'.states ∧ g'.outputs = g.outputs ∧ IdsOf st0 q'.toList t.queue ∧
        FInv g'.states (t.queue.foldl (failStepStd t) {}) (fun u => u = [] ∨ u ∈ t.queue) ∧
        PosKeep g.states g'.states := by
  intro fuel
  induction fuel with
  | zero => intro g q qi done pend m _ _ _ _ _ _ _ h; omega
  | succ fuel ih =>
    intro g q qi done pend m hsh hids hqi hfix hpre hm hinv hfuel
    have hlen := hids.length_eq
    cases pend with
    | nil =>
      simp only [List.append_nil] at hids hfix hpre hinv hlen
      have hdq : done = t.queue := fix_unique t done hpre hfix
      have hq : ¬ qi < q.size := by
        rw [hqi]; simp at hlen; omega
      refine ⟨g, q, qi, by simp [NfaBuilder.build_fails.loop1, hq], hsh, rfl, hdq ▸ hids, ?_, PosKeep.refl _⟩
      rw [← hdq, ← hm]; exact hinv
    | cons s pend =>
      obtain ⟨sid, hq1, hsid0⟩ := idsOf_mid done q.toList s pend hids
      have hqlt : qi < q.size := by
        simp at hlen; omega
      have hidx : Rs.index q qi = .ok sid := by
        rw [← hqi] at hq1
        simp only [Array.getElem?_toList] at hq1
        simp [Rs.index, hq1]
      have hsq : s ∈ t.queue := hpre.subset (by simp)
      obtain ⟨hsn, hs0⟩ := (Trie.mem_queue t s).mp hsq
      have hrep := rep_shape t 0 [] hrep0 hsh
      have hsid := idAt_shape hsh s 0 sid hsid0
      obtain ⟨n, hw, hr⟩ := walk_some_of_idAt hrep hsid
      obtain ⟨ss, hss, _, hk⟩ := rep_get hr
      have hple := hpre.length_le
      simp only [List.length_append, List.length_cons] at hple
      obtain ⟨rest, hrest⟩ := hpre
      have hsplit : t.queue = done ++ s :: (pend ++ rest) := by rw [← hrest]; simp
      have hinvS : FInv g.states m
          (fun u => (u.length < s.length ∨ u = s) ∨ (u = [] ∨ u ∈ done ++ s :: pend)) :=
        hinv.mono' (fun u i hi hu => by
          rcases hu with (h | h) | h
          · by_cases hu0 : u = []
            · exact Or.inl hu0
            · obtain ⟨nu, hwu, _⟩ := walk_some_of_idAt hrep hi
              have hn : t.hasNode u = true := by simp [Trie.hasNode, hwu]
              exact Or.inr (List.mem_append_left _ (Trie.queue_split_shorter t hsplit u hn hu0 h))
          · subst h; exact Or.inr (by simp)
          · exact h)
      have hes : ∀ l cid, (l, cid) ∈ ss.edges → idAt g.states 0 (s ++ [l]) = some cid := fun l cid hm' => by
        rw [idAt_snoc s l sid ss hsid hss]; exact (RepK.get_mem n.kids s 0 ss.edges hk l cid hm').1
      have hdepg : ∀ u i, idAt g.states 0 u = some i → u.length < g.states.size := fun u i hi => by
        rw [hsh.1]; exact hdep u i ((idAt_shape_iff hsh u 0 i).mp hi)
      obtain ⟨g1, q1, e1, e2, e3, e4, e5, e6⟩ :=
        step_std pth t s sid hs0 n.kids 0 ss.edges g q m _ hrep hk hsid hes hdepg hinvS
      rw [← failStepStd_eq hw m] at e5
      have hl1 : (done ++ [s]) ++ (pend ++ t.childPaths s) = (done ++ s :: pend) ++ t.childPaths s := by simp
      have hfix' : (done ++ [s]) ++ (pend ++ t.childPaths s) =
          t.childPaths [] ++ (done ++ [s]).flatMap t.childPaths := by
        rw [hl1, hfix]; simp [List.flatMap_append]
      have hids' : IdsOf st0 q1.toList ((done ++ [s]) ++ (pend ++ t.childPaths s)) := by
        rw [hl1, e2]
        refine idsOf_append hids ?_
        rw [childPaths_eq hw, ← RepK.labels n.kids s 0 ss.edges hk]
        exact idsOf_edges s ss.edges (fun l cid hm' => (idAt_shape_iff hsh _ 0 cid).mp (hes l cid hm'))
      have hpre' : ((done ++ [s]) ++ (pend ++ t.childPaths s)) <+: t.queue := by
        rw [hfix']
        exact prefix_step t (done ++ [s]) ⟨pend ++ rest, by rw [← hrest]; simp⟩
      have hinv' : FInv g1.states (failStepStd t m s)
          (fun u => u = [] ∨ u ∈ (done ++ [s]) ++ (pend ++ t.childPaths s)) :=
        e5.mono (fun u hu => by
          rcases hu with h | h
          · exact Or.inr (Or.inl (Or.inl h))
          · rw [hl1] at h
            rcases List.mem_append.mp h with h | h
            · exact Or.inr (Or.inl (Or.inr h))
            · rw [childPaths_eq hw] at h
              obtain ⟨l, hl, e⟩ := List.mem_map.mp h
              exact Or.inr (Or.inr ⟨l, hl, e.symm⟩))
      obtain ⟨g', q', qi', f1, f2, f3, f4, f5, f6⟩ :=
        ih g1 q1 (qi + 1) (done ++ [s]) (pend ++ t.childPaths s) (failStepStd t m s) (hsh.trans e3) hids'
          (by simp [hqi]) hfix' hpre' (by rw [hm]; simp [List.foldl_append]) hinv' (by omega)
      refine ⟨g', q', qi', ?_, f2, by rw [f3, e4], f4, f5, e6.trans f6⟩
      simp [NfaBuilder.build_fails.loop1, hqlt, hidx, index_eq _ _ _ hss, e1, f1]


/-! ## 4. `build_fails` -/

theorem loop0_eq : (l : List Nat) → (q : Array Nat) →
    ∃ q', NfaBuilder.build_fails.loop0 l q = .ok q' ∧ q'.toList = q.toList ++ l
  | [], q => ⟨q, by simp [NfaBuilder.build_fails.loop0], by simp⟩
  | x :: l, q => by
    obtain ⟨q', h1, h2⟩ := loop0_eq l (q.push x)
    exact ⟨q', by simp [NfaBuilder.build_fails.loop0, h1], by simp [h2]⟩

theorem IdsOf.map_pth {st : Tie.N.St V} {pth : Pth} {t : Trie V} (hrep : Rep st pth t 0 [])
    {ids : List Nat} {us : List (List Nat)} (h : IdsOf st ids us) : ids.map pth = us.map some := by
  induction h with
  | nil => rfl
  | cons hi _ ih => simp [idAt_pth hrep hi, ih]

/-- `build_fails` refines `buildFailMap t false`: it does not fail; the returned queue is `Trie.queue`
(as ids); edges / outputs / `output_pos` are untouched; every node carries the id of its model fail
target. `hfail0`: the links are still the default. The fuel of the loops is sufficient by the counting
bounds `depth_lt_size` / `queue_lt_size` (Proofs/TieFCount.lean). -/
theorem build_fails_refines (g : NfaBuilder V) (pth : Pth) (t : Trie V) (hrep : Rep g.states pth t 0 [])
    (hfail0 : ∀ (i : Nat) (s : NfaBuilderState V), g.states[i]? = some s → s.fail = 0) :
    ∃ q g', NfaBuilder.build_fails g = .ok (q, g') ∧ SameShape g.states g'.states ∧
      PosKeep g.states g'.states ∧ g'.outputs = g.outputs ∧
      IdsOf g.states q.toList t.queue ∧
      (∀ u i, idAt g.states 0 u = some i → ∃ s : NfaBuilderState V, g'.states[i]? = some s ∧
        FailRel g.states ((buildFailMap t false).get u) s.fail) ∧
      (∀ u ∈ t.queue, (buildFailMap t false).get u ≠ .node u) := by
  have hdep : ∀ u i, idAt g.states 0 u = some i → u.length < g.states.size :=
    fun u i hi => depth_lt_size hrep hi
  have hq := queue_lt_size hrep
  obtain ⟨s0, hs0, _, hk0⟩ := rep_get hrep
  obtain ⟨q0, hl0, hq0⟩ := loop0_eq (Rs.EdgeMap.values s0.edges) (Rs.vecWithCapacity g.states.size)
  have hroot : idAt g.states 0 [] = some 0 := by simp [idAt]
  have hw0 : t.walk [] = some t := by simp [Trie.walk]
  have hes : ∀ l cid, (l, cid) ∈ s0.edges → idAt g.states 0 ([] ++ [l]) = some cid := fun l cid hm' => by
    rw [idAt_snoc [] l 0 s0 hroot hs0]; exact (RepK.get_mem t.kids [] 0 s0.edges hk0 l cid hm').1
  have hids : IdsOf g.states q0.toList ([] ++ t.childPaths []) := by
    rw [hq0]
    simp only [Rs.vecWithCapacity, List.nil_append, Rs.EdgeMap.values]
    rw [childPaths_eq hw0, ← RepK.labels t.kids [] 0 s0.edges hk0]
    exact idsOf_edges [] s0.edges hes
  have hinv : FInv g.states ({} : FailMap) (fun u => u = [] ∨ u ∈ [] ++ t.childPaths []) := by
    intro u i hu hi
    obtain ⟨n, _, hr⟩ := walk_some_of_idAt hrep hi
    obtain ⟨s, hs, _⟩ := rep_get hr
    refine ⟨s, hs, [], FailMap.get_empty u, by rw [hfail0 i s hs]; exact hroot, ?_⟩
    rcases hu with h | h
    · exact Or.inr ⟨h, rfl⟩
    · obtain ⟨c, rfl, _, _⟩ := (Trie.mem_childPaths t [] u).mp (by simpa using h)
      exact Or.inl (by simp)
  obtain ⟨g', q', qi', f1, f2, f3, f4, f5, f6⟩ :=
    bfs_std pth t g.states hrep hdep (g.states.size + 1) g q0 0 [] (t.childPaths []) {} (SameShape.refl _)
      hids rfl (by simp) (by simpa using prefix_step t [] (List.nil_prefix)) rfl hinv (by omega)
  refine ⟨q', g', ?_, f2, f6, f3, f4, ?_, ?_⟩
  · simp [NfaBuilder.build_fails, Gen.rootStateId, index_eq _ _ _ hs0, hl0, f1]
  · intro u i hi
    have hmem : u = [] ∨ u ∈ t.queue := by
      by_cases hu0 : u = []
      · exact Or.inl hu0
      · obtain ⟨n, hwu, _⟩ := walk_some_of_idAt hrep hi
        exact Or.inr ((Trie.mem_queue t u).mpr ⟨by simp [Trie.hasNode, hwu], hu0⟩)
    obtain ⟨s, hs, nx, hm, hnx, _⟩ := f5 u i hmem (idAt_shape f2 u 0 i hi)
    refine ⟨s, hs, ?_⟩
    rw [buildFailMap_std_eq, hm]
    exact (idAt_shape_iff f2 nx 0 s.fail).mp hnx
  · intro u hu
    obtain ⟨hn, hu0⟩ := (Trie.mem_queue t u).mp hu
    obtain ⟨n, hwn⟩ := Option.isSome_iff_exists.mp hn
    obtain ⟨i, hi, _⟩ := idAt_some_of_walk hrep hwn
    obtain ⟨s, hs, nx, hm, hnx, hsh⟩ := f5 u i (Or.inr hu) (idAt_shape f2 u 0 i hi)
    rw [buildFailMap_std_eq, hm]
    intro e
    cases e
    rcases hsh with h | h
    · omega
    · exact hu0 h.1

/-- The queue returned by `build_fails`, read through the ghost labelling, is `Trie.queue`. -/
theorem queue_refines (g : NfaBuilder V) (pth : Pth) (t : Trie V) (hrep : Rep g.states pth t 0 [])
    (hfail0 : ∀ (i : Nat) (s : NfaBuilderState V), g.states[i]? = some s → s.fail = 0) :
    ∃ q g', NfaBuilder.build_fails g = .ok (q, g') ∧ q.toList.map pth = t.queue.map some := by
  obtain ⟨q, g', h1, _, _, _, h5, _⟩ := build_fails_refines g pth t hrep hfail0
  exact ⟨q, g', h1, h5.map_pth hrep⟩


/-! ## 5. A fail pass followed by `build_outputs`; the standard kind end to end -/

/-- `outputs_refines` (Proofs/TieFOut.lean) after any fail pass whose result carries the table `fm`. -/
theorem pass_then_outputs (g g1 : NfaBuilder V) (pth : Pth) (t : Trie V) (fm : FailMap) (q : Array Nat)
    (hrep : Rep g.states pth t 0 [])
    (hpos0 : ∀ (i : Nat) (s : NfaBuilderState V), g.states[i]? = some s → s.output_pos = none)
    (hout0 : g.outputs = #[])
    (hd1 : ∃ sd : NfaBuilderState V, g.states[Gen.deadStateId]? = some sd) (hpd : pth Gen.deadStateId = none)
    (hne : t.queue ≠ []) (hsz : g.states.size ≤ 4294967295)
    (hsh1 : SameShape g.states g1.states) (hpk : PosKeep g.states g1.states) (hout : g1.outputs = g.outputs)
    (hids : IdsOf g.states q.toList t.queue)
    (hfl : ∀ u i, idAt g.states 0 u = some i → ∃ s : NfaBuilderState V, g1.states[i]? = some s ∧
        FailRel g.states (fm.get u) s.fail)
    (hself : ∀ u ∈ t.queue, fm.get u ≠ .node u) :
    ∃ g2, NfaBuilder.build_outputs g1 q = .ok ((), g2) ∧
      SameShape g.states g2.states ∧ q.toList.map pth = t.queue.map some ∧
      (∀ u i, idAt g.states 0 u = some i → ∃ s : NfaBuilderState V, g2.states[i]? = some s ∧
        FailRel g.states (fm.get u) s.fail ∧
        OposRel s.output_pos ((buildOutAcc t fm).opos.getD u 0)) ∧
      OutsRel g2.outputs (buildOutAcc t fm).outs := by
  have hq := queue_lt_size hrep
  have hrep1 := rep_shape t 0 [] hrep hsh1
  obtain ⟨sd, hsd⟩ := hd1
  obtain ⟨sd', hsd', hsdp⟩ := hpk _ sd hsd
  have hqs : q.size < 4294967295 := by
    have := hids.length_eq
    simp at this; omega
  obtain ⟨g2, h2, hsh2, hfk, hpos, houts⟩ :=
    outputs_refines g1 pth t fm q hrep1 (hids.shape hsh1) hne
      (fun u i hi => by
        obtain ⟨s, hs, hr⟩ := hfl u i ((idAt_shape_iff hsh1 u 0 i).mp hi)
        exact ⟨s, hs, hr.shape hsh1⟩)
      hself ⟨sd', hsd', by rw [hsdp, hpos0 _ sd hsd]⟩ hpd
      (fun i s hs => by
        have hlt : i < g.states.size := by rw [← hsh1.1]; exact lt_of_get hs
        obtain ⟨s', e1, e2⟩ := hpk i g.states[i] (by simp [hlt])
        rw [hs] at e1; cases e1
        rw [e2]; exact hpos0 i _ (by simp [hlt]))
      (by rw [hout, hout0]) hqs
  refine ⟨g2, h2, hsh1.trans hsh2, hids.map_pth hrep, ?_, houts⟩
  intro u i hi
  obtain ⟨s1, hs1, hr⟩ := hfl u i hi
  obtain ⟨s2, hs2, hf⟩ := hfk i s1 hs1
  obtain ⟨s2', hs2', hp⟩ := hpos u i (idAt_shape hsh1 u 0 i hi)
  rw [hs2] at hs2'; cases hs2'
  exact ⟨s2, hs2, by rw [hf]; exact hr, hp⟩

/-- Standard kind: `build_fails` then `build_outputs` = `buildNfa t false`. -/
theorem std_refines (g : NfaBuilder V) (pth : Pth) (t : Trie V) (hrep : Rep g.states pth t 0 [])
    (hfail0 : ∀ (i : Nat) (s : NfaBuilderState V), g.states[i]? = some s → s.fail = 0)
    (hpos0 : ∀ (i : Nat) (s : NfaBuilderState V), g.states[i]? = some s → s.output_pos = none)
    (hout0 : g.outputs = #[])
    (hd1 : ∃ sd : NfaBuilderState V, g.states[Gen.deadStateId]? = some sd) (hpd : pth Gen.deadStateId = none)
    (hne : t.queue ≠ []) (hsz : g.states.size ≤ 4294967295) :
    ∃ q g1 g2, NfaBuilder.build_fails g = .ok (q, g1) ∧ NfaBuilder.build_outputs g1 q = .ok ((), g2) ∧
      SameShape g.states g2.states ∧ q.toList.map pth = t.queue.map some ∧
      (∀ u i, idAt g.states 0 u = some i → ∃ s : NfaBuilderState V, g2.states[i]? = some s ∧
        FailRel g.states ((buildNfa t false).fail.get u) s.fail ∧
        OposRel s.output_pos ((buildNfa t false).out.opos.getD u 0)) ∧
      OutsRel g2.outputs (buildNfa t false).out.outs := by
  obtain ⟨q, g1, h1, hsh1, hpk, hout, hids, hfl, hself⟩ := build_fails_refines g pth t hrep hfail0
  obtain ⟨g2, h2, r⟩ := pass_then_outputs g g1 pth t (buildFailMap t false) q hrep hpos0 hout0 hd1 hpd hne hsz
    hsh1 hpk hout hids hfl hself
  exact ⟨q, g1, g2, h1, h2, r⟩

/- Remaining gaps (see also Proofs/TieFLm.lean, Proofs/TieFAll.lean):
 * `RefCell` dynamic borrow checks (BorrowError / BorrowMutError panics) are not modelled by the
   translation (tools/nfa2lean.py header). -/

end Daac.Tie.F

/-
Glue between the byte-level pattern list of the specification (`Pat`) and the label-level list
the invariants are evaluated on (`LPat`), for the byte-wise variant.
-/
import Daac.InvExtra
import Daac.Proofs.StdSem2
import Daac.Proofs.StdIter
namespace Daac
variable {V : Type} [DecidableEq V]

theorem lp_keys (Ps : List (Pat V)) : (Ps.map lp).map (·.key) = Ps.map (·.key) := by
  simp [lp, List.map_map, Function.comp_def]

/-- Tables satisfying the evaluated invariants for a valid byte-level pattern list have the
standard Aho-Corasick semantics. -/
theorem stdSem_bytes (da : DA V) (Ps : List (Pat V)) (hV : ValidPats Ps)
    (hT : da.tableInv (Ps.map lp) = true) (hZ : da.sizeInv (Ps.map lp) = true) :
    StdSem da (Ps.map lp) := by
  obtain ⟨hne0, hne, hnd⟩ := hV
  refine stdSem_of_tableInv da (Ps.map lp) ?_ ?_ ?_ hT (DA.sizeInv_depth hZ)
  · simpa using hne0
  · rw [lp_keys]; exact hnd
  · intro p hp
    obtain ⟨q, hq, rfl⟩ := List.mem_map.1 hp
    exact hne q hq

end Daac

/-
Translation tie, the ENTRY POINT `build` of both builders: the GENERATED
`DoubleArrayAhoCorasickBuilder::build` / `CharwiseDoubleArrayAhoCorasickBuilder::build`
(tools/top2lean.py → Gen/BuildTopB.lean `TB.Builder.build`, Gen/BuildTopC.lean `TC.Builder.build`, with the
generated meaning `enumTryCollect` of
`into_iter().enumerate().map(|(i, p)| V::try_from(i).map(|i| (p, i))).collect::<Result<_, _>>()`)
against the model `convAll` / `buildPositions` (Model/Build.lean).

 (1) `collect_eq_convAll`: the generated collection step, read at the label level (pattern ↦ `LPat` with its
     byte length), IS the model's `convAll` on the (key, blen) inputs of `buildPositions`;
     `collect_none_iff`: it fails exactly when some position does not convert.
 (2) `generated_build_eq_buildPositions_bytewise`: composed with
     `Tie.Top.generated_build_with_values_eq_buildDA_full`.
 (3) `generated_build_eq_buildPositions_charwise`: composed with
     `Tie.TopC.generated_build_with_values_eq_buildDA_charwise`.
 `build_invalidConversion_*`: a position that does not convert makes both sides fail with
 `.invalidConversion`, whatever the patterns are (before anything else is looked at).
-/
import Daac.Proofs.TieTopFrame
import Daac.Proofs.TieTopC
namespace Daac.Tie.TopBuild
open Daac Daac.Gen Daac.Tie.H Daac.Tie.F Daac.Tie.Top Daac.Tie.TopC

variable {V : Type}

/-- The inputs of `buildPositions` for byte patterns: a pattern is its own key, its byte length is its length. -/
def keysB (pats : List (List Nat)) : List (List Nat × Nat) := pats.map fun p => (p, p.length)

/-- The inputs of `buildPositions` for `str` patterns (lists of code points): the byte length is the sum of the
UTF-8 widths. -/
def keysC (pats : List (List Nat)) : List (List Nat × Nat) := pats.map fun p => (p, (p.map Rs.lenUtf8).sum)

/-- The two generated copies of the helper (one per unit) are the same function. -/
theorem tc_eq_tb {P : Type} (conv : Nat → Option V) : ∀ (l : List P) (i : Nat),
    TC.enumTryCollect conv i l = TB.enumTryCollect conv i l
  | [], i => by simp [TC.enumTryCollect, TB.enumTryCollect]
  | p :: r, i => by
    simp only [TC.enumTryCollect, TB.enumTryCollect, tc_eq_tb conv r (i + 1)]
    cases conv i with
    | none => rfl
    | some v => cases TB.enumTryCollect conv (i + 1) r <;> rfl

/-- (1) The generated collection step is the model's `convAll`, for any byte-length reading `bl`. -/
theorem collect_eq_convAll_gen (bl : List Nat → Nat) (conv : Nat → Option V) :
    ∀ (pats : List (List Nat)) (i : Nat),
    (TB.enumTryCollect conv i pats).map (fun pv => pv.map fun p => (⟨p.1, bl p.1, p.2⟩ : LPat V))
      = convAll conv i (pats.map fun p => (p, bl p))
  | [], i => by simp [TB.enumTryCollect, convAll]
  | p :: r, i => by
    have ih := collect_eq_convAll_gen bl conv r (i + 1)
    simp only [TB.enumTryCollect, List.map_cons, convAll]
    cases h : conv i with
    | none => simp
    | some v =>
      simp only
      rw [← ih]
      cases TB.enumTryCollect conv (i + 1) r <;> simp

/-- (1), byte-wise: `toLPats` of the collected pairs = `convAll` of the `keysB`. -/
theorem collect_eq_convAll (conv : Nat → Option V) (pats : List (List Nat)) :
    (TB.enumTryCollect conv 0 pats).map toLPats = convAll conv 0 (keysB pats) :=
  collect_eq_convAll_gen (fun p => p.length) conv pats 0

/-- (1), char-wise: `toLPatsC` of the collected pairs = `convAll` of the `keysC`. -/
theorem collect_eq_convAll_charwise (conv : Nat → Option V) (pats : List (List Nat)) :
    (TC.enumTryCollect conv 0 pats).map toLPatsC = convAll conv 0 (keysC pats) := by
  rw [tc_eq_tb]
  exact collect_eq_convAll_gen (fun p => (p.map Rs.lenUtf8).sum) conv pats 0

/-- The collected pairs carry the patterns, in order. -/
theorem collect_fst {P : Type} (conv : Nat → Option V) : ∀ (pats : List P) (i : Nat) (pv : List (P × V)),
    TB.enumTryCollect conv i pats = some pv → pv.map Prod.fst = pats
  | [], i, pv, h => by
    simp [TB.enumTryCollect] at h; subst h; rfl
  | p :: r, i, pv, h => by
    simp only [TB.enumTryCollect] at h
    cases hc : conv i with
    | none => simp [hc] at h
    | some v =>
      simp only [hc] at h
      cases hr : TB.enumTryCollect conv (i + 1) r with
      | none => simp [hr] at h
      | some q =>
        simp only [hr, Option.some.injEq] at h
        subst h
        simp [collect_fst conv r (i + 1) q hr]

/-- The collection fails exactly when some position does not convert. -/
theorem collect_none_iff {P : Type} (conv : Nat → Option V) : ∀ (pats : List P) (i : Nat),
    TB.enumTryCollect conv i pats = none ↔ ∃ j, j < pats.length ∧ conv (i + j) = none
  | [], i => by simp [TB.enumTryCollect]
  | p :: r, i => by
    simp only [TB.enumTryCollect]
    cases hc : conv i with
    | none => simp only [true_iff]; exact ⟨0, by simp, by simpa using hc⟩
    | some v =>
      simp only
      have ih := collect_none_iff conv r (i + 1)
      cases hr : TB.enumTryCollect conv (i + 1) r with
      | none =>
        simp only [true_iff]
        obtain ⟨j, hj, hcj⟩ := ih.mp hr
        exact ⟨j + 1, by simp; omega, by rw [← hcj]; congr 1; omega⟩
      | some q =>
        simp only [reduceCtorEq, false_iff]
        rintro ⟨j, hj, hcj⟩
        cases j with
        | zero => simp [hc] at hcj
        | succ j =>
          have : TB.enumTryCollect conv (i + 1) r = none :=
            ih.mpr ⟨j, by simp at hj; omega, by rw [← hcj]; congr 1; omega⟩
          simp [hr] at this

/-- A position that does not convert: the translated byte-wise `build` and the model fail with
`.invalidConversion`, whatever the builder, the configuration and the patterns are. -/
theorem build_invalidConversion_bytewise (conv : Nat → Option V) (b : LB.Builder) (variant : Variant) (cfg : Cfg)
    (pats : List (List Nat)) (h : ∃ j, j < pats.length ∧ conv j = none) :
    TB.Builder.build conv b pats = .error .invalidConversion ∧
    buildPositions conv variant cfg (keysB pats) = .error .invalidConversion := by
  have hn : TB.enumTryCollect conv 0 pats = none :=
    (collect_none_iff conv pats 0).mpr (by simpa using h)
  have hc := collect_eq_convAll conv pats
  rw [hn] at hc
  constructor
  · simp [TB.Builder.build, hn]
  · simp only [buildPositions, ← hc, Option.map]

/-- The same for the translated char-wise `build`. -/
theorem build_invalidConversion_charwise (conv : Nat → Option V) (b : LC.Builder) (variant : Variant) (cfg : Cfg)
    (pats : List (List Nat)) (h : ∃ j, j < pats.length ∧ conv j = none) :
    TC.Builder.build conv b pats = .error .invalidConversion ∧
    buildPositions conv variant cfg (keysC pats) = .error .invalidConversion := by
  have hn : TC.enumTryCollect conv 0 pats = none := by
    rw [tc_eq_tb]; exact (collect_none_iff conv pats 0).mpr (by simpa using h)
  have hc := collect_eq_convAll_charwise conv pats
  rw [hn] at hc
  constructor
  · simp [TC.Builder.build, hn]
  · simp only [buildPositions, ← hc, Option.map]

/-- (2) END TO END, byte-wise `build`: the translated `build` started from the empty builder and the model
`buildPositions conv .bytewise cfg` fail with the same error kind (`.invalidConversion` first), or succeed with
equal `states`, equal `num_states`, `match_kind = kind = da.kind` and related `outputs`. -/
theorem generated_build_eq_buildPositions_bytewise (conv : Nat → Option V)
    (kind : Nat) (cfg : Cfg) (pats : List (List Nat))
    (hk : kind ≤ 2) (hkind : cfg.kind = kind) (hnfb : 1 ≤ cfg.nfb)
    (hbytes : ∀ p ∈ pats, ∀ c ∈ p, c < 256)
    (hsz : 2 + (pats.map (·.length)).sum ≤ 4294967295) :
    match TB.Builder.build conv ⟨#[], kind, cfg.nfb⟩ pats, buildPositions conv .bytewise cfg (keysB pats) with
    | .error e, .error e' => norm (.error e : Except BuildErr Unit) = norm (.error e')
    | .ok a, .ok da => a.states = da.states ∧ a.num_states = da.numStates ∧ a.match_kind = kind ∧
        a.match_kind = da.kind ∧ OutsRel a.outputs da.outputs
    | _, _ => False := by
  have hc := collect_eq_convAll conv pats
  unfold TB.Builder.build buildPositions
  rw [← hc]
  cases hE : TB.enumTryCollect conv 0 pats with
  | none => simp [norm]
  | some pv =>
    have hf := collect_fst conv pats 0 pv hE
    have hb : ∀ p ∈ pv, ∀ c ∈ p.1, c < 256 := fun p hp =>
      hbytes p.1 (hf ▸ List.mem_map_of_mem hp)
    have hs : 2 + (pv.map (·.1.length)).sum ≤ 4294967295 := by
      rw [← hf, List.map_map] at hsz; exact hsz
    exact generated_build_with_values_eq_buildDA_full kind cfg pv hk hkind hnfb hb hs

/-- (3) END TO END, char-wise `build`: the translated `build` started from the empty builder (any initial mapper)
and the model `buildPositions conv .charwise cfg` fail with the same error kind (`.invalidConversion` first), or
succeed with equal `states`, `num_states`, mapper table and alphabet size, `match_kind = kind = da.kind` and
related `outputs`. -/
theorem generated_build_eq_buildPositions_charwise (conv : Nat → Option V)
    (kind : Nat) (cfg : Cfg) (m0 : Mapper) (pats : List (List Nat))
    (hk : kind ≤ 2) (hkind : cfg.kind = kind) (hnfb : 1 ≤ cfg.nfb)
    (hch : ∀ p ∈ pats, ∀ c ∈ p, c ≤ 0x10FFFF)
    (hsz : 2 + (pats.map (·.length)).sum ≤ 4294967295)
    (hbl : ∀ p ∈ pats, (p.map Rs.lenUtf8).sum ≤ 4294967295) :
    match TC.Builder.build conv ⟨#[], m0, kind, 0, cfg.nfb⟩ pats, buildPositions conv .charwise cfg (keysC pats) with
    | .error e, .error e' => norm (.error e : Except BuildErr Unit) = norm (.error e')
    | .ok a, .ok da => a.states = da.states ∧ a.num_states = da.numStates ∧
        a.mapper.table = da.mapTable ∧ a.mapper.alphaSize = da.alphaSize ∧
        a.match_kind = kind ∧ a.match_kind = da.kind ∧ OutsRel a.outputs da.outputs
    | _, _ => False := by
  have hc := collect_eq_convAll_charwise conv pats
  unfold TC.Builder.build buildPositions
  rw [← hc]
  cases hE : TC.enumTryCollect conv 0 pats with
  | none => simp [norm]
  | some pv =>
    have hf := collect_fst conv pats 0 pv (by rw [← tc_eq_tb]; exact hE)
    have hb : ∀ p ∈ pv, ∀ c ∈ p.1, c ≤ 0x10FFFF := fun p hp =>
      hch p.1 (hf ▸ List.mem_map_of_mem hp)
    have hl : ∀ p ∈ pv, (p.1.map Rs.lenUtf8).sum ≤ 4294967295 := fun p hp =>
      hbl p.1 (hf ▸ List.mem_map_of_mem hp)
    have hs : 2 + (pv.map (·.1.length)).sum ≤ 4294967295 := by
      rw [← hf, List.map_map] at hsz; exact hsz
    exact generated_build_with_values_eq_buildDA_charwise kind cfg m0 pv hk hkind hnfb hb hs hl

end Daac.Tie.TopBuild

#print axioms Daac.Tie.TopBuild.collect_eq_convAll
#print axioms Daac.Tie.TopBuild.collect_none_iff
#print axioms Daac.Tie.TopBuild.generated_build_eq_buildPositions_bytewise
#print axioms Daac.Tie.TopBuild.generated_build_eq_buildPositions_charwise

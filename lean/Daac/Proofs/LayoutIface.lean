/-
Interface for the Rung-2 proof of the layout passes (Model/Build.lean).

`LayoutSem da t nfa idx`: the double array `da` mirrors the sparse NFA: every trie node `u` lives
at index `idx u`; for every label the child lookup answers exactly the trie's edge; FAIL and the
output position of a node's element are those of the NFA; the output table is the NFA's.
Proofs/LayoutSem.lean derives the semantic interfaces `StdSem` / `LmSem` of Rung 1 from it and the
NFA-level theorems; Proofs/Layout*.lean prove that a successful `buildLayout` yields it.
-/
import Daac.Model.Build
import Daac.Proofs.StdIface
import Daac.Proofs.NfaIface
namespace Daac
variable {V : Type}

structure LayoutSem (da : DA V) (t : Trie V) (nfa : Nfa V) (idx : List Nat → Nat) : Prop where
  root : idx [] = rootIdx
  /-- non-root nodes never sit on the root or dead element -/
  nonroot : ∀ u, t.hasNode u = true → u ≠ [] → idx u ≠ rootIdx ∧ idx u ≠ deadIdx
  /-- the element of a node is readable and carries the NFA's fail link and output position -/
  node : ∀ u, t.hasNode u = true → ∃ st, da.st (idx u) = .ok st ∧
    st.opos = nfa.out.opos.getD u 0 ∧
    (u ≠ [] → st.fail = (match nfa.fail.get u with
      | .dead => deadIdx
      | .node w => idx w))
  /-- for every label the child lookup is exactly the trie edge (no missing and no spurious
  transition), without faulting -/
  child : ∀ u, t.hasNode u = true → ∀ c, LabelOk da c →
    da.childL (idx u) c = .ok (if t.hasNode (u ++ [c]) = true then some (idx (u ++ [c])) else none)
  outputs : da.outputs = nfa.out.outs

end Daac

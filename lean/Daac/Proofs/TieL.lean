/-
Translation tie, construction side, part 2: array growth, BASE search and CHECK sanitising of both
builders as GENERATED from /repo's `src/bytewise/builder.rs` and `src/charwise/builder.rs`
(`Daac/Gen/LayoutB.lean`, `LayoutC.lean`) equal the corresponding functions of the hand-written
layout model (Daac/Model/Build.lean: `baseOk`, `findBase`, `removeInvalidChecks`, `extendArray`,
and the initialisation prefix of `buildLayout`), through `Tie.H.repr` and up to panic texts.
-/
import Daac.Proofs.TieH
import Daac.Gen.LayoutB
import Daac.Gen.LayoutC
namespace Daac.Tie.L
open Daac Daac.Gen
open Daac.Tie.H (Wf norm norm_cases norm_cases' norm_ok norm_panic)

/-- The initialisation prefix of `buildLayout` (Model/Build.lean): helper with one block, root and
dead slots taken, one block of default elements. -/
def initModel (v : Variant) (blockLen nfb : Nat) : Except BuildErr (Array St × Helper) :=
  match Helper.new blockLen nfb with
  | .error e => .error e
  | .ok h0 =>
    match h0.pushBlock with
    | .error _ => .error (.panic "push_block().unwrap()")
    | .ok h1 =>
      match h1.useIndex rootIdx with
      | .error e => .error e
      | .ok h2 =>
        match h2.useIndex deadIdx with
        | .error e => .error e
        | .ok h3 => .ok (Array.replicate blockLen (stDefault v), h3)

/-! ### shared helper lemmas -/

theorem nonZero_isSome (b : Nat) : (Rs.nonZero b).isSome = (true && b != 0) := by
  unfold Rs.nonZero
  by_cases h : b = 0 <;> simp [h]

theorem nonZero_some (b x : Nat) (h : Rs.nonZero b = some x) : x = b := by
  unfold Rs.nonZero at h
  split at h
  · cases h
  · cases h; rfl

def ctlOpt {σ : Type} (c : Ctl Nat σ) : Option Nat :=
  match c with
  | .ret b => some b
  | .done _ => none

theorem indexL_head {α : Type} (l : List α) (x : α) (r : List α) (h : l = x :: r) :
    Rs.indexL l 0 = .ok x := by
  subst h; rfl

theorem modify_eq_set (a : Array St) (i : Nat) (h : i < a.size) (f : St → St) :
    a.modify i f = a.setIfInBounds i (f a[i]) := by
  apply Array.ext_getElem?; intro k
  simp only [Array.getElem?_modify, Array.getElem?_setIfInBounds]
  by_cases hk : i = k
  · subst hk; simp [h]
  · simp [hk]

theorem index_setSt (a : Array St) (i c : Nat) :
    (∃ el, Rs.index a i = .ok el ∧
      setSt a i (fun s => { s with check := c }) = .ok (a.setIfInBounds i { el with check := c })) ∨
    (∃ s1 s2, Rs.index a i = .error (.panic s1) ∧
      setSt a i (fun s => { s with check := c }) = .error (.panic s2)) := by
  by_cases h : i < a.size
  · left
    refine ⟨a[i], by simp [Rs.index, h], ?_⟩
    simp only [setSt, h, if_true, modify_eq_set a i h]
  · right
    refine ⟨"index out of bounds", "states[i]: index out of bounds", ?_, ?_⟩
    · simp [Rs.index, h]
    · simp only [setSt, h, if_false]

theorem resize_add {α : Type} (a : Array α) (n : Nat) (v : α) :
    Rs.resize a (a.size + n) v = a ++ Array.replicate n v := by
  simp [Rs.resize]

theorem resize_empty {α : Type} (n : Nat) (v : α) :
    Rs.resize (#[] : Array α) n v = Array.replicate n v := by
  simp [Rs.resize]

/-- The helper part of `init_array` (identical in both builders). -/
def genInit (bl nfb : Nat) : Except BuildErr Gen.H.BuildHelper :=
  match Gen.H.BuildHelper.new bl nfb with
  | .error e => .error e
  | .ok r1 =>
    match Gen.H.BuildHelper.push_block r1 with
    | .error _ => .error (.panic "push_block().unwrap()")
    | .ok (_, s3) =>
      match Gen.H.BuildHelper.use_index s3 Gen.rootStateIdx with
      | .error e => .error e
      | .ok (_, s5) =>
        match Gen.H.BuildHelper.use_index s5 Gen.deadStateIdx with
        | .error e => .error e
        | .ok (_, s7) => .ok s7

theorem genInit_eq (v : Variant) (bl nfb : Nat) (a : Array St) (ha : a = Array.replicate bl (stDefault v)) :
    norm ((genInit bl nfb).map (fun h => (a, H.repr h))) = norm (initModel v bl nfb) := by
  unfold genInit initModel
  have hroot : rootIdx = Gen.rootStateIdx := rfl
  have hdead : deadIdx = Gen.deadStateIdx := rfl
  rw [hroot, hdead]
  rcases norm_cases _ _ _ (H.new_eq bl nfb) with ⟨g0, h1, h2⟩ | ⟨e1, e2, h1, h2, h3⟩
  · rw [h1, h2]
    dsimp only
    have w0 := H.new_wf bl nfb g0 h1
    rcases norm_cases _ _ _ (H.push_block_eq g0 w0) with ⟨⟨u1, g1⟩, k1, k2⟩ | ⟨e1, e2, k1, k2, k3⟩
    · rw [k1, k2]
      dsimp only
      have w1 : Wf g1 := H.wf_of_size w0 (H.push_block_size _ _ _ k1)
      rcases norm_cases _ _ _ (H.use_index_eq g1 w1 Gen.rootStateIdx) with ⟨⟨u2, g2⟩, m1, m2⟩ | ⟨e1, e2, m1, m2, m3⟩
      · rw [m1, m2]
        dsimp only
        have w2 : Wf g2 := H.wf_of_size w1 (H.use_index_size _ _ _ _ m1)
        rcases norm_cases _ _ _ (H.use_index_eq g2 w2 Gen.deadStateIdx) with ⟨⟨u3, g3⟩, n1, n2⟩ | ⟨e1, e2, n1, n2, n3⟩
        · rw [n1, n2, ha]; rfl
        · rw [n1, n2]; exact n3 _
      · rw [m1, m2]; exact m3 _
    · rw [k1, k2]; rfl
  · rw [h1, h2]; exact h3 _

/-! ### byte-wise builder -/
namespace B

theorem cvb_loop (g : Gen.H.BuildHelper) (hw : Wf g) (base : Nat) : ∀ labels : List Nat,
    (∃ e1 e2, Gen.LB.Builder.check_valid_base.loop0 base g labels = .error e1 ∧
        allUnused (H.repr g) base labels = .error e2 ∧
        ∀ γ : Type, norm (.error e1 : Except BuildErr γ) = norm (.error e2)) ∨
    (Gen.LB.Builder.check_valid_base.loop0 base g labels = .ok (.ret none) ∧
        allUnused (H.repr g) base labels = .ok false) ∨
    (Gen.LB.Builder.check_valid_base.loop0 base g labels = .ok (.done ()) ∧
        allUnused (H.repr g) base labels = .ok true) := by
  intro labels
  induction labels with
  | nil => right; right; exact ⟨rfl, rfl⟩
  | cons c rest ih =>
    unfold Gen.LB.Builder.check_valid_base.loop0 allUnused
    rcases norm_cases' _ _ (H.is_used_index_eq g hw (base ^^^ c)) with ⟨r, h1, h2⟩ | ⟨e1, e2, h1, h2, h3⟩
    · simp only [h1, h2]
      cases r
      · simpa using ih
      · right; left; exact ⟨rfl, rfl⟩
    · left; exact ⟨e1, e2, by simp only [h1], by simp only [h2], h3⟩

theorem check_valid_base_eq (g : Gen.H.BuildHelper) (hw : Wf g) (base : Nat) (labels : List Nat) :
    norm ((Gen.LB.Builder.check_valid_base base labels g).map Option.isSome)
      = norm (baseOk .bytewise (H.repr g) base labels) := by
  unfold Gen.LB.Builder.check_valid_base baseOk
  rcases norm_cases' _ _ (H.is_used_base_eq g hw base) with ⟨r, h1, h2⟩ | ⟨e1, e2, h1, h2, h3⟩
  · simp only [h1, h2]
    cases r
    · rcases cvb_loop g hw base labels with ⟨e1, e2, k1, k2, k3⟩ | ⟨k1, k2⟩ | ⟨k1, k2⟩
      · simp only [k1, k2]; exact k3 _
      · simp only [k1, k2]; rfl
      · simp only [k1, k2, Bool.false_eq_true, if_false, Except.map, nonZero_isSome]
    · rfl
  · simp only [h1, h2]; exact h3 _

theorem cvb_loop_ret (g : Gen.H.BuildHelper) (base : Nat) : ∀ (labels : List Nat) (r : Option Nat),
    Gen.LB.Builder.check_valid_base.loop0 base g labels = .ok (.ret r) → r = none := by
  intro labels
  induction labels with
  | nil => intro r h; simp [Gen.LB.Builder.check_valid_base.loop0] at h
  | cons c rest ih =>
    intro r h
    unfold Gen.LB.Builder.check_valid_base.loop0 at h
    dsimp only at h
    split at h
    · cases h
    · split at h
      · cases h; rfl
      · exact ih r h

theorem check_valid_base_val (g : Gen.H.BuildHelper) (base : Nat) (labels : List Nat) (x : Nat)
    (h : Gen.LB.Builder.check_valid_base base labels g = .ok (some x)) : x = base := by
  unfold Gen.LB.Builder.check_valid_base at h
  split at h
  · cases h
  · split at h
    · cases h
    · split at h
      · cases h
      · rename_i r hr
        have := cvb_loop_ret g base labels r hr
        subst this; cases h
      · exact nonZero_some _ _ (Except.ok.inj h)

theorem fb_loop (g : Gen.H.BuildHelper) (hw : Wf g) (labels : List Nat) (hl : labels ≠ []) :
    ∀ (fuel : Nat) (it : Gen.H.VacantIter) (vac : List Nat),
    H.genVacantFrom fuel it = .ok vac → vac.length < fuel →
    norm ((Gen.LB.Builder.find_base.loop0 labels g fuel it).map ctlOpt)
      = norm (findBaseIn .bytewise (H.repr g) (labels.headD 0) labels vac) := by
  intro fuel
  induction fuel with
  | zero => intro it vac _ h; cases h
  | succ n ih =>
    intro it vac hg hlen
    unfold H.genVacantFrom at hg
    unfold Gen.LB.Builder.find_base.loop0
    cases hn : Gen.H.VacantIter.next it with
    | error e => rw [hn] at hg; cases hg
    | ok p =>
      obtain ⟨o, it'⟩ := p
      rw [hn] at hg
      cases o with
      | none =>
        cases hg
        rfl
      | some i =>
        dsimp only at hg ⊢
        cases hr : H.genVacantFrom n it' with
        | error e => rw [hr] at hg; cases hg
        | ok l =>
          rw [hr] at hg
          cases hg
          obtain ⟨c0, rest, hc⟩ : ∃ c0 rest, labels = c0 :: rest := by
            cases labels with
            | nil => exact absurd rfl hl
            | cons a b => exact ⟨a, b, rfl⟩
          have hh : labels.headD 0 = c0 := by rw [hc]; rfl
          rw [indexL_head labels c0 rest hc, hh]
          dsimp only
          unfold findBaseIn
          rcases norm_cases _ _ _ (check_valid_base_eq g hw (i ^^^ c0) labels) with
            ⟨a, h1, h2⟩ | ⟨e1, e2, h1, h2, h3⟩
          · rw [h1, h2]
            cases a with
            | none =>
              dsimp only [Option.isSome]
              rw [← hh]; exact ih it' l hr (by simpa using hlen)
            | some x =>
              have := check_valid_base_val g _ labels x h1
              subst this
              rfl
          · rw [h1, h2]; exact h3 _

/-- `find_base`: under a vacant list that can be walked without a panic (`hv`; the generated code
walks it lazily, the model first collects it), a non-empty label list, and a non-empty array that
fits `u32`.  `hlen` (added): the collected walk is not longer than the capacity.  The model's
`vacant` truncates silently after `cap + 1` items while the generated loop panics when its fuel
`cap + 1` runs out, and it needs one unit of fuel beyond the walk to see `None`; `hlen` holds for
every linked helper (`Helper.LL.length_le`). -/
theorem find_base_eq (b : Gen.LB.Builder) (g : Gen.H.BuildHelper) (hw : Wf g)
    (idx : Std.HashMap (List Nat) Nat) (labels : List Nat) (hl : labels ≠ [])
    (vac : List Nat) (hv : (H.repr g).vacant = .ok vac) (hlen : vac.length ≤ g.items.size)
    (hs : 0 < b.states.size ∧ b.states.size ≤ 4294967295) :
    norm (Gen.LB.Builder.find_base b labels g) = norm (findBase .bytewise ⟨b.states, H.repr g, idx⟩ labels) := by
  have hgv : H.genVacantFrom (g.items.size + 1) (Gen.H.BuildHelper.vacant_iter g) = .ok vac := by
    have := H.vacant_eq g hw
    rw [hv] at this
    rcases norm_cases' _ _ this with ⟨a, h1, h2⟩ | ⟨e1, e2, h1, h2, h3⟩
    · cases h2; exact h1
    · cases h2
  unfold Gen.LB.Builder.find_base findBase
  dsimp only
  rw [hv]
  dsimp only
  rcases norm_cases _ _ _ (fb_loop g hw labels hl _ _ vac hgv (Nat.lt_succ_of_le hlen)) with
    ⟨c, h1, h2⟩ | ⟨e1, e2, h1, h2, h3⟩
  · rw [h1, h2]
    cases c with
    | ret r => rfl
    | done it =>
      have hnz : Rs.nonZero b.states.size = some b.states.size := by
        unfold Rs.nonZero; simp [Nat.ne_of_gt hs.1]
      simp only [ctlOpt, Rs.u32TryFromUnwrap, Rs.u32Max, hs.2, if_true, hnz]
  · rw [h1, h2]; exact h3 _
theorem ric_loop (g : Gen.H.BuildHelper) (hw : Wf g) (ub : Nat) : ∀ (n c : Nat) (b : Gen.LB.Builder),
    norm ((Gen.LB.Builder.remove_invalid_checks.loop0 g ub (List.range' c n) b).map (·.states))
      = norm (sanitiseLoop (H.repr g) ub n c b.states) := by
  intro n
  induction n with
  | zero => intro c b; rfl
  | succ n ih =>
    intro c b
    rw [List.range'_succ]
    unfold Gen.LB.Builder.remove_invalid_checks.loop0 sanitiseLoop
    dsimp only
    have hroot : rootIdx = Gen.rootStateIdx := rfl
    have hdead : deadIdx = Gen.deadStateIdx := rfl
    rw [hroot, hdead]
    by_cases hrd : (ub ^^^ c) = Gen.rootStateIdx ∨ (ub ^^^ c) = Gen.deadStateIdx
    · have hd : (decide ((ub ^^^ c) = Gen.rootStateIdx) || decide ((ub ^^^ c) = Gen.deadStateIdx)) = true := by
        simpa using hrd
      simp only [hd, hrd, if_true]
      rcases index_setSt b.states (ub ^^^ c) c with ⟨el, h1, h2⟩ | ⟨s1, s2, h1, h2⟩
      · rw [h1, h2]; exact ih (c + 1) _
      · rw [h1, h2]; rfl
    · have hd : (decide ((ub ^^^ c) = Gen.rootStateIdx) || decide ((ub ^^^ c) = Gen.deadStateIdx)) = false := by
        simpa using hrd
      simp only [hd, hrd, if_false, Bool.false_eq_true]
      rcases norm_cases' _ _ (H.is_used_index_eq g hw (ub ^^^ c)) with ⟨r, h1, h2⟩ | ⟨e1, e2, h1, h2, h3⟩
      · rw [h1, h2]
        cases r
        · simp only [Bool.not_false, if_true]
          rcases index_setSt b.states (ub ^^^ c) c with ⟨el, k1, k2⟩ | ⟨s1, s2, k1, k2⟩
          · rw [k1, k2]; exact ih (c + 1) _
          · rw [k1, k2]; rfl
        · simp only [Bool.not_true, Bool.false_eq_true, if_false]
          exact ih (c + 1) b
      · rw [h1, h2]; exact h3 _

theorem remove_invalid_checks_eq (b : Gen.LB.Builder) (g : Gen.H.BuildHelper) (hw : Wf g) (blk : Nat) :
    norm ((Gen.LB.Builder.remove_invalid_checks b blk g).map (fun p => p.2.states))
      = norm (removeInvalidChecks b.states (H.repr g) blk) := by
  unfold Gen.LB.Builder.remove_invalid_checks removeInvalidChecks
  rcases norm_cases' _ _ (H.unused_base_in_block_eq g hw blk) with ⟨r, h1, h2⟩ | ⟨e1, e2, h1, h2, h3⟩
  · rw [h1, h2]
    cases r with
    | none => rfl
    | some ub =>
      dsimp only
      have hr : Rs.rangeList 0 (255 + 1) = List.range' 0 256 := rfl
      rw [hr]
      rcases norm_cases _ _ _ (ric_loop g hw ub 256 0 b) with ⟨b', k1, k2⟩ | ⟨e1, e2, k1, k2, k3⟩
      · rw [k1, k2]; rfl
      · rw [k1, k2]; exact k3 _
  · rw [h1, h2]; exact h3 _

theorem ric_loop_frame (g : Gen.H.BuildHelper) (ub : Nat) : ∀ (l : List Nat) (b b' : Gen.LB.Builder),
    Gen.LB.Builder.remove_invalid_checks.loop0 g ub l b = .ok b' →
    b'.match_kind = b.match_kind ∧ b'.num_free_blocks = b.num_free_blocks := by
  intro l
  induction l with
  | nil => intro b b' h; simp [Gen.LB.Builder.remove_invalid_checks.loop0] at h; subst h; exact ⟨rfl, rfl⟩
  | cons c rest ih =>
    intro b b' h
    unfold Gen.LB.Builder.remove_invalid_checks.loop0 at h
    dsimp only at h
    repeat' split at h
    all_goals first | cases h | (have := ih _ _ h; exact this)

theorem remove_invalid_checks_frame (b b' : Gen.LB.Builder) (g : Gen.H.BuildHelper) (blk : Nat) (u : Unit)
    (h : Gen.LB.Builder.remove_invalid_checks b blk g = .ok (u, b')) :
    b'.match_kind = b.match_kind ∧ b'.num_free_blocks = b.num_free_blocks := by
  unfold Gen.LB.Builder.remove_invalid_checks at h
  repeat' split at h
  all_goals first | cases h | skip
  · rename_i hh; exact ric_loop_frame _ _ _ _ _ hh
  · exact ⟨rfl, rfl⟩
theorem extend_array_eq (b : Gen.LB.Builder) (g : Gen.H.BuildHelper) (hw : Wf g)
    (hb : g.block_len = Gen.blockLen) (idx : Std.HashMap (List Nat) Nat) :
    norm ((Gen.LB.Builder.extend_array b g).map (fun p => (p.2.1.states, H.repr p.2.2)))
      = norm ((extendArray .bytewise ⟨b.states, H.repr g, idx⟩).map (fun l => (l.states, l.h))) := by
  unfold Gen.LB.Builder.extend_array extendArray
  have hbl : (H.repr g).blockLen = Gen.blockLen := hb
  have hu : u32Max = 4294967295 := rfl
  dsimp only
  rw [hbl, hu, H.dropped_block_eq g hw]
  by_cases hs : b.states.size > 4294967295 - Gen.blockLen
  · simp only [hs, decide_true, if_true]; rfl
  · simp only [hs, decide_false, if_false, Bool.false_eq_true]
    cases hd : (H.repr g).droppedBlock with
    | none =>
      dsimp only
      rcases norm_cases _ _ _ (H.push_block_eq g hw) with ⟨⟨u1, g1⟩, k1, k2⟩ | ⟨e1, e2, k1, k2, k3⟩
      · rw [k1, k2]
        simp only [Except.map, resize_add]; rfl
      · rw [k1, k2]; exact k3 _
    | some cb =>
      dsimp only
      rcases norm_cases _ _ _ (remove_invalid_checks_eq b g hw cb) with ⟨⟨u0, b'⟩, r1, r2⟩ | ⟨e1, e2, r1, r2, r3⟩
      · rw [r1, r2]
        dsimp only
        rcases norm_cases _ _ _ (H.push_block_eq g hw) with ⟨⟨u1, g1⟩, k1, k2⟩ | ⟨e1, e2, k1, k2, k3⟩
        · rw [k1, k2]
          simp only [Except.map, resize_add]; rfl
        · rw [k1, k2]; exact k3 _
      · rw [r1, r2]; exact r3 _

theorem init_array_unfold (b : Gen.LB.Builder) : Gen.LB.Builder.init_array b =
    (genInit Gen.blockLen b.num_free_blocks).map
      (fun h => (h, { b with states := Rs.resize b.states Gen.blockLen stDefaultB })) := by
  unfold Gen.LB.Builder.init_array genInit
  dsimp only
  repeat' split
  all_goals first | rfl | simp_all [Except.map]

theorem init_array_eq (b : Gen.LB.Builder) (hs : b.states = #[]) :
    norm ((Gen.LB.Builder.init_array b).map (fun p => (p.2.states, H.repr p.1)))
      = norm (initModel .bytewise bytewiseBlockLen b.num_free_blocks) := by
  rw [init_array_unfold]
  have := genInit_eq .bytewise Gen.blockLen b.num_free_blocks (Rs.resize b.states Gen.blockLen stDefaultB)
    (by rw [hs, resize_empty]; rfl)
  rw [← show bytewiseBlockLen = Gen.blockLen from rfl] at this ⊢
  rw [← this]
  cases genInit bytewiseBlockLen b.num_free_blocks <;> rfl
end B

/-! ### char-wise builder -/
namespace C

theorem vb_loop (g : Gen.H.BuildHelper) (hw : Wf g) (base : Nat) : ∀ edges : List (Nat × Nat),
    (∃ e1 e2, Gen.LC.Builder.verify_base.loop0 base g edges = .error e1 ∧
        allUnused (H.repr g) base (edges.map (·.1)) = .error e2 ∧
        ∀ γ : Type, norm (.error e1 : Except BuildErr γ) = norm (.error e2)) ∨
    (Gen.LC.Builder.verify_base.loop0 base g edges = .ok (.ret none) ∧
        allUnused (H.repr g) base (edges.map (·.1)) = .ok false) ∨
    (Gen.LC.Builder.verify_base.loop0 base g edges = .ok (.done ()) ∧
        allUnused (H.repr g) base (edges.map (·.1)) = .ok true) := by
  intro edges
  induction edges with
  | nil => right; right; exact ⟨rfl, rfl⟩
  | cons cc rest ih =>
    obtain ⟨c, d⟩ := cc
    rw [List.map_cons]
    unfold Gen.LC.Builder.verify_base.loop0 allUnused
    rcases norm_cases' _ _ (H.is_used_index_eq g hw (base ^^^ c)) with ⟨r, h1, h2⟩ | ⟨e1, e2, h1, h2, h3⟩
    · simp only [h1, h2]
      cases r
      · simpa using ih
      · right; left; exact ⟨rfl, rfl⟩
    · left; exact ⟨e1, e2, by simp only [h1], by simp only [h2], h3⟩

theorem verify_base_eq (g : Gen.H.BuildHelper) (hw : Wf g) (base : Nat) (edges : List (Nat × Nat)) :
    norm ((Gen.LC.Builder.verify_base base edges g).map Option.isSome)
      = norm (baseOk .charwise (H.repr g) base (edges.map (·.1))) := by
  unfold Gen.LC.Builder.verify_base baseOk
  rcases vb_loop g hw base edges with ⟨e1, e2, k1, k2, k3⟩ | ⟨k1, k2⟩ | ⟨k1, k2⟩
  · simp only [k1, k2]; exact k3 _
  · simp only [k1, k2]; rfl
  · simp only [k1, k2, Except.map, nonZero_isSome]

theorem vb_loop_ret (g : Gen.H.BuildHelper) (base : Nat) : ∀ (edges : List (Nat × Nat)) (r : Option Nat),
    Gen.LC.Builder.verify_base.loop0 base g edges = .ok (.ret r) → r = none := by
  intro edges
  induction edges with
  | nil => intro r h; simp [Gen.LC.Builder.verify_base.loop0] at h
  | cons cc rest ih =>
    obtain ⟨c, d⟩ := cc
    intro r h
    unfold Gen.LC.Builder.verify_base.loop0 at h
    dsimp only at h
    split at h
    · cases h
    · split at h
      · cases h; rfl
      · exact ih r h

theorem verify_base_val (g : Gen.H.BuildHelper) (base : Nat) (edges : List (Nat × Nat)) (x : Nat)
    (h : Gen.LC.Builder.verify_base base edges g = .ok (some x)) : x = base := by
  unfold Gen.LC.Builder.verify_base at h
  split at h
  · cases h
  · rename_i r hr
    have := vb_loop_ret g base edges r hr
    subst this; cases h
  · exact nonZero_some _ _ (Except.ok.inj h)

theorem fb_loop (g : Gen.H.BuildHelper) (hw : Wf g) (edges : List (Nat × Nat)) (hl : edges ≠ []) :
    ∀ (fuel : Nat) (it : Gen.H.VacantIter) (vac : List Nat),
    H.genVacantFrom fuel it = .ok vac → vac.length < fuel →
    norm ((Gen.LC.Builder.find_base.loop0 edges g fuel it).map ctlOpt)
      = norm (findBaseIn .charwise (H.repr g) ((edges.map (·.1)).headD 0) (edges.map (·.1)) vac) := by
  intro fuel
  induction fuel with
  | zero => intro it vac _ h; cases h
  | succ n ih =>
    intro it vac hg hlen
    unfold H.genVacantFrom at hg
    unfold Gen.LC.Builder.find_base.loop0
    cases hn : Gen.H.VacantIter.next it with
    | error e => rw [hn] at hg; cases hg
    | ok p =>
      obtain ⟨o, it'⟩ := p
      rw [hn] at hg
      cases o with
      | none =>
        cases hg
        rfl
      | some i =>
        dsimp only at hg ⊢
        cases hr : H.genVacantFrom n it' with
        | error e => rw [hr] at hg; cases hg
        | ok l =>
          rw [hr] at hg
          cases hg
          obtain ⟨c0, rest, hc⟩ : ∃ c0 rest, edges = c0 :: rest := by
            cases edges with
            | nil => exact absurd rfl hl
            | cons a b => exact ⟨a, b, rfl⟩
          have hh : (edges.map (·.1)).headD 0 = c0.1 := by rw [hc]; rfl
          rw [indexL_head edges c0 rest hc]
          dsimp only
          unfold findBaseIn
          rw [hh]
          rcases norm_cases _ _ _ (verify_base_eq g hw (i ^^^ c0.1) edges) with
            ⟨a, h1, h2⟩ | ⟨e1, e2, h1, h2, h3⟩
          · rw [h1, h2]
            cases a with
            | none =>
              dsimp only [Option.isSome]
              rw [← hh]; exact ih it' l hr (by simpa using hlen)
            | some x =>
              have := verify_base_val g _ edges x h1
              subst this
              rfl
          · rw [h1, h2]; exact h3 _

/-- `find_base` (char-wise): additionally the fallback value `len ^ code₀` must be a `NonZeroU32`
(the code asserts it with `unwrap`, the model does not).  `hlen` (added): as for the byte-wise
builder, the collected walk is not longer than the capacity. -/
theorem find_base_eq (b : Gen.LC.Builder) (g : Gen.H.BuildHelper) (hw : Wf g)
    (idx : Std.HashMap (List Nat) Nat) (edges : List (Nat × Nat)) (hl : edges ≠ [])
    (vac : List Nat) (hv : (H.repr g).vacant = .ok vac) (hlen : vac.length ≤ g.items.size)
    (hs : b.states.size ≤ 4294967295) (hz : b.states.size ^^^ (edges.map (·.1)).headD 0 ≠ 0) :
    norm (Gen.LC.Builder.find_base b edges g)
      = norm (findBase .charwise ⟨b.states, H.repr g, idx⟩ (edges.map (·.1))) := by
  have hgv : H.genVacantFrom (g.items.size + 1) (Gen.H.BuildHelper.vacant_iter g) = .ok vac := by
    have := H.vacant_eq g hw
    rw [hv] at this
    rcases norm_cases' _ _ this with ⟨a, h1, h2⟩ | ⟨e1, e2, h1, h2, h3⟩
    · cases h2; exact h1
    · cases h2
  obtain ⟨c0, rest, hc⟩ : ∃ c0 rest, edges = c0 :: rest := by
    cases edges with
    | nil => exact absurd rfl hl
    | cons a b => exact ⟨a, b, rfl⟩
  have hh : (edges.map (·.1)).headD 0 = c0.1 := by rw [hc]; rfl
  have hne : (!edges.isEmpty) = true := by rw [hc]; rfl
  unfold Gen.LC.Builder.find_base findBase
  dsimp only
  rw [hv, if_pos hne]
  dsimp only
  rcases norm_cases _ _ _ (fb_loop g hw edges hl _ _ vac hgv (Nat.lt_succ_of_le hlen)) with
    ⟨c, h1, h2⟩ | ⟨e1, e2, h1, h2, h3⟩
  · rw [h1, h2]
    cases c with
    | ret r => rfl
    | done it =>
      rw [hh] at hz ⊢
      have hnz : Rs.nonZero (b.states.size ^^^ c0.1) = some (b.states.size ^^^ c0.1) := by
        unfold Rs.nonZero; simp [hz]
      simp only [ctlOpt, Rs.u32TryFromUnwrap, Rs.u32Max, hs, if_true, indexL_head edges c0 rest hc, hnz]
  · rw [h1, h2]; exact h3 _
theorem extend_array_eq (b : Gen.LC.Builder) (g : Gen.H.BuildHelper) (hw : Wf g)
    (hb : g.block_len = b.block_len) (idx : Std.HashMap (List Nat) Nat) :
    norm ((Gen.LC.Builder.extend_array b g).map (fun p => (p.2.1.states, H.repr p.2.2)))
      = norm ((extendArray .charwise ⟨b.states, H.repr g, idx⟩).map (fun l => (l.states, l.h))) := by
  unfold Gen.LC.Builder.extend_array extendArray
  have hbl : (H.repr g).blockLen = b.block_len := hb
  have hu : u32Max = 4294967295 := rfl
  dsimp only
  rw [hbl, hu]
  by_cases hs : b.states.size > 4294967295 - b.block_len
  · simp only [hs, decide_true, if_true]; rfl
  · simp only [hs, decide_false, if_false, Bool.false_eq_true]
    rcases norm_cases _ _ _ (H.push_block_eq g hw) with ⟨⟨u1, g1⟩, k1, k2⟩ | ⟨e1, e2, k1, k2, k3⟩
    · rw [k1, k2]
      simp only [Except.map, resize_add]; rfl
    · rw [k1, k2]; exact k3 _

theorem init_array_unfold (b : Gen.LC.Builder) : Gen.LC.Builder.init_array b =
    (genInit (max (Nat.nextPowerOfTwo b.mapper.alphaSize) 2) b.num_free_blocks).map
      (fun h => (h, { b with block_len := max (Nat.nextPowerOfTwo b.mapper.alphaSize) 2,
                             states := Rs.resize b.states (max (Nat.nextPowerOfTwo b.mapper.alphaSize) 2) stDefaultC })) := by
  unfold Gen.LC.Builder.init_array genInit Gen.LC.CodeMapper.alphabet_size
  dsimp only
  repeat' split
  all_goals first | rfl | simp_all [Except.map]

theorem init_array_eq (b : Gen.LC.Builder) (hs : b.states = #[]) :
    norm ((Gen.LC.Builder.init_array b).map (fun p => (p.2.states, H.repr p.1)))
      = norm (initModel .charwise (max 2 (Nat.nextPowerOfTwo b.mapper.alphaSize)) b.num_free_blocks) := by
  rw [init_array_unfold, Nat.max_comm 2]
  have := genInit_eq .charwise (max (Nat.nextPowerOfTwo b.mapper.alphaSize) 2) b.num_free_blocks
    (Rs.resize b.states (max (Nat.nextPowerOfTwo b.mapper.alphaSize) 2) stDefaultC)
    (by rw [hs, resize_empty]; rfl)
  rw [← this]
  cases genInit (max (Nat.nextPowerOfTwo b.mapper.alphaSize) 2) b.num_free_blocks <;> rfl
end C
end Daac.Tie.L

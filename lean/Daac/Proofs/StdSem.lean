/-
From the evaluated invariant `DA.tableInv` (Inv.lean) to the semantics of the tables:
every prefix `u` of a pattern is a node with an index `idx u`; children mirror the trie; the
fail link of `u` is the longest proper suffix of `u` that is a node; the transition function
computes `lsuf`; the output chain of `u` lists the patterns that are suffixes of `u`.
Core Lean only.
-/
import Daac.Inv
import Daac.Proofs.Lsuf
namespace Daac
variable {V : Type}

/-! ### Residual patterns -/

/-- Residual patterns after reading `u`. -/
def resid (P : List (LPat V)) (u : List Nat) : List (LPat V) := u.foldl stepRes P

theorem mem_stepRes {R : List (LPat V)} {c : Nat} {p : LPat V} :
    p ∈ stepRes R c ↔ ∃ q ∈ R, q.key = c :: p.key ∧ q.blen = p.blen ∧ q.value = p.value := by
  unfold stepRes
  simp only [List.mem_filterMap]
  constructor
  · rintro ⟨q, hq, h⟩
    refine ⟨q, hq, ?_⟩
    cases hk : q.key with
    | nil => simp [hk] at h
    | cons k ks =>
      simp only [hk] at h
      split at h
      · simp only [Option.some.injEq] at h
        subst h; simp_all
      · exact absurd h (by simp)
  · rintro ⟨q, hq, hk, hb, hv⟩
    refine ⟨q, hq, ?_⟩
    simp only [hk, if_true]
    cases p; cases q; simp_all

theorem stepRes_nil (c : Nat) : stepRes ([] : List (LPat V)) c = [] := rfl

theorem resid_nil_pats (u : List Nat) : resid ([] : List (LPat V)) u = [] := by
  induction u with
  | nil => rfl
  | cons c u ih => simpa [resid, stepRes_nil] using ih

theorem resid_cons (P : List (LPat V)) (c : Nat) (u : List Nat) :
    resid P (c :: u) = resid (stepRes P c) u := rfl

theorem resid_append (P : List (LPat V)) (u w : List Nat) :
    resid P (u ++ w) = resid (resid P u) w := by
  simp [resid, List.foldl_append]

theorem mem_resid {P : List (LPat V)} {u : List Nat} {p : LPat V} :
    p ∈ resid P u ↔ ∃ q ∈ P, q.key = u ++ p.key ∧ q.blen = p.blen ∧ q.value = p.value := by
  induction u generalizing P p with
  | nil =>
    simp only [resid, List.foldl_nil, List.nil_append]
    constructor
    · intro h; exact ⟨p, h, rfl, rfl, rfl⟩
    · rintro ⟨q, hq, hk, hb, hv⟩
      have : q = p := by cases p; cases q; simp_all
      exact this ▸ hq
  | cons c u ih =>
    rw [resid_cons, ih]
    constructor
    · rintro ⟨q, hq, hk, hb, hv⟩
      obtain ⟨r, hr, hk', hb', hv'⟩ := mem_stepRes.1 hq
      exact ⟨r, hr, by simp [hk', hk], by omega, by simp [hv', hv]⟩
    · rintro ⟨q, hq, hk, hb, hv⟩
      refine ⟨⟨u ++ p.key, p.blen, p.value⟩, ?_, rfl, rfl, rfl⟩
      exact mem_stepRes.2 ⟨q, hq, by simpa using hk, hb, hv⟩

/-- The node set of the automaton: the empty string and all prefixes of patterns. -/
def nodeList (P : List (LPat V)) : List (List Nat) :=
  [] :: P.flatMap (fun p => nprefixes p.key)

theorem mem_nprefixes {α : Type} {l u : List α} : u ∈ nprefixes l ↔ u ≠ [] ∧ u <+: l := by
  induction l generalizing u with
  | nil => simp [nprefixes]
  | cons a l ih =>
    simp only [nprefixes, List.mem_cons, List.mem_map]
    constructor
    · rintro (rfl | ⟨v, hv, rfl⟩)
      · simp [List.prefix_cons_iff]
      · have := ih.1 hv
        exact ⟨by simp, by simpa [List.prefix_cons_iff] using this.2⟩
    · rintro ⟨hne, hp⟩
      cases u with
      | nil => exact absurd rfl hne
      | cons b v =>
        obtain ⟨rfl, hv⟩ : b = a ∧ v <+: l := by simpa [List.cons_prefix_cons] using hp
        by_cases hv0 : v = []
        · left; simp [hv0]
        · right; exact ⟨v, ih.2 ⟨hv0, hv⟩, rfl⟩

theorem mem_nodeList {P : List (LPat V)} {u : List Nat} :
    u ∈ nodeList P ↔ u = [] ∨ ∃ p ∈ P, u <+: p.key := by
  simp only [nodeList, List.mem_cons, List.mem_flatMap, mem_nprefixes]
  constructor
  · rintro (h | ⟨p, hp, _, h⟩)
    · exact Or.inl h
    · exact Or.inr ⟨p, hp, h⟩
  · rintro (h | ⟨p, hp, h⟩)
    · exact Or.inl h
    · by_cases hu : u = []
      · exact Or.inl hu
      · exact Or.inr ⟨p, hp, hu, h⟩

theorem resid_ne_nil_iff {P : List (LPat V)} {u : List Nat} :
    resid P u ≠ [] ↔ ∃ p ∈ P, u <+: p.key := by
  constructor
  · intro h
    obtain ⟨p, hp⟩ := List.exists_mem_of_ne_nil _ h
    obtain ⟨q, hq, hk, _, _⟩ := mem_resid.1 hp
    exact ⟨q, hq, ⟨p.key, hk.symm⟩⟩
  · rintro ⟨p, hp, ⟨r, hr⟩⟩
    have : (⟨r, p.blen, p.value⟩ : LPat V) ∈ resid P u := mem_resid.2 ⟨p, hp, hr.symm, rfl, rfl⟩
    exact List.ne_nil_of_mem this

theorem nodeList_prefClosed (P : List (LPat V)) : PrefClosed (nodeList P) where
  nil_mem := by simp [nodeList]
  closed := by
    intro u c h
    rcases mem_nodeList.1 h with h | ⟨p, hp, hpre⟩
    · simp at h
    · exact mem_nodeList.2 (Or.inr ⟨p, hp, (List.prefix_append u [c]).trans hpre⟩)

end Daac

/-
The standard (non-leftmost) fail-link pass and the output pass of Model/Nfa.lean, semantically:

PART 1: `(buildFailMap t false).get u = .node (lps N u)` for every node `u` (`N = nodeList P`).
PART 2: the output chain of node `u` lists the patterns that are suffixes of `u`, longest first.
Core Lean only.
-/
import Daac.Proofs.NfaQueue
import Daac.Proofs.StdIface
import Daac.Proofs.StdSem2
namespace Daac
variable {V : Type}

/-! ## 0. Small facts -/

theorem lps_eq_nil_of_length_le_one {N : List (List Nat)} {w : List Nat} (h : w.length ≤ 1) :
    lps N w = [] := by
  have : w.tail = [] := by
    cases w with
    | nil => rfl
    | cons a w => simpa using h
  rw [lps, this, lsuf_nil]

/-- The fail link of a child, from the fail link of its parent. -/
theorem lps_snoc {N : List (List Nat)} (hN : PrefClosed N) {s : List Nat} (hs : s ≠ []) (c : Nat) :
    lps N (s ++ [c]) = lsuf N (lps N s ++ [c]) := by
  cases s with
  | nil => exact absurd rfl hs
  | cons a s =>
    simp only [lps, List.cons_append, List.tail_cons]
    exact (lsuf_step hN s c).symm

theorem FailMap.get_insert (m : FailMap) (k w : List Nat) (v : FailTo) :
    FailMap.get (m.insert k v) w = if k = w then v else m.get w := by
  unfold FailMap.get
  rw [Std.HashMap.getD_insert]
  by_cases h : k = w <;> simp [h]

theorem FailMap.get_empty (w : List Nat) : FailMap.get ({} : FailMap) w = .node [] := by
  unfold FailMap.get
  exact Std.HashMap.getD_empty

/-! ## 1. The walk computes `lsuf` -/

theorem failWalkStd_eq {t : Trie V} {P : List (LPat V)} (hS : TrieSem t P) (m : FailMap) (L : Nat)
    (hm : ∀ w ∈ nodeList P, w.length ≤ L → m.get w = .node (lps (nodeList P) w)) :
    ∀ (fuel : Nat) (f : List Nat) (c : Nat), f ∈ nodeList P → f.length ≤ L → f.length < fuel →
      failWalkStd t m fuel f c = .node (lsuf (nodeList P) (f ++ [c])) := by
  classical
  have hN := nodeList_prefClosed P
  intro fuel
  induction fuel with
  | zero => intro f c _ _ h; exact absurd h (Nat.not_lt_zero _)
  | succ fuel ih =>
    intro f c hf hL hfuel
    unfold failWalkStd
    by_cases hn : t.hasNode (f ++ [c]) = true
    · rw [if_pos hn, lsuf_mem_self ((hS.nodes _).mp hn) hN.nil_mem]
    · rw [if_neg hn, hm f hf hL]
      have hnot : f ++ [c] ∉ nodeList P := fun h => hn ((hS.nodes _).mpr h)
      simp only
      by_cases h0 : f = []
      · subst h0
        have h1 : lps (nodeList P) ([] : List Nat) = [] := lps_eq_nil_of_length_le_one (by simp)
        rw [if_pos ⟨rfl, h1⟩]
        simp only [List.nil_append] at hnot ⊢
        rw [lsuf_cons_of_not_mem hnot, lsuf_nil]
      · rw [if_neg (fun h => h0 h.1), lsuf_fail hN f c h0 hnot]
        obtain ⟨hv, hvl⟩ := lps_mem_lt (P := P) h0
        exact ih _ c hv (by omega) (by omega)

/-! ## 2. The invariant of the fail-link pass -/

/-- `m` is correct on the keys in `D` and holds either the correct value or the default elsewhere. -/
structure InvStd (P : List (LPat V)) (D : List Nat → Prop) (m : FailMap) : Prop where
  any : ∀ w, m.get w = .node (lps (nodeList P) w) ∨ m.get w = .node []
  on : ∀ w, D w → m.get w = .node (lps (nodeList P) w)

theorem InvStd.mono {P : List (LPat V)} {D D' : List Nat → Prop} {m : FailMap}
    (h : InvStd P D m) (hD : ∀ w, D' w → D w) : InvStd P D' m :=
  ⟨h.any, fun w hw => h.on w (hD w hw)⟩

theorem InvStd.short {P : List (LPat V)} {D : List Nat → Prop} {m : FailMap}
    (h : InvStd P D m) {w : List Nat} (hw : w.length ≤ 1) :
    m.get w = .node (lps (nodeList P) w) := by
  rw [lps_eq_nil_of_length_le_one hw]
  rcases h.any w with h1 | h1
  · rw [h1, lps_eq_nil_of_length_le_one hw]
  · exact h1

theorem InvStd.insert {P : List (LPat V)} {D : List Nat → Prop} {m : FailMap}
    (h : InvStd P D m) (k : List Nat) :
    InvStd P (fun w => D w ∨ w = k) (m.insert k (.node (lps (nodeList P) k))) := by
  constructor
  · intro w
    rw [FailMap.get_insert]
    by_cases hk : k = w
    · subst hk; simp
    · rw [if_neg hk]; exact h.any w
  · intro w hw
    rw [FailMap.get_insert]
    by_cases hk : k = w
    · subst hk; simp
    · rw [if_neg hk]
      rcases hw with hw | hw
      · exact h.on w hw
      · exact absurd hw.symm hk

/-- The keys whose entries are final when the queue prefix `pre` has been processed. -/
def DoneStd (t : Trie V) (pre : List (List Nat)) (w : List Nat) : Prop :=
  ∃ s ∈ pre, w ∈ t.childPaths s

/-- Everything the processing of `s` reads. -/
def BelowStd (P : List (LPat V)) (s w : List Nat) : Prop :=
  w ∈ nodeList P ∧ (w.length < s.length ∨ w = s)

theorem InvStd.below {t : Trie V} {P : List (LPat V)} (hS : TrieSem t P) {m : FailMap}
    {pre post : List (List Nat)} {s : List Nat} (hq : t.queue = pre ++ s :: post)
    (h : InvStd P (DoneStd t pre) m) : ∀ w, BelowStd P s w → m.get w = .node (lps (nodeList P) w) := by
  intro w ⟨hwN, hw⟩
  have hsq : s ∈ t.queue := by rw [hq]; simp
  by_cases h1 : w.length ≤ 1
  · exact h.short h1
  · have hw0 : w ≠ [] := by rintro rfl; simp at h1
    have hwq : w ∈ t.queue := (Trie.mem_queue t w).mpr ⟨(hS.nodes w).mpr hwN, hw0⟩
    obtain ⟨hc, hp⟩ := Trie.mem_queue_parent t hwq
    have hdl : w.dropLast.length = w.length - 1 := by simp
    rcases hp with hp | hp
    · rw [hp] at hdl; simp at hdl; omega
    · obtain ⟨hpn, hp0⟩ := (Trie.mem_queue t _).mp hp
      have hlt : w.dropLast.length < s.length := by
        rcases hw with hw | rfl <;> omega
      exact h.on w ⟨_, Trie.queue_split_shorter t hq _ hpn hp0 hlt, hc⟩

/-- One insertion of the inner fold of `failStepStd`. -/
theorem failStepStd_one {t : Trie V} {P : List (LPat V)} (hS : TrieSem t P) {s : List Nat}
    (hs : s ≠ []) {D : List Nat → Prop} (hD : ∀ w, BelowStd P s w → D w) {m : FailMap}
    (h : InvStd P D m) {child : List Nat} (hc : child ∈ t.childPaths s) :
    InvStd P (fun w => D w ∨ w = child)
      (match m.get s, child.getLast? with
        | .node f, some c => m.insert child (failWalkStd t m (s.length + 2) f c)
        | _, _ => m) := by
  classical
  have hN := nodeList_prefClosed P
  obtain ⟨c, rfl, hcn, hsn⟩ := (Trie.mem_childPaths t s child).mp hc
  have hsN : s ∈ nodeList P := (hS.nodes s).mp hsn
  have h1 : m.get s = .node (lps (nodeList P) s) := h.on s (hD s ⟨hsN, Or.inr rfl⟩)
  have h2 : (s ++ [c]).getLast? = some c := by simp
  rw [h1, h2]
  simp only
  obtain ⟨hv, hvl⟩ := lps_mem_lt (P := P) hs
  have hw := failWalkStd_eq hS m (s.length - 1)
    (fun w hwN hwl => h.on w (hD w ⟨hwN, Or.inl (by have := List.length_pos_iff.mpr hs; omega)⟩))
    (s.length + 2) (lps (nodeList P) s) c hv (by omega) (by omega)
  rw [hw, ← lps_snoc hN hs c]
  exact h.insert (s ++ [c])

theorem failStepStd_fold {t : Trie V} {P : List (LPat V)} (hS : TrieSem t P) {s : List Nat}
    (hs : s ≠ []) : ∀ (cs : List (List Nat)), (∀ w ∈ cs, w ∈ t.childPaths s) →
    ∀ (D : List Nat → Prop), (∀ w, BelowStd P s w → D w) → ∀ (m : FailMap), InvStd P D m →
    InvStd P (fun w => D w ∨ w ∈ cs)
      (cs.foldl (fun m child =>
        match m.get s, child.getLast? with
        | .node f, some c => m.insert child (failWalkStd t m (s.length + 2) f c)
        | _, _ => m) m) := by
  intro cs
  induction cs with
  | nil => intro _ D _ m h; exact h.mono (by simp)
  | cons child cs ih =>
    intro hcs D hD m h
    rw [List.foldl_cons]
    have h1 := failStepStd_one hS hs hD h (hcs child (by simp))
    have h2 := ih (fun w hw => hcs w (by simp [hw])) _ (fun w hw => Or.inl (hD w hw)) _ h1
    refine h2.mono ?_
    intro w hw
    rcases hw with hw | hw
    · exact Or.inl (Or.inl hw)
    · rcases List.mem_cons.mp hw with hw | hw
      · exact Or.inl (Or.inr hw)
      · exact Or.inr hw

/-- Processing one queue entry. -/
theorem failStepStd_inv {t : Trie V} {P : List (LPat V)} (hS : TrieSem t P) {m : FailMap}
    {pre post : List (List Nat)} {s : List Nat} (hq : t.queue = pre ++ s :: post)
    (h : InvStd P (DoneStd t pre) m) : InvStd P (DoneStd t (pre ++ [s])) (failStepStd t m s) := by
  have hsq : s ∈ t.queue := by rw [hq]; simp
  have hs0 : s ≠ [] := ((Trie.mem_queue t s).mp hsq).2
  have hb := h.below hS hq
  have h1 : InvStd P (fun w => DoneStd t pre w ∨ BelowStd P s w) m :=
    ⟨h.any, fun w hw => hw.elim (h.on w) (hb w)⟩
  have h2 := failStepStd_fold hS hs0 (t.childPaths s) (fun _ hw => hw) _ (fun w hw => Or.inr hw) m h1
  unfold failStepStd
  refine h2.mono ?_
  rintro w ⟨x, hx, hw⟩
  rcases List.mem_append.mp hx with hx | hx
  · exact Or.inl (Or.inl ⟨x, hx, hw⟩)
  · rw [List.mem_singleton.mp hx] at hw
    exact Or.inr hw

theorem failStd_foldl_inv {t : Trie V} {P : List (LPat V)} (hS : TrieSem t P) :
    ∀ (post pre : List (List Nat)) (m : FailMap), t.queue = pre ++ post →
      InvStd P (DoneStd t pre) m →
      InvStd P (DoneStd t t.queue) (post.foldl (failStepStd t) m) := by
  intro post
  induction post with
  | nil => intro pre m hq h; rw [hq, List.append_nil]; exact h
  | cons s post ih =>
    intro pre m hq h
    rw [List.foldl_cons]
    exact ih (pre ++ [s]) _ (by rw [hq]; simp) (failStepStd_inv hS hq h)

theorem buildFailMap_std_eq (t : Trie V) :
    buildFailMap t false = t.queue.foldl (failStepStd t) {} := by
  unfold buildFailMap
  simp

theorem buildFailMap_std_inv {t : Trie V} {P : List (LPat V)} (hS : TrieSem t P) :
    InvStd P (DoneStd t t.queue) (buildFailMap t false) := by
  rw [buildFailMap_std_eq]
  refine failStd_foldl_inv hS t.queue [] {} rfl ⟨fun w => Or.inr (FailMap.get_empty w), ?_⟩
  rintro w ⟨s, hs, _⟩
  simp at hs

/-- PART 1 (no sortedness needed): after `build_fails`, the fail link of every node `u` is the
longest proper suffix of `u` that is a node. -/
theorem failStd_eq_lps' {t : Trie V} {P : List (LPat V)} (hS : TrieSem t P) :
    ∀ u, u ∈ nodeList P → (buildFailMap t false).get u = .node (lps (nodeList P) u) := by
  intro u hu
  have h := buildFailMap_std_inv hS
  by_cases h1 : u.length ≤ 1
  · exact h.short h1
  · have hu0 : u ≠ [] := by rintro rfl; simp at h1
    have huq : u ∈ t.queue := (Trie.mem_queue t u).mpr ⟨(hS.nodes u).mpr hu, hu0⟩
    obtain ⟨hc, hp⟩ := Trie.mem_queue_parent t huq
    rcases hp with hp | hp
    · have hdl : u.dropLast.length = u.length - 1 := by simp
      rw [hp] at hdl; simp at hdl; omega
    · exact h.on u ⟨_, hp, hc⟩

theorem failStd_eq_lps {t : Trie V} {P : List (LPat V)} (hS : TrieSem t P) (_hsort : t.Sorted) :
    ∀ u, u ∈ nodeList P → (buildFailMap t false).get u = .node (lps (nodeList P) u) :=
  failStd_eq_lps' hS

/-! ## 3. Output chains: fuel and `push` -/

/-- Every record's parent is smaller than the record's own (1-based) position. -/
def ParentOk (outs : Array (Out V)) : Prop := ∀ (i : Nat) (o : Out V), outs[i]? = some o → o.parent ≤ i

theorem ParentOk.empty : ParentOk (#[] : Array (Out V)) := by
  intro i o h; simp at h

theorem ParentOk.push {outs : Array (Out V)} (h : ParentOk outs) {o : Out V}
    (ho : o.parent ≤ outs.size) : ParentOk (outs.push o) := by
  intro i x hx
  rw [Array.getElem?_push] at hx
  split at hx
  · rename_i hi
    cases hx; omega
  · exact h i x hx

theorem chainList_zero (outs : Array (Out V)) (fuel : Nat) : chainList outs fuel 0 = [] := by
  cases fuel <;> simp [chainList]

theorem chainList_succ {outs : Array (Out V)} {fuel p : Nat} {o : Out V} (hp : p ≠ 0)
    (ho : outs[p - 1]? = some o) :
    chainList outs (fuel + 1) p = (o.value, o.length) :: chainList outs fuel o.parent := by
  simp only [chainList, if_neg hp, ho]

/-- Once the fuel covers the start position, more fuel changes nothing. -/
theorem chainList_fuel {outs : Array (Out V)} (h : ParentOk outs) :
    ∀ (f1 f2 p : Nat), p ≤ f1 → p ≤ f2 → chainList outs f1 p = chainList outs f2 p := by
  intro f1
  induction f1 with
  | zero =>
    intro f2 p h1 _
    have : p = 0 := by omega
    subst this
    rw [chainList_zero, chainList_zero]
  | succ f1 ih =>
    intro f2 p h1 h2
    by_cases hp : p = 0
    · subst hp; rw [chainList_zero, chainList_zero]
    · cases f2 with
      | zero => omega
      | succ f2 =>
        simp only [chainList, if_neg hp]
        cases ho : outs[p - 1]? with
        | none => rfl
        | some o =>
          have := h _ o ho
          simp only
          rw [ih f2 o.parent (by omega) (by omega)]

/-- Pushing a record does not change the chains that start at existing positions. -/
theorem chainList_push {outs : Array (Out V)} (h : ParentOk outs) (x : Out V) :
    ∀ (fuel p : Nat), p ≤ outs.size →
      chainList (outs.push x) fuel p = chainList outs fuel p := by
  intro fuel
  induction fuel with
  | zero => intro p _; rfl
  | succ fuel ih =>
    intro p hp
    by_cases hp0 : p = 0
    · subst hp0; rw [chainList_zero, chainList_zero]
    · simp only [chainList, if_neg hp0]
      have hlt : p - 1 < outs.size := by omega
      rw [Array.getElem?_push_lt hlt]
      have ho : outs[p - 1]? = some outs[p - 1] := Array.getElem?_eq_getElem hlt
      rw [ho]
      simp only
      have := h _ _ ho
      rw [ih _ (by omega)]

/-! ## 4. `sufLPats` at a node -/

theorem sufLPats_node (P : List (LPat V)) {s : List Nat} (hs : s ≠ []) :
    sufLPats P s = P.filter (fun p => p.key = s) ++ sufLPats P (lps (nodeList P) s) := by
  classical
  cases s with
  | nil => exact absurd rfl hs
  | cons a t =>
    rw [sufLPats_cons, sufLPats_lsuf P t]
    rfl

theorem filter_key_of_find?_some {P : List (LPat V)} (hk : (P.map (·.key)).Nodup) {s : List Nat}
    {p : LPat V} (h : P.find? (fun p => p.key = s) = some p) :
    P.filter (fun p => p.key = s) = [p] := by
  classical
  have hpm := List.mem_of_find?_eq_some h
  have hpk : p.key = s := by simpa using List.find?_some h
  have := filter_key_of_nodup hk hpm
  rwa [hpk] at this

theorem filter_key_of_find?_none {P : List (LPat V)} {s : List Nat}
    (h : P.find? (fun p => p.key = s) = none) :
    P.filter (fun p => p.key = s) = [] := by
  rw [List.filter_eq_nil_iff]
  intro p hp
  exact List.find?_eq_none.mp h p hp

/-! ## 5. The invariant of the output pass -/

/-- Is `s` the key of a pattern? -/
def isKeyOf (P : List (LPat V)) (s : List Nat) : Bool := (P.find? (fun p => p.key = s)).isSome

structure InvOut (P : List (LPat V)) (pre : List (List Nat)) (a : OutAcc V) : Prop where
  parent : ParentOk a.outs
  bound : ∀ w, a.opos.getD w 0 ≤ a.outs.size
  root : a.opos.getD [] 0 = 0
  chain : ∀ w ∈ pre, chainList a.outs (a.outs.size + 1) (a.opos.getD w 0)
    = (sufLPats P w).map (fun p => (p.value, p.blen))
  size : a.outs.size = (pre.filter (isKeyOf P)).length

theorem InvOut.init (P : List (LPat V)) : InvOut P [] (⟨{}, #[]⟩ : OutAcc V) where
  parent := ParentOk.empty
  bound := by intro w; simp
  root := by simp
  chain := by intro w hw; simp at hw
  size := by simp

theorem opos_getD_insert (m : Std.HashMap (List Nat) Nat) (k w : List Nat) (v : Nat) :
    (m.insert k v).getD w 0 = if k = w then v else m.getD w 0 := by
  rw [Std.HashMap.getD_insert]
  by_cases h : k = w <;> simp [h]

/-- The chain behind the fail link of the queue entry `s` is final. -/
theorem InvOut.fail_chain {t : Trie V} {P : List (LPat V)} (hS : TrieSem t P)
    {pre post : List (List Nat)} {s : List Nat} (hq : t.queue = pre ++ s :: post)
    {a : OutAcc V} (h : InvOut P pre a) (hs0 : s ≠ []) :
    chainList a.outs (a.outs.size + 1) (a.opos.getD (lps (nodeList P) s) 0)
      = (sufLPats P (lps (nodeList P) s)).map (fun p => (p.value, p.blen)) := by
  classical
  obtain ⟨hv, hvl⟩ := lps_mem_lt (P := P) hs0
  by_cases hf : lps (nodeList P) s = []
  · rw [hf, h.root, chainList_zero, sufLPats_nil]; rfl
  · exact h.chain _ (Trie.queue_split_shorter t hq _ ((hS.nodes _).mpr hv) hf hvl)

theorem outStep_some {t : Trie V} {fm : FailMap} {a : OutAcc V} {s : List Nat} {v : V} {len : Nat}
    (h : (t.walk s).bind Trie.out = some (v, len)) :
    outStep t fm a s = { opos := a.opos.insert s (a.outs.size + 1),
                         outs := a.outs.push ⟨v, len, a.oposOf (fm.get s)⟩ } := by
  unfold outStep; rw [h]

theorem outStep_none {t : Trie V} {fm : FailMap} {a : OutAcc V} {s : List Nat}
    (h : (t.walk s).bind Trie.out = none) :
    outStep t fm a s = { a with opos := a.opos.insert s (a.oposOf (fm.get s)) } := by
  unfold outStep; rw [h]

theorem filter_isKeyOf_snoc (P : List (LPat V)) (pre : List (List Nat)) (s : List Nat) :
    ((pre ++ [s]).filter (isKeyOf P)).length
      = (pre.filter (isKeyOf P)).length + (if isKeyOf P s then 1 else 0) := by
  rw [List.filter_append, List.length_append]
  by_cases h : isKeyOf P s = true <;> simp [h]

/-- Processing one queue entry in `build_outputs`. -/
theorem outStep_inv {t : Trie V} {P : List (LPat V)} (hS : TrieSem t P) (hnd : t.queue.Nodup)
    {pre post : List (List Nat)} {s : List Nat} (hq : t.queue = pre ++ s :: post)
    {a : OutAcc V} (h : InvOut P pre a) :
    InvOut P (pre ++ [s]) (outStep t (buildFailMap t false) a s) := by
  have hsq : s ∈ t.queue := by rw [hq]; simp
  obtain ⟨hsn, hs0⟩ := (Trie.mem_queue t s).mp hsq
  have hsN : s ∈ nodeList P := (hS.nodes s).mp hsn
  have hspre : s ∉ pre := by
    rw [hq] at hnd
    have := (List.nodup_append.mp hnd).2.2
    intro hin
    exact this s hin s (by simp) rfl
  have hfm : (buildFailMap t false).get s = .node (lps (nodeList P) s) := failStd_eq_lps' hS s hsN
  have hop : a.oposOf ((buildFailMap t false).get s) = a.opos.getD (lps (nodeList P) s) 0 := by
    rw [hfm]; rfl
  have hfc := h.fail_chain hS hq hs0
  have hqb := h.bound (lps (nodeList P) s)
  have hout := hS.outs s
  cases hfind : P.find? (fun p => p.key = s) with
  | some p =>
    rw [hfind] at hout
    rw [outStep_some hout, hop]
    have hkey : isKeyOf P s = true := by simp [isKeyOf, hfind]
    constructor
    · exact h.parent.push hqb
    · intro w
      simp only [opos_getD_insert, Array.size_push]
      split
      · omega
      · have := h.bound w; omega
    · simp only [opos_getD_insert, if_neg hs0]
      exact h.root
    · intro w hw
      simp only [opos_getD_insert, Array.size_push]
      rcases List.mem_append.mp hw with hw | hw
      · have hne : s ≠ w := fun e => hspre (e ▸ hw)
        rw [if_neg hne, chainList_push h.parent _ _ _ (h.bound w),
          chainList_fuel h.parent _ (a.outs.size + 1) _ (by have := h.bound w; omega)
            (by have := h.bound w; omega)]
        exact h.chain w hw
      · have hws : w = s := List.mem_singleton.mp hw
        subst hws
        rw [if_pos rfl]
        rw [chainList_succ (o := ⟨p.value, p.blen, a.opos.getD (lps (nodeList P) w) 0⟩)
          (Nat.succ_ne_zero _) (by rw [Nat.succ_sub_one]; exact Array.getElem?_push_size)]
        rw [chainList_push h.parent _ _ _ hqb, hfc, sufLPats_node P hs0,
          filter_key_of_find?_some hS.keys hfind]
        rfl
    · simp only [Array.size_push]
      rw [filter_isKeyOf_snoc, hkey, if_pos rfl, h.size]
  | none =>
    rw [hfind] at hout
    rw [outStep_none hout, hop]
    have hkey : isKeyOf P s = false := by simp [isKeyOf, hfind]
    constructor
    · exact h.parent
    · intro w
      simp only [opos_getD_insert]
      split
      · exact hqb
      · exact h.bound w
    · simp only [opos_getD_insert, if_neg hs0]
      exact h.root
    · intro w hw
      simp only [opos_getD_insert]
      rcases List.mem_append.mp hw with hw | hw
      · have hne : s ≠ w := fun e => hspre (e ▸ hw)
        rw [if_neg hne]
        exact h.chain w hw
      · have hws : w = s := List.mem_singleton.mp hw
        subst hws
        rw [if_pos rfl, hfc, sufLPats_node P hs0, filter_key_of_find?_none hfind]
        rfl
    · rw [filter_isKeyOf_snoc, hkey, h.size]
      simp

theorem outStd_foldl_inv {t : Trie V} {P : List (LPat V)} (hS : TrieSem t P) (hnd : t.queue.Nodup) :
    ∀ (post pre : List (List Nat)) (a : OutAcc V), t.queue = pre ++ post → InvOut P pre a →
      InvOut P t.queue (post.foldl (outStep t (buildFailMap t false)) a) := by
  intro post
  induction post with
  | nil => intro pre a hq h; rw [hq, List.append_nil]; exact h
  | cons s post ih =>
    intro pre a hq h
    rw [List.foldl_cons]
    exact ih (pre ++ [s]) _ (by rw [hq]; simp) (outStep_inv hS hnd hq h)

theorem buildOutAcc_std_inv {t : Trie V} {P : List (LPat V)} (hS : TrieSem t P) (hsort : t.Sorted) :
    InvOut P t.queue (buildOutAcc t (buildFailMap t false)) :=
  outStd_foldl_inv hS (Trie.nodup_queue t hsort) t.queue [] _ rfl (InvOut.init P)

/-! ## 6. PART 2: the results -/

/-- The output chain of node `u` lists exactly the patterns that are suffixes of `u`, longest
first. -/
theorem chainStd {t : Trie V} {P : List (LPat V)} (hS : TrieSem t P) (hsort : t.Sorted) :
    ∀ u, u ∈ nodeList P →
      chainList (buildOutAcc t (buildFailMap t false)).outs
        ((buildOutAcc t (buildFailMap t false)).outs.size + 1)
        ((buildOutAcc t (buildFailMap t false)).opos.getD u 0)
      = (sufLPats P u).map (fun p => (p.value, p.blen)) := by
  classical
  intro u hu
  have h := buildOutAcc_std_inv hS hsort
  by_cases hu0 : u = []
  · subst hu0
    rw [h.root, chainList_zero, sufLPats_nil]; rfl
  · exact h.chain u ((Trie.mem_queue t u).mpr ⟨(hS.nodes u).mpr hu, hu0⟩)

/-- Every record's parent is smaller than the record's own 1-based position `i + 1`. -/
theorem outsStd_parent_lt {t : Trie V} {P : List (LPat V)} (hS : TrieSem t P) (hsort : t.Sorted) :
    ∀ i o, (buildOutAcc t (buildFailMap t false)).outs[i]? = some o → o.parent < i + 1 := by
  intro i o ho
  have := (buildOutAcc_std_inv hS hsort).parent i o ho
  omega

/-- Every output position is `0` or a valid 1-based position. -/
theorem oposStd_le {t : Trie V} {P : List (LPat V)} (hS : TrieSem t P) (hsort : t.Sorted) :
    ∀ u, (buildOutAcc t (buildFailMap t false)).opos.getD u 0
      ≤ (buildOutAcc t (buildFailMap t false)).outs.size :=
  (buildOutAcc_std_inv hS hsort).bound

theorem oposStd_root {t : Trie V} {P : List (LPat V)} (hS : TrieSem t P) (hsort : t.Sorted) :
    (buildOutAcc t (buildFailMap t false)).opos.getD [] 0 = 0 :=
  (buildOutAcc_std_inv hS hsort).root

/-- One record per pattern. -/
theorem outsStd_size {t : Trie V} {P : List (LPat V)} (hS : TrieSem t P) (hsort : t.Sorted) :
    (buildOutAcc t (buildFailMap t false)).outs.size = P.length := by
  classical
  rw [(buildOutAcc_std_inv hS hsort).size]
  have hperm : (t.queue.filter (isKeyOf P)).Perm (P.map (·.key)) := by
    rw [List.perm_ext_iff_of_nodup (List.filter_sublist.nodup (Trie.nodup_queue t hsort)) hS.keys]
    intro a
    simp only [List.mem_filter, Trie.mem_queue, isKeyOf, List.find?_isSome, List.mem_map,
      decide_eq_true_eq]
    constructor
    · rintro ⟨_, p, hp, hk⟩; exact ⟨p, hp, hk⟩
    · rintro ⟨p, hp, hk⟩
      subst hk
      exact ⟨⟨(hS.nodes _).mpr (key_mem_nodeList hp), hS.nonempty p hp⟩, p, hp, rfl⟩
  rw [hperm.length_eq, List.length_map]

end Daac

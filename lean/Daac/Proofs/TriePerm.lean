/-
Order independence of the pattern-insertion phase (`Daac/Model/Trie.lean`) for the standard and
leftmost-longest semantics (`kind ≠ 2`, i.e. `lf = false`): building from any permutation of the
same pattern list yields the same trie (structurally), and fails in one order iff it fails in the
other. A counter-example shows that leftmost-first (`kind = 2`) has to be excluded.

Self-contained (does not use `Daac/Proofs/TrieFacts.lean`). To avoid name clashes with that file the
ordering invariant is called `Ordered` here and the auxiliary lemmas live in `Daac.TriePerm`.
-/
import Daac.Model.Trie
namespace Daac

variable {V : Type}

/-! ## 0. Lookup / update algebra of `Kids` (no ordering hypothesis needed) -/

namespace TriePerm

theorem find?_set : (k : Kids V) → (c : Nat) → (t : Trie V) → (c' : Nat) →
    (k.set c t).find? c' = if c = c' then some t else k.find? c'
  | .nil, c, t, c' => by simp [Kids.set, Kids.find?]
  | .cons l t' r, c, t, c' => by
    have ih := find?_set r c t c'
    unfold Kids.set
    split
    · simp [Kids.find?]
    · split
      · subst_vars; simp only [Kids.find?]; split <;> simp_all
      · simp only [Kids.find?, ih]
        split <;> split <;> simp_all

theorem find?_set_self (k : Kids V) (c : Nat) (t : Trie V) : (k.set c t).find? c = some t := by
  simp [find?_set]

theorem find?_set_ne (k : Kids V) (c c' : Nat) (t : Trie V) (h : c ≠ c') :
    (k.set c t).find? c' = k.find? c' := by
  simp [find?_set, h]

/-- Overwriting the same label twice keeps the last child. -/
theorem set_set : (k : Kids V) → (c : Nat) → (t1 t2 : Trie V) →
    (k.set c t1).set c t2 = k.set c t2
  | .nil, c, t1, t2 => by simp [Kids.set]
  | .cons l t' r, c, t1, t2 => by
    have ih := set_set r c t1 t2
    by_cases h1 : c < l
    · simp [Kids.set, h1]
    · by_cases h2 : c = l
      · subst h2; simp [Kids.set]
      · simp [Kids.set, h1, h2, ih]

/-- Updates at different labels commute. -/
theorem set_comm : (k : Kids V) → (c1 c2 : Nat) → (t1 t2 : Trie V) → c1 ≠ c2 →
    (k.set c1 t1).set c2 t2 = (k.set c2 t2).set c1 t1
  | .nil, c1, c2, t1, t2, h => by
    have h' : c2 ≠ c1 := fun e => h e.symm
    rcases Nat.lt_or_gt_of_ne h with hlt | hgt
    · have : ¬ c2 < c1 := by omega
      simp [Kids.set, hlt, this, h']
    · have : ¬ c1 < c2 := by omega
      simp [Kids.set, hgt, this, h]
  | .cons l t' r, c1, c2, t1, t2, h => by
    have ih := set_comm r c1 c2 t1 t2 h
    grind [Kids.set]

end TriePerm

/-! ## 1. The ordering invariant -/

/-- Every label of `k` is larger than `l` (stated on the head; enough together with `Ordered`). -/
def Kids.Above (l : Nat) : Kids V → Prop
  | .nil => True
  | .cons l' _ _ => l < l'

mutual
/-- Children lists are in strictly increasing label order, recursively. -/
def Trie.Ordered : Trie V → Prop
  | .node _ kids => kids.Ordered
def Kids.Ordered : Kids V → Prop
  | .nil => True
  | .cons l t r => t.Ordered ∧ r.Above l ∧ r.Ordered
end

theorem Trie.ordered_empty : (Trie.empty : Trie V).Ordered := by
  simp [Trie.empty, Trie.Ordered, Kids.Ordered]

namespace TriePerm

theorem above_set (k : Kids V) (l c : Nat) (t : Trie V) (h : k.Above l) (hc : l < c) :
    (k.set c t).Above l := by
  cases k with
  | nil => simpa [Kids.set, Kids.Above] using hc
  | cons l' t' r =>
    simp only [Kids.Above] at h
    unfold Kids.set
    split
    · simpa [Kids.Above] using hc
    · split <;> simpa [Kids.Above] using h

end TriePerm

/-- `Kids.set` preserves the ordering invariant. -/
theorem Kids.ordered_set : (k : Kids V) → (c : Nat) → (t : Trie V) → k.Ordered → t.Ordered →
    (k.set c t).Ordered
  | .nil, c, t, _, ht => by simp [Kids.set, Kids.Ordered, Kids.Above, ht]
  | .cons l t' r, c, t, hk, ht => by
    have ih := Kids.ordered_set r c t
    simp only [Kids.Ordered] at hk
    obtain ⟨h1, h2, h3⟩ := hk
    unfold Kids.set
    split
    · rename_i hlt
      simp only [Kids.Ordered, Kids.Above]
      exact ⟨ht, hlt, h1, h2, h3⟩
    · split
      · rename_i heq
        subst heq
        simp only [Kids.Ordered]
        exact ⟨ht, h2, h3⟩
      · rename_i hnlt hne
        have hlc : l < c := by omega
        simp only [Kids.Ordered]
        exact ⟨h1, TriePerm.above_set r l c t h2 hlc, ih h3 ht⟩

theorem Kids.ordered_find? : (k : Kids V) → (c : Nat) → (t : Trie V) → k.Ordered →
    k.find? c = some t → t.Ordered
  | .nil, c, t, _, h => by simp [Kids.find?] at h
  | .cons l t' r, c, t, hk, h => by
    simp only [Kids.Ordered] at hk
    simp only [Kids.find?] at h
    split at h
    · cases h; exact hk.1
    · exact Kids.ordered_find? r c t hk.2.2 h

theorem Kids.ordered_find?_getD (k : Kids V) (c : Nat) (hk : k.Ordered) :
    ((k.find? c).getD Trie.empty).Ordered := by
  cases h : k.find? c with
  | none => simpa using Trie.ordered_empty
  | some t => simpa using Kids.ordered_find? k c t hk h

/-- `Trie.insert` preserves the ordering invariant (for either value of `lf`). -/
theorem Trie.ordered_insert (lf : Bool) (o : V × Nat) :
    (key : List Nat) → (t t' : Trie V) → Trie.insert lf o t key = .ok t' → t.Ordered → t'.Ordered
  | [], .node out kids, t', h, hs => by
    simp only [Trie.insert] at h
    split at h
    · cases h
    · cases h; simpa [Trie.Ordered] using hs
  | c :: cs, .node out kids, t', h, hs => by
    simp only [Trie.insert] at h
    split at h
    · cases h
    · split at h
      · rename_i t'' heq
        cases h
        simp only [Trie.Ordered] at hs ⊢
        exact Kids.ordered_set kids c t'' hs
          (Trie.ordered_insert lf o cs _ t'' heq (Kids.ordered_find?_getD kids c hs))
      · cases h
      · cases h

/-! ## 2. Extensionality: ordered children lists are determined by their lookup function -/

namespace TriePerm

theorem find?_none_of_above : (k : Kids V) → (l c : Nat) → k.Ordered → k.Above l → c ≤ l →
    k.find? c = none
  | .nil, _, _, _, _, _ => by simp [Kids.find?]
  | .cons l' t r, l, c, hk, ha, hc => by
    simp only [Kids.Above] at ha
    simp only [Kids.Ordered] at hk
    have hne : l' ≠ c := by omega
    simp only [Kids.find?, if_neg hne]
    exact find?_none_of_above r l' c hk.2.2 hk.2.1 (by omega)

end TriePerm

/-- Two ordered children lists with the same lookup function are equal. -/
theorem Kids.ext_of_ordered : (k1 k2 : Kids V) → k1.Ordered → k2.Ordered →
    (∀ c, k1.find? c = k2.find? c) → k1 = k2
  | .nil, .nil, _, _, _ => rfl
  | .nil, .cons l t r, _, _, h => by have := h l; simp [Kids.find?] at this
  | .cons l t r, .nil, _, _, h => by have := h l; simp [Kids.find?] at this
  | .cons l1 t1 r1, .cons l2 t2 r2, h1, h2, h => by
    simp only [Kids.Ordered] at h1 h2
    have e1 := h l1
    have e2 := h l2
    simp only [Kids.find?, if_true] at e1 e2
    have hl : l1 = l2 := by
      rcases Nat.lt_trichotomy l1 l2 with hlt | heq | hgt
      · have hne : l2 ≠ l1 := by omega
        rw [if_neg hne, TriePerm.find?_none_of_above r2 l2 l1 h2.2.2 h2.2.1 (by omega)] at e1
        cases e1
      · exact heq
      · have hne : l1 ≠ l2 := by omega
        rw [if_neg hne, TriePerm.find?_none_of_above r1 l1 l2 h1.2.2 h1.2.1 (by omega)] at e2
        cases e2
    subst hl
    simp only [if_true, Option.some.injEq] at e1
    subst e1
    have hr : r1 = r2 := Kids.ext_of_ordered r1 r2 h1.2.2 h2.2.2 (fun c => by
      by_cases hc : l1 = c
      · subst hc
        rw [TriePerm.find?_none_of_above r1 l1 l1 h1.2.2 h1.2.1 (Nat.le_refl _),
          TriePerm.find?_none_of_above r2 l1 l1 h2.2.2 h2.2.1 (Nat.le_refl _)]
      · have := h c
        simpa [Kids.find?, hc] using this)
    rw [hr]

/-- An ordered trie is determined by its output and the lookup function of its children. -/
theorem Trie.ext_of_ordered (t1 t2 : Trie V) (h1 : t1.Ordered) (h2 : t2.Ordered)
    (hout : t1.out = t2.out) (hk : ∀ c, t1.kids.find? c = t2.kids.find? c) : t1 = t2 := by
  cases t1 with
  | node o1 k1 =>
    cases t2 with
    | node o2 k2 =>
      simp only [Trie.out, Trie.kids, Trie.Ordered] at *
      rw [hout, Kids.ext_of_ordered k1 k2 h1 h2 hk]

/-! ## 3. `Trie.insert false`: shape, duplicates, commutation -/

theorem Trie.insert_nil_ok_iff (lf : Bool) (o : V × Nat) (out : Option (V × Nat)) (kids : Kids V)
    (t' : Trie V) :
    Trie.insert lf o (.node out kids) [] = .ok t' ↔ out = none ∧ t' = .node (some o) kids := by
  simp only [Trie.insert]
  cases out with
  | none => simp [eq_comm]
  | some x => simp

theorem Trie.insert_false_cons_ok_iff (o : V × Nat) (out : Option (V × Nat)) (kids : Kids V)
    (c : Nat) (cs : List Nat) (t' : Trie V) :
    Trie.insert false o (.node out kids) (c :: cs) = .ok t' ↔
      ∃ s, Trie.insert false o ((kids.find? c).getD Trie.empty) cs = .ok s ∧
        t' = .node out (kids.set c s) := by
  simp only [Trie.insert, Bool.false_and, Bool.false_eq_true, if_false]
  cases h : Trie.insert false o ((kids.find? c).getD Trie.empty) cs with
  | ok s => simp [eq_comm]
  | shadowed => simp
  | dup => simp

/-- Without leftmost-first, the insertion loop never reports `shadowed`. -/
theorem Trie.insert_false_ne_shadowed (o : V × Nat) :
    (key : List Nat) → (t : Trie V) → Trie.insert false o t key ≠ .shadowed
  | [], .node out kids => by
    simp only [Trie.insert]
    split <;> simp
  | c :: cs, .node out kids => by
    have ih := Trie.insert_false_ne_shadowed o cs ((kids.find? c).getD Trie.empty)
    simp only [Trie.insert, Bool.false_and, Bool.false_eq_true, if_false]
    split
    · simp
    · rename_i heq; exact absurd heq ih
    · simp

/-- After a successful insertion of `key`, inserting `key` again is reported as a duplicate. -/
theorem Trie.insert_false_again (o1 o2 : V × Nat) :
    (key : List Nat) → (t t1 : Trie V) → Trie.insert false o1 t key = .ok t1 →
      Trie.insert false o2 t1 key = .dup
  | [], .node out kids, t1, h => by
    rw [Trie.insert_nil_ok_iff] at h
    obtain ⟨_, rfl⟩ := h
    simp [Trie.insert]
  | c :: cs, .node out kids, t1, h => by
    rw [Trie.insert_false_cons_ok_iff] at h
    obtain ⟨s, hs, rfl⟩ := h
    have ih := Trie.insert_false_again o1 o2 cs _ s hs
    simp [Trie.insert, TriePerm.find?_set_self, ih]

/-- Two successful insertions of different keys commute (same resulting trie, structurally).
No ordering hypothesis is needed: `Kids.set` commutes on arbitrary children lists. -/
theorem Trie.insert_false_comm (o1 o2 : V × Nat) :
    (k1 k2 : List Nat) → (t t1 t12 : Trie V) → k1 ≠ k2 →
      Trie.insert false o1 t k1 = .ok t1 → Trie.insert false o2 t1 k2 = .ok t12 →
      ∃ t2, Trie.insert false o2 t k2 = .ok t2 ∧ Trie.insert false o1 t2 k1 = .ok t12
  | [], [], _, _, _, hne, _, _ => absurd rfl hne
  | [], c :: cs, .node out kids, t1, t12, _, h1, h2 => by
    rw [Trie.insert_nil_ok_iff] at h1
    obtain ⟨rfl, rfl⟩ := h1
    rw [Trie.insert_false_cons_ok_iff] at h2
    obtain ⟨s, hs, rfl⟩ := h2
    refine ⟨.node none (kids.set c s), ?_, ?_⟩
    · rw [Trie.insert_false_cons_ok_iff]; exact ⟨s, hs, rfl⟩
    · rw [Trie.insert_nil_ok_iff]; exact ⟨rfl, rfl⟩
  | c :: cs, [], .node out kids, t1, t12, _, h1, h2 => by
    rw [Trie.insert_false_cons_ok_iff] at h1
    obtain ⟨s, hs, rfl⟩ := h1
    rw [Trie.insert_nil_ok_iff] at h2
    obtain ⟨rfl, rfl⟩ := h2
    refine ⟨.node (some o2) kids, ?_, ?_⟩
    · rw [Trie.insert_nil_ok_iff]; exact ⟨rfl, rfl⟩
    · rw [Trie.insert_false_cons_ok_iff]; exact ⟨s, hs, rfl⟩
  | c1 :: cs1, c2 :: cs2, .node out kids, t1, t12, hne, h1, h2 => by
    rw [Trie.insert_false_cons_ok_iff] at h1
    obtain ⟨s1, hs1, rfl⟩ := h1
    rw [Trie.insert_false_cons_ok_iff] at h2
    obtain ⟨s2, hs2, rfl⟩ := h2
    by_cases hc : c1 = c2
    · subst hc
      have hcs : cs1 ≠ cs2 := fun e => hne (by rw [e])
      rw [TriePerm.find?_set_self, Option.getD_some] at hs2
      obtain ⟨u, hu1, hu2⟩ := Trie.insert_false_comm o1 o2 cs1 cs2 _ s1 s2 hcs hs1 hs2
      refine ⟨.node out (kids.set c1 u), ?_, ?_⟩
      · rw [Trie.insert_false_cons_ok_iff]; exact ⟨u, hu1, rfl⟩
      · rw [Trie.insert_false_cons_ok_iff]
        refine ⟨s2, ?_, ?_⟩
        · rw [TriePerm.find?_set_self, Option.getD_some]; exact hu2
        · rw [TriePerm.set_set, TriePerm.set_set]
    · rw [TriePerm.find?_set_ne _ _ _ _ hc] at hs2
      refine ⟨.node out (kids.set c2 s2), ?_, ?_⟩
      · rw [Trie.insert_false_cons_ok_iff]; exact ⟨s2, hs2, rfl⟩
      · rw [Trie.insert_false_cons_ok_iff]
        refine ⟨s1, ?_, ?_⟩
        · rw [TriePerm.find?_set_ne _ _ _ _ (fun e => hc e.symm)]; exact hs1
        · rw [TriePerm.set_comm _ _ _ _ _ hc]

/-- Step 3 in the form asked for (the ordering hypothesis is not needed but accepted). -/
theorem Trie.insert_false_comm' (o1 o2 : V × Nat) (k1 k2 : List Nat) (t t1 t12 : Trie V)
    (_ht : t.Ordered) (hne : k1 ≠ k2)
    (h1 : Trie.insert false o1 t k1 = .ok t1) (h2 : Trie.insert false o2 t1 k2 = .ok t12) :
    ∃ t2 t21, Trie.insert false o2 t k2 = .ok t2 ∧ Trie.insert false o1 t2 k1 = .ok t21 ∧
      t12 = t21 := by
  obtain ⟨t2, a, b⟩ := Trie.insert_false_comm o1 o2 k1 k2 t t1 t12 hne h1 h2
  exact ⟨t2, t12, a, b, rfl⟩

/-! ## 4. `add`, `addAll`, `buildTrie` under permutation (`lf = false`) -/

/-- Behaviour of `add` without leftmost-first: it succeeds iff the pattern is non-empty and the
insertion loop succeeds; only the trie and the counter change. -/
theorem NfaAcc.add_false_ok_iff (a a' : NfaAcc V) (p : LPat V) :
    NfaAcc.add false a p = .ok a' ↔
      p.blen ≠ 0 ∧ ∃ t, Trie.insert false (p.value, p.blen) a.trie p.key = .ok t ∧
        a' = { a with trie := t, len := a.len + 1 } := by
  unfold NfaAcc.add
  by_cases hb : p.blen = 0
  · simp [hb]
  · simp only [hb, if_false, ne_eq, not_false_eq_true, true_and]
    cases h : Trie.insert false (p.value, p.blen) a.trie p.key with
    | ok t => simp [eq_comm]
    | dup => simp
    | shadowed => exact absurd h (Trie.insert_false_ne_shadowed _ _ _)

/-- The three outcomes of `add` without leftmost-first, as stated in the task. -/
theorem NfaAcc.add_false_cases (a : NfaAcc V) (p : LPat V) :
    (p.blen = 0 ∧ NfaAcc.add false a p = .error .invalidArgument) ∨
    (p.blen ≠ 0 ∧ Trie.insert false (p.value, p.blen) a.trie p.key = .dup ∧
      NfaAcc.add false a p = .error .duplicatePattern) ∨
    (p.blen ≠ 0 ∧ ∃ t, Trie.insert false (p.value, p.blen) a.trie p.key = .ok t ∧
      NfaAcc.add false a p = .ok { a with trie := t, len := a.len + 1 }) := by
  unfold NfaAcc.add
  by_cases hb : p.blen = 0
  · simp [hb]
  · simp only [hb, if_false, ne_eq, not_false_eq_true, true_and, false_and, false_or]
    cases h : Trie.insert false (p.value, p.blen) a.trie p.key with
    | ok t => simp
    | dup => simp
    | shadowed => exact absurd h (Trie.insert_false_ne_shadowed _ _ _)

/-- Adjacent transposition at the level of `add`: two successful additions can be swapped and
lead to the very same builder state. -/
theorem NfaAcc.add_false_swap (a a' a'' : NfaAcc V) (x y : LPat V)
    (h1 : NfaAcc.add false a x = .ok a') (h2 : NfaAcc.add false a' y = .ok a'') :
    ∃ b', NfaAcc.add false a y = .ok b' ∧ NfaAcc.add false b' x = .ok a'' := by
  rw [NfaAcc.add_false_ok_iff] at h1 h2
  obtain ⟨hx, t1, ht1, rfl⟩ := h1
  obtain ⟨hy, t12, ht12, rfl⟩ := h2
  simp only at ht12
  have hne : x.key ≠ y.key := by
    intro e
    rw [← e, Trie.insert_false_again _ _ _ _ _ ht1] at ht12
    cases ht12
  obtain ⟨t2, ha, hb⟩ := Trie.insert_false_comm _ _ _ _ _ _ _ hne ht1 ht12
  refine ⟨{ a with trie := t2, len := a.len + 1 }, ?_, ?_⟩
  · rw [NfaAcc.add_false_ok_iff]; exact ⟨hy, t2, ha, rfl⟩
  · rw [NfaAcc.add_false_ok_iff]; exact ⟨hx, t12, hb, rfl⟩

theorem NfaAcc.addAll_cons_ok_iff (lf : Bool) (a a1 : NfaAcc V) (p : LPat V) (ps : List (LPat V)) :
    NfaAcc.addAll lf a (p :: ps) = .ok a1 ↔
      ∃ a', NfaAcc.add lf a p = .ok a' ∧ NfaAcc.addAll lf a' ps = .ok a1 := by
  simp only [NfaAcc.addAll]
  cases h : NfaAcc.add lf a p with
  | error e => simp
  | ok a' => simp

/-- Transposition case of the main theorem. -/
theorem NfaAcc.addAll_false_swap (a a1 : NfaAcc V) (x y : LPat V) (l : List (LPat V))
    (h : NfaAcc.addAll false a (y :: x :: l) = .ok a1) :
    NfaAcc.addAll false a (x :: y :: l) = .ok a1 := by
  rw [NfaAcc.addAll_cons_ok_iff] at h
  obtain ⟨a', h1, h⟩ := h
  rw [NfaAcc.addAll_cons_ok_iff] at h
  obtain ⟨a'', h2, h⟩ := h
  obtain ⟨b', g1, g2⟩ := NfaAcc.add_false_swap a a' a'' y x h1 h2
  rw [NfaAcc.addAll_cons_ok_iff]
  refine ⟨b', g1, ?_⟩
  rw [NfaAcc.addAll_cons_ok_iff]
  exact ⟨a'', g2, h⟩

/-- Strong form: a successful run over `P` gives the *same final builder state* over any
permutation of `P` (trie, counter and the — untouched — shadowed set). -/
theorem NfaAcc.addAll_false_perm_ok {P P' : List (LPat V)} (hperm : P.Perm P') :
    ∀ (a a1 : NfaAcc V), NfaAcc.addAll false a P = .ok a1 → NfaAcc.addAll false a P' = .ok a1 := by
  induction hperm with
  | nil => intro a a1 h; exact h
  | cons x _ ih =>
    intro a a1 h
    rw [NfaAcc.addAll_cons_ok_iff] at h ⊢
    obtain ⟨a', h1, h2⟩ := h
    exact ⟨a', h1, ih a' a1 h2⟩
  | swap x y l => intro a a1 h; exact NfaAcc.addAll_false_swap a a1 x y l h
  | trans _ _ ih1 ih2 => intro a a1 h; exact ih2 a a1 (ih1 a a1 h)

theorem NfaAcc.addAll_false_perm_ok_iff {P P' : List (LPat V)} (hperm : P.Perm P')
    (a a1 : NfaAcc V) :
    NfaAcc.addAll false a P = .ok a1 ↔ NfaAcc.addAll false a P' = .ok a1 :=
  ⟨NfaAcc.addAll_false_perm_ok hperm a a1, NfaAcc.addAll_false_perm_ok hperm.symm a a1⟩

/-- Failure in one order iff failure in the other. The error *kind* may differ when the list has
several defects (e.g. an empty pattern and a duplicate: whichever comes first is reported). -/
theorem NfaAcc.addAll_false_perm_error_iff {P P' : List (LPat V)} (hperm : P.Perm P')
    (a : NfaAcc V) :
    (∃ e, NfaAcc.addAll false a P = .error e) ↔ (∃ e, NfaAcc.addAll false a P' = .error e) := by
  have key : ∀ {Q Q' : List (LPat V)}, Q.Perm Q' →
      (∃ e, NfaAcc.addAll false a Q = .error e) → (∃ e, NfaAcc.addAll false a Q' = .error e) := by
    intro Q Q' hp ⟨e, he⟩
    cases h' : NfaAcc.addAll false a Q' with
    | error e' => exact ⟨e', rfl⟩
    | ok a2 =>
      have := NfaAcc.addAll_false_perm_ok hp.symm a a2 h'
      rw [he] at this
      cases this
  exact ⟨key hperm, key hperm.symm⟩

/-- Main theorem, in the form asked for. The hypothesis `ha` is not needed (commutation of
`Kids.set` holds on arbitrary children lists); it is kept for interface compatibility. -/
theorem addAll_perm (P P' : List (LPat V)) (hperm : P.Perm P') (a : NfaAcc V)
    (_ha : a.trie.Ordered) :
    (∀ a1, NfaAcc.addAll false a P = .ok a1 →
      ∃ a2, NfaAcc.addAll false a P' = .ok a2 ∧ a2.trie = a1.trie ∧ a2.len = a1.len) ∧
    ((∃ e, NfaAcc.addAll false a P = .error e) ↔ (∃ e, NfaAcc.addAll false a P' = .error e)) :=
  ⟨fun a1 h => ⟨a1, NfaAcc.addAll_false_perm_ok hperm a a1 h, rfl, rfl⟩,
   NfaAcc.addAll_false_perm_error_iff hperm a⟩

/-- Construction is independent of the input order for standard and leftmost-longest semantics. -/
theorem buildTrie_perm (kind : Nat) (hk : kind ≠ 2) (P P' : List (LPat V)) (h : P.Perm P')
    (t : Trie V) : buildTrie kind P = .ok t → buildTrie kind P' = .ok t := by
  have hlf : (kind == 2) = false := by simpa using hk
  unfold buildTrie
  rw [hlf]
  intro hb
  cases hP : NfaAcc.addAll false (NfaAcc.init : NfaAcc V) P with
  | error e => rw [hP] at hb; cases hb
  | ok a1 =>
    rw [hP] at hb
    rw [NfaAcc.addAll_false_perm_ok h _ a1 hP]
    exact hb

/-- Both directions, and failures: the two orders give literally the same result when one of them
succeeds, and fail together otherwise. -/
theorem buildTrie_perm_iff (kind : Nat) (hk : kind ≠ 2) (P P' : List (LPat V)) (h : P.Perm P')
    (t : Trie V) : buildTrie kind P = .ok t ↔ buildTrie kind P' = .ok t :=
  ⟨buildTrie_perm kind hk P P' h t, buildTrie_perm kind hk P' P h.symm t⟩

theorem buildTrie_perm_error_iff (kind : Nat) (hk : kind ≠ 2) (P P' : List (LPat V))
    (h : P.Perm P') :
    (∃ e, buildTrie kind P = .error e) ↔ (∃ e, buildTrie kind P' = .error e) := by
  have key : ∀ {Q Q' : List (LPat V)}, Q.Perm Q' →
      (∃ e, buildTrie kind Q = .error e) → (∃ e, buildTrie kind Q' = .error e) := by
    intro Q Q' hp ⟨e, he⟩
    cases h' : buildTrie kind Q' with
    | error e' => exact ⟨e', rfl⟩
    | ok t =>
      have := buildTrie_perm kind hk Q' Q hp.symm t h'
      rw [he] at this
      cases this
  exact ⟨key h, key h.symm⟩

/-! ## 5. Leftmost-first (`kind = 2`) is rightly excluded -/

/-- Keys `[1]` and `[1,2]`: in the order (`[1]`, `[1,2]`) the second pattern is shadowed and creates
no node (2 nodes); in the order (`[1,2]`, `[1]`) both are registered (3 nodes). -/
example :
    let p : LPat Nat := ⟨[1], 1, 0⟩
    let q : LPat Nat := ⟨[1, 2], 2, 1⟩
    [p, q].Perm [q, p] ∧
    (buildTrie 2 [p, q]).toOption.map Trie.size = some 2 ∧
    (buildTrie 2 [q, p]).toOption.map Trie.size = some 3 := by
  refine ⟨List.Perm.swap _ _ _, ?_, ?_⟩ <;> decide

theorem buildTrie_perm_fails_for_leftmost_first :
    ∃ (P P' : List (LPat Nat)), P.Perm P' ∧ buildTrie 2 P ≠ buildTrie 2 P' := by
  refine ⟨[⟨[1], 1, 0⟩, ⟨[1, 2], 2, 1⟩], [⟨[1, 2], 2, 1⟩, ⟨[1], 1, 0⟩], List.Perm.swap _ _ _, ?_⟩
  intro h
  have h' := congrArg (fun r => r.toOption.map Trie.size) h
  revert h'
  decide

/-- The same two orders do agree for `kind ≠ 2` (instance of `buildTrie_perm`, checked directly). -/
example :
    (buildTrie 0 [(⟨[1], 1, 0⟩ : LPat Nat), ⟨[1, 2], 2, 1⟩]).toOption.map Trie.size = some 3 ∧
    (buildTrie 0 [(⟨[1, 2], 2, 1⟩ : LPat Nat), ⟨[1], 1, 0⟩]).toOption.map Trie.size = some 3 := by
  decide

end Daac

#print axioms Daac.buildTrie_perm
#print axioms Daac.addAll_perm
#print axioms Daac.Trie.insert_false_comm
#print axioms Daac.Kids.ext_of_ordered
#print axioms Daac.Trie.ordered_insert
#print axioms Daac.buildTrie_perm_fails_for_leftmost_first

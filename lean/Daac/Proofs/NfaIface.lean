/-
Interface for the Rung-2 proofs about the fail-link and output passes (Model/Nfa.lean).
`TrieSem t P`: the trie `t` holds exactly the label-level patterns `P` (for leftmost-first: the
retained ones): its nodes are the prefixes of the keys, and the output stored at a node is the
pattern with that key.
-/
import Daac.Model.Nfa
import Daac.Proofs.LmIface
namespace Daac
variable {V : Type}

structure TrieSem (t : Trie V) (P : List (LPat V)) : Prop where
  nodes : ∀ u, t.hasNode u = true ↔ u ∈ nodeList P
  outs : ∀ u, (t.walk u).bind Trie.out = (P.find? (fun p => p.key = u)).map (fun p => (p.value, p.blen))
  keys : (P.map (·.key)).Nodup
  nonempty : ∀ p ∈ P, p.key ≠ []

/-- Output records reachable from position `p` (1-based) through parent links, as (value, length);
fuel-bounded walk over the output array. -/
def chainList (outs : Array (Out V)) : Nat → Nat → List (V × Nat)
  | 0, _ => []
  | fuel + 1, p =>
    if p = 0 then [] else
    match outs[p - 1]? with
    | none => []
    | some o => (o.value, o.length) :: chainList outs fuel o.parent

end Daac

/-
Suffix toolkit: `lsuf N h` (longest suffix of `h` in `N`) and the combinatorial facts the
Aho-Corasick automaton rests on. Core Lean only.
-/
import Daac.Basic
namespace Daac
variable {α : Type} [DecidableEq α]

theorem mem_sufs {s l : List α} : s ∈ sufs l ↔ s <:+ l := by
  induction l with
  | nil => simp [sufs]
  | cons a l ih => simp [sufs, ih, List.suffix_cons_iff]

structure PrefClosed (N : List (List α)) : Prop where
  nil_mem : [] ∈ N
  closed : ∀ u c, u ++ [c] ∈ N → u ∈ N

theorem sufs_sorted (l : List α) : (sufs l).Pairwise (fun a b => b.length < a.length) := by
  induction l with
  | nil => simp [sufs]
  | cons a l ih =>
    simp only [sufs, List.pairwise_cons, ih, and_true]
    intro s hs
    have := (mem_sufs.1 hs).length_le
    simp; omega

/-- Specification of `lsuf`. -/
theorem lsuf_spec {N : List (List α)} (hN : [] ∈ N) (h : List α) :
    lsuf N h <:+ h ∧ lsuf N h ∈ N ∧ ∀ t, t <:+ h → t ∈ N → t.length ≤ (lsuf N h).length := by
  unfold lsuf
  cases hf : (sufs h).find? (fun s => decide (s ∈ N)) with
  | none =>
    exfalso
    have := List.find?_eq_none.1 hf [] (mem_sufs.2 (List.nil_suffix))
    simp [hN] at this
  | some s =>
    simp only [Option.getD_some]
    have hmem := List.mem_of_find?_eq_some hf
    have hp := List.find?_some hf
    refine ⟨mem_sufs.1 hmem, by simpa using hp, ?_⟩
    intro t ht htN
    rw [List.find?_eq_some_iff_append] at hf
    obtain ⟨_, as, bs, hab, hall⟩ := hf
    have hsorted := sufs_sorted h
    rw [hab] at hsorted
    have htm : t ∈ as ++ s :: bs := hab ▸ mem_sufs.2 ht
    rcases List.mem_append.1 htm with h1 | h1
    · have := hall t h1; simp [htN] at this
    · rcases List.mem_cons.1 h1 with rfl | h2
      · exact Nat.le_refl _
      · have := (List.pairwise_append.1 hsorted).2.1
        have := (List.pairwise_cons.1 this).1 t h2
        omega

theorem lsuf_unique {N : List (List α)} {h s : List α} (hN : [] ∈ N)
    (h1 : s <:+ h) (h2 : s ∈ N) (h3 : ∀ t, t <:+ h → t ∈ N → t.length ≤ s.length) :
    lsuf N h = s := by
  obtain ⟨a, b, c⟩ := lsuf_spec hN h
  have l1 := h3 _ a b
  have l2 := c _ h1 h2
  have : (lsuf N h).length = s.length := by omega
  have hs := List.suffix_of_suffix_length_le a h1 l1
  exact hs.eq_of_length this

/-- The one combinatorial fact the standard automaton rests on. -/
theorem lsuf_step {N : List (List α)} (hN : PrefClosed N) (h : List α) (c : α) :
    lsuf N (lsuf N h ++ [c]) = lsuf N (h ++ [c]) := by
  obtain ⟨a, b, m⟩ := lsuf_spec hN.nil_mem h
  obtain ⟨a', b', m'⟩ := lsuf_spec hN.nil_mem (h ++ [c])
  apply lsuf_unique hN.nil_mem
  · -- lsuf (h++[c]) is a suffix of lsuf h ++ [c]
    rcases List.suffix_concat_iff.1 a' with h0 | ⟨t, ht, hts⟩
    · rw [h0]; exact List.nil_suffix
    · rw [ht]
      have htN : t ∈ N := hN.closed t c (ht ▸ b')
      have := m t hts htN
      have := List.suffix_of_suffix_length_le hts a this
      obtain ⟨r, hr⟩ := this
      exact ⟨r, by rw [← hr]; simp⟩
  · exact b'
  · intro t ht htN
    refine m' t (ht.trans ?_) htN
    obtain ⟨r, hr⟩ := a
    exact ⟨r, by rw [← List.append_assoc, hr]⟩


theorem lsuf_mem_self {N : List (List α)} {h : List α} (hm : h ∈ N) (hN : [] ∈ N) : lsuf N h = h := by
  apply lsuf_unique hN (List.suffix_refl _) hm
  intro t ht _; exact ht.length_le

theorem lsuf_nil {N : List (List α)} : lsuf N ([] : List α) = [] := by
  simp [lsuf, sufs]; split <;> simp_all

/-- Proper suffixes of `u` are the suffixes of `u.tail`. -/
theorem suffix_tail_of_ne {t u : List α} (h : t <:+ u) (hne : t ≠ u) : t <:+ u.tail := by
  cases u with
  | nil => simp at h; exact absurd h hne
  | cons a u =>
    rcases List.suffix_cons_iff.1 h with h1 | h1
    · exact absurd h1 hne
    · simpa using h1

/-- The fail-link step: when `u ++ [c]` is not a node, the longest suffix of `u ++ [c]` in `N`
is found below the longest proper suffix of `u`. -/
theorem lsuf_fail {N : List (List α)} (hN : PrefClosed N) (u : List α) (c : α)
    (hu : u ≠ []) (hnot : u ++ [c] ∉ N) :
    lsuf N (u ++ [c]) = lsuf N (lps N u ++ [c]) := by
  obtain ⟨a, b, m⟩ := lsuf_spec hN.nil_mem u.tail
  obtain ⟨a', b', m'⟩ := lsuf_spec hN.nil_mem (u ++ [c])
  have hut : u.tail ++ [c] <:+ u ++ [c] := by
    cases u with
    | nil => exact absurd rfl hu
    | cons x u => simp
  -- lsuf (u ++ [c]) is a suffix of u.tail ++ [c]
  have h1 : lsuf N (u ++ [c]) <:+ u.tail ++ [c] := by
    have hne : lsuf N (u ++ [c]) ≠ u ++ [c] := fun e => hnot (e ▸ b')
    have := suffix_tail_of_ne a' hne
    cases u with
    | nil => exact absurd rfl hu
    | cons x u => simpa using this
  have : lsuf N (u ++ [c]) = lsuf N (u.tail ++ [c]) := by
    symm
    apply lsuf_unique hN.nil_mem h1 b'
    intro t ht htN
    exact m' t (ht.trans hut) htN
  rw [this, lps, lsuf_step hN]

end Daac

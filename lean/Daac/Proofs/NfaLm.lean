/-
(F): the fail links computed by the leftmost fail-link pass `buildFailMap t true`
(`build_fails_leftmost`, Model/Nfa.lean).  The link of a non-root node `u` is dead iff `u` contains a
pattern occurrence and the longest proper suffix of `u` that is a node starts after the start of
the leftmost-longest occurrence inside `u`; otherwise it is the ordinary link `lps N u`.
Core Lean only.
-/
import Daac.Proofs.NfaQueue
import Daac.Proofs.LmAbs
namespace Daac
variable {V : Type}

/-! ### The right-hand side of (F) and its declarative reading -/

/-- The right-hand side of (F). -/
def lmF (P : List (LPat V)) (u : List Nat) : FailTo :=
  match bestIn P u 0 with
  | some (s, _) =>
    if u.length - (lps (nodeList P) u).length > s then .dead else .node (lps (nodeList P) u)
  | none => .node (lps (nodeList P) u)

/-- `u` is the key of a pattern. -/
def IsPat (P : List (LPat V)) (u : List Nat) : Prop := ∃ p ∈ P, p.key = u

theorem lps_spec (P : List (LPat V)) (u : List Nat) :
    lps (nodeList P) u <:+ u.tail ∧ lps (nodeList P) u ∈ nodeList P ∧
      ∀ t, t <:+ u.tail → t ∈ nodeList P → t.length ≤ (lps (nodeList P) u).length :=
  lsuf_spec (nodeList_prefClosed P).nil_mem u.tail

theorem lps_length_lt_lm (P : List (LPat V)) {u : List Nat} (hu : u ≠ []) :
    (lps (nodeList P) u).length < u.length := by
  have h := (lps_spec P u).1.length_le
  have h0 : 0 < u.length := List.length_pos_iff.2 hu
  simp only [List.length_tail] at h
  omega

theorem lps_suffix_lm (P : List (LPat V)) (u : List Nat) : lps (nodeList P) u <:+ u :=
  (lps_spec P u).1.trans (List.tail_suffix u)

theorem lps_snoc_lm (P : List (LPat V)) {s : List Nat} (hs : s ≠ []) (c : Nat) :
    lps (nodeList P) (s ++ [c]) = lsuf (nodeList P) (lps (nodeList P) s ++ [c]) := by
  unfold lps
  rw [List.tail_append_of_ne_nil hs, lsuf_step (nodeList_prefClosed P)]

theorem lps_snoc_length_le (P : List (LPat V)) {s : List Nat} (hs : s ≠ []) (c : Nat) :
    (lps (nodeList P) (s ++ [c])).length ≤ (lps (nodeList P) s).length + 1 := by
  rw [lps_snoc_lm P hs c]
  have := (lsuf_spec (nodeList_prefClosed P).nil_mem (lps (nodeList P) s ++ [c])).1.length_le
  simpa using this

theorem lmF_dead {P : List (LPat V)} {u : List Nat} {b : Nat} {q : LPat V}
    (ho : Occ P u b q) (hb : b < u.length - (lps (nodeList P) u).length) : lmF P u = .dead := by
  unfold lmF
  cases hbest : bestIn P u 0 with
  | none => exact absurd ho (bestIn_none_spec hbest b q)
  | some r =>
    obtain ⟨k, p⟩ := r
    obtain ⟨s, hk, hB⟩ := bestIn_some_spec hbest
    have : ¬ b < s := fun h => hB.left b q h ho
    simp only
    rw [if_pos (by omega)]

theorem lmF_node {P : List (LPat V)} {u : List Nat}
    (h : ∀ b q, Occ P u b q → u.length - (lps (nodeList P) u).length ≤ b) :
    lmF P u = .node (lps (nodeList P) u) := by
  unfold lmF
  cases hbest : bestIn P u 0 with
  | none => rfl
  | some r =>
    obtain ⟨k, p⟩ := r
    obtain ⟨s, hk, hB⟩ := bestIn_some_spec hbest
    have := h s p hB.occ
    simp only
    rw [if_neg (by omega)]

theorem lmF_cases (P : List (LPat V)) (u : List Nat) :
    (lmF P u = .dead ∧ ∃ b q, Occ P u b q ∧ b < u.length - (lps (nodeList P) u).length) ∨
    (lmF P u = .node (lps (nodeList P) u) ∧
      ∀ b q, Occ P u b q → u.length - (lps (nodeList P) u).length ≤ b) := by
  by_cases h : ∃ b q, Occ P u b q ∧ b < u.length - (lps (nodeList P) u).length
  · obtain ⟨b, q, ho, hb⟩ := h
    exact Or.inl ⟨lmF_dead ho hb, b, q, ho, hb⟩
  · right
    have h' : ∀ b q, Occ P u b q → u.length - (lps (nodeList P) u).length ≤ b := by
      intro b q ho
      apply Nat.le_of_not_lt
      intro hb
      exact h ⟨b, q, ho, hb⟩
    exact ⟨lmF_node h', h'⟩

/-- A pattern end fails to the dead state. -/
theorem lmF_pat {P : List (LPat V)} (hne : ∀ p ∈ P, p.key ≠ []) {u : List Nat} (h : IsPat P u) :
    lmF P u = .dead := by
  obtain ⟨p, hp, rfl⟩ := h
  have ho : Occ P p.key 0 p := ⟨hp, hne p hp, by simp⟩
  have := lps_length_lt_lm P (hne p hp)
  exact lmF_dead ho (by omega)

/-- An occurrence inside a non-pattern `s ++ [c]` lies inside `s` or starts inside the longest
proper suffix of `s ++ [c]` that is a node. -/
theorem occ_snoc_lps {P : List (LPat V)} {s : List Nat} {c k : Nat} {q : LPat V}
    (hnp : ¬ IsPat P (s ++ [c])) (h : Occ P (s ++ [c]) k q) :
    Occ P s k q ∨ (s ++ [c]).length - (lps (nodeList P) (s ++ [c])).length ≤ k := by
  by_cases hfit : k + q.key.length ≤ s.length
  · exact Or.inl (occ_of_append h hfit)
  · right
    have hl := occ_length h
    simp only [List.length_append, List.length_singleton] at hl ⊢
    have hk : q.key = (s ++ [c]).drop k :=
      h.2.2.eq_of_length (by simp only [List.length_drop, List.length_append,
        List.length_singleton]; omega)
    cases k with
    | zero => exact absurd ⟨q, h.1, by simpa using hk⟩ hnp
    | succ k =>
      have hsuf : q.key <:+ (s ++ [c]).tail := by
        rw [hk, ← List.drop_one, Nat.add_comm k 1, ← List.drop_drop]
        exact List.drop_suffix _ _
      have hN : q.key ∈ nodeList P := mem_nodeList.2 (Or.inr ⟨q, h.1, List.prefix_refl _⟩)
      have := (lps_spec P (s ++ [c])).2.2 _ hsuf hN
      omega

theorem lsuf_singleton_of_not_mem {N : List (List Nat)} (hN : [] ∈ N) {c : Nat} (h : [c] ∉ N) :
    lsuf N [c] = [] := by
  obtain ⟨a, b, _⟩ := lsuf_spec hN [c]
  rcases List.suffix_cons_iff.1 a with h1 | h1
  · exact absurd (h1 ▸ b) h
  · simpa using h1

/-! ### The walk -/

/-- The inner loop of `build_fails_leftmost`, started at a proper suffix `f` of `s` that is a node,
below which the longest proper suffix of `s ++ [c]` lies, and before which nothing occurs in `s`:
it returns the value (F) of the (non-pattern) child `s ++ [c]`. -/
theorem failWalkLm_char {t : Trie V} {P : List (LPat V)} (hS : TrieSem t P) (m : FailMap)
    (s : List Nat) (c : Nat) (hnp : ¬ IsPat P (s ++ [c]))
    (hm0 : m.get [] = .node [])
    (hm : ∀ f ∈ nodeList P, f ≠ [] → f.length < s.length → m.get f = lmF P f) :
    ∀ fuel f, f.length < fuel → f ∈ nodeList P → f <:+ s → f.length < s.length →
      lsuf (nodeList P) (f ++ [c]) = lps (nodeList P) (s ++ [c]) →
      (∀ k q, k < s.length - f.length → ¬ Occ P s k q) →
      failWalkLm t m fuel f c = lmF P (s ++ [c]) := by
  intro fuel
  induction fuel with
  | zero => intro f h; omega
  | succ fuel ih =>
    intro f hfuel hfN hsuf hlen hL hno
    have hNil := (nodeList_prefClosed P).nil_mem
    rw [failWalkLm]
    by_cases hc : t.hasNode (f ++ [c]) = true
    · rw [if_pos hc]
      have hcN := (hS.nodes _).1 hc
      have hself : lsuf (nodeList P) (f ++ [c]) = f ++ [c] := lsuf_mem_self hcN hNil
      have hlw : lps (nodeList P) (s ++ [c]) = f ++ [c] := by rw [← hL, hself]
      have hF : lmF P (s ++ [c]) = .node (lps (nodeList P) (s ++ [c])) := by
        apply lmF_node
        intro b q ho
        rcases occ_snoc_lps hnp ho with h1 | h1
        · apply Nat.le_of_not_lt
          intro hb
          rw [hlw] at hb
          simp only [List.length_append, List.length_singleton] at hb
          exact hno b q (by omega) h1
        · exact h1
      rw [hF, hlw]
    · rw [if_neg hc]
      have hcN : f ++ [c] ∉ nodeList P := fun h => hc ((hS.nodes _).2 h)
      by_cases hf : f = []
      · subst hf
        rw [hm0]
        simp only [and_self, if_true]
        have hlw : lps (nodeList P) (s ++ [c]) = [] := by
          rw [← hL]; exact lsuf_singleton_of_not_mem hNil (by simpa using hcN)
        have hF : lmF P (s ++ [c]) = .node (lps (nodeList P) (s ++ [c])) := by
          apply lmF_node
          intro b q ho
          rcases occ_snoc_lps hnp ho with h1 | h1
          · have hl := occ_length h1
            have h2 : 0 < q.key.length := List.length_pos_iff.2 h1.2.1
            exact absurd h1 (hno b q (by simp only [List.length_nil]; omega))
          · exact h1
        rw [hF, hlw]
      · rw [hm f hfN hf hlen]
        obtain ⟨v, hv, hvl⟩ := suffix_decomp hsuf
        have hlf := lps_length_lt_lm P hf
        have hfail := lsuf_fail (nodeList_prefClosed P) f c hf hcN
        rcases lmF_cases P f with ⟨hd, b, q, ho, hb⟩ | ⟨hn, hno'⟩
        · rw [hd]
          simp only
          symm
          have ho' : Occ P (s ++ [c]) (v.length + b) q := by
            rw [hv]; exact occ_append_right (occ_append_left.2 ho) _
          apply lmF_dead ho'
          have hle : (lps (nodeList P) (s ++ [c])).length ≤ (lps (nodeList P) f).length + 1 := by
            rw [← hL, hfail]
            have := (lsuf_spec hNil (lps (nodeList P) f ++ [c])).1.length_le
            simpa using this
          simp only [List.length_append, List.length_singleton]
          omega
        · rw [hn]
          simp only
          rw [if_neg (fun h => hf h.1)]
          apply ih
          · omega
          · exact (lps_spec P f).2.1
          · exact (lps_suffix_lm P f).trans hsuf
          · omega
          · rw [← hfail, hL]
          · intro k q hk ho
            by_cases hk' : k < s.length - f.length
            · exact hno k q hk' ho
            · obtain ⟨k', rfl⟩ : ∃ k', k = v.length + k' := ⟨k - v.length, by omega⟩
              rw [hv] at ho
              have := hno' k' q (occ_append_left.1 ho)
              omega

/-! ### Table lookups -/

theorem FailMap.get_insert_self (m : FailMap) (x : List Nat) (v : FailTo) :
    FailMap.get (m.insert x v) x = v := by
  unfold FailMap.get
  exact Std.HashMap.getD_insert_self

theorem FailMap.get_insert_ne (m : FailMap) {x y : List Nat} (v : FailTo) (h : x ≠ y) :
    FailMap.get (m.insert x v) y = m.get y := by
  unfold FailMap.get
  rw [Std.HashMap.getD_insert]
  simp [h]

theorem hasOutput_iff {t : Trie V} {P : List (LPat V)} (hS : TrieSem t P) (u : List Nat) :
    t.hasOutput u = true ↔ IsPat P u := by
  have h1 : t.hasOutput u = ((t.walk u).bind Trie.out).isSome := by
    unfold Trie.hasOutput
    cases t.walk u <;> simp
  rw [h1, hS.outs u]
  simp [IsPat]

/-! ### Processing one queue entry -/

/-- What the child loop of `failStepLm` for the entry `s` relies on. -/
structure GoodTab (P : List (LPat V)) (m : FailMap) (s : List Nat) : Prop where
  root : m.get [] = .node []
  self : m.get s = lmF P s
  shorter : ∀ f ∈ nodeList P, f ≠ [] → f.length < s.length → m.get f = lmF P f

theorem GoodTab.insert {P : List (LPat V)} {m : FailMap} {s : List Nat} (hG : GoodTab P m s)
    {x : List Nat} (v : FailTo) (hx : x.length = s.length + 1) : GoodTab P (m.insert x v) s := by
  refine ⟨?_, ?_, ?_⟩
  · rw [FailMap.get_insert_ne _ _ (by intro h; subst h; simp at hx)]
    exact hG.root
  · rw [FailMap.get_insert_ne _ _ (by intro h; subst h; omega)]
    exact hG.self
  · intro f hf hf0 hfl
    rw [FailMap.get_insert_ne _ _ (by intro h; subst h; omega)]
    exact hG.shorter f hf hf0 hfl

/-- The body of the child loop of `failStepLm`. -/
def lmChildStep (t : Trie V) (s : List Nat) (m : FailMap) (child : List Nat) : FailMap :=
  match m.get s, child.getLast? with
  | .dead, _ => m.insert child .dead
  | .node f, some c => m.insert child (failWalkLm t m (s.length + 2) f c)
  | _, none => m

theorem failStepLm_eq (t : Trie V) (m : FailMap) (s : List Nat) :
    failStepLm t m s =
      (t.childPaths s).foldl (lmChildStep t s) (if t.hasOutput s then m.insert s .dead else m) :=
  rfl

theorem lmChildStep_spec {t : Trie V} {P : List (LPat V)} (hS : TrieSem t P) {m : FailMap}
    {s : List Nat} {c : Nat} (hs0 : s ≠ []) (hG : GoodTab P m s) :
    ∃ v, lmChildStep t s m (s ++ [c]) = m.insert (s ++ [c]) v ∧
      (¬ IsPat P (s ++ [c]) → v = lmF P (s ++ [c])) := by
  unfold lmChildStep
  rw [hG.self, List.getLast?_concat]
  have hle := lps_snoc_length_le P hs0 c
  have hlt := lps_length_lt_lm P hs0
  rcases lmF_cases P s with ⟨hd, b, q, ho, hb⟩ | ⟨hn, hno⟩
  · rw [hd]
    refine ⟨.dead, rfl, fun _ => ?_⟩
    symm
    apply lmF_dead (occ_append_right ho [c])
    simp only [List.length_append, List.length_singleton]
    omega
  · rw [hn]
    refine ⟨_, rfl, fun hnp => ?_⟩
    apply failWalkLm_char hS m s c hnp hG.root hG.shorter
    · omega
    · exact (lps_spec P s).2.1
    · exact lps_suffix_lm P s
    · exact hlt
    · exact (lps_snoc_lm P hs0 c).symm
    · intro k q hk ho
      have := hno k q ho
      omega

theorem foldl_lmChildStep {t : Trie V} {P : List (LPat V)} (hS : TrieSem t P) {s : List Nat}
    (hs0 : s ≠ []) :
    ∀ (cs : List (List Nat)) (m : FailMap), (∀ x ∈ cs, ∃ c, x = s ++ [c]) → GoodTab P m s →
      GoodTab P (cs.foldl (lmChildStep t s) m) s ∧
      (∀ x, x ∉ cs → FailMap.get (cs.foldl (lmChildStep t s) m) x = m.get x) ∧
      (∀ x ∈ cs, ¬ IsPat P x → FailMap.get (cs.foldl (lmChildStep t s) m) x = lmF P x) := by
  intro cs
  induction cs with
  | nil => intro m _ hG; exact ⟨hG, fun _ _ => rfl, by simp⟩
  | cons a cs ih =>
    intro m hcs hG
    obtain ⟨c, rfl⟩ := hcs _ (List.mem_cons_self)
    obtain ⟨v, hv, hvF⟩ := lmChildStep_spec (c := c) hS hs0 hG
    have hG' : GoodTab P (m.insert (s ++ [c]) v) s := hG.insert v (by simp)
    obtain ⟨h1, h2, h3⟩ := ih (m.insert (s ++ [c]) v) (fun x hx => hcs x (List.mem_cons_of_mem _ hx)) hG'
    rw [List.foldl_cons, hv]
    refine ⟨h1, ?_, ?_⟩
    · intro x hx
      rw [List.mem_cons, not_or] at hx
      rw [h2 x hx.2, FailMap.get_insert_ne _ _ (fun h => hx.1 h.symm)]
    · intro x hx hnp
      by_cases hxc : x ∈ cs
      · exact h3 x hxc hnp
      · have hxa : x = s ++ [c] := by
          rcases List.mem_cons.1 hx with h | h
          · exact h
          · exact absurd h hxc
        rw [h2 x hxc, hxa, FailMap.get_insert_self]
        exact hvF (hxa ▸ hnp)

/-! ### The queue invariant -/

/-- Invariant of the fold over the queue, `pre` = entries processed so far: the root never gets an
entry; a processed entry has its final link; an unprocessed non-pattern node whose parent is
processed (or which has depth 1) already has its final link. -/
structure LmInv (P : List (LPat V)) (pre : List (List Nat)) (m : FailMap) : Prop where
  root : m.get [] = .node []
  main : ∀ u ∈ nodeList P, u ≠ [] →
    (u ∈ pre ∨ (¬ IsPat P u ∧ (u.length = 1 ∨ u.dropLast ∈ pre))) → m.get u = lmF P u

theorem lmF_depth_one {P : List (LPat V)} {u : List Nat} (hl : u.length = 1) (hnp : ¬ IsPat P u) :
    lmF P u = .node [] := by
  obtain ⟨a, rfl⟩ : ∃ a, u = [a] := by
    match u, hl with
    | [a], _ => exact ⟨a, rfl⟩
  have hlps : lps (nodeList P) [a] = [] := by simp [lps, lsuf_nil]
  suffices hF : lmF P [a] = .node (lps (nodeList P) [a]) by rw [hF, hlps]
  apply lmF_node
  intro b q ho
  exfalso
  have hl := occ_length ho
  have h2 : 0 < q.key.length := List.length_pos_iff.2 ho.2.1
  simp only [List.length_singleton] at hl
  have hb : b = 0 := by omega
  subst hb
  have hk : q.key = [a] := ho.2.2.eq_of_length (by simp; omega)
  exact hnp ⟨q, ho.1, hk⟩

theorem lmInv_init (P : List (LPat V)) : LmInv P [] ({} : FailMap) := by
  refine ⟨?_, ?_⟩
  · simp [FailMap.get]
  · intro u _ _ h
    rcases h with h | ⟨hnp, h | h⟩
    · simp at h
    · rw [lmF_depth_one h hnp]; simp [FailMap.get]
    · simp at h

theorem lmInv_step {t : Trie V} {P : List (LPat V)} (hS : TrieSem t P)
    {pre post : List (List Nat)} {s : List Nat} (hq : t.queue = pre ++ s :: post)
    {m : FailMap} (hI : LmInv P pre m) : LmInv P (pre ++ [s]) (failStepLm t m s) := by
  have hsq : s ∈ t.queue := by rw [hq]; simp
  obtain ⟨hsn, hs0⟩ := (Trie.mem_queue t s).1 hsq
  -- after the pattern-end assignment
  have hG : GoodTab P (if t.hasOutput s then m.insert s .dead else m) s := by
    have hshort : ∀ f ∈ nodeList P, f ≠ [] → f.length < s.length → m.get f = lmF P f := by
      intro f hf hf0 hfl
      exact hI.main f hf hf0
        (Or.inl (Trie.queue_split_shorter t hq f ((hS.nodes f).2 hf) hf0 hfl))
    by_cases ho : t.hasOutput s = true
    · rw [if_pos ho]
      refine ⟨?_, ?_, ?_⟩
      · rw [FailMap.get_insert_ne _ _ hs0]; exact hI.root
      · rw [FailMap.get_insert_self, lmF_pat hS.nonempty ((hasOutput_iff hS s).1 ho)]
      · intro f hf hf0 hfl
        rw [FailMap.get_insert_ne _ _ (by intro h; subst h; omega)]
        exact hshort f hf hf0 hfl
    · rw [if_neg ho]
      refine ⟨hI.root, ?_, hshort⟩
      apply hI.main s ((hS.nodes s).1 hsn) hs0
      right
      refine ⟨fun h => ho ((hasOutput_iff hS s).2 h), ?_⟩
      rcases (Trie.mem_queue_parent t hsq).2 with h | h
      · left
        have := congrArg List.length h
        have h0 : 0 < s.length := List.length_pos_iff.2 hs0
        simp only [List.length_dropLast, List.length_nil] at this
        omega
      · right
        obtain ⟨hdn, hd0⟩ := (Trie.mem_queue t _).1 h
        have h0 : 0 < s.length := List.length_pos_iff.2 hs0
        exact Trie.queue_split_shorter t hq _ hdn hd0 (by simp only [List.length_dropLast]; omega)
  have hcs : ∀ x ∈ t.childPaths s, ∃ c, x = s ++ [c] := by
    intro x hx
    obtain ⟨c, hc, _⟩ := (Trie.mem_childPaths t s x).1 hx
    exact ⟨c, hc⟩
  obtain ⟨hG', hout, hin⟩ := foldl_lmChildStep hS hs0 (t.childPaths s) _ hcs hG
  rw [failStepLm_eq]
  -- values of the intermediate table
  have hm1 : ∀ u, u ≠ s → FailMap.get (if t.hasOutput s then m.insert s .dead else m) u = m.get u := by
    intro u hu
    split
    · exact FailMap.get_insert_ne _ _ (fun h => hu h.symm)
    · rfl
  refine ⟨?_, ?_⟩
  · rw [hout [] (by intro h; obtain ⟨c, hc⟩ := hcs _ h; simp at hc)]
    exact hG.root
  · intro u hu hu0 hcond
    by_cases hus : u = s
    · subst hus; exact hG'.self
    by_cases huc : u ∈ t.childPaths s
    · rcases hcond with h | ⟨hnp, _⟩
      · -- a processed entry is not longer than `s`
        exfalso
        obtain ⟨c, hc⟩ := hcs _ huc
        rcases List.mem_append.1 h with h | h
        · have := Trie.queue_split_pre_le t hq u h
          rw [hc] at this; simp only [List.length_append, List.length_singleton] at this; omega
        · simp at h; exact hus h
      · exact hin u huc hnp
    · rw [hout u huc, hm1 u hus]
      apply hI.main u hu hu0
      rcases hcond with h | ⟨hnp, h | h⟩
      · rcases List.mem_append.1 h with h | h
        · exact Or.inl h
        · simp at h; exact absurd h hus
      · exact Or.inr ⟨hnp, Or.inl h⟩
      · rcases List.mem_append.1 h with h | h
        · exact Or.inr ⟨hnp, Or.inr h⟩
        · exfalso
          simp only [List.mem_singleton] at h
          apply huc
          have hu' := List.dropLast_concat_getLast hu0
          rw [h] at hu'
          rw [Trie.mem_childPaths]
          exact ⟨u.getLast hu0, hu'.symm, by rw [hu']; exact (hS.nodes u).2 hu, hsn⟩

theorem lmInv_foldl {t : Trie V} {P : List (LPat V)} (hS : TrieSem t P) :
    ∀ (post pre : List (List Nat)) (m : FailMap), t.queue = pre ++ post → LmInv P pre m →
      LmInv P t.queue (post.foldl (failStepLm t) m) := by
  intro post
  induction post with
  | nil => intro pre m hq hI; simpa [hq] using hI
  | cons s post ih =>
    intro pre m hq hI
    rw [List.foldl_cons]
    exact ih (pre ++ [s]) _ (by rw [hq]; simp) (lmInv_step hS hq hI)

/-! ### (F) -/

theorem failLm_char {t : Trie V} {P : List (LPat V)} (hS : TrieSem t P) (_hsort : t.Sorted) :
    ∀ u, u ∈ nodeList P → u ≠ [] →
      (buildFailMap t true).get u =
        (match bestIn P u 0 with
         | some (s, _) =>
           if u.length - (lps (nodeList P) u).length > s then .dead
           else .node (lps (nodeList P) u)
         | none => .node (lps (nodeList P) u)) := by
  intro u hu hu0
  have hb : buildFailMap t true = t.queue.foldl (failStepLm t) {} := by
    simp [buildFailMap]
  have hI := lmInv_foldl hS t.queue [] {} (by simp) (lmInv_init P)
  rw [hb]
  exact hI.main u hu hu0 (Or.inl ((Trie.mem_queue t u).2 ⟨(hS.nodes u).2 hu, hu0⟩))

end Daac

#print axioms Daac.failLm_char

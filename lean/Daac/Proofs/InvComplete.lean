/-
Completeness of the evaluated invariants on model-built tables (standard kind): every automaton
returned by `buildDA variant ⟨0, nfb⟩ P` satisfies `tableInv`, `countInv` and `sizeInv`, i.e. the
runtime invariant checks can never raise a false alarm on tables equal to the model's.
This is the converse direction of Rung 1 (`stdSem_of_tableInv`) for model-built tables.
-/
import Daac.Proofs.Stats2
import Daac.InvExtra
namespace Daac.InvC
open Daac
variable {V : Type}

/-! ## 0. `nodupFast` is complete -/

theorem ic_strictSorted_of_pairwise : ∀ (l : List Nat), l.Pairwise (· < ·) → strictSorted l = true
  | [], _ => rfl
  | [_], _ => rfl
  | a :: b :: r, h => by
    have h1 := List.pairwise_cons.1 h
    simp only [strictSorted, Bool.and_eq_true, decide_eq_true_eq]
    exact ⟨h1.1 b (by simp), ic_strictSorted_of_pairwise (b :: r) h1.2⟩

theorem ic_pairwise_lt_of_le_ne : ∀ (l : List Nat), l.Pairwise (· ≤ ·) → l.Nodup → l.Pairwise (· < ·)
  | [], _, _ => List.Pairwise.nil
  | a :: l, h1, h2 => by
    have h1' := List.pairwise_cons.1 h1
    have h2' := List.nodup_cons.1 h2
    refine List.pairwise_cons.2 ⟨?_, ic_pairwise_lt_of_le_ne l h1'.2 h2'.2⟩
    intro b hb
    have := h1'.1 b hb
    have hne : a ≠ b := fun e => h2'.1 (e ▸ hb)
    omega

theorem ic_nodupFast_of_nodup (l : List Nat) (h : l.Nodup) : nodupFast l = true := by
  unfold nodupFast
  apply ic_strictSorted_of_pairwise
  apply ic_pairwise_lt_of_le_ne
  · have := List.pairwise_mergeSort (le := fun a b : Nat => decide (a ≤ b))
      (fun a b c h1 h2 => by simp only [decide_eq_true_eq] at *; omega)
      (fun a b => by simp only [Bool.or_eq_true, decide_eq_true_eq]; omega) l
    exact this.imp (fun h => by simpa using h)
  · exact (List.mergeSort_perm l _).nodup_iff.2 h

/-! ## 1. The output pass, structurally: positions, not only chain contents -/

/-- The output position of node `w` and the record behind it, in terms of the fail target. -/
def OutStruct (P : List (LPat V)) (a : OutAcc V) (w : List Nat) : Prop :=
  match P.find? (fun p => p.key = w) with
  | none => a.opos.getD w 0 = a.opos.getD (lps (nodeList P) w) 0
  | some p => a.opos.getD w 0 ≠ 0 ∧
      a.outs[a.opos.getD w 0 - 1]? = some ⟨p.value, p.blen, a.opos.getD (lps (nodeList P) w) 0⟩

theorem ic_outStep_opos_ne (t : Trie V) (fm : FailMap) (a : OutAcc V) (s x : List Nat) (hx : s ≠ x) :
    (outStep t fm a s).opos.getD x 0 = a.opos.getD x 0 := by
  unfold outStep
  split <;> simp [opos_getD_insert, hx]

theorem ic_outStep_outs_lt (t : Trie V) (fm : FailMap) (a : OutAcc V) (s : List Nat) (i : Nat)
    (hi : i < a.outs.size) : (outStep t fm a s).outs[i]? = a.outs[i]? := by
  unfold outStep
  split
  · simp [Array.getElem?_push_lt hi]
  · rfl

theorem ic_lps_ne_self {P : List (LPat V)} {s : List Nat} (hs : s ≠ []) : lps (nodeList P) s ≠ s := by
  classical
  intro e
  have := (lps_mem_lt (P := P) hs).2
  rw [e] at this
  omega

theorem ic_outStep_struct {t : Trie V} {P : List (LPat V)} (hS : TrieSem t P) (hnd : t.queue.Nodup)
    {pre post : List (List Nat)} {s : List Nat} (hq : t.queue = pre ++ s :: post)
    {a : OutAcc V} (h : InvOut P pre a) (h2 : ∀ w ∈ pre, OutStruct P a w) :
    ∀ w ∈ pre ++ [s], OutStruct P (outStep t (buildFailMap t false) a s) w := by
  classical
  have hsq : s ∈ t.queue := by rw [hq]; simp
  obtain ⟨hsn, hs0⟩ := (Trie.mem_queue t s).mp hsq
  have hsN : s ∈ nodeList P := (hS.nodes s).mp hsn
  have hspre : s ∉ pre := by
    rw [hq] at hnd
    have := (List.nodup_append.mp hnd).2.2
    intro hin
    exact this s hin s (by simp) rfl
  have hfm : (buildFailMap t false).get s = .node (lps (nodeList P) s) := failStd_eq_lps' hS s hsN
  have hop : a.oposOf ((buildFailMap t false).get s) = a.opos.getD (lps (nodeList P) s) 0 := by
    rw [hfm]; rfl
  intro w hw
  rcases List.mem_append.mp hw with hw | hw
  · -- an earlier entry: nothing it refers to changes
    have hne : s ≠ w := fun e => hspre (e ▸ hw)
    have hwq : w ∈ t.queue := by rw [hq]; simp [hw]
    obtain ⟨_, hw0⟩ := (Trie.mem_queue t w).mp hwq
    have hne2 : s ≠ lps (nodeList P) w := by
      intro e
      have h1 := (lps_mem_lt (P := P) hw0).2
      have h2 := Trie.queue_split_pre_le t hq w hw
      rw [← e] at h1
      omega
    have := h2 w hw
    unfold OutStruct at this ⊢
    rw [ic_outStep_opos_ne _ _ _ _ _ hne, ic_outStep_opos_ne _ _ _ _ _ hne2]
    split
    · rename_i hf; rw [hf] at this; exact this
    · rename_i p hf
      rw [hf] at this
      refine ⟨this.1, ?_⟩
      rw [ic_outStep_outs_lt _ _ _ _ _ (by have := h.bound w; omega)]
      exact this.2
  · have hws : w = s := List.mem_singleton.mp hw
    subst hws
    have hne2 : w ≠ lps (nodeList P) w := fun e => ic_lps_ne_self hs0 e.symm
    have hout := hS.outs w
    unfold OutStruct
    rw [ic_outStep_opos_ne _ _ _ _ _ hne2]
    cases hfind : P.find? (fun p => p.key = w) with
    | some p =>
      rw [hfind] at hout
      rw [outStep_some hout, hop]
      simp only [opos_getD_insert, if_true]
      refine ⟨Nat.succ_ne_zero _, ?_⟩
      simp
    | none =>
      rw [hfind] at hout
      rw [outStep_none hout, hop]
      simp

theorem ic_outStruct_foldl {t : Trie V} {P : List (LPat V)} (hS : TrieSem t P) (hnd : t.queue.Nodup) :
    ∀ (post pre : List (List Nat)) (a : OutAcc V), t.queue = pre ++ post → InvOut P pre a →
      (∀ w ∈ pre, OutStruct P a w) →
      ∀ w ∈ t.queue, OutStruct P (post.foldl (outStep t (buildFailMap t false)) a) w := by
  intro post
  induction post with
  | nil => intro pre a hq _ h2; rw [hq, List.append_nil]; exact h2
  | cons s post ih =>
    intro pre a hq h h2
    rw [List.foldl_cons]
    exact ih (pre ++ [s]) _ (by rw [hq]; simp) (outStep_inv hS hnd hq h)
      (ic_outStep_struct hS hnd hq h h2)

/-- After `build_outputs` (standard kind): a node without a pattern inherits the output position
of its fail target; a pattern end has its own record whose parent is that position. -/
theorem ic_outStruct {t : Trie V} {P : List (LPat V)} (hS : TrieSem t P) (hsort : t.Sorted) :
    ∀ u, u ∈ nodeList P → u ≠ [] → OutStruct P (buildOutAcc t (buildFailMap t false)) u := by
  intro u hu hu0
  have hnd := Trie.nodup_queue t hsort
  exact ic_outStruct_foldl hS hnd t.queue [] _ rfl (InvOut.init P) (by simp) u
    ((Trie.mem_queue t u).mpr ⟨(hS.nodes u).mpr hu, hu0⟩)

/-! ## 2. Walks, labels and `lpsIdx` under `LayoutSem` -/

/-- A walk that succeeds along `LabelOk` labels ends in a trie node, at its index. -/
theorem ic_walk_node {da : DA V} {t : Trie V} {nfa : Nfa V} {idx : List Nat → Nat}
    {P : List (LPat V)} (hL : LayoutSem da t nfa idx) (hS : TrieSem t P) :
    ∀ (n : Nat) (s : List Nat), s.length = n → (∀ c ∈ s, LabelOk da c) → ∀ j, da.walk s = some j →
      t.hasNode s = true ∧ j = idx s := by
  classical
  intro n
  induction n with
  | zero =>
    intro s hlen _ j hj
    have : s = [] := List.eq_nil_of_length_eq_zero hlen
    subst this
    refine ⟨(hS.nodes []).2 (nil_mem_nodeList_ls P), ?_⟩
    simp [DA.walk, DA.walkFrom] at hj
    rw [hL.root]; exact hj.symm
  | succ n ih =>
    intro s' hlen hl j hj
    rcases List.eq_nil_or_concat s' with h0 | ⟨s, c, hsc⟩
    · subst h0; simp at hlen
    rw [List.concat_eq_append] at hsc
    subst hsc
    unfold DA.walk at hj
    rw [walkFrom_append] at hj
    cases hw : da.walkFrom rootIdx s with
    | none => rw [hw] at hj; simp at hj
    | some i =>
      rw [hw] at hj
      obtain ⟨hs, hi⟩ := ih s (by simp at hlen; omega) (fun d hd => hl d (by simp [hd])) i hw
      have hch := hL.child s hs c (hl c (by simp))
      simp only [Option.bind_some, DA.walkFrom] at hj
      rw [hi, hch] at hj
      by_cases hm : t.hasNode (s ++ [c]) = true
      · rw [if_pos hm] at hj
        simp at hj
        exact ⟨hm, hj.symm⟩
      · rw [if_neg hm] at hj
        simp at hj

/-- Every label of an edge of the trie is in the alphabet the invariants range over. -/
theorem ic_label_mem_sigma {da : DA V} {t : Trie V} {nfa : Nfa V} {idx : List Nat → Nat}
    {P : List (LPat V)} (hL : LayoutSem da t nfa idx) (hS : TrieSem t P)
    (hlab : ∀ u, t.hasNode u = true → ∀ c ∈ u, LabelOk da c) {u : List Nat} {c : Nat}
    (h : t.hasNode (u ++ [c]) = true) : c ∈ da.sigma := by
  classical
  rcases hlab _ h c (by simp) with h1 | hcc
  · exact h1
  · exfalso
    have hu := hasNode_of_snoc hS h
    have hch := hL.child u hu c (Or.inr hcc)
    rw [if_pos h, childL_of_code_none _ hcc] at hch
    cases hch

theorem ic_lpsIdx [DecidableEq V] {da : DA V} {t : Trie V} {nfa : Nfa V} {idx : List Nat → Nat}
    {P : List (LPat V)} (hL : LayoutSem da t nfa idx) (hS : TrieSem t P)
    (hlab : ∀ u, t.hasNode u = true → ∀ c ∈ u, LabelOk da c) {u : List Nat}
    (hu : t.hasNode u = true) : da.lpsIdx u = idx (lps (nodeList P) u) := by
  have hN := nodeList_prefClosed P
  obtain ⟨_, hmem, _⟩ := lsuf_spec hN.nil_mem u.tail
  have h1 : da.lpsIdx u = da.idx (lps (nodeList P) u) := by
    unfold DA.lpsIdx lps lsuf
    apply head_filterMap_walk
    intro s hs
    have hlabs : ∀ c ∈ s, LabelOk da c := by
      intro c hc
      have h1 : s <:+ u.tail := mem_sufs.1 hs
      have h2 : u.tail <:+ u := List.tail_suffix u
      exact hlab u hu c ((h1.trans h2).subset hc)
    constructor
    · intro h
      obtain ⟨j, hj⟩ := Option.isSome_iff_exists.1 h
      exact (hS.nodes s).1 (ic_walk_node hL hS s.length s rfl hlabs j hj).1
    · intro h
      rw [walk_eq_idx hL hS hlab s ((hS.nodes s).2 h)]
      rfl
  rw [h1]
  exact idx_eq_of_mem hL hS hlab hmem

/-! ## 3. The clauses of `checkNodeStd` at a node -/

theorem ic_terminal_none {P : List (LPat V)} {u : List Nat}
    (h : P.find? (fun p => p.key = u) = none) : terminal (resid P u) = none := by
  unfold terminal
  rw [List.find?_eq_none]
  intro p hp hk
  obtain ⟨q, hq, hqk, _, _⟩ := mem_resid.1 hp
  have hpk : p.key = [] := by simpa using hk
  rw [hpk, List.append_nil] at hqk
  have := List.find?_eq_none.1 h q hq
  simp [hqk] at this

theorem ic_terminal_some {P : List (LPat V)} (hk : (P.map (·.key)).Nodup) {u : List Nat}
    {q : LPat V} (h : P.find? (fun p => p.key = u) = some q) :
    ∃ p, terminal (resid P u) = some p ∧ p.value = q.value ∧ p.blen = q.blen := by
  have hq := List.mem_of_find?_eq_some h
  have hqk : q.key = u := by simpa using List.find?_some h
  have hm : (⟨[], q.blen, q.value⟩ : LPat V) ∈ resid P u :=
    mem_resid.2 ⟨q, hq, by simp [hqk], rfl, rfl⟩
  have hsome : (terminal (resid P u)).isSome := by
    unfold terminal
    rw [List.find?_isSome]
    exact ⟨_, hm, rfl⟩
  obtain ⟨p, hp⟩ := Option.isSome_iff_exists.1 hsome
  refine ⟨p, hp, ?_⟩
  unfold terminal at hp
  have hpm := List.mem_of_find?_eq_some hp
  have hpk : p.key = [] := by simpa using List.find?_some hp
  obtain ⟨q', hq', hq'k, hb, hv⟩ := mem_resid.1 hpm
  rw [hpk, List.append_nil] at hq'k
  have : q' = q := lpat_eq_of_key_eq hk hq' hq (by rw [hq'k, hqk])
  subst this
  exact ⟨hv.symm, hb.symm⟩

theorem ic_terminal_root {t : Trie V} {P : List (LPat V)} (hS : TrieSem t P) : terminal P = none := by
  unfold terminal
  rw [List.find?_eq_none]
  intro p hp hk
  exact hS.nonempty p hp (by simpa using hk)

/-- T3 at a non-root node. -/
theorem ic_outOk [DecidableEq V] {da : DA V} {t : Trie V} {idx : List Nat → Nat} {P : List (LPat V)}
    (hL : LayoutSem da t (buildNfa t false) idx) (hS : TrieSem t P) (hsort : t.Sorted)
    {u : List Nat} (hu : t.hasNode u = true) (hu0 : u ≠ []) {st : St}
    (hop : st.opos = (buildOutAcc t (buildFailMap t false)).opos.getD u 0)
    (hfail : st.fail = idx (lps (nodeList P) u)) : da.outOk st (resid P u) = true := by
  have hv := (lps_mem_lt (P := P) hu0).1
  obtain ⟨fs, hfs, hfop, _⟩ := hL.node _ ((hS.nodes _).2 hv)
  simp only [buildNfa] at hfop
  have hstruct := ic_outStruct hS hsort u ((hS.nodes u).1 hu) hu0
  unfold OutStruct at hstruct
  unfold DA.outOk
  rw [hfail, hfs]
  simp only
  cases hfind : P.find? (fun p => p.key = u) with
  | none =>
    rw [hfind] at hstruct
    rw [ic_terminal_none hfind]
    simp only [beq_iff_eq]
    rw [hop, hfop]; exact hstruct
  | some q =>
    rw [hfind] at hstruct
    obtain ⟨p, hp, hpv, hpb⟩ := ic_terminal_some hS.keys hfind
    rw [hp]
    simp only
    have hout : da.out st.opos = .ok ⟨q.value, q.blen, fs.opos⟩ := by
      unfold DA.out
      rw [hop, if_neg hstruct.1, hL.outputs]
      simp only [buildNfa]
      rw [hstruct.2, hfop]
    rw [hout]
    simp [hpv, hpb]

/-- The residual list after a child edge is non-empty iff the child is a node. -/
theorem ic_stepRes_isEmpty {t : Trie V} {P : List (LPat V)} (hS : TrieSem t P) (u : List Nat) (c : Nat) :
    (stepRes (resid P u) c).isEmpty = !t.hasNode (u ++ [c]) := by
  classical
  rw [stepRes_resid]
  by_cases hm : t.hasNode (u ++ [c]) = true
  · rw [hm]
    have hN := (hS.nodes _).1 hm
    rcases mem_nodeList.1 hN with h0 | h
    · simp at h0
    · have := resid_ne_nil_iff.2 h
      simpa using this
  · have hne : ¬ (resid P (u ++ [c]) ≠ []) := by
      intro h
      exact hm ((hS.nodes _).2 (mem_nodeList.2 (Or.inr (resid_ne_nil_iff.1 h))))
    have h1 : resid P (u ++ [c]) = [] := Classical.byContradiction hne
    simp [h1, hm]

/-- The head labels of the residual patterns are in the alphabet. -/
theorem ic_heads {da : DA V} {t : Trie V} {nfa : Nfa V} {idx : List Nat → Nat}
    {P : List (LPat V)} (hL : LayoutSem da t nfa idx) (hS : TrieSem t P)
    (hlab : ∀ u, t.hasNode u = true → ∀ c ∈ u, LabelOk da c) (u : List Nat) :
    (resid P u).all (fun p => match p.key with | [] => true | k :: _ => da.sigma.contains k) = true := by
  rw [List.all_eq_true]
  intro p hp
  split
  · rfl
  · rename_i k ks hk
    obtain ⟨q, hq, hqk, _, _⟩ := mem_resid.1 hp
    have hN : u ++ [k] ∈ nodeList P := by
      refine mem_nodeList.2 (Or.inr ⟨q, hq, ?_⟩)
      rw [hqk, hk]
      exact ⟨ks, by simp⟩
    have := ic_label_mem_sigma hL hS hlab ((hS.nodes _).2 hN)
    simpa using this

/-! ## 4. The whole traversal passes -/

theorem ic_check [DecidableEq V] {da : DA V} {t : Trie V} {idx : List Nat → Nat} {P : List (LPat V)}
    (hL : LayoutSem da t (buildNfa t false) idx) (hS : TrieSem t P) (hsort : t.Sorted)
    (hlab : ∀ u, t.hasNode u = true → ∀ c ∈ u, LabelOk da c) :
    ∀ (fuel : Nat) (u : List Nat), t.hasNode u = true → maxKeyLen P < u.length + fuel →
      da.checkNodeStd da.sigma fuel (idx u) u (resid P u) = true := by
  intro fuel
  induction fuel with
  | zero =>
    intro u hu hlen
    have := node_length_le ((hS.nodes u).1 hu)
    omega
  | succ fuel ih =>
    intro u hu hlen
    obtain ⟨st, hst, hop, hfail⟩ := hL.node u hu
    simp only [buildNfa] at hop hfail
    unfold DA.checkNodeStd
    rw [hst]
    simp only [Bool.and_eq_true]
    refine ⟨⟨⟨ic_heads hL hS hlab u, ?_⟩, ?_⟩, ?_⟩
    · -- T2
      by_cases hu0 : u = []
      · simp [hu0]
      · have hf := hfail hu0
        rw [Props.Builder.fails_std t P hS u ((hS.nodes u).1 hu)] at hf
        simp only at hf
        rw [ic_lpsIdx hL hS hlab hu, hf]
        simp
    · -- T3
      by_cases hu0 : u = []
      · subst hu0
        have h0 : st.opos = 0 := by rw [hop]; exact oposStd_root hS hsort
        have h1 : terminal (resid P []) = none := ic_terminal_root hS
        simp [h0, h1]
      · have he : u.isEmpty = false := by cases u <;> simp_all
        rw [he]
        simp only [Bool.false_eq_true, if_false]
        exact ic_outOk hL hS hsort hu hu0 hop (by
          have hf := hfail hu0
          rw [Props.Builder.fails_std t P hS u ((hS.nodes u).1 hu)] at hf
          exact hf)
    · -- T1
      rw [List.all_eq_true]
      intro c hc
      rw [hL.child u hu c (Or.inl hc)]
      by_cases hm : t.hasNode (u ++ [c]) = true
      · rw [if_pos hm]
        simp only
        rw [ic_stepRes_isEmpty hS, hm]
        obtain ⟨h1, h2⟩ := hL.nonroot _ hm (by simp)
        have hrec := ih (u ++ [c]) hm (by simp only [List.length_append, List.length_singleton]; omega)
        rw [← stepRes_resid] at hrec
        simp [h1, h2, hrec]
      · rw [if_neg hm]
        simp only
        rw [ic_stepRes_isEmpty hS]
        simp [hm]

/-! ## 5. The node list of `countInv` -/

/-- The contribution of the label `c` to `nodesFrom` at a node. -/
def ic_kid (da : DA V) (sig : List Nat) (fuel i : Nat) (u : List Nat) (R : List (LPat V)) (c : Nat) :
    List (List Nat × Nat) :=
  if (stepRes R c).isEmpty then [] else
  match da.childL i c with
  | .ok (some j) => da.nodesFrom sig fuel j (u ++ [c]) (stepRes R c)
  | _ => []

theorem ic_nodesFrom_succ (da : DA V) (sig : List Nat) (fuel i : Nat) (u : List Nat)
    (R : List (LPat V)) :
    da.nodesFrom sig (fuel + 1) i u R = (u, i) :: sig.flatMap (ic_kid da sig fuel i u R) := by
  rfl

theorem ic_nodesFrom_prefix (da : DA V) (sig : List Nat) :
    ∀ (fuel i : Nat) (u : List Nat) (R : List (LPat V)) (x : List Nat × Nat),
      x ∈ da.nodesFrom sig fuel i u R → u <+: x.1 := by
  intro fuel
  induction fuel with
  | zero => intro i u R x hx; simp [DA.nodesFrom] at hx
  | succ fuel ih =>
    intro i u R x hx
    rw [ic_nodesFrom_succ] at hx
    simp only [List.mem_cons, List.mem_flatMap] at hx
    rcases hx with rfl | ⟨c, _, hx⟩
    · exact List.prefix_refl _
    · unfold ic_kid at hx
      split at hx
      · simp at hx
      · split at hx
        · exact (List.prefix_append u [c]).trans (ih _ _ _ _ hx)
        · simp at hx

theorem ic_kid_prefix (da : DA V) (sig : List Nat) (fuel i : Nat) (u : List Nat) (R : List (LPat V))
    (c : Nat) (x : List Nat × Nat) (hx : x ∈ ic_kid da sig fuel i u R c) : (u ++ [c]) <+: x.1 := by
  unfold ic_kid at hx
  split at hx
  · simp at hx
  · split at hx
    · exact ic_nodesFrom_prefix da sig _ _ _ _ x hx
    · simp at hx

theorem ic_snoc_prefix_inj {u w : List Nat} {c d : Nat} (h1 : (u ++ [c]) <+: w) (h2 : (u ++ [d]) <+: w) :
    c = d := by
  obtain ⟨r1, e1⟩ := h1
  obtain ⟨r2, e2⟩ := h2
  have := e1.trans e2.symm
  simp only [List.append_assoc, List.append_cancel_left_eq, List.cons_append, List.nil_append,
    List.cons.injEq] at this
  exact this.1

theorem ic_nodesFrom_nodup (da : DA V) (sig : List Nat) (hsig : sig.Nodup) :
    ∀ (fuel i : Nat) (u : List Nat) (R : List (LPat V)),
      ((da.nodesFrom sig fuel i u R).map (·.1)).Nodup := by
  intro fuel
  induction fuel with
  | zero => intro i u R; simp [DA.nodesFrom]
  | succ fuel ih =>
    intro i u R
    have hkid : ∀ c, ((ic_kid da sig fuel i u R c).map (·.1)).Nodup := by
      intro c
      unfold ic_kid
      split
      · simp
      · split
        · exact ih _ _ _
        · simp
    rw [ic_nodesFrom_succ, List.map_cons, List.nodup_cons, List.map_flatMap]
    constructor
    · intro hmem
      obtain ⟨c, _, hx⟩ := List.mem_flatMap.1 hmem
      obtain ⟨x, hx, hxu⟩ := List.mem_map.1 hx
      have := (ic_kid_prefix da sig fuel i u R c x hx).length_le
      simp only at hxu
      rw [hxu] at this
      simp at this
      omega
    · unfold List.Nodup
      rw [List.pairwise_flatMap]
      refine ⟨fun c _ => hkid c, ?_⟩
      refine List.Pairwise.imp ?_ hsig
      intro c d hcd x hx y hy e
      obtain ⟨x', hx', rfl⟩ := List.mem_map.1 hx
      obtain ⟨y', hy', hyx⟩ := List.mem_map.1 hy
      have h1 := ic_kid_prefix da sig fuel i u R c x' hx'
      have h2 := ic_kid_prefix da sig fuel i u R d y' hy'
      rw [hyx, ← e] at h2
      exact hcd (ic_snoc_prefix_inj h1 h2)

theorem ic_kid_eq {da : DA V} {t : Trie V} {nfa : Nfa V} {idx : List Nat → Nat} {P : List (LPat V)}
    (hL : LayoutSem da t nfa idx) (hS : TrieSem t P) {u : List Nat} (hu : t.hasNode u = true)
    (fuel : Nat) {c : Nat} (hc : c ∈ da.sigma) :
    ic_kid da da.sigma fuel (idx u) u (resid P u) c =
      if t.hasNode (u ++ [c]) = true then
        da.nodesFrom da.sigma fuel (idx (u ++ [c])) (u ++ [c]) (resid P (u ++ [c]))
      else [] := by
  classical
  unfold ic_kid
  rw [ic_stepRes_isEmpty hS, hL.child u hu c (Or.inl hc)]
  by_cases hm : t.hasNode (u ++ [c]) = true
  · simp [hm, stepRes_resid]
  · simp [hm]

/-- The pairs collected below a node are exactly the nodes extending it, at their indices. -/
theorem ic_mem_nodesFrom {da : DA V} {t : Trie V} {nfa : Nfa V} {idx : List Nat → Nat}
    {P : List (LPat V)} (hL : LayoutSem da t nfa idx) (hS : TrieSem t P)
    (hlab : ∀ u, t.hasNode u = true → ∀ c ∈ u, LabelOk da c) :
    ∀ (fuel : Nat) (u : List Nat), t.hasNode u = true → maxKeyLen P < u.length + fuel →
      ∀ (w : List Nat) (j : Nat), (w, j) ∈ da.nodesFrom da.sigma fuel (idx u) u (resid P u) ↔
        (t.hasNode w = true ∧ u <+: w ∧ j = idx w) := by
  classical
  intro fuel
  induction fuel with
  | zero =>
    intro u hu hlen
    have := node_length_le ((hS.nodes u).1 hu)
    omega
  | succ fuel ih =>
    intro u hu hlen w j
    rw [ic_nodesFrom_succ]
    simp only [List.mem_cons, List.mem_flatMap]
    constructor
    · rintro (h | ⟨c, hc, hx⟩)
      · simp only [Prod.mk.injEq] at h
        obtain ⟨rfl, rfl⟩ := h
        exact ⟨hu, List.prefix_refl _, rfl⟩
      · rw [ic_kid_eq hL hS hu fuel hc] at hx
        by_cases hm : t.hasNode (u ++ [c]) = true
        · rw [if_pos hm] at hx
          obtain ⟨h1, h2, h3⟩ := (ih (u ++ [c]) hm
            (by simp only [List.length_append, List.length_singleton]; omega) w j).1 hx
          exact ⟨h1, (List.prefix_append u [c]).trans h2, h3⟩
        · rw [if_neg hm] at hx
          simp at hx
    · rintro ⟨hw, ⟨v, rfl⟩, rfl⟩
      cases v with
      | nil => left; simp
      | cons c v =>
        right
        have hpre : (u ++ [c]) <+: (u ++ c :: v) := ⟨v, by simp⟩
        have hm : t.hasNode (u ++ [c]) = true := Trie.hasNode_of_prefix t hpre hw
        have hc : c ∈ da.sigma := ic_label_mem_sigma hL hS hlab hm
        refine ⟨c, hc, ?_⟩
        rw [ic_kid_eq hL hS hu fuel hc, if_pos hm]
        exact (ih (u ++ [c]) hm
          (by simp only [List.length_append, List.length_singleton]; omega) _ _).2 ⟨hw, hpre, rfl⟩

theorem ic_sigma_nodup (da : DA V) : da.sigma.Nodup := by
  unfold DA.sigma
  split
  · exact List.nodup_range
  · exact List.filter_sublist.nodup List.nodup_range

/-! ## 6. The theorems -/

theorem ic_foldl_max_attained (P : List (LPat V)) : ∀ (m : Nat),
    P.foldl (fun m p => max m p.key.length) m = m ∨
      ∃ p ∈ P, p.key.length = P.foldl (fun m p => max m p.key.length) m := by
  induction P with
  | nil => intro m; left; rfl
  | cons q P ih =>
    intro m
    simp only [List.foldl_cons, List.mem_cons, exists_eq_or_imp]
    rcases ih (max m q.key.length) with h | ⟨p, hp, h⟩
    · rw [h]
      by_cases hq : q.key.length ≤ m
      · left; omega
      · right; left; omega
    · right; right; exact ⟨p, hp, h⟩

theorem ic_maxKeyLen_lt {t : Trie V} {P : List (LPat V)} (hS : TrieSem t P) {n : Nat}
    (hD : ∀ u, t.hasNode u = true → u.length < n) : maxKeyLen P < n := by
  classical
  rcases ic_foldl_max_attained P 0 with h | ⟨p, hp, h⟩
  · have := hD [] ((hS.nodes []).2 (nil_mem_nodeList_ls P))
    unfold maxKeyLen
    rw [h]
    simpa using this
  · have := hD p.key ((hS.nodes _).2 (key_mem_nodeList hp))
    unfold maxKeyLen
    omega

/-- Everything the three theorems need, from a successful standard-kind build. -/
theorem ic_build_facts (variant : Variant) (nfb : Nat) (P : List (LPat V)) (da : DA V)
    (hb : buildDA variant ⟨0, nfb⟩ P = .ok da) (hk : keysOk P)
    (hlabels : variant = .bytewise → ∀ p ∈ P, ∀ c ∈ p.key, c < 256) :
    ∃ t idx, TrieSem t P ∧ t.Sorted ∧ LayoutSem da t (buildNfa t false) idx ∧
      (∀ u, t.hasNode u = true → ∀ c ∈ u, LabelOk da c) ∧
      (∀ u, t.hasNode u = true → u.length < da.states.size) ∧
      (∀ u w, t.hasNode u = true → t.hasNode w = true → idx u = idx w → u = w) ∧
      da.numStates = t.size := by
  obtain ⟨t, idx, hT, hsort, hL, hlab, hD, _, hinj, _, hnum⟩ :=
    build_layout_full variant ⟨0, nfb⟩ P P da hb
      (fun t ht => buildTrie_trieSem 0 (by decide) P t ht hk) (fun _ h => h) hlabels
  have hnfa : buildNfa t ((⟨0, nfb⟩ : Cfg).kind != 0) = buildNfa t false := rfl
  rw [hnfa] at hL
  exact ⟨t, idx, hT, hsort, hL, hlab, hD, hinj, hnum⟩

/-- **`TableInv` holds for every standard-kind automaton the model builder returns.** -/
theorem tableInv_of_build [DecidableEq V] (variant : Variant) (nfb : Nat) (P : List (LPat V))
    (da : DA V) (hb : buildDA variant ⟨0, nfb⟩ P = .ok da) (hk : keysOk P)
    (hlabels : variant = .bytewise → ∀ p ∈ P, ∀ c ∈ p.key, c < 256) :
    da.tableInv P = true := by
  obtain ⟨t, idx, hT, hsort, hL, hlab, _, _, _⟩ := ic_build_facts variant nfb P da hb hk hlabels
  have h := ic_check hL hT hsort hlab (maxKeyLen P + 1) []
    ((hT.nodes []).2 (nil_mem_nodeList_ls P)) (by simp)
  rw [hL.root] at h
  exact h

/-- `CountInv` from the layout facts, for any registered list `P'` and any NFA. -/
theorem ic_countInv_of_layout {da : DA V} {t : Trie V} {nfa : Nfa V} {idx : List Nat → Nat}
    {P : List (LPat V)} (hL : LayoutSem da t nfa idx) (hT : TrieSem t P) (hsort : t.Sorted)
    (hlab : ∀ u, t.hasNode u = true → ∀ c ∈ u, LabelOk da c)
    (hinj : ∀ u w, t.hasNode u = true → t.hasNode w = true → idx u = idx w → u = w)
    (hnum : da.numStates = t.size) : da.countInv P = true := by
  classical
  have hroot : t.hasNode [] = true := (hT.nodes []).2 (nil_mem_nodeList_ls P)
  have hmem : ∀ w j, (w, j) ∈ da.nodes P ↔ (t.hasNode w = true ∧ j = idx w) := by
    intro w j
    have := ic_mem_nodesFrom hL hT hlab (maxKeyLen P + 1) [] hroot (by simp) w j
    rw [hL.root] at this
    unfold DA.nodes
    rw [show resid P [] = P from rfl] at this
    rw [this]
    simp
  have hnd : ((da.nodes P).map (·.1)).Nodup :=
    ic_nodesFrom_nodup da da.sigma (ic_sigma_nodup da) _ _ _ _
  have hpaths : ∀ u, u ∈ (da.nodes P).map (·.1) ↔ (t.walk u).isSome := by
    intro u
    rw [List.mem_map]
    constructor
    · rintro ⟨⟨w, j⟩, hx, rfl⟩
      exact ((hmem w j).1 hx).1
    · intro h
      exact ⟨(u, idx u), (hmem u (idx u)).2 ⟨h, rfl⟩, rfl⟩
  have hlen : da.numStates = (da.nodes P).length := by
    rw [hnum, Trie.size_eq_of_nodes t hsort _ hnd hpaths, List.length_map]
  have hsnd : (da.nodes P).map (·.2) = ((da.nodes P).map (·.1)).map idx := by
    rw [List.map_map]
    apply List.map_congr_left
    rintro ⟨w, j⟩ hx
    exact ((hmem w j).1 hx).2
  have hnd2 : ((da.nodes P).map (·.2)).Nodup := by
    rw [hsnd]
    unfold List.Nodup
    rw [List.pairwise_map]
    refine List.Pairwise.imp_of_mem ?_ hnd
    intro a b ha hb hab e
    exact hab (hinj a b ((hpaths a).1 ha) ((hpaths b).1 hb) e)
  unfold DA.countInv
  simp only [Bool.and_eq_true, beq_iff_eq]
  exact ⟨hlen, ic_nodupFast_of_nodup _ hnd2⟩

/-- **`CountInv` holds for every standard-kind automaton the model builder returns.** -/
theorem countInv_of_build (variant : Variant) (nfb : Nat) (P : List (LPat V))
    (da : DA V) (hb : buildDA variant ⟨0, nfb⟩ P = .ok da) (hk : keysOk P)
    (hlabels : variant = .bytewise → ∀ p ∈ P, ∀ c ∈ p.key, c < 256) :
    da.countInv P = true := by
  obtain ⟨t, idx, hT, hsort, hL, hlab, _, hinj, hnum⟩ :=
    ic_build_facts variant nfb P da hb hk hlabels
  exact ic_countInv_of_layout hL hT hsort hlab hinj hnum

/-- **`CountInv`, leftmost-longest kind.** -/
theorem countInv_of_build_ll (variant : Variant) (nfb : Nat) (P : List (LPat V))
    (da : DA V) (hb : buildDA variant ⟨1, nfb⟩ P = .ok da) (hk : keysOk P)
    (hlabels : variant = .bytewise → ∀ p ∈ P, ∀ c ∈ p.key, c < 256) :
    da.countInv P = true := by
  obtain ⟨t, idx, hT, hsort, hL, hlab, _, _, hinj, _, hnum⟩ :=
    build_layout_full variant ⟨1, nfb⟩ P P da hb
      (fun t ht => buildTrie_trieSem 1 (by decide) P t ht hk) (fun _ h => h) hlabels
  exact ic_countInv_of_layout hL hT hsort hlab hinj hnum

/-- **`CountInv`, leftmost-first kind**: with the retained pattern list, as the runtime check
evaluates it. -/
theorem countInv_of_build_lf (variant : Variant) (nfb : Nat) (P : List (LPat V))
    (da : DA V) (hb : buildDA variant ⟨2, nfb⟩ P = .ok da) (hk : keysOk P)
    (hlabels : variant = .bytewise → ∀ p ∈ P, ∀ c ∈ p.key, c < 256) :
    da.countInv (retainedL P) = true := by
  obtain ⟨t, idx, hT, hsort, hL, hlab, _, _, hinj, _, hnum⟩ :=
    build_layout_full variant ⟨2, nfb⟩ P (retainedL P) da hb
      (fun t ht => buildTrie_trieSem_lf P t ht hk)
      (fun _ h => (retainedL_sublist P).subset h) hlabels
  exact ic_countInv_of_layout hL hT hsort hlab hinj hnum

/-- **`SizeInv` holds for every standard-kind automaton the model builder returns.** -/
theorem sizeInv_of_build (variant : Variant) (nfb : Nat) (P : List (LPat V))
    (da : DA V) (hb : buildDA variant ⟨0, nfb⟩ P = .ok da) (hk : keysOk P)
    (hlabels : variant = .bytewise → ∀ p ∈ P, ∀ c ∈ p.key, c < 256) :
    da.sizeInv P = true := by
  obtain ⟨t, idx, hT, _, _, _, hD, _, _⟩ := ic_build_facts variant nfb P da hb hk hlabels
  have h2 := (build_stdSem variant nfb P da hb hk hlabels).2
  unfold DA.sizeInv
  simp only [Bool.and_eq_true, decide_eq_true_eq]
  exact ⟨ic_maxKeyLen_lt hT hD, h2⟩

#print axioms tableInv_of_build
#print axioms countInv_of_build
#print axioms countInv_of_build_ll
#print axioms countInv_of_build_lf
#print axioms sizeInv_of_build

end Daac.InvC

/-
Translation tie, fail-link / output passes — shared infrastructure for `Daac/Proofs/TieF.lean`.

`idAt st i u`: the state id reached from state `i` by following the labels `u` through the edge lists
of `st` (the inverse of the ghost labelling `pth` of `Tie.N.Rep` on the nodes of the trie).
`SameShape st st'`: `st'` differs from `st` only in the `fail` / `output_pos` fields (what the three
passes write); `Rep` and `idAt` are invariant under it.
-/
import Daac.Proofs.TieN
import Daac.Model.Nfa
import Daac.Proofs.NfaQueue
import Daac.Proofs.NfaStd
namespace Daac.Tie.F
open Daac Daac.Gen Daac.Gen.N Daac.Tie.N

variable {V : Type}

/-- The state reached from `i` along `u`. -/
def idAt (st : Tie.N.St V) : Nat → List Nat → Option Nat
  | i, [] => some i
  | i, c :: cs =>
    match st[i]? with
    | none => none
    | some s =>
      match Rs.EdgeMap.get s.edges c with
      | none => none
      | some j => idAt st j cs

theorem idAt_append (st : Tie.N.St V) : (u w : List Nat) → (i : Nat) →
    idAt st i (u ++ w) = (idAt st i u).bind (fun j => idAt st j w)
  | [], w, i => by simp [idAt]
  | c :: u, w, i => by
    simp only [List.cons_append, idAt]
    cases st[i]? with
    | none => simp
    | some s =>
      cases hg : Rs.EdgeMap.get s.edges c with
      | none => simp [hg]
      | some j => simpa [hg] using idAt_append st u w j

/-- Same size, same edges and outputs at every index. -/
def SameShape (st st' : Tie.N.St V) : Prop :=
  st'.size = st.size ∧
    ∀ (i : Nat) (s : NfaBuilderState V), st[i]? = some s → ∃ s' : NfaBuilderState V, st'[i]? = some s' ∧ s'.edges = s.edges ∧ s'.output = s.output

theorem SameShape.refl (st : Tie.N.St V) : SameShape st st := ⟨rfl, fun _ s h => ⟨s, h, rfl, rfl⟩⟩

theorem SameShape.trans {a b c : Tie.N.St V} (h1 : SameShape a b) (h2 : SameShape b c) : SameShape a c := by
  refine ⟨by rw [h2.1, h1.1], fun i s hs => ?_⟩
  obtain ⟨s', e1, e2, e3⟩ := h1.2 i s hs
  obtain ⟨s'', f1, f2, f3⟩ := h2.2 i s' e1
  exact ⟨s'', f1, by rw [f2, e2], by rw [f3, e3]⟩

theorem SameShape.set (st : Tie.N.St V) (i : Nat) (s x : NfaBuilderState V) (h : st[i]? = some s)
    (he : x.edges = s.edges) (ho : x.output = s.output) : SameShape st (st.setIfInBounds i x) := by
  refine ⟨by simp, fun j sj hj => ?_⟩
  by_cases e : i = j
  · subst e
    rw [h] at hj; cases hj
    exact ⟨x, by simp [lt_of_get h], he, ho⟩
  · exact ⟨sj, by simp [e, hj], rfl, rfl⟩

mutual
theorem rep_shape {st st' : Tie.N.St V} {pth : Pth} : (t : Trie V) → (id : Nat) → (pre : List Nat) →
    Rep st pth t id pre → SameShape st st' → Rep st' pth t id pre
  | .node out kids, id, pre, h, hs => by
    unfold Rep at h ⊢
    obtain ⟨s, h1, h2, h3, h4⟩ := h
    obtain ⟨s', e1, e2, e3⟩ := hs.2 id s h1
    exact ⟨s', e1, h2, by rw [e3, h3], by rw [e2]; exact repK_shape kids pre 0 s.edges h4 hs⟩
theorem repK_shape {st st' : Tie.N.St V} {pth : Pth} : (ks : Kids V) → (pre : List Nat) → (lo : Nat) →
    (es : List (Nat × Nat)) → RepK st pth ks pre lo es → SameShape st st' → RepK st' pth ks pre lo es
  | .nil, pre, lo, es, h, hs => by
    unfold RepK at h ⊢; exact h
  | .cons l t r, pre, lo, es, h, hs => by
    unfold RepK at h ⊢
    obtain ⟨cid, es', h1, h2, h3, h4⟩ := h
    exact ⟨cid, es', h1, h2, rep_shape t cid _ h3 hs, repK_shape r pre (l + 1) es' h4 hs⟩
end

theorem idAt_shape {st st' : Tie.N.St V} (hs : SameShape st st') : (u : List Nat) → (i j : Nat) →
    idAt st i u = some j → idAt st' i u = some j
  | [], i, j, h => by simpa [idAt] using h
  | c :: u, i, j, h => by
    simp only [idAt] at h ⊢
    cases hi : st[i]? with
    | none => simp [hi] at h
    | some s =>
      obtain ⟨s', e1, e2, _⟩ := hs.2 i s hi
      rw [hi] at h
      rw [e1]
      simp only [e2] at h ⊢
      cases hg : Rs.EdgeMap.get s.edges c with
      | none => simp [hg] at h
      | some k =>
        simp only [hg] at h ⊢
        exact idAt_shape hs u k j h

/-- The node of `t` under `u`, its id and the representation there. -/
theorem rep_walk {st : Tie.N.St V} {pth : Pth} : (u : List Nat) → (t : Trie V) → (id : Nat) → (pre : List Nat) →
    Rep st pth t id pre →
    match t.walk u, idAt st id u with
    | some n, some i => Rep st pth n i (pre ++ u)
    | none, none => True
    | _, _ => False
  | [], t, id, pre, h => by simpa [Trie.walk, idAt] using h
  | c :: u, .node out kids, id, pre, h => by
    have h' := h
    unfold Rep at h'
    obtain ⟨s, h1, h2, h3, h4⟩ := h'
    have hf := RepK.find c kids pre 0 s.edges h4
    simp only [Trie.walk_cons, idAt, h1]
    cases hk : kids.find? c with
    | none =>
      rw [hk] at hf
      cases hg : Rs.EdgeMap.get s.edges c with
      | none => simp
      | some j => rw [hg] at hf; exact hf.elim
    | some tc =>
      rw [hk] at hf
      cases hg : Rs.EdgeMap.get s.edges c with
      | none => rw [hg] at hf; exact hf.elim
      | some j =>
        rw [hg] at hf
        have := rep_walk u tc j (pre ++ [c]) hf
        simpa using this

theorem rep_pth {st : Tie.N.St V} {pth : Pth} {t : Trie V} {id : Nat} {pre : List Nat}
    (h : Rep st pth t id pre) : pth id = some pre := by
  cases t with
  | node out kids => unfold Rep at h; obtain ⟨s, _, h2, _⟩ := h; exact h2

theorem rep_get {st : Tie.N.St V} {pth : Pth} {t : Trie V} {id : Nat} {pre : List Nat}
    (h : Rep st pth t id pre) : ∃ s, st[id]? = some s ∧ s.output = t.out ∧ RepK st pth t.kids pre 0 s.edges := by
  cases t with
  | node out kids => unfold Rep at h; obtain ⟨s, h1, _, h3, h4⟩ := h; exact ⟨s, h1, h3, h4⟩

section root
variable {st : Tie.N.St V} {pth : Pth} {t : Trie V}

/-- From the root: an id is reached exactly along the paths of `t`. -/
theorem idAt_some_of_walk (hrep : Rep st pth t 0 []) {u : List Nat} {n : Trie V} (hw : t.walk u = some n) :
    ∃ i, idAt st 0 u = some i ∧ Rep st pth n i u := by
  have := rep_walk u t 0 [] hrep
  rw [hw] at this
  cases hi : idAt st 0 u with
  | none => rw [hi] at this; exact this.elim
  | some i => rw [hi] at this; exact ⟨i, rfl, by simpa using this⟩

theorem walk_some_of_idAt (hrep : Rep st pth t 0 []) {u : List Nat} {i : Nat} (hi : idAt st 0 u = some i) :
    ∃ n, t.walk u = some n ∧ Rep st pth n i u := by
  have := rep_walk u t 0 [] hrep
  rw [hi] at this
  cases hw : t.walk u with
  | none => rw [hw] at this; exact this.elim
  | some n => rw [hw] at this; exact ⟨n, rfl, by simpa using this⟩

theorem idAt_pth (hrep : Rep st pth t 0 []) {u : List Nat} {i : Nat} (hi : idAt st 0 u = some i) :
    pth i = some u := by
  obtain ⟨n, _, hr⟩ := walk_some_of_idAt hrep hi
  exact rep_pth hr

theorem idAt_inj (hrep : Rep st pth t 0 []) {u w : List Nat} {i : Nat} (hu : idAt st 0 u = some i)
    (hw : idAt st 0 w = some i) : u = w := by
  have a := idAt_pth hrep hu
  have b := idAt_pth hrep hw
  rw [a] at b; exact Option.some.inj b

theorem idAt_lt (hrep : Rep st pth t 0 []) {u : List Nat} {i : Nat} (hi : idAt st 0 u = some i) :
    i < st.size := by
  obtain ⟨n, _, hr⟩ := walk_some_of_idAt hrep hi
  obtain ⟨s, hs, _⟩ := rep_get hr
  exact lt_of_get hs

theorem idAt_snoc (u : List Nat) (c : Nat) (i : Nat) (s : NfaBuilderState V) (hi : idAt st 0 u = some i)
    (hs : st[i]? = some s) : idAt st 0 (u ++ [c]) = Rs.EdgeMap.get s.edges c := by
  rw [idAt_append, hi]
  simp only [Option.bind_some, idAt, hs]
  cases Rs.EdgeMap.get s.edges c <;> rfl

end root

/-- The id `x` stored in a `fail` field represents the model fail target `f`. -/
def FailRel (st : Tie.N.St V) (f : FailTo) (x : Nat) : Prop :=
  match f with
  | .dead => x = Gen.deadStateId
  | .node w => idAt st 0 w = some x

/-- `Option<NonZeroU32>` vs the model's `Nat` (0 = None). -/
def OposRel (o : Option Nat) (n : Nat) : Prop := o = if n = 0 then none else some n

def OutRel (o : Rs.Output V) (m : Out V) : Prop :=
  o.value = m.value ∧ o.length = m.length ∧ OposRel o.parent m.parent

def OutsRel (a : Array (Rs.Output V)) (b : Array (Out V)) : Prop :=
  a.size = b.size ∧ ∀ (k : Nat) (o : Rs.Output V), a[k]? = some o → ∃ m, b[k]? = some m ∧ OutRel o m

theorem FailRel.shape {st st' : Tie.N.St V} (hs : SameShape st st') {f : FailTo} {x : Nat}
    (h : FailRel st f x) : FailRel st' f x := by
  cases f with
  | dead => exact h
  | node w => exact idAt_shape hs w 0 x h

end Daac.Tie.F

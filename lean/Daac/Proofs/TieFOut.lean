/-
Translation tie, output pass: the generated `NfaBuilder.build_outputs` (Gen/Nfa.lean) refines the
model fold `buildOutAcc` (Model/Nfa.lean).  `FailRel`, `OposRel`, `OutRel`, `OutsRel` are the shared
definitions of Proofs/TieFBase.lean.

Adjusted hypothesis: core Lean / Std have no `List.Forall₂`, so the elementwise relation between the
queue of ids and the queue of paths is the local inductive `IdsOf st ids us`
(`= Forall₂ (fun i u => idAt st 0 u = some i) ids us`); `IdsOf.of_map` derives it from the
definition-free `ids.map some = us.map (idAt st 0)`.
-/
import Daac.Proofs.TieFBase
namespace Daac.Tie.F
open Daac Daac.Gen Daac.Gen.N Daac.Tie.N
variable {V : Type}

/-! ### small facts -/

theorem SameShape.symm {a b : Tie.N.St V} (h : SameShape a b) : SameShape b a := by
  refine ⟨h.1.symm, fun i s' hs' => ?_⟩
  have hlt : i < a.size := h.1 ▸ lt_of_get hs'
  have ha : a[i]? = some a[i] := Array.getElem?_eq_getElem hlt
  obtain ⟨s'', e1, e2, e3⟩ := h.2 i _ ha
  rw [hs'] at e1; cases e1
  exact ⟨_, ha, e2.symm, e3.symm⟩

/-- every `fail` field is kept -/
def FailKeep (st st' : Tie.N.St V) : Prop :=
  ∀ (i : Nat) (s : NfaBuilderState V), st[i]? = some s → ∃ s' : NfaBuilderState V, st'[i]? = some s' ∧ s'.fail = s.fail

theorem FailKeep.refl (st : Tie.N.St V) : FailKeep st st := fun _ s h => ⟨s, h, rfl⟩

theorem FailKeep.trans {a b c : Tie.N.St V} (h1 : FailKeep a b) (h2 : FailKeep b c) : FailKeep a c := by
  intro i s hs
  obtain ⟨s', e1, e2⟩ := h1 i s hs
  obtain ⟨s'', f1, f2⟩ := h2 i s' e1
  exact ⟨s'', f1, by rw [f2, e2]⟩

theorem FailKeep.set (st : Tie.N.St V) (i : Nat) (s x : NfaBuilderState V) (h : st[i]? = some s)
    (hf : x.fail = s.fail) : FailKeep st (st.setIfInBounds i x) := by
  intro j sj hj
  by_cases e : i = j
  · subst e
    rw [h] at hj; cases hj
    exact ⟨x, by simp [lt_of_get h], hf⟩
  · exact ⟨sj, by simp [e, hj], rfl⟩

theorem set_self (st : Tie.N.St V) (i : Nat) (s x : NfaBuilderState V) (h : st[i]? = some s) :
    (st.setIfInBounds i x)[i]? = some x := by
  simp [lt_of_get h]

theorem index_set_self (st : Tie.N.St V) (i : Nat) (s x : NfaBuilderState V) (h : st[i]? = some s) :
    Rs.index (st.setIfInBounds i x) i = .ok x := index_eq _ _ _ (set_self st i s x h)

theorem index_set_keep (st : Tie.N.St V) (i j : Nat) (x s : NfaBuilderState V) (h : st[j]? = some s)
    (hne : j ≠ i) : Rs.index (st.setIfInBounds i x) j = .ok s := index_eq _ _ _ (write_keep st i j x s h hne)

/-- `List.Forall₂ (fun i u => idAt st 0 u = some i) ids us` (core has no `Forall₂`): the ids `ids` are,
elementwise, the state ids of the paths `us`. -/
inductive IdsOf (st : Tie.N.St V) : List Nat → List (List Nat) → Prop
  | nil : IdsOf st [] []
  | cons {i : Nat} {u : List Nat} {ids : List Nat} {us : List (List Nat)} :
      idAt st 0 u = some i → IdsOf st ids us → IdsOf st (i :: ids) (u :: us)

theorem IdsOf.shape {st st' : Tie.N.St V} (hs : SameShape st st') {ids : List Nat} {us : List (List Nat)}
    (h : IdsOf st ids us) : IdsOf st' ids us := by
  induction h with
  | nil => exact .nil
  | cons hi _ ih => exact .cons (idAt_shape hs _ 0 _ hi) ih

/-- A definition-free way to state `IdsOf`. -/
theorem IdsOf.of_map (st : Tie.N.St V) : (ids : List Nat) → (us : List (List Nat)) →
    ids.map some = us.map (idAt st 0) → IdsOf st ids us
  | [], [], _ => .nil
  | [], _ :: _, h => by simp at h
  | _ :: _, [], h => by simp at h
  | i :: ids, u :: us, h => by
    simp only [List.map_cons, List.cons.injEq] at h
    exact .cons h.1.symm (IdsOf.of_map st ids us h.2)

theorem IdsOf.length_eq {st : Tie.N.St V} {ids : List Nat} {us : List (List Nat)} (h : IdsOf st ids us) :
    ids.length = us.length := by
  induction h with
  | nil => rfl
  | cons _ _ ih => simp [ih]

theorem OposRel.zero : OposRel none 0 := by simp [OposRel]

theorem OposRel.succ (n : Nat) : OposRel (Rs.nonZeroU32New (n + 1)) (n + 1) := by
  simp [OposRel, Rs.nonZeroU32New]

theorem OutsRel.empty : OutsRel (#[] : Array (Rs.Output V)) (#[] : Array (Out V)) :=
  ⟨rfl, fun k o h => by simp at h⟩

theorem OutsRel.push {a : Array (Rs.Output V)} {b : Array (Out V)} (h : OutsRel a b)
    {o : Rs.Output V} {m : Out V} (hom : OutRel o m) : OutsRel (a.push o) (b.push m) := by
  refine ⟨by simp [h.1], fun k o' hk => ?_⟩
  rw [Array.getElem?_push] at hk ⊢
  rw [← h.1]
  by_cases e : k = a.size
  · rw [if_pos e] at hk ⊢
    cases hk
    exact ⟨m, rfl, hom⟩
  · rw [if_neg e] at hk ⊢
    exact h.2 k o' hk

/-! ### the invariant of the loop -/

/-- Invariant of the loop of `build_outputs`: builder `g` against the model accumulator `a`. -/
structure InvO (pth : Pth) (t : Trie V) (fm : FailMap) (g : NfaBuilder V) (a : OutAcc V) : Prop where
  rep : Rep g.states pth t 0 []
  fail : ∀ u i, idAt g.states 0 u = some i →
    ∃ s, g.states[i]? = some s ∧ FailRel g.states (fm.get u) s.fail
  dead : ∃ sd, g.states[Gen.deadStateId]? = some sd ∧ sd.output_pos = none
  pdead : pth Gen.deadStateId = none
  pos : ∀ u i, idAt g.states 0 u = some i →
    ∃ s, g.states[i]? = some s ∧ OposRel s.output_pos (a.opos.getD u 0)
  outs : OutsRel g.outputs a.outs

section inv
variable {pth : Pth} {t : Trie V} {fm : FailMap} {g : NfaBuilder V} {a : OutAcc V}

/-- The state behind the fail link of node `u` (id `i`): it is not `i`, and its `output_pos` is the
model's `oposOf`. -/
theorem InvO.fail_target (h : InvO pth t fm g a) {u : List Nat} {i : Nat} {s : NfaBuilderState V}
    (hi : idAt g.states 0 u = some i) (hs : g.states[i]? = some s) (hself : fm.get u ≠ .node u) :
    s.fail ≠ i ∧ ∃ sf, g.states[s.fail]? = some sf ∧ OposRel sf.output_pos (a.oposOf (fm.get u)) := by
  obtain ⟨s0, hs0, hf⟩ := h.fail u i hi
  rw [hs] at hs0; cases hs0
  have hp := idAt_pth h.rep hi
  cases hfm : fm.get u with
  | dead =>
    rw [hfm] at hf
    have hf' : s.fail = Gen.deadStateId := hf
    obtain ⟨sd, hd1, hd2⟩ := h.dead
    refine ⟨fun e => ?_, sd, by rw [hf']; exact hd1, ?_⟩
    · have := h.pdead
      rw [← hf', e, hp] at this; cases this
    · rw [hd2]; exact OposRel.zero
  | node w =>
    rw [hfm] at hf hself
    have hf' : idAt g.states 0 w = some s.fail := hf
    refine ⟨fun e => ?_, ?_⟩
    · rw [e] at hf'
      exact hself (by rw [idAt_inj h.rep hf' hi])
    · obtain ⟨sf, e1, e2⟩ := h.pos w s.fail hf'
      exact ⟨sf, e1, e2⟩

/-- Writing `output_pos` of the state of node `u` (and possibly extending the outputs). -/
theorem InvO.write (h : InvO pth t fm g a) {u : List Nat} {i : Nat} {s : NfaBuilderState V}
    (hi : idAt g.states 0 u = some i) (hs : g.states[i]? = some s) (p : Option Nat) (n : Nat)
    (hp : OposRel p n) (g1 : NfaBuilder V) (mouts : Array (Out V))
    (hst : g1.states = g.states.setIfInBounds i { s with output_pos := p })
    (ho : OutsRel g1.outputs mouts) :
    InvO pth t fm g1 ⟨a.opos.insert u n, mouts⟩ := by
  have hsh : SameShape g.states g1.states := by
    rw [hst]; exact SameShape.set g.states i s _ hs rfl rfl
  have hnew : g1.states[i]? = some { s with output_pos := p } := by
    rw [hst]; exact set_self g.states i s _ hs
  have hkeep : ∀ j sj, g.states[j]? = some sj → j ≠ i → g1.states[j]? = some sj := by
    intro j sj hj hne; rw [hst]; exact write_keep g.states i j _ sj hj hne
  have hpi := idAt_pth h.rep hi
  refine ⟨rep_shape t 0 [] h.rep hsh, ?_, ?_, h.pdead, ?_, ho⟩
  · intro u' i' hi'
    have hi0 := idAt_shape hsh.symm u' 0 i' hi'
    obtain ⟨s0, e1, e2⟩ := h.fail u' i' hi0
    by_cases e : i' = i
    · subst e
      rw [hs] at e1; cases e1
      exact ⟨_, hnew, FailRel.shape hsh e2⟩
    · exact ⟨s0, hkeep i' s0 e1 e, FailRel.shape hsh e2⟩
  · obtain ⟨sd, d1, d2⟩ := h.dead
    refine ⟨sd, hkeep _ sd d1 (fun e => ?_), d2⟩
    have := h.pdead
    rw [e, hpi] at this; cases this
  · intro u' i' hi'
    have hi0 := idAt_shape hsh.symm u' 0 i' hi'
    obtain ⟨s0, e1, e2⟩ := h.pos u' i' hi0
    show ∃ s, g1.states[i']? = some s ∧ OposRel s.output_pos ((a.opos.insert u n).getD u' 0)
    rw [opos_getD_insert]
    by_cases e : i' = i
    · subst e
      have : u = u' := idAt_inj h.rep hi hi0
      rw [if_pos this]
      exact ⟨_, hnew, hp⟩
    · have : ¬ u = u' := fun e' => by
        subst e'; rw [hi] at hi0; cases hi0; exact e rfl
      rw [if_neg this]
      exact ⟨s0, hkeep i' s0 e1 e, e2⟩

/-- One iteration of the loop. -/
theorem InvO.step (h : InvO pth t fm g a) {u : List Nat} {i : Nat}
    (hi : idAt g.states 0 u = some i) (hself : fm.get u ≠ .node u)
    (hb : g.outputs.size + 1 ≤ 4294967295) :
    ∃ g1, (∀ rest, NfaBuilder.build_outputs.loop0 (i :: rest) g = NfaBuilder.build_outputs.loop0 rest g1) ∧
      InvO pth t fm g1 (outStep t fm a u) ∧ SameShape g.states g1.states ∧
      FailKeep g.states g1.states ∧ g1.outputs.size ≤ g.outputs.size + 1 := by
  obtain ⟨n, hw, hr⟩ := walk_some_of_idAt h.rep hi
  obtain ⟨s, hs, hso, _⟩ := rep_get hr
  obtain ⟨hne, sf, hsf, hsfo⟩ := h.fail_target hi hs hself
  cases ho : n.out with
  | none =>
    have hm : (t.walk u).bind Trie.out = none := by simp [hw, ho]
    have hso' : s.output = none := by rw [hso, ho]
    refine ⟨{ g with states := g.states.setIfInBounds i { s with output_pos := sf.output_pos } }, ?_, ?_,
      SameShape.set g.states i s _ hs rfl rfl, FailKeep.set g.states i s _ hs rfl, Nat.le_succ _⟩
    · intro rest
      simp [NfaBuilder.build_outputs.loop0, index_eq _ _ _ hs, index_eq _ _ _ hsf, hso']
    · rw [outStep_none hm]
      exact h.write hi hs _ _ hsfo _ _ rfl h.outs
  | some vl =>
    obtain ⟨v, len⟩ := vl
    have hm : (t.walk u).bind Trie.out = some (v, len) := by simp [hw, ho]
    have hso' : s.output = some (v, len) := by rw [hso, ho]
    have htry : Rs.u32TryFrom (g.outputs.size + 1) = some (g.outputs.size + 1) := by
      have : g.outputs.size + 1 ≤ Rs.u32Max := hb
      simp [Rs.u32TryFrom, this]
    refine ⟨{ g with
        states := g.states.setIfInBounds i { s with output_pos := Rs.nonZeroU32New (g.outputs.size + 1) },
        outputs := g.outputs.push ({ value := v, length := len, parent := sf.output_pos } : Rs.Output V) },
      ?_, ?_, SameShape.set g.states i s _ hs rfl rfl, FailKeep.set g.states i s _ hs rfl, by simp⟩
    · intro rest
      rw [NfaBuilder.build_outputs.loop0]
      simp only [index_eq _ _ _ hs, hso', htry, index_set_self _ _ _ _ hs,
        index_set_keep _ _ _ _ _ hsf hne]
    · rw [outStep_some hm]
      have hsz : a.outs.size = g.outputs.size := h.outs.1.symm
      rw [hsz]
      refine h.write hi hs _ _ (OposRel.succ _) _ _ rfl ?_
      exact OutsRel.push h.outs ⟨rfl, rfl, hsfo⟩

/-- GOAL 1: the loop of `build_outputs` refines the model fold. -/
theorem loop0_refines (pth : Pth) (t : Trie V) (fm : FailMap) :
    ∀ (ids : List Nat) (us : List (List Nat)) (g : NfaBuilder V) (a : OutAcc V),
    IdsOf g.states ids us →
    InvO pth t fm g a →
    (∀ u ∈ us, fm.get u ≠ .node u) →
    g.outputs.size + ids.length ≤ 4294967295 →
    ∃ g', NfaBuilder.build_outputs.loop0 ids g = .ok g' ∧ InvO pth t fm g' (us.foldl (outStep t fm) a) ∧
      SameShape g.states g'.states ∧
      (∀ (i : Nat) (s : NfaBuilderState V), g.states[i]? = some s →
        ∃ s' : NfaBuilderState V, g'.states[i]? = some s' ∧ s'.fail = s.fail)
  | [], us, g, a, hq, h, _, _ => by
    cases hq
    exact ⟨g, by simp [NfaBuilder.build_outputs.loop0], h, SameShape.refl _, FailKeep.refl _⟩
  | i :: ids, us, g, a, hq, h, hself, hb => by
    cases hq with
    | cons hi hrest =>
      rename_i u us
      simp only [List.length_cons] at hb
      obtain ⟨g1, e1, h1, hsh1, hk1, hsz1⟩ :=
        h.step hi (hself u (by simp)) (by omega)
      have hrest' : IdsOf g1.states ids us := hrest.shape hsh1
      obtain ⟨g', e2, h2, hsh2, hk2⟩ := loop0_refines pth t fm ids us g1 (outStep t fm a u) hrest' h1
        (fun w hw => hself w (by simp [hw])) (by omega)
      exact ⟨g', by rw [e1, e2], by simpa using h2, hsh1.trans hsh2, FailKeep.trans hk1 hk2⟩

end inv

/-- GOAL 2: `NfaBuilder::build_outputs` refines `buildOutAcc`. -/
theorem outputs_refines (g : NfaBuilder V) (pth : Pth) (t : Trie V) (fm : FailMap) (q : Array Nat)
    (hrep : Rep g.states pth t 0 [])
    (hq : IdsOf g.states q.toList t.queue)
    (hne : t.queue ≠ [])
    (hfail : ∀ u i, idAt g.states 0 u = some i → ∃ s, g.states[i]? = some s ∧ FailRel g.states (fm.get u) s.fail)
    (hself : ∀ u ∈ t.queue, fm.get u ≠ .node u)
    (hdead : ∃ sd, g.states[Gen.deadStateId]? = some sd ∧ sd.output_pos = none) (hpd : pth Gen.deadStateId = none)
    (hpos0 : ∀ (i : Nat) (s : NfaBuilderState V), g.states[i]? = some s → s.output_pos = none)
    (hout0 : g.outputs = #[])
    (hlen : q.size < 4294967295) :
    ∃ g', NfaBuilder.build_outputs g q = .ok ((), g') ∧ SameShape g.states g'.states ∧
      (∀ (i : Nat) (s : NfaBuilderState V), g.states[i]? = some s →
        ∃ s' : NfaBuilderState V, g'.states[i]? = some s' ∧ s'.fail = s.fail) ∧
      (∀ u i, idAt g.states 0 u = some i → ∃ s, g'.states[i]? = some s ∧
          OposRel s.output_pos ((buildOutAcc t fm).opos.getD u 0)) ∧
      OutsRel g'.outputs (buildOutAcc t fm).outs := by
  -- the invariant holds initially
  have hinv : InvO pth t fm g ⟨{}, #[]⟩ := by
    refine ⟨hrep, hfail, hdead, hpd, ?_, by rw [hout0]; exact OutsRel.empty⟩
    intro u i hi
    obtain ⟨s, hs, _⟩ := hfail u i hi
    refine ⟨s, hs, ?_⟩
    rw [hpos0 i s hs]
    show OposRel none ((({} : Std.HashMap (List Nat) Nat)).getD u 0)
    rw [Std.HashMap.getD_empty]; exact OposRel.zero
  obtain ⟨g', e, h', hsh, hk⟩ := loop0_refines pth t fm q.toList t.queue g ⟨{}, #[]⟩ hq hinv hself
    (by rw [hout0]; simp; omega)
  -- the debug assertion
  have hq0 : ∃ i0, q[0]? = some i0 ∧ i0 ≠ Gen.rootStateId := by
    cases hqq : t.queue with
    | nil => exact absurd hqq hne
    | cons u0 us =>
      have hq' := hq
      rw [hqq] at hq'
      cases hql : q.toList with
      | nil => rw [hql] at hq'; cases hq'
      | cons i0 ids =>
        rw [hql] at hq'
        cases hq' with
        | cons hi0 _ =>
          refine ⟨i0, ?_, fun e0 => ?_⟩
          · have : q.toList[0]? = some i0 := by rw [hql]; rfl
            simpa using this
          · have hmem : u0 ∈ t.queue := by rw [hqq]; simp
            have hu0 := ((Trie.mem_queue t u0).mp hmem).2
            have hroot : idAt g.states 0 [] = some i0 := by rw [e0]; rfl
            exact hu0 (idAt_inj hrep hi0 hroot)
  obtain ⟨i0, hi0, hi0ne⟩ := hq0
  refine ⟨g', ?_, hsh, hk, ?_, h'.outs⟩
  · simp [NfaBuilder.build_outputs, index_eq _ _ _ hi0, hi0ne, e]
  · intro u i hi
    exact h'.pos u i (idAt_shape hsh u 0 i hi)

end Daac.Tie.F

/-
Character-wise analogue of the byte-wise corollaries of `Daac/Proofs/StdIter.lean`:
for patterns and haystacks that are valid UTF-8 (given as lists of scalar values), the
item-level (code-point level) specifications `specOvItems`, `specNoSufItems`, `specFindItems`,
`specLLItems` over the decoded items coincide with the byte-level specifications of
`Daac/Spec.lean` over the encoded bytes.
Pure list / UTF-8 reasoning; nothing here knows about automata. Core Lean only.
Helper lemmas live in the namespace `Daac.CharSpec`.
-/
import Daac.Spec
import Daac.Proofs.StdIface
import Daac.Proofs.LmIface
import Daac.Proofs.Utf8
namespace Daac
variable {V : Type}

/-- A pattern given as (code points, value): its byte-level form. -/
def bytePat (q : List Nat × V) : Pat V := ⟨encAll q.1, q.2⟩

/-- A pattern given as (code points, value): its label-level form for the char-wise automaton. -/
def charPat (q : List Nat × V) : LPat V := ⟨q.1, (encAll q.1).length, q.2⟩

/-- All code points of `x` are Unicode scalar values. -/
def Scalars (x : List Nat) : Prop := ∀ c ∈ x, isScalar c = true

/-- Every pattern is a non-empty list of scalar values. -/
def ScalarPats (Q : List (List Nat × V)) : Prop := ∀ q ∈ Q, q.1 ≠ [] ∧ Scalars q.1

/-- The items of the char-wise standard iterators for the text `t` starting at byte offset `p`. -/
def charItemsFrom (t : List Nat) (p : Nat) : List Item :=
  (itemsOf t p).map (fun w => ⟨w.label, w.stop⟩)

def charItems (t : List Nat) : List Item := charItemsFrom t 0

theorem Scalars.tail {c : Nat} {x : List Nat} (h : Scalars (c :: x)) : Scalars x :=
  fun d hd => h d (List.mem_cons_of_mem _ hd)

theorem Scalars.head {c : Nat} {x : List Nat} (h : Scalars (c :: x)) : isScalar c = true :=
  h c List.mem_cons_self

theorem Scalars.append {x y : List Nat} (hx : Scalars x) (hy : Scalars y) : Scalars (x ++ y) := by
  intro c hc
  rcases List.mem_append.1 hc with h | h
  · exact hx c h
  · exact hy c h

theorem Scalars.concat {x : List Nat} {c : Nat} (hx : Scalars x) (hc : isScalar c = true) :
    Scalars (x ++ [c]) :=
  hx.append (by intro d hd; simp at hd; subst hd; exact hc)

theorem Scalars.of_prefix {k x : List Nat} (hx : Scalars x) (h : k <+: x) : Scalars k :=
  fun c hc => hx c (h.subset hc)

theorem Scalars.nil : Scalars [] := by intro c hc; simp at hc

namespace CharSpec

/-! ### 1. Decoding the patterns -/

theorem charItemsFrom_cons (c : Nat) (t : List Nat) (p : Nat) :
    charItemsFrom (c :: t) p = ⟨c, p + utf8Width c⟩ :: charItemsFrom t (p + utf8Width c) := by
  simp [charItemsFrom]

theorem charItemsFrom_nil (p : Nat) : charItemsFrom [] p = [] := rfl

end CharSpec
open CharSpec

/-- The char-wise standard iterators see exactly the items `charItems t` on `encAll t`. -/
theorem itemsOfHay_charwise (t : List Nat) (ht : Scalars t) :
    itemsOfHay .charwise (encAll t) = .ok (charItems t) := by
  unfold itemsOfHay
  rw [allItems_encAll t ht 0 _ (Nat.le_refl _)]
  rfl

theorem labelsOf_encAll (k : List Nat) (hk : Scalars k) :
    labelsOf .charwise (encAll k) = .ok k := by
  unfold labelsOf
  rw [allItems_encAll k hk 0 _ (Nat.le_refl _)]
  simp only [itemsOf_labels]

/-- The model's decoding of the byte-level pattern is the label-level pattern. -/
theorem lpatOf_bytePat (q : List Nat × V) (hq : Scalars q.1) :
    lpatOf .charwise (bytePat q) = .ok (charPat q) := by
  unfold lpatOf
  simp only [bytePat, labelsOf_encAll q.1 hq]
  rfl

theorem lpatsOf_bytePat (Q : List (List Nat × V)) (hQ : ∀ q ∈ Q, Scalars q.1) :
    lpatsOf .charwise (Q.map bytePat) = .ok (Q.map charPat) := by
  induction Q with
  | nil => rfl
  | cons q Q ih =>
    have h1 := lpatOf_bytePat q (hQ q List.mem_cons_self)
    have h2 := ih (fun r hr => hQ r (List.mem_cons_of_mem _ hr))
    simp only [List.map_cons, lpatsOf, h1, h2]

namespace CharSpec

/-! ### 2. Suffix correspondence -/

/-- The encoder is injective on scalar lists. -/
theorem encAll_inj {a b : List Nat} (ha : Scalars a) (hb : Scalars b) (h : encAll a = encAll b) :
    a = b := by
  have h1 := encAll_prefix a b ha hb (h ▸ List.prefix_refl _)
  have h2 := encAll_prefix b a hb ha (h ▸ List.prefix_refl _)
  exact List.IsPrefix.eq_of_length_le h1 h2.length_le

theorem encAll_eq_nil {a : List Nat} (h : encAll a = []) : a = [] := by
  cases a with
  | nil => rfl
  | cons c a =>
    rw [encAll_cons] at h
    exact absurd (List.append_eq_nil_iff.1 h).1 (encScalar_ne_nil c)

theorem encAll_length_pos {a : List Nat} (h : a ≠ []) : 0 < (encAll a).length := by
  rcases Nat.eq_zero_or_pos (encAll a).length with h0 | h0
  · exact absurd (encAll_eq_nil (List.eq_nil_of_length_eq_zero h0)) h
  · exact h0

/-- Suffix variant of self-synchronisation. -/
theorem encAll_suffix_iff {k x : List Nat} (hk : Scalars k) (hx : Scalars x) (hne : k ≠ []) :
    encAll k <:+ encAll x ↔ k <:+ x := by
  constructor
  · intro h
    obtain ⟨z, hz⟩ := h
    have hd : (encAll x).drop z.length = encAll k := by
      rw [← hz]; simp
    obtain ⟨t1, t2, e, hl, hp⟩ := self_sync k x hk hx hne z.length (by rw [hd]; exact List.prefix_refl _)
    have hd2 : (encAll x).drop z.length = encAll t2 := by
      rw [e, encAll_append, ← hl]; simp
    have ht2 : Scalars t2 := fun c hc => hx c (by rw [e]; simp [hc])
    have : k = t2 := encAll_inj hk ht2 (by rw [← hd, hd2])
    subst this
    exact ⟨t1, e.symm⟩
  · rintro ⟨z, rfl⟩
    rw [encAll_append]
    exact List.suffix_append _ _

/-- The patterns (as code-point lists) that are suffixes of `x`, longest first. -/
def sufQ (Q : List (List Nat × V)) (x : List Nat) : List (List Nat × V) :=
  (sufs x).flatMap (fun s => if s = [] then [] else Q.filter (fun q => q.1 = s))

theorem sufQ_nil (Q : List (List Nat × V)) : sufQ Q [] = [] := by
  simp [sufQ, sufs]

theorem sufQ_cons (Q : List (List Nat × V)) (a : Nat) (l : List Nat) :
    sufQ Q (a :: l) = Q.filter (fun q => q.1 = a :: l) ++ sufQ Q l := by
  simp [sufQ, sufs]

theorem sufPats_nil (P : List (Pat V)) : sufPats P [] = [] := by
  simp [sufPats, sufs]

theorem sufPats_cons (P : List (Pat V)) (a : Nat) (l : List Nat) :
    sufPats P (a :: l) = patsWithKey P (a :: l) ++ sufPats P l := by
  simp [sufPats, sufs]

theorem sufLPats_nil (P : List (LPat V)) : sufLPats P [] = [] := by
  simp [sufLPats, sufs]

theorem sufLPats_cons' (P : List (LPat V)) (a : Nat) (l : List Nat) :
    sufLPats P (a :: l) = P.filter (fun p => p.key = a :: l) ++ sufLPats P l := by
  simp [sufLPats, sufs]

/-- No pattern key starts with a continuation byte. -/
theorem patsWithKey_cont {Q : List (List Nat × V)} (hQ : ScalarPats Q) {a : Nat} (ha : isCont a)
    (l : List Nat) : patsWithKey (Q.map bytePat) (a :: l) = [] := by
  unfold patsWithKey
  rw [List.filter_eq_nil_iff]
  intro p hp hk
  obtain ⟨q, hq, rfl⟩ := List.mem_map.1 hp
  have hk' : encAll q.1 = a :: l := of_decide_eq_true hk
  obtain ⟨hne, -⟩ := hQ q hq
  cases hq1 : q.1 with
  | nil => exact hne hq1
  | cons d k =>
    rw [hq1, encAll_cons] at hk'
    obtain ⟨b, r, eb, hb⟩ := encScalar_head d
    rw [eb] at hk'
    simp only [List.cons_append, List.cons.injEq] at hk'
    exact hb (hk'.1 ▸ ha)

theorem sufPats_skip {Q : List (List Nat × V)} (hQ : ScalarPats Q) (r l : List Nat)
    (hr : ∀ b ∈ r, isCont b) : sufPats (Q.map bytePat) (r ++ l) = sufPats (Q.map bytePat) l := by
  induction r with
  | nil => rfl
  | cons b r ih =>
    rw [List.cons_append, sufPats_cons, patsWithKey_cont hQ (hr b List.mem_cons_self),
      List.nil_append]
    exact ih (fun x hx => hr x (List.mem_cons_of_mem _ hx))

theorem sufPats_encScalar {Q : List (List Nat × V)} (hQ : ScalarPats Q) (c : Nat) (l : List Nat) :
    sufPats (Q.map bytePat) (encScalar c ++ l) =
      patsWithKey (Q.map bytePat) (encScalar c ++ l) ++ sufPats (Q.map bytePat) l := by
  obtain ⟨b, r, eb, -⟩ := encScalar_head c
  have ht := encScalar_tail c
  rw [eb] at ht ⊢
  rw [List.cons_append, sufPats_cons, sufPats_skip hQ r l ht]

theorem patsWithKey_enc {Q : List (List Nat × V)} (hQ : ScalarPats Q) {x : List Nat}
    (hx : Scalars x) :
    patsWithKey (Q.map bytePat) (encAll x) = (Q.filter (fun q => q.1 = x)).map bytePat := by
  unfold patsWithKey
  rw [List.filter_map]
  congr 1
  apply List.filter_congr
  intro q hq
  show decide ((bytePat q).key = encAll x) = decide (q.1 = x)
  apply decide_eq_decide.2
  show encAll q.1 = encAll x ↔ q.1 = x
  constructor
  · exact encAll_inj (hQ q hq).2 hx
  · intro h; rw [h]

/-- Byte-level suffix patterns of an encoded text = the code-point-level suffix patterns. -/
theorem sufPats_chars {Q : List (List Nat × V)} (hQ : ScalarPats Q) {x : List Nat}
    (hx : Scalars x) : sufPats (Q.map bytePat) (encAll x) = (sufQ Q x).map bytePat := by
  induction x with
  | nil => simp [sufPats_nil, sufQ_nil]
  | cons c x ih =>
    rw [encAll_cons, sufPats_encScalar hQ, ← encAll_cons, patsWithKey_enc hQ hx, ih hx.tail,
      sufQ_cons, List.map_append]

theorem sufLPats_chars (Q : List (List Nat × V)) (x : List Nat) :
    sufLPats (Q.map charPat) x = (sufQ Q x).map charPat := by
  induction x with
  | nil => simp [sufLPats_nil, sufQ_nil]
  | cons c x ih =>
    rw [sufLPats_cons', ih, sufQ_cons, List.map_append, List.filter_map]
    rfl

theorem matchAt_bytePat (q : List Nat × V) (e : Nat) :
    matchAt (bytePat q) e = lmatchAt (charPat q) e := rfl

end CharSpec
open CharSpec

/-- The matches ending at a character boundary agree at byte level and at code-point level. -/
theorem sufPats_matches_chars {Q : List (List Nat × V)} (hQ : ScalarPats Q) {x : List Nat}
    (hx : Scalars x) (e : Nat) :
    (sufPats (Q.map bytePat) (encAll x)).map (fun p => matchAt p e) =
      (sufLPats (Q.map charPat) x).map (fun p => lmatchAt p e) := by
  rw [sufPats_chars hQ hx, sufLPats_chars]
  simp only [List.map_map]
  rfl

namespace CharSpec

/-! ### 3. End positions strictly inside a character -/

theorem encAll_concat (pre : List Nat) (c : Nat) : encAll (pre ++ [c]) = encAll pre ++ encScalar c := by
  simp

/-- A byte string ending strictly inside a character is not a pattern key. -/
theorem patsWithKey_mid {Q : List (List Nat × V)} (hQ : ScalarPats Q) {pre : List Nat}
    (hpre : Scalars pre) {c : Nat} (hc : isScalar c = true) {a' a'' : List Nat} (ha' : a' ≠ [])
    (ha'' : a'' ≠ []) (e : encScalar c = a' ++ a'') :
    patsWithKey (Q.map bytePat) (encAll pre ++ a') = [] := by
  unfold patsWithKey
  rw [List.filter_eq_nil_iff]
  intro p hp hk
  obtain ⟨q, hq, rfl⟩ := List.mem_map.1 hp
  have hk' : encAll q.1 = encAll pre ++ a' := of_decide_eq_true hk
  have hl' : 0 < a'.length := List.length_pos_iff.2 ha'
  have hl'' : 0 < a''.length := List.length_pos_iff.2 ha''
  have hpc : encAll q.1 <+: encAll (pre ++ [c]) := by
    rw [encAll_concat, e, ← List.append_assoc, ← hk']
    exact List.prefix_append _ _
  have hp := encAll_prefix q.1 (pre ++ [c]) (hQ q hq).2 (hpre.concat hc) hpc
  rcases List.prefix_concat_iff.1 hp with h | h
  · have := congrArg (fun l => (encAll l).length) h
    simp only [encAll_concat, hk', e, List.length_append] at this
    omega
  · obtain ⟨z, hz⟩ := h
    have := congrArg (fun l => (encAll l).length) hz
    simp only [encAll_append, hk', List.length_append] at this
    omega

/-- No pattern ends strictly inside a character. -/
theorem sufPats_mid {Q : List (List Nat × V)} (hQ : ScalarPats Q) {pre : List Nat}
    (hpre : Scalars pre) {c : Nat} (hc : isScalar c = true) {a' a'' : List Nat} (ha' : a' ≠ [])
    (ha'' : a'' ≠ []) (e : encScalar c = a' ++ a'') :
    sufPats (Q.map bytePat) (encAll pre ++ a') = [] := by
  induction pre with
  | nil =>
    have hk := patsWithKey_mid hQ Scalars.nil hc ha' ha'' e
    rw [encAll_nil, List.nil_append] at hk ⊢
    cases a' with
    | nil => exact absurd rfl ha'
    | cons b r =>
      have hr : ∀ x ∈ r, isCont x := by
        intro x hx
        apply encScalar_tail c
        rw [e]
        simp [hx]
      have := sufPats_skip hQ r [] hr
      rw [List.append_nil] at this
      rw [sufPats_cons, hk, this, sufPats_nil]
      rfl
  | cons d pre ih =>
    rw [encAll_cons, List.append_assoc, sufPats_encScalar hQ, ← List.append_assoc, ← encAll_cons,
      patsWithKey_mid hQ hpre hc ha' ha'' e, ih hpre.tail]
    rfl

/-! ### 4. The byte-level specifications over a window without inner end positions -/

/-- No pattern ends after a non-empty proper prefix of the window `w` following `pre`. -/
def NoInner (P : List (Pat V)) (pre w : List Nat) : Prop :=
  ∀ a' a'', a' ≠ [] → a'' ≠ [] → w = a' ++ a'' → sufPats P (pre ++ a') = []

theorem NoInner.step {P : List (Pat V)} {pre : List Nat} {b b' : Nat} {w : List Nat}
    (h : NoInner P pre (b :: b' :: w)) :
    sufPats P (pre ++ [b]) = [] ∧ NoInner P (pre ++ [b]) (b' :: w) := by
  refine ⟨h [b] (b' :: w) (by simp) (by simp) rfl, ?_⟩
  intro a' a'' h1 h2 e
  have := h (b :: a') a'' (by simp) h2 (by simp [e])
  simpa using this

theorem noInner_enc {Q : List (List Nat × V)} (hQ : ScalarPats Q) {pre : List Nat}
    (hpre : Scalars pre) {c : Nat} (hc : isScalar c = true) :
    NoInner (Q.map bytePat) (encAll pre) (encScalar c) :=
  fun _ _ h1 h2 e => sufPats_mid hQ hpre hc h1 h2 e

theorem specOv_window (P : List (Pat V)) (w : List Nat) : ∀ (pre rest : List Nat), w ≠ [] →
    NoInner P pre w →
    specOverlappingFrom P pre (w ++ rest) =
      (sufPats P (pre ++ w)).map (fun p => matchAt p (pre.length + w.length)) ++
        specOverlappingFrom P (pre ++ w) rest := by
  induction w with
  | nil => intro _ _ h; exact absurd rfl h
  | cons b w ih =>
    intro pre rest _ hN
    cases w with
    | nil => simp [specOverlappingFrom]
    | cons b' w =>
      obtain ⟨h0, hN'⟩ := hN.step
      have := ih (pre ++ [b]) rest (by simp) hN'
      rw [List.cons_append, specOverlappingFrom, h0, this]
      simp [Nat.add_assoc, Nat.add_comm 1]

theorem specNoSuf_window (P : List (Pat V)) (w : List Nat) : ∀ (pre rest : List Nat), w ≠ [] →
    NoInner P pre w →
    specNoSuffixFrom P pre (w ++ rest) =
      ((sufPats P (pre ++ w)).head?.map (fun p => matchAt p (pre.length + w.length))).toList ++
        specNoSuffixFrom P (pre ++ w) rest := by
  induction w with
  | nil => intro _ _ h; exact absurd rfl h
  | cons b w ih =>
    intro pre rest _ hN
    cases w with
    | nil => simp [specNoSuffixFrom]
    | cons b' w =>
      obtain ⟨h0, hN'⟩ := hN.step
      have := ih (pre ++ [b]) rest (by simp) hN'
      rw [List.cons_append, specNoSuffixFrom, h0, this]
      simp [Nat.add_assoc, Nat.add_comm 1]

theorem specFind_window (P : List (Pat V)) (w : List Nat) : ∀ (pos : Nat) (seen rest : List Nat),
    w ≠ [] → NoInner P seen w →
    specFindFrom P pos seen (w ++ rest) =
      match (sufPats P (seen ++ w)).head? with
      | some p => matchAt p (pos + seen.length + w.length) ::
          specFindFrom P (pos + seen.length + w.length) [] rest
      | none => specFindFrom P pos (seen ++ w) rest := by
  induction w with
  | nil => intro _ _ _ h; exact absurd rfl h
  | cons b w ih =>
    intro pos seen rest _ hN
    cases w with
    | nil => cases hh : (sufPats P (seen ++ [b])).head? <;> simp [specFindFrom, hh]
    | cons b' w =>
      obtain ⟨h0, hN'⟩ := hN.step
      have := ih pos (seen ++ [b]) rest (by simp) hN'
      rw [List.cons_append, specFindFrom, h0]
      simp only [List.head?_nil]
      rw [this]
      simp [Nat.add_assoc, Nat.add_comm 1]

/-! ### 5. Item-level = byte-level, generalised over the consumed prefix -/

theorem specOvItems_chars_from {Q : List (List Nat × V)} (hQ : ScalarPats Q) (t : List Nat) :
    ∀ pre, Scalars pre → Scalars t →
      specOvItems (Q.map charPat) pre (charItemsFrom t (encAll pre).length) =
        specOverlappingFrom (Q.map bytePat) (encAll pre) (encAll t) := by
  induction t with
  | nil => intro _ _ _; simp [charItemsFrom_nil, specOvItems, specOverlappingFrom]
  | cons c t ih =>
    intro pre hpre ht
    have hc := ht.head
    have hpc := hpre.concat hc
    have := ih (pre ++ [c]) hpc ht.tail
    rw [encAll_concat, List.length_append, encScalar_length] at this
    rw [charItemsFrom_cons, encAll_cons,
      specOv_window _ _ _ _ (encScalar_ne_nil c) (noInner_enc hQ hpre hc), specOvItems, this,
      ← encAll_concat, sufPats_matches_chars hQ hpc, encScalar_length]

theorem specNoSufItems_chars_from {Q : List (List Nat × V)} (hQ : ScalarPats Q) (t : List Nat) :
    ∀ pre, Scalars pre → Scalars t →
      specNoSufItems (Q.map charPat) pre (charItemsFrom t (encAll pre).length) =
        specNoSuffixFrom (Q.map bytePat) (encAll pre) (encAll t) := by
  induction t with
  | nil => intro _ _ _; simp [charItemsFrom_nil, specNoSufItems, specNoSuffixFrom]
  | cons c t ih =>
    intro pre hpre ht
    have hc := ht.head
    have hpc := hpre.concat hc
    have := ih (pre ++ [c]) hpc ht.tail
    rw [encAll_concat, List.length_append, encScalar_length] at this
    rw [charItemsFrom_cons, encAll_cons,
      specNoSuf_window _ _ _ _ (encScalar_ne_nil c) (noInner_enc hQ hpre hc), specNoSufItems, this,
      ← encAll_concat, sufPats_chars hQ hpc, sufLPats_chars, encScalar_length]
    simp only [List.head?_map, Option.map_map]
    rfl

theorem specFindItems_chars_from {Q : List (List Nat × V)} (hQ : ScalarPats Q) (t : List Nat) :
    ∀ pos seen, Scalars seen → Scalars t →
      specFindItems (Q.map charPat) seen (charItemsFrom t (pos + (encAll seen).length)) =
        specFindFrom (Q.map bytePat) pos (encAll seen) (encAll t) := by
  induction t with
  | nil => intro _ _ _ _; simp [charItemsFrom_nil, specFindItems, specFindFrom]
  | cons c t ih =>
    intro pos seen hseen ht
    have hc := ht.head
    have hpc := hseen.concat hc
    have h1 := ih pos (seen ++ [c]) hpc ht.tail
    have h2 := ih (pos + (encAll seen).length + utf8Width c) [] Scalars.nil ht.tail
    rw [encAll_concat, List.length_append, encScalar_length, ← Nat.add_assoc] at h1
    rw [encAll_nil, List.length_nil, Nat.add_zero] at h2
    rw [charItemsFrom_cons, encAll_cons,
      specFind_window _ _ _ _ _ (encScalar_ne_nil c) (noInner_enc hQ hseen hc), specFindItems,
      ← encAll_concat, sufPats_chars hQ hpc, sufLPats_chars, encScalar_length]
    simp only [List.head?_map]
    cases (sufQ Q (seen ++ [c])).head? with
    | none => simpa using h1
    | some q => simp [h2, matchAt_bytePat]

end CharSpec
open CharSpec

/-! ### 6. Main theorems, standard kind -/

/-- Char-wise overlapping search: item-level specification = byte-level specification. -/
theorem specOvItems_chars_eq {Q : List (List Nat × V)} (hQ : ScalarPats Q) {t : List Nat}
    (ht : Scalars t) :
    specOvItems (Q.map charPat) [] (charItems t) = specOverlapping (Q.map bytePat) (encAll t) :=
  specOvItems_chars_from hQ t [] Scalars.nil ht

theorem specNoSufItems_chars_eq {Q : List (List Nat × V)} (hQ : ScalarPats Q) {t : List Nat}
    (ht : Scalars t) :
    specNoSufItems (Q.map charPat) [] (charItems t) = specNoSuffix (Q.map bytePat) (encAll t) :=
  specNoSufItems_chars_from hQ t [] Scalars.nil ht

theorem specFindItems_chars_eq {Q : List (List Nat × V)} (hQ : ScalarPats Q) {t : List Nat}
    (ht : Scalars t) :
    specFindItems (Q.map charPat) [] (charItems t) = specFind (Q.map bytePat) (encAll t) := by
  have := specFindItems_chars_from hQ t 0 [] Scalars.nil ht
  simpa [charItems, specFind] using this

namespace CharSpec

/-! ### 7. Leftmost-longest -/

theorem go_nil (pick : List (Pat V) → Option (Pat V)) (P : List (Pat V)) (s skip : Nat) :
    specLeftmostGo pick P [] s skip = [] := by
  simp [specLeftmostGo]

theorem go_skip_one (pick : List (Pat V) → Option (Pat V)) (P : List (Pat V)) (c : Nat)
    (r : List Nat) (s skip : Nat) :
    specLeftmostGo pick P (c :: r) s (skip + 1) = specLeftmostGo pick P r (s + 1) skip := by
  simp [specLeftmostGo]

theorem go_none (pick : List (Pat V) → Option (Pat V)) (P : List (Pat V)) (c : Nat)
    (r : List Nat) (s : Nat) (h : pick (prefPats P (c :: r)) = none) :
    specLeftmostGo pick P (c :: r) s 0 = specLeftmostGo pick P r (s + 1) 0 := by
  rw [specLeftmostGo]
  simp [h]

theorem go_some (pick : List (Pat V) → Option (Pat V)) (P : List (Pat V)) (c : Nat)
    (r : List Nat) (s : Nat) (p : Pat V) (h : pick (prefPats P (c :: r)) = some p) :
    specLeftmostGo pick P (c :: r) s 0 =
      ⟨s, s + p.key.length, p.value⟩ :: specLeftmostGo pick P r (s + 1) (p.key.length - 1) := by
  rw [specLeftmostGo]
  simp [h]

/-- Bytes covered by the previous match are skipped. -/
theorem go_skip (pick : List (Pat V) → Option (Pat V)) (P : List (Pat V)) (a : List Nat) :
    ∀ (r : List Nat) (s n : Nat),
      specLeftmostGo pick P (a ++ r) s (a.length + n) = specLeftmostGo pick P r (s + a.length) n := by
  induction a with
  | nil => intro r s n; simp
  | cons b a ih =>
    intro r s n
    have e : (b :: a).length + n = (a.length + n) + 1 := by simp only [List.length_cons]; omega
    rw [List.cons_append, e, go_skip_one, ih]
    simp only [List.length_cons]
    congr 1
    omega

theorem prefPats_cont {Q : List (List Nat × V)} (hQ : ScalarPats Q) {b : Nat} (hb : isCont b)
    (l : List Nat) : prefPats (Q.map bytePat) (b :: l) = [] := by
  unfold prefPats
  rw [List.filter_eq_nil_iff]
  intro p hp hk
  obtain ⟨q, hq, rfl⟩ := List.mem_map.1 hp
  have hk' : (bytePat q).key ≠ [] ∧ (bytePat q).key <+: b :: l := of_decide_eq_true hk
  have hpre : encAll q.1 <+: b :: l := hk'.2
  obtain ⟨hne, -⟩ := hQ q hq
  cases hq1 : q.1 with
  | nil => exact hne hq1
  | cons d k =>
    rw [hq1, encAll_cons] at hpre
    obtain ⟨b', r, eb, hb'⟩ := encScalar_head d
    rw [eb, List.cons_append, List.cons_prefix_cons] at hpre
    exact hb' (hpre.1 ▸ hb)

/-- No occurrence starts at a continuation byte. -/
theorem go_cont {Q : List (List Nat × V)} (hQ : ScalarPats Q) (r0 : List Nat) :
    ∀ (l : List Nat) (s : Nat), (∀ b ∈ r0, isCont b) →
      specLeftmostGo longestPat (Q.map bytePat) (r0 ++ l) s 0 =
        specLeftmostGo longestPat (Q.map bytePat) l (s + r0.length) 0 := by
  induction r0 with
  | nil => intro l s _; simp
  | cons b r0 ih =>
    intro l s h
    rw [List.cons_append, go_none _ _ _ _ _ (by
      rw [prefPats_cont hQ (h b List.mem_cons_self)]; rfl),
      ih l (s + 1) (fun x hx => h x (List.mem_cons_of_mem _ hx))]
    simp only [List.length_cons]
    congr 1
    omega

/-- The patterns (as code-point lists) that are prefixes of `t`, in registration order. -/
def prefQ (Q : List (List Nat × V)) (t : List Nat) : List (List Nat × V) :=
  Q.filter (fun q => q.1 ≠ [] ∧ q.1 <+: t)

theorem mem_prefQ {Q : List (List Nat × V)} {t : List Nat} {q : List Nat × V}
    (h : q ∈ prefQ Q t) : q ∈ Q ∧ q.1 ≠ [] ∧ q.1 <+: t := by
  unfold prefQ at h
  rw [List.mem_filter] at h
  exact ⟨h.1, of_decide_eq_true h.2⟩

theorem prefPats_chars {Q : List (List Nat × V)} (hQ : ScalarPats Q) {t : List Nat}
    (ht : Scalars t) : prefPats (Q.map bytePat) (encAll t) = (prefQ Q t).map bytePat := by
  unfold prefPats prefQ
  rw [List.filter_map]
  congr 1
  apply List.filter_congr
  intro q hq
  show decide ((bytePat q).key ≠ [] ∧ (bytePat q).key <+: encAll t) = decide (q.1 ≠ [] ∧ q.1 <+: t)
  apply decide_eq_decide.2
  show encAll q.1 ≠ [] ∧ encAll q.1 <+: encAll t ↔ q.1 ≠ [] ∧ q.1 <+: t
  constructor
  · rintro ⟨h1, h2⟩
    exact ⟨fun h => h1 (by rw [h]; rfl), encAll_prefix _ _ (hQ q hq).2 ht h2⟩
  · rintro ⟨h1, z, rfl⟩
    exact ⟨fun h => h1 (encAll_eq_nil h), by rw [encAll_append]; exact List.prefix_append _ _⟩

theorem prefLPats_chars (Q : List (List Nat × V)) (t : List Nat) :
    prefLPats (Q.map charPat) t = (prefQ Q t).map charPat := by
  unfold prefLPats prefQ
  rw [List.filter_map]
  rfl

/-- The longest pattern (in code points), first among equals. -/
def longestQ : List (List Nat × V) → Option (List Nat × V)
  | [] => none
  | p :: ps =>
    match longestQ ps with
    | none => some p
    | some q => if q.1.length > p.1.length then some q else some p

theorem longestQ_mem {L : List (List Nat × V)} {q : List Nat × V} (h : longestQ L = some q) :
    q ∈ L := by
  induction L generalizing q with
  | nil => simp [longestQ] at h
  | cons p ps ih =>
    unfold longestQ at h
    split at h
    · cases h; exact List.mem_cons_self
    · next q' hq' =>
      split at h
      · cases h; exact List.mem_cons_of_mem _ (ih hq')
      · cases h; exact List.mem_cons_self

theorem longestLPat_chars (L : List (List Nat × V)) :
    longestLPat (L.map charPat) = (longestQ L).map charPat := by
  induction L with
  | nil => rfl
  | cons p ps ih =>
    simp only [List.map_cons, longestLPat, longestQ, ih]
    cases longestQ ps with
    | none => rfl
    | some q =>
      simp only [Option.map_some]
      show (if q.1.length > p.1.length then some (charPat q) else some (charPat p)) = _
      split <;> rfl

/-- Among prefixes of one text, longer in bytes = longer in code points. -/
theorem enc_length_gt_iff {k1 k2 t : List Nat} (h1 : k1 <+: t) (h2 : k2 <+: t) :
    (encAll k1).length > (encAll k2).length ↔ k1.length > k2.length := by
  rcases List.prefix_or_prefix_of_prefix h1 h2 with h | h
  · obtain ⟨z, rfl⟩ := h
    simp only [encAll_append, List.length_append]
    omega
  · obtain ⟨z, rfl⟩ := h
    simp only [encAll_append, List.length_append]
    cases z with
    | nil => simp
    | cons d z =>
      have := utf8Width_pos d
      rw [encAll_length_cons]
      simp only [List.length_cons]
      omega

theorem longestPat_chars {L : List (List Nat × V)} {t : List Nat} (hL : ∀ q ∈ L, q.1 <+: t) :
    longestPat (L.map bytePat) = (longestQ L).map bytePat := by
  induction L with
  | nil => rfl
  | cons p ps ih =>
    have ih' := ih (fun q hq => hL q (List.mem_cons_of_mem _ hq))
    simp only [List.map_cons, longestPat, longestQ, ih']
    cases hq : longestQ ps with
    | none => rfl
    | some q =>
      simp only [Option.map_some]
      have hqm := hL q (List.mem_cons_of_mem _ (longestQ_mem hq))
      have hpm := hL p List.mem_cons_self
      have hiff := enc_length_gt_iff hqm hpm
      show (if (encAll q.1).length > (encAll p.1).length then some (bytePat q) else some (bytePat p)) = _
      by_cases hc : q.1.length > p.1.length
      · rw [if_pos hc, if_pos (hiff.2 hc)]; rfl
      · rw [if_neg hc, if_neg (fun h => hc (hiff.1 h))]; rfl

/-- End offset of the `n`-th item. -/
theorem itemsOf_getElem?_stop (t : List Nat) : ∀ (s n : Nat), n < t.length →
    ((itemsOf t s)[n]?).map (·.stop) = some (s + (encAll (t.take (n + 1))).length) := by
  induction t with
  | nil => intro s n h; simp at h
  | cons c t ih =>
    intro s n h
    cases n with
    | zero => simp [encScalar_length]
    | succ n =>
      have := ih (s + utf8Width c) n (by simp only [List.length_cons] at h; omega)
      rw [itemsOf_cons, List.getElem?_cons_succ, this, List.take_succ_cons, encAll_length_cons]
      simp only [Option.some.injEq]
      omega

theorem llItems_nil (P : List (LPat V)) (skip : Nat) : specLLItems P [] skip = [] := by
  simp [specLLItems]

theorem llItems_skip (P : List (LPat V)) (it : WItem) (r : List WItem) (skip : Nat) :
    specLLItems P (it :: r) (skip + 1) = specLLItems P r skip := by
  simp [specLLItems]

theorem llItems_none (P : List (LPat V)) (it : WItem) (r : List WItem)
    (h : longestLPat (prefLPats P ((it :: r).map (·.label))) = none) :
    specLLItems P (it :: r) 0 = specLLItems P r 0 := by
  rw [specLLItems]
  simp only [h]

theorem llItems_some (P : List (LPat V)) (it : WItem) (r : List WItem) (p : LPat V)
    (h : longestLPat (prefLPats P ((it :: r).map (·.label))) = some p) :
    specLLItems P (it :: r) 0 =
      ⟨(((it :: r)[p.key.length - 1]?).map (·.stop)).getD 0 - p.blen,
        (((it :: r)[p.key.length - 1]?).map (·.stop)).getD 0, p.value⟩ ::
        specLLItems P r (p.key.length - 1) := by
  rw [specLLItems]
  simp only [h]

theorem specLL_chars_from {Q : List (List Nat × V)} (hQ : ScalarPats Q) (t : List Nat) :
    ∀ (s skip : Nat), Scalars t → skip ≤ t.length →
      specLLItems (Q.map charPat) (itemsOf t s) skip =
        specLeftmostGo longestPat (Q.map bytePat) (encAll t) s (encAll (t.take skip)).length := by
  induction t with
  | nil => intro s skip _ _; rw [itemsOf_nil, llItems_nil, encAll_nil, go_nil]
  | cons c t ih =>
    intro s skip ht hs
    have htt := ht.tail
    cases skip with
    | succ k =>
      have hk : k ≤ t.length := by simp only [List.length_cons] at hs; omega
      rw [itemsOf_cons, llItems_skip, ih _ _ htt hk, List.take_succ_cons, encAll_cons,
        encAll_cons, List.length_append, go_skip, encScalar_length]
    | zero =>
      obtain ⟨b, r0, eb, -⟩ := encScalar_head c
      have hr0 : ∀ x ∈ r0, isCont x := by
        have := encScalar_tail c
        rwa [eb] at this
      have hw : utf8Width c = r0.length + 1 := by
        rw [← encScalar_length, eb]; rfl
      have hbytes : b :: (r0 ++ encAll t) = encAll (c :: t) := by
        rw [encAll_cons, eb]; rfl
      have hlab : (({ label := c, width := utf8Width c, stop := s + utf8Width c } : WItem) ::
          itemsOf t (s + utf8Width c)).map (·.label) = c :: t := by
        rw [← itemsOf_cons, itemsOf_labels]
      have hpickB : longestPat (prefPats (Q.map bytePat) (b :: (r0 ++ encAll t))) =
          (longestQ (prefQ Q (c :: t))).map bytePat := by
        rw [hbytes, prefPats_chars hQ ht, longestPat_chars (fun q hq => (mem_prefQ hq).2.2)]
      have hpickC : longestLPat (prefLPats (Q.map charPat) (c :: t)) =
          (longestQ (prefQ Q (c :: t))).map charPat := by
        rw [prefLPats_chars, longestLPat_chars]
      rw [List.take_zero, encAll_nil, List.length_nil, itemsOf_cons, encAll_cons, eb,
        List.cons_append]
      cases hq : longestQ (prefQ Q (c :: t)) with
      | none =>
        rw [hq] at hpickB hpickC
        rw [llItems_none _ _ _ (by rw [hlab]; exact hpickC), go_none _ _ _ _ _ hpickB,
          go_cont hQ r0 _ _ hr0, ih _ 0 htt (Nat.zero_le _), List.take_zero, encAll_nil,
          List.length_nil, hw]
        congr 1
        omega
      | some q =>
        rw [hq] at hpickB hpickC
        obtain ⟨-, hne, hpre⟩ := mem_prefQ (longestQ_mem hq)
        obtain ⟨k', hk'⟩ : ∃ k', q.1 = c :: k' := by
          cases hq1 : q.1 with
          | nil => exact absurd hq1 hne
          | cons d k' =>
            rw [hq1, List.cons_prefix_cons] at hpre
            exact ⟨k', by rw [hpre.1]⟩
        have hk't : k' <+: t := by
          rw [hk', List.cons_prefix_cons] at hpre
          exact hpre.2
        have hklen : k'.length ≤ t.length := hk't.length_le
        have htake : t.take k'.length = k' := (List.prefix_iff_eq_take.1 hk't).symm
        have hL : (encAll q.1).length = r0.length + 1 + (encAll k').length := by
          rw [hk', encAll_length_cons, hw]
        have hstop := itemsOf_getElem?_stop (c :: t) s k'.length
          (by simp only [List.length_cons]; omega)
        rw [List.take_succ_cons, htake, ← hk', itemsOf_cons] at hstop
        rw [llItems_some _ _ _ _ (by rw [hlab]; exact hpickC), go_some _ _ _ _ _ _ hpickB]
        have hkl : (charPat q).key.length - 1 = k'.length := by
          show q.1.length - 1 = k'.length
          rw [hk']; simp
        have hbl : (bytePat q).key.length - 1 = r0.length + (encAll k').length := by
          show (encAll q.1).length - 1 = _
          omega
        rw [hkl, hstop, hbl, go_skip, ih _ _ htt hklen, htake, hw]
        simp only [Option.getD_some]
        congr 1
        · show (⟨s + (encAll q.1).length - (encAll q.1).length, s + (encAll q.1).length, q.2⟩ :
            Match V) = ⟨s, s + (encAll q.1).length, q.2⟩
          congr 1
          omega
        · congr 1
          omega

end CharSpec
open CharSpec

/-- Char-wise leftmost-longest search: item-level specification = byte-level specification. -/
theorem specLLItems_chars_eq {Q : List (List Nat × V)} (hQ : ScalarPats Q) {t : List Nat}
    (ht : Scalars t) :
    specLLItems (Q.map charPat) (itemsOf t 0) 0 = specLL (Q.map bytePat) (encAll t) := by
  have := specLL_chars_from hQ t 0 0 ht (Nat.zero_le _)
  simpa [specLL] using this

#print axioms itemsOfHay_charwise
#print axioms lpatOf_bytePat
#print axioms lpatsOf_bytePat
#print axioms CharSpec.encAll_suffix_iff
#print axioms sufPats_matches_chars
#print axioms specOvItems_chars_eq
#print axioms specNoSufItems_chars_eq
#print axioms specFindItems_chars_eq
#print axioms specLLItems_chars_eq

end Daac

/-
Shared vocabulary of the translation tie (Proofs/TieB.lean, Proofs/TieC.lean).
-/
import Daac.Gen.Prelude
namespace Daac.Tie
open Daac Daac.Gen

variable {V : Type}

/-- `Option<NonZeroU32>` as the model stores it (0 = `None`). -/
def optNat : Option Nat → Nat
  | none => 0
  | some n => n

/-- Observable part of a `next()` result of a generated iterator, in the model's vocabulary. -/
def obs {σ τ : Type} (abs : σ → τ) (p : Option (Rs.Match V) × σ) : Option (Daac.Match V) × τ :=
  (p.1.map Rs.Match.toModel, abs p.2)

/-- The same for the model's `Step`. -/
def obsM {τ : Type} (st : Step τ V) : Option (Daac.Match V) × τ := (st.result, st.it)

end Daac.Tie

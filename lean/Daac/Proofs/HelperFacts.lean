/-
Facts about the ring-buffer free-slot manager `Helper` (Model/Build.lean, `BuildHelper`):
window arithmetic, flag queries and the effect of every mutator on the `usedIndex` / `usedBase`
flags of the active indices.
-/
import Daac.Model.Build
namespace Daac

def Helper.usedI (h : Helper) (i : Nat) : Bool := h.usedIndex.getD (i % h.cap) false
def Helper.usedB (h : Helper) (i : Nat) : Bool := h.usedBase.getD (i % h.cap) false
def Helper.Active (h : Helper) (i : Nat) : Prop :=
  h.activeStart * h.blockLen ≤ i ∧ i < h.numBlocks * h.blockLen

structure Helper.WF (h : Helper) : Prop where
  blockLen_pos : 0 < h.blockLen
  nfb_pos : 0 < h.nfb
  size_next : h.next.size = h.blockLen * h.nfb
  size_prev : h.prev.size = h.blockLen * h.nfb
  size_usedBase : h.usedBase.size = h.blockLen * h.nfb
  size_usedIndex : h.usedIndex.size = h.blockLen * h.nfb

/-! ### 1. Window arithmetic -/

theorem mod_inj_window {c a i j : Nat} (hi : a ≤ i) (hi' : i < a + c) (hj : a ≤ j)
    (hj' : j < a + c) (h : i % c = j % c) : i = j := by
  have e1 := Nat.div_add_mod i c
  have e2 := Nat.div_add_mod j c
  rcases Nat.lt_trichotomy (i / c) (j / c) with hlt | heq | hlt
  · have := Nat.mul_le_mul_left c (Nat.succ_le_of_lt hlt)
    rw [Nat.mul_succ] at this
    omega
  · rw [heq] at e1; omega
  · have := Nat.mul_le_mul_left c (Nat.succ_le_of_lt hlt)
    rw [Nat.mul_succ] at this
    omega

theorem Helper.WF.cap_eq {h : Helper} (wf : h.WF) : h.cap = h.blockLen * h.nfb := wf.size_next

theorem Helper.WF.cap_pos {h : Helper} (wf : h.WF) : 0 < h.cap := by
  rw [wf.cap_eq]; exact Nat.mul_pos wf.blockLen_pos wf.nfb_pos

theorem Helper.WF.window_le {h : Helper} (wf : h.WF) :
    h.numBlocks * h.blockLen ≤ h.activeStart * h.blockLen + h.cap := by
  rw [wf.cap_eq, Nat.mul_comm h.blockLen h.nfb, ← Nat.add_mul]
  apply Nat.mul_le_mul_right
  unfold Helper.activeStart; omega

theorem Helper.active_mod_inj {h : Helper} (wf : h.WF) {i j : Nat}
    (hi : h.Active i) (hj : h.Active j) (e : i % h.cap = j % h.cap) : i = j := by
  have := wf.window_le
  exact mod_inj_window hi.1 (by have := hi.2; omega) hj.1 (by have := hj.2; omega) e

theorem Helper.mod_cap_lt {h : Helper} (wf : h.WF) (i : Nat) : i % h.cap < h.cap :=
  Nat.mod_lt _ wf.cap_pos

theorem Helper.off_ok {h : Helper} {i o : Nat} :
    h.off i = .ok o ↔ h.Active i ∧ o = i % h.cap := by
  unfold Helper.off Helper.Active
  split <;> rename_i hc
  · simp only [Bool.and_eq_true, decide_eq_true_eq] at hc
    simp only [Except.ok.injEq]
    constructor
    · intro e; exact ⟨hc, e.symm⟩
    · intro e; exact e.2.symm
  · simp only [Bool.and_eq_true, decide_eq_true_eq] at hc
    simp only [reduceCtorEq, false_iff]
    intro e; exact hc e.1

theorem Helper.off_active {h : Helper} {i : Nat} (a : h.Active i) : h.off i = .ok (i % h.cap) :=
  Helper.off_ok.2 ⟨a, rfl⟩

theorem Helper.off_not_active {h : Helper} {i : Nat} (na : ¬ h.Active i) :
    h.off i = .error (.panic "assert!(active_index_range().contains(&idx))") := by
  unfold Helper.off
  split <;> rename_i hc
  · simp only [Bool.and_eq_true, decide_eq_true_eq] at hc
    exact absurd hc na
  · rfl

theorem Helper.off_lt_cap {h : Helper} (wf : h.WF) {i o : Nat} (e : h.off i = .ok o) :
    o < h.cap := by
  rw [(Helper.off_ok.1 e).2]; exact h.mod_cap_lt wf i

/-! ### 2. Queries -/

theorem Helper.isUsedIndex_ok {h : Helper} {i : Nat} {b : Bool} :
    h.isUsedIndex i = .ok b ↔ h.Active i ∧ b = h.usedI i := by
  unfold Helper.isUsedIndex Helper.usedI
  cases e : h.off i with
  | error err =>
    simp only [reduceCtorEq, false_iff]
    intro a
    rw [Helper.off_active a.1] at e
    cases e
  | ok o =>
    obtain ⟨a, rfl⟩ := Helper.off_ok.1 e
    simp only [Except.ok.injEq]
    constructor
    · intro e; exact ⟨a, e.symm⟩
    · intro e; exact e.2.symm

theorem Helper.isUsedBase_ok {h : Helper} {i : Nat} {b : Bool} :
    h.isUsedBase i = .ok b ↔ h.Active i ∧ b = h.usedB i := by
  unfold Helper.isUsedBase Helper.usedB
  cases e : h.off i with
  | error err =>
    simp only [reduceCtorEq, false_iff]
    intro a
    rw [Helper.off_active a.1] at e
    cases e
  | ok o =>
    obtain ⟨a, rfl⟩ := Helper.off_ok.1 e
    simp only [Except.ok.injEq]
    constructor
    · intro e; exact ⟨a, e.symm⟩
    · intro e; exact e.2.symm

/-! ### Array helpers -/

theorem getD_set_self {α} (a : Array α) (o : Nat) (v d : α) (h : o < a.size) :
    (a.setIfInBounds o v).getD o d = v := by
  simp [Array.getD_eq_getD_getElem?, h]

theorem getD_set_ne {α} (a : Array α) (o k : Nat) (v d : α) (h : o ≠ k) :
    (a.setIfInBounds o v).getD k d = a.getD k d := by
  simp [Array.getD_eq_getD_getElem?, h]

theorem Helper.usedI_congr {h h' : Helper} (e1 : h'.usedIndex = h.usedIndex) (e2 : h'.cap = h.cap)
    (j : Nat) : h'.usedI j = h.usedI j := by
  unfold Helper.usedI; rw [e1, e2]

theorem Helper.usedB_congr {h h' : Helper} (e1 : h'.usedBase = h.usedBase) (e2 : h'.cap = h.cap)
    (j : Nat) : h'.usedB j = h.usedB j := by
  unfold Helper.usedB; rw [e1, e2]

theorem Helper.Active_congr {h h' : Helper} (e1 : h'.blockLen = h.blockLen) (e2 : h'.nfb = h.nfb)
    (e3 : h'.numBlocks = h.numBlocks) (j : Nat) : h'.Active j ↔ h.Active j := by
  unfold Helper.Active Helper.activeStart; rw [e1, e2, e3]

/-! ### 3. `useBase` -/

theorem Helper.useBase_ok {h h' : Helper} (wf : h.WF) {i : Nat} (e : h.useBase i = .ok h') :
    h.Active i ∧ h'.usedB i = true ∧
    (∀ j, h.Active j → j ≠ i → h'.usedB j = h.usedB j) ∧
    (∀ j, h'.usedI j = h.usedI j) ∧
    h'.blockLen = h.blockLen ∧ h'.nfb = h.nfb ∧ h'.numBlocks = h.numBlocks ∧ h'.WF := by
  unfold Helper.useBase at e
  cases eo : h.off i with
  | error err => rw [eo] at e; cases e
  | ok o =>
    rw [eo] at e
    obtain ⟨a, rfl⟩ := Helper.off_ok.1 eo
    simp only [Except.ok.injEq] at e
    subst e
    have hlt : i % h.cap < h.usedBase.size := by
      rw [wf.size_usedBase, ← wf.cap_eq]; exact h.mod_cap_lt wf i
    refine ⟨a, ?_, ?_, ?_, rfl, rfl, rfl, ?_⟩
    · show (h.usedBase.setIfInBounds (i % h.cap) true).getD (i % h.cap) false = true
      exact getD_set_self _ _ _ _ hlt
    · intro j aj ne
      show (h.usedBase.setIfInBounds (i % h.cap) true).getD (j % h.cap) false = _
      apply getD_set_ne
      intro em
      exact ne (Helper.active_mod_inj wf aj a em.symm)
    · intro j; rfl
    · exact ⟨wf.blockLen_pos, wf.nfb_pos, wf.size_next, wf.size_prev,
        by simp [wf.size_usedBase], wf.size_usedIndex⟩

/-! ### 4. `useIndex` -/

theorem Helper.useIndex_ok {h h' : Helper} (wf : h.WF) {i : Nat} (e : h.useIndex i = .ok h') :
    h.Active i ∧ h.usedI i = false ∧ h'.usedI i = true ∧
    (∀ j, h.Active j → j ≠ i → h'.usedI j = h.usedI j) ∧
    (∀ j, h'.usedB j = h.usedB j) ∧
    h'.blockLen = h.blockLen ∧ h'.nfb = h.nfb ∧ h'.numBlocks = h.numBlocks ∧ h'.WF := by
  unfold Helper.useIndex at e
  cases eo : h.off i with
  | error err => rw [eo] at e; cases e
  | ok o =>
    rw [eo] at e
    obtain ⟨a, rfl⟩ := Helper.off_ok.1 eo
    simp only at e
    split at e
    · cases e
    · rename_i hu
      split at e
      · cases e
      · split at e
        · cases e
        · split at e
          · cases e
          · simp only [Except.ok.injEq] at e
            subst e
            have hlt : i % h.cap < h.usedIndex.size := by
              rw [wf.size_usedIndex, ← wf.cap_eq]; exact h.mod_cap_lt wf i
            have hcap : ∀ (x y : Nat), (h.next.setIfInBounds x y).size = h.cap := by
              intro x y; simp [Helper.cap]
            refine ⟨a, ?_, ?_, ?_, ?_, rfl, rfl, rfl, ?_⟩
            · simpa [Helper.usedI] using hu
            · unfold Helper.usedI Helper.cap
              simp only [Array.size_setIfInBounds]
              exact getD_set_self _ _ _ _ hlt
            · intro j aj ne
              unfold Helper.usedI Helper.cap
              simp only [Array.size_setIfInBounds]
              apply getD_set_ne
              intro em
              exact ne (Helper.active_mod_inj wf aj a em.symm)
            · intro j
              unfold Helper.usedB Helper.cap
              simp only [Array.size_setIfInBounds]
            · exact ⟨wf.blockLen_pos, wf.nfb_pos, by simp [wf.size_next], by simp [wf.size_prev],
                wf.size_usedBase, by simp [wf.size_usedIndex]⟩

/-! ### 5. `closeLoop` -/

theorem Helper.closeLoop_ok {fuel endIdx : Nat} {h h' : Helper} (wf : h.WF)
    (e : Helper.closeLoop fuel endIdx h = .ok h') :
    (∀ j, h.Active j → endIdx ≤ j → h'.usedI j = h.usedI j) ∧
    (∀ j, h.Active j → h.usedI j = true → h'.usedI j = true) ∧
    (∀ j, h'.usedB j = h.usedB j) ∧
    h'.blockLen = h.blockLen ∧ h'.nfb = h.nfb ∧ h'.numBlocks = h.numBlocks ∧ h'.WF := by
  induction fuel generalizing h with
  | zero => unfold Helper.closeLoop at e; cases e
  | succ fuel ih =>
    unfold Helper.closeLoop at e
    split at e
    · simp only [Except.ok.injEq] at e; subst e
      exact ⟨fun _ _ _ => rfl, fun _ _ u => u, fun _ => rfl, rfl, rfl, rfl, wf⟩
    · rename_i hd _
      split at e
      · simp only [Except.ok.injEq] at e; subst e
        exact ⟨fun _ _ _ => rfl, fun _ _ u => u, fun _ => rfl, rfl, rfl, rfl, wf⟩
      · rename_i hlt
        split at e
        · cases e
        · rename_i h1 e1
          obtain ⟨a, _, u1, fr, fb, b1, b2, b3, wf1⟩ := Helper.useIndex_ok wf e1
          obtain ⟨c1, c2, c3, c4, c5, c6, c7⟩ := ih wf1 e
          have ac := Helper.Active_congr b1 b2 b3
          refine ⟨?_, ?_, ?_, c4.trans b1, c5.trans b2, c6.trans b3, c7⟩
          · intro j aj le
            rw [c1 j ((ac j).2 aj) le]
            exact fr j aj (by omega)
          · intro j aj uj
            apply c2 j ((ac j).2 aj)
            by_cases ej : j = hd
            · subst ej; exact u1
            · rw [fr j aj ej]; exact uj
          · intro j; rw [c3 j, fb j]

/-! ### 6. `resetLoop` -/

/-- General form (no distinctness needed: every write stores `false`). -/
theorem Helper.resetLoop_ok_gen {n idx : Nat} {h h' : Helper} (wf : h.WF)
    (e : Helper.resetLoop n idx h = .ok h') :
    (∀ m, idx ≤ m → m < idx + n → h.Active m) ∧
    (∀ k, (∃ m, idx ≤ m ∧ m < idx + n ∧ m % h.cap = k % h.cap) →
      h'.usedI k = false ∧ h'.usedB k = false) ∧
    (∀ k, (∀ m, idx ≤ m → m < idx + n → m % h.cap ≠ k % h.cap) →
      h'.usedI k = h.usedI k ∧ h'.usedB k = h.usedB k) ∧
    h'.cap = h.cap ∧
    h'.blockLen = h.blockLen ∧ h'.nfb = h.nfb ∧ h'.numBlocks = h.numBlocks ∧ h'.WF := by
  induction n generalizing idx h with
  | zero =>
    unfold Helper.resetLoop at e
    simp only [Except.ok.injEq] at e; subst e
    refine ⟨fun m a b => by omega, ?_, fun _ _ => ⟨rfl, rfl⟩, rfl, rfl, rfl, rfl, wf⟩
    rintro k ⟨m, a, b, _⟩; omega
  | succ n ih =>
    unfold Helper.resetLoop at e
    cases eo : h.off idx with
    | error err => rw [eo] at e; cases e
    | ok o =>
      rw [eo] at e
      obtain ⟨a, rfl⟩ := Helper.off_ok.1 eo
      simp only at e
      have hltI : idx % h.cap < h.usedIndex.size := by
        rw [wf.size_usedIndex, ← wf.cap_eq]; exact h.mod_cap_lt wf idx
      have hltB : idx % h.cap < h.usedBase.size := by
        rw [wf.size_usedBase, ← wf.cap_eq]; exact h.mod_cap_lt wf idx
      generalize hh1 : ({ h with
          next := h.next.setIfInBounds (idx % h.cap) (idx + 1),
          prev := h.prev.setIfInBounds (idx % h.cap) (if idx = 0 then u32Max else idx - 1),
          usedBase := h.usedBase.setIfInBounds (idx % h.cap) false,
          usedIndex := h.usedIndex.setIfInBounds (idx % h.cap) false } : Helper) = h1 at e
      have ecap : h1.cap = h.cap := by subst hh1; simp [Helper.cap]
      have ebl : h1.blockLen = h.blockLen := by subst hh1; rfl
      have enfb : h1.nfb = h.nfb := by subst hh1; rfl
      have enb : h1.numBlocks = h.numBlocks := by subst hh1; rfl
      have wf1 : h1.WF := by
        subst hh1
        exact ⟨wf.blockLen_pos, wf.nfb_pos, by simp [wf.size_next], by simp [wf.size_prev],
          by simp [wf.size_usedBase], by simp [wf.size_usedIndex]⟩
      have hI : ∀ k, h1.usedI k = if idx % h.cap = k % h.cap then false else h.usedI k := by
        intro k
        unfold Helper.usedI; rw [ecap]; subst hh1
        by_cases em : idx % h.cap = k % h.cap
        · rw [if_pos em, ← em]; exact getD_set_self _ _ _ _ hltI
        · rw [if_neg em]; exact getD_set_ne _ _ _ _ _ em
      have hB : ∀ k, h1.usedB k = if idx % h.cap = k % h.cap then false else h.usedB k := by
        intro k
        unfold Helper.usedB; rw [ecap]; subst hh1
        by_cases em : idx % h.cap = k % h.cap
        · rw [if_pos em, ← em]; exact getD_set_self _ _ _ _ hltB
        · rw [if_neg em]; exact getD_set_ne _ _ _ _ _ em
      obtain ⟨c1, c2, c3, c4, c5, c6, c7, c8⟩ := ih wf1 e
      rw [ecap] at c2 c3
      have ac := Helper.Active_congr ebl enfb enb
      refine ⟨?_, ?_, ?_, c4.trans ecap, c5.trans ebl, c6.trans enfb, c7.trans enb, c8⟩
      · intro m le lt
        by_cases em : m = idx
        · subst em; exact a
        · exact (ac m).1 (c1 m (by omega) (by omega))
      · rintro k ⟨m, le, lt, em⟩
        by_cases ex : ∃ m, idx + 1 ≤ m ∧ m < idx + 1 + n ∧ m % h.cap = k % h.cap
        · exact c2 k ex
        · have hm : m = idx := by
            apply Classical.byContradiction
            intro ne
            exact ex ⟨m, by omega, by omega, em⟩
          subst hm
          have := c3 k (fun m' a' b' e' => ex ⟨m', a', b', e'⟩)
          rw [this.1, this.2, hI, hB]
          simp [em]
      · intro k hk
        have := c3 k (fun m' a' b' => hk m' (by omega) (by omega))
        rw [this.1, this.2, hI, hB]
        have := hk idx (Nat.le_refl _) (by omega)
        simp [this]

/-- `resetLoop` on active indices: the `n` reset indices end up unused, every other active index
keeps its flags. -/
theorem Helper.resetLoop_ok {n idx : Nat} {h h' : Helper} (wf : h.WF)
    (e : Helper.resetLoop n idx h = .ok h') :
    (∀ m, idx ≤ m → m < idx + n → h.Active m) ∧
    (∀ m, idx ≤ m → m < idx + n → h'.usedI m = false ∧ h'.usedB m = false) ∧
    (∀ j, h.Active j → (j < idx ∨ idx + n ≤ j) →
      h'.usedI j = h.usedI j ∧ h'.usedB j = h.usedB j) ∧
    h'.cap = h.cap ∧
    h'.blockLen = h.blockLen ∧ h'.nfb = h.nfb ∧ h'.numBlocks = h.numBlocks ∧ h'.WF := by
  obtain ⟨c1, c2, c3, c4, c5, c6, c7, c8⟩ := Helper.resetLoop_ok_gen wf e
  refine ⟨c1, ?_, ?_, c4, c5, c6, c7, c8⟩
  · intro m le lt; exact c2 m ⟨m, le, lt, rfl⟩
  · intro j aj out
    apply c3 j
    intro m le lt em
    have := Helper.active_mod_inj wf (c1 m le lt) aj em
    omega

/-! ### 7. `pushBlock` -/

/-- First phase of `pushBlock`: close the block that drops out of the window. -/
def Helper.closedOf (h0 : Helper) : Except BuildErr Helper :=
  match h0.droppedBlock with
  | some cb => h0.closeLoop (h0.blockLen + 1) ((cb + 1) * h0.blockLen)
  | none => .ok h0

/-- Last phase of `pushBlock`: splice the chain of the new block into the vacant list. -/
def Helper.splice (h2 : Helper) (oldLen newLen : Nat) : Except BuildErr Helper :=
  match h2.head with
  | some hd =>
    match h2.off hd, h2.off oldLen, h2.off (newLen - 1) with
    | .ok ho, .ok oo, .ok no =>
      let tail := h2.prev.getD ho 0
      match h2.off tail with
      | .error e => .error e
      | .ok to =>
        let prev1 := h2.prev.setIfInBounds oo tail
        let next1 := h2.next.setIfInBounds to oldLen
        let next2 := next1.setIfInBounds no hd
        let prev2 := prev1.setIfInBounds ho (newLen - 1)
        .ok { h2 with next := next2, prev := prev2 }
    | .error e, _, _ => .error e
    | _, .error e, _ => .error e
    | _, _, .error e => .error e
  | none =>
    match h2.off oldLen, h2.off (newLen - 1) with
    | .ok oo, .ok no =>
      .ok { h2 with prev := h2.prev.setIfInBounds oo (newLen - 1),
                    next := h2.next.setIfInBounds no oldLen,
                    head := some oldLen }
    | .error e, _ => .error e
    | _, .error e => .error e

theorem Helper.pushBlock_eq (h0 : Helper) :
    h0.pushBlock =
      if h0.numElements > u32Max - h0.blockLen then .error .automatonScale else
      match h0.closedOf with
      | .error e => .error e
      | .ok h1 =>
        match Helper.resetLoop h1.blockLen h1.numElements { h1 with numBlocks := h1.numBlocks + 1 } with
        | .error e => .error e
        | .ok h2 => h2.splice h1.numElements (h1.numElements + h1.blockLen) := rfl

theorem Helper.splice_ok {h2 h' : Helper} {a b : Nat} (e : h2.splice a b = .ok h') :
    h'.usedIndex = h2.usedIndex ∧ h'.usedBase = h2.usedBase ∧ h'.cap = h2.cap ∧
    h'.blockLen = h2.blockLen ∧ h'.nfb = h2.nfb ∧ h'.numBlocks = h2.numBlocks ∧
    (h2.WF → h'.WF) := by
  unfold Helper.splice at e
  split at e
  · split at e
    · simp only at e
      split at e
      · cases e
      · simp only [Except.ok.injEq] at e; subst e
        refine ⟨rfl, rfl, by simp [Helper.cap], rfl, rfl, rfl, fun wf => ?_⟩
        exact ⟨wf.blockLen_pos, wf.nfb_pos, by simp [wf.size_next], by simp [wf.size_prev],
          wf.size_usedBase, wf.size_usedIndex⟩
    · cases e
    · cases e
    · cases e
  · split at e
    · simp only [Except.ok.injEq] at e; subst e
      refine ⟨rfl, rfl, by simp [Helper.cap], rfl, rfl, rfl, fun wf => ?_⟩
      exact ⟨wf.blockLen_pos, wf.nfb_pos, by simp [wf.size_next], by simp [wf.size_prev],
        wf.size_usedBase, wf.size_usedIndex⟩
    · cases e
    · cases e

theorem Helper.closedOf_ok {h0 h1 : Helper} (wf : h0.WF) (e : h0.closedOf = .ok h1) :
    (∀ j, (h0.numBlocks + 1 - h0.nfb) * h0.blockLen ≤ j → j < h0.numBlocks * h0.blockLen →
      h1.usedI j = h0.usedI j) ∧
    (∀ j, h1.usedB j = h0.usedB j) ∧
    h1.blockLen = h0.blockLen ∧ h1.nfb = h0.nfb ∧ h1.numBlocks = h0.numBlocks ∧ h1.WF := by
  unfold Helper.closedOf Helper.droppedBlock at e
  split at e
  · rename_i cb hcb
    split at hcb
    · rename_i hfull
      simp only [Option.some.injEq] at hcb
      subst hcb
      obtain ⟨c1, _, c3, c4, c5, c6, c7⟩ := Helper.closeLoop_ok wf e
      refine ⟨?_, c3, c4, c5, c6, c7⟩
      intro j lo hi
      have hnfb : h0.nfb ≤ h0.numBlocks := by
        rw [wf.cap_eq, Helper.numElements, Nat.mul_comm h0.numBlocks] at hfull
        exact Nat.le_of_mul_le_mul_left hfull wf.blockLen_pos
      have e1 : h0.numBlocks + 1 - h0.nfb = h0.activeStart + 1 := by
        unfold Helper.activeStart; omega
      rw [e1] at lo
      apply c1 j ⟨?_, hi⟩ lo
      rw [Nat.add_mul] at lo; omega
    · cases hcb
  · simp only [Except.ok.injEq] at e; subst e
    exact ⟨fun _ _ _ => rfl, fun _ => rfl, rfl, rfl, rfl, wf⟩

theorem Helper.pushBlock_ok {h h' : Helper} (wf : h.WF) (e : h.pushBlock = .ok h') :
    h'.numBlocks = h.numBlocks + 1 ∧ h'.blockLen = h.blockLen ∧ h'.nfb = h.nfb ∧ h'.WF ∧
    (∀ j, h.numBlocks * h.blockLen ≤ j → j < (h.numBlocks + 1) * h.blockLen →
      h'.usedI j = false ∧ h'.usedB j = false) ∧
    (∀ j, h'.Active j → j < h.numBlocks * h.blockLen →
      h'.usedI j = h.usedI j ∧ h'.usedB j = h.usedB j) := by
  rw [Helper.pushBlock_eq] at e
  split at e
  · cases e
  · split at e
    · cases e
    · rename_i h1 ec
      obtain ⟨c1, c2, c3, c4, c5, wf1⟩ := Helper.closedOf_ok wf ec
      split at e
      · cases e
      · rename_i h2 er
        have wf1' : ({ h1 with numBlocks := h1.numBlocks + 1 } : Helper).WF :=
          ⟨wf1.blockLen_pos, wf1.nfb_pos, wf1.size_next, wf1.size_prev, wf1.size_usedBase,
            wf1.size_usedIndex⟩
        obtain ⟨r1, r2, r3, r4, r5, r6, r7, wf2⟩ := Helper.resetLoop_ok wf1' er
        obtain ⟨s1, s2, s3, s4, s5, s6, s7⟩ := Helper.splice_ok e
        have hI : ∀ j, h'.usedI j = h2.usedI j := Helper.usedI_congr s1 s3
        have hB : ∀ j, h'.usedB j = h2.usedB j := Helper.usedB_congr s2 s3
        have hI1 : ∀ j, ({ h1 with numBlocks := h1.numBlocks + 1 } : Helper).usedI j = h1.usedI j :=
          fun _ => rfl
        have hB1 : ∀ j, ({ h1 with numBlocks := h1.numBlocks + 1 } : Helper).usedB j = h1.usedB j :=
          fun _ => rfl
        simp only at r5 r6 r7
        have enb : h'.numBlocks = h.numBlocks + 1 := by rw [s6, r7, c5]
        have ebl : h'.blockLen = h.blockLen := by rw [s4, r5, c3]
        have enfb : h'.nfb = h.nfb := by rw [s5, r6, c4]
        refine ⟨enb, ebl, enfb, s7 wf2, ?_, ?_⟩
        · intro j lo hi
          rw [hI, hB]
          apply r2 j
          · show h1.numBlocks * h1.blockLen ≤ j
            rw [c5, c3]; exact lo
          · show j < h1.numBlocks * h1.blockLen + h1.blockLen
            rw [c5, c3]; rw [Nat.add_mul] at hi; omega
        · intro j aj hi
          have aj1 : ({ h1 with numBlocks := h1.numBlocks + 1 } : Helper).Active j :=
            (Helper.Active_congr (h := { h1 with numBlocks := h1.numBlocks + 1 })
              (by rw [s4, r5]) (by rw [s5, r6]) (by rw [s6, r7]) j).1 aj
          have := r3 j aj1 (Or.inl (by show j < h1.numBlocks * h1.blockLen; rw [c5, c3]; exact hi))
          rw [hI, hB, this.1, this.2, hI1, hB1, c2]
          refine ⟨c1 j ?_ hi, rfl⟩
          have := aj.1
          unfold Helper.activeStart at this
          rw [enb, enfb, ebl] at this
          exact this

/-- `pushBlock` never sets a `usedBase` flag (for arbitrary, also non-active, indices). -/
theorem Helper.pushBlock_usedB {h h' : Helper} (wf : h.WF) (e : h.pushBlock = .ok h') (k : Nat) :
    h'.usedB k = false ∨ h'.usedB k = h.usedB k := by
  rw [Helper.pushBlock_eq] at e
  split at e
  · cases e
  · split at e
    · cases e
    · rename_i h1 ec
      obtain ⟨_, c2, _, _, _, wf1⟩ := Helper.closedOf_ok wf ec
      split at e
      · cases e
      · rename_i h2 er
        have wf1' : ({ h1 with numBlocks := h1.numBlocks + 1 } : Helper).WF :=
          ⟨wf1.blockLen_pos, wf1.nfb_pos, wf1.size_next, wf1.size_prev, wf1.size_usedBase,
            wf1.size_usedIndex⟩
        obtain ⟨_, r2, r3, _⟩ := Helper.resetLoop_ok_gen wf1' er
        obtain ⟨_, s2, s3, _⟩ := Helper.splice_ok e
        rw [Helper.usedB_congr s2 s3 k]
        by_cases ex : ∃ m, h1.numElements ≤ m ∧ m < h1.numElements + h1.blockLen ∧
            m % ({ h1 with numBlocks := h1.numBlocks + 1 } : Helper).cap =
              k % ({ h1 with numBlocks := h1.numBlocks + 1 } : Helper).cap
        · exact Or.inl (r2 k ex).2
        · right
          rw [(r3 k (fun m a b em => ex ⟨m, a, b, em⟩)).2]
          exact c2 k

/-! ### 8. Initial state -/

theorem Helper.new_ok {bl nfb : Nat} {h : Helper} (e : Helper.new bl nfb = .ok h) :
    h.WF ∧ h.numBlocks = 0 ∧ h.blockLen = bl ∧ h.nfb = nfb ∧ h.head = none ∧
    (∀ j, h.usedI j = false) ∧ (∀ j, h.usedB j = false) := by
  unfold Helper.new at e
  simp only at e
  split at e
  · cases e
  · split at e
    · cases e
    · rename_i hne
      simp only [Except.ok.injEq] at e; subst e
      have hb : 0 < bl := Nat.pos_of_ne_zero (fun z => hne (by rw [z, Nat.zero_mul]))
      have hn : 0 < nfb := Nat.pos_of_ne_zero (fun z => hne (by rw [z, Nat.mul_zero]))
      refine ⟨⟨hb, hn, by simp, by simp, by simp, by simp⟩, rfl, rfl, rfl, rfl, ?_, ?_⟩
      · intro j
        simp only [Helper.usedI, Array.getD_eq_getD_getElem?, Array.getElem?_replicate]
        split <;> rfl
      · intro j
        simp only [Helper.usedB, Array.getD_eq_getD_getElem?, Array.getElem?_replicate]
        split <;> rfl

/-- The three-step initialisation `new → pushBlock → useIndex 0 → useIndex 1`. -/
theorem Helper.init_ok {bl nfb : Nat} {h0 h1 h2 h3 : Helper}
    (e0 : Helper.new bl nfb = .ok h0) (e1 : h0.pushBlock = .ok h1)
    (e2 : h1.useIndex 0 = .ok h2) (e3 : h2.useIndex 1 = .ok h3) :
    h3.WF ∧ h3.numBlocks = 1 ∧ h3.blockLen = bl ∧ h3.nfb = nfb ∧ 2 ≤ bl ∧
    (∀ j, h3.Active j ↔ j < bl) ∧
    h3.usedI 0 = true ∧ h3.usedI 1 = true ∧
    (∀ j, 2 ≤ j → j < bl → h3.usedI j = false) ∧
    (∀ j, h3.usedB j = false) := by
  obtain ⟨wf0, n0, b0, f0, _, _, ub0⟩ := Helper.new_ok e0
  obtain ⟨n1, b1, f1, wf1, fresh, _⟩ := Helper.pushBlock_ok wf0 e1
  obtain ⟨a2, _, u2, i2, ub2, b2, f2, n2, wf2⟩ := Helper.useIndex_ok wf1 e2
  obtain ⟨a3, _, u3, i3, ub3, b3, f3, n3, wf3⟩ := Helper.useIndex_ok wf2 e3
  rw [n0, b0, Nat.zero_mul, Nat.zero_add, Nat.one_mul] at fresh
  have hnfb : 0 < nfb := by have := wf0.nfb_pos; rwa [f0] at this
  have act1 : ∀ j, h1.Active j ↔ j < bl := by
    intro j
    unfold Helper.Active Helper.activeStart
    rw [n1, n0, f1, f0, b1, b0]
    have : 0 + 1 - nfb = 0 := by omega
    rw [this, Nat.zero_mul, Nat.zero_add, Nat.one_mul]
    simp
  have act2 : ∀ j, h2.Active j ↔ j < bl := fun j => (Helper.Active_congr b2 f2 n2 j).trans (act1 j)
  have act3 : ∀ j, h3.Active j ↔ j < bl := fun j => (Helper.Active_congr b3 f3 n3 j).trans (act2 j)
  have h2bl : 2 ≤ bl := by have := (act2 1).1 a3; omega
  refine ⟨wf3, by rw [n3, n2, n1, n0], by rw [b3, b2, b1, b0], by rw [f3, f2, f1, f0], h2bl, act3,
    ?_, u3, ?_, ?_⟩
  · rw [i3 0 ((act2 0).2 (by omega)) (by omega)]; exact u2
  · intro j lo hi
    rw [i3 j ((act2 j).2 hi) (by omega), i2 j ((act1 j).2 hi) (by omega)]
    exact (fresh j (Nat.zero_le _) hi).1
  · intro j
    rw [ub3, ub2]
    rcases Helper.pushBlock_usedB wf0 e1 j with u | u
    · exact u
    · rw [u]; exact ub0 j

/-! ### 9. `unusedBaseInBlock` -/

theorem Helper.unusedBaseFrom_some {h : Helper} {n base ub : Nat}
    (e : h.unusedBaseFrom n base = .ok (some ub)) :
    base ≤ ub ∧ ub < base + n ∧ h.Active ub ∧ h.usedB ub = false ∧
    (∀ j, base ≤ j → j < ub → h.Active j ∧ h.usedB j = true) := by
  induction n generalizing base with
  | zero => unfold Helper.unusedBaseFrom at e; cases e
  | succ n ih =>
    unfold Helper.unusedBaseFrom at e
    cases eq : h.isUsedBase base with
    | error err => rw [eq] at e; cases e
    | ok b =>
      rw [eq] at e
      obtain ⟨a, hb⟩ := Helper.isUsedBase_ok.1 eq
      cases b with
      | false =>
        simp only [Except.ok.injEq, Option.some.injEq] at e; subst e
        exact ⟨Nat.le_refl _, by omega, a, hb.symm, fun j lo hi => by omega⟩
      | true =>
        simp only at e
        obtain ⟨c1, c2, c3, c4, c5⟩ := ih e
        refine ⟨by omega, by omega, c3, c4, ?_⟩
        intro j lo hi
        by_cases ej : j = base
        · subst ej; exact ⟨a, hb.symm⟩
        · exact c5 j (by omega) hi

theorem Helper.unusedBaseFrom_none {h : Helper} {n base : Nat}
    (e : h.unusedBaseFrom n base = .ok none) :
    ∀ j, base ≤ j → j < base + n → h.Active j ∧ h.usedB j = true := by
  induction n generalizing base with
  | zero => intro j lo hi; omega
  | succ n ih =>
    unfold Helper.unusedBaseFrom at e
    cases eq : h.isUsedBase base with
    | error err => rw [eq] at e; cases e
    | ok b =>
      rw [eq] at e
      obtain ⟨a, hb⟩ := Helper.isUsedBase_ok.1 eq
      cases b with
      | false => simp only [Except.ok.injEq, reduceCtorEq] at e
      | true =>
        simp only at e
        intro j lo hi
        by_cases ej : j = base
        · subst ej; exact ⟨a, hb.symm⟩
        · exact ih e j (by omega) (by omega)

theorem Helper.unusedBaseInBlock_ok {h : Helper} {b ub : Nat}
    (e : h.unusedBaseInBlock b = .ok (some ub)) :
    b * h.blockLen ≤ ub ∧ ub < (b + 1) * h.blockLen ∧ h.Active ub ∧ h.usedB ub = false ∧
    (∀ j, b * h.blockLen ≤ j → j < ub → h.Active j ∧ h.usedB j = true) := by
  unfold Helper.unusedBaseInBlock at e
  obtain ⟨c1, c2, c3, c4, c5⟩ := Helper.unusedBaseFrom_some e
  refine ⟨c1, ?_, c3, c4, c5⟩
  rw [Nat.add_mul, Nat.one_mul]; exact c2

theorem Helper.unusedBaseInBlock_none {h : Helper} {b : Nat}
    (e : h.unusedBaseInBlock b = .ok none) :
    ∀ j, b * h.blockLen ≤ j → j < (b + 1) * h.blockLen → h.Active j ∧ h.usedB j = true := by
  unfold Helper.unusedBaseInBlock at e
  intro j lo hi
  apply Helper.unusedBaseFrom_none e j lo
  rw [Nat.add_mul, Nat.one_mul] at hi; exact hi

/-! ### 10. `vacant` -/

theorem Helper.vacantFrom_active {h : Helper} {hd fuel cur : Nat} {l : List Nat}
    (e : h.vacantFrom hd fuel cur = .ok l) : ∀ i ∈ l, h.Active i := by
  induction fuel generalizing cur l with
  | zero =>
    unfold Helper.vacantFrom at e
    simp only [Except.ok.injEq] at e; subst e
    intro i hi; cases hi
  | succ fuel ih =>
    unfold Helper.vacantFrom at e
    cases eo : h.off cur with
    | error err => rw [eo] at e; cases e
    | ok o =>
      rw [eo] at e
      have a := (Helper.off_ok.1 eo).1
      simp only at e
      split at e
      · simp only [Except.ok.injEq] at e; subst e
        intro i hi
        simp only [List.mem_singleton] at hi
        subst hi; exact a
      · split at e
        · cases e
        · rename_i l' el
          simp only [Except.ok.injEq] at e; subst e
          intro i hi
          simp only [List.mem_cons] at hi
          rcases hi with rfl | hi
          · exact a
          · exact ih el i hi

theorem Helper.vacant_active {h : Helper} {l : List Nat} (e : h.vacant = .ok l) :
    ∀ i ∈ l, h.Active i := by
  unfold Helper.vacant at e
  split at e
  · simp only [Except.ok.injEq] at e; subst e
    intro i hi; cases hi
  · exact Helper.vacantFrom_active e

#print axioms Helper.useIndex_ok
#print axioms Helper.pushBlock_ok
#print axioms Helper.init_ok
#print axioms Helper.unusedBaseInBlock_ok
#print axioms Helper.vacant_active

end Daac

/-
Facts about the code mapper `Mapper.build` (`Daac/Model/Build.lean`): codes are dense
(`< alphaSize`), injective, and every code point occurring in a pattern is mapped.
-/
import Daac.Proofs.BuildCor
namespace Daac
variable {V : Type}

/-- The frequency-sorted list of used code points. -/
def sortedOf (len : Nat) (freqs : Array Nat) : List (Nat × Nat) :=
  (List.range' 0 len).foldl
    (fun s c => if freqs[c]! = 0 then s else insertFreq (c, freqs[c]!) s) []

/-- The table-filling loop. -/
def fillTable (sorted : List (Nat × Nat)) (table : Array Nat) (i : Nat) : Array Nat :=
  match sorted with
  | [] => table
  | x :: r => fillTable r (table.setIfInBounds x.1 i) (i + 1)

theorem forIn_ite_yield {α β : Type} (l : List α) (p : α → Prop) [DecidablePred p]
    (g : α → β → β) (init : β) :
    (forIn (m := Id) l init fun c s =>
        if p c then pure (ForInStep.yield s) else pure (ForInStep.yield (g c s))) =
      pure (l.foldl (fun s c => if p c then s else g c s) init) := by
  induction l generalizing init with
  | nil => rfl
  | cons a l ih =>
    simp only [List.forIn_cons, List.foldl_cons]
    by_cases h : p a <;> simp [h, ih]

theorem fillTable_foldl (l : List (Nat × Nat)) (t : Array Nat) (i : Nat) :
    (List.foldl (fun (b : Array Nat × Nat) (a : Nat × Nat) =>
      (b.fst.setIfInBounds a.fst b.snd, b.snd + 1)) (t, i) l).fst = fillTable l t i := by
  induction l generalizing t i with
  | nil => rfl
  | cons a l ih => simp only [List.foldl_cons, fillTable]; exact ih _ _

theorem Mapper.ofFreqs_eq (len : Nat) (freqs : Array Nat) :
    Mapper.ofFreqs len freqs =
      ⟨fillTable (sortedOf len freqs) (Array.replicate len invalidCode) 0,
        (sortedOf len freqs).length⟩ := by
  unfold Mapper.ofFreqs
  simp
  rw [forIn_ite_yield (List.range' 0 len) (fun c => freqs[c]! = 0)
    (fun c s => insertFreq (c, freqs[c]!) s) []]
  exact ⟨fillTable_foldl _ _ _, rfl⟩

/-! ## The sorted list -/

theorem insertFreq_perm (x : Nat × Nat) (l : List (Nat × Nat)) : (insertFreq x l).Perm (x :: l) := by
  induction l with
  | nil => exact List.Perm.refl _
  | cons y r ih =>
    unfold insertFreq
    split
    · exact List.Perm.refl _
    · exact ((List.Perm.cons y ih).trans (List.Perm.swap x y r))

theorem sortedFold_perm (freqs : Array Nat) (L : List Nat) (s : List (Nat × Nat)) :
    ((L.foldl (fun s c => if freqs[c]! = 0 then s else insertFreq (c, freqs[c]!) s) s).map
      Prod.fst).Perm (L.filter (fun c => freqs[c]! ≠ 0) ++ s.map Prod.fst) := by
  induction L generalizing s with
  | nil => exact List.Perm.refl _
  | cons a L ih =>
    rw [List.foldl_cons]
    refine (ih _).trans ?_
    by_cases h : freqs[a]! = 0
    · simp [h]
    · simp only [h, if_false, List.filter_cons, ne_eq, not_false_eq_true, decide_true, if_true]
      refine (((insertFreq_perm (a, freqs[a]!) s).map Prod.fst).append_left _).trans ?_
      simp

theorem sortedOf_perm (len : Nat) (freqs : Array Nat) :
    ((sortedOf len freqs).map Prod.fst).Perm
      ((List.range' 0 len).filter (fun c => freqs[c]! ≠ 0)) := by
  simpa [sortedOf] using sortedFold_perm freqs (List.range' 0 len) []

theorem sortedOf_nodup (len : Nat) (freqs : Array Nat) :
    ((sortedOf len freqs).map Prod.fst).Nodup :=
  (sortedOf_perm len freqs).nodup_iff.mpr (List.Nodup.sublist List.filter_sublist List.nodup_range')

theorem mem_sortedOf (len : Nat) (freqs : Array Nat) (c : Nat) :
    c ∈ (sortedOf len freqs).map Prod.fst ↔ c < len ∧ freqs[c]! ≠ 0 := by
  rw [(sortedOf_perm len freqs).mem_iff]
  simp

theorem sortedOf_length_le (len : Nat) (freqs : Array Nat) : (sortedOf len freqs).length ≤ len := by
  have h := (sortedOf_perm len freqs).length_eq
  have h2 := List.length_filter_le (fun c => decide (freqs[c]! ≠ 0)) (List.range' 0 len)
  simp only [List.length_map, List.length_range'] at h h2
  omega

/-! ## The table -/

theorem fillTable_size (l : List (Nat × Nat)) (t : Array Nat) (i : Nat) :
    (fillTable l t i).size = t.size := by
  induction l generalizing t i with
  | nil => rfl
  | cons x r ih => rw [fillTable, ih]; simp

theorem fillTable_not_mem (l : List (Nat × Nat)) (t : Array Nat) (i c : Nat)
    (hc : c ∉ l.map Prod.fst) : (fillTable l t i)[c]? = t[c]? := by
  induction l generalizing t i with
  | nil => rfl
  | cons x r ih =>
    simp only [List.map_cons, List.mem_cons, not_or] at hc
    rw [fillTable, ih _ _ hc.2, Array.getElem?_setIfInBounds_ne (Ne.symm hc.1)]

theorem fillTable_getElem (l : List (Nat × Nat)) (t : Array Nat) (i j : Nat)
    (hnd : (l.map Prod.fst).Nodup) (hlt : ∀ c ∈ l.map Prod.fst, c < t.size) (hj : j < l.length) :
    (fillTable l t i)[(l[j]).1]? = some (i + j) := by
  induction l generalizing t i j with
  | nil => simp at hj
  | cons x r ih =>
    simp only [List.map_cons, List.nodup_cons] at hnd
    rw [fillTable]
    cases j with
    | zero =>
      simp only [List.getElem_cons_zero, Nat.add_zero]
      rw [fillTable_not_mem _ _ _ _ hnd.1]
      exact Array.getElem?_setIfInBounds_self_of_lt (hlt x.1 (by simp))
    | succ j =>
      simp only [List.getElem_cons_succ]
      rw [ih _ _ _ hnd.2 (fun c hc => by simpa using hlt c (by simp [hc])) (by simpa using hj)]
      congr 1; omega

/-! ## `get` on `Mapper.ofFreqs` -/

theorem ofFreqs_table_idx (len : Nat) (freqs : Array Nat) (j : Nat)
    (hj : j < (sortedOf len freqs).length) :
    (Mapper.ofFreqs len freqs).table[((sortedOf len freqs)[j]).1]? = some j := by
  rw [Mapper.ofFreqs_eq]
  have h := fillTable_getElem (sortedOf len freqs) (Array.replicate len invalidCode) 0 j
    (sortedOf_nodup len freqs)
    (fun c hc => by simpa using ((mem_sortedOf len freqs c).mp hc).1) hj
  simpa using h

theorem ofFreqs_table_not_mem (len : Nat) (freqs : Array Nat) (c : Nat)
    (hc : c ∉ (sortedOf len freqs).map Prod.fst) :
    (Mapper.ofFreqs len freqs).get c = none := by
  unfold Mapper.get
  rw [Mapper.ofFreqs_eq]
  simp only
  rw [fillTable_not_mem _ _ _ _ hc, Array.getElem?_replicate]
  by_cases hl : c < len <;> simp [hl]

theorem ofFreqs_get_some (len : Nat) (freqs : Array Nat) (c k : Nat)
    (h : (Mapper.ofFreqs len freqs).get c = some k) :
    ∃ hk : k < (sortedOf len freqs).length, ((sortedOf len freqs)[k]).1 = c := by
  by_cases hc : c ∈ (sortedOf len freqs).map Prod.fst
  · obtain ⟨j, hj, hjc⟩ := List.getElem_of_mem hc
    simp only [List.length_map] at hj
    simp only [List.getElem_map] at hjc
    have ht := ofFreqs_table_idx len freqs j hj
    rw [hjc] at ht
    unfold Mapper.get at h
    rw [ht] at h
    simp only at h
    split at h
    · cases h
    · cases h; exact ⟨hj, hjc⟩
  · rw [ofFreqs_table_not_mem len freqs c hc] at h; cases h

theorem ofFreqs_get_idx (len : Nat) (freqs : Array Nat) (hsz : len < 4294967295) (j : Nat)
    (hj : j < (sortedOf len freqs).length) :
    (Mapper.ofFreqs len freqs).get ((sortedOf len freqs)[j]).1 = some j := by
  unfold Mapper.get
  rw [ofFreqs_table_idx len freqs j hj]
  have := sortedOf_length_le len freqs
  have hne : j ≠ invalidCode := by
    show j ≠ 4294967295
    omega
  simp [hne]

theorem ofFreqs_alphaSize (len : Nat) (freqs : Array Nat) :
    (Mapper.ofFreqs len freqs).alphaSize = (sortedOf len freqs).length := by
  rw [Mapper.ofFreqs_eq]

theorem ofFreqs_table_size (len : Nat) (freqs : Array Nat) :
    (Mapper.ofFreqs len freqs).table.size = len := by
  rw [Mapper.ofFreqs_eq]; simp [fillTable_size]

def MapperOk (m : Mapper) : Prop :=
  (∀ c k, m.get c = some k → k < m.alphaSize) ∧
  (∀ c c' k, m.get c = some k → m.get c' = some k → c = c')

theorem mapperOk_ofFreqs (len : Nat) (freqs : Array Nat) : MapperOk (Mapper.ofFreqs len freqs) := by
  refine ⟨fun c k h => ?_, fun c c' k h h' => ?_⟩
  · rw [ofFreqs_alphaSize]
    exact (ofFreqs_get_some len freqs c k h).1
  · obtain ⟨_, h1⟩ := ofFreqs_get_some len freqs c k h
    obtain ⟨_, h2⟩ := ofFreqs_get_some len freqs c' k h'
    rw [← h1, ← h2]

/-! ## Frequencies of the labels of a collection -/

theorem foldl_max_ge (L : List Nat) (m : Nat) :
    m ≤ L.foldl max m ∧ ∀ c ∈ L, c ≤ L.foldl max m := by
  induction L generalizing m with
  | nil => simp
  | cons a L ih =>
    simp only [List.foldl_cons, List.mem_cons]
    have h := ih (max m a)
    refine ⟨by omega, fun c hc => ?_⟩
    rcases hc with rfl | hc
    · omega
    · exact h.2 c hc

theorem label_lt_tableLen (P : List (LPat V)) (p : LPat V) (hp : p ∈ P) (c : Nat)
    (hc : c ∈ p.key) : c < tableLen P := by
  have hany : P.any (fun p => !p.key.isEmpty) = true := by
    rw [List.any_eq_true]
    refine ⟨p, hp, ?_⟩
    cases hk : p.key with
    | nil => rw [hk] at hc; cases hc
    | cons a r => rfl
  have hm : maxLabel P = (P.flatMap (·.key)).foldl max 0 := by
    simp [maxLabel, List.foldl_flatMap]
  have hle := (foldl_max_ge (P.flatMap (·.key)) 0).2 c (List.mem_flatMap.mpr ⟨p, hp, hc⟩)
  unfold tableLen
  rw [hany, hm]
  simp only [if_true]
  omega

theorem bump_size (a : Array Nat) (c : Nat) : (bump a c).size = a.size := by simp [bump]

theorem bump_get (a : Array Nat) (c d : Nat) :
    (bump a c)[d]! = if c = d ∧ d < a.size then a[d]! + 1 else a[d]! := by
  unfold bump
  by_cases hd : d < a.size
  · by_cases hcd : c = d <;> simp [Array.getElem_modify, hd, hcd]
  · simp [hd]

theorem foldl_bump_size (L : List Nat) (a : Array Nat) : (L.foldl bump a).size = a.size := by
  induction L generalizing a with
  | nil => rfl
  | cons x L ih => rw [List.foldl_cons, ih, bump_size]

theorem foldl_bump_mono (L : List Nat) (a : Array Nat) (d : Nat) :
    a[d]! ≤ (L.foldl bump a)[d]! := by
  induction L generalizing a with
  | nil => exact Nat.le_refl _
  | cons x L ih =>
    rw [List.foldl_cons]
    refine Nat.le_trans ?_ (ih _)
    rw [bump_get]; split <;> omega

theorem foldl_bump_pos (L : List Nat) (a : Array Nat) (d : Nat) (hd : d < a.size) (hm : d ∈ L) :
    (L.foldl bump a)[d]! ≠ 0 := by
  induction L generalizing a with
  | nil => cases hm
  | cons x L ih =>
    rw [List.foldl_cons]
    rcases List.mem_cons.mp hm with rfl | hm
    · have h1 := foldl_bump_mono L (bump a d) d
      have h2 := bump_get a d d
      simp only [hd, and_self, if_true] at h2
      omega
    · exact ih _ (by rw [bump_size]; exact hd) hm

theorem freqsOf_label_ne_zero (P : List (LPat V)) (p : LPat V) (hp : p ∈ P) (c : Nat)
    (hc : c ∈ p.key) : (freqsOf (tableLen P) P)[c]! ≠ 0 := by
  unfold freqsOf
  exact foldl_bump_pos _ _ c (by simpa using label_lt_tableLen P p hp c hc)
    (List.mem_flatMap.mpr ⟨p, hp, hc⟩)

/-! ## Main theorems -/

/-- Codes are dense and injective (no size hypothesis needed: a rank equal to `invalidCode`
would merely be read as "unmapped"). -/
theorem mapperOk_build' (P : List (LPat V)) : MapperOk (Mapper.build P) := by
  rw [Mapper.build_eq]; exact mapperOk_ofFreqs _ _

theorem mapperOk_build (P : List (LPat V)) (_hsz : tableLen P < 4294967295) :
    MapperOk (Mapper.build P) := mapperOk_build' P

theorem mapper_maps_labels (P : List (LPat V)) (hsz : tableLen P < 4294967295) :
    ∀ p ∈ P, ∀ c ∈ p.key, ∃ k, (Mapper.build P).get c = some k := by
  intro p hp c hc
  rw [Mapper.build_eq]
  have hmem := (mem_sortedOf (tableLen P) (freqsOf (tableLen P) P) c).mpr
    ⟨label_lt_tableLen P p hp c hc, freqsOf_label_ne_zero P p hp c hc⟩
  obtain ⟨j, hj, hjc⟩ := List.getElem_of_mem hmem
  simp only [List.length_map] at hj
  simp only [List.getElem_map] at hjc
  exact ⟨j, hjc ▸ ofFreqs_get_idx _ _ hsz j hj⟩

theorem mapper_alpha_le (P : List (LPat V)) :
    (Mapper.build P).alphaSize ≤ tableLen P ∧ (Mapper.build P).table.size = tableLen P := by
  rw [Mapper.build_eq, ofFreqs_alphaSize, ofFreqs_table_size]
  exact ⟨sortedOf_length_le _ _, rfl⟩

/-- Only code points below the table length with non-zero frequency are mapped. -/
theorem mapper_get_some_used (P : List (LPat V)) (c k : Nat)
    (h : (Mapper.build P).get c = some k) :
    c < tableLen P ∧ (freqsOf (tableLen P) P)[c]! ≠ 0 := by
  rw [Mapper.build_eq] at h
  obtain ⟨hk, hkc⟩ := ofFreqs_get_some _ _ c k h
  refine (mem_sortedOf _ _ c).mp ?_
  rw [← hkc]
  exact List.mem_map.mpr ⟨_, List.getElem_mem hk, rfl⟩

#print axioms mapperOk_build
#print axioms mapper_maps_labels
#print axioms mapper_alpha_le
end Daac

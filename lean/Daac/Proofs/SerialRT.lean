/-
Serialisation round trip (property C09): `deserialize (serialize da ++ rest) = some (da, rest)` for
every well-formed automaton value (not only built ones), both variants.
-/
import Daac.Model.Serial
namespace Daac
variable {V : Type}

/-! ### 1. Little-endian bytes -/

theorem leBytes_length (w x : Nat) : (leBytes w x).length = w := by
  induction w generalizing x with
  | zero => rfl
  | succ w ih => simp [leBytes, ih]

theorem leNat_leBytes (w x : Nat) : leNat (leBytes w x) = x % 256 ^ w := by
  induction w generalizing x with
  | zero => simp [leBytes, leNat, Nat.mod_one]
  | succ w ih =>
    simp only [leBytes, leNat, ih]
    rw [Nat.pow_succ', Nat.mod_mul]

theorem leBytes_lt (w x : Nat) : ∀ b ∈ leBytes w x, b < 256 := by
  induction w generalizing x with
  | zero => simp [leBytes]
  | succ w ih =>
    intro b hb
    simp only [leBytes, List.mem_cons] at hb
    rcases hb with rfl | hb
    · exact Nat.mod_lt _ (by decide)
    · exact ih _ b hb

/-! ### 2. `u32` -/

theorem serU32_length (x : Nat) : (serU32 x).length = 4 := leBytes_length 4 x

theorem deU32_serU32 (x : Nat) (hx : x < 2 ^ 32) (r : List Nat) :
    deU32 (serU32 x ++ r) = some (x, r) := by
  have h := leNat_leBytes 4 x
  have hx' : x % 256 ^ 4 = x := Nat.mod_eq_of_lt (by simpa using hx)
  rw [hx'] at h
  simp only [serU32, leBytes] at h ⊢
  simp only [List.cons_append, List.nil_append, deU32, h]

/-! ### 3. States -/

/-- Field ranges of a state for which the fixed-width encoding is lossless. -/
structure St.WF (v : Variant) (s : St) : Prop where
  base : s.base < 2 ^ 32
  check : s.check < 2 ^ 32
  fail : s.fail < 2 ^ 32
  opos : s.opos < 2 ^ 32
  bcheck : v = .bytewise → s.check < 256
  bopos : v = .bytewise → s.opos < 2 ^ 24

theorem pack_lt (o c : Nat) (ho : o < 2 ^ 24) (hc : c < 256) : (o <<< 8) ||| c < 2 ^ 32 := by
  rw [← Nat.shiftLeft_add_eq_or_of_lt (i := 8) (by simpa using hc), Nat.shiftLeft_eq]
  omega

theorem pack_and (o c : Nat) (hc : c < 256) : ((o <<< 8) ||| c) &&& 255 = c := by
  rw [← Nat.shiftLeft_add_eq_or_of_lt (i := 8) (by simpa using hc), Nat.shiftLeft_eq]
  have : (255 : Nat) = 2 ^ 8 - 1 := by decide
  rw [this, Nat.and_two_pow_sub_one_eq_mod]
  omega

theorem pack_shift (o c : Nat) (hc : c < 256) : ((o <<< 8) ||| c) >>> 8 = o := by
  rw [← Nat.shiftLeft_add_eq_or_of_lt (i := 8) (by simpa using hc), Nat.shiftLeft_eq,
    Nat.shiftRight_eq_div_pow]
  omega

theorem serSt_length (v : Variant) (s : St) : (serSt v s).length = stWidth v := by
  cases v <;> simp [serSt, stWidth, serU32_length]

theorem deSt_serSt (v : Variant) (s : St) (h : s.WF v) (r : List Nat) :
    deSt v (serSt v s ++ r) = some (s, r) := by
  cases v with
  | bytewise =>
    have hc := h.bcheck rfl
    have ho := h.bopos rfl
    simp only [serSt, deSt, List.append_assoc, deU32_serU32 _ h.base, deU32_serU32 _ h.fail,
      deU32_serU32 _ (pack_lt _ _ ho hc), pack_and _ _ hc, pack_shift _ _ hc]
  | charwise =>
    simp only [serSt, deSt, List.append_assoc, deU32_serU32 _ h.base, deU32_serU32 _ h.fail,
      deU32_serU32 _ h.check, deU32_serU32 _ h.opos]

/-! ### 4. Value types and outputs -/

/-- The `Serializable` law restricted to a domain `D` of values (e.g. the range of `u32`). -/
structure Ser.LawfulOn (S : Ser V) (D : V → Prop) : Prop where
  len : ∀ v, D v → (S.enc v).length = S.width
  dec_enc : ∀ v r, D v → S.dec (S.enc v ++ r) = v

theorem Ser.Lawful.lawfulOn {S : Ser V} (h : S.Lawful) (D : V → Prop) : S.LawfulOn D :=
  ⟨fun v _ => h.len v, fun v r _ => h.dec_enc v r⟩

/-- An output record whose fields survive the encoding. -/
structure Out.WF (D : V → Prop) (o : Out V) : Prop where
  value : D o.value
  length : o.length < 2 ^ 32
  parent : o.parent < 2 ^ 32

theorem serOut_length (S : Ser V) (D : V → Prop) (hS : S.LawfulOn D) (o : Out V) (h : D o.value) :
    (serOut S o).length = S.width + 8 := by
  simp [serOut, serU32_length, hS.len _ h]

theorem deOut_serOut (S : Ser V) (D : V → Prop) (hS : S.LawfulOn D) (o : Out V) (h : o.WF D)
    (r : List Nat) : deOut S (serOut S o ++ r) = some (o, r) := by
  have hl := hS.len _ h.value
  have hd := hS.dec_enc o.value (serU32 o.length ++ (serU32 o.parent ++ r)) h.value
  have htake : ¬ (List.take S.width (S.enc o.value ++ (serU32 o.length ++ (serU32 o.parent ++ r)))).length
      < S.width := by
    rw [List.take_left' hl]; omega
  simp only [serOut, deOut, List.append_assoc, htake, if_false, List.drop_left' hl,
    deU32_serU32 _ h.length, deU32_serU32 _ h.parent, hd]

theorem serUnsigned_lawfulOn (w : Nat) :
    (serUnsigned w).LawfulOn (fun v => 0 ≤ v ∧ v < 256 ^ w) where
  len v _ := leBytes_length w v.toNat
  dec_enc v r h := by
    show Int.ofNat (leNat ((leBytes w v.toNat ++ r).take w)) = v
    rw [List.take_left' (leBytes_length w _), leNat_leBytes]
    have h1 : v.toNat < 256 ^ w := by
      have h2 := h.2
      have hc : ((256 ^ w : Nat) : Int) = (256 : Int) ^ w := by simp
      omega
    rw [Nat.mod_eq_of_lt h1]
    show ((v.toNat : Nat) : Int) = v
    omega

theorem serSigned_lawfulOn (w : Nat) (hw : 1 ≤ w) :
    (serSigned w).LawfulOn (fun v => -(2 ^ (8 * w - 1)) ≤ v ∧ v < 2 ^ (8 * w - 1)) where
  len v _ := leBytes_length w _
  dec_enc v r h := by
    obtain ⟨hlo, hhi⟩ := h
    have hpow : (2 : Nat) ^ (8 * w) = 2 * 2 ^ (8 * w - 1) := by
      rw [← Nat.pow_succ']; congr 1; omega
    have h256 : (256 : Nat) ^ w = 2 ^ (8 * w) := by
      rw [Nat.pow_mul]
    generalize hH : (2 : Nat) ^ (8 * w - 1) = H at hpow
    have hHi : ((2 : Int) ^ (8 * w - 1)) = (H : Int) := by
      rw [← hH]; simp
    rw [hHi] at hlo hhi
    show (let n := leNat ((leBytes w (v % ((2 ^ (8 * w) : Nat) : Int)).toNat ++ r).take w)
          if n < 2 ^ (8 * w - 1) then Int.ofNat n else Int.ofNat n - Int.ofNat (2 ^ (8 * w))) = v
    rw [List.take_left' (leBytes_length w _), leNat_leBytes, h256, hH, hpow]
    have hmod : (v % ((2 * H : Nat) : Int)) = if 0 ≤ v then v else v + 2 * H := by
      split
      · exact Int.emod_eq_of_lt ‹_› (by omega)
      · rw [← Int.add_emod_right]
        exact Int.emod_eq_of_lt (by omega) (by omega)
    rw [hmod]
    by_cases hv : 0 ≤ v
    · simp only [hv, if_true]
      have e : v.toNat % (2 * H) = v.toNat := Nat.mod_eq_of_lt (by omega)
      simp only [e]
      have : v.toNat < H := by omega
      simp only [this, if_true]
      show ((v.toNat : Nat) : Int) = v
      omega
    · simp only [hv, if_false]
      have e : (v + 2 * (H : Int)).toNat % (2 * H) = (v + 2 * (H : Int)).toNat :=
        Nat.mod_eq_of_lt (by omega)
      simp only [e]
      have : ¬ (v + 2 * (H : Int)).toNat < H := by omega
      simp only [this, if_false]
      show (((v + 2 * (H : Int)).toNat : Nat) : Int) - ((2 * H : Nat) : Int) = v
      omega

theorem serEmpty_lawfulOn : serEmpty.LawfulOn (fun v => v = 0) where
  len _ _ := rfl
  dec_enc _ _ h := h.symm

/-! ### 5. Vectors -/

theorem deMany_flatMap {α : Type} (f : List Nat → Option (α × List Nat)) (g : α → List Nat)
    (xs : List α) (h : ∀ x ∈ xs, ∀ r, f (g x ++ r) = some (x, r)) (r : List Nat) :
    deMany f xs.length (xs.flatMap g ++ r) = some (xs, r) := by
  induction xs with
  | nil => simp [deMany]
  | cons x xs ih =>
    have hx := h x (List.mem_cons_self ..) (xs.flatMap g ++ r)
    have ih' := ih (fun y hy => h y (List.mem_cons_of_mem _ hy))
    simp only [List.length_cons, List.flatMap_cons, List.append_assoc, deMany, hx, ih']

theorem deVec_serVec {α : Type} (f : List Nat → Option (α × List Nat)) (g : α → List Nat)
    (xs : List α) (h : ∀ x ∈ xs, ∀ r, f (g x ++ r) = some (x, r)) (hl : xs.length < 2 ^ 32)
    (r : List Nat) : deVec f (serVec g xs ++ r) = some (xs, r) := by
  simp only [serVec, deVec, List.append_assoc, deU32_serU32 _ hl, deMany_flatMap f g xs h r]

theorem serVec_length {α : Type} (g : α → List Nat) (w : Nat) (xs : List α)
    (h : ∀ x ∈ xs, (g x).length = w) : (serVec g xs).length = 4 + w * xs.length := by
  have : (xs.flatMap g).length = w * xs.length := by
    induction xs with
    | nil => simp
    | cons x xs ih =>
      have hx := h x (List.mem_cons_self ..)
      have := ih (fun y hy => h y (List.mem_cons_of_mem _ hy))
      simp only [List.flatMap_cons, List.length_append, List.length_cons, hx, this, Nat.mul_succ]
      omega
  simp [serVec, serU32_length, this]

/-! ### 6. The automaton -/

theorem decodeKind_eq : ∀ k ∈ [0, 1, 2], decodeKind k = k := by decide

/-- Automaton values for which `serialize` is lossless: every number fits its fixed width, values
are in the domain `D` on which `S` is lawful, the kind is one of the three kind bytes, and the
byte-wise automaton carries no code mapper. -/
structure DA.WF (S : Ser V) (D : V → Prop) (da : DA V) : Prop where
  states : ∀ s ∈ da.states.toList, s.WF da.variant
  outputs : ∀ o ∈ da.outputs.toList, o.WF D
  statesSize : da.states.size < 2 ^ 32
  outputsSize : da.outputs.size < 2 ^ 32
  mapSize : da.mapTable.size < 2 ^ 32
  mapEntries : ∀ c ∈ da.mapTable.toList, c < 2 ^ 32
  alpha : da.alphaSize < 2 ^ 32
  numStates : da.numStates < 2 ^ 32
  kind : da.kind ∈ [0, 1, 2]
  bytewise : da.variant = .bytewise → da.mapTable = #[] ∧ da.alphaSize = 0

theorem deserialize_serialize (S : Ser V) (D : V → Prop) (hS : S.LawfulOn D) (da : DA V)
    (h : da.WF S D) (rest : List Nat) :
    deserialize S da.variant (serialize S da ++ rest) = some (da, rest) := by
  obtain ⟨variant, states, outputs, mapTable, alphaSize, kind, numStates⟩ := da
  have hst := h.states
  have hout := h.outputs
  have h1 := h.statesSize
  have h2 := h.outputsSize
  have h3 := h.mapSize
  have h4 := h.mapEntries
  have h5 := h.alpha
  have h6 := h.numStates
  have hk := decodeKind_eq kind h.kind
  have hb := h.bytewise
  simp only at hst hout h1 h2 h3 h4 h5 h6 hk hb
  have eStates : ∀ r, deVec (deSt variant) (serVec (serSt variant) states.toList ++ r)
      = some (states.toList, r) :=
    fun r => deVec_serVec _ _ _ (fun s hs r => deSt_serSt variant s (hst s hs) r)
      (by simpa using h1) r
  have eOuts : ∀ r, deVec (deOut S) (serVec (serOut S) outputs.toList ++ r)
      = some (outputs.toList, r) :=
    fun r => deVec_serVec _ _ _ (fun o ho r => deOut_serOut S D hS o (hout o ho) r)
      (by simpa using h2) r
  have eMap : ∀ r, deVec deU32 (serVec serU32 mapTable.toList ++ r)
      = some (mapTable.toList, r) :=
    fun r => deVec_serVec _ _ _ (fun c hc r => deU32_serU32 c (h4 c hc) r)
      (by simpa using h3) r
  cases variant with
  | bytewise =>
    obtain ⟨hm, ha⟩ := hb rfl
    subst hm ha
    simp only [serialize, deserialize, List.append_assoc, eStates, eOuts, List.nil_append,
      List.cons_append, deU32_serU32 _ h6, hk, Array.toArray_toList]
  | charwise =>
    simp only [serialize, deserialize, List.append_assoc, eStates, eOuts, eMap, List.nil_append,
      List.cons_append, deU32_serU32 _ h6, deU32_serU32 _ h5, hk, Array.toArray_toList]

theorem reserialize (S : Ser V) (D : V → Prop) (hS : S.LawfulOn D) (da : DA V) (h : da.WF S D)
    (rest : List Nat) (da' : DA V) (rest' : List Nat)
    (hd : deserialize S da.variant (serialize S da ++ rest) = some (da', rest')) :
    serialize S da' = serialize S da ∧ rest' = rest := by
  rw [deserialize_serialize S D hS da h rest] at hd
  cases hd
  exact ⟨rfl, rfl⟩

theorem serialize_length (S : Ser V) (D : V → Prop) (hS : S.LawfulOn D) (da : DA V)
    (h : da.WF S D) :
    (serialize S da).length =
      4 + stWidth da.variant * da.states.size
      + (match da.variant with
         | .bytewise => 0
         | .charwise => 4 + 4 * da.mapTable.size + 4)
      + (4 + (S.width + 8) * da.outputs.size) + 1 + 4 := by
  have e1 := serVec_length (serSt da.variant) (stWidth da.variant) da.states.toList
    (fun s _ => serSt_length da.variant s)
  have e2 := serVec_length (serOut S) (S.width + 8) da.outputs.toList
    (fun o ho => serOut_length S D hS o (h.outputs o ho).value)
  have e3 := serVec_length serU32 4 da.mapTable.toList (fun c _ => serU32_length c)
  simp only [Array.length_toList] at e1 e2 e3
  unfold serialize
  cases hv : da.variant <;>
    simp only [hv, List.length_append, List.length_cons, List.length_nil, serU32_length,
      e2, e3] at * <;> omega

/-! ### 7. Non-vacuity: the hypotheses are satisfiable by a non-trivial automaton value -/

/-- A small char-wise leftmost-first automaton value with a code mapper. -/
def exampleDA : DA Int where
  variant := .charwise
  states := #[⟨3, 0, 0, 0⟩, ⟨0, 1, 1, 0⟩, ⟨0, 0, 0, 1⟩, ⟨2, 0, 0, 2⟩]
  outputs := #[⟨7, 1, 0⟩, ⟨4294967295, 2, 1⟩]
  mapTable := #[4294967295, 0, 1]
  alphaSize := 2
  kind := 2
  numStates := 3

theorem exampleDA_wf : exampleDA.WF (serUnsigned 4) (fun v => 0 ≤ v ∧ v < 256 ^ 4) where
  states := by
    intro s hs
    simp only [exampleDA, List.mem_cons, List.not_mem_nil, or_false] at hs
    rcases hs with rfl | rfl | rfl | rfl <;> constructor <;> simp [exampleDA]
  outputs := by
    intro o ho
    simp only [exampleDA, List.mem_cons, List.not_mem_nil, or_false] at ho
    rcases ho with rfl | rfl <;> constructor <;> simp
  statesSize := by simp [exampleDA]
  outputsSize := by simp [exampleDA]
  mapSize := by simp [exampleDA]
  mapEntries := by simp [exampleDA]
  alpha := by simp [exampleDA]
  numStates := by simp [exampleDA]
  kind := by simp [exampleDA]
  bytewise := by simp [exampleDA]

example (rest : List Nat) :
    deserialize (serUnsigned 4) .charwise (serialize (serUnsigned 4) exampleDA ++ rest)
      = some (exampleDA, rest) :=
  deserialize_serialize _ _ (serUnsigned_lawfulOn 4) exampleDA exampleDA_wf rest


end Daac

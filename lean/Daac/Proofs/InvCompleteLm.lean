/-
Completeness of the evaluated leftmost invariant on model-built tables (converse of Rung 1 for
the tables the model builder returns): `DA.leftmostInv` and `DA.sizeInv` evaluate to `true` on
every automaton `buildDA` returns for the leftmost kinds. Hence the runtime check can never raise
a false alarm on tables equal to the model's.
-/
import Daac.Proofs.Stats2
import Daac.InvExtra
namespace Daac.InvCLm
open Daac
set_option linter.unusedSectionVars false
variable {V : Type} [DecidableEq V]

/-! ### What the proof needs of a table -/

/-- The table mirrors the trie of `P` and has the leftmost semantics. -/
structure Mirror (da : DA V) (P : List (LPat V)) : Prop where
  sem : LmSem da P
  lab : ∀ u ∈ nodeList P, ∀ c ∈ u, LabelOk da c
  walk_node : ∀ u ∈ nodeList P, da.walk u = some (da.idx u)
  child_some : ∀ u ∈ nodeList P, ∀ c, LabelOk da c → u ++ [c] ∈ nodeList P →
    da.childL (da.idx u) c = .ok (some (da.idx (u ++ [c])))
  child_none : ∀ u ∈ nodeList P, ∀ c, LabelOk da c → u ++ [c] ∉ nodeList P →
    da.childL (da.idx u) c = .ok none
  nondead : ∀ u ∈ nodeList P, u ≠ [] → da.idx u ≠ deadIdx

theorem mirror_of_layout {da : DA V} {t : Trie V} {idx : List Nat → Nat} {P : List (LPat V)}
    (hL : LayoutSem da t (buildNfa t true) idx) (hS : TrieSem t P) (hsort : t.Sorted)
    (hlab : ∀ u, t.hasNode u = true → ∀ c ∈ u, LabelOk da c)
    (hD : ∀ u, t.hasNode u = true → u.length < da.states.size) : Mirror da P where
  sem := lmSem_of_layout hL hS hsort hlab hD
  lab := fun u hu => hlab u ((hS.nodes u).2 hu)
  walk_node := fun u hu => by
    have hn := (hS.nodes u).2 hu
    rw [idx_eq_walk hL hS hlab u hn]
    exact walk_eq_idx hL hS hlab u hn
  child_some := fun u hu c hc hm => by
    have hn := (hS.nodes u).2 hu
    have hm' := (hS.nodes _).2 hm
    rw [idx_eq_walk hL hS hlab u hn, idx_eq_walk hL hS hlab _ hm', hL.child u hn c hc, if_pos hm']
  child_none := fun u hu c hc hm => by
    have hn := (hS.nodes u).2 hu
    have hm' : ¬ t.hasNode (u ++ [c]) = true := fun h => hm ((hS.nodes _).1 h)
    rw [idx_eq_walk hL hS hlab u hn, hL.child u hn c hc, if_neg hm']
  nondead := fun u hu hne => by
    have hn := (hS.nodes u).2 hu
    rw [idx_eq_walk hL hS hlab u hn]
    exact (hL.nonroot u hn hne).2

/-! ### Walking -/

theorem walk_none_of_not_node {da : DA V} {P : List (LPat V)} (hM : Mirror da P) :
    ∀ (n : Nat) (s : List Nat), s.length = n → (∀ c ∈ s, LabelOk da c) → s ∉ nodeList P →
      da.walk s = none := by
  intro n
  induction n with
  | zero =>
    intro s hlen _ hs
    have : s = [] := List.eq_nil_of_length_eq_zero hlen
    subst this
    exact absurd (nodeList_prefClosed P).nil_mem hs
  | succ n ih =>
    intro s hlen hl hs
    rcases List.eq_nil_or_concat s with h0 | ⟨w, c, hwc⟩
    · subst h0; simp at hlen
    rw [List.concat_eq_append] at hwc
    subst hwc
    have hlw : ∀ d ∈ w, LabelOk da d := fun d hd => hl d (by simp [hd])
    unfold DA.walk
    rw [walkFrom_append]
    by_cases hw : w ∈ nodeList P
    · have := hM.walk_node w hw
      unfold DA.walk at this
      rw [this]
      simp [DA.walkFrom, hM.child_none w hw c (hl c (by simp)) hs]
    · have := ih w (by simp at hlen; omega) hlw hw
      unfold DA.walk at this
      rw [this]
      rfl

theorem walk_isSome_iff {da : DA V} {P : List (LPat V)} (hM : Mirror da P) {s : List Nat}
    (hl : ∀ c ∈ s, LabelOk da c) : (da.walk s).isSome ↔ s ∈ nodeList P := by
  constructor
  · intro h
    apply Classical.byContradiction
    intro hs
    rw [walk_none_of_not_node hM s.length s rfl hl hs] at h
    simp at h
  · intro h
    rw [hM.walk_node s h]
    rfl

theorem lsufIdx_eq {da : DA V} {P : List (LPat V)} (hM : Mirror da P) {x : List Nat}
    (hl : ∀ c ∈ x, LabelOk da c) :
    da.lsufIdx x = (lsuf (nodeList P) x, da.idx (lsuf (nodeList P) x)) := by
  unfold DA.lsufIdx lsuf
  apply head_filterMap_walk_pair
  intro s hs
  apply walk_isSome_iff hM
  intro c hc
  exact hl c ((mem_sufs.1 hs).subset hc)

theorem deltaLIdx_eq {da : DA V} {P : List (LPat V)} (hM : Mirror da P) {u : List Nat}
    (hu : u ∈ nodeList P) {c : Nat} (hc : LabelOk da c) :
    da.deltaLIdx (bestIn P u 0) u c = da.idx (deltaL P u c) := by
  have hl : ∀ d ∈ u ++ [c], LabelOk da d := by
    intro d hd
    rcases List.mem_append.1 hd with hd | hd
    · exact hM.lab u hu d hd
    · simp at hd; exact hd ▸ hc
  unfold DA.deltaLIdx deltaL
  rw [lsufIdx_eq hM hl]
  cases hb : bestIn P u 0 with
  | none => rfl
  | some sp =>
    obtain ⟨s, p⟩ := sp
    simp only
    split
    · exact (idx_nil da).symm
    · rfl

/-! ### The clauses of `checkNodeLm` at a node -/

theorem heads_ok {da : DA V} {P : List (LPat V)} (hM : Mirror da P) {u : List Nat}
    (hu : u ∈ nodeList P) :
    (resid P u).all (fun p => match p.key with | [] => true | k :: _ => da.sigma.contains k)
      = true := by
  rw [List.all_eq_true]
  intro p hp
  cases hk : p.key with
  | nil => rfl
  | cons k ks =>
    simp only [List.contains_eq_mem, decide_eq_true_eq]
    obtain ⟨q, hq, hqk, _, _⟩ := mem_resid.1 hp
    have hm : u ++ [k] ∈ nodeList P := by
      refine mem_nodeList.2 (Or.inr ⟨q, hq, ?_⟩)
      rw [hqk, hk]
      exact ⟨ks, by simp⟩
    rcases hM.lab _ hm k (by simp) with h | h
    · exact h
    · exfalso
      have h1 := hM.child_some u hu k (Or.inr h) hm
      rw [childL_of_code_none _ h] at h1
      cases h1

theorem g1_ok {da : DA V} {P : List (LPat V)} (hM : Mirror da P) {u : List Nat}
    (hu : u ∈ nodeList P) :
    ∃ st, da.st (da.idx u) = .ok st ∧ da.g1Ok (bestIn P u 0) st u = true := by
  obtain ⟨st, hst, h⟩ := hM.sem.out_ok u hu
  refine ⟨st, hst, ?_⟩
  unfold oposL at h
  unfold DA.g1Ok
  cases hb : bestIn P u 0 with
  | none =>
    rw [hb] at h
    simpa using h
  | some sp =>
    obtain ⟨s, p⟩ := sp
    rw [hb] at h
    simp only at h ⊢
    by_cases hlen : s + p.key.length = u.length
    · simp only [hlen, if_true] at h ⊢
      obtain ⟨_, o, ho, hv, hl⟩ := h
      rw [ho]
      simp [hv, hl]
    · simp only [hlen, if_false] at h ⊢
      simpa using h

theorem probe_ok {da : DA V} {P : List (LPat V)} (hM : Mirror da P) {u : List Nat}
    (hu : u ∈ nodeList P) {probe : List Nat} (hp : ∀ c ∈ probe, LabelOk da c) :
    (probe.all fun c =>
        match da.nextLm (da.idx u) c with
        | .ok j => j == da.deltaLIdx (bestIn P u 0) u c
        | .error _ => false) = true := by
  rw [List.all_eq_true]
  intro c hc
  rw [hM.sem.next_ok u hu c (hp c hc), deltaLIdx_eq hM hu (hp c hc)]
  simp

theorem mem_sigma_labelOk {da : DA V} {c : Nat} (h : c ∈ da.sigma) : LabelOk da c := Or.inl h

/-- The evaluated check passes at every node with enough fuel. -/
theorem check_node {da : DA V} {P : List (LPat V)} (hM : Mirror da P) {probe : List Nat}
    (hp : ∀ c ∈ probe, LabelOk da c) :
    ∀ (fuel : Nat) (u : List Nat), u ∈ nodeList P → maxKeyLen P < u.length + fuel →
      da.checkNodeLm P da.sigma probe fuel (da.idx u) u (resid P u) = true := by
  intro fuel
  induction fuel with
  | zero =>
    intro u hu hlen
    have := node_length_le hu
    omega
  | succ fuel ih =>
    intro u hu hlen
    obtain ⟨st, hst, hg1⟩ := g1_ok hM hu
    unfold DA.checkNodeLm
    rw [hst]
    simp only [Bool.and_eq_true]
    refine ⟨⟨⟨heads_ok hM hu, hg1⟩, probe_ok hM hu hp⟩, ?_⟩
    rw [List.all_eq_true]
    intro c hc
    have hcl := mem_sigma_labelOk hc
    by_cases hm : u ++ [c] ∈ nodeList P
    · rw [hM.child_some u hu c hcl hm]
      simp only [Bool.and_eq_true, Bool.not_eq_true', bne_iff_ne, ne_eq]
      have hne : u ++ [c] ≠ [] := by simp
      have hres : stepRes (resid P u) c ≠ [] := by
        rw [stepRes_resid]
        rcases mem_nodeList.1 hm with h | h
        · exact absurd h hne
        · exact resid_ne_nil_iff.2 h
      refine ⟨⟨⟨?_, ?_⟩, hM.nondead _ hm hne⟩, ?_⟩
      · cases hr : stepRes (resid P u) c with
        | nil => exact absurd hr hres
        | cons _ _ => rfl
      · intro h0
        exact hne ((hM.sem.idx_root_iff _ hm).1 h0)
      · rw [stepRes_resid]
        exact ih (u ++ [c]) hm (by simp; omega)
    · rw [hM.child_none u hu c hcl hm]
      simp only
      rw [stepRes_resid]
      cases hr : resid P (u ++ [c]) with
      | nil => rfl
      | cons a l =>
        exfalso
        exact hm (mem_nodeList.2 (Or.inr (resid_ne_nil_iff.1 (by rw [hr]; simp))))

/-! ### The probe labels are `LabelOk` -/

theorem leftmostInv_of_mirror {da : DA V} {P : List (LPat V)} (hM : Mirror da P) :
    da.leftmostInv P = true := by
  unfold DA.leftmostInv
  show da.checkNodeLm P da.sigma _ (maxKeyLen P + 1) (da.idx []) [] (resid P []) = true
  refine check_node hM ?_ _ _ (nodeList_prefClosed P).nil_mem (by simp)
  intro c hc
  split at hc
  · exact Or.inl hc
  · rename_i hv
    rcases List.mem_cons.1 hc with rfl | hc
    · right
      simp [DA.code, hv]
    · exact Or.inl hc

/-! ### `sizeInv` -/

theorem maxKeyLen_attained (P : List (LPat V)) :
    maxKeyLen P = 0 ∨ ∃ p ∈ P, p.key.length = maxKeyLen P := by
  suffices H : ∀ (P : List (LPat V)) (m : Nat),
      P.foldl (fun m p => max m p.key.length) m = m ∨
        ∃ p ∈ P, p.key.length = P.foldl (fun m p => max m p.key.length) m from H P 0
  intro P
  induction P with
  | nil => intro m; left; rfl
  | cons q P ih =>
    intro m
    simp only [List.foldl_cons, List.mem_cons, exists_eq_or_imp]
    rcases ih (max m q.key.length) with h | ⟨p, hp, h⟩
    · rw [h]
      by_cases hq : q.key.length ≤ m
      · left; omega
      · right; left; omega
    · right; right; exact ⟨p, hp, h⟩

theorem outFold_size (t : Trie V) (fm : FailMap) (P : List (LPat V)) (hS : TrieSem t P) :
    ∀ (L : List (List Nat)) (a : OutAcc V),
      (L.foldl (outStep t fm) a).outs.size = a.outs.size + (L.filter (isKeyOf P)).length := by
  intro L
  induction L with
  | nil => intro a; simp
  | cons s L ih =>
    intro a
    rw [List.foldl_cons, ih]
    have hout := hS.outs s
    cases hfind : P.find? (fun p => p.key = s) with
    | some p =>
      rw [hfind] at hout
      have hkey : isKeyOf P s = true := by simp [isKeyOf, hfind]
      rw [outStep_some hout, List.filter_cons_of_pos hkey]
      simp only [Array.size_push, List.length_cons]
      omega
    | none =>
      rw [hfind] at hout
      have hkey : ¬ isKeyOf P s = true := by simp [isKeyOf, hfind]
      rw [outStep_none hout, List.filter_cons_of_neg hkey]

/-- One output record per pattern, whatever the fail map. -/
theorem outs_size {t : Trie V} {P : List (LPat V)} (hS : TrieSem t P) (hsort : t.Sorted)
    (fm : FailMap) : (buildOutAcc t fm).outs.size = P.length := by
  unfold buildOutAcc
  rw [outFold_size t fm P hS]
  have hperm : (t.queue.filter (isKeyOf P)).Perm (P.map (·.key)) := by
    rw [List.perm_ext_iff_of_nodup (List.filter_sublist.nodup (Trie.nodup_queue t hsort)) hS.keys]
    intro a
    simp only [List.mem_filter, Trie.mem_queue, isKeyOf, List.find?_isSome, List.mem_map,
      decide_eq_true_eq]
    constructor
    · rintro ⟨_, p, hp, hk⟩; exact ⟨p, hp, hk⟩
    · rintro ⟨p, hp, hk⟩
      subst hk
      exact ⟨⟨(hS.nodes _).mpr (key_mem_nodeList hp), hS.nonempty p hp⟩, p, hp, rfl⟩
  rw [hperm.length_eq, List.length_map]
  simp

theorem sizeInv_of_layout {da : DA V} {t : Trie V} {idx : List Nat → Nat} {P : List (LPat V)}
    {lm : Bool} (hL : LayoutSem da t (buildNfa t lm) idx) (hS : TrieSem t P) (hsort : t.Sorted)
    (hD : ∀ u, t.hasNode u = true → u.length < da.states.size) : da.sizeInv P = true := by
  unfold DA.sizeInv
  simp only [Bool.and_eq_true, decide_eq_true_eq]
  constructor
  · rcases maxKeyLen_attained P with h | ⟨p, hp, h⟩
    · rw [h]
      exact hD [] ((hS.nodes _).2 (nodeList_prefClosed P).nil_mem)
    · rw [← h]
      exact hD _ ((hS.nodes _).2 (key_mem_nodeList hp))
  · have ho : da.outputs = (buildOutAcc t (buildFailMap t lm)).outs := hL.outputs
    rw [ho, outs_size hS hsort]
    exact Nat.le_refl _

/-! ### Main theorems -/

/-- **Leftmost-longest**: the evaluated invariant holds of every table the model builds. -/
theorem leftmostInv_of_build_ll (variant : Variant) (nfb : Nat) (P : List (LPat V)) (da : DA V)
    (hb : buildDA variant ⟨1, nfb⟩ P = .ok da) (hk : keysOk P)
    (hlabels : variant = .bytewise → ∀ p ∈ P, ∀ c ∈ p.key, c < 256) :
    da.leftmostInv P = true := by
  obtain ⟨t, idx, hT, hsort, hL, hlab, hD⟩ := build_layout variant ⟨1, nfb⟩ P P da hb
    (fun t ht => buildTrie_trieSem 1 (by decide) P t ht hk) (fun _ h => h) hlabels
  have hL' : LayoutSem da t (buildNfa t true) idx := hL
  exact leftmostInv_of_mirror (mirror_of_layout hL' hT hsort hlab hD)

/-- **Leftmost-first**: the evaluated invariant (for the retained patterns) holds of every table
the model builds. -/
theorem leftmostInv_of_build_lf (variant : Variant) (nfb : Nat) (P : List (LPat V)) (da : DA V)
    (hb : buildDA variant ⟨2, nfb⟩ P = .ok da) (hk : keysOk P)
    (hlabels : variant = .bytewise → ∀ p ∈ P, ∀ c ∈ p.key, c < 256) :
    da.leftmostInv (retainedL P) = true := by
  obtain ⟨t, idx, hT, hsort, hL, hlab, hD⟩ := build_layout variant ⟨2, nfb⟩ P (retainedL P) da hb
    (fun t ht => buildTrie_trieSem_lf P t ht hk)
    (fun _ h => (retainedL_sublist P).subset h) hlabels
  have hL' : LayoutSem da t (buildNfa t true) idx := hL
  exact leftmostInv_of_mirror (mirror_of_layout hL' hT hsort hlab hD)

/-- `sizeInv` for kinds other than leftmost-first (in particular kind 1), for the full list. -/
theorem sizeInv_of_build (variant : Variant) (kind nfb : Nat) (hkind : kind ≠ 2)
    (P : List (LPat V)) (da : DA V)
    (hb : buildDA variant ⟨kind, nfb⟩ P = .ok da) (hk : keysOk P)
    (hlabels : variant = .bytewise → ∀ p ∈ P, ∀ c ∈ p.key, c < 256) :
    da.sizeInv P = true := by
  obtain ⟨t, idx, hT, hsort, hL, _, hD⟩ := build_layout variant ⟨kind, nfb⟩ P P da hb
    (fun t ht => buildTrie_trieSem kind hkind P t ht hk) (fun _ h => h) hlabels
  exact sizeInv_of_layout hL hT hsort hD

theorem sizeInv_of_build_ll (variant : Variant) (nfb : Nat) (P : List (LPat V)) (da : DA V)
    (hb : buildDA variant ⟨1, nfb⟩ P = .ok da) (hk : keysOk P)
    (hlabels : variant = .bytewise → ∀ p ∈ P, ∀ c ∈ p.key, c < 256) :
    da.sizeInv P = true :=
  sizeInv_of_build variant 1 nfb (by decide) P da hb hk hlabels

theorem sizeInv_of_build_lf (variant : Variant) (nfb : Nat) (P : List (LPat V)) (da : DA V)
    (hb : buildDA variant ⟨2, nfb⟩ P = .ok da) (hk : keysOk P)
    (hlabels : variant = .bytewise → ∀ p ∈ P, ∀ c ∈ p.key, c < 256) :
    da.sizeInv (retainedL P) = true := by
  obtain ⟨t, idx, hT, hsort, hL, _, hD⟩ := build_layout variant ⟨2, nfb⟩ P (retainedL P) da hb
    (fun t ht => buildTrie_trieSem_lf P t ht hk)
    (fun _ h => (retainedL_sublist P).subset h) hlabels
  exact sizeInv_of_layout hL hT hsort hD

/-- `sizeInv` for both leftmost kinds: the list the invariant is evaluated on is `P` for
leftmost-longest (kind 1) and the retained list for leftmost-first (kind 2). -/
theorem sizeInv_of_build_lm (variant : Variant) (kind nfb : Nat) (hkind : kind = 1 ∨ kind = 2)
    (P : List (LPat V)) (da : DA V)
    (hb : buildDA variant ⟨kind, nfb⟩ P = .ok da) (hk : keysOk P)
    (hlabels : variant = .bytewise → ∀ p ∈ P, ∀ c ∈ p.key, c < 256) :
    da.sizeInv (if kind = 2 then retainedL P else P) = true := by
  rcases hkind with rfl | rfl
  · simpa using sizeInv_of_build_ll variant nfb P da hb hk hlabels
  · simpa using sizeInv_of_build_lf variant nfb P da hb hk hlabels

#print axioms leftmostInv_of_build_ll
#print axioms leftmostInv_of_build_lf
#print axioms sizeInv_of_build
#print axioms sizeInv_of_build_ll
#print axioms sizeInv_of_build_lf
#print axioms sizeInv_of_build_lm

end Daac.InvCLm

/-
The layout pass of the char-wise builder (`buildLayout .charwise`, Model/Build.lean) yields a double
array satisfying `LayoutSem` (Proofs/LayoutIface.lean), with an injective, in-range index map.

Layers: (a) arithmetic / array lemmas, (b) one-step lemmas for `edgeCodes`, `findBase`,
`extendArray`, `placeChildren`, (c) `layoutStep` preserves the invariant `Inv`, (d) the DFS loop,
(e) `setFailOut`, (f) assembly.
-/
import Daac.Proofs.LayoutIface
import Daac.Proofs.HelperFacts
import Daac.Proofs.NfaQueue
import Daac.Proofs.NoFault
import Lean.Elab.Term
import Lean.Elab.BuiltinTerm
import Lean.Meta.Eqns
namespace Daac.LayC
variable {V : Type}

/-- Codes are below the alphabet size and injective (a property of `Mapper.build`). -/
def MapperOk (m : Mapper) : Prop :=
  (∀ c k, m.get c = some k → k < m.alphaSize) ∧
  (∀ c c' k, m.get c = some k → m.get c' = some k → c = c')

/-! ## (a) Arithmetic -/

/- The worker `Nat.nextPowerOfTwo.go` is a private declaration of core (and core states no
`n ≤ n.nextPowerOfTwo`); the two elaborators below merely name it and its unfolding equation. -/
open Lean Elab Term Meta in
elab "npot_go%" : term => do
  mkConstWithLevelParams (mkPrivateNameCore `Init.Data.Nat.Power2.Basic `Nat.nextPowerOfTwo.go)

open Lean Elab Term Meta in
elab "npot_go_eq%" : term => do
  let n := mkPrivateNameCore `Init.Data.Nat.Power2.Basic `Nat.nextPowerOfTwo.go
  let some eq ← Lean.Meta.getUnfoldEqnFor? n (nonRec := true) | throwError "no unfolding equation"
  mkConstWithLevelParams eq

theorem npot_go_eq (n p : Nat) (h : p > 0) :
    npot_go% n p h = if p < n then npot_go% n (p * 2) (Nat.mul_pos h (by decide)) else p :=
  npot_go_eq% n p h

theorem le_npot_go : ∀ (d n p : Nat) (h : p > 0), n - p = d → n ≤ npot_go% n p h := by
  intro d
  induction d using Nat.strongRecOn with
  | _ d ih =>
    intro n p h hd
    rw [npot_go_eq]
    split
    · exact ih (n - p * 2) (by omega) n (p * 2) _ rfl
    · omega

theorem le_nextPowerOfTwo (n : Nat) : n ≤ n.nextPowerOfTwo :=
  le_npot_go _ n 1 (by decide) rfl

/-- The char-wise block length is a power of two, at least 2 and at least the alphabet size. -/
theorem blockLen_facts (a : Nat) :
    (∃ n, max 2 (Nat.nextPowerOfTwo a) = 2 ^ n) ∧ 2 ≤ max 2 (Nat.nextPowerOfTwo a) ∧
      a ≤ max 2 (Nat.nextPowerOfTwo a) := by
  obtain ⟨k, hk⟩ := Nat.isPowerOfTwo_nextPowerOfTwo a
  have hle := le_nextPowerOfTwo a
  refine ⟨?_, by omega, by omega⟩
  rw [hk]
  cases k with
  | zero => exact ⟨1, by decide⟩
  | succ k =>
    refine ⟨k + 1, ?_⟩
    have : 2 ≤ 2 ^ (k + 1) := by
      have := Nat.pow_le_pow_right (n := 2) (by decide) (Nat.succ_le_succ (Nat.zero_le k))
      simpa using this
    omega

theorem xor_left_cancel {a k k' : Nat} (h : a ^^^ k = a ^^^ k') : k = k' := by
  have h2 : a ^^^ (a ^^^ k) = a ^^^ (a ^^^ k') := by rw [h]
  rw [← Nat.xor_assoc, ← Nat.xor_assoc, Nat.xor_self, Nat.zero_xor, Nat.zero_xor] at h2
  exact h2

theorem xor_xor_cancel_right (a k : Nat) : (a ^^^ k) ^^^ k = a := by
  rw [Nat.xor_assoc, Nat.xor_self, Nat.xor_zero]

theorem xor_ne_zero {a b : Nat} (h : a ≠ b) : a ^^^ b ≠ 0 := by
  intro e
  apply h
  have : a ^^^ b = a ^^^ a := by rw [e, Nat.xor_self]
  exact (xor_left_cancel this).symm

/-- `b` and `b ^^^ k` lie in the same block. -/
theorem xor_lt_iff {n nb b k : Nat} (hk : k < 2 ^ n) :
    b ^^^ k < nb * 2 ^ n ↔ b < nb * 2 ^ n := by
  rw [Nat.mul_comm]
  constructor
  · intro h
    have := xor_block_pow (b ^^^ k) k nb n hk h
    rwa [xor_xor_cancel_right] at this
  · exact xor_block_pow b k nb n hk

/-! ## (a) Arrays of elements -/

/-- Total read with the char-wise default element. -/
def gd (a : Array St) (i : Nat) : St := a.getD i stDefaultC

theorem stDefaultC_base : stDefaultC.base = 0 := rfl
theorem stDefaultC_check : stDefaultC.check = 1 := rfl

theorem gd_of_lt {a : Array St} {i : Nat} (h : i < a.size) : a[i]? = some (gd a i) := by
  simp [gd, h]

theorem gd_of_ge {a : Array St} {i : Nat} (h : a.size ≤ i) : gd a i = stDefaultC := by
  have : a[i]? = none := by simp [h]
  simp [gd, this]

theorem gd_modify (a : Array St) (j i : Nat) (f : St → St) :
    gd (a.modify j f) i = if j = i ∧ i < a.size then f (gd a i) else gd a i := by
  unfold gd
  simp only [Array.getD_eq_getD_getElem?, Array.getElem?_modify]
  by_cases hji : j = i
  · subst hji
    by_cases hlt : j < a.size
    · simp [hlt]
    · have : a[j]? = none := by simp; omega
      simp [hlt]
  · simp [hji]

theorem gd_append_replicate (a : Array St) (n i : Nat) :
    gd (a ++ Array.replicate n stDefaultC) i = gd a i := by
  by_cases hlt : i < a.size
  · unfold gd
    simp only [Array.getD_eq_getD_getElem?]
    rw [Array.getElem?_append_left hlt]
  · rw [gd_of_ge (a := a) (by omega)]
    unfold gd
    simp only [Array.getD_eq_getD_getElem?]
    rw [Array.getElem?_append_right (by omega), Array.getElem?_replicate]
    split <;> rfl

theorem gd_replicate (n i : Nat) : gd (Array.replicate n stDefaultC) i = stDefaultC := by
  unfold gd
  simp only [Array.getD_eq_getD_getElem?, Array.getElem?_replicate]
  split <;> rfl

theorem setSt_ok {a a' : Array St} {i : Nat} {f : St → St} (e : setSt a i f = .ok a') :
    i < a.size ∧ a' = a.modify i f := by
  unfold setSt at e
  split at e
  · rename_i h
    simp only [Except.ok.injEq] at e
    exact ⟨h, e.symm⟩
  · cases e

/-! ## (b) `edgeCodes` -/

theorem insertByCodeP_perm (x : Nat × List Nat) (l : List (Nat × List Nat)) :
    (insertByCodeP x l).Perm (x :: l) := by
  induction l with
  | nil => exact List.Perm.refl _
  | cons y r ih =>
    unfold insertByCodeP
    split
    · exact List.Perm.refl _
    · exact ((List.Perm.cons y ih).trans (List.Perm.swap x y r))

/-- The folding function of `edgeCodes`. -/
def ecStep (m : Mapper) (acc : Except BuildErr (List (Nat × List Nat))) (w : List Nat) :
    Except BuildErr (List (Nat × List Nat)) :=
  match acc, m.get (w.getLastD 0) with
  | .error e, _ => .error e
  | .ok l, some code => .ok (insertByCodeP (code, w) l)
  | .ok _, none => .error (.panic "mapper.get(label).unwrap()")

theorem edgeCodes_eq (m : Mapper) (t : Trie V) (u : List Nat) :
    edgeCodes .charwise m t u = (t.childPaths u).reverse.foldl (ecStep m) (.ok []) := rfl

theorem ecStep_foldl_error (m : Mapper) (L : List (List Nat)) (e : BuildErr) :
    L.foldl (ecStep m) (.error e) = .error e := by
  induction L with
  | nil => rfl
  | cons w L ih => simp only [List.foldl_cons]; exact ih

theorem ecStep_foldl_ok (m : Mapper) (L : List (List Nat)) (l0 r : List (Nat × List Nat))
    (h : L.foldl (ecStep m) (.ok l0) = .ok r) :
    (r.map (·.2)).Perm (L ++ l0.map (·.2)) ∧
    (∀ e ∈ r, e ∈ l0 ∨ m.get (e.2.getLastD 0) = some e.1) := by
  induction L generalizing l0 with
  | nil =>
    simp only [List.foldl_nil, Except.ok.injEq] at h
    subst h
    exact ⟨by simp, fun e he => Or.inl he⟩
  | cons w L ih =>
    simp only [List.foldl_cons] at h
    cases hg : m.get (w.getLastD 0) with
    | none =>
      have : ecStep m (.ok l0) w = .error (.panic "mapper.get(label).unwrap()") := by
        unfold ecStep; rw [hg]
      rw [this, ecStep_foldl_error] at h
      cases h
    | some code =>
      have : ecStep m (.ok l0) w = .ok (insertByCodeP (code, w) l0) := by
        unfold ecStep; rw [hg]
      rw [this] at h
      obtain ⟨p1, p2⟩ := ih _ h
      have hp := insertByCodeP_perm (code, w) l0
      constructor
      · refine p1.trans ?_
        have := (hp.map (·.2))
        simp only [List.map_cons] at this
        refine (List.Perm.append_left L this).trans ?_
        simp only [List.cons_append]
        exact List.perm_middle
      · intro e he
        rcases p2 e he with h1 | h1
        · have := hp.mem_iff.1 h1
          rcases List.mem_cons.1 this with rfl | h2
          · exact Or.inr hg
          · exact Or.inl h2
        · exact Or.inr h1

theorem edgeCodes_spec (m : Mapper) (t : Trie V) (u : List Nat) (edges : List (Nat × List Nat))
    (h : edgeCodes .charwise m t u = .ok edges) :
    (edges.map (·.2)).Perm (t.childPaths u) ∧
    (∀ e ∈ edges, m.get (e.2.getLastD 0) = some e.1) := by
  rw [edgeCodes_eq] at h
  obtain ⟨p1, p2⟩ := ecStep_foldl_ok m _ [] edges h
  constructor
  · simp only [List.map_nil, List.append_nil] at p1
    exact p1.trans (List.reverse_perm _)
  · intro e he
    rcases p2 e he with h1 | h1
    · cases h1
    · exact h1

/-! ## (b) `findBase`: the chosen BASE is non-zero -/

theorem findBaseIn_ne_zero (h : Helper) (c0 : Nat) (codes vac : List Nat) (b : Nat)
    (e : findBaseIn .charwise h c0 codes vac = .ok (some b)) : b ≠ 0 := by
  induction vac with
  | nil => simp [findBaseIn] at e
  | cons i r ih =>
    unfold findBaseIn at e
    split at e
    · cases e
    · rename_i hb
      simp only [Except.ok.injEq, Option.some.injEq] at e
      subst e
      unfold baseOk at hb
      simp only at hb
      split at hb
      · cases hb
      · simp only [Except.ok.injEq, Bool.and_eq_true, bne_iff_ne, ne_eq] at hb
        exact hb.2
    · exact ih e

theorem findBase_ne_zero (lay : Lay) (codes : List Nat) (b : Nat)
    (hc : codes.headD 0 < lay.states.size)
    (e : findBase .charwise lay codes = .ok b) : b ≠ 0 := by
  unfold findBase at e
  simp only at e
  split at e
  · cases e
  · split at e
    · cases e
    · rename_i b' hb
      simp only [Except.ok.injEq] at e
      subst e
      exact findBaseIn_ne_zero _ _ _ _ _ hb
    · simp only [Except.ok.injEq] at e
      subst e
      exact xor_ne_zero (by omega)

/-! ## (b) `placeChildren` -/

/-- Index of a node in the layout state (`state_id_map`). -/
def ix (lay : Lay) (u : List Nat) : Nat := lay.idx.getD u deadIdx
/-- The node has been placed. -/
def has (lay : Lay) (u : List Nat) : Prop := lay.idx.contains u = true

/-- Effect of `placeChildren` (char-wise) on helper, array and index map. -/
structure PCSpec (sidx base : Nat) (edges : List (Nat × List Nat)) (lay lay2 : Lay) : Prop where
  wf : lay2.h.WF
  bl : lay2.h.blockLen = lay.h.blockLen
  nfb : lay2.h.nfb = lay.h.nfb
  nb : lay2.h.numBlocks = lay.h.numBlocks
  size : lay2.states.size = lay.states.size
  slot : ∀ e ∈ edges, lay.h.Active (base ^^^ e.1) ∧ lay.h.usedI (base ^^^ e.1) = false ∧
    base ^^^ e.1 < lay.states.size
  usedNew : ∀ e ∈ edges, lay2.h.usedI (base ^^^ e.1) = true
  usedOld : ∀ j, lay.h.Active j → (∀ e ∈ edges, base ^^^ e.1 ≠ j) → lay2.h.usedI j = lay.h.usedI j
  stBase : ∀ i, (gd lay2.states i).base = (gd lay.states i).base
  stOld : ∀ i, (∀ e ∈ edges, base ^^^ e.1 ≠ i) → gd lay2.states i = gd lay.states i
  stNew : ∀ e ∈ edges, (gd lay2.states (base ^^^ e.1)).check = sidx
  ixNew : ∀ e ∈ edges, ix lay2 e.2 = base ^^^ e.1
  ixOld : ∀ x, (∀ e ∈ edges, e.2 ≠ x) → ix lay2 x = ix lay x
  hasIff : ∀ x, has lay2 x ↔ (has lay x ∨ ∃ e ∈ edges, e.2 = x)

theorem placeChildren_spec (sidx base : Nat) (edges : List (Nat × List Nat)) (lay lay2 : Lay)
    (hwf : lay.h.WF) (hnd : (edges.map (·.2)).Nodup)
    (e : placeChildren .charwise sidx base edges lay = .ok lay2) :
    PCSpec sidx base edges lay lay2 := by
  induction edges generalizing lay with
  | nil =>
    unfold placeChildren at e
    simp only [Except.ok.injEq] at e
    subst e
    exact ⟨hwf, rfl, rfl, rfl, rfl, fun _ h => (by cases h), fun _ h => (by cases h),
      fun _ _ _ => rfl, fun _ => rfl, fun _ _ => rfl, fun _ h => (by cases h),
      fun _ h => (by cases h), fun _ _ => rfl,
      fun x => ⟨Or.inl, fun h => h.elim id (fun ⟨_, h, _⟩ => (by cases h))⟩⟩
  | cons e0 rest ih =>
    obtain ⟨k, w⟩ := e0
    unfold placeChildren at e
    simp only at e
    split at e
    · cases e
    · rename_i h' eu
      split at e
      · cases e
      · rename_i states' es
        obtain ⟨a, u0, u1, fr, _, b1, b2, b3, wf'⟩ := Helper.useIndex_ok hwf eu
        obtain ⟨hlt, rfl⟩ := setSt_ok es
        simp only [List.map_cons, List.nodup_cons] at hnd
        have IH := ih _ wf' hnd.2 e
        have ac := Helper.Active_congr b1 b2 b3
        have hne : ∀ e ∈ rest, base ^^^ e.1 ≠ base ^^^ k := by
          intro e he heq
          have := (IH.slot e he).2.1
          simp only at this
          rw [heq, u1] at this
          cases this
        refine ⟨IH.wf, IH.bl.trans b1, IH.nfb.trans b2, IH.nb.trans b3, ?_, ?_, ?_, ?_, ?_, ?_, ?_,
          ?_, ?_, ?_⟩
        · rw [IH.size]; simp
        · intro e he
          rcases List.mem_cons.1 he with rfl | he
          · exact ⟨a, u0, hlt⟩
          · obtain ⟨s1, s2, s3⟩ := IH.slot e he
            simp only at s1 s2 s3
            refine ⟨(ac _).1 s1, ?_, by simpa using s3⟩
            rw [← fr _ ((ac _).1 s1) (hne e he)]; exact s2
        · intro e he
          rcases List.mem_cons.1 he with rfl | he
          · have := IH.usedOld (base ^^^ k) ((ac _).2 a) hne
            simp only at this
            rw [this]; exact u1
          · exact IH.usedNew e he
        · intro j aj hj
          have h1 := IH.usedOld j ((ac _).2 aj) (fun e he => hj e (List.mem_cons_of_mem _ he))
          simp only at h1
          rw [h1]
          exact fr j aj (fun ej => hj (k, w) (List.mem_cons_self) ej.symm)
        · intro i
          rw [IH.stBase i]
          simp only [gd_modify]
          split <;> rfl
        · intro i hi
          rw [IH.stOld i (fun e he => hi e (List.mem_cons_of_mem _ he))]
          simp only [gd_modify]
          rw [if_neg]
          intro hc
          exact hi (k, w) (List.mem_cons_self) hc.1
        · intro e he
          rcases List.mem_cons.1 he with rfl | he
          · rw [IH.stOld _ hne]
            simp [gd_modify, hlt]
          · exact IH.stNew e he
        · intro e he
          rcases List.mem_cons.1 he with rfl | he
          · have : ∀ e ∈ rest, e.2 ≠ w := by
              intro e he heq
              exact hnd.1 (List.mem_map.2 ⟨e, he, heq⟩)
            rw [IH.ixOld w this]
            simp [ix]
          · exact IH.ixNew e he
        · intro x hx
          rw [IH.ixOld x (fun e he => hx e (List.mem_cons_of_mem _ he))]
          have : w ≠ x := hx (k, w) (List.mem_cons_self)
          simp [ix, Std.HashMap.getD_insert, this]
        · intro x
          rw [IH.hasIff x]
          simp only [has, Std.HashMap.contains_insert, Bool.or_eq_true, beq_iff_eq, List.mem_cons,
            exists_eq_or_imp]
          constructor
          · rintro ((h1 | h1) | h1)
            · exact Or.inr (Or.inl h1)
            · exact Or.inl h1
            · exact Or.inr (Or.inr h1)
          · rintro (h1 | h1 | h1)
            · exact Or.inl (Or.inr h1)
            · exact Or.inl (Or.inl h1)
            · exact Or.inr h1

/-! ## (c) The invariant of the DFS loop

Placed nodes are the keys of `lay.idx`; processed nodes are the placed nodes not on the stack. -/

structure Inv (m : Mapper) (t : Trie V) (BL : Nat) (lay : Lay) (stack : List (List Nat)) : Prop where
  wf : lay.h.WF
  bl : lay.h.blockLen = BL
  size : lay.states.size = lay.h.numBlocks * BL
  ixRoot : ix lay [] = 0
  ixLt : ∀ u, has lay u → ix lay u < lay.states.size
  ixNe : ∀ u, has lay u → u ≠ [] → ix lay u ≠ 0 ∧ ix lay u ≠ 1
  ixInj : ∀ u w, has lay u → has lay w → ix lay u = ix lay w → u = w
  used : ∀ u, has lay u → lay.h.Active (ix lay u) → lay.h.usedI (ix lay u) = true
  used1 : lay.h.Active 1 → lay.h.usedI 1 = true
  chk : ∀ p c, has lay (p ++ [c]) → (gd lay.states (ix lay (p ++ [c]))).check = ix lay p
  chkD : ∀ i, (∀ w, has lay w → w ≠ [] → ix lay w ≠ i) → (gd lay.states i).check = 1
  baseNone : ∀ u, has lay u → u ∉ stack → (∀ c, t.hasNode (u ++ [c]) = false) →
    (gd lay.states (ix lay u)).base = 0
  baseSome : ∀ u, has lay u → u ∉ stack → ∀ c, t.hasNode (u ++ [c]) = true →
    (gd lay.states (ix lay u)).base ≠ 0 ∧
    ∃ k, m.get c = some k ∧ ix lay (u ++ [c]) = (gd lay.states (ix lay u)).base ^^^ k
  baseD : ∀ i, (∀ u, has lay u → u ∉ stack → ix lay u ≠ i) → (gd lay.states i).base = 0
  hasRoot : has lay []
  hasNode : ∀ u, has lay u → t.hasNode u = true
  stackHas : ∀ u ∈ stack, has lay u
  stackNodup : stack.Nodup
  kids : ∀ u, has lay u → u ∉ stack → ∀ c, t.hasNode (u ++ [c]) = true → has lay (u ++ [c])
  parent : ∀ p c, has lay (p ++ [c]) → has lay p ∧ p ∉ stack

theorem extendArray_inv {m : Mapper} {t : Trie V} {BL : Nat} {lay lay' : Lay}
    {stack : List (List Nat)} (hBL : 2 ≤ BL) (I : Inv m t BL lay stack)
    (e : extendArray .charwise lay = .ok lay') : Inv m t BL lay' stack := by
  unfold extendArray at e
  split at e
  · cases e
  · simp only at e
    split at e
    · cases e
    · rename_i h' ep
      simp only [Except.ok.injEq] at e
      have es : lay'.states = lay.states ++ Array.replicate lay.h.blockLen stDefaultC := by
        rw [← e]; rfl
      have eh : lay'.h = h' := by rw [← e]
      have ei : lay'.idx = lay.idx := by rw [← e]
      clear e
      obtain ⟨n1, b1, f1, wf1, _, keep⟩ := Helper.pushBlock_ok I.wf ep
      rw [← eh] at n1 b1 f1 wf1 keep
      have hnb : 1 ≤ lay.h.numBlocks := by
        have := I.ixLt [] I.hasRoot
        rw [I.size] at this
        rcases Nat.eq_zero_or_pos lay.h.numBlocks with h0 | h0
        · rw [h0, Nat.zero_mul] at this; omega
        · exact h0
      have hsz : BL ≤ lay.states.size := by
        rw [I.size]; exact Nat.le_mul_of_pos_left BL hnb
      have hact : ∀ j, lay'.h.Active j → j < lay.states.size → lay.h.Active j := by
        intro j aj hj
        refine ⟨?_, by rw [I.bl, ← I.size]; exact hj⟩
        have h1 := aj.1
        unfold Helper.activeStart at h1 ⊢
        rw [n1, f1, b1] at h1
        refine Nat.le_trans (Nat.mul_le_mul_right _ ?_) h1
        omega
      have hkeep : ∀ j, lay'.h.Active j → j < lay.states.size → lay'.h.usedI j = lay.h.usedI j := by
        intro j aj hj
        exact (keep j aj (by rw [I.bl, ← I.size]; exact hj)).1
      have hix : ∀ x, ix lay' x = ix lay x := fun x => by unfold ix; rw [ei]
      have hhas : ∀ x, has lay' x ↔ has lay x := fun x => by unfold has; rw [ei]
      have hgd : ∀ i, gd lay'.states i = gd lay.states i := fun i => by
        rw [es]; exact gd_append_replicate _ _ _
      have hsize : lay'.states.size = lay.states.size + BL := by
        rw [es, Array.size_append, Array.size_replicate, I.bl]
      refine ⟨wf1, b1.trans I.bl, ?_, ?_, ?_, ?_, ?_, ?_, ?_, ?_, ?_, ?_, ?_, ?_, ?_, ?_, ?_, ?_, ?_, ?_⟩
      · rw [hsize, I.size, n1, Nat.add_mul, Nat.one_mul]
      · rw [hix]; exact I.ixRoot
      · intro u hu
        have := I.ixLt u ((hhas u).1 hu)
        rw [hix, hsize]; omega
      · intro u hu; rw [hix]; exact I.ixNe u ((hhas u).1 hu)
      · intro u w hu hw; rw [hix, hix]; exact I.ixInj u w ((hhas u).1 hu) ((hhas w).1 hw)
      · intro u hu au
        have hu' := (hhas u).1 hu
        rw [hix] at au ⊢
        rw [hkeep _ au (I.ixLt u hu')]
        exact I.used u hu' (hact _ au (I.ixLt u hu'))
      · intro a1
        rw [hkeep 1 a1 (by omega)]
        exact I.used1 (hact 1 a1 (by omega))
      · intro p c hp
        rw [hix, hix, hgd]; exact I.chk p c ((hhas _).1 hp)
      · intro i hi
        rw [hgd]; exact I.chkD i (fun w hw hne => by rw [← hix]; exact hi w ((hhas w).2 hw) hne)
      · intro u hu hs hc
        rw [hix, hgd]; exact I.baseNone u ((hhas u).1 hu) hs hc
      · intro u hu hs c hc
        rw [hix, hix, hgd]; exact I.baseSome u ((hhas u).1 hu) hs c hc
      · intro i hi
        rw [hgd]; exact I.baseD i (fun u hu hs => by rw [← hix]; exact hi u ((hhas u).2 hu) hs)
      · exact (hhas _).2 I.hasRoot
      · intro u hu; exact I.hasNode u ((hhas u).1 hu)
      · intro u hu; exact (hhas u).2 (I.stackHas u hu)
      · exact I.stackNodup
      · intro u hu hs c hc; exact (hhas _).2 (I.kids u ((hhas u).1 hu) hs c hc)
      · intro p c hp
        have := I.parent p c ((hhas _).1 hp)
        exact ⟨(hhas p).2 this.1, this.2⟩

/-- Popping a node without children. -/
theorem inv_leaf {m : Mapper} {t : Trie V} {BL : Nat} {lay : Lay} {u : List Nat}
    {stack : List (List Nat)} (I : Inv m t BL lay (u :: stack))
    (hleaf : ∀ c, t.hasNode (u ++ [c]) = false) : Inv m t BL lay stack := by
  have hu : has lay u := I.stackHas u List.mem_cons_self
  have hun : u ∉ stack := (List.nodup_cons.1 I.stackNodup).1
  have hsn : stack.Nodup := (List.nodup_cons.1 I.stackNodup).2
  have hcase : ∀ x, x ∉ stack → x = u ∨ x ∉ u :: stack := by
    intro x hx
    by_cases h : x = u
    · exact Or.inl h
    · exact Or.inr (fun hc => (List.mem_cons.1 hc).elim h hx)
  refine ⟨I.wf, I.bl, I.size, I.ixRoot, I.ixLt, I.ixNe, I.ixInj, I.used, I.used1, I.chk, I.chkD,
    ?_, ?_, ?_, I.hasRoot, I.hasNode, ?_, hsn, ?_, ?_⟩
  · intro x hx hs hc
    rcases hcase x hs with rfl | h
    · apply I.baseD
      intro y hy hys heq
      have := I.ixInj y x hy hx heq
      subst this
      exact hys List.mem_cons_self
    · exact I.baseNone x hx h hc
  · intro x hx hs c hc
    rcases hcase x hs with rfl | h
    · rw [hleaf c] at hc; cases hc
    · exact I.baseSome x hx h c hc
  · intro i hi
    exact I.baseD i (fun x hx hs => hi x hx (fun h => hs (List.mem_cons_of_mem _ h)))
  · intro x hx; exact I.stackHas x (List.mem_cons_of_mem _ hx)
  · intro x hx hs c hc
    rcases hcase x hs with rfl | h
    · rw [hleaf c] at hc; cases hc
    · exact I.kids x hx h c hc
  · intro p c hp
    have := I.parent p c hp
    exact ⟨this.1, fun h => this.2 (List.mem_cons_of_mem _ h)⟩

/-- Popping a node with children: claim the slots, write the CHECKs and the BASE. -/
theorem inv_place {m : Mapper} {t : Trie V} {BL : Nat} {lay1 lay2 lay' : Lay} {u : List Nat}
    {stack : List (List Nat)} {base : Nat} {edges : List (Nat × List Nat)}
    (hm : MapperOk m)
    (I1 : Inv m t BL lay1 (u :: stack))
    (hE : ∀ e ∈ edges, ∃ c, e.2 = u ++ [c] ∧ t.hasNode (u ++ [c]) = true ∧ m.get c = some e.1)
    (hK : ∀ c, t.hasNode (u ++ [c]) = true → ∃ k, (k, u ++ [c]) ∈ edges ∧ m.get c = some k)
    (hnd : (edges.map (·.2)).Nodup) (hne : edges ≠ [])
    (hb : base ≠ 0)
    (SP : PCSpec (ix lay1 u) base edges lay1 lay2)
    (hst : lay'.states = lay2.states.modify (ix lay1 u) (fun st => { st with base := base }))
    (hh : lay'.h = lay2.h) (hi : lay'.idx = lay2.idx) :
    Inv m t BL lay' ((edges.map (·.2)).reverse ++ stack) := by
  have hu : has lay1 u := I1.stackHas u List.mem_cons_self
  have hun : u ∉ stack := (List.nodup_cons.1 I1.stackNodup).1
  have hsn : stack.Nodup := (List.nodup_cons.1 I1.stackNodup).2
  have hnew : ∀ e ∈ edges, ¬ has lay1 e.2 := by
    intro e he hc
    obtain ⟨c, h1, _, _⟩ := hE e he
    rw [h1] at hc
    exact (I1.parent u c hc).2 List.mem_cons_self
  have hfresh : ∀ e ∈ edges, ∀ x, has lay1 x → ix lay1 x ≠ base ^^^ e.1 := by
    intro e he x hx heq
    obtain ⟨a, u0, _⟩ := SP.slot e he
    have := I1.used x hx (heq ▸ a)
    rw [heq, u0] at this; cases this
  have h01 : ∀ e ∈ edges, base ^^^ e.1 ≠ 0 ∧ base ^^^ e.1 ≠ 1 := by
    intro e he
    obtain ⟨a, u0, _⟩ := SP.slot e he
    constructor
    · intro h0
      exact hfresh e he [] I1.hasRoot (by rw [I1.ixRoot, h0])
    · intro h1
      rw [h1] at a u0
      have := I1.used1 a
      rw [u0] at this; cases this
  have hix : ∀ x, ix lay' x = ix lay2 x := fun x => by unfold ix; rw [hi]
  have hixOld : ∀ x, has lay1 x → ix lay' x = ix lay1 x := by
    intro x hx
    rw [hix]
    exact SP.ixOld x (fun e he heq => hnew e he (heq ▸ hx))
  have hixNew : ∀ e ∈ edges, ix lay' e.2 = base ^^^ e.1 := fun e he => by
    rw [hix]; exact SP.ixNew e he
  have hhas : ∀ x, has lay' x ↔ (has lay1 x ∨ ∃ e ∈ edges, e.2 = x) := by
    intro x; rw [← SP.hasIff x]; unfold has; rw [hi]
  have hold : ∀ x, has lay1 x → has lay' x := fun x hx => (hhas x).2 (Or.inl hx)
  have hchild : ∀ e ∈ edges, has lay' e.2 := fun e he => (hhas _).2 (Or.inr ⟨e, he, rfl⟩)
  have hsl : ix lay1 u < lay2.states.size := by rw [SP.size]; exact I1.ixLt u hu
  have hsize : lay'.states.size = lay1.states.size := by
    rw [hst, Array.size_modify, SP.size]
  have hchk : ∀ i, (gd lay'.states i).check = (gd lay2.states i).check := by
    intro i; rw [hst, gd_modify]; split <;> rfl
  have hbase : ∀ i, (gd lay'.states i).base =
      if ix lay1 u = i then base else (gd lay1.states i).base := by
    intro i
    rw [hst, gd_modify]
    by_cases h : ix lay1 u = i
    · subst h; simp [hsl]
    · simp [h, SP.stBase]
  have hmemS : ∀ x, x ∈ (edges.map (·.2)).reverse ++ stack ↔
      ((∃ e ∈ edges, e.2 = x) ∨ x ∈ stack) := by
    intro x; simp
  have hac := Helper.Active_congr SP.bl SP.nfb SP.nb
  -- processed nodes of the new state
  have hcase : ∀ x, has lay' x → x ∉ (edges.map (·.2)).reverse ++ stack →
      has lay1 x ∧ (x = u ∨ x ∉ u :: stack) := by
    intro x hx hs
    rw [hmemS] at hs
    rcases (hhas x).1 hx with h1 | h1
    · refine ⟨h1, ?_⟩
      by_cases h : x = u
      · exact Or.inl h
      · exact Or.inr (fun hc => (List.mem_cons.1 hc).elim h (fun h2 => hs (Or.inr h2)))
    · exact absurd (Or.inl h1) hs
  have huS : u ∉ (edges.map (·.2)).reverse ++ stack := by
    rw [hmemS]
    rintro (⟨e, he, heq⟩ | h)
    · exact hnew e he (heq ▸ hu)
    · exact hun h
  refine ⟨?_, ?_, ?_, ?_, ?_, ?_, ?_, ?_, ?_, ?_, ?_, ?_, ?_, ?_, ?_, ?_, ?_, ?_, ?_, ?_⟩
  · rw [hh]; exact SP.wf
  · rw [hh, SP.bl]; exact I1.bl
  · rw [hsize, I1.size, hh, SP.nb]
  · rw [hixOld [] I1.hasRoot]; exact I1.ixRoot
  · intro x hx
    rw [hsize]
    rcases (hhas x).1 hx with h1 | ⟨e, he, rfl⟩
    · rw [hixOld x h1]; exact I1.ixLt x h1
    · rw [hixNew e he]; exact (SP.slot e he).2.2
  · intro x hx hxne
    rcases (hhas x).1 hx with h1 | ⟨e, he, rfl⟩
    · rw [hixOld x h1]; exact I1.ixNe x h1 hxne
    · rw [hixNew e he]; exact h01 e he
  · intro x w hx hw heq
    rcases (hhas x).1 hx with h1 | ⟨e, he, rfl⟩
    · rcases (hhas w).1 hw with h2 | ⟨e', he', rfl⟩
      · rw [hixOld x h1, hixOld w h2] at heq
        exact I1.ixInj x w h1 h2 heq
      · rw [hixOld x h1, hixNew e' he'] at heq
        exact absurd heq (hfresh e' he' x h1)
    · rcases (hhas w).1 hw with h2 | ⟨e', he', rfl⟩
      · rw [hixOld w h2, hixNew e he] at heq
        exact absurd heq.symm (hfresh e he w h2)
      · rw [hixNew e he, hixNew e' he'] at heq
        have hk := xor_left_cancel heq
        obtain ⟨c, h1, _, g1⟩ := hE e he
        obtain ⟨c', h2, _, g2⟩ := hE e' he'
        rw [← hk] at g2
        have := hm.2 c c' e.1 g1 g2
        rw [h1, h2, this]
  · intro x hx ax
    rw [hh] at ax ⊢
    rcases (hhas x).1 hx with h1 | ⟨e, he, rfl⟩
    · rw [hixOld x h1] at ax ⊢
      have a1 := (hac _).1 ax
      rw [SP.usedOld _ a1 (fun e he h => hfresh e he x h1 h.symm)]
      exact I1.used x h1 a1
    · rw [hixNew e he]; exact SP.usedNew e he
  · intro a
    rw [hh] at a ⊢
    have a1 := (hac _).1 a
    rw [SP.usedOld 1 a1 (fun e he => (h01 e he).2)]
    exact I1.used1 a1
  · intro p c hp
    rw [hchk]
    rcases (hhas _).1 hp with h1 | ⟨e, he, heq⟩
    · have hpp := (I1.parent p c h1).1
      rw [hixOld _ h1, hixOld p hpp, SP.stOld _ (fun e he h => hfresh e he _ h1 h.symm)]
      exact I1.chk p c h1
    · obtain ⟨c0, h1, _, _⟩ := hE e he
      rw [heq] at h1
      have hpu : p = u := (List.append_inj' h1 rfl).1
      subst hpu
      rw [← heq, hixNew e he, SP.stNew e he, hixOld p hu]
  · intro i hi'
    have hsl' : ∀ e ∈ edges, base ^^^ e.1 ≠ i := by
      intro e he heq
      obtain ⟨c0, h1, _, _⟩ := hE e he
      refine hi' e.2 (hchild e he) ?_ (by rw [hixNew e he]; exact heq)
      rw [h1]; simp
    rw [hchk, SP.stOld i hsl']
    apply I1.chkD
    intro w hw hwne
    rw [← hixOld w hw]
    exact hi' w (hold w hw) hwne
  · intro x hx hs hc
    obtain ⟨h1, h2⟩ := hcase x hx hs
    rcases h2 with rfl | h2
    · obtain ⟨e0, he0⟩ := List.exists_mem_of_ne_nil edges hne
      obtain ⟨c, _, h3, _⟩ := hE e0 he0
      rw [hc c] at h3; cases h3
    · rw [hixOld x h1, hbase, if_neg]
      · exact I1.baseNone x h1 h2 hc
      · intro heq
        have := I1.ixInj u x hu h1 heq
        subst this
        exact h2 List.mem_cons_self
  · intro x hx hs c hc
    obtain ⟨h1, h2⟩ := hcase x hx hs
    rcases h2 with rfl | h2
    · rw [hixOld x h1, hbase, if_pos rfl]
      refine ⟨hb, ?_⟩
      obtain ⟨k, hk, hg⟩ := hK c hc
      exact ⟨k, hg, hixNew (k, x ++ [c]) hk⟩
    · have hne' : ix lay1 u ≠ ix lay1 x := by
        intro heq
        have := I1.ixInj u x hu h1 heq
        subst this
        exact h2 List.mem_cons_self
      rw [hixOld x h1, hbase, if_neg hne', hixOld _ (I1.kids x h1 h2 c hc)]
      exact I1.baseSome x h1 h2 c hc
  · intro i hi'
    have hui : ix lay1 u ≠ i := by
      rw [← hixOld u hu]; exact hi' u (hold u hu) huS
    rw [hbase, if_neg hui]
    apply I1.baseD
    intro x hx hs
    rw [← hixOld x hx]
    apply hi' x (hold x hx)
    rw [hmemS]
    rintro (⟨e, he, heq⟩ | h)
    · exact hnew e he (heq ▸ hx)
    · exact hs (List.mem_cons_of_mem _ h)
  · exact hold [] I1.hasRoot
  · intro x hx
    rcases (hhas x).1 hx with h1 | ⟨e, he, rfl⟩
    · exact I1.hasNode x h1
    · obtain ⟨c, h1, h2, _⟩ := hE e he
      rw [h1]; exact h2
  · intro x hx
    rcases (hmemS x).1 hx with ⟨e, he, rfl⟩ | h
    · exact hchild e he
    · exact hold x (I1.stackHas x (List.mem_cons_of_mem _ h))
  · rw [List.nodup_append]
    refine ⟨(List.reverse_perm _).nodup_iff.2 hnd, hsn, ?_⟩
    intro x hx y hy hxy
    subst hxy
    rw [List.mem_reverse, List.mem_map] at hx
    obtain ⟨e, he, rfl⟩ := hx
    exact hnew e he (I1.stackHas _ (List.mem_cons_of_mem _ hy))
  · intro x hx hs c hc
    obtain ⟨h1, h2⟩ := hcase x hx hs
    rcases h2 with rfl | h2
    · obtain ⟨k, hk, _⟩ := hK c hc
      exact hchild (k, x ++ [c]) hk
    · exact hold _ (I1.kids x h1 h2 c hc)
  · intro p c hp
    rcases (hhas _).1 hp with h1 | ⟨e, he, heq⟩
    · obtain ⟨h2, h3⟩ := I1.parent p c h1
      refine ⟨hold p h2, ?_⟩
      rw [hmemS]
      rintro (⟨e, he, heq⟩ | h)
      · exact hnew e he (heq ▸ h2)
      · exact h3 (List.mem_cons_of_mem _ h)
    · obtain ⟨c0, h1, _, _⟩ := hE e he
      rw [heq] at h1
      have hpu : p = u := (List.append_inj' h1 rfl).1
      subst hpu
      exact ⟨hold p hu, huS⟩

theorem extendArray_idx {lay lay' : Lay} (e : extendArray .charwise lay = .ok lay') :
    lay'.idx = lay.idx := by
  unfold extendArray at e
  split at e
  · cases e
  · simp only at e
    split at e
    · cases e
    · simp only [Except.ok.injEq] at e; rw [← e]

theorem layoutStep_inv {m : Mapper} {t : Trie V} {BL : Nat} {lay lay' : Lay} {u : List Nat}
    {stack stack' : List (List Nat)} (hBL : 2 ≤ BL) (hα : m.alphaSize ≤ BL) (hm : MapperOk m)
    (hsort : t.Sorted) (I : Inv m t BL lay (u :: stack))
    (e : layoutStep .charwise m t u stack lay = .ok (stack', lay')) : Inv m t BL lay' stack' := by
  have hu := I.stackHas u List.mem_cons_self
  have hun := I.hasNode u hu
  unfold layoutStep at e
  split at e
  · cases e
  · rename_i hec
    simp only [Except.ok.injEq, Prod.mk.injEq] at e
    obtain ⟨rfl, rfl⟩ := e
    obtain ⟨p1, _⟩ := edgeCodes_spec m t u [] hec
    apply inv_leaf I
    intro c
    cases hc : t.hasNode (u ++ [c]) with
    | false => rfl
    | true =>
      have h1 : u ++ [c] ∈ t.childPaths u := (Trie.mem_childPaths t u _).2 ⟨c, rfl, hc, hun⟩
      have := p1.mem_iff.2 h1
      simp at this
  · rename_i edges hne hec
    obtain ⟨p1, p2⟩ := edgeCodes_spec m t u edges hec
    have hnd : (edges.map (·.2)).Nodup := p1.nodup_iff.2 (Trie.nodup_childPaths t hsort u)
    have hE : ∀ e ∈ edges, ∃ c, e.2 = u ++ [c] ∧ t.hasNode (u ++ [c]) = true ∧
        m.get c = some e.1 := by
      intro e he
      have h1 : e.2 ∈ t.childPaths u := p1.mem_iff.1 (List.mem_map.2 ⟨e, he, rfl⟩)
      obtain ⟨c, h2, h3, _⟩ := (Trie.mem_childPaths t u _).1 h1
      refine ⟨c, h2, h3, ?_⟩
      have := p2 e he
      rw [h2] at this
      simpa using this
    have hK : ∀ c, t.hasNode (u ++ [c]) = true → ∃ k, (k, u ++ [c]) ∈ edges ∧
        m.get c = some k := by
      intro c hc
      have h1 : u ++ [c] ∈ t.childPaths u := (Trie.mem_childPaths t u _).2 ⟨c, rfl, hc, hun⟩
      obtain ⟨e, he, heq⟩ := List.mem_map.1 (p1.mem_iff.2 h1)
      obtain ⟨c', h2, _, h3⟩ := hE e he
      rw [heq] at h2
      have hcc : c = c' := by simpa using h2
      subst hcc
      refine ⟨e.1, ?_, h3⟩
      rw [← heq]; exact he
    simp only at e
    split at e
    · cases e
    · rename_i base eb
      split at e
      · cases e
      · rename_i lay1 ee
        split at e
        · cases e
        · rename_i lay2 ep
          split at e
          · cases e
          · rename_i states' es
            simp only [Except.ok.injEq, Prod.mk.injEq] at e
            obtain ⟨rfl, e⟩ := e
            -- the array is at least one block long
            have hsz : BL ≤ lay.states.size := by
              have h0 := I.ixLt [] I.hasRoot
              rw [I.size] at h0 ⊢
              rcases Nat.eq_zero_or_pos lay.h.numBlocks with h1 | h1
              · rw [h1, Nat.zero_mul] at h0; omega
              · exact Nat.le_mul_of_pos_left BL h1
            have hb : base ≠ 0 := by
              apply findBase_ne_zero lay _ base ?_ eb
              cases edges with
              | nil => exact absurd rfl hne
              | cons e0 rest =>
                obtain ⟨c, _, _, h3⟩ := hE e0 List.mem_cons_self
                have := hm.1 c e0.1 h3
                simp only [List.map_cons, List.headD_cons]
                omega
            have hI1 : Inv m t BL lay1 (u :: stack) ∧ lay1.idx = lay.idx := by
              split at ee
              · exact ⟨extendArray_inv hBL I ee, extendArray_idx ee⟩
              · simp only [Except.ok.injEq] at ee
                subst ee; exact ⟨I, rfl⟩
            obtain ⟨I1, hidx⟩ := hI1
            have hsidx : lay.idx.getD u deadIdx = ix lay1 u := by unfold ix; rw [hidx]
            rw [hsidx] at ep es
            have SP := placeChildren_spec _ base edges lay1 lay2 I1.wf hnd ep
            obtain ⟨_, rfl⟩ := setSt_ok es
            exact inv_place hm I1 hE hK hnd hne hb SP (by rw [← e]) (by rw [← e]) (by rw [← e])

/-! ## (d) The DFS loop -/

theorem layoutLoop_inv {m : Mapper} {t : Trie V} {BL : Nat} (hBL : 2 ≤ BL) (hα : m.alphaSize ≤ BL)
    (hm : MapperOk m) (hsort : t.Sorted) (fuel : Nat) (stack : List (List Nat)) (lay lay' : Lay)
    (I : Inv m t BL lay stack) (e : layoutLoop .charwise m t fuel stack lay = .ok lay') :
    Inv m t BL lay' [] := by
  induction fuel generalizing stack lay with
  | zero =>
    cases stack with
    | nil =>
      unfold layoutLoop at e
      simp only [Except.ok.injEq] at e
      subst e; exact I
    | cons u s => unfold layoutLoop at e; cases e
  | succ fuel ih =>
    cases stack with
    | nil =>
      unfold layoutLoop at e
      simp only [Except.ok.injEq] at e
      subst e; exact I
    | cons u s =>
      unfold layoutLoop at e
      split at e
      · cases e
      · rename_i stack' lay1 es
        exact ih stack' lay1 (layoutStep_inv hBL hα hm hsort I es) e

/-- When the stack is empty every node of the trie has been placed (and processed). -/
theorem inv_all_placed {m : Mapper} {t : Trie V} {BL : Nat} {lay : Lay} (I : Inv m t BL lay []) :
    ∀ u, t.hasNode u = true → has lay u := by
  intro u
  generalize hn : u.length = n
  induction n generalizing u with
  | zero =>
    intro _
    have : u = [] := List.eq_nil_of_length_eq_zero hn
    subst this; exact I.hasRoot
  | succ n ih =>
    intro hu
    rcases List.eq_nil_or_concat u with rfl | ⟨v, c, rfl⟩
    · simp at hn
    · rw [List.concat_eq_append] at hu hn ⊢
      have hv := Trie.hasNode_of_snoc t v c hu
      have := ih v (by simpa using hn) hv
      exact I.kids v this (by simp) c hu

/-- The initial state satisfies the invariant. -/
theorem inv_init {m : Mapper} {t : Trie V} {bl nfb : Nat} {h0 h1 h2 h3 : Helper}
    (e0 : Helper.new bl nfb = .ok h0) (e1 : h0.pushBlock = .ok h1)
    (e2 : h1.useIndex rootIdx = .ok h2) (e3 : h2.useIndex deadIdx = .ok h3) :
    Inv m t bl ⟨Array.replicate bl stDefaultC, h3,
      ({} : Std.HashMap (List Nat) Nat).insert [] rootIdx⟩ [[]] := by
  obtain ⟨wf, nb, hbl, _, h2bl, _, u0, u1, _, _⟩ := Helper.init_ok e0 e1 e2 e3
  have hhas : ∀ x, has (⟨Array.replicate bl stDefaultC, h3,
      ({} : Std.HashMap (List Nat) Nat).insert [] rootIdx⟩ : Lay) x ↔ x = [] := by
    intro x
    simp only [has, Std.HashMap.contains_insert, Std.HashMap.contains_empty, Bool.or_false,
      beq_iff_eq]
    exact eq_comm
  have hix : ix (⟨Array.replicate bl stDefaultC, h3,
      ({} : Std.HashMap (List Nat) Nat).insert [] rootIdx⟩ : Lay) [] = 0 := by
    simp [ix, rootIdx, Gen.rootStateIdx]
  refine ⟨wf, hbl, ?_, hix, ?_, ?_, ?_, ?_, ?_, ?_, ?_, ?_, ?_, ?_, ?_, ?_, ?_, ?_, ?_, ?_⟩
  · simp [nb]
  · intro x hx
    rw [(hhas x).1 hx, hix]
    simp; omega
  · intro x hx hne; exact absurd ((hhas x).1 hx) hne
  · intro x w hx hw _; rw [(hhas x).1 hx, (hhas w).1 hw]
  · intro x hx _; rw [(hhas x).1 hx, hix]; exact u0
  · intro _; exact u1
  · intro p c hp; have := (hhas _).1 hp; simp at this
  · intro i _; simp only [gd_replicate]; rfl
  · intro x hx hs; rw [(hhas x).1 hx] at hs; simp at hs
  · intro x hx hs; rw [(hhas x).1 hx] at hs; simp at hs
  · intro i _; simp only [gd_replicate]; rfl
  · exact (hhas _).2 rfl
  · intro x hx; rw [(hhas x).1 hx]; simp
  · intro x hx; simp at hx; subst hx; exact (hhas _).2 rfl
  · simp
  · intro x hx hs; rw [(hhas x).1 hx] at hs; simp at hs
  · intro p c hp; have := (hhas _).1 hp; simp at this

/-! ## (e) `setFailOut` -/

/-- The FAIL value `setFailOut` writes for node `u`. -/
def failOf (nfa : Nfa V) (lay : Lay) (u : List Nat) : Nat :=
  match nfa.fail.get u with
  | .dead => deadIdx
  | .node w => ix lay w

theorem ix_setStates (lay : Lay) (s : Array St) (x : List Nat) :
    ix ⟨s, lay.h, lay.idx⟩ x = ix lay x := rfl

theorem setFailOut_spec (nfa : Nfa V) (L : List (List Nat)) (lay lay2 : Lay)
    (e : setFailOut .charwise nfa L lay = .ok lay2) :
    lay2.idx = lay.idx ∧ lay2.states.size = lay.states.size ∧
    (∀ i, (gd lay2.states i).base = (gd lay.states i).base ∧
      (gd lay2.states i).check = (gd lay.states i).check) ∧
    (∀ i, (∀ u ∈ L, ix lay u ≠ i) → gd lay2.states i = gd lay.states i) ∧
    (L.Pairwise (fun a b => ix lay a ≠ ix lay b) → ∀ u ∈ L,
      (gd lay2.states (ix lay u)).opos = nfa.out.opos.getD u 0 ∧
      (gd lay2.states (ix lay u)).fail = failOf nfa lay u) := by
  induction L generalizing lay with
  | nil =>
    unfold setFailOut at e
    simp only [Except.ok.injEq] at e
    subst e
    exact ⟨rfl, rfl, fun _ => ⟨rfl, rfl⟩, fun _ _ => rfl, fun _ _ h => (by cases h)⟩
  | cons u rest ih =>
    unfold setFailOut at e
    simp only [reduceCtorEq, false_and, if_false] at e
    split at e
    · cases e
    · rename_i states' es
      obtain ⟨hlt, rfl⟩ := setSt_ok es
      obtain ⟨c1, c2, c3, c4, c5⟩ := ih _ e
      simp only [ix_setStates] at c4 c5
      simp only at c1 c2 c3 c4 c5
      refine ⟨c1, ?_, ?_, ?_, ?_⟩
      · rw [c2]; simp
      · intro i
        rw [(c3 i).1, (c3 i).2, gd_modify]
        split <;> exact ⟨rfl, rfl⟩
      · intro i hi
        rw [c4 i (fun x hx => hi x (List.mem_cons_of_mem _ hx)), gd_modify, if_neg]
        intro hc
        exact hi u List.mem_cons_self hc.1
      · intro hp x hx
        rw [List.pairwise_cons] at hp
        rcases List.mem_cons.1 hx with rfl | hx
        · rw [c4 _ (fun y hy h => hp.1 y hy h.symm), gd_modify]
          have : lay.idx.getD x deadIdx = ix lay x := rfl
          rw [if_pos ⟨this, hlt⟩]
          exact ⟨rfl, rfl⟩
        · exact c5 hp.2 x hx

/-! ## (f) Assembly -/

/-- The automaton `buildDA` assembles from the layout result. -/
abbrev mkDA (m : Mapper) (states : Array St) (outs : Array (Out V)) (kind ns : Nat) : DA V :=
  { variant := .charwise, states := states, outputs := outs, mapTable := m.table,
    alphaSize := m.alphaSize, kind := kind, numStates := ns }

theorem code_eq (m : Mapper) (states : Array St) (outs : Array (Out V)) (kind ns c : Nat) :
    (mkDA m states outs kind ns).code c = m.get c := rfl

theorem st_eq (m : Mapper) (states : Array St) (outs : Array (Out V)) (kind ns : Nat) {i : Nat}
    (h : i < states.size) : (mkDA m states outs kind ns).st i = .ok (gd states i) := by
  unfold DA.st
  show (match states[i]? with | some s => Except.ok s | none => Except.error Fault.oobStates) = _
  rw [gd_of_lt h]

theorem child_ok {m : Mapper} {t : Trie V} {BL n : Nat} {lay : Lay} (hpow : BL = 2 ^ n)
    (hα : m.alphaSize ≤ BL) (hm : MapperOk m) (I : Inv m t BL lay [])
    (states : Array St) (outs : Array (Out V)) (kind ns : Nat)
    (hsz : states.size = lay.states.size)
    (hbc : ∀ i, (gd states i).base = (gd lay.states i).base ∧
      (gd states i).check = (gd lay.states i).check)
    (u : List Nat) (hu : t.hasNode u = true) (c : Nat) :
    (mkDA m states outs kind ns).childL (ix lay u) c =
      .ok (if t.hasNode (u ++ [c]) = true then some (ix lay (u ++ [c])) else none) := by
  have hall := inv_all_placed I
  have hhu := hall u hu
  have hns : u ∉ ([] : List (List Nat)) := by simp
  unfold DA.childL
  rw [code_eq]
  cases hg : m.get c with
  | none =>
    simp only
    cases hc : t.hasNode (u ++ [c]) with
    | false => simp
    | true =>
      obtain ⟨_, k, hk, _⟩ := I.baseSome u hhu hns c hc
      rw [hg] at hk; cases hk
  | some k =>
    simp only
    have hkBL : k < 2 ^ n := hpow ▸ Nat.lt_of_lt_of_le (hm.1 c k hg) hα
    have hlt : ix lay u < states.size := by rw [hsz]; exact I.ixLt u hhu
    unfold DA.child
    rw [st_eq _ _ _ _ _ hlt]
    simp only
    rw [(hbc _).1]
    by_cases hb0 : (gd lay.states (ix lay u)).base = 0
    · rw [if_pos hb0]
      cases hc : t.hasNode (u ++ [c]) with
      | false => simp
      | true => exact absurd hb0 (I.baseSome u hhu hns c hc).1
    · rw [if_neg hb0]
      have hex : ∃ c0, t.hasNode (u ++ [c0]) = true := by
        apply Classical.byContradiction
        intro hno
        apply hb0
        apply I.baseNone u hhu hns
        intro c0
        cases h : t.hasNode (u ++ [c0]) with
        | false => rfl
        | true => exact absurd ⟨c0, h⟩ hno
      obtain ⟨c0, hc0⟩ := hex
      obtain ⟨_, k0, hk0, hix0⟩ := I.baseSome u hhu hns c0 hc0
      have hk0BL : k0 < 2 ^ n := hpow ▸ Nat.lt_of_lt_of_le (hm.1 c0 k0 hk0) hα
      have h1 := I.ixLt _ (hall _ hc0)
      rw [hix0, I.size, hpow] at h1
      have h2 := (xor_lt_iff hk0BL).1 h1
      have h3 : (gd lay.states (ix lay u)).base ^^^ k < states.size := by
        rw [hsz, I.size, hpow]; exact (xor_lt_iff hkBL).2 h2
      rw [st_eq _ _ _ _ _ h3]
      simp only
      rw [(hbc _).2]
      cases hc : t.hasNode (u ++ [c]) with
      | true =>
        obtain ⟨_, k', hk', hix'⟩ := I.baseSome u hhu hns c hc
        rw [hg] at hk'; cases hk'
        rw [← hix', I.chk u c (hall _ hc)]
        simp
      | false =>
        have hne : (gd lay.states ((gd lay.states (ix lay u)).base ^^^ k)).check ≠ ix lay u := by
          intro heq
          by_cases hw : ∃ w, has lay w ∧ w ≠ [] ∧
              ix lay w = (gd lay.states (ix lay u)).base ^^^ k
          · obtain ⟨w, hw1, hw2, hw3⟩ := hw
            rcases List.eq_nil_or_concat w with rfl | ⟨p, c', rfl⟩
            · exact hw2 rfl
            · rw [List.concat_eq_append] at hw1 hw3
              have hp := (I.parent p c' hw1).1
              rw [← hw3, I.chk p c' hw1] at heq
              have hpu := I.ixInj p u hp hhu heq
              subst hpu
              have hn' := I.hasNode _ hw1
              obtain ⟨_, k'', hk'', hix''⟩ := I.baseSome p hhu hns c' hn'
              rw [hix''] at hw3
              have hkk := xor_left_cancel hw3
              subst hkk
              have hcc := hm.2 c' c k'' hk'' hg
              subst hcc
              rw [hn'] at hc; cases hc
          · have h1' := I.chkD _ (fun w hw1 hw2 hw3 => hw ⟨w, hw1, hw2, hw3⟩)
            rw [h1'] at heq
            by_cases hune : u = []
            · subst hune; rw [I.ixRoot] at heq; cases heq
            · exact (I.ixNe u hhu hune).2 heq.symm
        simp [hne]

theorem layoutSem_charwise (cfg : Cfg) (m : Mapper) (t : Trie V) (nfa : Nfa V) (states : Array St)
    (hb : buildLayout .charwise cfg m t nfa = .ok states) (hsort : t.Sorted)
    (hm : MapperOk m) (kind numStates : Nat) :
    ∃ idx : List Nat → Nat,
      LayoutSem ({ variant := .charwise, states := states, outputs := nfa.out.outs,
                   mapTable := m.table, alphaSize := m.alphaSize, kind := kind,
                   numStates := numStates } : DA V) t nfa idx ∧
      (∀ u, t.hasNode u = true → idx u < states.size) ∧
      (∀ u w, t.hasNode u = true → t.hasNode w = true → idx u = idx w → u = w) := by
  unfold buildLayout at hb
  simp only at hb
  split at hb
  · cases hb
  rename_i h0 e0
  split at hb
  · cases hb
  rename_i h1 e1
  split at hb
  · cases hb
  rename_i h2 e2
  split at hb
  · cases hb
  rename_i h3 e3
  split at hb
  · cases hb
  rename_i lay1 el
  split at hb
  · cases hb
  rename_i lay2 ef
  simp only [Except.ok.injEq] at hb
  subst hb
  obtain ⟨⟨n, hpow⟩, hBL, hα⟩ := blockLen_facts m.alphaSize
  have I0 := inv_init (m := m) (t := t) e0 e1 e2 e3
  have I := layoutLoop_inv hBL hα hm hsort _ _ _ _ I0 el
  have hall := inv_all_placed I
  obtain ⟨_, c2, c3, _, c5⟩ := setFailOut_spec nfa _ _ _ ef
  have hpw : (t.paths []).Pairwise (fun a b => ix lay1 a ≠ ix lay1 b) := by
    refine List.Pairwise.imp_of_mem ?_ (Trie.nodup_paths t hsort [])
    intro a b ha hb hab heq
    exact hab (I.ixInj a b (hall a ((Trie.mem_paths_nil t hsort a).1 ha))
      (hall b ((Trie.mem_paths_nil t hsort b).1 hb)) heq)
  have hlt : ∀ u, t.hasNode u = true → ix lay1 u < lay2.states.size := by
    intro u hu; rw [c2]; exact I.ixLt u (hall u hu)
  refine ⟨ix lay1, ⟨I.ixRoot, ?_, ?_, ?_, rfl⟩, hlt, ?_⟩
  · intro u hu hne
    exact I.ixNe u (hall u hu) hne
  · intro u hu
    refine ⟨gd lay2.states (ix lay1 u), st_eq m _ _ _ _ (hlt u hu), ?_, ?_⟩
    · exact (c5 hpw u ((Trie.mem_paths_nil t hsort u).2 hu)).1
    · intro _
      exact (c5 hpw u ((Trie.mem_paths_nil t hsort u).2 hu)).2
  · intro u hu c _
    exact child_ok hpow hα hm I lay2.states nfa.out.outs kind numStates c2 c3 u hu c
  · intro u w hu hw heq
    exact I.ixInj u w (hall u hu) (hall w hw) heq

#print axioms layoutSem_charwise

end Daac.LayC

/-
Second half of the Rung-1 proof for the standard kind: given the table semantics `StdSem da P`
(Daac/Proofs/StdIface.lean), the three standard-kind iterators of the model return exactly the
item-level specification (`specOvItems`, `specNoSufItems`, `specFindItems`), and for the
byte-wise variant the byte-level specification of Daac/Spec.lean.
Core Lean only. Helper lemmas live in the namespace `Daac.StdIter`.
-/
import Daac.Proofs.StdIface
namespace Daac
namespace StdIter
variable {V : Type}

/-! ### 1. The byte source: every item consumes at least one byte -/

theorem pull_len {s s1 : Src} {b : Nat} (h : s.pull = some (b, s1)) :
    s1.rest.length + 1 = s.rest.length := by
  unfold Src.pull at h
  split at h
  · cases h
  · next b' r hr =>
    cases h
    simp [hr]

theorem decodeNext_lt {s s' : Src} {item : Item} (h : decodeNext s = .ok (some (item, s'))) :
    s'.rest.length < s.rest.length := by
  unfold decodeNext at h
  split at h
  · cases h
  · next first s1 h1 =>
    have a1 := pull_len h1
    split at h
    · cases h; omega
    · split at h
      · cases h
      · next r1 s2 h2 =>
        have a2 := pull_len h2
        simp only at h
        split at h
        · split at h
          · cases h; omega
          · cases h
        · split at h
          · cases h
          · next r2 s3 h3 =>
            have a3 := pull_len h3
            split at h
            · split at h
              · cases h; omega
              · cases h
            · split at h
              · cases h
              · next r3 s4 h4 =>
                have a4 := pull_len h4
                split at h
                · cases h; omega
                · cases h

theorem nextItem_lt {v : Variant} {s s' : Src} {item : Item}
    (h : nextItem v s = .ok (some (item, s'))) : s'.rest.length < s.rest.length := by
  unfold nextItem at h
  split at h
  · split at h
    · cases h
    · next b s1 h1 =>
      cases h
      have := pull_len h1
      omega
  · exact decodeNext_lt h

/-- The source `s` decodes (without fault) into exactly the items `items`. -/
inductive Feeds (v : Variant) : Src → List Item → Prop where
  | nil {s : Src} : nextItem v s = .ok none → Feeds v s []
  | cons {s s' : Src} {it : Item} {rest : List Item} :
      nextItem v s = .ok (some (it, s')) → Feeds v s' rest → Feeds v s (it :: rest)

theorem Feeds.length_le {v : Variant} {s : Src} {items : List Item} (h : Feeds v s items) :
    items.length ≤ s.rest.length := by
  induction h with
  | nil _ => simp
  | cons hi _ ih =>
    have := nextItem_lt hi
    simp only [List.length_cons]
    omega

theorem allItems_feeds {v : Variant} {fuel : Nat} {s : Src} {ws : List WItem}
    (h : allItems v fuel s = .ok ws) : Feeds v s (ws.map fun w => ⟨w.label, w.stop⟩) := by
  induction fuel generalizing s ws with
  | zero => simp [allItems] at h
  | succ fuel ih =>
    unfold allItems at h
    split at h
    · cases h
    · next hi => cases h; exact Feeds.nil hi
    · next item s1 hi =>
      split at h
      · cases h
      · next l hl =>
        cases h
        exact Feeds.cons hi (ih hl)

theorem itemsOfHay_feeds {v : Variant} {h : List Nat} {items : List Item}
    (hi : itemsOfHay v h = .ok items) : Feeds v (startSrc h) items := by
  unfold itemsOfHay at hi
  split at hi
  · cases hi
  · next ws hw =>
    cases hi
    exact allItems_feeds hw

/-! ### 2. Pure facts about `sufLPats` -/

theorem lsuf_cons (N : List (List Nat)) (a : Nat) (l : List Nat) :
    lsuf N (a :: l) = if a :: l ∈ N then a :: l else lsuf N l := by
  simp only [lsuf, sufs, List.find?_cons]
  by_cases h : a :: l ∈ N <;> simp [h]

theorem sufLPats_cons (P : List (LPat V)) (a : Nat) (l : List Nat) :
    sufLPats P (a :: l) = P.filter (fun p => p.key = a :: l) ++ sufLPats P l := by
  simp [sufLPats, sufs]

theorem filter_key_not_node {P : List (LPat V)} {s : List Nat} (h : s ∉ nodeList P) :
    P.filter (fun p => p.key = s) = [] := by
  rw [List.filter_eq_nil_iff]
  intro p hp hk
  apply h
  have hk' : p.key = s := by simpa using hk
  exact mem_nodeList.2 (Or.inr ⟨p, hp, hk' ▸ List.prefix_refl _⟩)

/-- The patterns that are suffixes of `x` are those that are suffixes of the longest suffix of
`x` that is a node. -/
theorem sufLPats_lsuf (P : List (LPat V)) (x : List Nat) :
    sufLPats P (lsuf (nodeList P) x) = sufLPats P x := by
  induction x with
  | nil => rw [lsuf_nil]
  | cons a l ih =>
    rw [lsuf_cons]
    by_cases h : a :: l ∈ nodeList P
    · simp [h]
    · rw [if_neg h, ih, sufLPats_cons, filter_key_not_node h, List.nil_append]

theorem filter_mem_cons_length (P : List (LPat V)) (s : List Nat) (L : List (List Nat))
    (hs : s ∉ L) :
    (P.filter (fun p => p.key = s)).length + (P.filter (fun p => p.key ∈ L)).length
      = (P.filter (fun p => p.key ∈ s :: L)).length := by
  induction P with
  | nil => simp
  | cons p P ih =>
    by_cases h1 : p.key = s
    · have h2 : p.key ∉ L := h1 ▸ hs
      simp [h1, hs] at ih ⊢
      omega
    · by_cases h2 : p.key ∈ L
      · simp [h1, h2] at ih ⊢
        omega
      · simp [h1, h2] at ih ⊢
        omega

theorem flatMap_filter_length (P : List (LPat V)) (L : List (List Nat)) (hL : L.Nodup) :
    (L.flatMap (fun s => if s = [] then [] else P.filter (fun p => p.key = s))).length
      ≤ (P.filter (fun p => p.key ∈ L)).length := by
  induction L with
  | nil => simp
  | cons s L ih =>
    have hs : s ∉ L := (List.nodup_cons.1 hL).1
    have := ih (List.nodup_cons.1 hL).2
    rw [List.flatMap_cons, List.length_append, ← filter_mem_cons_length P s L hs]
    by_cases h0 : s = []
    · subst h0
      rw [if_pos rfl]
      simp only [List.length_nil]
      omega
    · rw [if_neg h0]; omega

theorem sufs_nodup (x : List Nat) : (sufs x).Nodup := by
  have := sufs_sorted x
  unfold List.Nodup
  refine this.imp ?_
  intro a b hab e
  subst e
  omega

/-- At most `|P|` patterns end at any position. -/
theorem sufLPats_length_le (P : List (LPat V)) (x : List Nat) :
    (sufLPats P x).length ≤ P.length := by
  unfold sufLPats
  exact Nat.le_trans (flatMap_filter_length P _ (sufs_nodup x)) (List.length_filter_le _ _)

/-! ### 3. One automaton step under `StdSem` -/

theorem chain_nil {da : DA V} {p : Nat} (h : ChainIs da p []) : p = 0 := by
  cases h; rfl

theorem chain_cons {da : DA V} {p : Nat} {x : V × Nat} {l : List (V × Nat)}
    (h : ChainIs da p (x :: l)) :
    p ≠ 0 ∧ ∃ o, da.out p = .ok o ∧ x = (o.value, o.length) ∧ ChainIs da o.parent l := by
  cases h with
  | cons h1 h2 h3 => exact ⟨h1, _, h2, rfl, h3⟩

/-- The state reached after the labels `pre`. -/
def stOf (da : DA V) (P : List (LPat V)) (pre : List Nat) : Nat :=
  da.idx (lsuf (nodeList P) pre)

theorem stOf_nil {da : DA V} {P : List (LPat V)} (hS : StdSem da P) : stOf da P [] = rootIdx := by
  unfold stOf
  rw [lsuf_nil, hS.root]

/-- The records of the output chain of the state reached after `x`. -/
def recs (P : List (LPat V)) (x : List Nat) : List (V × Nat) :=
  (sufLPats P x).map (fun p => (p.value, p.blen))

theorem step_ok {da : DA V} {P : List (LPat V)} (hS : StdSem da P) (pre : List Nat) (c : Nat)
    (hc : LabelOk da c) :
    da.next (stOf da P pre) c = .ok (stOf da P (pre ++ [c])) ∧
    ∃ st, da.st (stOf da P (pre ++ [c])) = .ok st ∧ ChainIs da st.opos (recs P (pre ++ [c])) := by
  have hN := nodeList_prefClosed P
  have hm := (lsuf_spec hN.nil_mem pre).2.1
  have hm' := (lsuf_spec hN.nil_mem (pre ++ [c])).2.1
  refine ⟨?_, ?_⟩
  · unfold stOf
    rw [hS.next_ok _ hm c hc, lsuf_step hN]
  · obtain ⟨st, h1, h2⟩ := hS.chain_ok _ hm'
    refine ⟨st, h1, ?_⟩
    unfold recs
    rw [← sufLPats_lsuf]
    exact h2

theorem mkMatch_eq {o : Out V} {p : LPat V} (e : Nat) (h : (p.value, p.blen) = (o.value, o.length)) :
    mkMatch o e = lmatchAt p e := by
  simp only [Prod.mk.injEq] at h
  obtain ⟨h1, h2⟩ := h
  unfold mkMatch lmatchAt
  rw [h1, h2]

/-! ### 4. The first item with a non-empty output chain -/

/-- Where a scan from the state after `pre` stops: labels consumed up to and including the item,
the item, and the remaining items. -/
structure Hit where
  pre : List Nat
  item : Item
  rest : List Item

def firstHit (P : List (LPat V)) : List Nat → List Item → Option Hit
  | _, [] => none
  | pre, it :: rest =>
    match (sufLPats P (pre ++ [it.label])).head? with
    | some _ => some ⟨pre ++ [it.label], it, rest⟩
    | none => firstHit P (pre ++ [it.label]) rest

theorem firstHit_none {P : List (LPat V)} {pre : List Nat} {items : List Item}
    (h : firstHit P pre items = none) :
    specOvItems P pre items = [] ∧ specNoSufItems P pre items = [] ∧
      specFindItems P pre items = [] := by
  induction items generalizing pre with
  | nil => simp [specOvItems, specNoSufItems, specFindItems]
  | cons it rest ih =>
    unfold firstHit at h
    split at h
    · cases h
    · next hh =>
      obtain ⟨a, b, c⟩ := ih h
      have h0 : sufLPats P (pre ++ [it.label]) = [] := List.head?_eq_none_iff.1 hh
      refine ⟨?_, ?_, ?_⟩
      · simp [specOvItems, h0, a]
      · simp [specNoSufItems, h0, b]
      · simp [specFindItems, h0, c]

theorem firstHit_some {P : List (LPat V)} {pre : List Nat} {items : List Item} {hit : Hit}
    (h : firstHit P pre items = some hit) :
    ∃ p ps, sufLPats P hit.pre = p :: ps ∧
      specOvItems P pre items = lmatchAt p hit.item.stop ::
        (ps.map (fun q => lmatchAt q hit.item.stop) ++ specOvItems P hit.pre hit.rest) ∧
      specNoSufItems P pre items = lmatchAt p hit.item.stop :: specNoSufItems P hit.pre hit.rest ∧
      specFindItems P pre items = lmatchAt p hit.item.stop :: specFindItems P [] hit.rest ∧
      (∀ it ∈ hit.rest, it ∈ items) ∧ hit.rest.length < items.length := by
  induction items generalizing pre with
  | nil => simp [firstHit] at h
  | cons it rest ih =>
    unfold firstHit at h
    split at h
    · next q hh =>
      cases h
      obtain ⟨ps, hps⟩ : ∃ ps, sufLPats P (pre ++ [it.label]) = q :: ps := by
        cases hl : sufLPats P (pre ++ [it.label]) with
        | nil => simp [hl] at hh
        | cons a l =>
          rw [hl] at hh
          simp only [List.head?_cons, Option.some.injEq] at hh
          exact ⟨l, by rw [hh]⟩
      refine ⟨q, ps, hps, ?_, ?_, ?_, ?_, ?_⟩
      · simp [specOvItems, hps]
      · simp [specNoSufItems, hps]
      · simp [specFindItems, hps]
      · intro x hx; exact List.mem_cons_of_mem _ hx
      · simp
    · next hh =>
      obtain ⟨p, ps, h1, h2, h3, h4, h5, h6⟩ := ih h
      have h0 : sufLPats P (pre ++ [it.label]) = [] := List.head?_eq_none_iff.1 hh
      refine ⟨p, ps, h1, ?_, ?_, ?_, ?_, ?_⟩
      · simp [specOvItems, h0, h2]
      · simp [specNoSufItems, h0, h3]
      · simp [specFindItems, h0, h4]
      · intro x hx; exact List.mem_cons_of_mem _ (h5 x hx)
      · simp only [List.length_cons]; omega

/-! ### 5. `scanFirst` -/

theorem scanFirst_hit {da : DA V} {P : List (LPat V)} (hS : StdSem da P) (items : List Item) :
    ∀ (fuel : Nat) (pre : List Nat) (src : Src), Feeds da.variant src items →
      (∀ it ∈ items, LabelOk da it.label) → items.length < fuel →
      (firstHit P pre items = none →
        ∃ st' src', scanFirst da fuel (stOf da P pre) src = .ok (none, st', src')) ∧
      (∀ hit, firstHit P pre items = some hit → ∀ p ps, sufLPats P hit.pre = p :: ps →
        ∃ src', scanFirst da fuel (stOf da P pre) src =
            .ok (some (lmatchAt p hit.item.stop), stOf da P hit.pre, src') ∧
          Feeds da.variant src' hit.rest) := by
  induction items with
  | nil =>
    intro fuel pre src hF _ hf
    cases fuel with
    | zero => omega
    | succ fuel =>
      cases hF with
      | nil hi =>
        refine ⟨fun _ => ⟨stOf da P pre, src, by simp [scanFirst, hi]⟩, ?_⟩
        intro hit hh
        simp [firstHit] at hh
  | cons it rest ih =>
    intro fuel pre src hF hL hf
    cases fuel with
    | zero => omega
    | succ fuel =>
      cases hF with
      | @cons _ s1 _ _ hi hF' =>
        obtain ⟨hn, st, hst, hch⟩ := step_ok hS pre it.label (hL it (List.mem_cons_self))
        have hL' : ∀ x ∈ rest, LabelOk da x.label := fun x hx => hL x (List.mem_cons_of_mem _ hx)
        have hf' : rest.length < fuel := by simp only [List.length_cons] at hf; omega
        obtain ⟨ih1, ih2⟩ := ih fuel (pre ++ [it.label]) _ hF' hL' hf'
        cases hl : sufLPats P (pre ++ [it.label]) with
        | nil =>
          have hop : st.opos = 0 := by
            unfold recs at hch; rw [hl] at hch; exact chain_nil hch
          have hfh : firstHit P pre (it :: rest) = firstHit P (pre ++ [it.label]) rest := by
            simp [firstHit, hl]
          have hsc : scanFirst da (fuel + 1) (stOf da P pre) src =
              scanFirst da fuel (stOf da P (pre ++ [it.label])) s1 := by
            rw [scanFirst]
            simp only [hi, hn, hst, hop, ne_eq, not_true_eq_false, if_false]
          rw [hfh, hsc]
          exact ⟨ih1, ih2⟩
        | cons q qs =>
          have hfh : firstHit P pre (it :: rest) = some ⟨pre ++ [it.label], it, rest⟩ := by
            simp [firstHit, hl]
          unfold recs at hch
          rw [hl] at hch
          obtain ⟨hop, o, ho, hq, _⟩ := chain_cons hch
          rw [hfh]
          refine ⟨fun hc => (by cases hc), ?_⟩
          intro hit hh p ps hp
          cases hh
          simp only at hp
          rw [hl] at hp
          cases hp
          refine ⟨_, ?_, hF'⟩
          rw [scanFirst]
          simp only [hi, hn, hst, ne_eq, hop, not_false_eq_true, if_true, ho, mkMatch_eq _ hq]

/-! ### 6. `scanOv` -/

theorem scanOv_hit {da : DA V} {P : List (LPat V)} (hS : StdSem da P) (items : List Item) :
    ∀ (fuel : Nat) (pre : List Nat) (src : Src) (pos opos : Nat), Feeds da.variant src items →
      (∀ it ∈ items, LabelOk da it.label) → items.length < fuel →
      (firstHit P pre items = none →
        ∃ it', scanOv da fuel ⟨src, stOf da P pre, pos, opos⟩ = .ok ⟨none, it'⟩) ∧
      (∀ hit, firstHit P pre items = some hit → ∀ p ps, sufLPats P hit.pre = p :: ps →
        ∃ src' op, scanOv da fuel ⟨src, stOf da P pre, pos, opos⟩ =
            .ok ⟨some (lmatchAt p hit.item.stop), ⟨src', stOf da P hit.pre, hit.item.stop, op⟩⟩ ∧
          ChainIs da op (ps.map (fun q => (q.value, q.blen))) ∧
          Feeds da.variant src' hit.rest) := by
  induction items with
  | nil =>
    intro fuel pre src pos opos hF _ hf
    cases fuel with
    | zero => omega
    | succ fuel =>
      cases hF with
      | nil hi =>
        refine ⟨fun _ => ⟨⟨src, stOf da P pre, pos, opos⟩, by simp [scanOv, hi]⟩, ?_⟩
        intro hit hh
        simp [firstHit] at hh
  | cons it rest ih =>
    intro fuel pre src pos opos hF hL hf
    cases fuel with
    | zero => omega
    | succ fuel =>
      cases hF with
      | @cons _ s1 _ _ hi hF' =>
        obtain ⟨hn, st, hst, hch⟩ := step_ok hS pre it.label (hL it (List.mem_cons_self))
        have hL' : ∀ x ∈ rest, LabelOk da x.label := fun x hx => hL x (List.mem_cons_of_mem _ hx)
        have hf' : rest.length < fuel := by simp only [List.length_cons] at hf; omega
        cases hl : sufLPats P (pre ++ [it.label]) with
        | nil =>
          have hop : st.opos = 0 := by
            unfold recs at hch; rw [hl] at hch; exact chain_nil hch
          have hfh : firstHit P pre (it :: rest) = firstHit P (pre ++ [it.label]) rest := by
            simp [firstHit, hl]
          have hsc : scanOv da (fuel + 1) ⟨src, stOf da P pre, pos, opos⟩ =
              scanOv da fuel ⟨s1, stOf da P (pre ++ [it.label]),
                (match da.variant with
                  | .bytewise => pos
                  | .charwise => it.stop), opos⟩ := by
            rw [scanOv]
            simp only [hi, hn, hst, hop, ne_eq, not_true_eq_false, if_false]
            rfl
          rw [hfh, hsc]
          exact ih fuel (pre ++ [it.label]) s1 _ opos hF' hL' hf'
        | cons q qs =>
          have hfh : firstHit P pre (it :: rest) = some ⟨pre ++ [it.label], it, rest⟩ := by
            simp [firstHit, hl]
          unfold recs at hch
          rw [hl] at hch
          obtain ⟨hop, o, ho, hq, hpar⟩ := chain_cons hch
          rw [hfh]
          refine ⟨fun hc => (by cases hc), ?_⟩
          intro hit hh p ps hp
          cases hh
          simp only at hp
          rw [hl] at hp
          cases hp
          refine ⟨s1, o.parent, ?_, hpar, hF'⟩
          rw [scanOv]
          simp only [hi, hn, hst, ne_eq, hop, not_false_eq_true, if_true, ho, mkMatch_eq _ hq]

/-! ### 7. `collectWith` over the three iterators -/

theorem noSuf_collect {da : DA V} {P : List (LPat V)} (hS : StdSem da P) :
    ∀ (fuelC : Nat) (items : List Item) (pre : List Nat) (src : Src),
      Feeds da.variant src items → (∀ it ∈ items, LabelOk da it.label) →
      (specNoSufItems P pre items).length < fuelC →
      ∃ l fin, collectWith (NoSufIt.next da) (·.src.pulled) fuelC ⟨src, stOf da P pre⟩ = .ok (l, fin) ∧
        l.map (·.1) = specNoSufItems P pre items := by
  intro fuelC
  induction fuelC with
  | zero => intro _ _ _ _ _ h; omega
  | succ fuelC ih =>
    intro items pre src hF hL hlen
    have hsf := scanFirst_hit hS items (src.rest.length + 1) pre src hF hL
      (Nat.lt_succ_of_le hF.length_le)
    cases hfh : firstHit P pre items with
    | none =>
      obtain ⟨st', src', hsc⟩ := hsf.1 hfh
      refine ⟨[], src'.pulled, ?_, ?_⟩
      · rw [collectWith]
        simp only [NoSufIt.next, hsc]
      · rw [(firstHit_none hfh).2.1]; rfl
    | some hit =>
      obtain ⟨p, ps, hp, _, hspec, _, hmem, _⟩ := firstHit_some hfh
      obtain ⟨src', hsc, hF'⟩ := hsf.2 hit hfh p ps hp
      rw [hspec] at hlen ⊢
      obtain ⟨l, fin, hc, hm⟩ := ih hit.rest hit.pre src' hF' (fun x hx => hL x (hmem x hx))
        (by simp only [List.length_cons] at hlen; omega)
      refine ⟨(lmatchAt p hit.item.stop, src'.pulled) :: l, fin, ?_, ?_⟩
      · rw [collectWith]
        simp only [NoSufIt.next, hsc, hc]
      · simp [hm]

theorem find_collect {da : DA V} {P : List (LPat V)} (hS : StdSem da P) :
    ∀ (fuelC : Nat) (items : List Item) (src : Src),
      Feeds da.variant src items → (∀ it ∈ items, LabelOk da it.label) →
      (specFindItems P [] items).length < fuelC →
      ∃ l fin, collectWith (FindIt.next da) (·.src.pulled) fuelC ⟨src⟩ = .ok (l, fin) ∧
        l.map (·.1) = specFindItems P [] items := by
  intro fuelC
  induction fuelC with
  | zero => intro _ _ _ _ h; omega
  | succ fuelC ih =>
    intro items src hF hL hlen
    have hsf := scanFirst_hit hS items (src.rest.length + 1) [] src hF hL
      (Nat.lt_succ_of_le hF.length_le)
    rw [stOf_nil hS] at hsf
    cases hfh : firstHit P [] items with
    | none =>
      obtain ⟨st', src', hsc⟩ := hsf.1 hfh
      refine ⟨[], src'.pulled, ?_, ?_⟩
      · rw [collectWith]
        simp only [FindIt.next, hsc]
      · rw [(firstHit_none hfh).2.2]; rfl
    | some hit =>
      obtain ⟨p, ps, hp, _, _, hspec, hmem, _⟩ := firstHit_some hfh
      obtain ⟨src', hsc, hF'⟩ := hsf.2 hit hfh p ps hp
      rw [hspec] at hlen ⊢
      obtain ⟨l, fin, hc, hm⟩ := ih hit.rest src' hF' (fun x hx => hL x (hmem x hx))
        (by simp only [List.length_cons] at hlen; omega)
      refine ⟨(lmatchAt p hit.item.stop, src'.pulled) :: l, fin, ?_, ?_⟩
      · rw [collectWith]
        simp only [FindIt.next, hsc, hc]
      · simp [hm]

/-- The matches still pending in an output chain whose records are `pend`, at position `pos`. -/
def pendMatches (pend : List (V × Nat)) (pos : Nat) : List (Match V) :=
  pend.map (fun x => ⟨pos - x.2, pos, x.1⟩)

theorem ov_collect {da : DA V} {P : List (LPat V)} (hS : StdSem da P) :
    ∀ (fuelC : Nat) (pend : List (V × Nat)) (opos pos : Nat) (items : List Item) (pre : List Nat)
      (src : Src), ChainIs da opos pend →
      Feeds da.variant src items → (∀ it ∈ items, LabelOk da it.label) →
      pend.length + (specOvItems P pre items).length < fuelC →
      ∃ l fin, collectWith (OvIt.next da) (·.src.pulled) fuelC ⟨src, stOf da P pre, pos, opos⟩ =
          .ok (l, fin) ∧
        l.map (·.1) = pendMatches pend pos ++ specOvItems P pre items := by
  intro fuelC
  induction fuelC with
  | zero => intro _ _ _ _ _ _ _ _ _ h; omega
  | succ fuelC ih =>
    intro pend opos pos items pre src hC hF hL hlen
    cases pend with
    | cons x pend' =>
      obtain ⟨hop, o, ho, hx, hpar⟩ := chain_cons hC
      obtain ⟨l, fin, hc, hm⟩ := ih pend' o.parent pos items pre src hpar hF hL
        (by simp only [List.length_cons] at hlen; omega)
      refine ⟨(mkMatch o pos, src.pulled) :: l, fin, ?_, ?_⟩
      · rw [collectWith]
        simp only [OvIt.next, ne_eq, hop, not_false_eq_true, if_true, ho, hc]
      · subst hx
        simp [hm, pendMatches, mkMatch]
    | nil =>
      have hop : opos = 0 := chain_nil hC
      subst hop
      have hsf := scanOv_hit hS items (src.rest.length + 1) pre src pos 0 hF hL
        (Nat.lt_succ_of_le hF.length_le)
      cases hfh : firstHit P pre items with
      | none =>
        obtain ⟨it', hsc⟩ := hsf.1 hfh
        refine ⟨[], it'.src.pulled, ?_, ?_⟩
        · rw [collectWith]
          simp only [OvIt.next, ne_eq, not_true_eq_false, if_false, hsc]
        · rw [(firstHit_none hfh).1]; rfl
      | some hit =>
        obtain ⟨p, ps, hp, hspec, _, _, hmem, _⟩ := firstHit_some hfh
        obtain ⟨src', op, hsc, hch, hF'⟩ := hsf.2 hit hfh p ps hp
        rw [hspec] at hlen ⊢
        obtain ⟨l, fin, hc, hm⟩ := ih _ op hit.item.stop hit.rest hit.pre src' hch hF'
          (fun x hx => hL x (hmem x hx))
          (by simp only [List.length_cons, List.length_append, List.length_map, List.length_nil] at hlen ⊢
              omega)
        refine ⟨(lmatchAt p hit.item.stop, src'.pulled) :: l, fin, ?_, ?_⟩
        · rw [collectWith]
          simp only [OvIt.next, ne_eq, not_true_eq_false, if_false, hsc, hc]
        · simp [hm, pendMatches, lmatchAt, List.map_map, Function.comp_def]

/-! ### 8. Fuel accounting -/

theorem specOv_length (P : List (LPat V)) (pre : List Nat) (items : List Item) :
    (specOvItems P pre items).length ≤ items.length * P.length := by
  induction items generalizing pre with
  | nil => simp [specOvItems]
  | cons it rest ih =>
    have h1 := sufLPats_length_le P (pre ++ [it.label])
    have h2 := ih (pre ++ [it.label])
    simp only [specOvItems, List.length_append, List.length_map, List.length_cons, Nat.add_mul,
      Nat.one_mul]
    omega

theorem specNoSuf_length (P : List (LPat V)) (pre : List Nat) (items : List Item) :
    (specNoSufItems P pre items).length ≤ items.length := by
  induction items generalizing pre with
  | nil => simp [specNoSufItems]
  | cons it rest ih =>
    have h2 := ih (pre ++ [it.label])
    simp only [specNoSufItems, List.length_append, List.length_cons]
    cases (sufLPats P (pre ++ [it.label])).head? <;> simp <;> omega

theorem specFind_length (P : List (LPat V)) (seen : List Nat) (items : List Item) :
    (specFindItems P seen items).length ≤ items.length := by
  induction items generalizing seen with
  | nil => simp [specFindItems]
  | cons it rest ih =>
    have h1 := ih []
    have h2 := ih (seen ++ [it.label])
    simp only [specFindItems, List.length_cons]
    split
    · simp only [List.length_cons]; omega
    · omega

theorem fuel_bound (n m a b : Nat) (h1 : a ≤ n) (h2 : b ≤ m) : a * b < (n + 1) * (m + 1) + 1 := by
  have := Nat.mul_le_mul h1 h2
  simp only [Nat.add_mul, Nat.mul_add, Nat.one_mul, Nat.mul_one]
  omega

theorem items_le_hay {v : Variant} {h : List Nat} {items : List Item}
    (hI : itemsOfHay v h = .ok items) : items.length ≤ h.length := by
  have := (itemsOfHay_feeds hI).length_le
  simpa [startSrc] using this

end StdIter

open StdIter

variable {V : Type}

/-! ### 9. Main theorems (item level) -/

/-- `find_overlapping_iter` returns exactly the item-level specification. -/
theorem ovAll_eq_spec {da : DA V} {P : List (LPat V)} (hS : StdSem da P) {h : List Nat}
    {items : List Item} (hI : itemsOfHay da.variant h = .ok items)
    (hL : ∀ it ∈ items, LabelOk da it.label) (hO : P.length ≤ da.outputs.size) :
    ∃ l fin, ovAll da h = .ok (l, fin) ∧ l.map (·.1) = specOvItems P [] items := by
  have hlen : ([] : List (V × Nat)).length + (specOvItems P [] items).length < collectFuel da h := by
    have h1 := specOv_length P [] items
    have h2 := Nat.mul_le_mul (items_le_hay hI) hO
    have h3 := fuel_bound h.length da.outputs.size _ _ (Nat.le_refl _) (Nat.le_refl _)
    simp only [List.length_nil, Nat.zero_add, collectFuel]
    omega
  have := ov_collect hS (collectFuel da h) [] 0 0 items [] (startSrc h) ChainIs.nil
    (itemsOfHay_feeds hI) hL hlen
  rw [stOf_nil hS] at this
  simpa [ovAll, pendMatches] using this

/-- `find_overlapping_no_suffix_iter` returns exactly the item-level specification. -/
theorem noSufAll_eq_spec {da : DA V} {P : List (LPat V)} (hS : StdSem da P) {h : List Nat}
    {items : List Item} (hI : itemsOfHay da.variant h = .ok items)
    (hL : ∀ it ∈ items, LabelOk da it.label) :
    ∃ l fin, noSufAll da h = .ok (l, fin) ∧ l.map (·.1) = specNoSufItems P [] items := by
  have hlen : (specNoSufItems P [] items).length < collectFuel da h := by
    have h1 := specNoSuf_length P [] items
    have h2 := items_le_hay hI
    have h3 := fuel_bound h.length da.outputs.size 0 0 (Nat.zero_le _) (Nat.zero_le _)
    have h4 : h.length * 1 ≤ (h.length + 1) * (da.outputs.size + 1) :=
      Nat.mul_le_mul (Nat.le_succ _) (Nat.le_add_left _ _)
    simp only [collectFuel]
    omega
  have := noSuf_collect hS (collectFuel da h) items [] (startSrc h) (itemsOfHay_feeds hI) hL hlen
  rw [stOf_nil hS] at this
  simpa [noSufAll] using this

/-- `find_iter` returns exactly the item-level specification. -/
theorem findAll_eq_spec {da : DA V} {P : List (LPat V)} (hS : StdSem da P) {h : List Nat}
    {items : List Item} (hI : itemsOfHay da.variant h = .ok items)
    (hL : ∀ it ∈ items, LabelOk da it.label) :
    ∃ l fin, findAll da h = .ok (l, fin) ∧ l.map (·.1) = specFindItems P [] items := by
  have hlen : (specFindItems P [] items).length < collectFuel da h := by
    have h1 := specFind_length P [] items
    have h2 := items_le_hay hI
    have h4 : h.length * 1 ≤ (h.length + 1) * (da.outputs.size + 1) :=
      Nat.mul_le_mul (Nat.le_succ _) (Nat.le_add_left _ _)
    simp only [collectFuel]
    omega
  have := find_collect hS (collectFuel da h) items (startSrc h) (itemsOfHay_feeds hI) hL hlen
  simpa [findAll] using this

/-! ### 10. Byte-wise variant: connection to the byte-level specification (Daac/Spec.lean) -/

/-- A byte pattern as a label-level pattern of the byte-wise automaton. -/
def lp (p : Pat V) : LPat V := ⟨p.key, p.key.length, p.value⟩

/-- The items of the byte-wise iterators for the bytes `bs` starting at offset `p`. -/
def byteItemsI (bs : List Nat) (p : Nat) : List Item :=
  (bs.zipIdx p).map (fun x => ⟨x.1, x.2 + 1⟩)

theorem byteItemsI_cons (b : Nat) (bs : List Nat) (p : Nat) :
    byteItemsI (b :: bs) p = ⟨b, p + 1⟩ :: byteItemsI bs (p + 1) := by
  simp [byteItemsI, List.zipIdx_cons]

theorem mem_byteItemsI {bs : List Nat} {p : Nat} {it : Item} (h : it ∈ byteItemsI bs p) :
    it.label ∈ bs := by
  induction bs generalizing p with
  | nil => simp [byteItemsI] at h
  | cons b bs ih =>
    rw [byteItemsI_cons] at h
    rcases List.mem_cons.1 h with rfl | h
    · simp
    · exact List.mem_cons_of_mem _ (ih h)

theorem allItems_bytewise_items (bs : List Nat) (p fuel : Nat) (hf : bs.length < fuel) :
    ∃ ws, allItems .bytewise fuel ⟨bs, p⟩ = .ok ws ∧
      ws.map (fun w => (⟨w.label, w.stop⟩ : Item)) = byteItemsI bs p := by
  induction bs generalizing p fuel with
  | nil =>
    cases fuel with
    | zero => omega
    | succ fuel => exact ⟨[], by simp [allItems, nextItem, Src.pull], by simp [byteItemsI]⟩
  | cons b bs ih =>
    cases fuel with
    | zero => omega
    | succ fuel =>
      obtain ⟨ws, h1, h2⟩ := ih (p + 1) fuel (by simp only [List.length_cons] at hf; omega)
      refine ⟨⟨b, 1, p + 1⟩ :: ws, ?_, ?_⟩
      · simp [allItems, nextItem, Src.pull, h1]
      · simp [h2, byteItemsI_cons]

theorem itemsOfHay_bytewise (h : List Nat) : itemsOfHay .bytewise h = .ok (byteItemsI h 0) := by
  obtain ⟨ws, h1, h2⟩ := allItems_bytewise_items h 0 (h.length + 1) (Nat.lt_succ_self _)
  simp only [itemsOfHay, h1, h2]

theorem sufLPats_map_lp (Ps : List (Pat V)) (x : List Nat) :
    sufLPats (Ps.map lp) x = (sufPats Ps x).map lp := by
  unfold sufLPats sufPats patsWithKey
  rw [List.map_flatMap]
  congr 1
  funext s
  split
  · rfl
  · rw [List.filter_map]
    rfl

theorem lmatchAt_lp (p : Pat V) (e : Nat) : lmatchAt (lp p) e = matchAt p e := rfl

theorem specOvItems_bytes (Ps : List (Pat V)) (bs pre : List Nat) :
    specOvItems (Ps.map lp) pre (byteItemsI bs pre.length) = specOverlappingFrom Ps pre bs := by
  induction bs generalizing pre with
  | nil => simp [byteItemsI, specOvItems, specOverlappingFrom]
  | cons b bs ih =>
    have := ih (pre ++ [b])
    simp only [List.length_append, List.length_cons, List.length_nil, Nat.zero_add] at this
    rw [byteItemsI_cons]
    simp only [specOvItems, specOverlappingFrom, sufLPats_map_lp, List.map_map, this]
    rfl

theorem specNoSufItems_bytes (Ps : List (Pat V)) (bs pre : List Nat) :
    specNoSufItems (Ps.map lp) pre (byteItemsI bs pre.length) = specNoSuffixFrom Ps pre bs := by
  induction bs generalizing pre with
  | nil => simp [byteItemsI, specNoSufItems, specNoSuffixFrom]
  | cons b bs ih =>
    have := ih (pre ++ [b])
    simp only [List.length_append, List.length_cons, List.length_nil, Nat.zero_add] at this
    rw [byteItemsI_cons]
    simp only [specNoSufItems, specNoSuffixFrom, sufLPats_map_lp, List.head?_map, Option.map_map,
      this]
    rfl

theorem specFindItems_bytes (Ps : List (Pat V)) (bs seen : List Nat) (pos : Nat) :
    specFindItems (Ps.map lp) seen (byteItemsI bs (pos + seen.length)) =
      specFindFrom Ps pos seen bs := by
  induction bs generalizing seen pos with
  | nil => simp [byteItemsI, specFindItems, specFindFrom]
  | cons b bs ih =>
    have h1 := ih (seen ++ [b]) pos
    have h2 := ih [] (pos + seen.length + 1)
    simp only [List.length_append, List.length_cons, List.length_nil, Nat.zero_add,
      Nat.add_zero, ← Nat.add_assoc] at h1 h2
    rw [byteItemsI_cons]
    simp only [specFindItems, specFindFrom, sufLPats_map_lp, List.head?_map]
    cases (sufPats Ps (seen ++ [b])).head? with
    | none => simpa using h1
    | some p => simp [h2, lmatchAt_lp]

theorem specOvItems_bytes_eq (Ps : List (Pat V)) (h : List Nat) :
    specOvItems (Ps.map lp) [] (byteItemsI h 0) = specOverlapping Ps h :=
  specOvItems_bytes Ps h []

theorem specNoSufItems_bytes_eq (Ps : List (Pat V)) (h : List Nat) :
    specNoSufItems (Ps.map lp) [] (byteItemsI h 0) = specNoSuffix Ps h :=
  specNoSufItems_bytes Ps h []

theorem specFindItems_bytes_eq (Ps : List (Pat V)) (h : List Nat) :
    specFindItems (Ps.map lp) [] (byteItemsI h 0) = specFind Ps h :=
  specFindItems_bytes Ps h [] 0

theorem labelOk_bytewise {da : DA V} (hv : da.variant = .bytewise) {c : Nat} (hc : c < 256) :
    LabelOk da c := by
  left
  unfold DA.sigma
  rw [hv]
  simpa using hc

/-- Byte-wise automaton: `find_overlapping_iter` = byte-level specification. -/
theorem ovAll_bytewise_eq_spec {da : DA V} {Ps : List (Pat V)} (hv : da.variant = .bytewise)
    (hS : StdSem da (Ps.map lp)) {h : List Nat} (hb : ∀ b ∈ h, b < 256)
    (hO : Ps.length ≤ da.outputs.size) :
    ∃ l fin, ovAll da h = .ok (l, fin) ∧ l.map (·.1) = specOverlapping Ps h := by
  rw [← specOvItems_bytes_eq]
  exact ovAll_eq_spec hS (by rw [hv]; exact itemsOfHay_bytewise h)
    (fun it hi => labelOk_bytewise hv (hb _ (mem_byteItemsI hi))) (by simpa using hO)

/-- Byte-wise automaton: `find_overlapping_no_suffix_iter` = byte-level specification. -/
theorem noSufAll_bytewise_eq_spec {da : DA V} {Ps : List (Pat V)} (hv : da.variant = .bytewise)
    (hS : StdSem da (Ps.map lp)) {h : List Nat} (hb : ∀ b ∈ h, b < 256) :
    ∃ l fin, noSufAll da h = .ok (l, fin) ∧ l.map (·.1) = specNoSuffix Ps h := by
  rw [← specNoSufItems_bytes_eq]
  exact noSufAll_eq_spec hS (by rw [hv]; exact itemsOfHay_bytewise h)
    (fun it hi => labelOk_bytewise hv (hb _ (mem_byteItemsI hi)))

/-- Byte-wise automaton: `find_iter` = byte-level specification. -/
theorem findAll_bytewise_eq_spec {da : DA V} {Ps : List (Pat V)} (hv : da.variant = .bytewise)
    (hS : StdSem da (Ps.map lp)) {h : List Nat} (hb : ∀ b ∈ h, b < 256) :
    ∃ l fin, findAll da h = .ok (l, fin) ∧ l.map (·.1) = specFind Ps h := by
  rw [← specFindItems_bytes_eq]
  exact findAll_eq_spec hS (by rw [hv]; exact itemsOfHay_bytewise h)
    (fun it hi => labelOk_bytewise hv (hb _ (mem_byteItemsI hi)))

#print axioms ovAll_eq_spec
#print axioms noSufAll_eq_spec
#print axioms findAll_eq_spec
#print axioms ovAll_bytewise_eq_spec
#print axioms noSufAll_bytewise_eq_spec
#print axioms findAll_bytewise_eq_spec

end Daac

/-
The intrusive circular doubly-linked list of vacant indices of `Helper` (Model/Build.lean,
`BuildHelper`): the linked-list invariant `Helper.LL`, its establishment and preservation, and
panic-freedom (`∃ h', op = .ok h'`) of the operations as the layout pass uses them.
-/
import Daac.Proofs.HelperFacts
namespace Daac

/-! ### 0. Cyclic successor structure on lists (no `Helper` yet) -/

theorem succ_mod {k n : Nat} (hk : k < n) : (k + 1) % n = if k + 1 = n then 0 else k + 1 := by
  split
  · rename_i e; rw [e, Nat.mod_self]
  · exact Nat.mod_eq_of_lt (by omega)

theorem pred_mod {k n : Nat} (hk : k < n) :
    (k + n - 1) % n = if k = 0 then n - 1 else k - 1 := by
  split
  · rename_i e; subst e; rw [Nat.zero_add]; exact Nat.mod_eq_of_lt (by omega)
  · have : k + n - 1 = (k - 1) + n := by omega
    rw [this, Nat.add_mod_right]; exact Nat.mod_eq_of_lt (by omega)

theorem getElem_idx {l : List Nat} {a b : Nat} (ha : a < l.length) (hb : b < l.length)
    (e : a = b) : l[a] = l[b] := by subst e; rfl

/-- `f` maps every element of `l` to its cyclic successor (relational, `%`-free form). -/
def CycNext (f : Nat → Nat) (l : List Nat) : Prop :=
  ∀ a b (ha : a < l.length) (hb : b < l.length),
    (a + 1 = b ∨ (a + 1 = l.length ∧ b = 0)) → f l[a] = l[b]

/-- `f` maps every element of `l` to its cyclic predecessor. -/
def CycPrev (f : Nat → Nat) (l : List Nat) : Prop :=
  ∀ a b (ha : a < l.length) (hb : b < l.length),
    (a + 1 = b ∨ (a + 1 = l.length ∧ b = 0)) → f l[b] = l[a]

theorem cycNext_iff {f : Nat → Nat} {l : List Nat} :
    CycNext f l ↔ ∀ k (hk : k < l.length),
      f l[k] = l[(k + 1) % l.length]'(Nat.mod_lt _ (by omega)) := by
  constructor
  · intro c k hk
    apply c
    rw [succ_mod hk]; split <;> omega
  · intro c a b ha hb s
    rw [c a ha]
    apply getElem_idx
    rw [succ_mod ha]; split <;> omega

theorem cycPrev_iff {f : Nat → Nat} {l : List Nat} :
    CycPrev f l ↔ ∀ k (hk : k < l.length),
      f l[k] = l[(k + l.length - 1) % l.length]'(Nat.mod_lt _ (by omega)) := by
  constructor
  · intro c k hk
    apply c
    rw [pred_mod hk]; split <;> omega
  · intro c a b ha hb s
    rw [c b hb]
    apply getElem_idx
    rw [pred_mod hb]; split <;> omega

theorem getElem_eraseIdx_ite {l : List Nat} {p a : Nat} (h : a < (l.eraseIdx p).length) :
    (l.eraseIdx p)[a] = l[if a < p then a else a + 1]'(by
      rw [List.length_eraseIdx] at h; split at h <;> split <;> omega) := by
  rw [List.getElem_eraseIdx]
  split <;> rfl

theorem CycNext.eraseIdx {f f' : Nat → Nat} {l : List Nat} {p : Nat} (hp : p < l.length)
    (c : CycNext f l)
    (hkeep : ∀ k (hk : k < l.length), k ≠ p →
      ¬ (k + 1 = p ∨ (k + 1 = l.length ∧ p = 0)) → f' l[k] = f l[k])
    (hlink : ∀ a b (ha : a < l.length) (hb : b < l.length), a ≠ p →
      (a + 1 = p ∨ (a + 1 = l.length ∧ p = 0)) →
      (p + 1 = b ∨ (p + 1 = l.length ∧ b = 0)) → f' l[a] = l[b]) :
    CycNext f' (l.eraseIdx p) := by
  intro a b ha hb s
  have hlen : (l.eraseIdx p).length = l.length - 1 := by
    rw [List.length_eraseIdx, if_pos hp]
  rw [hlen] at s
  have ha' := ha
  have hb' := hb
  rw [hlen] at ha' hb'
  rw [getElem_eraseIdx_ite, getElem_eraseIdx_ite]
  by_cases hs : ((if a < p then a else a + 1) + 1 = p ∨
      ((if a < p then a else a + 1) + 1 = l.length ∧ p = 0))
  · apply hlink _ _ _ _ (by split <;> omega) hs
    split <;> split at hs <;> omega
  · rw [hkeep _ _ (by split <;> omega) hs]
    apply c
    split <;> split <;> rename_i h1 h2 <;> simp only [h1, if_true, if_false] at hs <;> omega

theorem CycPrev.eraseIdx {f f' : Nat → Nat} {l : List Nat} {p : Nat} (hp : p < l.length)
    (c : CycPrev f l)
    (hkeep : ∀ k (hk : k < l.length), k ≠ p →
      ¬ (p + 1 = k ∨ (p + 1 = l.length ∧ k = 0)) → f' l[k] = f l[k])
    (hlink : ∀ a b (ha : a < l.length) (hb : b < l.length), b ≠ p →
      (a + 1 = p ∨ (a + 1 = l.length ∧ p = 0)) →
      (p + 1 = b ∨ (p + 1 = l.length ∧ b = 0)) → f' l[b] = l[a]) :
    CycPrev f' (l.eraseIdx p) := by
  intro a b ha hb s
  have hlen : (l.eraseIdx p).length = l.length - 1 := by
    rw [List.length_eraseIdx, if_pos hp]
  rw [hlen] at s
  have ha' := ha
  have hb' := hb
  rw [hlen] at ha' hb'
  rw [getElem_eraseIdx_ite, getElem_eraseIdx_ite]
  by_cases hs : (p + 1 = (if b < p then b else b + 1) ∨
      (p + 1 = l.length ∧ (if b < p then b else b + 1) = 0))
  · apply hlink _ _ _ _ (by split <;> omega) _ hs
    split <;> split at hs <;> omega
  · rw [hkeep _ _ (by split <;> omega) hs]
    apply c
    split <;> split <;> rename_i h1 h2 <;> simp only [h2, if_true, if_false] at hs <;> omega

theorem getElem_append_range' {l : List Nat} {o m k : Nat}
    (h : k < (l ++ List.range' o m).length) :
    (l ++ List.range' o m)[k] =
      if h' : k < l.length then l[k] else o + (k - l.length) := by
  rw [List.getElem_append]
  split
  · rfl
  · rw [List.getElem_range']; omega

theorem CycNext.append_range {f' : Nat → Nat} {l : List Nat} {o m : Nat} (hm : 0 < m)
    (hold : ∀ a b (ha : a < l.length) (hb : b < l.length), a + 1 = b → f' l[a] = l[b])
    (hnew : ∀ j, j + 1 < m → f' (o + j) = o + j + 1)
    (hlast : f' (o + m - 1) = (l ++ List.range' o m)[0]'(by simp; omega))
    (htail : ∀ hn : 0 < l.length, f' l[l.length - 1] = o) :
    CycNext f' (l ++ List.range' o m) := by
  intro a b ha hb s
  have hlen : (l ++ List.range' o m).length = l.length + m := by simp
  rw [hlen] at s
  have ha' := ha
  have hb' := hb
  rw [hlen] at ha' hb'
  rcases s with s | ⟨s1, s2⟩
  · rw [getElem_append_range' ha, getElem_append_range' hb]
    by_cases h1 : a < l.length
    · by_cases h2 : b < l.length
      · rw [dif_pos h1, dif_pos h2]; exact hold a b h1 h2 s
      · rw [dif_pos h1, dif_neg h2]
        have : a = l.length - 1 := by omega
        subst this
        rw [htail (by omega)]; omega
    · rw [dif_neg h1, dif_neg (by omega)]
      rw [hnew _ (by omega)]; omega
  · subst s2
    rw [← hlast, getElem_append_range' ha, dif_neg (by omega)]
    congr 1; omega

theorem CycPrev.append_range {f' : Nat → Nat} {l : List Nat} {o m : Nat} (hm : 0 < m)
    (hold : ∀ a b (ha : a < l.length) (hb : b < l.length), a + 1 = b → f' l[b] = l[a])
    (hnew : ∀ j, j + 1 < m → f' (o + j + 1) = o + j)
    (hfirst : f' ((l ++ List.range' o m)[0]'(by simp; omega)) = o + m - 1)
    (ho : ∀ hn : 0 < l.length, f' o = l[l.length - 1]) :
    CycPrev f' (l ++ List.range' o m) := by
  intro a b ha hb s
  have hlen : (l ++ List.range' o m).length = l.length + m := by simp
  rw [hlen] at s
  have ha' := ha
  have hb' := hb
  rw [hlen] at ha' hb'
  rcases s with s | ⟨s1, s2⟩
  · rw [getElem_append_range' ha, getElem_append_range' hb]
    by_cases h1 : a < l.length
    · by_cases h2 : b < l.length
      · rw [dif_pos h1, dif_pos h2]; exact hold a b h1 h2 s
      · rw [dif_pos h1, dif_neg h2]
        have : a = l.length - 1 := by omega
        subst this
        have : o + (b - l.length) = o := by omega
        rw [this, ho (by omega)]
    · rw [dif_neg h1, dif_neg (by omega)]
      have : o + (b - l.length) = o + (a - l.length) + 1 := by omega
      rw [this, hnew _ (by omega)]
  · subst s2
    rw [hfirst, getElem_append_range' ha, dif_neg (by omega)]
    omega

theorem sorted_length_le {l : List Nat} {lo hi : Nat} (s : l.Pairwise (· < ·))
    (hb : ∀ x ∈ l, lo ≤ x ∧ x < hi) : l.length ≤ hi - lo := by
  induction l generalizing lo with
  | nil => simp
  | cons x l ih =>
    rw [List.pairwise_cons] at s
    have hx := hb x (List.mem_cons_self)
    have := ih (lo := x + 1) s.2 (fun y hy => ⟨s.1 y hy, (hb y (List.mem_cons_of_mem _ hy)).2⟩)
    simp only [List.length_cons]; omega

theorem getD_set_ite {α} (a : Array α) (o k : Nat) (v d : α) (h : o < a.size) :
    (a.setIfInBounds o v).getD k d = if o = k then v else a.getD k d := by
  split
  · rename_i e; subst e; exact getD_set_self _ _ _ _ h
  · rename_i e; exact getD_set_ne _ _ _ _ _ e

/-! ### 1. The linked-list invariant -/

def Helper.nextOf (h : Helper) (i : Nat) : Nat := h.next.getD (i % h.cap) 0
def Helper.prevOf (h : Helper) (i : Nat) : Nat := h.prev.getD (i % h.cap) 0

/-- `vac` is the ascending list of the vacant active indices and the `next`/`prev` arrays link
them into a circle in that order, starting at `head`. -/
structure Helper.LL (h : Helper) (vac : List Nat) : Prop where
  sorted : vac.Pairwise (· < ·)
  mem : ∀ i, i ∈ vac ↔ (h.Active i ∧ h.usedI i = false)
  head : h.head = vac.head?
  next : ∀ k (hk : k < vac.length),
    h.nextOf vac[k] = vac[(k + 1) % vac.length]'(Nat.mod_lt _ (by omega))
  prev : ∀ k (hk : k < vac.length),
    h.prevOf vac[k] = vac[(k + vac.length - 1) % vac.length]'(Nat.mod_lt _ (by omega))

theorem Helper.LL.cnext {h : Helper} {vac : List Nat} (ll : h.LL vac) : CycNext h.nextOf vac :=
  cycNext_iff.2 ll.next

theorem Helper.LL.cprev {h : Helper} {vac : List Nat} (ll : h.LL vac) : CycPrev h.prevOf vac :=
  cycPrev_iff.2 ll.prev

theorem Helper.LL.nodup {h : Helper} {vac : List Nat} (ll : h.LL vac) : vac.Nodup :=
  ll.sorted.imp (fun h => Nat.ne_of_lt h)

theorem Helper.LL.active {h : Helper} {vac : List Nat} (ll : h.LL vac) {i : Nat} (hi : i ∈ vac) :
    h.Active i := ((ll.mem i).1 hi).1

theorem Helper.LL.length_le {h : Helper} {vac : List Nat} (wf : h.WF) (ll : h.LL vac) :
    vac.length ≤ h.cap := by
  have := sorted_length_le ll.sorted (fun x hx => ll.active hx)
  have := wf.window_le
  omega

/-! ### 2. `useIndex` -/

/-- The result of a successful `useIndex i` when the head is `hd`. -/
def Helper.unlink (h : Helper) (i hd : Nat) : Helper :=
  { h with usedIndex := h.usedIndex.setIfInBounds (i % h.cap) true,
           next := h.next.setIfInBounds (h.prevOf i % h.cap) (h.nextOf i),
           prev := h.prev.setIfInBounds (h.nextOf i % h.cap) (h.prevOf i),
           head := if hd = i then (if h.nextOf i ≠ i then some (h.nextOf i) else none)
                   else some hd }

theorem Helper.useIndex_eq {h : Helper} {i hd : Nat} (a : h.Active i) (u : h.usedI i = false)
    (ap : h.Active (h.prevOf i)) (an : h.Active (h.nextOf i)) (hh : h.head = some hd) :
    h.useIndex i = .ok (h.unlink i hd) := by
  have ap' : h.off (h.prev.getD (i % h.cap) 0) = .ok (h.prevOf i % h.cap) := Helper.off_active ap
  have an' : h.off (h.next.getD (i % h.cap) 0) = .ok (h.nextOf i % h.cap) := Helper.off_active an
  unfold Helper.usedI at u
  unfold Helper.useIndex
  rw [Helper.off_active a]
  simp only [u, Bool.false_eq_true, if_false, ap', an', hh]
  rfl

theorem Helper.unlink_nextOf {h : Helper} {i hd x : Nat} (wf : h.WF)
    (ap : h.Active (h.prevOf i)) (ax : h.Active x) :
    (h.unlink i hd).nextOf x = if x = h.prevOf i then h.nextOf i else h.nextOf x := by
  have hlt : h.prevOf i % h.cap < h.next.size := h.mod_cap_lt wf _
  have hc : (h.unlink i hd).cap = h.cap := by simp [Helper.cap, Helper.unlink]
  show (h.next.setIfInBounds (h.prevOf i % h.cap) (h.nextOf i)).getD
    (x % (h.unlink i hd).cap) 0 = _
  rw [hc, getD_set_ite _ _ _ _ _ hlt]
  by_cases e : x = h.prevOf i
  · subst e; rw [if_pos rfl, if_pos rfl]
  · rw [if_neg e, if_neg (fun em => e (Helper.active_mod_inj wf ax ap em.symm))]; rfl

theorem Helper.unlink_prevOf {h : Helper} {i hd x : Nat} (wf : h.WF)
    (an : h.Active (h.nextOf i)) (ax : h.Active x) :
    (h.unlink i hd).prevOf x = if x = h.nextOf i then h.prevOf i else h.prevOf x := by
  have hlt : h.nextOf i % h.cap < h.prev.size := by
    rw [wf.size_prev, ← wf.cap_eq]; exact h.mod_cap_lt wf _
  have hc : (h.unlink i hd).cap = h.cap := by simp [Helper.cap, Helper.unlink]
  show (h.prev.setIfInBounds (h.nextOf i % h.cap) (h.prevOf i)).getD
    (x % (h.unlink i hd).cap) 0 = _
  rw [hc, getD_set_ite _ _ _ _ _ hlt]
  by_cases e : x = h.nextOf i
  · subst e; rw [if_pos rfl, if_pos rfl]
  · rw [if_neg e, if_neg (fun em => e (Helper.active_mod_inj wf ax an em.symm))]; rfl

theorem Helper.useIndex_ll_idx {h : Helper} {vac : List Nat} {p : Nat} (wf : h.WF)
    (ll : h.LL vac) (hp : p < vac.length) :
    ∃ h', h.useIndex vac[p] = .ok h' ∧ h'.LL (vac.eraseIdx p) := by
  have nd := ll.nodup
  have cn := ll.cnext
  have cp := ll.cprev
  have act : ∀ k (hk : k < vac.length), h.Active vac[k] := fun k hk =>
    ll.active (List.getElem_mem hk)
  obtain ⟨a, ha, sa⟩ : ∃ a, a < vac.length ∧ (a + 1 = p ∨ (a + 1 = vac.length ∧ p = 0)) := by
    by_cases e : p = 0
    · exact ⟨vac.length - 1, by omega, by omega⟩
    · exact ⟨p - 1, by omega, by omega⟩
  obtain ⟨b, hb, sb⟩ : ∃ b, b < vac.length ∧ (p + 1 = b ∨ (p + 1 = vac.length ∧ b = 0)) := by
    by_cases e : p + 1 = vac.length
    · exact ⟨0, by omega, by omega⟩
    · exact ⟨p + 1, by omega, by omega⟩
  have epv : h.prevOf vac[p] = vac[a] := cp a p ha hp sa
  have enx : h.nextOf vac[p] = vac[b] := cn p b hp hb sb
  have hhd : h.head = some vac[0] := by
    rw [ll.head, List.head?_eq_getElem?, List.getElem?_eq_getElem]
  have apv : h.Active (h.prevOf vac[p]) := by rw [epv]; exact act a ha
  have anx : h.Active (h.nextOf vac[p]) := by rw [enx]; exact act b hb
  have hu := ((ll.mem vac[p]).1 (List.getElem_mem hp)).2
  have e := Helper.useIndex_eq (act p hp) hu apv anx hhd
  obtain ⟨_, _, u1, fr, _, b1, b2, b3, wf'⟩ := Helper.useIndex_ok wf e
  have ac := Helper.Active_congr b1 b2 b3
  have hmem : ∀ j, j ∈ vac.eraseIdx p ↔ j ≠ vac[p] ∧ j ∈ vac := by
    intro j
    rw [← List.erase_eq_eraseIdx_of_idxOf (nd.idxOf_getElem p hp)]
    exact nd.mem_erase_iff
  refine ⟨_, e, ll.sorted.eraseIdx p, ?_, ?_, ?_, ?_⟩
  · intro j
    rw [hmem, ll.mem, ac]
    constructor
    · rintro ⟨ne, aj, uj⟩
      exact ⟨aj, by rw [fr j aj ne]; exact uj⟩
    · rintro ⟨aj, uj⟩
      have ne : j ≠ vac[p] := by
        intro ej; rw [ej, u1] at uj; cases uj
      exact ⟨ne, aj, by rw [← fr j aj ne]; exact uj⟩
  · show (if vac[0] = vac[p] then (if h.nextOf vac[p] ≠ vac[p] then some (h.nextOf vac[p])
      else none) else some vac[0]) = _
    rw [List.head?_eq_getElem?, List.getElem?_eraseIdx, enx]
    simp only [ne_eq, List.getElem_inj nd]
    by_cases e0 : 0 = p
    · subst e0
      rw [if_pos rfl, if_neg (Nat.lt_irrefl 0)]
      by_cases e1 : vac.length = 1
      · have : b = 0 := by omega
        subst this
        rw [if_neg (by simp), List.getElem?_eq_none (by omega)]
      · have : b = 1 := by omega
        subst this
        rw [if_pos (by omega), List.getElem?_eq_getElem]
    · rw [if_neg e0, if_pos (by omega), List.getElem?_eq_getElem]
  · rw [← cycNext_iff]
    apply CycNext.eraseIdx hp cn
    · intro k hk ne ns
      rw [Helper.unlink_nextOf wf apv (act k hk), epv,
        if_neg (fun em => by have := (List.getElem_inj nd).1 em; omega)]
    · intro a' b' ha' hb' ne sa' sb'
      have : a' = a := by omega
      subst this
      have : b' = b := by omega
      subst this
      rw [Helper.unlink_nextOf wf apv (act a' ha'), epv, if_pos rfl, enx]
  · rw [← cycPrev_iff]
    apply CycPrev.eraseIdx hp cp
    · intro k hk ne ns
      rw [Helper.unlink_prevOf wf anx (act k hk), enx,
        if_neg (fun em => by have := (List.getElem_inj nd).1 em; omega)]
    · intro a' b' ha' hb' ne sa' sb'
      have : a' = a := by omega
      subst this
      have : b' = b := by omega
      subst this
      rw [Helper.unlink_prevOf wf anx (act b' hb'), enx, if_pos rfl, epv]

theorem Helper.useIndex_ll {h : Helper} {vac : List Nat} {i : Nat} (wf : h.WF)
    (ll : h.LL vac) (hi : i ∈ vac) :
    ∃ h', h.useIndex i = .ok h' ∧ h'.LL (vac.erase i) := by
  obtain ⟨p, hp, rfl⟩ := List.getElem_of_mem hi
  rw [List.erase_eq_eraseIdx_of_idxOf (ll.nodup.idxOf_getElem p hp)]
  exact Helper.useIndex_ll_idx wf ll hp

/-! ### 3. `closeLoop` -/

theorem Helper.closeLoop_ll {fuel endIdx : Nat} {h : Helper} {vac : List Nat} (wf : h.WF)
    (ll : h.LL vac) (hf : (vac.filter (fun j => decide (j < endIdx))).length < fuel) :
    ∃ h', h.closeLoop fuel endIdx = .ok h' ∧
      h'.LL (vac.filter (fun j => decide (endIdx ≤ j))) := by
  induction fuel generalizing h vac with
  | zero => omega
  | succ fuel ih =>
    unfold Helper.closeLoop
    cases vac with
    | nil =>
      have hh : h.head = none := ll.head
      rw [hh]
      exact ⟨h, rfl, ll⟩
    | cons x rest =>
      have hh : h.head = some x := ll.head
      rw [hh]
      simp only
      by_cases hx : endIdx ≤ x
      · rw [if_pos hx]
        refine ⟨h, rfl, ?_⟩
        have : (x :: rest).filter (fun j => decide (endIdx ≤ j)) = x :: rest := by
          rw [List.filter_eq_self]
          intro a ha
          have := ll.sorted
          rw [List.pairwise_cons] at this
          rcases List.mem_cons.1 ha with rfl | ha
          · simpa using hx
          · have := this.1 a ha
            simp only [decide_eq_true_eq]; omega
        rw [this]; exact ll
      · rw [if_neg hx]
        obtain ⟨h1, e1, ll1⟩ := Helper.useIndex_ll_idx wf ll (p := 0) (by simp)
        simp only [List.getElem_cons_zero, List.eraseIdx_cons_zero] at e1 ll1
        rw [e1]
        simp only
        have wf1 := (Helper.useIndex_ok wf e1).2.2.2.2.2.2.2.2
        have hlt : decide (x < endIdx) = true := by simp only [decide_eq_true_eq]; omega
        have hf' : (rest.filter (fun j => decide (j < endIdx))).length < fuel := by
          simp only [List.filter_cons, hlt, if_true, List.length_cons] at hf; omega
        obtain ⟨h', e', ll'⟩ := ih wf1 ll1 hf'
        refine ⟨h', e', ?_⟩
        have : (x :: rest).filter (fun j => decide (endIdx ≤ j)) =
            rest.filter (fun j => decide (endIdx ≤ j)) := by
          simp only [List.filter_cons, decide_eq_true_eq, hx, if_false]
        rw [this]
        exact ll'

/-! ### 4. `pushBlock` -/

theorem Helper.closedOf_ll {h : Helper} {vac : List Nat} (wf : h.WF) (ll : h.LL vac) :
    ∃ h1, h.closedOf = .ok h1 ∧
      h1.LL (vac.filter (fun j => decide ((h.numBlocks + 1 - h.nfb) * h.blockLen ≤ j))) := by
  unfold Helper.closedOf Helper.droppedBlock
  split
  · rename_i cb hcb
    split at hcb
    · rename_i hfull
      simp only [Option.some.injEq] at hcb
      subst hcb
      have hnfb : h.nfb ≤ h.numBlocks := by
        rw [wf.cap_eq, Helper.numElements, Nat.mul_comm h.numBlocks] at hfull
        exact Nat.le_of_mul_le_mul_left hfull wf.blockLen_pos
      have e1 : h.numBlocks + 1 - h.nfb = h.activeStart + 1 := by
        unfold Helper.activeStart; omega
      rw [e1]
      apply Helper.closeLoop_ll wf ll
      have hs : (vac.filter (fun j => decide (j < (h.activeStart + 1) * h.blockLen))).Pairwise
          (· < ·) := ll.sorted.filter _
      have := sorted_length_le (lo := h.activeStart * h.blockLen)
        (hi := (h.activeStart + 1) * h.blockLen) hs (by
          intro x hx
          rw [List.mem_filter] at hx
          exact ⟨(ll.active hx.1).1, by simpa using hx.2⟩)
      have e2 : (h.activeStart + 1) * h.blockLen - h.activeStart * h.blockLen = h.blockLen := by
        rw [Nat.add_mul, Nat.one_mul]; omega
      rw [e2] at this
      omega
    · cases hcb
  · rename_i hcb
    split at hcb
    · cases hcb
    · rename_i hnf
      refine ⟨h, rfl, ?_⟩
      have hlt : h.numBlocks < h.nfb := by
        rw [wf.cap_eq, Helper.numElements, Nat.mul_comm h.numBlocks] at hnf
        apply Classical.byContradiction
        intro hge
        exact hnf (Nat.mul_le_mul_left _ (by omega))
      have e0 : h.numBlocks + 1 - h.nfb = 0 := by omega
      rw [e0, Nat.zero_mul]
      have : vac.filter (fun j => decide (0 ≤ j)) = vac := by
        rw [List.filter_eq_self]; intro a _; simp
      rw [this]; exact ll

theorem Helper.resetLoop_succ {n idx : Nat} {h : Helper}
    (ha : ∀ m, idx ≤ m → m < idx + n → h.Active m) : ∃ h', Helper.resetLoop n idx h = .ok h' := by
  induction n generalizing idx h with
  | zero => exact ⟨h, rfl⟩
  | succ n ih =>
    unfold Helper.resetLoop
    rw [Helper.off_active (ha idx (Nat.le_refl _) (by omega))]
    simp only
    apply ih
    intro m lo hi
    exact ha m (by omega) (by omega)

theorem Helper.resetLoop_links {n idx : Nat} {h h' : Helper} (wf : h.WF)
    (e : Helper.resetLoop n idx h = .ok h') :
    (∀ k, (∀ m, idx ≤ m → m < idx + n → m % h.cap ≠ k % h.cap) →
      h'.nextOf k = h.nextOf k ∧ h'.prevOf k = h.prevOf k) ∧
    (∀ m, idx ≤ m → m < idx + n →
      h'.nextOf m = m + 1 ∧ h'.prevOf m = if m = 0 then u32Max else m - 1) ∧
    h'.head = h.head := by
  induction n generalizing idx h with
  | zero =>
    unfold Helper.resetLoop at e
    simp only [Except.ok.injEq] at e; subst e
    exact ⟨fun _ _ => ⟨rfl, rfl⟩, fun m a b => by omega, rfl⟩
  | succ n ih =>
    have hact := (Helper.resetLoop_ok_gen wf e).1
    unfold Helper.resetLoop at e
    rw [Helper.off_active (hact idx (Nat.le_refl _) (by omega))] at e
    simp only at e
    have hltN : idx % h.cap < h.next.size := h.mod_cap_lt wf idx
    have hltP : idx % h.cap < h.prev.size := by
      rw [wf.size_prev, ← wf.cap_eq]; exact h.mod_cap_lt wf idx
    generalize hh1 : ({ h with
        next := h.next.setIfInBounds (idx % h.cap) (idx + 1),
        prev := h.prev.setIfInBounds (idx % h.cap) (if idx = 0 then u32Max else idx - 1),
        usedBase := h.usedBase.setIfInBounds (idx % h.cap) false,
        usedIndex := h.usedIndex.setIfInBounds (idx % h.cap) false } : Helper) = h1 at e
    have ecap : h1.cap = h.cap := by subst hh1; simp [Helper.cap]
    have ehd : h1.head = h.head := by subst hh1; rfl
    have wf1 : h1.WF := by
      subst hh1
      exact ⟨wf.blockLen_pos, wf.nfb_pos, by simp [wf.size_next], by simp [wf.size_prev],
        by simp [wf.size_usedBase], by simp [wf.size_usedIndex]⟩
    have hN : ∀ k, h1.nextOf k = if idx % h.cap = k % h.cap then idx + 1 else h.nextOf k := by
      intro k
      unfold Helper.nextOf; rw [ecap]; subst hh1
      exact getD_set_ite _ _ _ _ _ hltN
    have hP : ∀ k, h1.prevOf k = if idx % h.cap = k % h.cap then
        (if idx = 0 then u32Max else idx - 1) else h.prevOf k := by
      intro k
      unfold Helper.prevOf; rw [ecap]; subst hh1
      exact getD_set_ite _ _ _ _ _ hltP
    obtain ⟨c1, c2, c3⟩ := ih wf1 e
    rw [ecap] at c1
    refine ⟨?_, ?_, c3.trans ehd⟩
    · intro k hk
      have := c1 k (fun m a b => hk m (by omega) (by omega))
      rw [this.1, this.2, hN, hP, if_neg (hk idx (Nat.le_refl _) (by omega)),
        if_neg (hk idx (Nat.le_refl _) (by omega))]
      exact ⟨rfl, rfl⟩
    · intro m lo hi
      by_cases em : m = idx
      · subst em
        have := c1 m (fun m' a b em' => by
          have := Helper.active_mod_inj wf (hact m' (by omega) (by omega))
            (hact m (Nat.le_refl _) (by omega)) em'
          omega)
        rw [this.1, this.2, hN, hP, if_pos rfl, if_pos rfl]
        exact ⟨rfl, rfl⟩
      · exact c2 m (by omega) (by omega)

theorem Helper.mod_eq_iff {h : Helper} (wf : h.WF) {a x : Nat} (aa : h.Active a)
    (ax : h.Active x) : a % h.cap = x % h.cap ↔ a = x :=
  ⟨Helper.active_mod_inj wf aa ax, fun e => by rw [e]⟩

/-- `splice` with a non-empty list: success and the new links. -/
theorem Helper.splice_some {h2 : Helper} {hd o e : Nat} (wf : h2.WF) (hh : h2.head = some hd)
    (a1 : h2.Active hd) (a2 : h2.Active o) (a3 : h2.Active (e - 1))
    (a4 : h2.Active (h2.prevOf hd)) :
    ∃ h', h2.splice o e = .ok h' ∧ h'.head = some hd ∧
      (∀ x, h2.Active x → h'.nextOf x =
        if x = e - 1 then hd else if x = h2.prevOf hd then o else h2.nextOf x) ∧
      (∀ x, h2.Active x → h'.prevOf x =
        if x = hd then e - 1 else if x = o then h2.prevOf hd else h2.prevOf x) := by
  have a4' : h2.off (h2.prev.getD (hd % h2.cap) 0) = .ok (h2.prevOf hd % h2.cap) :=
    Helper.off_active a4
  have hsz : ∀ x, x % h2.cap < h2.next.size := fun x => h2.mod_cap_lt wf x
  have hszp : ∀ x, x % h2.cap < h2.prev.size := fun x => by
    rw [wf.size_prev, ← wf.cap_eq]; exact h2.mod_cap_lt wf x
  refine ⟨{ h2 with
      next := (h2.next.setIfInBounds (h2.prevOf hd % h2.cap) o).setIfInBounds
        ((e - 1) % h2.cap) hd,
      prev := (h2.prev.setIfInBounds (o % h2.cap) (h2.prevOf hd)).setIfInBounds
        (hd % h2.cap) (e - 1) }, ?_, hh, ?_, ?_⟩
  · unfold Helper.splice
    rw [hh]
    simp only [Helper.off_active a1, Helper.off_active a2, Helper.off_active a3, a4']
    rfl
  · intro x ax
    show ((h2.next.setIfInBounds (h2.prevOf hd % h2.cap) o).setIfInBounds
        ((e - 1) % h2.cap) hd).getD (x % ((h2.next.setIfInBounds (h2.prevOf hd % h2.cap)
          o).setIfInBounds ((e - 1) % h2.cap) hd).size) 0 = _
    rw [Array.size_setIfInBounds, Array.size_setIfInBounds,
      getD_set_ite _ _ _ _ _ (by rw [Array.size_setIfInBounds]; exact hsz _),
      getD_set_ite _ _ _ _ _ (hsz _)]
    show (if (e - 1) % h2.cap = x % h2.cap then hd else
      if h2.prevOf hd % h2.cap = x % h2.cap then o else h2.nextOf x) = _
    simp only [Helper.mod_eq_iff wf a3 ax, Helper.mod_eq_iff wf a4 ax, eq_comm (a := x)]
  · intro x ax
    show ((h2.prev.setIfInBounds (o % h2.cap) (h2.prevOf hd)).setIfInBounds
        (hd % h2.cap) (e - 1)).getD (x % ((h2.next.setIfInBounds (h2.prevOf hd % h2.cap)
          o).setIfInBounds ((e - 1) % h2.cap) hd).size) 0 = _
    rw [Array.size_setIfInBounds, Array.size_setIfInBounds,
      getD_set_ite _ _ _ _ _ (by rw [Array.size_setIfInBounds]; exact hszp _),
      getD_set_ite _ _ _ _ _ (hszp _)]
    show (if hd % h2.cap = x % h2.cap then e - 1 else
      if o % h2.cap = x % h2.cap then h2.prevOf hd else h2.prevOf x) = _
    simp only [Helper.mod_eq_iff wf a1 ax, Helper.mod_eq_iff wf a2 ax, eq_comm (a := x)]

/-- `splice` with an empty list: success and the new links. -/
theorem Helper.splice_none {h2 : Helper} {o e : Nat} (wf : h2.WF) (hh : h2.head = none)
    (a2 : h2.Active o) (a3 : h2.Active (e - 1)) :
    ∃ h', h2.splice o e = .ok h' ∧ h'.head = some o ∧
      (∀ x, h2.Active x → h'.nextOf x = if x = e - 1 then o else h2.nextOf x) ∧
      (∀ x, h2.Active x → h'.prevOf x = if x = o then e - 1 else h2.prevOf x) := by
  have hsz : ∀ x, x % h2.cap < h2.next.size := fun x => h2.mod_cap_lt wf x
  have hszp : ∀ x, x % h2.cap < h2.prev.size := fun x => by
    rw [wf.size_prev, ← wf.cap_eq]; exact h2.mod_cap_lt wf x
  refine ⟨{ h2 with prev := h2.prev.setIfInBounds (o % h2.cap) (e - 1),
                    next := h2.next.setIfInBounds ((e - 1) % h2.cap) o,
                    head := some o }, ?_, rfl, ?_, ?_⟩
  · unfold Helper.splice
    rw [hh]
    simp only [Helper.off_active a2, Helper.off_active a3]
  · intro x ax
    show (h2.next.setIfInBounds ((e - 1) % h2.cap) o).getD
      (x % (h2.next.setIfInBounds ((e - 1) % h2.cap) o).size) 0 = _
    rw [Array.size_setIfInBounds, getD_set_ite _ _ _ _ _ (hsz _)]
    show (if (e - 1) % h2.cap = x % h2.cap then o else h2.nextOf x) = _
    simp only [Helper.mod_eq_iff wf a3 ax, eq_comm (a := x)]
  · intro x ax
    show (h2.prev.setIfInBounds (o % h2.cap) (e - 1)).getD
      (x % (h2.next.setIfInBounds ((e - 1) % h2.cap) o).size) 0 = _
    rw [Array.size_setIfInBounds, getD_set_ite _ _ _ _ _ (hszp _)]
    show (if o % h2.cap = x % h2.cap then e - 1 else h2.prevOf x) = _
    simp only [Helper.mod_eq_iff wf a2 ax, eq_comm (a := x)]

theorem Helper.splice_links {h2 : Helper} {l : List Nat} {o m : Nat} (wf : h2.WF) (hm : 0 < m)
    (hl : ∀ x ∈ l, h2.Active x ∧ x < o)
    (hnewA : ∀ j, j < m → h2.Active (o + j))
    (nd : l.Nodup)
    (hhd : h2.head = l.head?)
    (cn : CycNext h2.nextOf l) (cp : CycPrev h2.prevOf l)
    (hn : ∀ j, j + 1 < m → h2.nextOf (o + j) = o + j + 1)
    (hp : ∀ j, j + 1 < m → h2.prevOf (o + j + 1) = o + j) :
    ∃ h', h2.splice o (o + m) = .ok h' ∧ h'.head = (l ++ List.range' o m).head? ∧
      CycNext h'.nextOf (l ++ List.range' o m) ∧ CycPrev h'.prevOf (l ++ List.range' o m) := by
  have aO : h2.Active o := hnewA 0 hm
  have elast : o + m - 1 = o + (m - 1) := by omega
  have aE : h2.Active (o + m - 1) := by rw [elast]; exact hnewA _ (by omega)
  by_cases hn0 : l.length = 0
  · have : l = [] := List.length_eq_zero_iff.1 hn0
    subst this
    obtain ⟨h', e, ehd, sn, sp⟩ := Helper.splice_none (e := o + m) wf hhd aO aE
    refine ⟨h', e, ?_, ?_, ?_⟩
    · rw [ehd, List.nil_append, List.head?_range', if_neg (by omega)]
    · apply CycNext.append_range hm
      · intro a b ha; simp at ha
      · intro j hj
        rw [sn _ (hnewA j (by omega)), if_neg (by omega), hn j hj]
      · rw [sn _ aE, if_pos rfl]; simp
      · intro h0; simp at h0
    · apply CycPrev.append_range hm
      · intro a b ha; simp at ha
      · intro j hj
        rw [sp (o + j + 1) (by rw [Nat.add_assoc]; exact hnewA (j + 1) (by omega)), if_neg (by omega), hp j hj]
      · have : ([] ++ List.range' o m)[0]'(by simp; omega) = o := by simp
        rw [this, sp _ aO, if_pos rfl]
      · intro h0; simp at h0
  · have hpos : 0 < l.length := by omega
    have act : ∀ k (hk : k < l.length), h2.Active l[k] ∧ l[k] < o := fun k hk =>
      hl _ (List.getElem_mem hk)
    have hhd' : h2.head = some l[0] := by
      rw [hhd, List.head?_eq_getElem?, List.getElem?_eq_getElem]
    have etail : h2.prevOf l[0] = l[l.length - 1] :=
      cp (l.length - 1) 0 (by omega) hpos (Or.inr ⟨by omega, rfl⟩)
    obtain ⟨h', e, ehd, sn, sp⟩ := Helper.splice_some (e := o + m) wf hhd' (act 0 hpos).1 aO aE
      (by rw [etail]; exact (act _ (by omega)).1)
    rw [etail] at sn sp
    have first : (l ++ List.range' o m)[0]'(by simp; omega) = l[0] := by
      rw [List.getElem_append_left]
    refine ⟨h', e, ?_, ?_, ?_⟩
    · rw [ehd, List.head?_append, List.head?_eq_getElem? (l := l), List.getElem?_eq_getElem hpos]
      rfl
    · apply CycNext.append_range hm
      · intro a b ha hb s
        have := (act a ha).2
        rw [sn _ (act a ha).1, if_neg (by omega),
          if_neg (fun em => by have := (List.getElem_inj nd).1 em; omega)]
        exact cn a b ha hb (Or.inl s)
      · intro j hj
        have := (act _ (by omega : l.length - 1 < l.length)).2
        rw [sn _ (hnewA j (by omega)), if_neg (by omega), if_neg (by omega), hn j hj]
      · rw [sn _ aE, if_pos rfl, first]
      · intro _
        have := (act _ (by omega : l.length - 1 < l.length)).2
        rw [sn _ (act _ (by omega)).1, if_neg (by omega), if_pos rfl]
    · apply CycPrev.append_range hm
      · intro a b ha hb s
        have := (act b hb).2
        rw [sp _ (act b hb).1,
          if_neg (fun em => by have := (List.getElem_inj nd).1 em; omega), if_neg (by omega)]
        exact cp a b ha hb (Or.inl s)
      · intro j hj
        have := (act 0 hpos).2
        rw [sp (o + j + 1) (by rw [Nat.add_assoc]; exact hnewA (j + 1) (by omega)), if_neg (by omega), if_neg (by omega), hp j hj]
      · rw [first, sp _ (act 0 hpos).1, if_pos rfl]
      · intro _
        have := (act 0 hpos).2
        rw [sp _ aO, if_neg (by omega), if_pos rfl]

theorem CycNext.congr {f f' : Nat → Nat} {l : List Nat} (c : CycNext f l)
    (hc : ∀ x ∈ l, f' x = f x) : CycNext f' l := by
  intro a b ha hb s
  rw [hc _ (List.getElem_mem ha)]; exact c a b ha hb s

theorem CycPrev.congr {f f' : Nat → Nat} {l : List Nat} (c : CycPrev f l)
    (hc : ∀ x ∈ l, f' x = f x) : CycPrev f' l := by
  intro a b ha hb s
  rw [hc _ (List.getElem_mem hb)]; exact c a b ha hb s

/-- Success of `pushBlock` and the links of the result (flags come from `pushBlock_ok`). -/
theorem Helper.pushBlock_links {h : Helper} {vac : List Nat} (wf : h.WF) (ll : h.LL vac)
    (hsz : h.numElements ≤ u32Max - h.blockLen) :
    ∃ h', h.pushBlock = .ok h' ∧
      h'.head = (vac.filter (fun j => decide ((h.numBlocks + 1 - h.nfb) * h.blockLen ≤ j)) ++
        List.range' (h.numBlocks * h.blockLen) h.blockLen).head? ∧
      CycNext h'.nextOf (vac.filter (fun j => decide ((h.numBlocks + 1 - h.nfb) * h.blockLen ≤ j))
        ++ List.range' (h.numBlocks * h.blockLen) h.blockLen) ∧
      CycPrev h'.prevOf (vac.filter (fun j => decide ((h.numBlocks + 1 - h.nfb) * h.blockLen ≤ j))
        ++ List.range' (h.numBlocks * h.blockLen) h.blockLen) := by
  obtain ⟨h1, ec, ll1⟩ := Helper.closedOf_ll wf ll
  obtain ⟨_, _, c3, c4, c5, wf1⟩ := Helper.closedOf_ok wf ec
  have hvmem : ∀ x ∈ vac.filter (fun j => decide ((h.numBlocks + 1 - h.nfb) * h.blockLen ≤ j)),
      (h.numBlocks + 1 - h.nfb) * h.blockLen ≤ x ∧ x < h.numBlocks * h.blockLen := by
    intro x hx
    rw [List.mem_filter] at hx
    exact ⟨by simpa using hx.2, (ll.active hx.1).2⟩
  generalize vac.filter (fun j => decide ((h.numBlocks + 1 - h.nfb) * h.blockLen ≤ j)) = vac1
    at ll1 hvmem
  have wf1' : ({ h1 with numBlocks := h1.numBlocks + 1 } : Helper).WF :=
    ⟨wf1.blockLen_pos, wf1.nfb_pos, wf1.size_next, wf1.size_prev, wf1.size_usedBase,
      wf1.size_usedIndex⟩
  have eO : h1.numElements = h.numBlocks * h.blockLen := by
    unfold Helper.numElements; rw [c5, c3]
  have hA : (h.numBlocks + 1 - h.nfb) * h.blockLen ≤ h.numBlocks * h.blockLen :=
    Nat.mul_le_mul_right _ (by have := wf.nfb_pos; omega)
  have hE : (h.numBlocks + 1) * h.blockLen = h.numBlocks * h.blockLen + h.blockLen := by
    rw [Nat.add_mul, Nat.one_mul]
  have act1' : ∀ x, ({ h1 with numBlocks := h1.numBlocks + 1 } : Helper).Active x ↔
      (h.numBlocks + 1 - h.nfb) * h.blockLen ≤ x ∧ x < (h.numBlocks + 1) * h.blockLen := by
    intro x
    unfold Helper.Active Helper.activeStart
    simp only
    rw [c3, c4, c5]
  obtain ⟨h2, er⟩ := Helper.resetLoop_succ (n := h1.blockLen) (idx := h1.numElements)
    (h := { h1 with numBlocks := h1.numBlocks + 1 }) (by
      intro m lo hi
      rw [act1']; rw [eO] at lo hi; rw [c3] at hi; omega)
  obtain ⟨r1, _, _, r4, r5, r6, r7, wf2⟩ := Helper.resetLoop_ok wf1' er
  obtain ⟨k1, k2, k3⟩ := Helper.resetLoop_links wf1' er
  have act2 : ∀ x, h2.Active x ↔
      (h.numBlocks + 1 - h.nfb) * h.blockLen ≤ x ∧ x < (h.numBlocks + 1) * h.blockLen :=
    fun x => (Helper.Active_congr r5 r6 r7 x).trans (act1' x)
  have hv1 : ∀ x ∈ vac1, h2.Active x ∧ x < h.numBlocks * h.blockLen := by
    intro x hx
    have := hvmem x hx
    exact ⟨(act2 x).2 ⟨this.1, by omega⟩, this.2⟩
  have keep : ∀ x ∈ vac1, h2.nextOf x = h1.nextOf x ∧ h2.prevOf x = h1.prevOf x := by
    intro x hx
    apply k1 x
    intro m lo hi em
    have := Helper.active_mod_inj wf1' (r1 m lo hi)
      ((act1' x).2 ((act2 x).1 (hv1 x hx).1)) em
    have := (hv1 x hx).2
    rw [eO] at lo
    omega
  obtain ⟨h', es, ehd, cn', cp'⟩ := Helper.splice_links (h2 := h2) (l := vac1)
    (o := h.numBlocks * h.blockLen) (m := h.blockLen) wf2 wf.blockLen_pos hv1
    (fun j hj => (act2 _).2 (by omega)) ll1.nodup (by rw [k3]; exact ll1.head)
    (ll1.cnext.congr (fun x hx => (keep x hx).1)) (ll1.cprev.congr (fun x hx => (keep x hx).2))
    (by
      intro j hj
      have := (k2 (h.numBlocks * h.blockLen + j) (by rw [eO]; omega)
        (by rw [eO, c3]; omega)).1
      exact this)
    (by
      intro j hj
      have := (k2 (h.numBlocks * h.blockLen + j + 1) (by rw [eO]; omega)
        (by rw [eO, c3]; omega)).2
      rw [this, if_neg (by omega)]; rfl)
  refine ⟨h', ?_, ehd, cn', cp'⟩
  rw [Helper.pushBlock_eq, if_neg (by omega), ec]
  simp only
  rw [er]
  simp only
  rw [eO, c3]
  exact es

theorem Helper.pushBlock_ll {h : Helper} {vac : List Nat} (wf : h.WF) (ll : h.LL vac)
    (hsz : h.numElements ≤ u32Max - h.blockLen) :
    ∃ h', h.pushBlock = .ok h' ∧
      h'.LL (vac.filter (fun j => decide (h'.activeStart * h.blockLen ≤ j)) ++
        List.range' (h.numBlocks * h.blockLen) h.blockLen) := by
  obtain ⟨h', e, ehd, cn, cp⟩ := Helper.pushBlock_links wf ll hsz
  obtain ⟨enb, ebl, enfb, _, fresh, old⟩ := Helper.pushBlock_ok wf e
  have eas : h'.activeStart = h.numBlocks + 1 - h.nfb := by
    unfold Helper.activeStart; rw [enb, enfb]
  refine ⟨h', e, ?_⟩
  rw [eas]
  have hA : (h.numBlocks + 1 - h.nfb) * h.blockLen ≤ h.numBlocks * h.blockLen :=
    Nat.mul_le_mul_right _ (by have := wf.nfb_pos; omega)
  have hA0 : h.activeStart * h.blockLen ≤ (h.numBlocks + 1 - h.nfb) * h.blockLen :=
    Nat.mul_le_mul_right _ (by unfold Helper.activeStart; omega)
  have hE : (h.numBlocks + 1) * h.blockLen = h.numBlocks * h.blockLen + h.blockLen := by
    rw [Nat.add_mul, Nat.one_mul]
  have act' : ∀ x, h'.Active x ↔
      (h.numBlocks + 1 - h.nfb) * h.blockLen ≤ x ∧ x < (h.numBlocks + 1) * h.blockLen := by
    intro x
    unfold Helper.Active
    rw [eas, enb, ebl]
  refine ⟨?_, ?_, ehd, cycNext_iff.1 cn, cycPrev_iff.1 cp⟩
  · rw [List.pairwise_append]
    refine ⟨ll.sorted.filter _, List.pairwise_lt_range', ?_⟩
    intro a ha b hb
    rw [List.mem_filter] at ha
    rw [List.mem_range'_1] at hb
    have := (ll.active ha.1).2
    omega
  · intro j
    rw [List.mem_append, List.mem_filter, List.mem_range'_1, ll.mem, act']
    simp only [decide_eq_true_eq]
    constructor
    · rintro (⟨⟨aj, uj⟩, lo⟩ | ⟨lo, hi⟩)
      · have := aj.2
        have a' : h'.Active j := (act' j).2 ⟨lo, by omega⟩
        exact ⟨⟨lo, by omega⟩, by rw [(old j a' aj.2).1]; exact uj⟩
      · exact ⟨⟨by omega, by omega⟩, (fresh j lo (by omega)).1⟩
    · rintro ⟨⟨lo, hi⟩, uj⟩
      by_cases hj : j < h.numBlocks * h.blockLen
      · left
        refine ⟨⟨⟨by omega, hj⟩, ?_⟩, lo⟩
        rw [← (old j ((act' j).2 ⟨lo, hi⟩) hj).1]; exact uj
      · right; omega

/-- The only non-`ok` outcome of `pushBlock` on a linked helper is the (non-panic) scale error. -/
theorem Helper.pushBlock_scale {h : Helper} (hsz : h.numElements > u32Max - h.blockLen) :
    h.pushBlock = .error .automatonScale := by
  rw [Helper.pushBlock_eq, if_pos hsz]

/-! ### 5. `vacant` -/

theorem Helper.vacantFrom_ll {h : Helper} {vac : List Nat} (ll : h.LL vac)
    (hne : 0 < vac.length) :
    ∀ fuel k (hk : k < vac.length), vac.length - k ≤ fuel →
      h.vacantFrom vac[0] fuel vac[k] = .ok (vac.drop k) := by
  have cn := ll.cnext
  have nd := ll.nodup
  intro fuel
  induction fuel with
  | zero => intro k hk hf; omega
  | succ fuel ih =>
    intro k hk hf
    unfold Helper.vacantFrom
    rw [Helper.off_active (ll.active (List.getElem_mem hk))]
    simp only
    rw [List.drop_eq_getElem_cons hk]
    by_cases e : k + 1 = vac.length
    · have enx : h.next.getD (vac[k] % h.cap) 0 = vac[0] := cn k 0 hk hne (Or.inr ⟨e, rfl⟩)
      rw [enx, if_pos rfl, List.drop_eq_nil_of_le (by omega)]
    · have enx : h.next.getD (vac[k] % h.cap) 0 = vac[k + 1] :=
        cn k (k + 1) hk (by omega) (Or.inl rfl)
      rw [enx, if_neg (fun em => by have := (List.getElem_inj nd).1 em; omega),
        ih (k + 1) (by omega) (by omega)]

theorem Helper.vacant_ll {h : Helper} {vac : List Nat} (wf : h.WF) (ll : h.LL vac) :
    h.vacant = .ok vac := by
  unfold Helper.vacant
  by_cases hn0 : vac.length = 0
  · have : vac = [] := List.length_eq_zero_iff.1 hn0
    subst this
    have hh : h.head = none := ll.head
    rw [hh]
  · have hpos : 0 < vac.length := by omega
    have hh : h.head = some vac[0] := by
      rw [ll.head, List.head?_eq_getElem?, List.getElem?_eq_getElem]
    rw [hh]
    simp only
    have := Helper.vacantFrom_ll ll hpos (h.cap + 1) 0 hpos
      (by have := ll.length_le wf; omega)
    rw [this, List.drop_zero]

/-! ### 6. Initial state -/

theorem Helper.new_ll {bl nfb : Nat} {h : Helper} (e : Helper.new bl nfb = .ok h) : h.LL [] := by
  obtain ⟨_, n0, _, _, hd, _, _⟩ := Helper.new_ok e
  refine ⟨List.Pairwise.nil, ?_, hd, fun k hk => by simp at hk, fun k hk => by simp at hk⟩
  intro i
  simp only [List.not_mem_nil, false_iff]
  rintro ⟨a, _⟩
  have := a.2
  rw [n0, Nat.zero_mul] at this
  omega

theorem range'_erase_head {s n : Nat} (hn : 0 < n) :
    (List.range' s n).erase s = List.range' (s + 1) (n - 1) := by
  cases n with
  | zero => omega
  | succ n => simp [List.range'_succ]

/-- `new → pushBlock → useIndex 0 → useIndex 1` never fails (for a capacity within `u32`) and
leaves the indices `2 … bl-1` linked in order. -/
theorem Helper.init_ll {bl nfb : Nat} (hbl : 2 ≤ bl) (hnfb : 1 ≤ nfb) (hcap : bl * nfb ≤ u32Max) :
    ∃ h0 h1 h2 h3, Helper.new bl nfb = .ok h0 ∧ h0.pushBlock = .ok h1 ∧
      h1.useIndex 0 = .ok h2 ∧ h2.useIndex 1 = .ok h3 ∧ h3.WF ∧
      h3.LL (List.range' 2 (bl - 2)) := by
  have hpos : 0 < bl * nfb := Nat.mul_pos (by omega) (by omega)
  obtain ⟨h0, e0⟩ : ∃ h0, Helper.new bl nfb = .ok h0 := by
    unfold Helper.new
    simp only
    rw [if_neg (by omega), if_neg (by omega)]
    exact ⟨_, rfl⟩
  obtain ⟨wf0, n0, b0, _, _, _, _⟩ := Helper.new_ok e0
  obtain ⟨h1, e1, ll1⟩ := Helper.pushBlock_ll wf0 (Helper.new_ll e0) (by
    unfold Helper.numElements; rw [n0, Nat.zero_mul]; exact Nat.zero_le _)
  rw [n0, b0, Nat.zero_mul, List.filter_nil, List.nil_append] at ll1
  have wf1 := (Helper.pushBlock_ok wf0 e1).2.2.2.1
  obtain ⟨h2, e2, ll2⟩ := Helper.useIndex_ll (i := 0) wf1 ll1 (by
    rw [List.mem_range'_1]; omega)
  rw [range'_erase_head (by omega)] at ll2
  have wf2 := (Helper.useIndex_ok wf1 e2).2.2.2.2.2.2.2.2
  obtain ⟨h3, e3, ll3⟩ := Helper.useIndex_ll (i := 1) wf2 ll2 (by
    rw [List.mem_range'_1]; omega)
  rw [range'_erase_head (by omega)] at ll3
  have wf3 := (Helper.useIndex_ok wf2 e3).2.2.2.2.2.2.2.2
  have e22 : bl - 1 - 1 = bl - 2 := by omega
  rw [e22] at ll3
  exact ⟨h0, h1, h2, h3, e0, e1, e2, e3, wf3, ll3⟩

/-! ### 7. Queries never panic on active indices -/

theorem Helper.isUsedIndex_active {h : Helper} {i : Nat} (a : h.Active i) :
    ∃ b, h.isUsedIndex i = .ok b := ⟨_, Helper.isUsedIndex_ok.2 ⟨a, rfl⟩⟩

theorem Helper.isUsedBase_active {h : Helper} {i : Nat} (a : h.Active i) :
    ∃ b, h.isUsedBase i = .ok b := ⟨_, Helper.isUsedBase_ok.2 ⟨a, rfl⟩⟩

theorem Helper.useBase_active {h : Helper} {i : Nat} (a : h.Active i) :
    ∃ h', h.useBase i = .ok h' := by
  unfold Helper.useBase
  rw [Helper.off_active a]
  exact ⟨_, rfl⟩

/-- `useBase` does not touch the vacant list. -/
theorem Helper.useBase_ll {h h' : Helper} {vac : List Nat} {i : Nat} (ll : h.LL vac)
    (e : h.useBase i = .ok h') : h'.LL vac := by
  unfold Helper.useBase at e
  split at e
  · cases e
  · simp only [Except.ok.injEq] at e; subst e
    exact ⟨ll.sorted, ll.mem, ll.head, ll.next, ll.prev⟩

theorem Helper.unusedBaseFrom_active {h : Helper} {n base : Nat}
    (ha : ∀ j, base ≤ j → j < base + n → h.Active j) : ∃ r, h.unusedBaseFrom n base = .ok r := by
  induction n generalizing base with
  | zero => exact ⟨none, rfl⟩
  | succ n ih =>
    unfold Helper.unusedBaseFrom
    rw [Helper.isUsedBase_ok.2 ⟨ha base (Nat.le_refl _) (by omega), rfl⟩]
    cases h.usedB base with
    | false => exact ⟨_, rfl⟩
    | true => exact ih (fun j lo hi => ha j (by omega) (by omega))

theorem Helper.unusedBaseInBlock_active {h : Helper} {b : Nat}
    (ha : ∀ j, b * h.blockLen ≤ j → j < (b + 1) * h.blockLen → h.Active j) :
    ∃ r, h.unusedBaseInBlock b = .ok r := by
  unfold Helper.unusedBaseInBlock
  apply Helper.unusedBaseFrom_active
  intro j lo hi
  exact ha j lo (by rw [Nat.add_mul, Nat.one_mul]; exact hi)

#print axioms Helper.useIndex_ll
#print axioms Helper.closeLoop_ll
#print axioms Helper.pushBlock_ll
#print axioms Helper.vacant_ll
#print axioms Helper.init_ll
#print axioms Helper.unusedBaseInBlock_active

end Daac

/-
The intrusive circular doubly-linked list of vacant indices of `Helper` (Model/Build.lean,
`BuildHelper`): the linked-list invariant `Helper.LL`, its establishment and preservation, and
panic-freedom (`∃ h', op = .ok h'`) of the operations as the layout pass uses them.
-/
import Daac.Proofs.HelperFacts
namespace Daac

/-! ### 0. Cyclic successor structure on lists (no `Helper` yet) -/

theorem succ_mod {k n : Nat} (hk : k < n) : (k + 1) % n = if k + 1 = n then 0 else k + 1 := by
  split
  · rename_i e; rw [e, Nat.mod_self]
  · exact Nat.mod_eq_of_lt (by omega)

theorem pred_mod {k n : Nat} (hk : k < n) :
    (k + n - 1) % n = if k = 0 then n - 1 else k - 1 := by
  split
  · rename_i e; subst e; rw [Nat.zero_add]; exact Nat.mod_eq_of_lt (by omega)
  · have : k + n - 1 = (k - 1) + n := by omega
    rw [this, Nat.add_mod_right]; exact Nat.mod_eq_of_lt (by omega)

theorem getElem_idx {l : List Nat} {a b : Nat} (ha : a < l.length) (hb : b < l.length)
    (e : a = b) : l[a] = l[b] := by subst e; rfl

/-- `f` maps every element of `l` to its cyclic successor (relational, `%`-free form). -/
def CycNext (f : Nat → Nat) (l : List Nat) : Prop :=
  ∀ a b (ha : a < l.length) (hb : b < l.length),
    (a + 1 = b ∨ (a + 1 = l.length ∧ b = 0)) → f l[a] = l[b]

/-- `f` maps every element of `l` to its cyclic predecessor. -/
def CycPrev (f : Nat → Nat) (l : List Nat) : Prop :=
  ∀ a b (ha : a < l.length) (hb : b < l.length),
    (a + 1 = b ∨ (a + 1 = l.length ∧ b = 0)) → f l[b] = l[a]

theorem cycNext_iff {f : Nat → Nat} {l : List Nat} :
    CycNext f l ↔ ∀ k (hk : k < l.length),
      f l[k] = l[(k + 1) % l.length]'(Nat.mod_lt _ (by omega)) := by
  constructor
  · intro c k hk
    apply c
    rw [succ_mod hk]; split <;> omega
  · intro c a b ha hb s
    rw [c a ha]
    apply getElem_idx
    rw [succ_mod ha]; split <;> omega

theorem cycPrev_iff {f : Nat → Nat} {l : List Nat} :
    CycPrev f l ↔ ∀ k (hk : k < l.length),
      f l[k] = l[(k + l.length - 1) % l.length]'(Nat.mod_lt _ (by omega)) := by
  constructor
  · intro c k hk
    apply c
    rw [pred_mod hk]; split <;> omega
  · intro c a b ha hb s
    rw [c b hb]
    apply getElem_idx
    rw [pred_mod hb]; split <;> omega

theorem getElem_eraseIdx_ite {l : List Nat} {p a : Nat} (h : a < (l.eraseIdx p).length) :
    (l.eraseIdx p)[a] = l[if a < p then a else a + 1]'(by
      rw [List.length_eraseIdx] at h; split at h <;> split <;> omega) := by
  rw [List.getElem_eraseIdx]
  split <;> rfl

theorem CycNext.eraseIdx {f f' : Nat → Nat} {l : List Nat} {p : Nat} (hp : p < l.length)
    (c : CycNext f l)
    (hkeep : ∀ k (hk : k < l.length), k ≠ p →
      ¬ (k + 1 = p ∨ (k + 1 = l.length ∧ p = 0)) → f' l[k] = f l[k])
    (hlink : ∀ a b (ha : a < l.length) (hb : b < l.length), a ≠ p →
      (a + 1 = p ∨ (a + 1 = l.length ∧ p = 0)) →
      (p + 1 = b ∨ (p + 1 = l.length ∧ b = 0)) → f' l[a] = l[b]) :
    CycNext f' (l.eraseIdx p) := by
  intro a b ha hb s
  have hlen : (l.eraseIdx p).length = l.length - 1 := by
    rw [List.length_eraseIdx, if_pos hp]
  rw [hlen] at s
  have ha' := ha
  have hb' := hb
  rw [hlen] at ha' hb'
  rw [getElem_eraseIdx_ite, getElem_eraseIdx_ite]
  by_cases hs : ((if a < p then a else a + 1) + 1 = p ∨
      ((if a < p then a else a + 1) + 1 = l.length ∧ p = 0))
  · apply hlink _ _ _ _ (by split <;> omega) hs
    split <;> split at hs <;> omega
  · rw [hkeep _ _ (by split <;> omega) hs]
    apply c
    split <;> split <;> rename_i h1 h2 <;> simp only [h1, if_true, if_false] at hs <;> omega

theorem CycPrev.eraseIdx {f f' : Nat → Nat} {l : List Nat} {p : Nat} (hp : p < l.length)
    (c : CycPrev f l)
    (hkeep : ∀ k (hk : k < l.length), k ≠ p →
      ¬ (p + 1 = k ∨ (p + 1 = l.length ∧ k = 0)) → f' l[k] = f l[k])
    (hlink : ∀ a b (ha : a < l.length) (hb : b < l.length), b ≠ p →
      (a + 1 = p ∨ (a + 1 = l.length ∧ p = 0)) →
      (p + 1 = b ∨ (p + 1 = l.length ∧ b = 0)) → f' l[b] = l[a]) :
    CycPrev f' (l.eraseIdx p) := by
  intro a b ha hb s
  have hlen : (l.eraseIdx p).length = l.length - 1 := by
    rw [List.length_eraseIdx, if_pos hp]
  rw [hlen] at s
  have ha' := ha
  have hb' := hb
  rw [hlen] at ha' hb'
  rw [getElem_eraseIdx_ite, getElem_eraseIdx_ite]
  by_cases hs : (p + 1 = (if b < p then b else b + 1) ∨
      (p + 1 = l.length ∧ (if b < p then b else b + 1) = 0))
  · apply hlink _ _ _ _ (by split <;> omega) _ hs
    split <;> split at hs <;> omega
  · rw [hkeep _ _ (by split <;> omega) hs]
    apply c
    split <;> split <;> rename_i h1 h2 <;> simp only [h2, if_true, if_false] at hs <;> omega

theorem getElem_append_range' {l : List Nat} {o m k : Nat}
    (h : k < (l ++ List.range' o m).length) :
    (l ++ List.range' o m)[k] =
      if h' : k < l.length then l[k] else o + (k - l.length) := by
  rw [List.getElem_append]
  split
  · rfl
  · rw [List.getElem_range']; omega

theorem CycNext.append_range {f' : Nat → Nat} {l : List Nat} {o m : Nat} (hm : 0 < m)
    (hold : ∀ a b (ha : a < l.length) (hb : b < l.length), a + 1 = b → f' l[a] = l[b])
    (hnew : ∀ j, j + 1 < m → f' (o + j) = o + j + 1)
    (hlast : f' (o + m - 1) = (l ++ List.range' o m)[0]'(by simp; omega))
    (htail : ∀ hn : 0 < l.length, f' l[l.length - 1] = o) :
    CycNext f' (l ++ List.range' o m) := by
  intro a b ha hb s
  have hlen : (l ++ List.range' o m).length = l.length + m := by simp
  rw [hlen] at s
  have ha' := ha
  have hb' := hb
  rw [hlen] at ha' hb'
  rcases s with s | ⟨s1, s2⟩
  · rw [getElem_append_range' ha, getElem_append_range' hb]
    by_cases h1 : a < l.length
    · by_cases h2 : b < l.length
      · rw [dif_pos h1, dif_pos h2]; exact hold a b h1 h2 s
      · rw [dif_pos h1, dif_neg h2]
        have : a = l.length - 1 := by omega
        subst this
        rw [htail (by omega)]; omega
    · rw [dif_neg h1, dif_neg (by omega)]
      rw [hnew _ (by omega)]; omega
  · subst s2
    rw [← hlast, getElem_append_range' ha, dif_neg (by omega)]
    congr 1; omega

theorem CycPrev.append_range {f' : Nat → Nat} {l : List Nat} {o m : Nat} (hm : 0 < m)
    (hold : ∀ a b (ha : a < l.length) (hb : b < l.length), a + 1 = b → f' l[b] = l[a])
    (hnew : ∀ j, j + 1 < m → f' (o + j + 1) = o + j)
    (hfirst : f' ((l ++ List.range' o m)[0]'(by simp; omega)) = o + m - 1)
    (ho : ∀ hn : 0 < l.length, f' o = l[l.length - 1]) :
    CycPrev f' (l ++ List.range' o m) := by
  intro a b ha hb s
  have hlen : (l ++ List.range' o m).length = l.length + m := by simp
  rw [hlen] at s
  have ha' := ha
  have hb' := hb
  rw [hlen] at ha' hb'
  rcases s with s | ⟨s1, s2⟩
  · rw [getElem_append_range' ha, getElem_append_range' hb]
    by_cases h1 : a < l.length
    · by_cases h2 : b < l.length
      · rw [dif_pos h1, dif_pos h2]; exact hold a b h1 h2 s
      · rw [dif_pos h1, dif_neg h2]
        have : a = l.length - 1 := by omega
        subst this
        have : o + (b - l.length) = o := by omega
        rw [this, ho (by omega)]
    · rw [dif_neg h1, dif_neg (by omega)]
      have : o + (b - l.length) = o + (a - l.length) + 1 := by omega
      rw [this, hnew _ (by omega)]
  · subst s2
    rw [hfirst, getElem_append_range' ha, dif_neg (by omega)]
    omega

theorem sorted_length_le {l : List Nat} {lo hi : Nat} (s : l.Pairwise (· < ·))
    (hb : ∀ x ∈ l, lo ≤ x ∧ x < hi) : l.length ≤ hi - lo := by
  induction l generalizing lo with
  | nil => simp
  | cons x l ih =>
    rw [List.pairwise_cons] at s
    have hx := hb x (List.mem_cons_self)
    have := ih (lo := x + 1) s.2 (fun y hy => ⟨s.1 y hy, (hb y (List.mem_cons_of_mem _ hy)).2⟩)
    simp only [List.length_cons]; omega

theorem getD_set_ite {α} (a : Array α) (o k : Nat) (v d : α) (h : o < a.size) :
    (a.setIfInBounds o v).getD k d = if o = k then v else a.getD k d := by
  split
  · rename_i e; subst e; exact getD_set_self _ _ _ _ h
  · rename_i e; exact getD_set_ne _ _ _ _ _ e

/-! ### 1. The linked-list invariant -/

def Helper.nextOf (h : Helper) (i : Nat) : Nat := h.next.getD (i % h.cap) 0
def Helper.prevOf (h : Helper) (i : Nat) : Nat := h.prev.getD (i % h.cap) 0

/-- `vac` is the ascending list of the vacant active indices and the `next`/`prev` arrays link
them into a circle in that order, starting at `head`. -/
structure Helper.LL (h : Helper) (vac : List Nat) : Prop where
  sorted : vac.Pairwise (· < ·)
  mem : ∀ i, i ∈ vac ↔ (h.Active i ∧ h.usedI i = false)
  head : h.head = vac.head?
  next : ∀ k (hk : k < vac.length),
    h.nextOf vac[k] = vac[(k + 1) % vac.length]'(Nat.mod_lt _ (by omega))
  prev : ∀ k (hk : k < vac.length),
    h.prevOf vac[k] = vac[(k + vac.length - 1) % vac.length]'(Nat.mod_lt _ (by omega))

theorem Helper.LL.cnext {h : Helper} {vac : List Nat} (ll : h.LL vac) : CycNext h.nextOf vac :=
  cycNext_iff.2 ll.next

theorem Helper.LL.cprev {h : Helper} {vac : List Nat} (ll : h.LL vac) : CycPrev h.prevOf vac :=
  cycPrev_iff.2 ll.prev

theorem Helper.LL.nodup {h : Helper} {vac : List Nat} (ll : h.LL vac) : vac.Nodup :=
  ll.sorted.imp (fun h => Nat.ne_of_lt h)

theorem Helper.LL.active {h : Helper} {vac : List Nat} (ll : h.LL vac) {i : Nat} (hi : i ∈ vac) :
    h.Active i := ((ll.mem i).1 hi).1

theorem Helper.LL.length_le {h : Helper} {vac : List Nat} (wf : h.WF) (ll : h.LL vac) :
    vac.length ≤ h.cap := by
  have := sorted_length_le ll.sorted (fun x hx => ll.active hx)
  have := wf.window_le
  omega

/-! ### 2. `useIndex` -/

/-- The result of a successful `useIndex i` when the head is `hd`. -/
def Helper.unlink (h : Helper) (i hd : Nat) : Helper :=
  { h with usedIndex := h.usedIndex.setIfInBounds (i % h.cap) true,
           next := h.next.setIfInBounds (h.prevOf i % h.cap) (h.nextOf i),
           prev := h.prev.setIfInBounds (h.nextOf i % h.cap) (h.prevOf i),
           head := if hd = i then (if h.nextOf i ≠ i then some (h.nextOf i) else none)
                   else some hd }

theorem Helper.useIndex_eq {h : Helper} {i hd : Nat} (a : h.Active i) (u : h.usedI i = false)
    (ap : h.Active (h.prevOf i)) (an : h.Active (h.nextOf i)) (hh : h.head = some hd) :
    h.useIndex i = .ok (h.unlink i hd) := by
  have ap' : h.off (h.prev.getD (i % h.cap) 0) = .ok (h.prevOf i % h.cap) := Helper.off_active ap
  have an' : h.off (h.next.getD (i % h.cap) 0) = .ok (h.nextOf i % h.cap) := Helper.off_active an
  unfold Helper.usedI at u
  unfold Helper.useIndex
  rw [Helper.off_active a]
  simp only [u, Bool.false_eq_true, if_false, ap', an', hh]
  rfl

theorem Helper.unlink_nextOf {h : Helper} {i hd x : Nat} (wf : h.WF)
    (ap : h.Active (h.prevOf i)) (ax : h.Active x) :
    (h.unlink i hd).nextOf x = if x = h.prevOf i then h.nextOf i else h.nextOf x := by
  have hlt : h.prevOf i % h.cap < h.next.size := h.mod_cap_lt wf _
  have hc : (h.unlink i hd).cap = h.cap := by simp [Helper.cap, Helper.unlink]
  show (h.next.setIfInBounds (h.prevOf i % h.cap) (h.nextOf i)).getD
    (x % (h.unlink i hd).cap) 0 = _
  rw [hc, getD_set_ite _ _ _ _ _ hlt]
  by_cases e : x = h.prevOf i
  · subst e; rw [if_pos rfl, if_pos rfl]
  · rw [if_neg e, if_neg (fun em => e (Helper.active_mod_inj wf ax ap em.symm))]; rfl

theorem Helper.unlink_prevOf {h : Helper} {i hd x : Nat} (wf : h.WF)
    (an : h.Active (h.nextOf i)) (ax : h.Active x) :
    (h.unlink i hd).prevOf x = if x = h.nextOf i then h.prevOf i else h.prevOf x := by
  have hlt : h.nextOf i % h.cap < h.prev.size := by
    rw [wf.size_prev, ← wf.cap_eq]; exact h.mod_cap_lt wf _
  have hc : (h.unlink i hd).cap = h.cap := by simp [Helper.cap, Helper.unlink]
  show (h.prev.setIfInBounds (h.nextOf i % h.cap) (h.prevOf i)).getD
    (x % (h.unlink i hd).cap) 0 = _
  rw [hc, getD_set_ite _ _ _ _ _ hlt]
  by_cases e : x = h.nextOf i
  · subst e; rw [if_pos rfl, if_pos rfl]
  · rw [if_neg e, if_neg (fun em => e (Helper.active_mod_inj wf ax an em.symm))]; rfl

theorem Helper.useIndex_ll_idx {h : Helper} {vac : List Nat} {p : Nat} (wf : h.WF)
    (ll : h.LL vac) (hp : p < vac.length) :
    ∃ h', h.useIndex vac[p] = .ok h' ∧ h'.LL (vac.eraseIdx p) := by
  have nd := ll.nodup
  have cn := ll.cnext
  have cp := ll.cprev
  have act : ∀ k (hk : k < vac.length), h.Active vac[k] := fun k hk =>
    ll.active (List.getElem_mem hk)
  obtain ⟨a, ha, sa⟩ : ∃ a, a < vac.length ∧ (a + 1 = p ∨ (a + 1 = vac.length ∧ p = 0)) := by
    by_cases e : p = 0
    · exact ⟨vac.length - 1, by omega, by omega⟩
    · exact ⟨p - 1, by omega, by omega⟩
  obtain ⟨b, hb, sb⟩ : ∃ b, b < vac.length ∧ (p + 1 = b ∨ (p + 1 = vac.length ∧ b = 0)) := by
    by_cases e : p + 1 = vac.length
    · exact ⟨0, by omega, by omega⟩
    · exact ⟨p + 1, by omega, by omega⟩
  have epv : h.prevOf vac[p] = vac[a] := cp a p ha hp sa
  have enx : h.nextOf vac[p] = vac[b] := cn p b hp hb sb
  have hhd : h.head = some vac[0] := by
    rw [ll.head, List.head?_eq_getElem?, List.getElem?_eq_getElem]
  have apv : h.Active (h.prevOf vac[p]) := by rw [epv]; exact act a ha
  have anx : h.Active (h.nextOf vac[p]) := by rw [enx]; exact act b hb
  have hu := ((ll.mem vac[p]).1 (List.getElem_mem hp)).2
  have e := Helper.useIndex_eq (act p hp) hu apv anx hhd
  obtain ⟨_, _, u1, fr, _, b1, b2, b3, wf'⟩ := Helper.useIndex_ok wf e
  have ac := Helper.Active_congr b1 b2 b3
  have hmem : ∀ j, j ∈ vac.eraseIdx p ↔ j ≠ vac[p] ∧ j ∈ vac := by
    intro j
    rw [← List.erase_eq_eraseIdx_of_idxOf (nd.idxOf_getElem p hp)]
    exact nd.mem_erase_iff
  refine ⟨_, e, ll.sorted.eraseIdx p, ?_, ?_, ?_, ?_⟩
  · intro j
    rw [hmem, ll.mem, ac]
    constructor
    · rintro ⟨ne, aj, uj⟩
      exact ⟨aj, by rw [fr j aj ne]; exact uj⟩
    · rintro ⟨aj, uj⟩
      have ne : j ≠ vac[p] := by
        intro ej; rw [ej, u1] at uj; cases uj
      exact ⟨ne, aj, by rw [← fr j aj ne]; exact uj⟩
  · show (if vac[0] = vac[p] then (if h.nextOf vac[p] ≠ vac[p] then some (h.nextOf vac[p])
      else none) else some vac[0]) = _
    rw [List.head?_eq_getElem?, List.getElem?_eraseIdx, enx]
    simp only [ne_eq, List.getElem_inj nd]
    by_cases e0 : 0 = p
    · subst e0
      rw [if_pos rfl, if_neg (Nat.lt_irrefl 0)]
      by_cases e1 : vac.length = 1
      · have : b = 0 := by omega
        subst this
        rw [if_neg (by simp), List.getElem?_eq_none (by omega)]
      · have : b = 1 := by omega
        subst this
        rw [if_pos (by omega), List.getElem?_eq_getElem]
    · rw [if_neg e0, if_pos (by omega), List.getElem?_eq_getElem]
  · rw [← cycNext_iff]
    apply CycNext.eraseIdx hp cn
    · intro k hk ne ns
      rw [Helper.unlink_nextOf wf apv (act k hk), epv,
        if_neg (fun em => by have := (List.getElem_inj nd).1 em; omega)]
    · intro a' b' ha' hb' ne sa' sb'
      have : a' = a := by omega
      subst this
      have : b' = b := by omega
      subst this
      rw [Helper.unlink_nextOf wf apv (act a' ha'), epv, if_pos rfl, enx]
  · rw [← cycPrev_iff]
    apply CycPrev.eraseIdx hp cp
    · intro k hk ne ns
      rw [Helper.unlink_prevOf wf anx (act k hk), enx,
        if_neg (fun em => by have := (List.getElem_inj nd).1 em; omega)]
    · intro a' b' ha' hb' ne sa' sb'
      have : a' = a := by omega
      subst this
      have : b' = b := by omega
      subst this
      rw [Helper.unlink_prevOf wf anx (act b' hb'), enx, if_pos rfl, epv]

theorem Helper.useIndex_ll {h : Helper} {vac : List Nat} {i : Nat} (wf : h.WF)
    (ll : h.LL vac) (hi : i ∈ vac) :
    ∃ h', h.useIndex i = .ok h' ∧ h'.LL (vac.erase i) := by
  obtain ⟨p, hp, rfl⟩ := List.getElem_of_mem hi
  rw [List.erase_eq_eraseIdx_of_idxOf (ll.nodup.idxOf_getElem p hp)]
  exact Helper.useIndex_ll_idx wf ll hp

/-! ### 3. `closeLoop` -/

theorem Helper.closeLoop_ll {fuel endIdx : Nat} {h : Helper} {vac : List Nat} (wf : h.WF)
    (ll : h.LL vac) (hf : (vac.filter (fun j => decide (j < endIdx))).length < fuel) :
    ∃ h', h.closeLoop fuel endIdx = .ok h' ∧
      h'.LL (vac.filter (fun j => decide (endIdx ≤ j))) := by
  induction fuel generalizing h vac with
  | zero => omega
  | succ fuel ih =>
    unfold Helper.closeLoop
    cases vac with
    | nil =>
      have hh : h.head = none := ll.head
      rw [hh]
      exact ⟨h, rfl, ll⟩
    | cons x rest =>
      have hh : h.head = some x := ll.head
      rw [hh]
      simp only
      by_cases hx : endIdx ≤ x
      · rw [if_pos hx]
        refine ⟨h, rfl, ?_⟩
        have : (x :: rest).filter (fun j => decide (endIdx ≤ j)) = x :: rest := by
          rw [List.filter_eq_self]
          intro a ha
          have := ll.sorted
          rw [List.pairwise_cons] at this
          rcases List.mem_cons.1 ha with rfl | ha
          · simpa using hx
          · have := this.1 a ha
            simp only [decide_eq_true_eq]; omega
        rw [this]; exact ll
      · rw [if_neg hx]
        obtain ⟨h1, e1, ll1⟩ := Helper.useIndex_ll_idx wf ll (p := 0) (by simp)
        simp only [List.getElem_cons_zero, List.eraseIdx_cons_zero] at e1 ll1
        rw [e1]
        simp only
        have wf1 := (Helper.useIndex_ok wf e1).2.2.2.2.2.2.2.2
        have hlt : decide (x < endIdx) = true := by simp only [decide_eq_true_eq]; omega
        have hf' : (rest.filter (fun j => decide (j < endIdx))).length < fuel := by
          simp only [List.filter_cons, hlt, if_true, List.length_cons] at hf; omega
        obtain ⟨h', e', ll'⟩ := ih wf1 ll1 hf'
        refine ⟨h', e', ?_⟩
        have : (x :: rest).filter (fun j => decide (endIdx ≤ j)) =
            rest.filter (fun j => decide (endIdx ≤ j)) := by
          simp only [List.filter_cons, decide_eq_true_eq, hx, if_false]
        rw [this]
        exact ll'

/-! ### 4. `pushBlock` -/

theorem Helper.closedOf_ll {h : Helper} {vac : List Nat} (wf : h.WF) (ll : h.LL vac) :
    ∃ h1, h.closedOf = .ok h1 ∧
      h1.LL (vac.filter (fun j => decide ((h.numBlocks + 1 - h.nfb) * h.blockLen ≤ j))) := by
  unfold Helper.closedOf Helper.droppedBlock
  split
  · rename_i cb hcb
    split at hcb
    · rename_i hfull
      simp only [Option.some.injEq] at hcb
      subst hcb
      have hnfb : h.nfb ≤ h.numBlocks := by
        rw [wf.cap_eq, Helper.numElements, Nat.mul_comm h.numBlocks] at hfull
        exact Nat.le_of_mul_le_mul_left hfull wf.blockLen_pos
      have e1 : h.numBlocks + 1 - h.nfb = h.activeStart + 1 := by
        unfold Helper.activeStart; omega
      rw [e1]
      apply Helper.closeLoop_ll wf ll
      have hs : (vac.filter (fun j => decide (j < (h.activeStart + 1) * h.blockLen))).Pairwise
          (· < ·) := ll.sorted.filter _
      have := sorted_length_le (lo := h.activeStart * h.blockLen)
        (hi := (h.activeStart + 1) * h.blockLen) hs (by
          intro x hx
          rw [List.mem_filter] at hx
          exact ⟨(ll.active hx.1).1, by simpa using hx.2⟩)
      rw [Nat.add_mul, Nat.one_mul] at this
      omega
    · cases hcb
  · rename_i hcb
    split at hcb
    · cases hcb
    · rename_i hnf
      refine ⟨h, rfl, ?_⟩
      have hlt : h.numBlocks < h.nfb := by
        rw [wf.cap_eq, Helper.numElements, Nat.mul_comm h.numBlocks] at hnf
        apply Classical.byContradiction
        intro hge
        exact hnf (Nat.mul_le_mul_left _ (by omega))
      have e0 : h.numBlocks + 1 - h.nfb = 0 := by omega
      rw [e0, Nat.zero_mul]
      have : vac.filter (fun j => decide (0 ≤ j)) = vac := by
        rw [List.filter_eq_self]; intro a _; simp
      rw [this]; exact ll

theorem Helper.resetLoop_succ {n idx : Nat} {h : Helper}
    (ha : ∀ m, idx ≤ m → m < idx + n → h.Active m) : ∃ h', Helper.resetLoop n idx h = .ok h' := by
  induction n generalizing idx h with
  | zero => exact ⟨h, rfl⟩
  | succ n ih =>
    unfold Helper.resetLoop
    rw [Helper.off_active (ha idx (Nat.le_refl _) (by omega))]
    simp only
    apply ih
    intro m lo hi
    exact ha m (by omega) (by omega)

theorem Helper.resetLoop_links {n idx : Nat} {h h' : Helper} (wf : h.WF)
    (e : Helper.resetLoop n idx h = .ok h') :
    (∀ k, (∀ m, idx ≤ m → m < idx + n → m % h.cap ≠ k % h.cap) →
      h'.nextOf k = h.nextOf k ∧ h'.prevOf k = h.prevOf k) ∧
    (∀ m, idx ≤ m → m < idx + n →
      h'.nextOf m = m + 1 ∧ h'.prevOf m = if m = 0 then u32Max else m - 1) ∧
    h'.head = h.head := by
  induction n generalizing idx h with
  | zero =>
    unfold Helper.resetLoop at e
    simp only [Except.ok.injEq] at e; subst e
    exact ⟨fun _ _ => ⟨rfl, rfl⟩, fun m a b => by omega, rfl⟩
  | succ n ih =>
    have hact := (Helper.resetLoop_ok_gen wf e).1
    unfold Helper.resetLoop at e
    rw [Helper.off_active (hact idx (Nat.le_refl _) (by omega))] at e
    simp only at e
    have hltN : idx % h.cap < h.next.size := h.mod_cap_lt wf idx
    have hltP : idx % h.cap < h.prev.size := by
      rw [wf.size_prev, ← wf.cap_eq]; exact h.mod_cap_lt wf idx
    generalize hh1 : ({ h with
        next := h.next.setIfInBounds (idx % h.cap) (idx + 1),
        prev := h.prev.setIfInBounds (idx % h.cap) (if idx = 0 then u32Max else idx - 1),
        usedBase := h.usedBase.setIfInBounds (idx % h.cap) false,
        usedIndex := h.usedIndex.setIfInBounds (idx % h.cap) false } : Helper) = h1 at e
    have ecap : h1.cap = h.cap := by subst hh1; simp [Helper.cap]
    have ehd : h1.head = h.head := by subst hh1; rfl
    have wf1 : h1.WF := by
      subst hh1
      exact ⟨wf.blockLen_pos, wf.nfb_pos, by simp [wf.size_next], by simp [wf.size_prev],
        by simp [wf.size_usedBase], by simp [wf.size_usedIndex]⟩
    have hN : ∀ k, h1.nextOf k = if idx % h.cap = k % h.cap then idx + 1 else h.nextOf k := by
      intro k
      unfold Helper.nextOf; rw [ecap]; subst hh1
      exact getD_set_ite _ _ _ _ _ hltN
    have hP : ∀ k, h1.prevOf k = if idx % h.cap = k % h.cap then
        (if idx = 0 then u32Max else idx - 1) else h.prevOf k := by
      intro k
      unfold Helper.prevOf; rw [ecap]; subst hh1
      exact getD_set_ite _ _ _ _ _ hltP
    obtain ⟨c1, c2, c3⟩ := ih wf1 e
    rw [ecap] at c1
    refine ⟨?_, ?_, c3.trans ehd⟩
    · intro k hk
      have := c1 k (fun m a b => hk m (by omega) (by omega))
      rw [this.1, this.2, hN, hP, if_neg (hk idx (Nat.le_refl _) (by omega)),
        if_neg (hk idx (Nat.le_refl _) (by omega))]
      exact ⟨rfl, rfl⟩
    · intro m lo hi
      by_cases em : m = idx
      · subst em
        have := c1 m (fun m' a b em' => by
          have := Helper.active_mod_inj wf (hact m' (by omega) (by omega))
            (hact m (Nat.le_refl _) (by omega)) em'
          omega)
        rw [this.1, this.2, hN, hP, if_pos rfl, if_pos rfl]
        exact ⟨rfl, rfl⟩
      · exact c2 m (by omega) (by omega)

end Daac

import Daac.Gen.BuildTopB
import Daac.Proofs.TieP
namespace Daac.Tie.Top
open Daac Daac.Gen Daac.Gen.N Daac.Tie.N Daac.Tie.F Daac.Tie.P Daac.Tie.H

variable {V : Type}

/-- The label-level reading of `patvals`: a byte pattern is its own key; its byte length is its length. -/
def toLPats (pv : List (List Nat × V)) : List (LPat V) := pv.map fun p => ⟨p.1, p.1.length, p.2⟩

/-- The translated `for (pattern, value) in patvals { nfa.add(pattern.as_ref(), value)?; }` is the
hand-written fold `addAllGen` of the translated `add` (with `nb = fun _ => 1`). -/
theorem loop0_eq : ∀ (pv : List (List Nat × V)) (g : NfaBuilder V),
    TB.Builder.build_sparse_nfa.loop0 pv g = addAllGen (fun _ => 1) g (toLPats pv)
  | [], g => by simp [TB.Builder.build_sparse_nfa.loop0, toLPats, addAllGen]
  | (p, v) :: rest, g => by
    unfold TB.Builder.build_sparse_nfa.loop0
    simp only [toLPats, List.map_cons, addAllGen]
    cases h : NfaBuilder.add (fun _ => 1) g p v with
    | error e => rfl
    | ok r =>
      obtain ⟨u, g'⟩ := r
      exact loop0_eq rest g'

/-- The first part of the glue `Tie.P.genBuildB`: insertion fold, the two pattern-count tests, the fail
pass selected by the kind, `build_outputs`. -/
def sparseGlue (kind : Nat) (P : List (LPat V)) : Except BuildErr (NfaBuilder V) :=
  match addAllGen (fun _ => 1) (NfaBuilder.new kind) P with
  | .error e => .error e
  | .ok g =>
    if g.len = 0 then .error .invalidArgument else
    if g.len > u24Max then .error .automatonScale else
    match failPass kind g with
    | .error e => .error e
    | .ok (q, g1) =>
      match NfaBuilder.build_outputs g1 q with
      | .error e => .error e
      | .ok (_, g2) => .ok g2

/-- `genBuildB` is `sparseGlue` followed by the translated `build_double_array` from the empty builder. -/
theorem genBuildB_eq_sparseGlue (kind nfb : Nat) (P : List (LPat V)) :
    genBuildB kind nfb P = match sparseGlue kind P with
      | .error e => .error e
      | .ok g2 => (DB.Builder.build_double_array ⟨#[], kind, nfb⟩ g2).map (·.2.states) := by
  unfold genBuildB sparseGlue
  cases addAllGen (fun _ => 1) (NfaBuilder.new kind : NfaBuilder V) P with
  | error e => rfl
  | ok g =>
    simp only
    by_cases hl : g.len = 0
    · simp only [hl, if_true]
    · simp only [hl, if_false]
      by_cases h24 : g.len > u24Max
      · simp only [h24, if_true]
      · simp only [h24, if_false]
        cases failPass kind g with
        | error e => rfl
        | ok r =>
          obtain ⟨q, g1⟩ := r
          simp only
          cases NfaBuilder.build_outputs g1 q with
          | error e => rfl
          | ok r2 => rfl

/-- The translated `build_sparse_nfa` is the first part of the glue. `hk`: the kind byte is one of the
three `MatchKind` discriminants (the translated `match` has no arm for another byte). -/
theorem build_sparse_nfa_eq (b : LB.Builder) (pv : List (List Nat × V)) (hk : b.match_kind ≤ 2) :
    TB.Builder.build_sparse_nfa b pv = sparseGlue b.match_kind (toLPats pv) := by
  unfold TB.Builder.build_sparse_nfa sparseGlue
  simp only [loop0_eq]
  cases addAllGen (fun _ => 1) (NfaBuilder.new b.match_kind : NfaBuilder V) (toLPats pv) with
  | error e => rfl
  | ok g =>
    simp only
    by_cases hl : g.len = 0
    · simp [hl]
    · by_cases h24 : g.len > u24Max
      · have : g.len > Gen.u24Max := h24
        simp [hl, h24, this]
      · have h24' : ¬ g.len > Gen.u24Max := h24
        have hk3 : b.match_kind = 0 ∨ b.match_kind = 1 ∨ b.match_kind = 2 := by omega
        rcases hk3 with h0 | h0 | h0 <;> simp only [h0, failPass] <;> simp [hl, h24'] <;>
          (first
            | (cases NfaBuilder.build_fails g with
                | error e => simp [h24]
                | ok r => obtain ⟨q, g1⟩ := r; simp [h24]; cases NfaBuilder.build_outputs g1 q <;> rfl)
            | (cases NfaBuilder.build_fails_leftmost g with
                | error e => simp [h24]
                | ok r => obtain ⟨q, g1⟩ := r; simp [h24]; cases NfaBuilder.build_outputs g1 q <;> rfl))

/-! ### `build_with_values` -/

theorem sparseGlue_ok {kind : Nat} {P : List (LPat V)} {g2 : NfaBuilder V} (h : sparseGlue kind P = .ok g2) :
    ∃ g q g1, addAllGen (fun _ => 1) (NfaBuilder.new kind) P = .ok g ∧ g.len ≠ 0 ∧ g.len ≤ u24Max ∧
      failPass kind g = .ok (q, g1) ∧ NfaBuilder.build_outputs g1 q = .ok ((), g2) := by
  unfold sparseGlue at h
  cases ha : addAllGen (fun _ => 1) (NfaBuilder.new kind : NfaBuilder V) P with
  | error e => rw [ha] at h; cases h
  | ok g =>
    rw [ha] at h; simp only at h
    by_cases hl : g.len = 0
    · simp [hl] at h
    · by_cases h24 : g.len > u24Max
      · simp [hl, h24] at h
      · simp only [hl, h24, if_false] at h
        cases hf : failPass kind g with
        | error e => rw [hf] at h; cases h
        | ok r =>
          obtain ⟨q, g1⟩ := r
          rw [hf] at h; simp only at h
          cases hb : NfaBuilder.build_outputs g1 q with
          | error e => rw [hb] at h; cases h
          | ok r2 =>
            obtain ⟨u, g2'⟩ := r2
            rw [hb] at h; simp only at h; cases h
            exact ⟨g, q, g1, rfl, hl, by omega, hf, hb⟩

theorem sum_ones (l : List Nat) : (l.map (fun _ => 1)).sum = l.length := by
  induction l with
  | nil => rfl
  | cons a l ih => simp only [List.map_cons, List.sum_cons, List.length_cons, ih]; omega

theorem le_sum_of_mem {l : List Nat} {a : Nat} (h : a ∈ l) : a ≤ l.sum := by
  induction l with
  | nil => cases h
  | cons b l ih =>
    rcases List.mem_cons.mp h with rfl | h
    · simp only [List.sum_cons]; omega
    · have := ih h; simp only [List.sum_cons]; omega

theorem keylens (pv : List (List Nat × V)) : (toLPats pv).map (·.key.length) = pv.map (·.1.length) := by
  simp [toLPats, Function.comp_def]

theorem hlen_toLPats (pv : List (List Nat × V)) (hsz : 2 + (pv.map (·.1.length)).sum ≤ 4294967295) :
    ∀ p ∈ toLPats pv, (p.key.map (fun _ => 1)).sum = p.blen ∧ p.blen ≤ 4294967295 := by
  intro p hp
  obtain ⟨x, hx, rfl⟩ := List.mem_map.mp hp
  refine ⟨sum_ones _, ?_⟩
  have : x.1.length ≤ (pv.map (·.1.length)).sum := le_sum_of_mem (List.mem_map.mpr ⟨x, hx, rfl⟩)
  simp only
  omega

/-- The frame property of the translated `build_double_array` used for the `match_kind` field. -/
def KindFrame (V : Type) : Prop := ∀ (b b' : LB.Builder) (g : NfaBuilder V) (u : Unit),
  DB.Builder.build_double_array b g = .ok (u, b') → b'.match_kind = b.match_kind

/-- END TO END for the TRANSLATED `build_with_values` (byte-wise).  For every collection of byte patterns
within the `u32` scale, `kind` one of the three `MatchKind` bytes, `cfg.kind = kind`, `1 ≤ cfg.nfb`: the
translated `build_with_values`, run on the empty builder of that kind with `cfg.nfb` free blocks, and the
model `buildDA .bytewise cfg` fail with the same error kind (up to panic texts), or both succeed with
equal `states`, equal `num_states`, related `outputs`, and `match_kind` = the builder's field after the
translated `build_double_array` (`= kind` under `KindFrame`). -/
theorem build_with_values_core (kind : Nat) (cfg : Cfg) (pv : List (List Nat × V))
    (hk : kind ≤ 2) (hkind : cfg.kind = kind) (hnfb : 1 ≤ cfg.nfb)
    (hbytes : ∀ p ∈ pv, ∀ c ∈ p.1, c < 256)
    (hsz : 2 + (pv.map (·.1.length)).sum ≤ 4294967295) :
    match TB.Builder.build_with_values ⟨#[], kind, cfg.nfb⟩ pv, buildDA .bytewise cfg (toLPats pv) with
    | .error e, .error e' => norm (.error e : Except BuildErr Unit) = norm (.error e')
    | .ok a, .ok da => a.states = da.states ∧ a.num_states = da.numStates ∧ OutsRel a.outputs da.outputs ∧
        (KindFrame V → a.match_kind = kind) ∧
        ∃ g2, sparseGlue kind (toLPats pv) = .ok g2 ∧
          (DB.Builder.build_double_array ⟨#[], kind, cfg.nfb⟩ g2).map (·.2.states) = .ok a.states
    | _, _ => False := by
  have hlen := hlen_toLPats pv hsz
  have hsz' : 2 + ((toLPats pv).map (·.key.length)).sum ≤ 4294967295 := by rw [keylens]; exact hsz
  have hbytes' : ∀ p ∈ toLPats pv, ∀ c ∈ p.key, c < 256 := by
    intro p hp
    obtain ⟨x, hx, rfl⟩ := List.mem_map.mp hp
    exact hbytes x hx
  have hE := genBuildB_eq_buildDA kind cfg (toLPats pv) hkind hnfb hbytes' hsz' hlen
  rw [genBuildB_eq_sparseGlue] at hE
  unfold TB.Builder.build_with_values
  rw [build_sparse_nfa_eq ⟨#[], kind, cfg.nfb⟩ pv hk]
  simp only
  cases hs : sparseGlue kind (toLPats pv) with
  | error e =>
    rw [hs] at hE
    simp only at hE
    rcases norm_cases (·.states) (buildDA .bytewise cfg (toLPats pv)) (.error e) hE.symm with
      ⟨a, _, h2⟩ | ⟨e1, e2, h1, h2, h3⟩
    · cases h2
    · cases h2
      rw [h1]
      exact (h3 Unit).symm
  | ok g2 =>
    rw [hs] at hE
    simp only at hE ⊢
    cases hd : DB.Builder.build_double_array (⟨#[], kind, cfg.nfb⟩ : LB.Builder) g2 with
    | error e =>
      rw [hd] at hE
      rcases norm_cases (·.states) (buildDA .bytewise cfg (toLPats pv)) (.error e) hE.symm with
        ⟨a, _, h2⟩ | ⟨e1, e2, h1, h2, h3⟩
      · cases h2
      · cases h2
        rw [h1]
        exact (h3 Unit).symm
    | ok r =>
      obtain ⟨u, b'⟩ := r
      rw [hd] at hE
      rcases norm_cases (·.states) (buildDA .bytewise cfg (toLPats pv)) (.ok b'.states) hE.symm with
        ⟨da, hda, h2⟩ | ⟨e1, e2, _, h2, _⟩
      · obtain ⟨g, q, g1, hadd, hl, h24, hfp, hbo⟩ := sparseGlue_ok hs
        obtain ⟨a, q', g1', g2', _, _, hfp', hbo', hs2, hsg, _, _⟩ :=
          pipeline_refines kind cfg (⟨#[], 0⟩ : Mapper) (toLPats pv) hnfb hbytes' hsz' hlen g hadd hl
        rw [hfp] at hfp'; cases hfp'
        rw [hbo] at hbo'; cases hbo'
        obtain ⟨q', g1', g2', hfp', hbo', _, hfacts⟩ :=
          generated_bytewise_build_eq_buildDA kind cfg (toLPats pv) hkind hnfb hbytes' hsz' hlen g hadd hl h24
        rw [hfp] at hfp'; cases hfp'
        rw [hbo] at hbo'; cases hbo'
        obtain ⟨houts, hnum, _⟩ := hfacts da hda
        have hfr := (addAllGen_fresh (fun _ => 1) (toLPats pv) (NfaBuilder.new kind) g hadd (new_fresh kind)).2.1
        have h2' : (NfaBuilder.new kind : NfaBuilder V).states.size = 2 := by simp [NfaBuilder.new]
        have h1 : 1 ≤ g2.states.size := by omega
        have hu : g2.states.size - 1 ≤ Gen.Rs.u32Max := by unfold Gen.Rs.u32Max; omega
        have hst : b'.states = da.states := Except.ok.inj h2
        rw [hda]
        simp only [h1, decide_true, if_true, Gen.Rs.u32TryFrom, if_pos hu, Gen.Rs.mapErr]
        refine ⟨hst, by rw [hnum]; omega, houts, fun hf => hf _ _ _ _ hd, g2, rfl, ?_⟩
        rw [hd]; rfl
      · cases h2

/-- The `states` of the translated `build_with_values` against the glue `Tie.P.genBuildB`: both fail (same
error kind up to panic texts) or both succeed and the `states` field is the glue's table. -/
theorem build_with_values_states_eq (kind : Nat) (cfg : Cfg) (pv : List (List Nat × V))
    (hk : kind ≤ 2) (hkind : cfg.kind = kind) (hnfb : 1 ≤ cfg.nfb)
    (hbytes : ∀ p ∈ pv, ∀ c ∈ p.1, c < 256)
    (hsz : 2 + (pv.map (·.1.length)).sum ≤ 4294967295) :
    match TB.Builder.build_with_values ⟨#[], kind, cfg.nfb⟩ pv, genBuildB kind cfg.nfb (toLPats pv) with
    | .error e, .error e' => norm (.error e : Except BuildErr Unit) = norm (.error e')
    | .ok a, .ok s => a.states = s
    | _, _ => False := by
  have hc := build_with_values_core kind cfg pv hk hkind hnfb hbytes hsz
  have hlen := hlen_toLPats pv hsz
  have hsz' : 2 + ((toLPats pv).map (·.key.length)).sum ≤ 4294967295 := by rw [keylens]; exact hsz
  have hbytes' : ∀ p ∈ toLPats pv, ∀ c ∈ p.key, c < 256 := by
    intro p hp
    obtain ⟨x, hx, rfl⟩ := List.mem_map.mp hp
    exact hbytes x hx
  have hE := genBuildB_eq_buildDA kind cfg (toLPats pv) hkind hnfb hbytes' hsz' hlen
  rcases norm_cases (·.states) (buildDA .bytewise cfg (toLPats pv)) (genBuildB kind cfg.nfb (toLPats pv)) hE.symm with
    ⟨da, h1, h2⟩ | ⟨e1, e2, h1, h2, h3⟩
  · rw [h1] at hc; rw [h2]
    cases hr : TB.Builder.build_with_values (⟨#[], kind, cfg.nfb⟩ : LB.Builder) pv with
    | error e => rw [hr] at hc; exact hc.elim
    | ok a => rw [hr] at hc; exact hc.1
  · rw [h1] at hc; rw [h2]
    cases hr : TB.Builder.build_with_values (⟨#[], kind, cfg.nfb⟩ : LB.Builder) pv with
    | error e => rw [hr] at hc; exact Eq.trans hc (h3 Unit)
    | ok a => rw [hr] at hc; exact hc.elim

/-- END TO END, the translated `build_with_values` against the model `buildDA .bytewise`: same error kind,
or equal `states`, equal `num_states`, related `outputs`. -/
theorem generated_build_with_values_eq_buildDA (kind : Nat) (cfg : Cfg) (pv : List (List Nat × V))
    (hk : kind ≤ 2) (hkind : cfg.kind = kind) (hnfb : 1 ≤ cfg.nfb)
    (hbytes : ∀ p ∈ pv, ∀ c ∈ p.1, c < 256)
    (hsz : 2 + (pv.map (·.1.length)).sum ≤ 4294967295) :
    match TB.Builder.build_with_values ⟨#[], kind, cfg.nfb⟩ pv, buildDA .bytewise cfg (toLPats pv) with
    | .error e, .error e' => norm (.error e : Except BuildErr Unit) = norm (.error e')
    | .ok a, .ok da => a.states = da.states ∧ a.num_states = da.numStates ∧ OutsRel a.outputs da.outputs
    | _, _ => False := by
  have hc := build_with_values_core kind cfg pv hk hkind hnfb hbytes hsz
  cases hr : TB.Builder.build_with_values (⟨#[], kind, cfg.nfb⟩ : LB.Builder) pv <;>
    cases hm : buildDA .bytewise cfg (toLPats pv) <;> rw [hr, hm] at hc
  · exact hc
  · exact hc.elim
  · exact hc.elim
  · exact ⟨hc.1, hc.2.1, hc.2.2.1⟩

/-- The same with the `match_kind` field, given the frame property of `build_double_array`. -/
theorem generated_build_with_values_eq_buildDA_partial (hframe : KindFrame V)
    (kind : Nat) (cfg : Cfg) (pv : List (List Nat × V))
    (hk : kind ≤ 2) (hkind : cfg.kind = kind) (hnfb : 1 ≤ cfg.nfb)
    (hbytes : ∀ p ∈ pv, ∀ c ∈ p.1, c < 256)
    (hsz : 2 + (pv.map (·.1.length)).sum ≤ 4294967295) :
    match TB.Builder.build_with_values ⟨#[], kind, cfg.nfb⟩ pv, buildDA .bytewise cfg (toLPats pv) with
    | .error e, .error e' => norm (.error e : Except BuildErr Unit) = norm (.error e')
    | .ok a, .ok da => a.states = da.states ∧ a.num_states = da.numStates ∧ a.match_kind = kind ∧
        a.match_kind = da.kind ∧ OutsRel a.outputs da.outputs
    | _, _ => False := by
  have hc := build_with_values_core kind cfg pv hk hkind hnfb hbytes hsz
  cases hr : TB.Builder.build_with_values (⟨#[], kind, cfg.nfb⟩ : LB.Builder) pv <;>
    cases hm : buildDA .bytewise cfg (toLPats pv) <;> rw [hr, hm] at hc
  · exact hc
  · exact hc.elim
  · exact hc.elim
  · rename_i a da
    have hkd : da.kind = kind := by rw [← hkind]; exact (buildDA_kind_variant .bytewise cfg (toLPats pv) da hm).1
    exact ⟨hc.1, hc.2.1, hc.2.2.2.1 hframe, by rw [hc.2.2.2.1 hframe, hkd], hc.2.2.1⟩

/- TODO: none.  `KindFrame V` (the translated `build_double_array` — Gen/BuildB.lean: `init_array`,
   loop0..loop3, `extend_array`, `remove_invalid_checks` — never writes the `match_kind` field of the builder) is
   PROVED in Proofs/TieTopFrame.lean (`kindFrame`, by frame inductions over the four loops, `init_array`,
   `extend_array`, and Tie.L.B `remove_invalid_checks_frame`); the unconditional statement with the
   `match_kind` conjunct is `generated_build_with_values_eq_buildDA_full` there. -/

end Daac.Tie.Top

#print axioms Daac.Tie.Top.loop0_eq
#print axioms Daac.Tie.Top.build_sparse_nfa_eq
#print axioms Daac.Tie.Top.build_with_values_states_eq
#print axioms Daac.Tie.Top.generated_build_with_values_eq_buildDA
#print axioms Daac.Tie.Top.generated_build_with_values_eq_buildDA_partial

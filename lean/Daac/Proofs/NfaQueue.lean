/-
The BFS queue of a trie (`Trie.queue`, Model/Nfa.lean) and the semantic interface `TrieSem`
(Proofs/NfaIface.lean) for the trie built by `buildTrie`.

PART A: membership / order / duplicate-freeness of `childPaths`, `level`, `queue`.
PART B: `buildTrie kind P = .ok t → TrieSem t P` (kind ≠ 2) resp. `TrieSem t (retainedL P)` (kind = 2).
Core Lean only.
-/
import Daac.Proofs.NfaIface
import Daac.Proofs.TrieFacts
namespace Daac
variable {V : Type}

/-! ## A0. `Kids.find?`, `labelList`, `walk` -/

theorem Kids.labelList_eq_labels : (k : Kids V) → k.labelList = k.labels
  | .nil => rfl
  | .cons _ _ r => by simp [Kids.labelList, Kids.labels, Kids.labelList_eq_labels r]

theorem Kids.find?_isSome_iff : (k : Kids V) → (c : Nat) →
    ((k.find? c).isSome = true ↔ c ∈ k.labelList)
  | .nil, c => by simp [Kids.find?, Kids.labelList]
  | .cons l t r, c => by
    have ih := Kids.find?_isSome_iff r c
    simp only [Kids.find?, Kids.labelList, List.mem_cons]
    by_cases h : l = c
    · simp [h]
    · have h' : ¬ c = l := fun e => h e.symm
      simp [h, h', ih]

theorem Kids.find?_ne_none_iff (k : Kids V) (c : Nat) :
    k.find? c ≠ none ↔ c ∈ k.labelList := by
  rw [← Kids.find?_isSome_iff k c]
  cases k.find? c <;> simp

theorem Trie.walk_append (t : Trie V) (u w : List Nat) :
    t.walk (u ++ w) = (t.walk u).bind (·.walk w) := by
  induction u generalizing t with
  | nil => simp
  | cons c u ih =>
    cases t with
    | node out kids =>
      simp only [List.cons_append, Trie.walk_cons]
      cases kids.find? c with
      | none => simp
      | some x => simpa using ih x

theorem Trie.walk_singleton (t : Trie V) (c : Nat) : t.walk [c] = t.kids.find? c := by
  cases t with
  | node out kids =>
    simp only [Trie.walk_cons, Trie.kids]
    cases kids.find? c <;> simp

theorem Trie.walk_snoc (t : Trie V) (u : List Nat) (c : Nat) :
    t.walk (u ++ [c]) = (t.walk u).bind (fun n => n.kids.find? c) := by
  rw [Trie.walk_append]
  cases t.walk u <;> simp [Trie.walk_singleton]

@[simp] theorem Trie.hasNode_nil (t : Trie V) : t.hasNode [] = true := by
  simp [Trie.hasNode]

theorem Trie.hasNode_of_append (t : Trie V) (u w : List Nat) :
    t.hasNode (u ++ w) = true → t.hasNode u = true := by
  unfold Trie.hasNode
  rw [Trie.walk_append]
  cases t.walk u <;> simp

theorem Trie.hasNode_of_snoc (t : Trie V) (u : List Nat) (c : Nat) :
    t.hasNode (u ++ [c]) = true → t.hasNode u = true :=
  Trie.hasNode_of_append t u [c]

theorem Trie.hasNode_of_prefix (t : Trie V) {u w : List Nat} (h : u <+: w) :
    t.hasNode w = true → t.hasNode u = true := by
  obtain ⟨r, rfl⟩ := h
  exact Trie.hasNode_of_append t u r

/-! ## A1. `childPaths` -/

theorem Trie.mem_childPaths (t : Trie V) (u w : List Nat) :
    w ∈ t.childPaths u ↔
      ∃ c, w = u ++ [c] ∧ t.hasNode (u ++ [c]) = true ∧ t.hasNode u = true := by
  unfold Trie.childPaths Trie.hasNode
  cases h : t.walk u with
  | none => simp [Trie.walk_snoc, h]
  | some n =>
    simp only [List.mem_map, Trie.walk_snoc, h, Option.bind_some, Option.isSome_some, and_true,
      Kids.find?_isSome_iff]
    constructor
    · rintro ⟨c, hc, rfl⟩; exact ⟨c, rfl, hc⟩
    · rintro ⟨c, rfl, hc⟩; exact ⟨c, hc, rfl⟩

/-! ## A2. `level` -/

theorem Trie.mem_level (t : Trie V) (d : Nat) (u : List Nat) :
    u ∈ t.level d ↔ t.hasNode u = true ∧ u.length = d := by
  induction d generalizing u with
  | zero =>
    simp only [Trie.level, List.mem_singleton, List.length_eq_zero_iff]
    constructor
    · rintro rfl; simp
    · exact fun h => h.2
  | succ d ih =>
    simp only [Trie.level, List.mem_flatMap, Trie.mem_childPaths, ih]
    constructor
    · rintro ⟨v, ⟨_, hl⟩, c, rfl, hn, _⟩
      exact ⟨hn, by simp [hl]⟩
    · rintro ⟨hn, hl⟩
      rcases List.eq_nil_or_concat u with rfl | ⟨v, c, rfl⟩
      · simp at hl
      · rw [List.concat_eq_append] at hn hl ⊢
        have hv := Trie.hasNode_of_snoc t v c hn
        exact ⟨v, ⟨hv, by simpa using hl⟩, c, rfl, hn, hv⟩

/-! ## A3. depth bound -/

theorem Kids.find?_depth_lt : (k : Kids V) → (c : Nat) → (t : Trie V) →
    k.find? c = some t → t.depth + 1 ≤ k.depth
  | .nil, c, t, h => by simp [Kids.find?] at h
  | .cons l t' r, c, t, h => by
    simp only [Kids.find?] at h
    simp only [Kids.depth]
    split at h
    · cases h; omega
    · have := Kids.find?_depth_lt r c t h; omega

theorem Trie.walk_length_le_depth (t : Trie V) (u : List Nat) :
    (t.walk u).isSome = true → u.length ≤ t.depth := by
  induction u generalizing t with
  | nil => intro _; simp
  | cons c u ih =>
    cases t with
    | node out kids =>
      rw [Trie.walk_cons_isSome]
      rintro ⟨t', hf, hw⟩
      have h1 := ih t' hw
      have h2 := Kids.find?_depth_lt kids c t' hf
      simp only [Trie.depth, List.length_cons]
      omega

theorem Trie.hasNode_length_le_depth (t : Trie V) (u : List Nat) :
    t.hasNode u = true → u.length ≤ t.depth :=
  Trie.walk_length_le_depth t u

/-! ## A4. `queue` -/

theorem Trie.mem_queue (t : Trie V) (u : List Nat) :
    u ∈ t.queue ↔ t.hasNode u = true ∧ u ≠ [] := by
  simp only [Trie.queue, List.mem_flatMap, List.mem_range, Trie.mem_level]
  constructor
  · rintro ⟨d, _, hn, hl⟩
    refine ⟨hn, ?_⟩
    rintro rfl; simp at hl
  · rintro ⟨hn, hne⟩
    have h1 := Trie.hasNode_length_le_depth t u hn
    have h2 : u.length ≠ 0 := by simpa using hne
    exact ⟨u.length - 1, by omega, hn, by omega⟩

/-! ## A5. order of the queue -/

theorem Trie.queue_sorted_length (t : Trie V) :
    (t.queue.map List.length).Pairwise (· ≤ ·) := by
  rw [List.pairwise_map]
  unfold Trie.queue
  rw [List.pairwise_flatMap]
  refine ⟨?_, ?_⟩
  · intro d _
    rw [← List.pairwise_map]
    have : (t.level (d + 1)).map List.length = List.replicate (t.level (d + 1)).length (d + 1) := by
      rw [List.eq_replicate_iff]
      refine ⟨by simp, ?_⟩
      intro b hb
      obtain ⟨x, hx, rfl⟩ := List.mem_map.mp hb
      exact ((Trie.mem_level t _ x).mp hx).2
    rw [this]
    simp
  · refine List.Pairwise.imp ?_ (List.pairwise_lt_range (n := t.depth))
    intro a b hab x hx y hy
    have h1 := ((Trie.mem_level t _ x).mp hx).2
    have h2 := ((Trie.mem_level t _ y).mp hy).2
    omega

/-- Decomposition of the queue at an entry `s`: everything strictly shorter comes before. -/
theorem Trie.queue_split_shorter (t : Trie V) {pre post : List (List Nat)} {s : List Nat}
    (h : t.queue = pre ++ s :: post) :
    ∀ w, t.hasNode w = true → w ≠ [] → w.length < s.length → w ∈ pre := by
  intro w hn hne hl
  have hs := Trie.queue_sorted_length t
  rw [h, List.pairwise_map, List.pairwise_append] at hs
  have hw : w ∈ pre ++ s :: post := h ▸ (Trie.mem_queue t w).mpr ⟨hn, hne⟩
  rcases List.mem_append.mp hw with hw | hw
  · exact hw
  · rcases List.mem_cons.mp hw with rfl | hw
    · omega
    · have := (List.pairwise_cons.mp hs.2.1).1 w hw
      omega

theorem Trie.queue_split_pre_le (t : Trie V) {pre post : List (List Nat)} {s : List Nat}
    (h : t.queue = pre ++ s :: post) : ∀ w ∈ pre, w.length ≤ s.length := by
  intro w hw
  have hs := Trie.queue_sorted_length t
  rw [h, List.pairwise_map, List.pairwise_append] at hs
  exact hs.2.2 w hw s (by simp)

theorem Trie.queue_split_post_ge (t : Trie V) {pre post : List (List Nat)} {s : List Nat}
    (h : t.queue = pre ++ s :: post) : ∀ w ∈ post, s.length ≤ w.length := by
  intro w hw
  have hs := Trie.queue_sorted_length t
  rw [h, List.pairwise_map, List.pairwise_append] at hs
  exact (List.pairwise_cons.mp hs.2.1).1 w hw

/-- A child of any node is a queue entry, one label longer than its parent. -/
theorem Trie.mem_queue_of_mem_childPaths (t : Trie V) {u w : List Nat} (h : w ∈ t.childPaths u) :
    w ∈ t.queue ∧ w.length = u.length + 1 ∧ t.hasNode u = true := by
  obtain ⟨c, rfl, hn, hu⟩ := (Trie.mem_childPaths t u w).mp h
  exact ⟨(Trie.mem_queue t _).mpr ⟨hn, by simp⟩, by simp, hu⟩

/-- Every queue entry is a child of its parent `dropLast`, which is the root or a queue entry. -/
theorem Trie.mem_queue_parent (t : Trie V) {w : List Nat} (h : w ∈ t.queue) :
    w ∈ t.childPaths w.dropLast ∧ (w.dropLast = [] ∨ w.dropLast ∈ t.queue) := by
  obtain ⟨hn, hne⟩ := (Trie.mem_queue t w).mp h
  rcases List.eq_nil_or_concat w with rfl | ⟨v, c, rfl⟩
  · exact absurd rfl hne
  · rw [List.concat_eq_append] at hn ⊢
    have hv := Trie.hasNode_of_snoc t v c hn
    simp only [List.dropLast_concat]
    refine ⟨(Trie.mem_childPaths t v _).mpr ⟨c, rfl, hn, hv⟩, ?_⟩
    by_cases h0 : v = []
    · exact Or.inl h0
    · exact Or.inr ((Trie.mem_queue t v).mpr ⟨hv, h0⟩)

/-! ## A6. duplicate-freeness (sorted tries) -/

theorem Kids.nodup_labelList : (k : Kids V) → k.Sorted → k.labelList.Nodup
  | .nil, _ => by simp [Kids.labelList]
  | .cons l t r, hs => by
    simp only [Kids.Sorted] at hs
    simp only [Kids.labelList, List.nodup_cons]
    refine ⟨?_, Kids.nodup_labelList r hs.2.1⟩
    intro hin
    rw [Kids.labelList_eq_labels] at hin
    have := hs.2.2 l hin
    omega

theorem Trie.sorted_walk (t : Trie V) (u : List Nat) (n : Trie V) :
    t.Sorted → t.walk u = some n → n.Sorted := by
  induction u generalizing t with
  | nil => intro hs h; simp at h; exact h ▸ hs
  | cons c u ih =>
    cases t with
    | node out kids =>
      intro hs h
      simp only [Trie.Sorted] at hs
      rw [Trie.walk_cons] at h
      cases hf : kids.find? c with
      | none => simp [hf] at h
      | some x =>
        simp only [hf, Option.bind_some] at h
        exact ih x (Kids.sorted_find? kids c x hs hf) h

theorem Trie.sorted_kids (t : Trie V) : t.Sorted → t.kids.Sorted := by
  cases t with
  | node out kids => intro h; simpa [Trie.Sorted, Trie.kids] using h

theorem Trie.nodup_childPaths (t : Trie V) (hs : t.Sorted) (u : List Nat) :
    (t.childPaths u).Nodup := by
  unfold Trie.childPaths
  cases h : t.walk u with
  | none => simp
  | some n =>
    have hn := Kids.nodup_labelList n.kids (Trie.sorted_kids n (Trie.sorted_walk t u n hs h))
    simp only
    rw [List.nodup_iff_pairwise_ne, List.pairwise_map]
    refine List.Pairwise.imp ?_ hn
    intro a b hab he
    exact hab (by simpa using he)

/-- Children of different parents are different. -/
theorem Trie.childPaths_parent_unique (t : Trie V) {u₁ u₂ w : List Nat}
    (h₁ : w ∈ t.childPaths u₁) (h₂ : w ∈ t.childPaths u₂) : u₁ = u₂ := by
  obtain ⟨c₁, rfl, _, _⟩ := (Trie.mem_childPaths t u₁ w).mp h₁
  obtain ⟨c₂, he, _, _⟩ := (Trie.mem_childPaths t u₂ _).mp h₂
  exact (List.append_inj' he rfl).1

theorem Trie.childPaths_disjoint (t : Trie V) {u₁ u₂ : List Nat} (hne : u₁ ≠ u₂) :
    ∀ x ∈ t.childPaths u₁, ∀ y ∈ t.childPaths u₂, x ≠ y := by
  intro x hx y hy he
  subst he
  exact hne (Trie.childPaths_parent_unique t hx hy)

theorem Trie.nodup_level (t : Trie V) (hs : t.Sorted) (d : Nat) : (t.level d).Nodup := by
  induction d with
  | zero => simp [Trie.level]
  | succ d ih =>
    simp only [Trie.level]
    rw [List.nodup_iff_pairwise_ne, List.pairwise_flatMap]
    refine ⟨fun u _ => Trie.nodup_childPaths t hs u, ?_⟩
    refine List.Pairwise.imp ?_ ih
    intro a b hab
    exact Trie.childPaths_disjoint t hab

theorem Trie.nodup_queue (t : Trie V) (hs : t.Sorted) : t.queue.Nodup := by
  unfold Trie.queue
  rw [List.nodup_iff_pairwise_ne, List.pairwise_flatMap]
  refine ⟨fun d _ => Trie.nodup_level t hs (d + 1), ?_⟩
  refine List.Pairwise.imp ?_ (List.pairwise_lt_range (n := t.depth))
  intro a b hab x hx y hy he
  have h1 := ((Trie.mem_level t _ x).mp hx).2
  have h2 := ((Trie.mem_level t _ y).mp hy).2
  subst he
  omega

/-! ## B. The built trie satisfies `TrieSem` -/

/-- `LPat`-level mirror of `Daac.retainedGo`: keep `p` iff no earlier pattern's key is a proper
prefix of `p.key`. -/
def retainedLGo : List (LPat V) → List (LPat V) → List (LPat V)
  | _, [] => []
  | earlier, p :: ps =>
    if earlier.any (fun q => decide (q.key <+: p.key ∧ q.key ≠ p.key)) then
      retainedLGo (earlier ++ [p]) ps
    else p :: retainedLGo (earlier ++ [p]) ps

def retainedL (P : List (LPat V)) : List (LPat V) := retainedLGo [] P

theorem retainedLGo_map_key (e P : List (LPat V)) :
    (retainedLGo e P).map (·.key) = retKeysGo (e.map (·.key)) (P.map (·.key)) := by
  induction P generalizing e with
  | nil => simp [retainedLGo, retKeysGo]
  | cons p ps ih =>
    simp only [retainedLGo, List.map_cons, retKeysGo, List.any_map]
    have := ih (e ++ [p])
    simp only [List.map_append, List.map_cons, List.map_nil] at this
    have hc : (e.any fun q => decide (q.key <+: p.key ∧ q.key ≠ p.key)) =
        (e.any ((fun q => decide (q <+: p.key ∧ q ≠ p.key)) ∘ fun x => x.key)) := rfl
    rw [← hc]
    split <;> simp [this]

theorem retainedL_map_key (P : List (LPat V)) :
    (retainedL P).map (·.key) = retKeys (P.map (·.key)) := by
  simpa [retainedL, retKeys] using retainedLGo_map_key [] P

theorem retainedLGo_sublist (e P : List (LPat V)) : List.Sublist (retainedLGo e P) P := by
  induction P generalizing e with
  | nil => simp [retainedLGo]
  | cons p ps ih =>
    simp only [retainedLGo]
    split
    · exact (ih _).trans (List.sublist_cons_self p ps)
    · exact (ih _).cons_cons p

theorem retainedL_sublist (P : List (LPat V)) : List.Sublist (retainedL P) P := retainedLGo_sublist [] P

theorem lpat_eq_of_key_eq {P : List (LPat V)} (hnd : (P.map (·.key)).Nodup) {p q : LPat V}
    (hp : p ∈ P) (hq : q ∈ P) (hk : p.key = q.key) : p = q := by
  induction P with
  | nil => simp at hp
  | cons a P ih =>
    simp only [List.map_cons, List.nodup_cons, List.mem_map, not_exists, not_and] at hnd
    rcases List.mem_cons.mp hp with rfl | hp' <;> rcases List.mem_cons.mp hq with rfl | hq'
    · rfl
    · exact absurd hk.symm (hnd.1 q hq')
    · exact absurd hk (hnd.1 p hp')
    · exact ih hnd.2 hp' hq'

/-- Generic form: any sub-list `P'` of `P` whose keys are the registered keys. -/
theorem trieSem_of_buildTrie (kind : Nat) (P P' : List (LPat V)) (t : Trie V)
    (ht : buildTrie kind P = .ok t) (hk : keysOk P) (hsub : List.Sublist P' P)
    (hkeys : P'.map (·.key) = retainedKeys (kind == 2) (P.map (·.key))) : TrieSem t P' := by
  obtain ⟨_, hne, hnd⟩ := (buildTrie_ok_iff kind P hk).mp ⟨t, ht⟩
  have hnd' : (P'.map (·.key)).Nodup := (hsub.map (·.key)).nodup hnd
  refine ⟨?_, ?_, hnd', fun p hp => hne p (hsub.subset hp)⟩
  · intro u
    show (t.walk u).isSome = true ↔ _
    rw [buildTrie_nodes kind P hk t ht u, mem_nodeList, ← hkeys]
    constructor
    · rintro (h | ⟨k, hk', hu⟩)
      · exact Or.inl h
      · obtain ⟨p, hp, rfl⟩ := List.mem_map.mp hk'
        exact Or.inr ⟨p, hp, ((mem_nprefixes _ _).mp hu).2⟩
    · rintro (h | ⟨p, hp, hu⟩)
      · exact Or.inl h
      · by_cases h0 : u = []
        · exact Or.inl h0
        · exact Or.inr ⟨p.key, List.mem_map.mpr ⟨p, hp, rfl⟩, (mem_nprefixes _ _).mpr ⟨h0, hu⟩⟩
  · intro u
    show t.outAt u = _
    have hreg := buildTrie_registered kind P hk t ht u
    rw [Trie.isRegistered_eq_outAt, ← hkeys] at hreg
    cases ho : t.outAt u with
    | none =>
      have hnot : u ∉ P'.map (·.key) := by
        intro hin; have := hreg.mpr hin; simp [ho] at this
      have : P'.find? (fun p => decide (p.key = u)) = none := by
        rw [List.find?_eq_none]
        intro x hx hxu
        exact hnot (List.mem_map.mpr ⟨x, hx, by simpa using hxu⟩)
      simp [this]
    | some o =>
      obtain ⟨p, hp, hpu, rfl⟩ := buildTrie_outAt kind P hk t ht u o ho
      have hin : u ∈ P'.map (·.key) := hreg.mp (by simp [ho])
      obtain ⟨p', hp', hpu'⟩ := List.mem_map.mp hin
      cases hf : P'.find? (fun p => decide (p.key = u)) with
      | none =>
        rw [List.find?_eq_none] at hf
        exact absurd (by simpa using hpu') (hf p' hp')
      | some q =>
        have hq := List.mem_of_find?_eq_some hf
        have hqu : q.key = u := by simpa using List.find?_some hf
        have : q = p := lpat_eq_of_key_eq hnd (hsub.subset hq) hp (hqu.trans hpu.symm)
        subst this
        simp

/-- B1: every kind except leftmost-first. -/
theorem buildTrie_trieSem (kind : Nat) (hkind : kind ≠ 2) (P : List (LPat V)) (t : Trie V)
    (ht : buildTrie kind P = .ok t) (hk : keysOk P) : TrieSem t P := by
  refine trieSem_of_buildTrie kind P P t ht hk (List.Sublist.refl P) ?_
  simp [retainedKeys, hkind]

/-- B2: leftmost-first. -/
theorem buildTrie_trieSem_lf (P : List (LPat V)) (t : Trie V)
    (ht : buildTrie 2 P = .ok t) (hk : keysOk P) : TrieSem t (retainedL P) := by
  refine trieSem_of_buildTrie 2 P (retainedL P) t ht hk (retainedL_sublist P) ?_
  simp [retainedKeys, retainedL_map_key]

end Daac

/-
Translation tie, accessors: the field accessors of the Rust `State` / `Output` and the `U24nU8`
bit packing behind the byte-wise ones, as GENERATED from /repo's current source by
tools/acc2lean.py (Daac/Gen/Access.lean, over the raw structs of Gen/Serial.lean), equal the field
reads and writes of the model records `St` / `Out` through the representation maps `toStB` /
`toStC` / `toOut` of Proofs/TieS.

This discharges what the search-side and layout translation units (tools/rs2lean.py) take as
given when they read `state.check()`, `state.output_pos()`, `state.base()`, `set_check(..)` as the
model's fields (Gen/Prelude.lean `Rs.St.base`, `Rs.St.outputPos`, `Rs.Out.parent`), and ties the
generated packing to the model `U24nU8` (whose shift and mask come from the constants translator).
The byte-wise statements need `check < 256` — `boundsInv`/`St.WF` give it for every element of a
built table, vacant ones included.
-/
import Daac.Gen.Access
import Daac.Gen.Prelude
import Daac.Proofs.TieS
import Daac.Proofs.Intpack
namespace Daac.Tie.A
open Daac Daac.Gen Daac.Tie.S
variable {V : Type}

/-! ### src/intpack.rs -/

theorem a_eq (x : Nat) : A.U24nU8.a x = Daac.U24nU8.a x := rfl

theorem and255_le (x : Nat) : x &&& 255 ≤ 255 := Nat.and_le_right

theorem b_eq (x : Nat) : A.U24nU8.b x = some (Daac.U24nU8.b x) := by
  have h := and255_le x
  simp only [A.U24nU8.b, Rs.u8_try_from, Daac.U24nU8.b, Gen.packMask, h, if_true]

theorem set_a_eq (x a' : Nat) : A.U24nU8.set_a x a' = some (Daac.U24nU8.setA x a') := by
  simp only [A.U24nU8.set_a, b_eq, A.U24.get, Daac.U24nU8.setA, Gen.packShift]

theorem set_b_eq (x b' : Nat) : A.U24nU8.set_b x b' = Daac.U24nU8.setB x b' := rfl

theorem try_from_eq (x : Nat) :
    A.U24.try_from x = if x ≤ Gen.u24Max then .ok x else .error () := by
  simp only [A.U24.try_from, decide_eq_true_eq]

/-- the packed word of `toStB s` is the model's `pack` -/
theorem word_eq (s : St) : (toStB s).opos_ch = Daac.U24nU8.pack s.opos s.check := rfl

/-! ### byte-wise `State` (src/bytewise.rs) -/

theorem B_base (s : St) : A.B.State.base (toStB s) = optNZ s.base := rfl
theorem B_fail (s : St) : A.B.State.fail (toStB s) = s.fail := rfl

theorem B_check (s : St) (hc : s.check < 256) : A.B.State.check (toStB s) = some s.check := by
  simp only [A.B.State.check, b_eq, word_eq, Daac.U24nU8.b_pack _ _ hc]

theorem B_output_pos (s : St) (hc : s.check < 256) :
    A.B.State.output_pos (toStB s) = optNZ s.opos := by
  simp only [A.B.State.output_pos, A.U24.get, a_eq, word_eq, Daac.U24nU8.a_pack _ _ hc,
    Rs.NonZeroU32_new, optNZ]

theorem B_set_base (s : St) (x : Nat) (hx : x ≠ 0) :
    A.B.State.set_base (toStB s) x = toStB { s with base := x } := by
  simp only [A.B.State.set_base, toStB, optNZ, hx, if_false]

theorem B_set_fail (s : St) (x : Nat) :
    A.B.State.set_fail (toStB s) x = toStB { s with fail := x } := rfl

theorem B_set_check (s : St) (x : Nat) (hc : s.check < 256) :
    A.B.State.set_check (toStB s) x = toStB { s with check := x } := by
  have h : Daac.U24nU8.setB (Daac.U24nU8.pack s.opos s.check) x = Daac.U24nU8.pack s.opos x := by
    unfold Daac.U24nU8.setB
    rw [Daac.U24nU8.a_pack _ _ hc]
    rfl
  simp only [A.B.State.set_check, set_b_eq, word_eq, h]
  rfl

theorem B_set_output_pos (s : St) (o : Option Nat) (hc : s.check < 256) :
    A.B.State.set_output_pos (toStB s) o =
      some (if Rs.map_or_0_get o ≤ Gen.u24Max
            then .ok (toStB { s with opos := Rs.map_or_0_get o })
            else .error .automatonScale) := by
  have h : ∀ a', Daac.U24nU8.setA (Daac.U24nU8.pack s.opos s.check) a' = Daac.U24nU8.pack a' s.check := by
    intro a'
    unfold Daac.U24nU8.setA
    rw [Daac.U24nU8.b_pack _ _ hc]
    rfl
  simp only [A.B.State.set_output_pos, try_from_eq]
  split
  · rename_i x heq
    split at heq
    · rename_i hle
      cases heq
      simp only [set_a_eq, word_eq, h, hle, if_true]
      rfl
    · cases heq
  · rename_i heq
    split at heq
    · cases heq
    · rename_i hle
      simp only [hle, if_false]

/-! ### what the search-side prelude takes as given (Gen/Prelude.lean) -/

theorem prelude_base (s : St) : Rs.St.base s = A.B.State.base (toStB s) := rfl

theorem prelude_output_pos (s : St) (hc : s.check < 256) :
    Rs.St.outputPos s = A.B.State.output_pos (toStB s) := by
  rw [B_output_pos s hc]; rfl

theorem prelude_parent (o : Out V) : Rs.Out.parent o = A.Output.parent (toOut o) := rfl

/-! ### char-wise `State` (src/charwise.rs) and `Output` (src/lib.rs): plain fields -/

theorem C_reads (s : St) :
    A.C.State.base (toStC s) = optNZ s.base ∧ A.C.State.check (toStC s) = s.check ∧
    A.C.State.fail (toStC s) = s.fail ∧ A.C.State.output_pos (toStC s) = optNZ s.opos :=
  ⟨rfl, rfl, rfl, rfl⟩

theorem C_prelude (s : St) :
    Rs.St.base s = A.C.State.base (toStC s) ∧ Rs.St.outputPos s = A.C.State.output_pos (toStC s) :=
  ⟨rfl, rfl⟩

theorem C_set_check (s : St) (x : Nat) : A.C.State.set_check (toStC s) x = toStC { s with check := x } := rfl
theorem C_set_fail (s : St) (x : Nat) : A.C.State.set_fail (toStC s) x = toStC { s with fail := x } := rfl

theorem C_set_base (s : St) (x : Nat) (hx : x ≠ 0) :
    A.C.State.set_base (toStC s) x = toStC { s with base := x } := by
  simp only [A.C.State.set_base, toStC, optNZ, hx, if_false]

theorem C_set_output_pos (s : St) (x : Nat) :
    A.C.State.set_output_pos (toStC s) (optNZ x) = toStC { s with opos := x } := rfl

theorem Out_reads (o : Out V) :
    A.Output.value (toOut o) = o.value ∧ A.Output.length (toOut o) = o.length ∧
    A.Output.parent (toOut o) = optNZ o.parent := ⟨rfl, rfl, rfl⟩

theorem Out_new (v : V) (l p : Nat) : A.Output.new v l (optNZ p) = toOut ⟨v, l, p⟩ := rfl

/-- Non-vacuity: a state with the largest packed fields. -/
example : A.B.State.check (toStB ⟨7, 255, 3, 16777215⟩) = some 255 ∧
    A.B.State.output_pos (toStB ⟨7, 255, 3, 16777215⟩) = some 16777215 := by decide

end Daac.Tie.A

/-
Every automaton returned by the construction pipeline `buildDA` is well formed for serialisation
(`DA.WF`, Proofs/SerialRT.lean), hence the round trip `deserialize (serialize da ++ rest)` applies
to every BUILT automaton.

Layers: (1) a per-element frame invariant of the whole layout pass (CHECK below the variant's
bound, byte-wise output position at most `u24Max`) together with the `u32` bound on the array
length; (2) the output table (values / lengths come from trie nodes, at most one record per queue
entry); (3) the mapper table; (4) assembly.
-/
import Daac.Proofs.Bounds2
import Daac.Proofs.SerialRT
namespace Daac
variable {V : Type}

/-! ## 1. Per-element frame invariant of the layout pass -/

/-- CHECK is below `B`; for the byte-wise variant the output position fits 24 bits. -/
def QS (v : Variant) (B : Nat) (s : St) : Prop :=
  s.check < B ∧ (v = .bytewise → s.opos ≤ u24Max)

def AllQ (v : Variant) (B : Nat) (s : Array St) : Prop :=
  ∀ i (h : i < s.size), QS v B (s[i])

theorem setSt_allQ {v : Variant} {B : Nat} {s s' : Array St} {i : Nat} {f : St → St}
    (e : setSt s i f = .ok s') (hf : ∀ x, QS v B x → QS v B (f x)) (h : AllQ v B s) :
    s'.size = s.size ∧ AllQ v B s' := by
  obtain ⟨_, rfl⟩ := setSt_eq e
  refine ⟨Array.size_modify .., fun j hj => ?_⟩
  simp only [Array.size_modify] at hj
  rw [Array.getElem_modify]
  split
  · exact hf _ (h j hj)
  · exact h j hj

theorem qs_check {v : Variant} {B c : Nat} (hc : c < B) (x : St) (h : QS v B x) :
    QS v B { x with check := c } := ⟨hc, h.2⟩

theorem qs_default (v : Variant) {B : Nat} (hB : 256 ≤ B) : QS v B (stDefault v) := by
  cases v
  · refine ⟨?_, fun _ => Nat.zero_le _⟩
    show 0 < B; omega
  · refine ⟨?_, fun _ => Nat.zero_le _⟩
    show 1 < B; omega

theorem sanitiseLoop_allQ {v : Variant} {B : Nat} (hB : 256 ≤ B) (h : Helper) (ub : Nat) :
    ∀ (n c : Nat) (s s' : Array St), sanitiseLoop h ub n c s = .ok s' → n + c ≤ 256 →
      AllQ v B s → s'.size = s.size ∧ AllQ v B s' := by
  intro n
  induction n with
  | zero =>
    intro c s s' e _ hq
    unfold sanitiseLoop at e
    simp only [Except.ok.injEq] at e; subst e
    exact ⟨rfl, hq⟩
  | succ n ih =>
    intro c s s' e hc hq
    unfold sanitiseLoop at e
    simp only at e
    split at e
    · cases e
    · exact ih _ _ _ e (by omega) hq
    · split at e
      · cases e
      · rename_i s1 e1
        obtain ⟨sz1, q1⟩ := setSt_allQ e1 (qs_check (by omega)) hq
        obtain ⟨sz, q⟩ := ih _ _ _ e (by omega) q1
        exact ⟨sz.trans sz1, q⟩

theorem removeInvalidChecks_allQ {v : Variant} {B : Nat} (hB : 256 ≤ B) {s s' : Array St}
    {h : Helper} {b : Nat} (e : removeInvalidChecks s h b = .ok s') (hq : AllQ v B s) :
    s'.size = s.size ∧ AllQ v B s' := by
  unfold removeInvalidChecks at e
  split at e
  · cases e
  · simp only [Except.ok.injEq] at e; subst e
    exact ⟨rfl, hq⟩
  · exact sanitiseLoop_allQ hB _ _ _ _ _ _ e (by omega) hq

theorem sanitiseBlocks_allQ {v : Variant} {B : Nat} (hB : 256 ≤ B) (h : Helper) :
    ∀ (n b : Nat) (s s' : Array St), sanitiseBlocks h n b s = .ok s' → AllQ v B s →
      s'.size = s.size ∧ AllQ v B s' := by
  intro n
  induction n with
  | zero =>
    intro b s s' e hq
    unfold sanitiseBlocks at e
    simp only [Except.ok.injEq] at e; subst e
    exact ⟨rfl, hq⟩
  | succ n ih =>
    intro b s s' e hq
    unfold sanitiseBlocks at e
    split at e
    · cases e
    · rename_i s1 e1
      obtain ⟨sz1, q1⟩ := removeInvalidChecks_allQ hB e1 hq
      obtain ⟨sz, q⟩ := ih _ _ _ e q1
      exact ⟨sz.trans sz1, q⟩

theorem allQ_append {v : Variant} {B : Nat} (s : Array St) (n : Nat) (d : St) (hd : QS v B d)
    (h : AllQ v B s) : AllQ v B (s ++ Array.replicate n d) := by
  intro i hi
  rw [Array.getElem_append]
  split
  · exact h i _
  · rw [Array.getElem_replicate]; exact hd

theorem extendArray_allQ (v : Variant) {B : Nat} (hB : 256 ≤ B) {lay lay' : Lay}
    (e : extendArray v lay = .ok lay') (h1 : 1 < lay.states.size) (hq : AllQ v B lay.states) :
    lay'.states.size ≤ u32Max ∧ AllQ v B lay'.states := by
  unfold extendArray at e
  split at e
  · cases e
  · rename_i hsz
    simp only at e
    split at e
    · cases e
    · rename_i states hs
      have h2 : states.size = lay.states.size ∧ AllQ v B states := by
        split at hs
        · exact removeInvalidChecks_allQ hB hs hq
        · simp only [Except.ok.injEq] at hs; subst hs
          exact ⟨rfl, hq⟩
      split at e
      · cases e
      · simp only [Except.ok.injEq] at e; subst e
        refine ⟨?_, allQ_append _ _ _ (qs_default v hB) h2.2⟩
        simp only [Array.size_append, Array.size_replicate]
        omega

/-- CHECK values written by `placeChildren`. -/
def chkOfW (v : Variant) (sidx : Nat) (c : Nat) : Nat :=
  match v with
  | .bytewise => c
  | .charwise => sidx

theorem placeChildren_allQ (v : Variant) (sidx base B : Nat) :
    ∀ (edges : List (Nat × List Nat)) (lay lay' : Lay),
      placeChildren v sidx base edges lay = .ok lay' → (∀ e ∈ edges, chkOfW v sidx e.1 < B) →
      AllQ v B lay.states → lay'.states.size = lay.states.size ∧ AllQ v B lay'.states := by
  intro edges
  induction edges with
  | nil =>
    intro lay lay' e _ hq
    unfold placeChildren at e
    simp only [Except.ok.injEq] at e; subst e
    exact ⟨rfl, hq⟩
  | cons hd rest ih =>
    intro lay lay' e hc hq
    obtain ⟨c, child⟩ := hd
    unfold placeChildren at e
    simp only at e
    split at e
    · cases e
    · split at e
      · cases e
      · rename_i s1 es
        have hc1 : chkOfW v sidx c < B := hc (c, child) (List.mem_cons_self ..)
        obtain ⟨sz1, q1⟩ := setSt_allQ es (qs_check (v := v) hc1) hq
        obtain ⟨sz, q⟩ := ih _ _ e (fun e he => hc e (List.mem_cons_of_mem _ he)) q1
        exact ⟨sz.trans sz1, q⟩

/-- The CHECK bound of each variant: a byte label resp. a `u32` index. -/
def ckB : Variant → Nat
  | .bytewise => 256
  | .charwise => 2 ^ 32

theorem ckB_ge (v : Variant) : 256 ≤ ckB v := by
  cases v <;> simp [ckB]

/-- Byte-wise: every edge label of the trie is a byte. -/
def EdgeOk (v : Variant) (t : Trie V) : Prop :=
  v = .bytewise → ∀ u, ∀ w ∈ t.childPaths u, w.getLastD 0 < 256

theorem edges_chk (v : Variant) (m : Mapper) (t : Trie V) (u : List Nat)
    (edges : List (Nat × List Nat)) (he : edgeCodes v m t u = .ok edges) (hE : EdgeOk v t)
    (sidx : Nat) (hs : sidx ≤ u32Max) : ∀ e ∈ edges, chkOfW v sidx e.1 < ckB v := by
  intro e hm
  cases v with
  | bytewise =>
    unfold edgeCodes at he
    simp only [Except.ok.injEq] at he
    subst he
    obtain ⟨w, hw, rfl⟩ := List.mem_map.1 hm
    exact hE rfl u w hw
  | charwise =>
    show sidx < 2 ^ 32
    unfold u32Max at hs
    omega

theorem layoutStep_w (v : Variant) (m : Mapper) (t : Trie V) (u : List Nat)
    (stack stack' : List (List Nat)) (lay lay' : Lay)
    (e : layoutStep v m t u stack lay = .ok (stack', lay')) (hE : EdgeOk v t)
    (G : GInv (stDefault v) lay) (hsz : lay.states.size ≤ u32Max)
    (hq : AllQ v (ckB v) lay.states) :
    lay'.states.size ≤ u32Max ∧ AllQ v (ckB v) lay'.states := by
  unfold layoutStep at e
  split at e
  · cases e
  · simp only [Except.ok.injEq, Prod.mk.injEq] at e
    obtain ⟨_, rfl⟩ := e
    exact ⟨hsz, hq⟩
  · rename_i edges _ hedges
    simp only at e
    split at e
    · cases e
    · rename_i base _
      split at e
      · cases e
      · rename_i lay1 hext
        have W1 : lay1.states.size ≤ u32Max ∧ AllQ v (ckB v) lay1.states := by
          split at hext
          · exact extendArray_allQ v (ckB_ge v) hext G.two hq
          · simp only [Except.ok.injEq] at hext; subst hext; exact ⟨hsz, hq⟩
        split at e
        · cases e
        · rename_i lay2 e1
          have hsidx : lay.idx.getD u deadIdx ≤ u32Max := by
            have := G.idx u; omega
          obtain ⟨sz2, q2⟩ := placeChildren_allQ v _ _ _ _ _ _ e1
            (edges_chk v m t u edges hedges hE _ hsidx) W1.2
          split at e
          · cases e
          · rename_i states' e2
            obtain ⟨sz3, q3⟩ := setSt_allQ e2 (fun x h => (⟨h.1, h.2⟩ : QS v (ckB v) _)) q2
            split at e
            · cases e
            · simp only [Except.ok.injEq, Prod.mk.injEq] at e
              obtain ⟨_, rfl⟩ := e
              refine ⟨?_, q3⟩
              simp only
              rw [sz3, sz2]; exact W1.1

theorem layoutLoop_w (v : Variant) (m : Mapper) (t : Trie V) (hE : EdgeOk v t) :
    ∀ (fuel : Nat) (stack : List (List Nat)) (lay lay' : Lay),
      layoutLoop v m t fuel stack lay = .ok lay' → GInv (stDefault v) lay →
      lay.states.size ≤ u32Max → AllQ v (ckB v) lay.states →
      lay'.states.size ≤ u32Max ∧ AllQ v (ckB v) lay'.states := by
  intro fuel
  induction fuel with
  | zero =>
    intro stack lay lay' e G hsz hq
    cases stack with
    | nil =>
      unfold layoutLoop at e
      simp only [Except.ok.injEq] at e; subst e; exact ⟨hsz, hq⟩
    | cons u rest => unfold layoutLoop at e; cases e
  | succ fuel ih =>
    intro stack lay lay' e G hsz hq
    cases stack with
    | nil =>
      unfold layoutLoop at e
      simp only [Except.ok.injEq] at e; subst e; exact ⟨hsz, hq⟩
    | cons u rest =>
      unfold layoutLoop at e
      split at e
      · cases e
      · rename_i stack1 lay1 hs
        obtain ⟨a, b⟩ := layoutStep_w v m t u rest stack1 lay lay1 hs hE G hsz hq
        exact ih _ _ _ e (layoutStep_frame v m t u rest stack1 lay lay1 hs G) a b

theorem setFailOut_allQ (v : Variant) (B : Nat) (nfa : Nfa V) :
    ∀ (L : List (List Nat)) (lay lay' : Lay), setFailOut v nfa L lay = .ok lay' →
      AllQ v B lay.states → lay'.states.size = lay.states.size ∧ AllQ v B lay'.states := by
  intro L
  induction L with
  | nil =>
    intro lay lay' e hq
    unfold setFailOut at e
    simp only [Except.ok.injEq] at e; subst e
    exact ⟨rfl, hq⟩
  | cons u rest ih =>
    intro lay lay' e hq
    unfold setFailOut at e
    simp only at e
    split at e
    · cases e
    · rename_i hop
      split at e
      · cases e
      · rename_i s1 es
        obtain ⟨sz1, q1⟩ := setSt_allQ (v := v) (B := B) es
          (fun x h => ⟨h.1, fun hv => by
            show nfa.out.opos.getD u 0 ≤ u24Max
            exact Nat.le_of_not_gt (fun h2 => hop ⟨hv, h2⟩)⟩) hq
        obtain ⟨sz, q⟩ := ih _ _ e q1
        exact ⟨sz.trans sz1, q⟩

theorem helper_new_cap {bl nfb : Nat} {h : Helper} (e : Helper.new bl nfb = .ok h) :
    bl ≤ u32Max := by
  unfold Helper.new at e
  simp only at e
  split at e
  · cases e
  · rename_i h1
    split at e
    · cases e
    · rename_i h2
      have hn : 0 < nfb := by
        rcases Nat.eq_zero_or_pos nfb with h0 | h0
        · rw [h0, Nat.mul_zero] at h2; exact absurd rfl h2
        · exact h0
      have := Nat.le_mul_of_pos_right bl hn
      omega

/-- The block length used by `buildLayout`. -/
def layBL (v : Variant) (m : Mapper) : Nat :=
  match v with
  | .bytewise => bytewiseBlockLen
  | .charwise => max 2 (Nat.nextPowerOfTwo m.alphaSize)

theorem buildLayout_w (v : Variant) (cfg : Cfg) (m : Mapper) (t : Trie V) (nfa : Nfa V)
    (states : Array St) (hb : buildLayout v cfg m t nfa = .ok states) (hE : EdgeOk v t) :
    states.size ≤ u32Max ∧ AllQ v (ckB v) states := by
  unfold buildLayout at hb
  simp only at hb
  have hbl2 : 2 ≤ layBL v m := by
    cases v
    · show 2 ≤ 256; omega
    · exact Nat.le_max_left ..
  split at hb
  · cases hb
  rename_i h0 e0
  split at hb
  · cases hb
  rename_i h1 e1
  split at hb
  · cases hb
  rename_i h2 e2
  split at hb
  · cases hb
  rename_i h3 e3
  split at hb
  · cases hb
  rename_i lay1 eloop
  split at hb
  · cases hb
  rename_i lay2 efo
  have G0 : GInv (stDefault v) ⟨Array.replicate (layBL v m) (stDefault v), h3,
      ({} : Std.HashMap (List Nat) Nat).insert [] rootIdx⟩ := ginv_init _ _ h3 hbl2
  have hq0 : AllQ v (ckB v) (Array.replicate (layBL v m) (stDefault v)) := by
    intro i hi
    rw [Array.getElem_replicate]; exact qs_default v (ckB_ge v)
  obtain ⟨sz1, q1⟩ := layoutLoop_w v m t hE _ _ _ _ eloop G0
    (by simp only [Array.size_replicate]; exact helper_new_cap e0) hq0
  obtain ⟨sz2, q2⟩ := setFailOut_allQ v _ nfa _ _ _ efo q1
  cases v with
  | charwise =>
    simp only [Except.ok.injEq] at hb
    subst hb
    exact ⟨by rw [sz2]; exact sz1, q2⟩
  | bytewise =>
    simp only at hb
    obtain ⟨sz3, q3⟩ := sanitiseBlocks_allQ (ckB_ge .bytewise) _ _ _ _ _ hb q2
    exact ⟨by rw [sz3, sz2]; exact sz1, q3⟩

/-! ## 2. The output table -/

/-- Every record's value / length pair satisfies `R`. -/
def OutsR (R : V → Nat → Prop) (a : OutAcc V) : Prop :=
  ∀ j (h : j < a.outs.size), R (a.outs[j]).value (a.outs[j]).length

theorem outStep_R (t : Trie V) (fm : FailMap) (R : V → Nat → Prop)
    (hR : ∀ s v len, t.outAt s = some (v, len) → R v len) (a : OutAcc V) (s : List Nat)
    (h : OutsR R a) :
    OutsR R (outStep t fm a s) ∧ (outStep t fm a s).outs.size ≤ a.outs.size + 1 := by
  unfold outStep
  split
  · rename_i v len heq
    refine ⟨fun j hj => ?_, by simp⟩
    simp only [Array.size_push] at hj
    simp only [Array.getElem_push]
    split
    · exact h j _
    · exact hR s v len heq
  · exact ⟨h, by simp⟩

theorem foldl_outStep_R (t : Trie V) (fm : FailMap) (R : V → Nat → Prop)
    (hR : ∀ s v len, t.outAt s = some (v, len) → R v len) (L : List (List Nat)) (a : OutAcc V)
    (h : OutsR R a) :
    OutsR R (L.foldl (outStep t fm) a) ∧
      (L.foldl (outStep t fm) a).outs.size ≤ a.outs.size + L.length := by
  induction L generalizing a with
  | nil => exact ⟨h, by simp⟩
  | cons s L ih =>
    obtain ⟨h1, h2⟩ := outStep_R t fm R hR a s h
    obtain ⟨h3, h4⟩ := ih _ h1
    refine ⟨h3, ?_⟩
    simp only [List.foldl_cons, List.length_cons]
    omega

theorem buildNfa_outsR (t : Trie V) (lm : Bool) (R : V → Nat → Prop)
    (hR : ∀ s v len, t.outAt s = some (v, len) → R v len) :
    OutsR R (buildNfa t lm).out ∧ (buildNfa t lm).out.outs.size ≤ t.queue.length := by
  have := foldl_outStep_R t (buildFailMap t lm) R hR t.queue ⟨{}, #[]⟩
    (fun j hj => by simp at hj)
  simpa [buildNfa, buildOutAcc] using this

/-- The queue holds every node except the root. -/
theorem queue_length (t : Trie V) (hs : t.Sorted) : t.queue.length + 1 = t.size := by
  have := Trie.size_eq_of_nodes t hs ([] :: t.queue)
    (List.nodup_cons.mpr ⟨fun h => ((Trie.mem_queue t []).1 h).2 rfl, Trie.nodup_queue t hs⟩)
    (fun u => by
      rw [List.mem_cons, Trie.mem_queue]
      show _ ↔ t.hasNode u = true
      by_cases h0 : u = []
      · subst h0; simp
      · simp [h0])
  rw [this]; simp

/-! ## 3. The mapper table -/

theorem mapper_entries_u32 (P : List (LPat V)) (htab : tableLen P < 2 ^ 32) :
    ∀ c ∈ (Mapper.build P).table, c < 2 ^ 32 := by
  intro c hc
  by_cases h : c = invalidCode
  · rw [h]; decide
  · obtain ⟨i, hi, rfl⟩ := Array.mem_iff_getElem.1 hc
    have hg : (Mapper.build P).get i = some ((Mapper.build P).table[i]) := by
      unfold Mapper.get
      rw [Array.getElem?_eq_getElem hi]
      simp [h]
    have h1 := (mapperOk_build' P).1 i _ hg
    have h2 := (mapper_alpha_le P).1
    omega

/-! ## 4. Assembly -/

theorem edgeOk_of_bytes (v : Variant) (t : Trie V)
    (hby : v = .bytewise → ∀ u, t.hasNode u = true → ∀ c ∈ u, c < 256) : EdgeOk v t := by
  intro hv u w hw
  obtain ⟨c, rfl, hn, _⟩ := (Trie.mem_childPaths t u w).1 hw
  rw [List.getLastD_concat]
  exact hby hv _ hn c (by simp)

/-- BASE, FAIL in range and output positions at most the number of records, both variants. -/
theorem layout_elems (variant : Variant) (cfg : Cfg) (P : List (LPat V)) (t : Trie V)
    (lm : Bool) (states : Array St)
    (hst : buildLayout variant cfg (mapperFor variant P) t (buildNfa t lm) = .ok states)
    (hsort : t.Sorted)
    (hby : variant = .bytewise → ∀ u, t.hasNode u = true → ∀ c ∈ u, c < 256) :
    ∀ i (h : i < states.size), (states[i]).base < states.size ∧
      (states[i]).fail < states.size ∧ (states[i]).opos ≤ (buildNfa t lm).out.outs.size := by
  have ho := buildNfa_outOk t lm
  cases variant with
  | bytewise =>
    exact (layoutBounds_bytewise cfg _ _ _ states hst hsort (hby rfl) ho).elems
  | charwise =>
    have hm : LayC.MapperOk (Mapper.build P) := ⟨(mapperOk_build' P).1, (mapperOk_build' P).2⟩
    exact (layoutBounds_charwise cfg (mapperFor .charwise P) _ _ states hst hsort hm ho).elems

/-- **Every automaton the construction pipeline returns is well formed for serialisation.** -/
theorem wf_of_build (S : Ser V) (D : V → Prop) (variant : Variant) (cfg : Cfg)
    (P : List (LPat V)) (da : DA V)
    (hb : buildDA variant cfg P = .ok da) (hk : keysOk P)
    (hbytes : variant = .bytewise → ∀ p ∈ P, ∀ c ∈ p.key, c < 256)
    (hkind : cfg.kind ∈ [0, 1, 2]) (hvals : ∀ p ∈ P, D p.value) (hlen : ∀ p ∈ P, p.blen < 2 ^ 32)
    (_hcount : P.length < 2 ^ 32) (htab : variant = .charwise → tableLen P < 2 ^ 32)
    (hnodes : ∀ t, buildTrie cfg.kind P = .ok t → t.size < 2 ^ 32) :
    da.WF S D := by
  obtain ⟨_, acc, _, _, ht, hr⟩ := buildDA_ok_decomp variant cfg P da hb
  have hsort := buildTrie_sorted _ _ _ ht
  have hn := hnodes _ ht
  have hby : variant = .bytewise → ∀ u, acc.trie.hasNode u = true → ∀ c ∈ u, c < 256 :=
    fun hv => node_labels_lt cfg.kind P hk acc.trie ht (hbytes hv)
  obtain ⟨hR, hosz⟩ := buildNfa_outsR acc.trie (cfg.kind != 0)
    (fun v len => D v ∧ len < 2 ^ 32) (fun s v len h => by
      obtain ⟨p, hp, _, he⟩ := buildTrie_outAt cfg.kind P hk acc.trie ht s _ h
      cases he
      exact ⟨hvals p hp, hlen p hp⟩)
  have hpar := (buildNfa_outOk acc.trie (cfg.kind != 0)).2
  have hq := queue_length acc.trie hsort
  unfold buildRest at hr
  split at hr
  · cases hr
  split at hr
  · cases hr
  simp only at hr
  split at hr
  · cases hr
  rename_i states hst
  cases hr
  have hel := layout_elems variant cfg P acc.trie _ states hst hsort hby
  obtain ⟨hsz, hall⟩ := buildLayout_w variant cfg _ _ _ states hst
    (edgeOk_of_bytes variant acc.trie hby)
  have hu : u32Max < 2 ^ 32 := by decide
  refine ⟨?_, ?_, ?_, ?_, ?_, ?_, ?_, ?_, ?_, ?_⟩
  · show ∀ s ∈ states.toList, s.WF variant
    intro s hs
    obtain ⟨i, hi, rfl⟩ := Array.mem_iff_getElem.1 (Array.mem_toList_iff.1 hs)
    obtain ⟨b1, b2, b3⟩ := hel i hi
    obtain ⟨c1, c2⟩ := hall i hi
    have hck : ckB variant ≤ 2 ^ 32 := by cases variant <;> simp [ckB]
    refine ⟨by omega, by omega, by omega, by omega, fun hv => ?_, fun hv => ?_⟩
    · subst hv; exact c1
    · have := c2 hv
      unfold u24Max Gen.u24Max at this
      omega
  · show ∀ o ∈ (buildNfa acc.trie (cfg.kind != 0)).out.outs.toList, o.WF D
    intro o ho
    obtain ⟨j, hj, rfl⟩ := Array.mem_iff_getElem.1 (Array.mem_toList_iff.1 ho)
    obtain ⟨r1, r2⟩ := hR j hj
    have := hpar j hj
    exact ⟨r1, r2, by omega⟩
  · simp only; omega
  · simp only; omega
  · simp only
    cases variant with
    | bytewise => simp [mapperFor]
    | charwise =>
      show (Mapper.build P).table.size < 2 ^ 32
      rw [(mapper_alpha_le P).2]; exact htab rfl
  · simp only
    cases variant with
    | bytewise => simp [mapperFor]
    | charwise =>
      intro c hc
      exact mapper_entries_u32 P (htab rfl) c (Array.mem_toList_iff.1 hc)
  · simp only
    cases variant with
    | bytewise => simp [mapperFor]
    | charwise =>
      show (Mapper.build P).alphaSize < 2 ^ 32
      have := (mapper_alpha_le P).1
      have := htab rfl
      omega
  · exact hn
  · exact hkind
  · intro hv
    have hv' : variant = .bytewise := hv
    subst hv'
    exact ⟨rfl, rfl⟩

/-- **The serialisation round trip holds for every built automaton.** -/
theorem roundtrip_of_build (S : Ser V) (D : V → Prop) (variant : Variant) (cfg : Cfg)
    (P : List (LPat V)) (da : DA V)
    (hb : buildDA variant cfg P = .ok da) (hk : keysOk P)
    (hbytes : variant = .bytewise → ∀ p ∈ P, ∀ c ∈ p.key, c < 256)
    (hkind : cfg.kind ∈ [0, 1, 2]) (hvals : ∀ p ∈ P, D p.value) (hlen : ∀ p ∈ P, p.blen < 2 ^ 32)
    (hcount : P.length < 2 ^ 32) (htab : variant = .charwise → tableLen P < 2 ^ 32)
    (hnodes : ∀ t, buildTrie cfg.kind P = .ok t → t.size < 2 ^ 32)
    (hS : S.LawfulOn D) (rest : List Nat) :
    deserialize S da.variant (serialize S da ++ rest) = some (da, rest) :=
  deserialize_serialize S D hS da
    (wf_of_build S D variant cfg P da hb hk hbytes hkind hvals hlen hcount htab hnodes) rest

#print axioms wf_of_build
#print axioms roundtrip_of_build

end Daac

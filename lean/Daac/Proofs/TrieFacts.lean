/-
Facts about the pattern-insertion phase (`Daac/Model/Trie.lean`):
lookup algebra of `Kids`, characterisation of `Trie.insert`, validation theorem for `buildTrie`,
retained set under leftmost-first, node set, and state count.
-/
import Daac.Model.Trie
namespace Daac

variable {V : Type}

/-! ## A. Lookup algebra of `Kids` -/

theorem Kids.find?_set_self : (k : Kids V) → (c : Nat) → (t : Trie V) →
    (k.set c t).find? c = some t
  | .nil, c, t => by simp [Kids.set, Kids.find?]
  | .cons l t' r, c, t => by
    have ih := Kids.find?_set_self r c t
    unfold Kids.set
    split
    · simp [Kids.find?]
    · split
      · subst_vars; simp [Kids.find?]
      · rename_i h1 h2
        have : l ≠ c := fun h => h2 h.symm
        simp [Kids.find?, this, ih]

theorem Kids.find?_set_ne : (k : Kids V) → (c c' : Nat) → (t : Trie V) → c' ≠ c →
    (k.set c t).find? c' = k.find? c'
  | .nil, c, c', t, h => by
    have : c ≠ c' := fun e => h e.symm
    simp [Kids.set, Kids.find?, this]
  | .cons l t' r, c, c', t, h => by
    have ih := Kids.find?_set_ne r c c' t h
    have hc : c ≠ c' := fun e => h e.symm
    unfold Kids.set
    split
    · simp [Kids.find?, hc]
    · split
      · subst_vars; simp [Kids.find?, hc]
      · simp [Kids.find?, ih]

/-! ## B. `Trie.walk`, `Trie.outAt`, and the effect of `Trie.insert` -/

/-- Output stored at the node reached by `u` (none if there is no such node). -/
def Trie.outAt (t : Trie V) (u : List Nat) : Option (V × Nat) := (t.walk u).bind Trie.out

theorem Trie.isRegistered_eq_outAt (t : Trie V) (u : List Nat) :
    t.isRegistered u = (t.outAt u).isSome := by
  unfold Trie.isRegistered Trie.outAt
  cases t.walk u <;> simp

@[simp] theorem Trie.walk_nil (t : Trie V) : t.walk [] = some t := by
  cases t; simp [Trie.walk]

theorem Trie.walk_cons (out : Option (V × Nat)) (kids : Kids V) (c : Nat) (us : List Nat) :
    (Trie.node out kids).walk (c :: us) = (kids.find? c).bind (·.walk us) := by
  simp only [Trie.walk]
  cases kids.find? c <;> simp

theorem Trie.walk_empty_cons (c : Nat) (us : List Nat) :
    (Trie.empty : Trie V).walk (c :: us) = none := by
  simp [Trie.empty, Trie.walk_cons, Kids.find?]

theorem Trie.walk_empty_isSome (u : List Nat) :
    ((Trie.empty : Trie V).walk u).isSome ↔ u = [] := by
  cases u with
  | nil => simp
  | cons c us => simp [Trie.walk_empty_cons]

@[simp] theorem Trie.outAt_nil (t : Trie V) : t.outAt [] = t.out := by
  simp [Trie.outAt]

@[simp] theorem Trie.outAt_empty (u : List Nat) : (Trie.empty : Trie V).outAt u = none := by
  cases u with
  | nil => simp [Trie.empty, Trie.out]
  | cons c us => simp [Trie.outAt, Trie.walk_empty_cons]

theorem Trie.outAt_cons (out : Option (V × Nat)) (kids : Kids V) (c : Nat) (us : List Nat) :
    (Trie.node out kids).outAt (c :: us) = ((kids.find? c).getD Trie.empty).outAt us := by
  cases h : kids.find? c with
  | none => simp [Trie.outAt_empty]; simp [Trie.outAt, Trie.walk_cons, h]
  | some x => simp [Trie.outAt, Trie.walk_cons, h]

@[simp] theorem Trie.isRegistered_empty (u : List Nat) :
    (Trie.empty : Trie V).isRegistered u = false := by
  simp [Trie.isRegistered_eq_outAt]

theorem Trie.isRegistered_cons (out : Option (V × Nat)) (kids : Kids V) (c : Nat) (us : List Nat) :
    (Trie.node out kids).isRegistered (c :: us)
      = ((kids.find? c).getD Trie.empty).isRegistered us := by
  simp [Trie.isRegistered_eq_outAt, Trie.outAt_cons]

/-- Node set after a successful insert: old nodes plus the prefixes of the key. -/
theorem Trie.insert_ok_walk (lf : Bool) (o : V × Nat) :
    ∀ (key : List Nat) (t t' : Trie V) (u : List Nat), Trie.insert lf o t key = .ok t' →
      ((t'.walk u).isSome ↔ (t.walk u).isSome ∨ u <+: key) := by
  intro key
  induction key with
  | nil =>
    intro t t' u h
    cases t with
    | node out kids =>
      simp only [Trie.insert] at h
      split at h
      · cases h
      · cases h
        cases u with
        | nil => simp
        | cons c us => simp [Trie.walk_cons]
  | cons c cs ih =>
    intro t t' u h
    cases t with
    | node out kids =>
      simp only [Trie.insert] at h
      split at h
      · cases h
      · split at h
        · rename_i t'' hrec
          cases h
          cases u with
          | nil => simp
          | cons c' us =>
            by_cases hc : c' = c
            · subst hc
              have := ih _ _ us hrec
              simp only [Trie.walk_cons, Kids.find?_set_self, Option.bind_some, this,
                List.cons_prefix_cons, true_and]
              cases hf : kids.find? c' with
              | none =>
                simp only [Option.getD_none, Trie.walk_empty_isSome, Option.bind_none,
                  Option.isSome_none, Bool.false_eq_true, false_or]
                constructor
                · rintro (h | h)
                  · subst h; exact List.nil_prefix
                  · exact h
                · exact Or.inr
              | some x => simp
            · simp [Trie.walk_cons, Kids.find?_set_ne _ _ _ _ hc, hc]
        · cases h
        · cases h

/-- Outputs after a successful insert: `o` at `key`, unchanged elsewhere. -/
theorem Trie.insert_ok_outAt (lf : Bool) (o : V × Nat) :
    ∀ (key : List Nat) (t t' : Trie V) (u : List Nat), Trie.insert lf o t key = .ok t' →
      t'.outAt u = if u = key then some o else t.outAt u := by
  intro key
  induction key with
  | nil =>
    intro t t' u h
    cases t with
    | node out kids =>
      simp only [Trie.insert] at h
      split at h
      · cases h
      · cases h
        cases u with
        | nil => simp [Trie.out]
        | cons c us => simp [Trie.outAt_cons]
  | cons c cs ih =>
    intro t t' u h
    cases t with
    | node out kids =>
      simp only [Trie.insert] at h
      split at h
      · cases h
      · split at h
        · rename_i t'' hrec
          cases h
          cases u with
          | nil => simp [Trie.out]
          | cons c' us =>
            by_cases hc : c' = c
            · subst hc
              have := ih _ _ us hrec
              simp [Trie.outAt_cons, Kids.find?_set_self, this]
            · simp [Trie.outAt_cons, Kids.find?_set_ne _ _ _ _ hc, hc]
        · cases h
        · cases h

theorem Trie.insert_ok_outAt_key (lf : Bool) (o : V × Nat) (key : List Nat) (t t' : Trie V)
    (h : Trie.insert lf o t key = .ok t') : t'.outAt key = some o := by
  simp [Trie.insert_ok_outAt lf o key t t' key h]

theorem Trie.insert_ok_outAt_ne (lf : Bool) (o : V × Nat) (key : List Nat) (t t' : Trie V)
    (u : List Nat) (h : Trie.insert lf o t key = .ok t') (hu : u ≠ key) :
    t'.outAt u = t.outAt u := by
  simp [Trie.insert_ok_outAt lf o key t t' u h, hu]

/-- Registered set after a successful insert. -/
theorem Trie.insert_ok_isRegistered (lf : Bool) (o : V × Nat) (key : List Nat) (t t' : Trie V)
    (u : List Nat) (h : Trie.insert lf o t key = .ok t') :
    t'.isRegistered u = (t.isRegistered u || u == key) := by
  simp only [Trie.isRegistered_eq_outAt, Trie.insert_ok_outAt lf o key t t' u h]
  by_cases hu : u = key <;> simp [hu]

/-- Some proper prefix of `key` is registered in `t`. -/
def Trie.Shadows (t : Trie V) (key : List Nat) : Prop :=
  ∃ v, v <+: key ∧ v ≠ key ∧ t.isRegistered v = true

theorem Trie.not_shadows_nil (t : Trie V) : ¬ t.Shadows [] := by
  rintro ⟨v, hv, hne, _⟩
  exact hne (List.prefix_nil.mp hv)

theorem Trie.isRegistered_nil (out : Option (V × Nat)) (kids : Kids V) :
    (Trie.node out kids).isRegistered [] = out.isSome := by
  simp [Trie.isRegistered_eq_outAt, Trie.out]

theorem Trie.shadows_cons (out : Option (V × Nat)) (kids : Kids V) (c : Nat) (cs : List Nat) :
    (Trie.node out kids).Shadows (c :: cs) ↔
      out.isSome = true ∨ ((kids.find? c).getD Trie.empty).Shadows cs := by
  constructor
  · rintro ⟨v, hv, hne, hr⟩
    cases v with
    | nil => left; simpa [Trie.isRegistered_nil] using hr
    | cons c' vs =>
      right
      rw [List.cons_prefix_cons] at hv
      obtain ⟨rfl, hvs⟩ := hv
      refine ⟨vs, hvs, ?_, ?_⟩
      · intro e; exact hne (by rw [e])
      · simpa [Trie.isRegistered_cons] using hr
  · rintro (h | ⟨v, hv, hne, hr⟩)
    · exact ⟨[], List.nil_prefix, by simp, by simpa [Trie.isRegistered_nil] using h⟩
    · refine ⟨c :: v, ?_, ?_, ?_⟩
      · simpa [List.cons_prefix_cons] using hv
      · simpa using hne
      · simpa [Trie.isRegistered_cons] using hr

theorem Trie.insert_eq_shadowed_iff' (lf : Bool) (o : V × Nat) :
    ∀ (key : List Nat) (t : Trie V),
      Trie.insert lf o t key = .shadowed ↔ (lf = true ∧ t.Shadows key) := by
  intro key
  induction key with
  | nil =>
    intro t
    cases t with
    | node out kids =>
      have := Trie.not_shadows_nil (Trie.node out kids)
      simp only [Trie.insert, this, and_false, iff_false]
      split <;> simp
  | cons c cs ih =>
    intro t
    cases t with
    | node out kids =>
      simp only [Trie.insert, Trie.shadows_cons]
      split
      · rename_i h
        simp only [Bool.and_eq_true] at h
        simp [h.1, h.2]
      · rename_i h
        have ih' := ih ((kids.find? c).getD Trie.empty)
        have h' : ¬ (lf = true ∧ out.isSome = true) := by simpa using h
        split
        · rename_i hrec
          have : ¬ (lf = true ∧ ((kids.find? c).getD Trie.empty).Shadows cs) := by
            rw [← ih', hrec]; simp
          constructor
          · intro e; cases e
          · rintro ⟨h1, h2 | h2⟩
            · exact absurd ⟨h1, h2⟩ h'
            · exact absurd ⟨h1, h2⟩ this
        · rename_i hrec
          have := ih'.mp hrec
          simp [this.1, this.2]
        · rename_i hrec
          have : ¬ (lf = true ∧ ((kids.find? c).getD Trie.empty).Shadows cs) := by
            rw [← ih', hrec]; simp
          constructor
          · intro e; cases e
          · rintro ⟨h1, h2 | h2⟩
            · exact absurd ⟨h1, h2⟩ h'
            · exact absurd ⟨h1, h2⟩ this

/-- `.shadowed` outcome: exactly when leftmost-first and a proper prefix of the key is registered. -/
theorem Trie.insert_eq_shadowed_iff (lf : Bool) (o : V × Nat) (t : Trie V) (key : List Nat) :
    Trie.insert lf o t key = .shadowed ↔
      (lf = true ∧ ∃ v, v <+: key ∧ v ≠ key ∧ t.isRegistered v = true) :=
  Trie.insert_eq_shadowed_iff' lf o key t

theorem Trie.insert_eq_dup_iff' (lf : Bool) (o : V × Nat) :
    ∀ (key : List Nat) (t : Trie V),
      Trie.insert lf o t key = .dup ↔
        (¬ (lf = true ∧ t.Shadows key) ∧ t.isRegistered key = true) := by
  intro key
  induction key with
  | nil =>
    intro t
    cases t with
    | node out kids =>
      have := Trie.not_shadows_nil (Trie.node out kids)
      simp only [Trie.insert, this, and_false, not_false_eq_true, true_and, Trie.isRegistered_nil]
      split <;> simp_all
  | cons c cs ih =>
    intro t
    cases t with
    | node out kids =>
      simp only [Trie.insert, Trie.shadows_cons, Trie.isRegistered_cons]
      split
      · rename_i h
        simp only [Bool.and_eq_true] at h
        simp [h.1, h.2]
      · rename_i h
        have ih' := ih ((kids.find? c).getD Trie.empty)
        have h' : ¬ (lf = true ∧ out.isSome = true) := by simpa using h
        split
        · rename_i hrec
          have : ¬ (¬ (lf = true ∧ ((kids.find? c).getD Trie.empty).Shadows cs) ∧
              ((kids.find? c).getD Trie.empty).isRegistered cs = true) := by
            rw [← ih', hrec]; simp
          constructor
          · intro e; cases e
          · rintro ⟨h1, h2⟩
            exact absurd ⟨fun ⟨a, b⟩ => h1 ⟨a, Or.inr b⟩, h2⟩ this
        · rename_i hrec
          have := (Trie.insert_eq_shadowed_iff' lf o cs _).mp hrec
          simp [this.1, this.2]
        · rename_i hrec
          have := ih'.mp hrec
          refine ⟨fun _ => ⟨?_, this.2⟩, fun _ => rfl⟩
          rintro ⟨h1, h2 | h2⟩
          · exact h' ⟨h1, h2⟩
          · exact this.1 ⟨h1, h2⟩

/-- `.dup` outcome: not shadowed and the key itself is registered. -/
theorem Trie.insert_eq_dup_iff (lf : Bool) (o : V × Nat) (t : Trie V) (key : List Nat) :
    Trie.insert lf o t key = .dup ↔
      (¬ (lf = true ∧ ∃ v, v <+: key ∧ v ≠ key ∧ t.isRegistered v = true) ∧
        t.isRegistered key = true) :=
  Trie.insert_eq_dup_iff' lf o key t

/-- `.ok` outcome: neither shadowed nor already registered. -/
theorem Trie.insert_isOk_iff (lf : Bool) (o : V × Nat) (t : Trie V) (key : List Nat) :
    (∃ t', Trie.insert lf o t key = .ok t') ↔
      (¬ (lf = true ∧ t.Shadows key) ∧ t.isRegistered key = false) := by
  have hs := Trie.insert_eq_shadowed_iff' lf o key t
  have hd := Trie.insert_eq_dup_iff' lf o key t
  cases h : Trie.insert lf o t key with
  | ok t' =>
    rw [h] at hs hd
    have h1 : ¬ (lf = true ∧ t.Shadows key) := fun x => by simpa using hs.mpr x
    have h2 : ¬ (t.isRegistered key = true) := fun x => by simpa using hd.mpr ⟨h1, x⟩
    simp only [Bool.not_eq_true] at h2
    exact ⟨fun _ => ⟨h1, h2⟩, fun _ => ⟨t', rfl⟩⟩
  | shadowed =>
    rw [h] at hs
    have := hs.mp rfl
    constructor
    · rintro ⟨t', e⟩; cases e
    · rintro ⟨h1, _⟩; exact absurd this h1
  | dup =>
    rw [h] at hd
    have := hd.mp rfl
    constructor
    · rintro ⟨t', e⟩; cases e
    · rintro ⟨_, h2⟩; simp [this.2] at h2

/-! ## Retained keys (key-level mirror of `Daac.retained`) -/

theorem properPrefix_iff_length {α : Type} (v k : List α) :
    (v <+: k ∧ v ≠ k) ↔ (v <+: k ∧ v.length < k.length) := by
  constructor
  · rintro ⟨h, hne⟩
    refine ⟨h, ?_⟩
    have := h.length_le
    rcases Nat.lt_or_ge v.length k.length with hl | hl
    · exact hl
    · exact absurd (h.eq_of_length (by omega)) hne
  · rintro ⟨h, hl⟩
    refine ⟨h, ?_⟩
    intro e; subst e; omega

theorem properPrefix_trans {α : Type} {v q k : List α}
    (h1 : v <+: q ∧ v ≠ q) (h2 : q <+: k) : v <+: k ∧ v ≠ k := by
  rw [properPrefix_iff_length] at h1 ⊢
  have := h2.length_le
  exact ⟨h1.1.trans h2, by omega⟩

/-- Keys without an earlier proper prefix (`earlier` = keys already seen), order preserved. -/
def retKeysGo : List (List Nat) → List (List Nat) → List (List Nat)
  | _, [] => []
  | earlier, k :: ks =>
    if earlier.any (fun q => decide (q <+: k ∧ q ≠ k)) then retKeysGo (earlier ++ [k]) ks
    else k :: retKeysGo (earlier ++ [k]) ks

def retKeys (ks : List (List Nat)) : List (List Nat) := retKeysGo [] ks

/-- Keys registered by the builder: the retained ones under leftmost-first, all otherwise. -/
def retainedKeys (lf : Bool) (ks : List (List Nat)) : List (List Nat) :=
  if lf then retKeys ks else ks

theorem retKeysGo_snoc (e ks : List (List Nat)) (k : List Nat) :
    retKeysGo e (ks ++ [k]) =
      retKeysGo e ks ++
        (if (e ++ ks).any (fun q => decide (q <+: k ∧ q ≠ k)) then [] else [k]) := by
  induction ks generalizing e with
  | nil => simp [retKeysGo]
  | cons k' ks ih =>
    simp only [List.cons_append, retKeysGo]
    have := ih (e ++ [k'])
    simp only [List.append_assoc, List.cons_append, List.nil_append] at this
    split <;> simp [this]

/-- `retKeysGo` mirrors `Daac.retainedGo` of the specification. -/
theorem retainedGo_map_key (e P : List (Pat V)) :
    (retainedGo e P).map (·.key) = retKeysGo (e.map (·.key)) (P.map (·.key)) := by
  induction P generalizing e with
  | nil => simp [retainedGo, retKeysGo]
  | cons p ps ih =>
    simp only [retainedGo, List.map_cons, retKeysGo, List.any_map]
    have := ih (e ++ [p])
    simp only [List.map_append, List.map_cons, List.map_nil] at this
    have hc : (e.any fun q => decide (q.key <+: p.key ∧ q.key ≠ p.key)) =
        (e.any ((fun q => decide (q <+: p.key ∧ q ≠ p.key)) ∘ fun x => x.key)) := rfl
    rw [← hc]
    split <;> simp [this]

theorem retKeys_snoc (ks : List (List Nat)) (k : List Nat) :
    retKeys (ks ++ [k]) =
      retKeys ks ++ (if ks.any (fun q => decide (q <+: k ∧ q ≠ k)) then [] else [k]) := by
  simpa [retKeys] using retKeysGo_snoc [] ks k

theorem retained_map_key (P : List (Pat V)) :
    (retained P).map (·.key) = retKeys (P.map (·.key)) := by
  simpa [retained, retKeys] using retainedGo_map_key [] P

/-- Key `k` is retained iff it occurs at some position with no earlier proper prefix. -/
theorem mem_retKeysGo (e ks : List (List Nat)) (k : List Nat) :
    k ∈ retKeysGo e ks ↔
      ∃ i, ∃ h : i < ks.length, ks[i] = k ∧ ∀ q ∈ e ++ ks.take i, ¬ (q <+: k ∧ q ≠ k) := by
  induction ks generalizing e with
  | nil => simp [retKeysGo]
  | cons k' ks ih =>
    have ih' := ih (e ++ [k'])
    have key : (∃ i, ∃ h : i < (k' :: ks).length, (k' :: ks)[i] = k ∧
          ∀ q ∈ e ++ (k' :: ks).take i, ¬ (q <+: k ∧ q ≠ k)) ↔
        ((k' = k ∧ ∀ q ∈ e, ¬ (q <+: k ∧ q ≠ k)) ∨
          ∃ i, ∃ h : i < ks.length, ks[i] = k ∧
            ∀ q ∈ (e ++ [k']) ++ ks.take i, ¬ (q <+: k ∧ q ≠ k)) := by
      constructor
      · rintro ⟨i, h, h1, h2⟩
        cases i with
        | zero => left; exact ⟨by simpa using h1, by simpa using h2⟩
        | succ i =>
          right
          refine ⟨i, by simpa using h, by simpa using h1, ?_⟩
          simpa using h2
      · rintro (⟨h1, h2⟩ | ⟨i, h, h1, h2⟩)
        · exact ⟨0, by simp, by simpa using h1, by simpa using h2⟩
        · exact ⟨i + 1, by simpa using h, by simpa using h1, by simpa using h2⟩
    rw [key, ← ih']
    simp only [retKeysGo]
    split
    · rename_i hany
      simp only [List.any_eq_true, decide_eq_true_eq] at hany
      obtain ⟨q, hq, hpp⟩ := hany
      constructor
      · exact Or.inr
      · rintro (⟨rfl, h2⟩ | h)
        · exact absurd hpp (h2 q hq)
        · exact h
    · rename_i hany
      simp only [List.any_eq_true, decide_eq_true_eq, not_exists, not_and] at hany
      simp only [List.mem_cons]
      constructor
      · rintro (rfl | h)
        · left; exact ⟨rfl, fun q hq hpp => hany q hq hpp.1 hpp.2⟩
        · exact Or.inr h
      · rintro (⟨rfl, _⟩ | h)
        · exact Or.inl rfl
        · exact Or.inr h

theorem mem_retKeys (ks : List (List Nat)) (k : List Nat) :
    k ∈ retKeys ks ↔
      ∃ i, ∃ h : i < ks.length, ks[i] = k ∧ ∀ q ∈ ks.take i, ¬ (q <+: k ∧ q ≠ k) := by
  simpa [retKeys] using mem_retKeysGo [] ks k

theorem mem_nprefixes {α : Type} (k u : List α) : u ∈ nprefixes k ↔ (u ≠ [] ∧ u <+: k) := by
  induction k generalizing u with
  | nil => simp [nprefixes]
  | cons a l ih =>
    simp only [nprefixes, List.mem_cons, List.mem_map, ih]
    constructor
    · rintro (rfl | ⟨w, ⟨_, hw⟩, rfl⟩)
      · simp
      · simpa using hw
    · rintro ⟨hne, hp⟩
      cases u with
      | nil => exact absurd rfl hne
      | cons b w =>
        rw [List.cons_prefix_cons] at hp
        obtain ⟨rfl, hw⟩ := hp
        by_cases hw0 : w = []
        · left; rw [hw0]
        · right; exact ⟨w, ⟨hw0, hw⟩, rfl⟩

/-! ## C. The fold invariant and the validation theorem -/

/-- Every real input satisfies this: `blen` is the byte length of the key. -/
def keysOk (P : List (LPat V)) : Prop := ∀ p ∈ P, (p.blen = 0 ↔ p.key = [])

/-- Invariant of the builder state after the patterns `seen` have been added. -/
structure AccInv (lf : Bool) (a : NfaAcc V) (seen : List (LPat V)) : Prop where
  nodup : (seen.map (·.key)).Nodup
  keysNe : ∀ p ∈ seen, p.key ≠ []
  cover : ∀ u, u ∈ seen.map (·.key) ↔ (a.trie.isRegistered u = true ∨ u ∈ a.shadowed)
  shadow : ∀ u ∈ a.shadowed, lf = true ∧ a.trie.Shadows u
  len : a.len = (retainedKeys lf (seen.map (·.key))).length
  reg : ∀ u, a.trie.isRegistered u = true ↔ u ∈ retainedKeys lf (seen.map (·.key))
  nodes : ∀ u, (a.trie.walk u).isSome ↔
    (u = [] ∨ ∃ k, a.trie.isRegistered k = true ∧ u <+: k)
  outs : ∀ u o, a.trie.outAt u = some o → ∃ p ∈ seen, p.key = u ∧ o = (p.value, p.blen)

theorem AccInv.init (lf : Bool) : AccInv lf (NfaAcc.init : NfaAcc V) [] := by
  refine ⟨by simp, by simp, ?_, ?_, ?_, ?_, ?_, ?_⟩
  · intro u; simp [NfaAcc.init]
  · intro u hu; simp [NfaAcc.init] at hu
  · cases lf <;> simp [NfaAcc.init, retainedKeys, retKeys, retKeysGo]
  · intro u; cases lf <;> simp [NfaAcc.init, retainedKeys, retKeys, retKeysGo]
  · intro u; simp [NfaAcc.init, Trie.walk_empty_isSome]
  · intro u o; simp [NfaAcc.init]

/-- Under the invariant, an earlier key that is a proper prefix of `k` yields a registered one. -/
theorem AccInv.shadows_of_earlier {lf : Bool} {a : NfaAcc V} {seen : List (LPat V)}
    (inv : AccInv lf a seen) {q k : List Nat} (hq : q ∈ seen.map (·.key))
    (hpp : q <+: k ∧ q ≠ k) : a.trie.Shadows k := by
  rcases (inv.cover q).mp hq with hr | hs
  · exact ⟨q, hpp.1, hpp.2, hr⟩
  · obtain ⟨_, v, hv, hne, hr⟩ := inv.shadow q hs
    have := properPrefix_trans ⟨hv, hne⟩ hpp.1
    exact ⟨v, this.1, this.2, hr⟩

theorem AccInv.step_ok {lf : Bool} {a : NfaAcc V} {seen : List (LPat V)} {p : LPat V}
    {t : Trie V} (inv : AccInv lf a seen) (hne : p.key ≠ [])
    (h : a.trie.insert lf (p.value, p.blen) p.key = .ok t) :
    AccInv lf { a with trie := t, len := a.len + 1 } (seen ++ [p]) := by
  have hreg : ∀ u, t.isRegistered u = true ↔ (a.trie.isRegistered u = true ∨ u = p.key) := by
    intro u; simp [Trie.insert_ok_isRegistered lf _ _ _ _ u h]
  obtain ⟨hns, hnr⟩ := (Trie.insert_isOk_iff lf _ a.trie p.key).mp ⟨t, h⟩
  have hnew : p.key ∉ seen.map (·.key) := by
    intro hin
    rcases (inv.cover _).mp hin with hr | hs
    · simp [hnr] at hr
    · exact hns (inv.shadow _ hs)
  have hmap : (seen ++ [p]).map (·.key) = seen.map (·.key) ++ [p.key] := by simp
  have hret : retainedKeys lf ((seen ++ [p]).map (·.key))
      = retainedKeys lf (seen.map (·.key)) ++ [p.key] := by
    rw [hmap]
    cases lf with
    | false => simp [retainedKeys]
    | true =>
      have : (seen.map (·.key)).any (fun q => decide (q <+: p.key ∧ q ≠ p.key)) = false := by
        rw [Bool.eq_false_iff]
        intro hany
        simp only [List.any_eq_true, decide_eq_true_eq] at hany
        obtain ⟨q, hq, hpp⟩ := hany
        exact hns ⟨rfl, inv.shadows_of_earlier hq hpp⟩
      simp only [retainedKeys, if_true]
      rw [retKeys_snoc, this]
      simp
  refine ⟨?_, ?_, ?_, ?_, ?_, ?_, ?_, ?_⟩
  · simp only [List.map_append, List.map_cons, List.map_nil]
    rw [List.nodup_append]
    refine ⟨inv.nodup, by simp, ?_⟩
    intro x hx y hy
    simp only [List.mem_singleton] at hy
    subst hy
    intro e; subst e; exact hnew hx
  · intro q hq
    rcases List.mem_append.mp hq with hq | hq
    · exact inv.keysNe q hq
    · simp only [List.mem_singleton] at hq; subst hq; exact hne
  · intro u
    simp only [List.map_append, List.map_cons, List.map_nil, List.mem_append, List.mem_singleton,
      hreg, inv.cover u]
    constructor
    · rintro ((h1 | h1) | h1)
      · exact Or.inl (Or.inl h1)
      · exact Or.inr h1
      · exact Or.inl (Or.inr h1)
    · rintro ((h1 | h1) | h1)
      · exact Or.inl (Or.inl h1)
      · exact Or.inr h1
      · exact Or.inl (Or.inr h1)
  · intro u hu
    obtain ⟨hl, v, hv, hvne, hr⟩ := inv.shadow u hu
    exact ⟨hl, v, hv, hvne, (hreg v).mpr (Or.inl hr)⟩
  · show a.len + 1 = _
    rw [hret, inv.len]; simp
  · intro u
    simp only [hreg, hret, List.mem_append, List.mem_singleton, inv.reg u]
  · intro u
    simp only [Trie.insert_ok_walk lf _ _ _ _ u h, inv.nodes u, hreg]
    constructor
    · rintro ((h1 | ⟨k, hk, hu⟩) | h1)
      · exact Or.inl h1
      · exact Or.inr ⟨k, Or.inl hk, hu⟩
      · exact Or.inr ⟨p.key, Or.inr rfl, h1⟩
    · rintro (h1 | ⟨k, hk | hk, hu⟩)
      · exact Or.inl (Or.inl h1)
      · exact Or.inl (Or.inr ⟨k, hk, hu⟩)
      · subst hk; exact Or.inr hu
  · intro u o' ho
    simp only [Trie.insert_ok_outAt lf _ _ _ _ u h] at ho
    split at ho
    · rename_i hu
      cases ho
      exact ⟨p, by simp, hu.symm, rfl⟩
    · obtain ⟨q, hq, hq1, hq2⟩ := inv.outs u o' ho
      exact ⟨q, by simp [hq], hq1, hq2⟩

theorem AccInv.step_shadowed {lf : Bool} {a : NfaAcc V} {seen : List (LPat V)} {p : LPat V}
    (inv : AccInv lf a seen) (hne : p.key ≠ [])
    (h : a.trie.insert lf (p.value, p.blen) p.key = .shadowed)
    (hnr : a.trie.isRegistered p.key = false) (hnc : p.key ∉ a.shadowed) :
    AccInv lf { a with shadowed := p.key :: a.shadowed } (seen ++ [p]) := by
  obtain ⟨hl, hsh⟩ := (Trie.insert_eq_shadowed_iff' lf _ p.key a.trie).mp h
  subst hl
  have hnew : p.key ∉ seen.map (·.key) := by
    intro hin
    rcases (inv.cover _).mp hin with hr | hs
    · simp [hnr] at hr
    · exact hnc hs
  have hmap : (seen ++ [p]).map (·.key) = seen.map (·.key) ++ [p.key] := by simp
  have hret : retainedKeys true ((seen ++ [p]).map (·.key))
      = retainedKeys true (seen.map (·.key)) := by
    rw [hmap]
    have : (seen.map (·.key)).any (fun q => decide (q <+: p.key ∧ q ≠ p.key)) = true := by
      obtain ⟨v, hv, hvne, hr⟩ := hsh
      simp only [List.any_eq_true, decide_eq_true_eq]
      exact ⟨v, (inv.cover v).mpr (Or.inl hr), hv, hvne⟩
    simp only [retainedKeys, if_true]
    rw [retKeys_snoc, this]
    simp
  refine ⟨?_, ?_, ?_, ?_, ?_, ?_, ?_, ?_⟩
  · simp only [List.map_append, List.map_cons, List.map_nil]
    rw [List.nodup_append]
    refine ⟨inv.nodup, by simp, ?_⟩
    intro x hx y hy
    simp only [List.mem_singleton] at hy
    subst hy
    intro e; subst e; exact hnew hx
  · intro q hq
    rcases List.mem_append.mp hq with hq | hq
    · exact inv.keysNe q hq
    · simp only [List.mem_singleton] at hq; subst hq; exact hne
  · intro u
    simp only [List.map_append, List.map_cons, List.map_nil, List.mem_append,
      List.mem_cons, List.not_mem_nil, or_false, inv.cover u]
    constructor
    · rintro ((h1 | h1) | h1)
      · exact Or.inl h1
      · exact Or.inr (Or.inr h1)
      · exact Or.inr (Or.inl h1)
    · rintro (h1 | h1 | h1)
      · exact Or.inl (Or.inl h1)
      · exact Or.inr h1
      · exact Or.inl (Or.inr h1)
  · intro u hu
    rcases List.mem_cons.mp hu with hu | hu
    · subst hu; exact ⟨rfl, hsh⟩
    · exact inv.shadow u hu
  · simp only [hret]; exact inv.len
  · intro u; simp only [hret]; exact inv.reg u
  · exact inv.nodes
  · intro u o' ho
    obtain ⟨q, hq, hq1, hq2⟩ := inv.outs u o' ho
    exact ⟨q, by simp [hq], hq1, hq2⟩

/-- One call of `add`: it either succeeds and keeps the invariant, or fails with a documented
error that names a defect of the new pattern. -/
theorem NfaAcc.add_spec {lf : Bool} {a : NfaAcc V} {seen : List (LPat V)} (p : LPat V)
    (inv : AccInv lf a seen) (hk : p.blen = 0 ↔ p.key = []) :
    (∃ a', a.add lf p = .ok a' ∧ AccInv lf a' (seen ++ [p])) ∨
    (a.add lf p = .error .invalidArgument ∧ p.key = []) ∨
    (a.add lf p = .error .duplicatePattern ∧ p.key ∈ seen.map (·.key)) := by
  unfold NfaAcc.add
  by_cases hb : p.blen = 0
  · right; left; exact ⟨by simp [hb], hk.mp hb⟩
  · have hne : p.key ≠ [] := fun e => hb (hk.mpr e)
    simp only [hb, if_false]
    cases h : a.trie.insert lf (p.value, p.blen) p.key with
    | ok t => left; exact ⟨_, rfl, inv.step_ok hne h⟩
    | dup =>
      right; right
      refine ⟨rfl, ?_⟩
      have := (Trie.insert_eq_dup_iff' lf _ p.key a.trie).mp h
      exact (inv.cover _).mpr (Or.inl this.2)
    | shadowed =>
      by_cases hc : (a.trie.isRegistered p.key || a.shadowed.contains p.key) = true
      · right; right
        refine ⟨by simp only [hc, if_true], ?_⟩
        simp only [Bool.or_eq_true, List.contains_iff_mem] at hc
        exact (inv.cover _).mpr hc
      · left
        refine ⟨_, by simp only [hc]; rfl, ?_⟩
        simp only [Bool.or_eq_true, List.contains_iff_mem, not_or, Bool.not_eq_true] at hc
        exact inv.step_shadowed hne h hc.1 hc.2

/-- The whole fold. -/
theorem NfaAcc.addAll_spec {lf : Bool} (ps : List (LPat V)) :
    ∀ {a : NfaAcc V} {seen : List (LPat V)}, AccInv lf a seen → keysOk ps →
    (∃ a', a.addAll lf ps = .ok a' ∧ AccInv lf a' (seen ++ ps)) ∨
    (a.addAll lf ps = .error .invalidArgument ∧ ∃ p ∈ ps, p.key = []) ∨
    (a.addAll lf ps = .error .duplicatePattern ∧ ¬ ((seen ++ ps).map (·.key)).Nodup) := by
  induction ps with
  | nil =>
    intro a seen inv _
    left; exact ⟨a, rfl, by simpa using inv⟩
  | cons p ps ih =>
    intro a seen inv hk
    have hkp := hk p (by simp)
    have hkps : keysOk ps := fun q hq => hk q (by simp [hq])
    simp only [NfaAcc.addAll]
    rcases NfaAcc.add_spec p inv hkp with ⟨a', h1, inv'⟩ | ⟨h1, h2⟩ | ⟨h1, h2⟩
    · simp only [h1]
      rcases ih inv' hkps with ⟨a'', h3, inv''⟩ | ⟨h3, q, hq, hq0⟩ | ⟨h3, h4⟩
      · left; exact ⟨a'', h3, by simpa using inv''⟩
      · right; left; exact ⟨h3, q, by simp [hq], hq0⟩
      · right; right; exact ⟨h3, by simpa using h4⟩
    · right; left
      simp only [h1]
      exact ⟨trivial, p, by simp, h2⟩
    · right; right
      simp only [h1]
      refine ⟨trivial, ?_⟩
      intro hnd
      simp only [List.map_append, List.map_cons] at hnd
      rw [List.nodup_append] at hnd
      exact hnd.2.2 _ h2 _ (by simp) rfl

/-- Either `buildTrie` succeeds from a final state satisfying the invariant, or it reports a
documented error naming a defect that is actually present. -/
theorem buildTrie_spec (kind : Nat) (P : List (LPat V)) (h : keysOk P) :
    (∃ a, buildTrie kind P = .ok a.trie ∧ P ≠ [] ∧ AccInv (kind == 2) a P) ∨
    (buildTrie kind P = .error .invalidArgument ∧ (P = [] ∨ ∃ p ∈ P, p.key = [])) ∨
    (buildTrie kind P = .error .duplicatePattern ∧ ¬ (P.map (·.key)).Nodup) := by
  unfold buildTrie
  rcases NfaAcc.addAll_spec P (AccInv.init (kind == 2)) h with ⟨a, h1, inv⟩ | ⟨h1, h2⟩ | ⟨h1, h2⟩
  · simp only [h1, List.nil_append] at inv ⊢
    cases P with
    | nil =>
      right; left
      simp only [NfaAcc.addAll] at h1
      cases h1
      simp [NfaAcc.init]
    | cons p ps =>
      left
      have hpos : a.len ≠ 0 := by
        rw [inv.len]
        cases hkind : (kind == 2) <;>
          simp [retainedKeys, retKeys, retKeysGo]
      exact ⟨a, by simp [hpos], by simp, inv⟩
  · right; left; simp only [h1]; exact ⟨trivial, Or.inr h2⟩
  · right; right; simp only [h1]; exact ⟨trivial, by simpa using h2⟩

/-- Validity of a pattern collection at the `LPat` level (cf. `Daac.ValidPats`). -/
def ValidLPats (P : List (LPat V)) : Prop :=
  P ≠ [] ∧ (∀ p ∈ P, p.key ≠ []) ∧ (P.map (·.key)).Nodup

/-- Construction accepts exactly the valid collections (every match kind). -/
theorem buildTrie_ok_iff (kind : Nat) (P : List (LPat V)) (h : keysOk P) :
    (∃ t, buildTrie kind P = .ok t) ↔
      (P ≠ [] ∧ (∀ p ∈ P, p.key ≠ []) ∧ (P.map (·.key)).Nodup) := by
  rcases buildTrie_spec kind P h with ⟨a, h1, hne, inv⟩ | ⟨h1, h2⟩ | ⟨h1, h2⟩
  · exact ⟨fun _ => ⟨hne, inv.keysNe, inv.nodup⟩, fun _ => ⟨_, h1⟩⟩
  · constructor
    · rintro ⟨t, ht⟩; rw [h1] at ht; cases ht
    · rintro ⟨hne, hk, _⟩
      rcases h2 with h2 | ⟨p, hp, hp0⟩
      · exact absurd h2 hne
      · exact absurd hp0 (hk p hp)
  · constructor
    · rintro ⟨t, ht⟩; rw [h1] at ht; cases ht
    · rintro ⟨_, _, hnd⟩; exact absurd hnd h2

/-- A construction error is one of the two documented kinds and names a defect that is present. -/
theorem buildTrie_err_kind (kind : Nat) (P : List (LPat V)) (h : keysOk P) (e : BuildErr) :
    buildTrie kind P = .error e →
      (e = .invalidArgument ∧ (P = [] ∨ ∃ p ∈ P, p.key = [])) ∨
      (e = .duplicatePattern ∧ ¬ (P.map (·.key)).Nodup) := by
  intro he
  rcases buildTrie_spec kind P h with ⟨a, h1, _, _⟩ | ⟨h1, h2⟩ | ⟨h1, h2⟩
  · rw [h1] at he; cases he
  · rw [h1] at he; cases he; exact Or.inl ⟨rfl, h2⟩
  · rw [h1] at he; cases he; exact Or.inr ⟨rfl, h2⟩

/-! ## D. Registered keys and node set of the built trie -/

/-- Registered keys of a successfully built trie: the retained keys under leftmost-first
(`kind = 2`), all keys otherwise. -/
theorem buildTrie_registered (kind : Nat) (P : List (LPat V)) (h : keysOk P) (t : Trie V)
    (ht : buildTrie kind P = .ok t) (u : List Nat) :
    t.isRegistered u = true ↔ u ∈ retainedKeys (kind == 2) (P.map (·.key)) := by
  rcases buildTrie_spec kind P h with ⟨a, h1, _, inv⟩ | ⟨h1, _⟩ | ⟨h1, _⟩
  · rw [h1] at ht; cases ht; exact inv.reg u
  · rw [h1] at ht; cases ht
  · rw [h1] at ht; cases ht

theorem buildTrie_registered_lf (P : List (LPat V)) (h : keysOk P) (t : Trie V)
    (ht : buildTrie 2 P = .ok t) (u : List Nat) :
    t.isRegistered u = true ↔ u ∈ retKeys (P.map (·.key)) := by
  simpa [retainedKeys] using buildTrie_registered 2 P h t ht u

theorem buildTrie_registered_other (kind : Nat) (hkind : kind ≠ 2) (P : List (LPat V))
    (h : keysOk P) (t : Trie V) (ht : buildTrie kind P = .ok t) (u : List Nat) :
    t.isRegistered u = true ↔ u ∈ P.map (·.key) := by
  have := buildTrie_registered kind P h t ht u
  simpa [retainedKeys, hkind] using this

/-- Node set of a successfully built trie: the root plus the non-empty prefixes of the
registered keys. -/
theorem buildTrie_nodes (kind : Nat) (P : List (LPat V)) (h : keysOk P) (t : Trie V)
    (ht : buildTrie kind P = .ok t) (u : List Nat) :
    (t.walk u).isSome ↔
      (u = [] ∨ ∃ k ∈ retainedKeys (kind == 2) (P.map (·.key)), u ∈ nprefixes k) := by
  rcases buildTrie_spec kind P h with ⟨a, h1, _, inv⟩ | ⟨h1, _⟩ | ⟨h1, _⟩
  · rw [h1] at ht; cases ht
    rw [inv.nodes u]
    constructor
    · rintro (h0 | ⟨k, hk, hu⟩)
      · exact Or.inl h0
      · by_cases h0 : u = []
        · exact Or.inl h0
        · exact Or.inr ⟨k, (inv.reg k).mp hk, (mem_nprefixes k u).mpr ⟨h0, hu⟩⟩
    · rintro (h0 | ⟨k, hk, hu⟩)
      · exact Or.inl h0
      · exact Or.inr ⟨k, (inv.reg k).mpr hk, ((mem_nprefixes k u).mp hu).2⟩
  · rw [h1] at ht; cases ht
  · rw [h1] at ht; cases ht

/-- The output stored at a node of a built trie is the value and byte length of a pattern of the
collection whose key is the path of that node (unique, since keys are distinct). -/
theorem buildTrie_outAt (kind : Nat) (P : List (LPat V)) (h : keysOk P) (t : Trie V)
    (ht : buildTrie kind P = .ok t) (u : List Nat) (o : V × Nat) (ho : t.outAt u = some o) :
    ∃ p ∈ P, p.key = u ∧ o = (p.value, p.blen) := by
  rcases buildTrie_spec kind P h with ⟨a, h1, _, inv⟩ | ⟨h1, _⟩ | ⟨h1, _⟩
  · rw [h1] at ht; cases ht; exact inv.outs u o ho
  · rw [h1] at ht; cases ht
  · rw [h1] at ht; cases ht

/-- The root of a built trie carries no output. -/
theorem buildTrie_registered_nil (kind : Nat) (P : List (LPat V)) (h : keysOk P) (t : Trie V)
    (ht : buildTrie kind P = .ok t) : t.isRegistered [] = false := by
  have hv := (buildTrie_ok_iff kind P h).mp ⟨t, ht⟩
  cases hr : t.isRegistered [] with
  | false => rfl
  | true =>
    have := (buildTrie_registered kind P h t ht []).mp hr
    have hin : [] ∈ P.map (·.key) := by
      cases hk : (kind == 2) with
      | false => simpa [retainedKeys, hk] using this
      | true =>
        rw [hk] at this
        simp only [retainedKeys, if_true] at this
        obtain ⟨i, hi, h1, _⟩ := (mem_retKeys _ _).mp this
        exact h1 ▸ List.getElem_mem hi
    obtain ⟨p, hp, hp0⟩ := List.mem_map.mp hin
    exact absurd hp0 (hv.2.1 p hp)

/-! ## E. Sortedness, `paths` and the state count -/

def Kids.labels : Kids V → List Nat
  | .nil => []
  | .cons l _ r => l :: r.labels

mutual
/-- Children lists are in strictly increasing label order, recursively. -/
def Trie.Sorted : Trie V → Prop
  | .node _ kids => kids.Sorted
def Kids.Sorted : Kids V → Prop
  | .nil => True
  | .cons l t r => t.Sorted ∧ r.Sorted ∧ ∀ l' ∈ r.labels, l < l'
end

theorem Trie.sorted_empty : (Trie.empty : Trie V).Sorted := by
  simp [Trie.empty, Trie.Sorted, Kids.Sorted]

theorem Kids.mem_labels_set : (k : Kids V) → (c : Nat) → (t : Trie V) → (x : Nat) →
    (x ∈ (k.set c t).labels ↔ (x = c ∨ x ∈ k.labels))
  | .nil, c, t, x => by simp [Kids.set, Kids.labels]
  | .cons l t' r, c, t, x => by
    have ih := Kids.mem_labels_set r c t x
    unfold Kids.set
    split
    · simp [Kids.labels]
    · split
      · subst_vars; simp [Kids.labels]
      · simp only [Kids.labels, List.mem_cons, ih]
        constructor
        · rintro (h | h | h)
          · exact Or.inr (Or.inl h)
          · exact Or.inl h
          · exact Or.inr (Or.inr h)
        · rintro (h | h | h)
          · exact Or.inr (Or.inl h)
          · exact Or.inl h
          · exact Or.inr (Or.inr h)

theorem Kids.sorted_set : (k : Kids V) → (c : Nat) → (t : Trie V) → k.Sorted → t.Sorted →
    (k.set c t).Sorted
  | .nil, c, t, _, ht => by simp [Kids.set, Kids.Sorted, Kids.labels, ht]
  | .cons l t' r, c, t, hk, ht => by
    have ih := Kids.sorted_set r c t
    simp only [Kids.Sorted] at hk
    obtain ⟨h1, h2, h3⟩ := hk
    unfold Kids.set
    split
    · rename_i hc
      simp only [Kids.Sorted, Kids.labels, List.mem_cons]
      refine ⟨ht, ⟨h1, h2, h3⟩, ?_⟩
      rintro l' (rfl | h)
      · exact hc
      · exact Nat.lt_trans hc (h3 l' h)
    · split
      · subst_vars
        simp only [Kids.Sorted]
        exact ⟨ht, h2, h3⟩
      · rename_i hc1 hc2
        simp only [Kids.Sorted]
        refine ⟨h1, ih h2 ht, ?_⟩
        intro l' hl'
        rcases (Kids.mem_labels_set r c t l').mp hl' with rfl | h
        · omega
        · exact h3 l' h

theorem Kids.find?_mem_labels : (k : Kids V) → (c : Nat) → (t : Trie V) →
    k.find? c = some t → c ∈ k.labels
  | .nil, c, t, h => by simp [Kids.find?] at h
  | .cons l t' r, c, t, h => by
    simp only [Kids.find?] at h
    simp only [Kids.labels, List.mem_cons]
    split at h
    · rename_i hl; exact Or.inl hl.symm
    · exact Or.inr (Kids.find?_mem_labels r c t h)

theorem Kids.sorted_find? : (k : Kids V) → (c : Nat) → (t : Trie V) → k.Sorted →
    k.find? c = some t → t.Sorted
  | .nil, c, t, _, h => by simp [Kids.find?] at h
  | .cons l t' r, c, t, hk, h => by
    simp only [Kids.Sorted] at hk
    simp only [Kids.find?] at h
    split at h
    · cases h; exact hk.1
    · exact Kids.sorted_find? r c t hk.2.1 h

/-- `insert` keeps children in strictly increasing label order. -/
theorem Trie.sorted_insert (lf : Bool) (o : V × Nat) :
    ∀ (key : List Nat) (t t' : Trie V), t.Sorted → Trie.insert lf o t key = .ok t' → t'.Sorted := by
  intro key
  induction key with
  | nil =>
    intro t t' hs h
    cases t with
    | node out kids =>
      simp only [Trie.insert] at h
      split at h
      · cases h
      · cases h; simpa [Trie.Sorted] using hs
  | cons c cs ih =>
    intro t t' hs h
    cases t with
    | node out kids =>
      simp only [Trie.insert] at h
      simp only [Trie.Sorted] at hs
      split at h
      · cases h
      · split at h
        · rename_i t'' hrec
          cases h
          have hsub : ((kids.find? c).getD Trie.empty).Sorted := by
            cases hf : kids.find? c with
            | none => exact Trie.sorted_empty
            | some x => exact Kids.sorted_find? kids c x hs hf
          simp only [Trie.Sorted]
          exact Kids.sorted_set kids c t'' hs (ih _ _ hsub hrec)
        · cases h
        · cases h

mutual
theorem Trie.size_eq_length_paths : (t : Trie V) → (pre : List Nat) →
    t.size = (t.paths pre).length
  | .node _ k, pre => by
    simp [Trie.size, Trie.paths, Kids.size_eq_length_paths k pre]; omega
theorem Kids.size_eq_length_paths : (k : Kids V) → (pre : List Nat) →
    k.size = (k.paths pre).length
  | .nil, _ => by simp [Kids.size, Kids.paths]
  | .cons l t r, pre => by
    simp [Kids.size, Kids.paths, Trie.size_eq_length_paths t (pre ++ [l]),
      Kids.size_eq_length_paths r pre]
end

theorem Trie.walk_cons_isSome (out : Option (V × Nat)) (kids : Kids V) (c : Nat) (w : List Nat) :
    ((Trie.node out kids).walk (c :: w)).isSome ↔
      ∃ t, kids.find? c = some t ∧ (t.walk w).isSome := by
  rw [Trie.walk_cons]
  cases kids.find? c <;> simp

mutual
theorem Trie.mem_paths : (t : Trie V) → t.Sorted → ∀ (pre u : List Nat),
    (u ∈ t.paths pre ↔ ∃ w, u = pre ++ w ∧ (t.walk w).isSome)
  | .node out k, hs, pre, u => by
    simp only [Trie.Sorted] at hs
    simp only [Trie.paths, List.mem_cons, Kids.mem_paths k hs pre u]
    constructor
    · rintro (rfl | ⟨c, w, t, rfl, hf, hw⟩)
      · exact ⟨[], by simp, by simp⟩
      · exact ⟨c :: w, rfl, (Trie.walk_cons_isSome out k c w).mpr ⟨t, hf, hw⟩⟩
    · rintro ⟨w, rfl, hw⟩
      cases w with
      | nil => left; simp
      | cons c w =>
        obtain ⟨t, hf, hw⟩ := (Trie.walk_cons_isSome out k c w).mp hw
        exact Or.inr ⟨c, w, t, rfl, hf, hw⟩
theorem Kids.mem_paths : (k : Kids V) → k.Sorted → ∀ (pre u : List Nat),
    (u ∈ k.paths pre ↔
      ∃ c w t, u = pre ++ c :: w ∧ k.find? c = some t ∧ (t.walk w).isSome)
  | .nil, _, pre, u => by simp [Kids.paths, Kids.find?]
  | .cons l t r, hs, pre, u => by
    simp only [Kids.Sorted] at hs
    obtain ⟨h1, h2, h3⟩ := hs
    simp only [Kids.paths, List.mem_append, Trie.mem_paths t h1 (pre ++ [l]) u,
      Kids.mem_paths r h2 pre u, Kids.find?]
    constructor
    · rintro (⟨w, rfl, hw⟩ | ⟨c, w, t', rfl, hf, hw⟩)
      · exact ⟨l, w, t, by simp, by simp, hw⟩
      · have hlt := h3 c (Kids.find?_mem_labels r c t' hf)
        have : l ≠ c := by omega
        exact ⟨c, w, t', rfl, by simp [this, hf], hw⟩
    · rintro ⟨c, w, t', rfl, hf, hw⟩
      split at hf
      · rename_i hl
        cases hf; subst hl
        exact Or.inl ⟨w, by simp, hw⟩
      · exact Or.inr ⟨c, w, t', rfl, hf, hw⟩
end

mutual
theorem Trie.nodup_paths : (t : Trie V) → t.Sorted → ∀ (pre : List Nat), (t.paths pre).Nodup
  | .node out k, hs, pre => by
    simp only [Trie.Sorted] at hs
    simp only [Trie.paths, List.nodup_cons]
    refine ⟨?_, Kids.nodup_paths k hs pre⟩
    intro hin
    obtain ⟨c, w, t, he, _, _⟩ := (Kids.mem_paths k hs pre pre).mp hin
    have := congrArg List.length he
    simp at this
theorem Kids.nodup_paths : (k : Kids V) → k.Sorted → ∀ (pre : List Nat), (k.paths pre).Nodup
  | .nil, _, pre => by simp [Kids.paths]
  | .cons l t r, hs, pre => by
    simp only [Kids.Sorted] at hs
    obtain ⟨h1, h2, h3⟩ := hs
    simp only [Kids.paths]
    rw [List.nodup_append]
    refine ⟨Trie.nodup_paths t h1 _, Kids.nodup_paths r h2 pre, ?_⟩
    intro x hx y hy hxy
    subst hxy
    obtain ⟨w, rfl, _⟩ := (Trie.mem_paths t h1 _ _).mp hx
    obtain ⟨c, w', t', he, hf, _⟩ := (Kids.mem_paths r h2 _ _).mp hy
    have hlt := h3 c (Kids.find?_mem_labels r c t' hf)
    simp only [List.append_assoc, List.cons_append, List.nil_append, List.append_cancel_left_eq,
      List.cons.injEq] at he
    omega
end

/-- For a sorted trie, `paths []` enumerates exactly the node paths, without repetition, and
`size` counts them. -/
theorem Trie.mem_paths_nil (t : Trie V) (hs : t.Sorted) (u : List Nat) :
    u ∈ t.paths [] ↔ (t.walk u).isSome := by
  rw [Trie.mem_paths t hs [] u]
  simp

theorem Trie.size_eq_of_nodes (t : Trie V) (hs : t.Sorted) (L : List (List Nat)) (hL : L.Nodup)
    (hmem : ∀ u, u ∈ L ↔ (t.walk u).isSome) : t.size = L.length := by
  rw [Trie.size_eq_length_paths t []]
  apply List.Perm.length_eq
  rw [List.perm_ext_iff_of_nodup (Trie.nodup_paths t hs []) hL]
  intro u
  rw [Trie.mem_paths_nil t hs u, hmem u]

theorem NfaAcc.add_sorted {lf : Bool} {a a' : NfaAcc V} {p : LPat V} (hs : a.trie.Sorted)
    (h : a.add lf p = .ok a') : a'.trie.Sorted := by
  unfold NfaAcc.add at h
  split at h
  · cases h
  · split at h
    · rename_i t hins
      cases h
      exact Trie.sorted_insert lf _ _ _ _ hs hins
    · cases h
    · split at h
      · cases h
      · cases h; exact hs

theorem NfaAcc.addAll_sorted {lf : Bool} (ps : List (LPat V)) :
    ∀ {a a' : NfaAcc V}, a.trie.Sorted → a.addAll lf ps = .ok a' → a'.trie.Sorted := by
  induction ps with
  | nil => intro a a' hs h; simp only [NfaAcc.addAll] at h; cases h; exact hs
  | cons p ps ih =>
    intro a a' hs h
    simp only [NfaAcc.addAll] at h
    split at h
    · cases h
    · rename_i a1 h1
      exact ih (NfaAcc.add_sorted hs h1) h

theorem buildTrie_sorted (kind : Nat) (P : List (LPat V)) (t : Trie V)
    (ht : buildTrie kind P = .ok t) : t.Sorted := by
  unfold buildTrie at ht
  split at ht
  · cases ht
  · rename_i a h1
    split at ht
    · cases ht
    · cases ht
      exact NfaAcc.addAll_sorted P Trie.sorted_empty h1

/-- The built trie: `paths []` lists its nodes exactly once each, `size` counts them, and they are
the root plus the non-empty prefixes of the registered (retained) keys. -/
theorem buildTrie_paths (kind : Nat) (P : List (LPat V)) (h : keysOk P) (t : Trie V)
    (ht : buildTrie kind P = .ok t) :
    t.size = (t.paths []).length ∧ (t.paths []).Nodup ∧
    ∀ u, u ∈ t.paths [] ↔
      (u = [] ∨ ∃ k ∈ retainedKeys (kind == 2) (P.map (·.key)), u ∈ nprefixes k) := by
  have hs := buildTrie_sorted kind P t ht
  refine ⟨Trie.size_eq_length_paths t [], Trie.nodup_paths t hs [], ?_⟩
  intro u
  rw [Trie.mem_paths_nil t hs u, buildTrie_nodes kind P h t ht u]

/-- State count: the number of nodes is one more than the number of distinct non-empty prefixes of
the registered keys (`L` is any duplicate-free enumeration of those prefixes). -/
theorem buildTrie_size (kind : Nat) (P : List (LPat V)) (h : keysOk P) (t : Trie V)
    (ht : buildTrie kind P = .ok t) (L : List (List Nat)) (hL : L.Nodup)
    (hmem : ∀ u, u ∈ L ↔ ∃ k ∈ retainedKeys (kind == 2) (P.map (·.key)), u ∈ nprefixes k) :
    t.size = 1 + L.length := by
  have hs := buildTrie_sorted kind P t ht
  have hnil : [] ∉ L := by
    intro hin
    obtain ⟨k, _, hk⟩ := (hmem []).mp hin
    exact ((mem_nprefixes k []).mp hk).1 rfl
  have := Trie.size_eq_of_nodes t hs ([] :: L) (List.nodup_cons.mpr ⟨hnil, hL⟩) (by
    intro u
    rw [buildTrie_nodes kind P h t ht u, List.mem_cons, hmem u])
  rw [this]; simp; omega

end Daac

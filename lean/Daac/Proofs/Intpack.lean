/-
`U24nU8` (src/intpack.rs): the two fields do not disturb each other, and every packed word of a
state fits 32 bits.
-/
import Daac.Model.Intpack
namespace Daac.U24nU8

theorem shift_eq : Gen.packShift = 8 := rfl
theorem mask_eq : Gen.packMask = 2 ^ 8 - 1 := rfl

theorem pack_eq (a' b' : Nat) (hb : b' < 256) : pack a' b' = a' * 256 + b' := by
  unfold pack
  rw [shift_eq, ← Nat.shiftLeft_add_eq_or_of_lt (by simpa using hb), Nat.shiftLeft_eq]

theorem a_pack (a' b' : Nat) (hb : b' < 256) : a (pack a' b') = a' := by
  rw [pack_eq a' b' hb]; unfold a; rw [shift_eq, Nat.shiftRight_eq_div_pow]; omega

theorem b_pack (a' b' : Nat) (hb : b' < 256) : b (pack a' b') = b' := by
  rw [pack_eq a' b' hb]; unfold b; rw [mask_eq, Nat.and_two_pow_sub_one_eq_mod]; omega

theorem b_lt (x : Nat) : b x < 256 := by
  unfold b; rw [mask_eq, Nat.and_two_pow_sub_one_eq_mod]; omega

/-- `set_a` stores the new 24-bit field and keeps the 8-bit one. -/
theorem setA_spec (x a' : Nat) : a (setA x a') = a' ∧ b (setA x a') = b x :=
  ⟨a_pack a' (b x) (b_lt x), b_pack a' (b x) (b_lt x)⟩

/-- `set_b` stores the new 8-bit field and keeps the 24-bit one. -/
theorem setB_spec (x b' : Nat) (hb : b' < 256) : b (setB x b') = b' ∧ a (setB x b') = a x :=
  ⟨b_pack (a x) b' hb, a_pack (a x) b' hb⟩

/-- a packed word with a 24-bit `a` fits `u32`. -/
theorem pack_lt (a' b' : Nat) (ha : a' ≤ Gen.u24Max) (hb : b' < 256) : pack a' b' < 2 ^ 32 := by
  rw [pack_eq a' b' hb]
  have : Gen.u24Max = 16777215 := rfl
  omega

/-- every word decomposes into its two fields -/
theorem pack_a_b (x : Nat) : pack (a x) (b x) = x := by
  rw [pack_eq _ _ (b_lt x)]; unfold a b
  rw [shift_eq, mask_eq, Nat.shiftRight_eq_div_pow, Nat.and_two_pow_sub_one_eq_mod]; omega

end Daac.U24nU8

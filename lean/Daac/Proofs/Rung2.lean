/-
Rung 2, end to end: a double array returned by the construction pipeline `buildDA` has the
Rung-1 table semantics (`StdSem` / `LmSem`), hence its iterators return the byte-level
specification.
-/
import Daac.Proofs.LayoutB
import Daac.Proofs.LayoutC
import Daac.Proofs.MapperFacts
import Daac.Proofs.LayoutSem
import Daac.Proofs.BuildCor
import Daac.Proofs.StdIter
import Daac.Proofs.LmIter
import Daac.Proofs.LmAbs
import Daac.Proofs.CharSpec
import Daac.Proofs.SpecProps
namespace Daac
variable {V : Type}

/-! ## 1. Depth bound by pigeonhole -/

/-- An injection of `{0..m-1}` into `{0..n-1}` forces `m ≤ n`. -/
theorem inj_bound (n m : Nat) (f : Nat → Nat) (hlt : ∀ i, i < m → f i < n)
    (hinj : ∀ i j, i < m → j < m → f i = f j → i = j) : m ≤ n := by
  apply Classical.byContradiction
  intro hc
  have hnm : n < m := by omega
  obtain ⟨i, hi, e⟩ := LayB.php_fun n f (fun i hi => hlt i (by omega))
    (fun i j hi hj e => hinj i j (by omega) (by omega) e) (f n) (hlt n hnm)
  have := hinj i n (by omega) hnm e
  omega

/-- Nodes are at most as deep as the number of elements the injective index ranges over. -/
theorem depth_bound {t : Trie V} {idx : List Nat → Nat} {n : Nat}
    (hlt : ∀ u, t.hasNode u = true → idx u < n)
    (hinj : ∀ u w, t.hasNode u = true → t.hasNode w = true → idx u = idx w → u = w) :
    ∀ u, t.hasNode u = true → u.length < n := by
  intro u hu
  have hnode : ∀ k, t.hasNode (u.take k) = true :=
    fun k => Trie.hasNode_of_prefix t (List.take_prefix k u) hu
  have := inj_bound n (u.length + 1) (fun k => idx (u.take k)) (fun k _ => hlt _ (hnode k))
    (by
      intro i j hi hj e
      have h := hinj _ _ (hnode i) (hnode j) e
      have hl := congrArg List.length h
      simp only [List.length_take] at hl
      omega)
  omega

/-! ## 2. From a successful build to the Rung-1 interfaces -/

/-- For the char-wise variant every label is either in the evaluated alphabet or unmapped
(same statement as `labelOk_of_charwise` of Steps.lean, which cannot be imported together with
LayoutSem.lean because both declare `Daac.nil_mem_nodeList`). -/
theorem labelOk_charwise {da : DA V} (hv : da.variant = .charwise) (c : Nat) : LabelOk da c := by
  cases hcc : da.code c with
  | none => exact Or.inr hcc
  | some cc =>
    left
    have hlt : c < da.mapTable.size := by
      unfold DA.code at hcc
      rw [hv] at hcc
      simp only at hcc
      split at hcc
      · next x hx => exact (Array.getElem?_eq_some_iff.1 hx).1
      · cases hcc
    simp only [DA.sigma, hv, List.mem_filter, List.mem_range]
    exact ⟨hlt, by simp [hcc]⟩

/-- A successful build yields a trie and an index under which the double array mirrors the NFA,
with the label and depth side conditions of `stdSem_of_layout` / `lmSem_of_layout`. `P'` is the
list of registered patterns (`P`, or the retained ones for leftmost-first). -/
theorem build_layout (variant : Variant) (cfg : Cfg) (P P' : List (LPat V)) (da : DA V)
    (hb : buildDA variant cfg P = .ok da)
    (hS : ∀ t, buildTrie cfg.kind P = .ok t → TrieSem t P')
    (hsub : ∀ p ∈ P', p ∈ P)
    (hlabels : variant = .bytewise → ∀ p ∈ P, ∀ c ∈ p.key, c < 256) :
    ∃ t idx, TrieSem t P' ∧ t.Sorted ∧ LayoutSem da t (buildNfa t (cfg.kind != 0)) idx ∧
      (∀ u, t.hasNode u = true → ∀ c ∈ u, LabelOk da c) ∧
      (∀ u, t.hasNode u = true → u.length < da.states.size) := by
  obtain ⟨_, acc, _, _, ht, hr⟩ := buildDA_ok_decomp variant cfg P da hb
  have hv : da.variant = variant := (buildRest_ok _ _ _ _ _ _ hr).2.2.1
  have hT := hS _ ht
  have hsort := buildTrie_sorted _ _ _ ht
  unfold buildRest at hr
  split at hr
  · cases hr
  split at hr
  · cases hr
  simp only at hr
  split at hr
  · cases hr
  rename_i states hst
  cases hr
  cases variant with
  | bytewise =>
    have hbytes : ∀ u, acc.trie.hasNode u = true → ∀ c ∈ u, c < 256 := by
      intro u hu c hc
      rcases mem_nodeList.1 ((hT.nodes u).1 hu) with h0 | ⟨p, hp, hpre⟩
      · subst h0; cases hc
      · exact hlabels rfl p (hsub p hp) c (hpre.subset hc)
    obtain ⟨idx, hL, hlt, hinj⟩ := LayB.layoutSem_bytewise cfg (mapperFor .bytewise P) acc.trie
      (buildNfa acc.trie (cfg.kind != 0)) states hst hsort hbytes cfg.kind acc.trie.size
    refine ⟨acc.trie, idx, hT, hsort, hL, ?_, depth_bound hlt hinj⟩
    intro u hu c hc
    exact labelOk_bytewise hv (hbytes u hu c hc)
  | charwise =>
    obtain ⟨idx, hL, hlt, hinj⟩ := LayC.layoutSem_charwise cfg (mapperFor .charwise P) acc.trie
      (buildNfa acc.trie (cfg.kind != 0)) states hst hsort (mapperOk_build' P) cfg.kind
      acc.trie.size
    refine ⟨acc.trie, idx, hT, hsort, hL, ?_, depth_bound hlt hinj⟩
    intro u _ c _
    exact labelOk_charwise hv c

/-- **Standard kind.** The table returned by `buildDA` has the Rung-1 semantics `StdSem`, and the
output array is large enough for the fuel bound of the overlapping iterator. -/
theorem build_stdSem (variant : Variant) (nfb : Nat) (P : List (LPat V)) (da : DA V)
    (hb : buildDA variant ⟨0, nfb⟩ P = .ok da) (hk : keysOk P)
    (hlabels : variant = .bytewise → ∀ p ∈ P, ∀ c ∈ p.key, c < 256) :
    StdSem da P ∧ P.length ≤ da.outputs.size := by
  obtain ⟨t, idx, hT, hsort, hL, hlab, hD⟩ := build_layout variant ⟨0, nfb⟩ P P da hb
    (fun t ht => buildTrie_trieSem 0 (by decide) P t ht hk) (fun _ h => h) hlabels
  have hnfa : buildNfa t ((⟨0, nfb⟩ : Cfg).kind != 0) = buildNfa t false := rfl
  refine ⟨stdSem_of_layout' hnfa hL hT hsort hlab hD, ?_⟩
  have ho : da.outputs = (buildOutAcc t (buildFailMap t false)).outs := hL.outputs
  rw [ho, outsStd_size hT hsort]
  exact Nat.le_refl _

/-- **Leftmost-longest kind.** -/
theorem build_lmSem_ll (variant : Variant) (nfb : Nat) (P : List (LPat V)) (da : DA V)
    (hb : buildDA variant ⟨1, nfb⟩ P = .ok da) (hk : keysOk P)
    (hlabels : variant = .bytewise → ∀ p ∈ P, ∀ c ∈ p.key, c < 256) : LmSem da P := by
  obtain ⟨t, idx, hT, hsort, hL, hlab, hD⟩ := build_layout variant ⟨1, nfb⟩ P P da hb
    (fun t ht => buildTrie_trieSem 1 (by decide) P t ht hk) (fun _ h => h) hlabels
  have hnfa : buildNfa t ((⟨1, nfb⟩ : Cfg).kind != 0) = buildNfa t true := rfl
  exact lmSem_of_layout' hnfa hL hT hsort hlab hD

/-- **Leftmost-first kind**: the semantics is that of the retained patterns. -/
theorem build_lmSem_lf (variant : Variant) (nfb : Nat) (P : List (LPat V)) (da : DA V)
    (hb : buildDA variant ⟨2, nfb⟩ P = .ok da) (hk : keysOk P)
    (hlabels : variant = .bytewise → ∀ p ∈ P, ∀ c ∈ p.key, c < 256) :
    LmSem da (retainedL P) := by
  obtain ⟨t, idx, hT, hsort, hL, hlab, hD⟩ := build_layout variant ⟨2, nfb⟩ P (retainedL P) da hb
    (fun t ht => buildTrie_trieSem_lf P t ht hk)
    (fun _ h => (retainedL_sublist P).subset h) hlabels
  have hnfa : buildNfa t ((⟨2, nfb⟩ : Cfg).kind != 0) = buildNfa t true := rfl
  exact lmSem_of_layout' hnfa hL hT hsort hlab hD

/-! ## 3. Byte-wise automata, end to end -/

theorem lp_eq_lpOf : @lp V = @lpOf V := rfl

theorem keysOk_map_lp (Ps : List (Pat V)) : keysOk (Ps.map lp) := by
  intro p hp
  obtain ⟨q, _, rfl⟩ := List.mem_map.1 hp
  exact List.length_eq_zero_iff

theorem bytes_map_lp {Ps : List (Pat V)} (hbytes : ∀ p ∈ Ps, ∀ b ∈ p.key, b < 256) :
    ∀ p ∈ Ps.map lp, ∀ c ∈ p.key, c < 256 := by
  intro p hp
  obtain ⟨q, hq, rfl⟩ := List.mem_map.1 hp
  exact hbytes q hq

theorem lp_valid {Ps : List (Pat V)} (hV : ValidPats Ps) :
    (∀ p ∈ Ps.map lpOf, p.key ≠ []) ∧ ((Ps.map lpOf).map (·.key)).Nodup := by
  constructor
  · intro p hp
    obtain ⟨q, hq, rfl⟩ := List.mem_map.1 hp
    exact hV.key_ne q hq
  · have : (Ps.map lpOf).map (·.key) = Ps.map (·.key) := by
      simp [lpOf, List.map_map, Function.comp_def]
    rw [this]; exact hV.nodup

theorem bytewise_overlapping_correct (nfb : Nat) (Ps : List (Pat V)) (_hV : ValidPats Ps)
    (hbytes : ∀ p ∈ Ps, ∀ b ∈ p.key, b < 256) (da : DA V)
    (hb : buildDA .bytewise ⟨0, nfb⟩ (Ps.map lp) = .ok da) (h : List Nat)
    (hh : ∀ b ∈ h, b < 256) :
    ∃ l fin, ovAll da h = .ok (l, fin) ∧ l.map (·.1) = specOverlapping Ps h := by
  obtain ⟨hS, hO⟩ := build_stdSem .bytewise nfb (Ps.map lp) da hb (keysOk_map_lp Ps)
    (fun _ => bytes_map_lp hbytes)
  have hv := (buildDA_kind_variant _ _ _ _ hb).2
  exact ovAll_bytewise_eq_spec hv hS hh (by simpa using hO)

theorem bytewise_nosuffix_correct (nfb : Nat) (Ps : List (Pat V)) (_hV : ValidPats Ps)
    (hbytes : ∀ p ∈ Ps, ∀ b ∈ p.key, b < 256) (da : DA V)
    (hb : buildDA .bytewise ⟨0, nfb⟩ (Ps.map lp) = .ok da) (h : List Nat)
    (hh : ∀ b ∈ h, b < 256) :
    ∃ l fin, noSufAll da h = .ok (l, fin) ∧ l.map (·.1) = specNoSuffix Ps h := by
  obtain ⟨hS, _⟩ := build_stdSem .bytewise nfb (Ps.map lp) da hb (keysOk_map_lp Ps)
    (fun _ => bytes_map_lp hbytes)
  have hv := (buildDA_kind_variant _ _ _ _ hb).2
  exact noSufAll_bytewise_eq_spec hv hS hh

theorem bytewise_find_correct (nfb : Nat) (Ps : List (Pat V)) (_hV : ValidPats Ps)
    (hbytes : ∀ p ∈ Ps, ∀ b ∈ p.key, b < 256) (da : DA V)
    (hb : buildDA .bytewise ⟨0, nfb⟩ (Ps.map lp) = .ok da) (h : List Nat)
    (hh : ∀ b ∈ h, b < 256) :
    ∃ l fin, findAll da h = .ok (l, fin) ∧ l.map (·.1) = specFind Ps h := by
  obtain ⟨hS, _⟩ := build_stdSem .bytewise nfb (Ps.map lp) da hb (keysOk_map_lp Ps)
    (fun _ => bytes_map_lp hbytes)
  have hv := (buildDA_kind_variant _ _ _ _ hb).2
  exact findAll_bytewise_eq_spec hv hS hh

theorem bytewise_leftmost_longest_correct (nfb : Nat) (Ps : List (Pat V)) (hV : ValidPats Ps)
    (hbytes : ∀ p ∈ Ps, ∀ b ∈ p.key, b < 256) (da : DA V)
    (hb : buildDA .bytewise ⟨1, nfb⟩ (Ps.map lpOf) = .ok da) (h : List Nat)
    (hh : ∀ b ∈ h, b < 256) :
    ∃ l, lmAll da h = .ok (l, 0) ∧ l.map (·.1) = specLL Ps h := by
  have hS := build_lmSem_ll .bytewise nfb (Ps.map lpOf) da hb (keysOk_map_lp Ps)
    (fun _ => bytes_map_lp hbytes)
  have hv := (buildDA_kind_variant _ _ _ _ hb).2
  obtain ⟨hne, hkeys⟩ := lp_valid hV
  exact lmAll_bytewise_spec Ps hS (absLm_eq_bestIn _ hne hkeys) hv h
    (fun b hb' => labelOk_bytewise hv (hh b hb'))

theorem retainedLGo_map_lpOf (e Ps : List (Pat V)) :
    retainedLGo (e.map lpOf) (Ps.map lpOf) = (retainedGo e Ps).map lpOf := by
  induction Ps generalizing e with
  | nil => simp [retainedLGo, retainedGo]
  | cons p ps ih =>
    have := ih (e ++ [p])
    simp only [List.map_append, List.map_cons, List.map_nil] at this
    simp only [List.map_cons, retainedLGo, retainedGo, List.any_map, this]
    have hc : (e.any ((fun q : LPat V => decide (q.key <+: (lpOf p).key ∧ q.key ≠ (lpOf p).key)) ∘ lpOf))
        = e.any (fun q => decide (q.key <+: p.key ∧ q.key ≠ p.key)) := rfl
    rw [hc]
    split <;> simp

theorem retainedL_map_lpOf (Ps : List (Pat V)) :
    retainedL (Ps.map lpOf) = (retained Ps).map lpOf := by
  simpa [retainedL, retained] using retainedLGo_map_lpOf [] Ps

theorem bytewise_leftmost_first_correct (nfb : Nat) (Ps : List (Pat V)) (hV : ValidPats Ps)
    (hbytes : ∀ p ∈ Ps, ∀ b ∈ p.key, b < 256) (da : DA V)
    (hb : buildDA .bytewise ⟨2, nfb⟩ (Ps.map lpOf) = .ok da) (h : List Nat)
    (hh : ∀ b ∈ h, b < 256) :
    ∃ l, lmAll da h = .ok (l, 0) ∧ l.map (·.1) = specLF Ps h := by
  have hS := build_lmSem_lf .bytewise nfb (Ps.map lpOf) da hb (keysOk_map_lp Ps)
    (fun _ => bytes_map_lp hbytes)
  rw [retainedL_map_lpOf] at hS
  have hv := (buildDA_kind_variant _ _ _ _ hb).2
  obtain ⟨hne, hkeys⟩ := lp_valid (retained_valid hV)
  rw [specLF_eq_specLL_retained hV]
  exact lmAll_bytewise_spec (retained Ps) hS (absLm_eq_bestIn _ hne hkeys) hv h
    (fun b hb' => labelOk_bytewise hv (hh b hb'))

/-! ## 4. Char-wise automata on valid UTF-8, end to end -/

theorem keysOk_map_charPat (Q : List (List Nat × V)) : keysOk (Q.map charPat) := by
  intro p hp
  obtain ⟨q, _, rfl⟩ := List.mem_map.1 hp
  show (encAll q.1).length = 0 ↔ q.1 = []
  constructor
  · intro h0
    have := LmIter.length_le_encAll q.1
    exact List.eq_nil_of_length_eq_zero (by omega)
  · intro h0; rw [h0]; rfl

theorem charPat_valid {Q : List (List Nat × V)} (hQ : ScalarPats Q) (hnd : (Q.map (·.1)).Nodup) :
    (∀ p ∈ Q.map charPat, p.key ≠ []) ∧ ((Q.map charPat).map (·.key)).Nodup := by
  constructor
  · intro p hp
    obtain ⟨q, hq, rfl⟩ := List.mem_map.1 hp
    exact (hQ q hq).1
  · have : (Q.map charPat).map (·.key) = Q.map (·.1) := by
      simp [charPat, List.map_map, Function.comp_def]
    rw [this]; exact hnd

theorem charwise_overlapping_correct (nfb : Nat) (Q : List (List Nat × V)) (hQ : ScalarPats Q)
    (_hQ0 : Q ≠ []) (_hnd : (Q.map (·.1)).Nodup) (da : DA V)
    (hb : buildDA .charwise ⟨0, nfb⟩ (Q.map charPat) = .ok da) (t : List Nat) (ht : Scalars t) :
    ∃ l fin, ovAll da (encAll t) = .ok (l, fin) ∧
      l.map (·.1) = specOverlapping (Q.map bytePat) (encAll t) := by
  obtain ⟨hS, hO⟩ := build_stdSem .charwise nfb (Q.map charPat) da hb (keysOk_map_charPat Q)
    (fun h => nomatch h)
  have hv := (buildDA_kind_variant _ _ _ _ hb).2
  have hI := itemsOfHay_charwise t ht
  rw [← hv] at hI
  obtain ⟨l, fin, h1, h2⟩ := ovAll_eq_spec hS hI (fun it _ => labelOk_charwise hv it.label) hO
  exact ⟨l, fin, h1, by rw [h2, specOvItems_chars_eq hQ ht]⟩

theorem charwise_nosuffix_correct (nfb : Nat) (Q : List (List Nat × V)) (hQ : ScalarPats Q)
    (_hQ0 : Q ≠ []) (_hnd : (Q.map (·.1)).Nodup) (da : DA V)
    (hb : buildDA .charwise ⟨0, nfb⟩ (Q.map charPat) = .ok da) (t : List Nat) (ht : Scalars t) :
    ∃ l fin, noSufAll da (encAll t) = .ok (l, fin) ∧
      l.map (·.1) = specNoSuffix (Q.map bytePat) (encAll t) := by
  obtain ⟨hS, _⟩ := build_stdSem .charwise nfb (Q.map charPat) da hb (keysOk_map_charPat Q)
    (fun h => nomatch h)
  have hv := (buildDA_kind_variant _ _ _ _ hb).2
  have hI := itemsOfHay_charwise t ht
  rw [← hv] at hI
  obtain ⟨l, fin, h1, h2⟩ := noSufAll_eq_spec hS hI (fun it _ => labelOk_charwise hv it.label)
  exact ⟨l, fin, h1, by rw [h2, specNoSufItems_chars_eq hQ ht]⟩

theorem charwise_find_correct (nfb : Nat) (Q : List (List Nat × V)) (hQ : ScalarPats Q)
    (_hQ0 : Q ≠ []) (_hnd : (Q.map (·.1)).Nodup) (da : DA V)
    (hb : buildDA .charwise ⟨0, nfb⟩ (Q.map charPat) = .ok da) (t : List Nat) (ht : Scalars t) :
    ∃ l fin, findAll da (encAll t) = .ok (l, fin) ∧
      l.map (·.1) = specFind (Q.map bytePat) (encAll t) := by
  obtain ⟨hS, _⟩ := build_stdSem .charwise nfb (Q.map charPat) da hb (keysOk_map_charPat Q)
    (fun h => nomatch h)
  have hv := (buildDA_kind_variant _ _ _ _ hb).2
  have hI := itemsOfHay_charwise t ht
  rw [← hv] at hI
  obtain ⟨l, fin, h1, h2⟩ := findAll_eq_spec hS hI (fun it _ => labelOk_charwise hv it.label)
  exact ⟨l, fin, h1, by rw [h2, specFindItems_chars_eq hQ ht]⟩

theorem charwise_leftmost_longest_correct (nfb : Nat) (Q : List (List Nat × V))
    (hQ : ScalarPats Q) (_hQ0 : Q ≠ []) (hnd : (Q.map (·.1)).Nodup) (da : DA V)
    (hb : buildDA .charwise ⟨1, nfb⟩ (Q.map charPat) = .ok da) (t : List Nat) (ht : Scalars t) :
    ∃ l, lmAll da (encAll t) = .ok (l, 0) ∧ l.map (·.1) = specLL (Q.map bytePat) (encAll t) := by
  have hS := build_lmSem_ll .charwise nfb (Q.map charPat) da hb (keysOk_map_charPat Q)
    (fun h => nomatch h)
  have hv := (buildDA_kind_variant _ _ _ _ hb).2
  obtain ⟨hne, hkeys⟩ := charPat_valid hQ hnd
  have hd := decodes_charwise t ht
  rw [← hv] at hd
  obtain ⟨l, h1, h2⟩ := lmAll_spec hS (absLm_eq_bestIn _ hne hkeys) hd
    (fun it _ => labelOk_charwise hv it.label)
  exact ⟨l, h1, by rw [h2, specLLItems_chars_eq hQ ht]⟩

#print axioms depth_bound
#print axioms build_stdSem
#print axioms build_lmSem_ll
#print axioms build_lmSem_lf
#print axioms bytewise_overlapping_correct
#print axioms bytewise_nosuffix_correct
#print axioms bytewise_find_correct
#print axioms bytewise_leftmost_longest_correct
#print axioms bytewise_leftmost_first_correct
#print axioms charwise_overlapping_correct
#print axioms charwise_nosuffix_correct
#print axioms charwise_find_correct
#print axioms charwise_leftmost_longest_correct

end Daac

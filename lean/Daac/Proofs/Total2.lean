/-
Corollaries of totality (`Total.lean`): a VALID pattern collection can only fail with the documented
size-limit error `automatonScale`, and (barring that error) construction succeeds exactly on the
valid collections.
-/
import Daac.Proofs.Total
namespace Daac
variable {V : Type}

/-- With a non-zero pattern count, everything after the insertion phase returns `Ok` or the scale
error, provided the layout pass does. -/
theorem buildRest_ok_or_scale (variant : Variant) (cfg : Cfg) (m : Mapper) (t : Trie V) (len : Nat)
    (hl : len ≠ 0)
    (hlay : (∃ states, buildLayout variant cfg m t (buildNfa t (cfg.kind != 0)) = .ok states) ∨
      buildLayout variant cfg m t (buildNfa t (cfg.kind != 0)) = .error .automatonScale) :
    (∃ da, buildRest variant cfg m t len = .ok da) ∨
      buildRest variant cfg m t len = .error .automatonScale := by
  unfold buildRest
  rw [if_neg hl]
  by_cases hs : variant = .bytewise ∧ len > u24Max
  · rw [if_pos hs]; exact Or.inr rfl
  · rw [if_neg hs]
    simp only
    rcases hlay with ⟨states, e⟩ | e
    · rw [e]; exact Or.inl ⟨_, rfl⟩
    · rw [e]; exact Or.inr rfl

/-- A successful insertion phase: the accumulator behind `buildTrie`. -/
theorem buildTrie_ok_acc (kind : Nat) (P : List (LPat V)) (t : Trie V)
    (ht : buildTrie kind P = .ok t) :
    ∃ acc, NfaAcc.init.addAll (kind == 2) P = .ok acc ∧ acc.len ≠ 0 ∧ acc.trie = t := by
  unfold buildTrie at ht
  cases hadd : NfaAcc.init.addAll (kind == 2) P with
  | error e => rw [hadd] at ht; cases ht
  | ok acc =>
    rw [hadd] at ht
    simp only at ht
    by_cases hl : acc.len = 0
    · rw [if_pos hl] at ht; cases ht
    · rw [if_neg hl] at ht
      cases ht
      exact ⟨acc, rfl, hl, rfl⟩

/-- **A valid collection can only fail with the documented size-limit error.** -/
theorem buildDA_valid_ok_or_scale (variant : Variant) (cfg : Cfg) (P : List (LPat V))
    (hk : keysOk P) (hnfb : 1 ≤ cfg.nfb)
    (hbytes : variant = .bytewise → ∀ p ∈ P, ∀ c ∈ p.key, c < 256)
    (hsz : variant = .charwise → tableLen P < 4294967295)
    (hvalid : P ≠ [] ∧ (∀ p ∈ P, p.key ≠ []) ∧ (P.map (·.key)).Nodup) :
    (∃ da, buildDA variant cfg P = .ok da) ∨ buildDA variant cfg P = .error .automatonScale := by
  obtain ⟨t, ht⟩ := (buildTrie_ok_iff cfg.kind P hk).mpr hvalid
  obtain ⟨acc, hadd, hl, rfl⟩ := buildTrie_ok_acc cfg.kind P t ht
  rw [buildDA_eq, if_neg (by omega), hadd]
  simp only
  have hsort := buildTrie_sorted _ _ _ ht
  have hnode : ∀ u, acc.trie.hasNode u = true → ∀ c ∈ u, ∃ p ∈ P, c ∈ p.key := by
    intro u hu c hc
    rcases (buildTrie_nodes cfg.kind P hk _ ht u).1 hu with h0 | ⟨k, hkm, hpre⟩
    · subst h0; cases hc
    · obtain ⟨p, hp, rfl⟩ := List.mem_map.1 (retainedKeys_subset _ _ _ hkm)
      exact ⟨p, hp, ((mem_nprefixes _ _).1 hpre).2.subset hc⟩
  apply buildRest_ok_or_scale variant cfg (mapperFor variant P) acc.trie acc.len hl
  cases variant with
  | bytewise =>
    apply buildLayout_no_panic_bytewise _ _ _ _ hnfb hsort
    intro u hu c hc
    obtain ⟨p, hp, hcp⟩ := hnode u hu c hc
    exact hbytes rfl p hp c hcp
  | charwise =>
    apply buildLayout_no_panic_charwise _ _ _ _ hnfb hsort (mapperOk_build' P)
    intro u hu c hc
    obtain ⟨p, hp, hcp⟩ := hnode u hu c hc
    exact mapper_maps_labels P (hsz rfl) p hp c hcp

/-- **Construction succeeds exactly on the valid collections** (unless the size limit is hit). -/
theorem buildDA_ok_iff (variant : Variant) (cfg : Cfg) (P : List (LPat V))
    (hk : keysOk P) (hnfb : 1 ≤ cfg.nfb)
    (hbytes : variant = .bytewise → ∀ p ∈ P, ∀ c ∈ p.key, c < 256)
    (hsz : variant = .charwise → tableLen P < 4294967295)
    (hlim : buildDA variant cfg P ≠ .error .automatonScale) :
    (∃ da, buildDA variant cfg P = .ok da) ↔
      (P ≠ [] ∧ (∀ p ∈ P, p.key ≠ []) ∧ (P.map (·.key)).Nodup) := by
  constructor
  · rintro ⟨da, hda⟩
    exact buildDA_ok_valid variant cfg P hk da hda
  · intro hvalid
    rcases buildDA_valid_ok_or_scale variant cfg P hk hnfb hbytes hsz hvalid with h | h
    · exact h
    · exact absurd h hlim

#print axioms buildDA_valid_ok_or_scale
#print axioms buildDA_ok_iff

end Daac

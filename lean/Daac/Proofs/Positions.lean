/-
The entry point `build` (values = input positions): `convAll` succeeds iff every position
converts; the resulting collection has the same keys, and the i-th pattern carries `conv i`.
-/
import Daac.Model.Build
import Daac.Proofs.TrieFacts
import Daac.Proofs.BuildCor
namespace Daac
variable {V : Type}

theorem convAll_some (conv : Nat → Option V) (K : List (List Nat × Nat)) (i : Nat) (P : List (LPat V))
    (h : convAll conv i K = some P) :
    P.length = K.length ∧ P.map (fun p => (p.key, p.blen)) = K ∧
      ∀ j (hj : j < P.length), conv (i + j) = some (P[j]).value := by
  induction K generalizing i P with
  | nil => simp [convAll] at h; subst h; simp
  | cons kb r ih =>
    obtain ⟨k, b⟩ := kb
    simp only [convAll] at h
    cases hc : conv i with
    | none => simp [hc] at h
    | some v =>
      simp only [hc] at h
      cases hr : convAll conv (i + 1) r with
      | none => simp [hr] at h
      | some P' =>
        simp only [hr, Option.some.injEq] at h
        subst h
        obtain ⟨h1, h2, h4⟩ := ih (i + 1) P' hr
        refine ⟨by simp [h1], by simp [h2], ?_⟩
        intro j hj
        cases j with
        | zero => simpa using hc
        | succ j =>
          have := h4 j (by simpa using hj)
          simpa [Nat.add_assoc, Nat.add_comm 1 j] using this

theorem convAll_none_iff (conv : Nat → Option V) (K : List (List Nat × Nat)) (i : Nat) :
    convAll conv i K = none ↔ ∃ j, j < K.length ∧ conv (i + j) = none := by
  induction K generalizing i with
  | nil => simp [convAll]
  | cons kb r ih =>
    obtain ⟨k, b⟩ := kb
    simp only [convAll]
    cases hc : conv i with
    | none => simp; exact ⟨0, by simp, by simpa using hc⟩
    | some v =>
      simp only
      cases hr : convAll conv (i + 1) r with
      | none =>
        simp only [true_iff]
        obtain ⟨j, hj, hn⟩ := (ih (i + 1)).mp hr
        exact ⟨j + 1, by simpa using hj, by simpa [Nat.add_assoc, Nat.add_comm 1 j] using hn⟩
      | some P' =>
        simp only [reduceCtorEq, false_iff]
        rintro ⟨j, hj, hn⟩
        cases j with
        | zero => simp [hc] at hn
        | succ j =>
          have : ∃ j, j < r.length ∧ conv (i + 1 + j) = none :=
            ⟨j, by simpa using hj, by simpa [Nat.add_assoc, Nat.add_comm 1 j] using hn⟩
          rw [← ih (i + 1), hr] at this
          cases this

/-- `build` fails with `InvalidConversion` exactly when some position does not convert — before
anything else is looked at (so also for collections that are invalid in other ways). -/
theorem buildPositions_conv_err_iff (conv : Nat → Option V) (variant : Variant) (cfg : Cfg)
    (K : List (List Nat × Nat))
    (hno : ∀ P : List (LPat V), buildDA variant cfg P ≠ .error .invalidConversion) :
    buildPositions conv variant cfg K = .error .invalidConversion ↔
      ∃ j, j < K.length ∧ conv j = none := by
  unfold buildPositions
  cases hc : convAll conv 0 K with
  | none =>
    simp only [true_iff]
    simpa using (convAll_none_iff conv K 0).mp hc
  | some P =>
    simp only
    constructor
    · intro h; exact absurd h (hno P)
    · intro h
      have := (convAll_none_iff conv K 0).mpr (by simpa using h)
      rw [hc] at this; cases this

/-- When every position converts, `build` is `build_with_values` on the collection whose i-th
pattern carries the converted position i. -/
theorem buildPositions_eq (conv : Nat → Option V) (variant : Variant) (cfg : Cfg)
    (K : List (List Nat × Nat)) (hall : ∀ j, j < K.length → conv j ≠ none) :
    ∃ P : List (LPat V), buildPositions conv variant cfg K = buildDA variant cfg P ∧
      P.length = K.length ∧ P.map (fun p => (p.key, p.blen)) = K ∧
      ∀ j (hj : j < P.length), conv j = some (P[j]).value := by
  unfold buildPositions
  cases hc : convAll conv 0 K with
  | none =>
    obtain ⟨j, hj, hn⟩ := (convAll_none_iff conv K 0).mp hc
    exact absurd (by simpa using hn) (hall j hj)
  | some P =>
    obtain ⟨h1, h2, h4⟩ := convAll_some conv K 0 P hc
    exact ⟨P, rfl, h1, h2, fun j hj => by simpa using h4 j hj⟩

theorem foldl_max_lt (l : List Nat) (a N : Nat) (ha : a < N) (hl : ∀ c ∈ l, c < N) :
    l.foldl max a < N := by
  induction l generalizing a with
  | nil => simpa
  | cons x r ih =>
    simp only [List.foldl_cons]
    apply ih
    · have := hl x (by simp); omega
    · intro c hc; exact hl c (by simp [hc])

theorem tableLen_lt_of_labels (P : List (LPat V)) (N : Nat) (hN : 1 < N)
    (h : ∀ p ∈ P, ∀ c ∈ p.key, c + 1 < N) : tableLen P < N := by
  unfold tableLen
  split
  · have hm : maxLabel P = (P.flatMap (·.key)).foldl max 0 := by
      simp [maxLabel, List.foldl_flatMap]
    have : (P.flatMap (·.key)).foldl max 0 < N - 1 := by
      apply foldl_max_lt _ _ _ (by omega)
      intro c hc
      obtain ⟨p, hp, hcp⟩ := List.mem_flatMap.mp hc
      have := h p hp c hcp; omega
    rw [hm]; omega
  · omega

#print axioms buildPositions_conv_err_iff
#print axioms buildPositions_eq
end Daac

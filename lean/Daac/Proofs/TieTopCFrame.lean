import Daac.Gen.BuildC
/-!
The frame property of the translated char-wise `build_double_array` (Gen/BuildC.lean): none of
`init_array`, `extend_array`, `loop0`, `loop2`, `loop3` writes the `match_kind`, `mapper` or
`num_free_blocks` field of the builder (`find_base` and `loop1` do not return a builder at all).
-/
namespace Daac.Tie.TopC
open Daac Daac.Gen Daac.Gen.N

variable {V : Type}

/-- The three fields of the char-wise builder that the layout pass never writes. -/
def SameCfgC (b' b : LC.Builder) : Prop :=
  b'.match_kind = b.match_kind ∧ b'.mapper = b.mapper ∧ b'.num_free_blocks = b.num_free_blocks

theorem SameCfgC.rfl' (b : LC.Builder) : SameCfgC b b := ⟨rfl, rfl, rfl⟩

theorem SameCfgC.trans {a b c : LC.Builder} (h1 : SameCfgC a b) (h2 : SameCfgC b c) : SameCfgC a c :=
  ⟨h1.1.trans h2.1, h1.2.1.trans h2.2.1, h1.2.2.trans h2.2.2⟩

theorem init_array_frameC (b b' : LC.Builder) (h : H.BuildHelper)
    (hh : LC.Builder.init_array b = .ok (h, b')) : SameCfgC b' b := by
  unfold LC.Builder.init_array at hh
  dsimp only at hh
  repeat' split at hh
  all_goals first | cases hh | skip
  exact ⟨rfl, rfl, rfl⟩

theorem extend_array_frameC (b b' : LC.Builder) (h h' : H.BuildHelper) (u : Unit)
    (hh : LC.Builder.extend_array b h = .ok (u, b', h')) : SameCfgC b' b := by
  unfold LC.Builder.extend_array at hh
  dsimp only at hh
  repeat' split at hh
  all_goals first | cases hh | skip
  exact ⟨rfl, rfl, rfl⟩

theorem loop2_frameC (sidx base : Nat) : ∀ (l : List (Nat × Nat)) (b : LC.Builder) (h : H.BuildHelper)
    (m : Array Nat) (st : List Nat) (r : LC.Builder × H.BuildHelper × Array Nat × List Nat),
    DC.Builder.build_double_array.loop2 sidx base l b h m st = .ok r → SameCfgC r.1 b
  | [], b, h, m, st, r, hh => by
    simp only [DC.Builder.build_double_array.loop2] at hh
    cases hh; exact ⟨rfl, rfl, rfl⟩
  | (c, ch) :: rest, b, h, m, st, r, hh => by
    unfold DC.Builder.build_double_array.loop2 at hh
    dsimp only at hh
    split at hh
    · cases hh
    · split at hh
      · cases hh
      · split at hh
        · cases hh
        · exact (loop2_frameC sidx base rest _ _ _ _ r hh).trans ⟨rfl, rfl, rfl⟩

theorem loop0_frameC (nfa : NfaBuilder V) : ∀ (fuel : Nat) (b : LC.Builder) (h : H.BuildHelper)
    (m : Array Nat) (st : List Nat) (mp : List (Nat × Nat))
    (r : LC.Builder × H.BuildHelper × Array Nat × List Nat × List (Nat × Nat)),
    DC.Builder.build_double_array.loop0 nfa fuel b h m st mp = .ok r → SameCfgC r.1 b
  | 0, b, h, m, st, mp, r, hh => by
    simp only [DC.Builder.build_double_array.loop0] at hh
    cases hh
  | fuel + 1, b, h, m, st, mp, r, hh => by
    unfold DC.Builder.build_double_array.loop0 at hh
    dsimp only at hh
    split at hh
    · cases hh; exact ⟨rfl, rfl, rfl⟩
    · split at hh
      · cases hh
      · split at hh
        · cases hh
        · split at hh
          · exact loop0_frameC nfa fuel _ _ _ _ _ r hh
          · split at hh
            · cases hh
            · split at hh
              · cases hh
              · split at hh
                · cases hh
                · rename_i b1 h1 hext
                  have hb1 : SameCfgC b1 b := by
                    split at hext
                    · split at hext
                      · cases hext
                      · rename_i hx
                        cases hext
                        exact extend_array_frameC _ _ _ _ _ hx
                    · cases hext; exact ⟨rfl, rfl, rfl⟩
                  split at hh
                  · cases hh
                  · rename_i b2 h2 m2 st2 hl2
                    have hb2 : SameCfgC b2 b1 := loop2_frameC _ _ _ _ _ _ _ _ hl2
                    split at hh
                    · cases hh
                    · have := loop0_frameC nfa fuel _ _ _ _ _ r hh
                      exact this.trans ((SameCfgC.trans ⟨rfl, rfl, rfl⟩ hb2).trans hb1)

theorem loop3_frameC (m : Array Nat) : ∀ (l : List (Nat × NfaBuilderState V)) (b b' : LC.Builder),
    DC.Builder.build_double_array.loop3 m l b = .ok b' → SameCfgC b' b
  | [], b, b', hh => by
    simp only [DC.Builder.build_double_array.loop3] at hh
    cases hh; exact ⟨rfl, rfl, rfl⟩
  | (i, s) :: rest, b, b', hh => by
    unfold DC.Builder.build_double_array.loop3 at hh
    dsimp only at hh
    split at hh
    · exact loop3_frameC m rest _ _ hh
    · split at hh
      · cases hh
      · split at hh
        · cases hh
        · split at hh
          · cases hh
          · rename_i b1 hb1
            have h1 : SameCfgC b1 b := by
              repeat' split at hb1
              all_goals first | cases hb1 | skip
              all_goals exact ⟨rfl, rfl, rfl⟩
            exact (loop3_frameC m rest _ _ hh).trans h1

/-- The translated char-wise `build_double_array` leaves `match_kind`, `mapper`, `num_free_blocks` unchanged. -/
theorem build_double_array_frameC (b b' : LC.Builder) (g : NfaBuilder V) (u : Unit)
    (hh : DC.Builder.build_double_array b g = .ok (u, b')) : SameCfgC b' b := by
  unfold DC.Builder.build_double_array at hh
  dsimp only at hh
  split at hh
  · cases hh
  · rename_i hi
    split at hh
    · cases hh
    · split at hh
      · cases hh
      · rename_i h0
        split at hh
        · cases hh
        · rename_i h3
          cases hh
          exact (loop3_frameC _ _ _ _ h3).trans
            ((loop0_frameC _ _ _ _ _ _ _ _ h0).trans (init_array_frameC _ _ _ hi))

end Daac.Tie.TopC

#print axioms Daac.Tie.TopC.build_double_array_frameC

/-
Rung-1 proof for the leftmost kinds, iterator half: given the table semantics `LmSem da P`
(Daac/Proofs/LmIface.lean) and the abstract-scan theorem (`absLm … = bestIn …`, proved in
Daac/Proofs/LmAbs.lean and taken here as a hypothesis), the model iterator `LmIt.next` /
`lmAll` returns exactly the item-level specification `specLLItems`.
Core Lean only. Helper lemmas live in the namespace `Daac.LmIter`.
-/
import Daac.Proofs.LmIface
import Daac.Proofs.Utf8
namespace Daac
namespace LmIter
variable {V : Type}

/-! ### 1. The loop simulates an offset-level abstract scan -/

/-- Stop offset of item number `i` (0 if there is none), as in `specLLItems`. -/
def stopAt (l : List WItem) (i : Nat) : Nat := ((l[i]?).map (·.stop)).getD 0

/-- The abstract scan of `absLm`, on items, with candidates recorded as (pattern, end offset). -/
def absE (P : List (LPat V)) :
    List WItem → List Nat → Option (LPat V × Nat) → Option (LPat V × Nat)
  | [], _, cand => cand
  | it :: rest, u, cand =>
    if deltaL P u it.label = [] then
      (if cand.isSome then cand else absE P rest [] none)
    else
      match oposL P (deltaL P u it.label) with
      | some p => absE P rest (deltaL P u it.label) (some (p, it.stop))
      | none => absE P rest (deltaL P u it.label) cand

/-- Result of the loop for an offset-level candidate. -/
def resOf (pos : Nat) : Option (LPat V × Nat) → Option (Match V) × Nat
  | none => (none, pos)
  | some (p, e) => (some ⟨e - p.blen, e, p.value⟩, e)

/-- The concrete candidate (`last_output_pos`, `self.pos`) represents the abstract one. -/
def CandRel (da : DA V) (cand pos : Nat) : Option (LPat V × Nat) → Prop
  | none => cand = 0
  | some (p, e) => cand ≠ 0 ∧ e = pos ∧
      ∃ o, da.out cand = .ok o ∧ o.value = p.value ∧ o.length = p.blen

theorem absE_some (P : List (LPat V)) (items : List WItem) :
    ∀ (u : List Nat) (c : LPat V × Nat), ∃ r, absE P items u (some c) = some r := by
  induction items with
  | nil => intro u c; exact ⟨c, rfl⟩
  | cons it rest ih =>
    intro u c
    unfold absE
    split
    · exact ⟨c, by simp⟩
    · split
      · exact ih _ _
      · exact ih _ _

theorem resOf_some (pos pos' : Nat) (r : LPat V × Nat) :
    resOf pos (some r) = resOf pos' (some r) := rfl

theorem lmLoop_sim {da : DA V} {P : List (LPat V)} (hS : LmSem da P) (items : List WItem) :
    ∀ (u : List Nat) (cand : Nat) (acand : Option (LPat V × Nat)) (pos skips : Nat),
      u ∈ nodeList P → Consecutive (pos + skips) items →
      (∀ it ∈ items, LabelOk da it.label) → CandRel da cand pos acand →
      lmLoop da items (da.idx u) cand pos skips = .ok (resOf pos (absE P items u acand)) := by
  induction items with
  | nil =>
    intro u cand acand pos skips _ _ _ hrel
    cases acand with
    | none =>
      simp only [CandRel] at hrel
      simp [lmLoop, hrel, absE, resOf]
    | some pe =>
      obtain ⟨p, e⟩ := pe
      obtain ⟨h0, rfl, o, ho, hv, hl⟩ := hrel
      simp [lmLoop, h0, ho, absE, resOf, mkMatch, hv, hl]
  | cons it rest ih =>
    intro u cand acand pos skips hu hcons hlab hrel
    have hl : LabelOk da it.label := hlab it (by simp)
    have hlab' : ∀ x ∈ rest, LabelOk da x.label := fun x hx => hlab x (by simp [hx])
    obtain ⟨hstop, hw, hcons'⟩ := hcons
    have hd := hS.delta_node u hu it.label
    unfold lmLoop
    rw [hS.next_ok u hu it.label hl]
    simp only
    by_cases hnil : deltaL P u it.label = []
    · have hroot : da.idx (deltaL P u it.label) = rootIdx := (hS.idx_root_iff _ hd).2 hnil
      rw [if_pos hroot]
      cases acand with
      | none =>
        simp only [CandRel] at hrel
        subst hrel
        have := ih [] 0 none pos (skips + it.width) (by simp [nodeList])
          (by rw [← Nat.add_assoc, ← hstop]; exact hcons') hlab' (by simp [CandRel])
        simp only [ne_eq, not_true_eq_false, if_false]
        rw [hnil, this]
        simp [absE, hnil]
      | some pe =>
        obtain ⟨p, e⟩ := pe
        obtain ⟨h0, rfl, o, ho, hv, hl⟩ := hrel
        simp [h0, ho, absE, hnil, resOf, mkMatch, hv, hl]
    · have hroot : ¬ da.idx (deltaL P u it.label) = rootIdx :=
        fun h => hnil ((hS.idx_root_iff _ hd).1 h)
      rw [if_neg hroot]
      obtain ⟨st, hst, hop⟩ := hS.out_ok _ hd
      rw [hst]
      simp only
      cases ho : oposL P (deltaL P u it.label) with
      | some p =>
        rw [ho] at hop
        obtain ⟨h0, o, hout, hv, hl⟩ := hop
        rw [if_pos h0]
        have key : ∀ q, q = it.stop →
            lmLoop da rest (da.idx (deltaL P u it.label)) st.opos q 0 =
              .ok (resOf pos (absE P (it :: rest) u acand)) := by
          intro q hq
          subst hq
          have := ih (deltaL P u it.label) st.opos (some (p, it.stop)) it.stop 0 hd
            (by simpa using hcons') hlab' ⟨h0, rfl, o, hout, hv, hl⟩
          rw [this]
          obtain ⟨r, hr⟩ := absE_some P rest (deltaL P u it.label) (p, it.stop)
          simp [absE, hnil, ho, hr, resOf_some it.stop pos]
        apply key
        cases da.variant <;> simp <;> omega
      | none =>
        rw [ho] at hop
        simp only at hop
        rw [if_neg (by simp [hop])]
        have := ih (deltaL P u it.label) cand acand pos (skips + it.width) hd
          (by rw [← Nat.add_assoc, ← hstop]; exact hcons') hlab' hrel
        rw [this]
        simp [absE, hnil, ho]

/-! ### 2. Pure facts about `longestLPat`, `bestIn`, `deltaL`, `oposL` -/

theorem longestLPat_mem {l : List (LPat V)} {p : LPat V} (h : longestLPat l = some p) : p ∈ l := by
  induction l generalizing p with
  | nil => simp [longestLPat] at h
  | cons a l ih =>
    unfold longestLPat at h
    split at h
    · cases h; simp
    · next q hq =>
      split at h
      · cases h; exact List.mem_cons_of_mem _ (ih hq)
      · cases h; simp

theorem longestLPat_eq_none {l : List (LPat V)} (h : longestLPat l = none) : l = [] := by
  cases l with
  | nil => rfl
  | cons a l =>
    unfold longestLPat at h
    split at h
    · cases h
    · split at h <;> cases h

theorem mem_prefLPats {P : List (LPat V)} {x : List Nat} {p : LPat V} :
    p ∈ prefLPats P x ↔ p ∈ P ∧ p.key ≠ [] ∧ p.key <+: x := by
  simp [prefLPats]

theorem bestIn_facts (P : List (LPat V)) (x : List Nat) :
    ∀ (s0 s : Nat) (p : LPat V), bestIn P x s0 = some (s, p) →
      p ∈ P ∧ p.key ≠ [] ∧ s0 ≤ s ∧ s + p.key.length ≤ s0 + x.length := by
  induction x with
  | nil => intro s0 s p h; simp [bestIn] at h
  | cons c r ih =>
    intro s0 s p h
    unfold bestIn at h
    split at h
    · next q hq =>
      cases h
      obtain ⟨h1, h2, h3⟩ := mem_prefLPats.1 (longestLPat_mem hq)
      have := h3.length_le
      exact ⟨h1, h2, Nat.le_refl _, by omega⟩
    · obtain ⟨h1, h2, h3, h4⟩ := ih _ _ _ h
      simp only [List.length_cons]
      exact ⟨h1, h2, by omega, by omega⟩

theorem bestIn_shift (P : List (LPat V)) (x : List Nat) :
    ∀ s0, bestIn P x s0 = (bestIn P x 0).map (fun r => (r.1 + s0, r.2)) := by
  induction x with
  | nil => intro s0; simp [bestIn]
  | cons c r ih =>
    intro s0
    unfold bestIn
    split
    · simp
    · rw [ih (s0 + 1), ih (0 + 1)]
      simp [Option.map_map, Function.comp_def, Nat.add_assoc, Nat.add_comm 1 s0]

theorem deltaL_length_le (P : List (LPat V)) (u : List Nat) (c : Nat) :
    (deltaL P u c).length ≤ u.length + 1 := by
  have h := (lsuf_spec (N := nodeList P) (by simp [nodeList]) (u ++ [c])).1.length_le
  simp only [List.length_append, List.length_singleton] at h
  unfold deltaL
  simp only
  split
  · exact h
  · split
    · simp
    · exact h

theorem oposL_facts {P : List (LPat V)} {u : List Nat} {p : LPat V} (h : oposL P u = some p) :
    p ∈ P ∧ p.key ≠ [] ∧ p.key.length ≤ u.length := by
  unfold oposL at h
  split at h
  · next s q hq =>
    split at h
    · next he =>
      cases h
      obtain ⟨h1, h2, _, _⟩ := bestIn_facts P u 0 s p hq
      exact ⟨h1, h2, by omega⟩
    · cases h
  · cases h

/-! ### 3. The offset-level scan is the translation of `absLm` -/

/-- Translation of a label-level candidate (start, pattern) to (pattern, end offset). -/
def candE (l : List WItem) (r : Nat × LPat V) : LPat V × Nat :=
  (r.2, stopAt l (r.1 + r.2.key.length - 1))

theorem stopAt_append_cons (pre : List WItem) (it : WItem) (rest : List WItem) :
    stopAt (pre ++ it :: rest) pre.length = it.stop := by
  simp [stopAt]

theorem absE_absLm (P : List (LPat V)) (items : List WItem) :
    ∀ (pre : List WItem) (u : List Nat) (acand : Option (Nat × LPat V)),
      u.length ≤ pre.length →
      absE P items u (acand.map (candE (pre ++ items)))
        = (absLm P (items.map (·.label)) u acand pre.length).map (candE (pre ++ items)) := by
  induction items with
  | nil => intro pre u acand _; simp [absE, absLm]
  | cons it rest ih =>
    intro pre u acand hu
    have hlen : (pre ++ [it]).length = pre.length + 1 := by simp
    have happ : pre ++ it :: rest = (pre ++ [it]) ++ rest := by simp
    have hd := deltaL_length_le P u it.label
    simp only [List.map_cons]
    unfold absE absLm
    by_cases hnil : deltaL P u it.label = []
    · rw [if_pos hnil, if_pos hnil]
      cases acand with
      | some r => simp
      | none =>
        have := ih (pre ++ [it]) [] none (by simp)
        rw [hlen, ← happ] at this
        simpa using this
    · rw [if_neg hnil, if_neg hnil]
      cases ho : oposL P (deltaL P u it.label) with
      | some p =>
        obtain ⟨_, hk, hkl⟩ := oposL_facts ho
        have hk' : 0 < p.key.length := List.length_pos_iff.2 hk
        have := ih (pre ++ [it]) (deltaL P u it.label) (some (pre.length + 1 - p.key.length, p))
          (by rw [hlen]; omega)
        rw [hlen, ← happ] at this
        simp only
        rw [← this]
        have e : pre.length + 1 - p.key.length + p.key.length - 1 = pre.length := by omega
        simp [candE, e, stopAt_append_cons]
      | none =>
        have := ih (pre ++ [it]) (deltaL P u it.label) acand (by rw [hlen]; omega)
        rw [hlen, ← happ] at this
        simpa using this

/-! ### 4. Part 1: one call of the loop returns the leftmost-longest occurrence -/

/-- What the loop of `LmIt.next` returns for the abstract answer `best` (start in items,
pattern): the match ending at the stop offset of item number `s + |p| - 1`, and the new
resume offset. -/
def lmResult (items : List WItem) (pos : Nat) : Option (Nat × LPat V) → Option (Match V) × Nat
  | none => (none, pos)
  | some (s, p) =>
    (some ⟨stopAt items (s + p.key.length - 1) - p.blen, stopAt items (s + p.key.length - 1),
        p.value⟩, stopAt items (s + p.key.length - 1))

end LmIter

open LmIter in
/-- **Part 1.** One run of the loop of `LestmostFindIterator::next` from the root over
consecutive items returns the leftmost-longest occurrence among the labels of the items. -/
theorem lmLoop_spec {V : Type} {da : DA V} {P : List (LPat V)} (hS : LmSem da P)
    (habs : ∀ x, absLm P x [] none 0 = bestIn P x 0)
    (items : List WItem) (pos : Nat) (hcons : Consecutive pos items)
    (hlab : ∀ it ∈ items, LabelOk da it.label) :
    lmLoop da items rootIdx 0 pos 0
      = .ok (lmResult items pos (bestIn P (items.map (·.label)) 0)) := by
  have h1 := lmLoop_sim hS items [] 0 none pos 0 (by simp [nodeList]) (by simpa using hcons) hlab
    (by simp [CandRel])
  have h2 := absE_absLm P items [] [] none (by simp)
  simp only [Option.map_none, List.nil_append, List.length_nil, habs] at h2
  rw [hS.root] at h1
  rw [h1, h2]
  cases bestIn P (items.map (·.label)) 0 with
  | none => rfl
  | some r => rfl

open LmIter in
/-- Part 1 in existential form. -/
theorem lmLoop_spec' {V : Type} {da : DA V} {P : List (LPat V)} (hS : LmSem da P)
    (habs : ∀ x, absLm P x [] none 0 = bestIn P x 0)
    (items : List WItem) (pos : Nat) (hcons : Consecutive pos items)
    (hlab : ∀ it ∈ items, LabelOk da it.label) :
    ∃ r pos', lmLoop da items rootIdx 0 pos 0 = .ok (r, pos') ∧
      (bestIn P (items.map (·.label)) 0 = none → r = none ∧ pos' = pos) ∧
      (∀ s p, bestIn P (items.map (·.label)) 0 = some (s, p) →
        r = some ⟨stopAt items (s + p.key.length - 1) - p.blen,
              stopAt items (s + p.key.length - 1), p.value⟩ ∧
        pos' = stopAt items (s + p.key.length - 1)) := by
  refine ⟨_, _, lmLoop_spec hS habs items pos hcons hlab, ?_, ?_⟩
  · intro h; rw [h]; exact ⟨rfl, rfl⟩
  · intro s p h; rw [h]; exact ⟨rfl, rfl⟩

namespace LmIter
variable {V : Type}

/-! ### 5. Pure facts about `specLLItems` -/

theorem specLLItems_nil (P : List (LPat V)) (k : Nat) : specLLItems P [] k = [] := by
  unfold specLLItems; rfl

theorem specLLItems_cons_zero (P : List (LPat V)) (it : WItem) (r : List WItem) :
    specLLItems P (it :: r) 0 =
      match longestLPat (prefLPats P (it.label :: r.map (·.label))) with
      | none => specLLItems P r 0
      | some p =>
        ⟨stopAt (it :: r) (p.key.length - 1) - p.blen, stopAt (it :: r) (p.key.length - 1),
          p.value⟩ :: specLLItems P r (p.key.length - 1) := by
  conv => lhs; unfold specLLItems
  rfl

theorem specLLItems_skip (P : List (LPat V)) (l : List WItem) :
    ∀ k, specLLItems P l k = specLLItems P (l.drop k) 0 := by
  induction l with
  | nil => intro k; simp [specLLItems_nil]
  | cons a l ih =>
    intro k
    cases k with
    | zero => rfl
    | succ k => simpa [specLLItems] using ih k

theorem specLLItems_none (P : List (LPat V)) (items : List WItem) :
    ∀ s0, bestIn P (items.map (·.label)) s0 = none → specLLItems P items 0 = [] := by
  induction items with
  | nil => intro _ _; exact specLLItems_nil P 0
  | cons it r ih =>
    intro s0 h
    simp only [List.map_cons] at h
    unfold bestIn at h
    split at h
    · cases h
    · next hq =>
      rw [specLLItems_cons_zero, hq]
      exact ih _ h

theorem stopAt_cons_succ (it : WItem) (r : List WItem) (i : Nat) :
    stopAt (it :: r) (i + 1) = stopAt r i := by
  simp [stopAt]

theorem specLLItems_best (P : List (LPat V)) (items : List WItem) :
    ∀ (j : Nat) (p : LPat V), bestIn P (items.map (·.label)) 0 = some (j, p) →
      specLLItems P items 0
        = ⟨stopAt items (j + p.key.length - 1) - p.blen, stopAt items (j + p.key.length - 1),
            p.value⟩ :: specLLItems P (items.drop (j + p.key.length)) 0 := by
  induction items with
  | nil => intro j p h; simp [bestIn] at h
  | cons it r ih =>
    intro j p h
    simp only [List.map_cons] at h
    unfold bestIn at h
    split at h
    · next q hq =>
      cases h
      obtain ⟨_, hk, _⟩ := mem_prefLPats.1 (longestLPat_mem hq)
      have hk' : 0 < p.key.length := List.length_pos_iff.2 hk
      rw [specLLItems_cons_zero, hq]
      simp only [Nat.zero_add]
      rw [specLLItems_skip P r (p.key.length - 1)]
      have e : (it :: r).drop p.key.length = r.drop (p.key.length - 1) := by
        cases hl : p.key.length with
        | zero => omega
        | succ n => simp
      rw [e]
    · next hq =>
      rw [bestIn_shift] at h
      obtain ⟨r0, hr0, he⟩ := Option.map_eq_some_iff.1 h
      obtain ⟨j', p'⟩ := r0
      simp only [Prod.mk.injEq] at he
      obtain ⟨rfl, rfl⟩ := he
      obtain ⟨_, hk, _, _⟩ := bestIn_facts P _ 0 j' p' hr0
      have hk' : 0 < p'.key.length := List.length_pos_iff.2 hk
      have := ih j' p' hr0
      rw [specLLItems_cons_zero, hq]
      simp only
      rw [this]
      have e1 : j' + 1 + p'.key.length - 1 = (j' + p'.key.length - 1) + 1 := by omega
      have e2 : j' + 1 + p'.key.length = (j' + p'.key.length) + 1 := by omega
      rw [e1, e2, stopAt_cons_succ, List.drop_succ_cons]

/-! ### 6. Decoding of the haystack and resumption -/

theorem Consecutive.drop_append {pre : List WItem} :
    ∀ {q : Nat} {it : WItem} {rest : List WItem},
      Consecutive q (pre ++ it :: rest) → Consecutive it.stop rest := by
  induction pre with
  | nil => intro q it rest h; exact h.2.2
  | cons a pre ih => intro q it rest h; exact ih h.2.2

/-- From byte offset `q` the iterator sees the items `rest`, and it can resume after each. -/
structure DecFrom (v : Variant) (h : List Nat) (q : Nat) (rest : List WItem) : Prop where
  here : lmItems v h q = .ok rest
  consec : Consecutive q rest
  resume : ∀ pre it rest', rest = pre ++ it :: rest' → lmItems v h it.stop = .ok rest'

theorem DecFrom.drop {v : Variant} {h : List Nat} {q : Nat} {rest pre rest' : List WItem}
    {it : WItem} (hd : DecFrom v h q rest) (e : rest = pre ++ it :: rest') :
    DecFrom v h it.stop rest' where
  here := hd.resume pre it rest' e
  consec := Consecutive.drop_append (e ▸ hd.consec)
  resume := by
    intro pre2 it2 rest2 e2
    exact hd.resume (pre ++ it :: pre2) it2 rest2 (by rw [e, e2]; simp)

end LmIter

/-- The haystack `h` decodes (for variant `v`) into the items `all`, consecutively from offset
0, and the leftmost iterator can resume after every item (and at 0). True for every byte string
in the byte-wise variant (`decodes_bytewise`) and for valid UTF-8 in the char-wise variant
(`decodes_charwise`). -/
structure Decodes (v : Variant) (h : List Nat) (all : List WItem) : Prop where
  zero : lmItems v h 0 = .ok all
  consec : Consecutive 0 all
  resume : ∀ pre it rest, all = pre ++ it :: rest → lmItems v h it.stop = .ok rest
  length_le : all.length ≤ h.length

namespace LmIter
variable {V : Type}

theorem Decodes.decFrom {v : Variant} {h : List Nat} {all : List WItem} (hd : Decodes v h all) :
    DecFrom v h 0 all := ⟨hd.zero, hd.consec, hd.resume⟩

/-- One `next()` call from a resumable offset. -/
theorem next_spec {da : DA V} {P : List (LPat V)} (hS : LmSem da P)
    (habs : ∀ x, absLm P x [] none 0 = bestIn P x 0)
    {h : List Nat} {q : Nat} {rest : List WItem} (hd : DecFrom da.variant h q rest)
    (hlab : ∀ it ∈ rest, LabelOk da it.label) :
    LmIt.next da ⟨h, q⟩
      = .ok ⟨(lmResult rest q (bestIn P (rest.map (·.label)) 0)).1,
          ⟨h, (lmResult rest q (bestIn P (rest.map (·.label)) 0)).2⟩⟩ := by
  unfold LmIt.next
  simp only [hd.here, lmLoop_spec hS habs rest q hd.consec hlab]

theorem collect_spec {da : DA V} {P : List (LPat V)} (hS : LmSem da P)
    (habs : ∀ x, absLm P x [] none 0 = bestIn P x 0) {h : List Nat} (fuel : Nat) :
    ∀ (q : Nat) (rest : List WItem), DecFrom da.variant h q rest →
      (∀ it ∈ rest, LabelOk da it.label) → rest.length + 1 ≤ fuel →
      ∃ l, collectWith (LmIt.next da) (fun _ => 0) fuel ⟨h, q⟩ = .ok (l, 0) ∧
        l.map (·.1) = specLLItems P rest 0 := by
  induction fuel with
  | zero => intro q rest _ _ hf; omega
  | succ fuel ih =>
    intro q rest hd hlab hf
    unfold collectWith
    rw [next_spec hS habs hd hlab]
    cases hbest : bestIn P (rest.map (·.label)) 0 with
    | none =>
      refine ⟨[], ?_, ?_⟩
      · simp [lmResult]
      · simp [specLLItems_none P rest 0 hbest]
    | some sp =>
      obtain ⟨s, p⟩ := sp
      obtain ⟨_, hk, _, hle⟩ := bestIn_facts P _ 0 s p hbest
      have hk' : 0 < p.key.length := List.length_pos_iff.2 hk
      simp only [List.length_map, Nat.zero_add] at hle
      have hlt : s + p.key.length - 1 < rest.length := by omega
      have hsplit : rest = rest.take (s + p.key.length - 1) ++
          rest[s + p.key.length - 1] :: rest.drop (s + p.key.length) := by
        have := (List.take_append_drop (s + p.key.length - 1) rest).symm
        rw [List.drop_eq_getElem_cons hlt] at this
        have e : s + p.key.length - 1 + 1 = s + p.key.length := by omega
        rw [e] at this
        exact this
      have hstop : stopAt rest (s + p.key.length - 1) = (rest[s + p.key.length - 1]).stop := by
        simp [stopAt, hlt]
      have hd' := hd.drop hsplit
      have hlab' : ∀ it ∈ rest.drop (s + p.key.length), LabelOk da it.label :=
        fun it hit => hlab it (List.mem_of_mem_drop hit)
      obtain ⟨l', hl', hspec'⟩ := ih _ _ hd' hlab' (by simp only [List.length_drop]; omega)
      refine ⟨(⟨stopAt rest (s + p.key.length - 1) - p.blen, stopAt rest (s + p.key.length - 1),
        p.value⟩, 0) :: l', ?_, ?_⟩
      · simp only [lmResult]
        rw [hstop, hl']
      · rw [specLLItems_best P rest s p hbest]
        simp [hspec']

theorem collectFuel_ge (da : DA V) (h : List Nat) : h.length + 2 ≤ collectFuel da h := by
  unfold collectFuel
  have := Nat.le_mul_of_pos_right (h.length + 1) (show 0 < da.outputs.size + 1 by omega)
  omega

end LmIter

open LmIter in
/-- **Part 2.** Repeated `next()` of the leftmost iterator yields exactly the item-level
specification: the leftmost-longest occurrence, then restart after its end. -/
theorem lmAll_spec {V : Type} {da : DA V} {P : List (LPat V)} (hS : LmSem da P)
    (habs : ∀ x, absLm P x [] none 0 = bestIn P x 0)
    {h : List Nat} {all : List WItem} (hd : Decodes da.variant h all)
    (hlab : ∀ it ∈ all, LabelOk da it.label) :
    ∃ l, lmAll da h = .ok (l, 0) ∧ l.map (·.1) = specLLItems P all 0 := by
  unfold lmAll
  have := collectFuel_ge da h
  have := hd.length_le
  exact collect_spec hS habs (collectFuel da h) 0 all (Decodes.decFrom hd) hlab (by omega)

/-- Part 2 in the form "there are `l`, `fin`". -/
theorem lmAll_spec' {V : Type} {da : DA V} {P : List (LPat V)} (hS : LmSem da P)
    (habs : ∀ x, absLm P x [] none 0 = bestIn P x 0)
    {h : List Nat} {all : List WItem} (hd : Decodes da.variant h all)
    (hlab : ∀ it ∈ all, LabelOk da it.label) :
    ∃ l fin, lmAll da h = .ok (l, fin) ∧ l.map (·.1) = specLLItems P all 0 := by
  obtain ⟨l, h1, h2⟩ := lmAll_spec hS habs hd hlab
  exact ⟨l, 0, h1, h2⟩

namespace LmIter
variable {V : Type}

/-! ### 7. The two instances of `Decodes` -/

theorem byteItems_nil (p : Nat) : byteItems [] p = [] := by simp [byteItems]

theorem byteItems_cons (b : Nat) (bs : List Nat) (p : Nat) :
    byteItems (b :: bs) p = ⟨b, 1, p + 1⟩ :: byteItems bs (p + 1) := by
  simp [byteItems, List.zipIdx_cons]

theorem byteItems_length (bs : List Nat) (p : Nat) : (byteItems bs p).length = bs.length := by
  simp [byteItems]

theorem byteItems_labels (bs : List Nat) : ∀ p, (byteItems bs p).map (·.label) = bs := by
  induction bs with
  | nil => intro p; simp [byteItems_nil]
  | cons b bs ih => intro p; simp [byteItems_cons, ih]

theorem byteItems_consecutive (bs : List Nat) : ∀ p, Consecutive p (byteItems bs p) := by
  induction bs with
  | nil => intro p; simp [byteItems_nil, Consecutive]
  | cons b bs ih =>
    intro p
    rw [byteItems_cons]
    exact ⟨rfl, Nat.one_pos, ih (p + 1)⟩

theorem byteItems_split (pre : List WItem) :
    ∀ (bs : List Nat) (p : Nat) (it : WItem) (rest : List WItem),
      byteItems bs p = pre ++ it :: rest →
      it.stop = p + pre.length + 1 ∧
        rest = byteItems (bs.drop (pre.length + 1)) (p + pre.length + 1) := by
  induction pre with
  | nil =>
    intro bs p it rest h
    cases bs with
    | nil => simp [byteItems_nil] at h
    | cons b bs =>
      rw [byteItems_cons] at h
      simp only [List.nil_append, List.cons.injEq] at h
      obtain ⟨rfl, rfl⟩ := h
      simp
  | cons a pre ih =>
    intro bs p it rest h
    cases bs with
    | nil => simp [byteItems_nil] at h
    | cons b bs =>
      rw [byteItems_cons] at h
      simp only [List.cons_append, List.cons.injEq] at h
      obtain ⟨h1, h2⟩ := ih bs (p + 1) it rest h.2
      refine ⟨by simp only [List.length_cons]; omega, ?_⟩
      rw [h2]
      simp only [List.length_cons, List.drop_succ_cons]
      congr 1
      omega

theorem lmItems_bytewise (h : List Nat) (q : Nat) :
    lmItems .bytewise h q = .ok (byteItems (h.drop q) q) := by
  unfold lmItems
  exact allItems_bytewise _ _ _ (Nat.le_refl _)

end LmIter

open LmIter in
/-- Every byte string decodes for the byte-wise variant. -/
theorem decodes_bytewise (h : List Nat) : Decodes .bytewise h (byteItems h 0) where
  zero := by simpa using lmItems_bytewise h 0
  consec := byteItems_consecutive h 0
  resume := by
    intro pre it rest e
    obtain ⟨h1, h2⟩ := byteItems_split pre h 0 it rest e
    simp only [Nat.zero_add] at h1 h2
    rw [lmItems_bytewise, h1, h2]
  length_le := by rw [byteItems_length]; exact Nat.le_refl _

namespace LmIter

theorem itemsOf_consecutive (cs : List Nat) : ∀ p, Consecutive p (itemsOf cs p) := by
  induction cs with
  | nil => intro p; simp [Consecutive]
  | cons c cs ih =>
    intro p
    rw [itemsOf_cons]
    exact ⟨rfl, utf8Width_pos c, ih _⟩

theorem length_le_encAll (cs : List Nat) : cs.length ≤ (encAll cs).length := by
  induction cs with
  | nil => simp
  | cons c cs ih =>
    rw [encAll_length_cons]
    have := utf8Width_pos c
    simp only [List.length_cons]
    omega

theorem itemsOf_split (pre : List WItem) :
    ∀ (cs : List Nat) (p : Nat) (it : WItem) (rest : List WItem),
      itemsOf cs p = pre ++ it :: rest →
      ∃ t1 t2, cs = t1 ++ t2 ∧ it.stop = p + (encAll t1).length ∧ rest = itemsOf t2 it.stop := by
  induction pre with
  | nil =>
    intro cs p it rest h
    cases cs with
    | nil => simp at h
    | cons c cs =>
      rw [itemsOf_cons] at h
      simp only [List.nil_append, List.cons.injEq] at h
      obtain ⟨rfl, rfl⟩ := h
      exact ⟨[c], cs, by simp, by simp [encScalar_length], rfl⟩
  | cons a pre ih =>
    intro cs p it rest h
    cases cs with
    | nil => simp at h
    | cons c cs =>
      rw [itemsOf_cons] at h
      simp only [List.cons_append, List.cons.injEq] at h
      obtain ⟨t1, t2, e, h1, h2⟩ := ih cs _ it rest h.2
      refine ⟨c :: t1, t2, by simp [e], ?_, h2⟩
      rw [h1, encAll_length_cons]
      omega

end LmIter

open LmIter in
/-- Valid UTF-8 decodes for the char-wise variant. -/
theorem decodes_charwise (cs : List Nat) (hcs : ∀ c ∈ cs, isScalar c = true) :
    Decodes .charwise (encAll cs) (itemsOf cs 0) where
  zero := (lmItems_at_zero cs hcs).2
  consec := itemsOf_consecutive cs 0
  resume := by
    intro pre it rest e
    obtain ⟨t1, t2, e1, h1, h2⟩ := itemsOf_split pre cs 0 it rest e
    have hs : it.stop = (encAll t1).length := by omega
    rw [h2, hs, e1]
    exact lmItems_encAll t1 t2 (fun c hc => hcs c (by rw [e1]; simp [hc]))
  length_le := by rw [itemsOf_length]; exact length_le_encAll cs

/-! ### 8. Part 3: byte-wise variant, byte-level specification -/

/-- A byte-level pattern as a label-level pattern of the byte-wise automaton. -/
def lpOf {V : Type} (p : Pat V) : LPat V := ⟨p.key, p.key.length, p.value⟩

namespace LmIter
variable {V : Type}

theorem longestPat_mem {l : List (Pat V)} {p : Pat V} (h : longestPat l = some p) : p ∈ l := by
  induction l generalizing p with
  | nil => simp [longestPat] at h
  | cons a l ih =>
    unfold longestPat at h
    split at h
    · cases h; simp
    · next q hq =>
      split at h
      · cases h; exact List.mem_cons_of_mem _ (ih hq)
      · cases h; simp

theorem longestLPat_map (l : List (Pat V)) :
    longestLPat (l.map lpOf) = (longestPat l).map lpOf := by
  induction l with
  | nil => rfl
  | cons a l ih =>
    simp only [List.map_cons]
    unfold longestLPat longestPat
    rw [ih]
    cases longestPat l with
    | none => rfl
    | some q =>
      simp only [Option.map_some]
      by_cases hlt : q.key.length > a.key.length
      · have : (lpOf q).key.length > (lpOf a).key.length := hlt
        simp [hlt, this]
      · have : ¬ (lpOf q).key.length > (lpOf a).key.length := hlt
        simp [hlt, this]

theorem prefLPats_map (Ps : List (Pat V)) (x : List Nat) :
    prefLPats (Ps.map lpOf) x = (prefPats Ps x).map lpOf := by
  unfold prefLPats prefPats
  rw [List.filter_map]
  rfl

theorem stopAt_byteItems (bs : List Nat) :
    ∀ (p i : Nat), i < bs.length → stopAt (byteItems bs p) i = p + i + 1 := by
  induction bs with
  | nil => intro p i h; simp at h
  | cons b bs ih =>
    intro p i h
    rw [byteItems_cons]
    cases i with
    | zero => simp [stopAt]
    | succ i =>
      rw [stopAt_cons_succ, ih (p + 1) i (by simpa using h)]
      omega

theorem specLLItems_bytes_go (Ps : List (Pat V)) (h : List Nat) :
    ∀ s skip, specLLItems (Ps.map lpOf) (byteItems h s) skip
      = specLeftmostGo longestPat Ps h s skip := by
  induction h with
  | nil => intro s skip; rw [byteItems_nil, specLLItems_nil]; simp [specLeftmostGo]
  | cons c r ih =>
    intro s skip
    cases skip with
    | succ k =>
      rw [byteItems_cons]
      simp only [specLLItems, specLeftmostGo]
      exact ih _ _
    | zero =>
      have hcons := byteItems_cons c r s
      rw [hcons, specLLItems_cons_zero, ← hcons]
      simp only [byteItems_labels, prefLPats_map, longestLPat_map]
      unfold specLeftmostGo
      cases hq : longestPat (prefPats Ps (c :: r)) with
      | none => simpa using ih (s + 1) 0
      | some p =>
        have hm := longestPat_mem hq
        simp only [prefPats, List.mem_filter, decide_eq_true_eq] at hm
        obtain ⟨_, hk, hpre⟩ := hm
        have hk' : 0 < p.key.length := List.length_pos_iff.2 hk
        have hle := hpre.length_le
        have hst : stopAt (byteItems (c :: r) s) (p.key.length - 1) = s + p.key.length := by
          rw [stopAt_byteItems _ _ _ (by omega)]; omega
        simp only [Option.map_some, lpOf, hst]
        rw [ih (s + 1) (p.key.length - 1)]
        congr 2
        omega

end LmIter

open LmIter in
/-- **Part 3.** For byte items the item-level specification is the byte-level specification
`specLL` of Daac/Spec.lean. -/
theorem specLLItems_bytes {V : Type} (Ps : List (Pat V)) (h : List Nat) :
    specLLItems (Ps.map lpOf) (byteItems h 0) 0 = specLL Ps h :=
  specLLItems_bytes_go Ps h 0 0

open LmIter in
/-- End-to-end corollary for the byte-wise variant: `lmAll` returns `specLL`. -/
theorem lmAll_bytewise_spec {V : Type} {da : DA V} (Ps : List (Pat V))
    (hS : LmSem da (Ps.map lpOf))
    (habs : ∀ x, absLm (Ps.map lpOf) x [] none 0 = bestIn (Ps.map lpOf) x 0)
    (hv : da.variant = .bytewise) (h : List Nat) (hlab : ∀ b ∈ h, LabelOk da b) :
    ∃ l, lmAll da h = .ok (l, 0) ∧ l.map (·.1) = specLL Ps h := by
  have hd : Decodes da.variant h (byteItems h 0) := hv ▸ decodes_bytewise h
  have hl : ∀ it ∈ byteItems h 0, LabelOk da it.label := by
    intro it hit
    apply hlab
    have : it.label ∈ (byteItems h 0).map (·.label) := List.mem_map_of_mem hit
    rwa [byteItems_labels] at this
  obtain ⟨l, h1, h2⟩ := lmAll_spec hS habs hd hl
  exact ⟨l, h1, by rw [h2, specLLItems_bytes]⟩

end Daac

/-
Property C13 ("standard scans are linear"): the number of automaton transitions taken while a
standard-kind automaton scans a haystack is at most twice the number of items (hence at most
twice the number of bytes) — for every input. Potential argument: every fail step strictly
shortens the current node, a goto lengthens it by one.
Core Lean only.
-/
import Daac.Proofs.StdSem2
import Daac.Proofs.IterFacts
namespace Daac
set_option linter.unusedSectionVars false
variable {V : Type} [DecidableEq V]

/-! ### 1. One transition, with its step count -/

/-- `nextLoop_ok` of StdSem2.lean, carrying the iteration count: from the node `u` the loop takes
`k ≥ 1` iterations and lands on the node `t` with `k + |t| ≤ |u| + 2`. -/
theorem nextLoop_steps {da : DA V} {P : List (LPat V)} (hT : da.tableInv P = true) {c cc : Nat}
    (hc : LabelOk da c) (hcc : da.code c = some cc) :
    ∀ (fuel : Nat) (u : List Nat), u ∈ nodeList P → u.length < fuel → ∀ n,
      ∃ k, da.nextLoop fuel (da.idx u) cc n
          = .ok (da.idx (lsuf (nodeList P) (u ++ [c])), n + k) ∧
        1 ≤ k ∧ k + (lsuf (nodeList P) (u ++ [c])).length ≤ u.length + 2 := by
  intro fuel
  induction fuel with
  | zero => intro u _ h; exact absurd h (Nat.not_lt_zero _)
  | succ fuel ih =>
    intro u hu hlen n
    have hN := nodeList_prefClosed P
    obtain ⟨j, hj, hg, hjr, _⟩ := node_good hT hu
    have hcl : da.child j cc = da.childL j c := by simp [DA.childL, hcc]
    rw [idx_of_walk hj]
    unfold DA.nextLoop
    rw [hcl]
    rcases hg.step hc with ⟨hs, hch⟩ | ⟨hs, j', hch, _, _, _⟩
    · rw [hch]
      rw [stepRes_resid] at hs
      have hnot : u ++ [c] ∉ nodeList P := by
        intro hm
        rcases mem_nodeList.1 hm with h | h
        · simp at h
        · exact (resid_ne_nil_iff.2 h) hs
      by_cases hroot : j = rootIdx
      · have hu0 : u = [] := Classical.byContradiction fun h => hjr h hroot
        subst hu0
        have : lsuf (nodeList P) ([] ++ [c]) = [] := by
          simp only [List.nil_append] at hnot ⊢
          rw [lsuf_cons_of_not_mem hnot, lsuf_nil]
        refine ⟨1, ?_, Nat.le_refl _, ?_⟩
        · simp only [hroot, if_true]
          rw [this, idx_nil]
        · rw [this]; simp
      · have hu0 : u ≠ [] := by
          rintro rfl
          simp [DA.walk, DA.walkFrom] at hj
          exact hroot hj.symm
        obtain ⟨st, hst, _, hfail, _⟩ := hg.unfold
        simp only [hroot, if_false, hst]
        rw [hfail hu0, lpsIdx_eq hT hu, lsuf_fail hN u c hu0 hnot]
        obtain ⟨hv, hvl⟩ := lps_mem_lt (P := P) hu0
        obtain ⟨k, hk, hk1, hk2⟩ := ih _ hv (by omega) (n + 1)
        refine ⟨k + 1, ?_, by omega, by omega⟩
        rw [hk]
        congr 2
        omega
    · rw [hch]
      have hm : u ++ [c] ∈ nodeList P := by
        rw [stepRes_resid] at hs
        exact mem_nodeList.2 (Or.inr (resid_ne_nil_iff.1 hs))
      rw [lsuf_mem_self hm hN.nil_mem]
      have : da.walk (u ++ [c]) = some j' := by
        unfold DA.walk at hj ⊢
        rw [walkFrom_append, hj]
        simp [DA.walkFrom, hch]
      refine ⟨1, ?_, Nat.le_refl _, ?_⟩
      · rw [idx_of_walk this]
      · simp; omega

/-- The longest suffix of `u ++ [c]` that is a node is the root when `c` has no code. -/
theorem lsuf_snoc_code_none {da : DA V} {P : List (LPat V)} (hT : da.tableInv P = true)
    (u : List Nat) {c : Nat} (hcc : da.code c = none) :
    lsuf (nodeList P) (u ++ [c]) = [] := by
  have hN := nodeList_prefClosed P
  obtain ⟨a, b, _⟩ := lsuf_spec hN.nil_mem (u ++ [c])
  rcases List.suffix_concat_iff.1 a with h0 | ⟨t, ht, _⟩
  · exact h0
  · exfalso
    obtain ⟨_, _, _, _, hsig⟩ := node_good hT b
    have := code_isSome_of_mem_sigma (hsig c (by simp [ht]))
    simp [hcc] at this

theorem lsuf_mem_nodeList (P : List (LPat V)) (x : List Nat) : lsuf (nodeList P) x ∈ nodeList P :=
  (lsuf_spec (nodeList_prefClosed P).nil_mem x).2.1

/-- One call of the transition function from the node `u`: it returns the node
`t = lsuf N (u ++ [c])` after `k` loop iterations with `k + |t| ≤ |u| + 2`. -/
theorem nextS_steps {da : DA V} {P : List (LPat V)} (hT : da.tableInv P = true)
    (hD : maxKeyLen P < da.states.size) {u : List Nat} (hu : u ∈ nodeList P) {c : Nat}
    (hc : LabelOk da c) :
    ∃ k, da.nextS (da.idx u) c = .ok (da.idx (lsuf (nodeList P) (u ++ [c])), k) ∧
      k + (lsuf (nodeList P) (u ++ [c])).length ≤ u.length + 2 := by
  cases hcc : da.code c with
  | none =>
    refine ⟨0, ?_, ?_⟩
    · rw [lsuf_snoc_code_none hT u hcc, idx_nil]
      simp [DA.nextS, hcc]
    · rw [lsuf_snoc_code_none hT u hcc]; simp
  | some cc =>
    have hlen : u.length < da.fuel := by
      have := node_length_le hu
      unfold DA.fuel; omega
    obtain ⟨k, hk, _, hk2⟩ := nextLoop_steps hT hc hcc da.fuel u hu hlen 0
    refine ⟨k, ?_, hk2⟩
    simp only [DA.nextS, hcc, hk, Nat.zero_add]

/-- When the label has a code, at least one iteration is taken. -/
theorem nextS_steps_pos {da : DA V} {P : List (LPat V)} (hT : da.tableInv P = true)
    (hD : maxKeyLen P < da.states.size) {u : List Nat} (hu : u ∈ nodeList P) {c cc : Nat}
    (hc : LabelOk da c) (hcc : da.code c = some cc) :
    ∃ k, da.nextS (da.idx u) c = .ok (da.idx (lsuf (nodeList P) (u ++ [c])), k) ∧ 1 ≤ k ∧
      k + (lsuf (nodeList P) (u ++ [c])).length ≤ u.length + 2 := by
  have hlen : u.length < da.fuel := by
    have := node_length_le hu
    unfold DA.fuel; omega
  obtain ⟨k, hk, hk1, hk2⟩ := nextLoop_steps hT hc hcc da.fuel u hu hlen 0
  refine ⟨k, ?_, hk1, hk2⟩
  simp only [DA.nextS, hcc, hk, Nat.zero_add]

/-! ### 2. Items of a source -/

/-- Label-level invariant of a source: every item the decoder produces (until it ends or faults)
carries a label the tables were checked for. -/
def ItemsOk (da : DA V) : Nat → Src → Prop
  | 0, _ => True
  | fuel + 1, s =>
    match nextItem da.variant s with
    | .ok (some (item, s')) => LabelOk da item.label ∧ ItemsOk da fuel s'
    | _ => True

theorem itemsOk_of_forall {da : DA V} (h : ∀ c, LabelOk da c) :
    ∀ (fuel : Nat) (s : Src), ItemsOk da fuel s
  | 0, _ => trivial
  | fuel + 1, s => by
    unfold ItemsOk
    split
    · exact ⟨h _, itemsOk_of_forall h fuel _⟩
    · trivial

theorem itemsOk_of_allItems {da : DA V} :
    ∀ (fuel : Nat) (s : Src) (items : List WItem), allItems da.variant fuel s = .ok items →
      (∀ w ∈ items, LabelOk da w.label) → ItemsOk da fuel s
  | 0, _, _, _, _ => trivial
  | fuel + 1, s, items, h, hl => by
    unfold allItems at h
    unfold ItemsOk
    split
    · next item s' hi =>
      rw [hi] at h
      simp only at h
      split at h
      · cases h
      · next l hl' =>
        cases h
        exact ⟨hl _ (List.mem_cons_self ..), itemsOk_of_allItems fuel s' l hl' (fun w hw => hl w (by simp [hw]))⟩
    · trivial

/-- Every item consumes at least one byte. -/
theorem allItems_length_le {v : Variant} :
    ∀ (fuel : Nat) (s : Src) (items : List WItem), allItems v fuel s = .ok items →
      items.length ≤ s.rest.length
  | 0, _, _, h => by simp [allItems] at h
  | fuel + 1, s, items, h => by
    unfold allItems at h
    split at h
    · cases h
    · cases h; simp
    · next item s' hi =>
      obtain ⟨_, _, i3, _, _⟩ := nextItem_spec hi
      split at h
      · cases h
      · next l hl =>
        cases h
        have := allItems_length_le fuel s' l hl
        simp only [List.length_cons]
        omega

theorem allItems_ne_fuel {v : Variant} :
    ∀ (fuel : Nat) (s : Src), s.rest.length < fuel → allItems v fuel s ≠ .error .fuel
  | 0, _, hf => by omega
  | fuel + 1, s, hf => by
    intro h
    unfold allItems at h
    split at h
    · next e hi => cases h; exact nextItem_ne_fuel _ _ hi
    · cases h
    · next item s' hi =>
      obtain ⟨_, _, i3, _, _⟩ := nextItem_spec hi
      split at h
      · next e he => cases h; exact allItems_ne_fuel fuel s' (by omega) he
      · cases h

/-! ### 3. The whole scan -/

/-- The scan from the node `u`: a decoding fault is passed on unchanged; otherwise the scan
succeeds and `total + |final node| ≤ n + |u| + 2 * #items` (`t` is the node the scan ends in). -/
theorem scanSteps_spec {da : DA V} {P : List (LPat V)} (hT : da.tableInv P = true)
    (hD : maxKeyLen P < da.states.size) :
    ∀ (fuel : Nat) (u : List Nat) (src : Src) (n : Nat), u ∈ nodeList P → ItemsOk da fuel src →
      (∀ e, allItems da.variant fuel src = .error e →
        scanSteps da fuel (da.idx u) src n = .error e) ∧
      (∀ items, allItems da.variant fuel src = .ok items →
        ∃ total t, scanSteps da fuel (da.idx u) src n = .ok total ∧ t ∈ nodeList P ∧
          total + t.length ≤ n + u.length + 2 * items.length)
  | 0, u, src, n, _, _ => by
    constructor
    · intro e h; simp only [allItems] at h; cases h; rfl
    · intro items h; simp [allItems] at h
  | fuel + 1, u, src, n, hu, hok => by
    unfold ItemsOk at hok
    unfold allItems scanSteps
    cases hi : nextItem da.variant src with
    | error e0 =>
      dsimp only
      constructor
      · intro e h; cases h; rfl
      · intro items h; cases h
    | ok r =>
      cases r with
      | none =>
        dsimp only
        constructor
        · intro e h; cases h
        · intro items h
          cases h
          exact ⟨n, u, rfl, hu, by simp⟩
      | some pr =>
        obtain ⟨item, src'⟩ := pr
        dsimp only
        rw [hi] at hok
        obtain ⟨hl, hok'⟩ := hok
        obtain ⟨k, hk, hk2⟩ := nextS_steps hT hD hu hl
        have ht := lsuf_mem_nodeList P (u ++ [item.label])
        obtain ⟨ih1, ih2⟩ :=
          scanSteps_spec hT hD fuel (lsuf (nodeList P) (u ++ [item.label])) src' (n + k) ht hok'
        simp only [hk]
        constructor
        · intro e h
          split at h
          · next e' he => cases h; exact ih1 _ he
          · cases h
        · intro items h
          split at h
          · cases h
          · next l hl' =>
            cases h
            obtain ⟨total, t, h1, h2, h3⟩ := ih2 l hl'
            refine ⟨total, t, h1, h2, ?_⟩
            simp only [List.length_cons]
            omega

/-- The invariant in the form asked for: if decoding does not fault and all item labels are
`LabelOk`, a scan started at the node `u` with `n` transitions already counted returns `total`
with `total + |final node| ≤ n + |u| + 2 * #items`. -/
theorem scanSteps_bound {da : DA V} {P : List (LPat V)} (hT : da.tableInv P = true)
    (hD : maxKeyLen P < da.states.size) {fuel : Nat} {u : List Nat} {src : Src} {n : Nat}
    {items : List WItem} (hu : u ∈ nodeList P)
    (hi : allItems da.variant fuel src = .ok items) (hl : ∀ w ∈ items, LabelOk da w.label) :
    ∃ total t, scanSteps da fuel (da.idx u) src n = .ok total ∧ t ∈ nodeList P ∧
      total + t.length ≤ n + u.length + 2 * items.length :=
  (scanSteps_spec hT hD fuel u src n hu (itemsOk_of_allItems fuel src items hi hl)).2 items hi

/-- Termination of every transition: with enough fuel for the source, a scan never reports
`.fuel` — neither from its own loop nor from the transition loop. -/
theorem scanSteps_ne_fuel {da : DA V} {P : List (LPat V)} (hT : da.tableInv P = true)
    (hD : maxKeyLen P < da.states.size) {fuel : Nat} {u : List Nat} {src : Src} {n : Nat}
    (hu : u ∈ nodeList P) (hok : ItemsOk da fuel src) (hf : src.rest.length < fuel) :
    scanSteps da fuel (da.idx u) src n ≠ .error .fuel := by
  obtain ⟨h1, h2⟩ := scanSteps_spec hT hD fuel u src n hu hok
  cases ha : allItems da.variant fuel src with
  | error e =>
    rw [h1 e ha]
    intro h; cases h
    exact allItems_ne_fuel fuel src hf ha
  | ok items =>
    obtain ⟨total, _, h, _⟩ := h2 items ha
    rw [h]; intro h'; cases h'

/-- A scan faults only if decoding faults, and then with the same fault. -/
theorem scanSteps_ok_or_decode_fault {da : DA V} {P : List (LPat V)} (hT : da.tableInv P = true)
    (hD : maxKeyLen P < da.states.size) {fuel : Nat} {u : List Nat} {src : Src} {n : Nat}
    (hu : u ∈ nodeList P) (hok : ItemsOk da fuel src) :
    (∃ total, scanSteps da fuel (da.idx u) src n = .ok total) ∨
      (∃ e, allItems da.variant fuel src = .error e ∧
        scanSteps da fuel (da.idx u) src n = .error e) := by
  obtain ⟨h1, h2⟩ := scanSteps_spec hT hD fuel u src n hu hok
  cases ha : allItems da.variant fuel src with
  | error e => exact Or.inr ⟨e, rfl, h1 e ha⟩
  | ok items =>
    obtain ⟨total, _, h, _⟩ := h2 items ha
    exact Or.inl ⟨total, h⟩

/-! ### 4. Whole haystacks -/

theorem nil_mem_nodeList (P : List (LPat V)) : ([] : List Nat) ∈ nodeList P :=
  (nodeList_prefClosed P).nil_mem

/-- The number of items of a haystack is at most its number of bytes. -/
theorem hayItems_length_le {v : Variant} {h : List Nat} {items : List WItem}
    (hi : allItems v (h.length + 1) ⟨h, 0⟩ = .ok items) : items.length ≤ h.length :=
  allItems_length_le _ _ _ hi

/-- Existence form: the scan of a whole haystack succeeds and takes at most `2 * #items`
transitions. -/
theorem steps_total {da : DA V} {P : List (LPat V)} (hT : da.tableInv P = true)
    (hD : maxKeyLen P < da.states.size) {h : List Nat} {items : List WItem}
    (hi : allItems da.variant (h.length + 1) ⟨h, 0⟩ = .ok items)
    (hl : ∀ w ∈ items, LabelOk da w.label) :
    ∃ total, scanSteps da (h.length + 1) rootIdx (startSrc h) 0 = .ok total ∧
      total ≤ 2 * items.length ∧ total ≤ 2 * h.length := by
  obtain ⟨total, t, h1, _, h3⟩ :=
    scanSteps_bound (n := 0) hT hD (nil_mem_nodeList P) hi hl
  rw [idx_nil] at h1
  have := hayItems_length_le hi
  simp only [List.length_nil] at h3
  exact ⟨total, h1, by omega, by omega⟩

/-- **Standard scans are linear**: the total number of automaton transitions while scanning a
haystack is at most twice its number of items, hence at most twice its number of bytes. -/
theorem steps_le_2n {da : DA V} {P : List (LPat V)} (hT : da.tableInv P = true)
    (hD : maxKeyLen P < da.states.size) {h : List Nat} {items : List WItem}
    (hi : allItems da.variant (h.length + 1) ⟨h, 0⟩ = .ok items)
    (hl : ∀ w ∈ items, LabelOk da w.label) {total : Nat}
    (hs : scanSteps da (h.length + 1) rootIdx (startSrc h) 0 = .ok total) :
    total ≤ 2 * items.length ∧ total ≤ 2 * h.length := by
  obtain ⟨total', h1, h2, h3⟩ := steps_total hT hD hi hl
  rw [h1] at hs
  cases hs
  exact ⟨h2, h3⟩

/-! #### Byte-wise -/

theorem labelOk_of_bytewise {da : DA V} (hv : da.variant = .bytewise) {c : Nat} (hc : c < 256) :
    LabelOk da c := by
  left
  simp [DA.sigma, hv, hc]

/-- Byte-wise decoding never faults; the items are the bytes. -/
theorem allItems_bytewise_labels :
    ∀ (fuel : Nat) (s : Src), s.rest.length < fuel →
      ∃ items, allItems .bytewise fuel s = .ok items ∧ items.map (·.label) = s.rest
  | 0, _, hf => by omega
  | fuel + 1, s, hf => by
    obtain ⟨rest, pulled⟩ := s
    cases rest with
    | nil => exact ⟨[], by simp [allItems, nextItem, Src.pull], rfl⟩
    | cons b r =>
      obtain ⟨l, hl1, hl2⟩ := allItems_bytewise_labels fuel ⟨r, pulled + 1⟩
        (by simp at hf ⊢; omega)
      refine ⟨⟨b, (pulled + 1) - pulled, pulled + 1⟩ :: l, ?_, ?_⟩
      · simp only [allItems, nextItem, Src.pull, hl1]
      · simpa using hl2

/-- Byte-wise: for every haystack of bytes the scan succeeds with at most `2 * |h|` transitions. -/
theorem steps_le_2n_bytewise {da : DA V} {P : List (LPat V)} (hT : da.tableInv P = true)
    (hD : maxKeyLen P < da.states.size) (hv : da.variant = .bytewise) {h : List Nat}
    (hb : ∀ b ∈ h, b < 256) :
    ∃ total, scanSteps da (h.length + 1) rootIdx (startSrc h) 0 = .ok total ∧
      total ≤ 2 * h.length := by
  obtain ⟨items, hi, hlab⟩ := allItems_bytewise_labels (h.length + 1) ⟨h, 0⟩ (Nat.lt_succ_self _)
  rw [← hv] at hi
  have hl : ∀ w ∈ items, LabelOk da w.label := by
    intro w hw
    apply labelOk_of_bytewise hv
    apply hb
    simp only at hlab
    rw [← hlab]
    exact List.mem_map_of_mem hw
  obtain ⟨total, h1, _, h3⟩ := steps_total hT hD hi hl
  exact ⟨total, h1, h3⟩

/-! #### Char-wise -/

/-- For the char-wise automaton every label is either in the evaluated alphabet or unmapped. -/
theorem labelOk_of_charwise {da : DA V} (hv : da.variant = .charwise) (c : Nat) :
    LabelOk da c := by
  cases hcc : da.code c with
  | none => exact Or.inr hcc
  | some cc =>
    left
    have hlt : c < da.mapTable.size := by
      unfold DA.code at hcc
      rw [hv] at hcc
      simp only at hcc
      split at hcc
      · next x hx =>
        have := (Array.getElem?_eq_some_iff.1 hx).1
        exact this
      · cases hcc
    simp only [DA.sigma, hv, List.mem_filter, List.mem_range]
    exact ⟨hlt, by simp [hcc]⟩

/-- Char-wise: whenever the haystack decodes without fault, the scan succeeds with at most
`2 * #chars ≤ 2 * |h|` transitions. -/
theorem steps_le_2n_charwise {da : DA V} {P : List (LPat V)} (hT : da.tableInv P = true)
    (hD : maxKeyLen P < da.states.size) (hv : da.variant = .charwise) {h : List Nat}
    {items : List WItem} (hi : allItems .charwise (h.length + 1) ⟨h, 0⟩ = .ok items) :
    ∃ total, scanSteps da (h.length + 1) rootIdx (startSrc h) 0 = .ok total ∧
      total ≤ 2 * items.length ∧ total ≤ 2 * h.length := by
  rw [← hv] at hi
  exact steps_total hT hD hi (fun w _ => labelOk_of_charwise hv w.label)

/-- Char-wise: for every byte string, the scan never runs out of fuel; it either succeeds or
reports the decoding fault. -/
theorem scanSteps_charwise_total {da : DA V} {P : List (LPat V)} (hT : da.tableInv P = true)
    (hD : maxKeyLen P < da.states.size) (hv : da.variant = .charwise) (h : List Nat) :
    scanSteps da (h.length + 1) rootIdx (startSrc h) 0 ≠ .error .fuel ∧
    ((∃ total, scanSteps da (h.length + 1) rootIdx (startSrc h) 0 = .ok total) ∨
      (∃ e, allItems da.variant (h.length + 1) (startSrc h) = .error e ∧
        scanSteps da (h.length + 1) rootIdx (startSrc h) 0 = .error e)) := by
  have hok := itemsOk_of_forall (labelOk_of_charwise hv) (h.length + 1) (startSrc h)
  have h1 := scanSteps_ne_fuel (n := 0) hT hD (nil_mem_nodeList P) hok
    (by simp [startSrc])
  have h2 := scanSteps_ok_or_decode_fault (n := 0) hT hD (nil_mem_nodeList P) hok
  rw [idx_nil] at h1 h2
  exact ⟨h1, h2⟩

/-! ### 5. Fail links cannot cycle -/

/-- The ranking statement: the fail link of a non-root node `u` points to the node `lps N u`,
which is strictly shorter. -/
theorem fail_rank {da : DA V} {P : List (LPat V)} (hT : da.tableInv P = true) {u : List Nat}
    (hu : u ∈ nodeList P) (hu0 : u ≠ []) :
    ∃ st, da.st (da.idx u) = .ok st ∧ st.fail = da.idx (lps (nodeList P) u) ∧
      lps (nodeList P) u ∈ nodeList P ∧ (lps (nodeList P) u).length < u.length := by
  obtain ⟨j, hj, hg, _, _⟩ := node_good hT hu
  obtain ⟨st, hst, _, hfail, _⟩ := hg.unfold
  obtain ⟨hv, hvl⟩ := lps_mem_lt (P := P) hu0
  refine ⟨st, ?_, ?_, hv, hvl⟩
  · rw [idx_of_walk hj]; exact hst
  · rw [hfail hu0, lpsIdx_eq hT hu]

/-- Following fail links `k` times. -/
def DA.failIter (da : DA V) : Nat → Nat → Option Nat
  | 0, i => some i
  | k + 1, i =>
    match da.states[i]? with
    | some st => da.failIter k st.fail
    | none => none

/-- From every node the fail chain reaches the root within `|u|` links. -/
theorem fail_reaches_root {da : DA V} {P : List (LPat V)} (hT : da.tableInv P = true) :
    ∀ (m : Nat) (u : List Nat), u.length ≤ m → u ∈ nodeList P →
      ∃ k, k ≤ u.length ∧ da.failIter k (da.idx u) = some rootIdx
  | 0, u, hm, _ => by
    have : u = [] := List.eq_nil_of_length_eq_zero (by omega)
    subst this
    exact ⟨0, Nat.le_refl _, by simp [DA.failIter, idx_nil]⟩
  | m + 1, u, hm, hu => by
    by_cases hu0 : u = []
    · subst hu0
      exact ⟨0, Nat.le_refl _, by simp [DA.failIter, idx_nil]⟩
    · obtain ⟨st, hst, hfail, hv, hvl⟩ := fail_rank hT hu hu0
      obtain ⟨k, hk, hk2⟩ := fail_reaches_root hT m _ (by omega) hv
      refine ⟨k + 1, by omega, ?_⟩
      have : da.states[da.idx u]? = some st := by
        unfold DA.st at hst
        split at hst
        · next s hs => cases hst; exact hs
        · cases hst
      simp only [DA.failIter, this, hfail, hk2]

#print axioms nextLoop_steps
#print axioms nextS_steps
#print axioms scanSteps_spec
#print axioms scanSteps_ne_fuel
#print axioms steps_le_2n
#print axioms steps_le_2n_bytewise
#print axioms steps_le_2n_charwise
#print axioms scanSteps_charwise_total
#print axioms fail_rank
#print axioms fail_reaches_root

end Daac

/-
(G3) and (G1) for the sparse NFA of the leftmost kinds, derived from the characterisation (F) of
the fail links (`FailChar`, Proofs/NfaLmIface.lean):
  * `nfaNextLm_eq_deltaL` : the leftmost transition on the NFA computes `deltaL`;
  * `oposLm`              : the output position of every node is the record of `oposL`.
Core Lean only.
-/
import Daac.Proofs.NfaLmIface
import Daac.Proofs.NfaQueue
import Daac.Proofs.LmAbs
namespace Daac
variable {V : Type}

/-! ### `lps` on the node list -/

theorem lps_suffix (P : List (LPat V)) (u : List Nat) : lps (nodeList P) u <:+ u := by
  unfold lps
  exact ((lsuf_spec (nodeList_prefClosed P).nil_mem u.tail).1).trans (List.tail_suffix u)

theorem lps_mem (P : List (LPat V)) (u : List Nat) : lps (nodeList P) u ∈ nodeList P := by
  unfold lps
  exact (lsuf_spec (nodeList_prefClosed P).nil_mem u.tail).2.1

theorem lps_length_lt (P : List (LPat V)) {u : List Nat} (hu : u ≠ []) :
    (lps (nodeList P) u).length < u.length := by
  have h := ((lsuf_spec (nodeList_prefClosed P).nil_mem u.tail).1).length_le
  unfold lps
  cases u with
  | nil => exact absurd rfl hu
  | cons a u => simp only [List.tail_cons, List.length_cons] at h ⊢; omega

/-- Every proper suffix of `u` that is a node is at most as long as `lps u`. -/
theorem lps_max (P : List (LPat V)) {u w : List Nat} (hw : w <:+ u) (hne : w ≠ u)
    (hwN : w ∈ nodeList P) : w.length ≤ (lps (nodeList P) u).length := by
  unfold lps
  exact (lsuf_spec (nodeList_prefClosed P).nil_mem u.tail).2.2 w (suffix_tail_of_ne hw hne) hwN

/-- `u = v ++ lps u`. -/
theorem lps_decomp (P : List (LPat V)) (u : List Nat) :
    ∃ v, u = v ++ lps (nodeList P) u ∧ v.length = u.length - (lps (nodeList P) u).length :=
  suffix_decomp (lps_suffix P u)

/-! ### `bestIn` of a suffix -/

theorem bestIn_suffix_none {P : List (LPat V)} {v f : List Nat}
    (hb : bestIn P (v ++ f) 0 = none) : bestIn P f 0 = none := by
  apply bestIn_of_noOcc
  intro s q ho
  exact bestIn_none_spec hb (v.length + s) q (occ_append_left.2 ho)

/-- If the leftmost-longest occurrence in `v ++ f` starts inside `f`, it is the one of `f`. -/
theorem bestIn_suffix_some {P : List (LPat V)} (hkeys : (P.map (·.key)).Nodup)
    {v f : List Nat} {s : Nat} {p : LPat V}
    (hb : bestIn P (v ++ f) 0 = some (s, p)) (hle : v.length ≤ s) :
    bestIn P f 0 = some (s - v.length, p) := by
  obtain ⟨s', hs', hbest⟩ := bestIn_some_spec hb
  simp only [Nat.zero_add] at hs'
  subst hs'
  have hno : ∀ s' q, s' < v.length → ¬ Occ P (v ++ f) s' q :=
    fun s' q h => hbest.left s' q (by omega)
  obtain ⟨s0, rfl⟩ : ∃ s0, s = v.length + s0 := ⟨s - v.length, by omega⟩
  have := bestIn_of_isBest hkeys ((isBest_append_left hno).1 hbest) 0
  rw [this]
  simp

/-! ### `deltaL` along the fail link -/

theorem deltaL_child {P : List (LPat V)} {u : List Nat} {c : Nat}
    (h : u ++ [c] ∈ nodeList P) : deltaL P u c = u ++ [c] := by
  unfold deltaL
  rw [lsuf_mem_self h (nodeList_prefClosed P).nil_mem]
  cases bestIn P u 0 with
  | none => rfl
  | some r =>
    obtain ⟨s, p⟩ := r
    simp

theorem deltaL_root {P : List (LPat V)} {c : Nat} (h : [] ++ [c] ∉ nodeList P) :
    deltaL P [] c = [] := by
  obtain ⟨a, b, _⟩ := lsuf_spec (nodeList_prefClosed P).nil_mem ([] ++ [c])
  have : lsuf (nodeList P) ([] ++ [c]) = [] := by
    rcases List.suffix_cons_iff.1 (by simpa using a) with h1 | h1
    · exact absurd (by simpa using h1 ▸ b) h
    · simpa using h1
  unfold deltaL
  rw [this]
  simp [bestIn]

/-- The fail link is dead: the transition goes to the root. -/
theorem deltaL_dead {P : List (LPat V)} {u : List Nat} {c s : Nat} {p : LPat V}
    (hu : u ≠ []) (hnot : u ++ [c] ∉ nodeList P) (hb : bestIn P u 0 = some (s, p))
    (hd : u.length - (lps (nodeList P) u).length > s) : deltaL P u c = [] := by
  have hlen := ((lsuf_spec (nodeList_prefClosed P).nil_mem
    (lps (nodeList P) u ++ [c])).1).length_le
  simp only [List.length_append, List.length_singleton] at hlen
  unfold deltaL
  rw [hb, lsuf_fail (nodeList_prefClosed P) u c hu hnot]
  simp only
  rw [if_pos (by omega)]

/-- The fail link is the ordinary one: the transition from `u` is the one from `lps u`. -/
theorem deltaL_fail {P : List (LPat V)} (hkeys : (P.map (·.key)).Nodup) {u : List Nat} {c : Nat}
    (hu : u ≠ []) (hnot : u ++ [c] ∉ nodeList P)
    (hb : ∀ s p, bestIn P u 0 = some (s, p) → u.length - (lps (nodeList P) u).length ≤ s) :
    deltaL P (lps (nodeList P) u) c = deltaL P u c := by
  obtain ⟨v, hv, hvl⟩ := lps_decomp P u
  have hlen := ((lsuf_spec (nodeList_prefClosed P).nil_mem
    (lps (nodeList P) u ++ [c])).1).length_le
  simp only [List.length_append, List.length_singleton] at hlen
  have hul : u.length = v.length + (lps (nodeList P) u).length := by
    have := congrArg List.length hv
    simpa using this
  have ht := lsuf_fail (nodeList_prefClosed P) u c hu hnot
  cases hbu : bestIn P u 0 with
  | none =>
    have hbf : bestIn P (lps (nodeList P) u) 0 = none := by
      apply bestIn_suffix_none (v := v); rw [← hv]; exact hbu
    unfold deltaL
    rw [hbf, hbu, ht]
  | some r =>
    obtain ⟨s, p⟩ := r
    have hle := hb s p hbu
    have hbf : bestIn P (lps (nodeList P) u) 0 = some (s - v.length, p) := by
      apply bestIn_suffix_some hkeys (v := v)
      · rw [← hv]; exact hbu
      · omega
    unfold deltaL
    rw [hbf, hbu, ht]
    simp only
    by_cases hc : u.length + 1 - (lsuf (nodeList P) (lps (nodeList P) u ++ [c])).length > s
    · rw [if_pos hc, if_pos (by omega)]
    · rw [if_neg hc, if_neg (by omega)]

/-! ### PART 1: (G3) from (F) -/

theorem nfaNextLm_eq_deltaL {t : Trie V} {P : List (LPat V)} {fm : FailMap}
    (hS : TrieSem t P) (hF : FailChar P fm) :
    ∀ u, u ∈ nodeList P → ∀ c fuel, u.length < fuel →
      nfaNextLm t fm fuel u c = deltaL P u c := by
  intro u hu c fuel
  induction fuel generalizing u with
  | zero => intro h; omega
  | succ fuel ih =>
    intro hlt
    rw [nfaNextLm]
    by_cases hch : t.hasNode (u ++ [c]) = true
    · rw [if_pos hch, deltaL_child ((hS.nodes _).1 hch)]
    · rw [if_neg hch]
      have hnot : u ++ [c] ∉ nodeList P := fun h => hch ((hS.nodes _).2 h)
      by_cases hu0 : u = []
      · rw [if_pos hu0]
        subst hu0
        exact (deltaL_root hnot).symm
      · rw [if_neg hu0]
        have hf := hF u hu hu0
        cases hbu : bestIn P u 0 with
        | none =>
          rw [hbu] at hf
          simp only at hf
          rw [hf]
          simp only
          rw [ih _ (lps_mem P u) (by have := lps_length_lt P hu0; omega)]
          exact deltaL_fail hS.keys hu0 hnot (by intro s p h; rw [hbu] at h; cases h)
        | some r =>
          obtain ⟨s, p⟩ := r
          rw [hbu] at hf
          simp only at hf
          by_cases hd : u.length - (lps (nodeList P) u).length > s
          · rw [if_pos hd] at hf
            rw [hf]
            simp only
            exact (deltaL_dead hu0 hnot hbu hd).symm
          · rw [if_neg hd] at hf
            rw [hf]
            simp only
            rw [ih _ (lps_mem P u) (by have := lps_length_lt P hu0; omega)]
            apply deltaL_fail hS.keys hu0 hnot
            intro s' p' h
            rw [hbu] at h
            simp only [Option.some.injEq, Prod.mk.injEq] at h
            omega

/-! ### `oposL` along the fail link -/

theorem oposL_nil (P : List (LPat V)) : oposL P [] = none := by
  simp [oposL, bestIn]

/-- A pattern end reports its own pattern. -/
theorem oposL_pattern {P : List (LPat V)} (hkeys : (P.map (·.key)).Nodup) {p : LPat V}
    (hp : p ∈ P) (hne : p.key ≠ []) : oposL P p.key = some p := by
  have hbest : IsBest P p.key 0 p := by
    refine ⟨⟨hp, hne, by simp⟩, ?_, ?_⟩
    · intro s' q hs'; omega
    · intro q hq
      have := occ_length hq
      omega
  have := bestIn_of_isBest hkeys hbest 0
  unfold oposL
  rw [this]
  simp

/-- Dead fail link at a node that is not a pattern end: nothing to report. -/
theorem oposL_dead {P : List (LPat V)} {u : List Nat} {s : Nat} {p : LPat V}
    (hnp : ∀ q ∈ P, q.key ≠ u) (hb : bestIn P u 0 = some (s, p))
    (hd : u.length - (lps (nodeList P) u).length > s) : oposL P u = none := by
  unfold oposL
  rw [hb]
  simp only
  rw [if_neg]
  intro he
  obtain ⟨s', hs', hbest⟩ := bestIn_some_spec hb
  simp only [Nat.zero_add] at hs'
  subst hs'
  obtain ⟨hp, _, hpre⟩ := hbest.occ
  have hk : p.key = u.drop s := hpre.eq_of_length (by simp only [List.length_drop]; omega)
  have hsuf : p.key <:+ u := hk ▸ List.drop_suffix s u
  have hN : p.key ∈ nodeList P := mem_nodeList.2 (Or.inr ⟨p, hp, List.prefix_refl _⟩)
  have := lps_max P hsuf (hnp p hp) hN
  omega

/-- Ordinary fail link: the node reports what its fail target reports. -/
theorem oposL_fail {P : List (LPat V)} (hkeys : (P.map (·.key)).Nodup) {u : List Nat}
    (hb : ∀ s p, bestIn P u 0 = some (s, p) → u.length - (lps (nodeList P) u).length ≤ s) :
    oposL P (lps (nodeList P) u) = oposL P u := by
  obtain ⟨v, hv, hvl⟩ := lps_decomp P u
  have hul : u.length = v.length + (lps (nodeList P) u).length := by
    have := congrArg List.length hv
    simpa using this
  cases hbu : bestIn P u 0 with
  | none =>
    have hbf : bestIn P (lps (nodeList P) u) 0 = none := by
      apply bestIn_suffix_none (v := v); rw [← hv]; exact hbu
    unfold oposL
    rw [hbf, hbu]
  | some r =>
    obtain ⟨s, p⟩ := r
    have hle := hb s p hbu
    have hbf : bestIn P (lps (nodeList P) u) 0 = some (s - v.length, p) := by
      apply bestIn_suffix_some hkeys (v := v)
      · rw [← hv]; exact hbu
      · omega
    unfold oposL
    rw [hbf, hbu]
    simp only
    by_cases hc : s + p.key.length = u.length
    · rw [if_pos hc, if_pos (by omega)]
    · rw [if_neg hc, if_neg (by omega)]

/-! ### PART 2: (G1) from (F) -/

/-- The (G1) clause for an output position `k` and the pattern `r` to be reported. -/
def G1Val (outs : Array (Out V)) (k : Nat) (r : Option (LPat V)) : Prop :=
  match r with
  | some p => k ≠ 0 ∧ ∃ o, outs[k - 1]? = some o ∧ o.value = p.value ∧ o.length = p.blen
  | none => k = 0

theorem G1Val.push {outs : Array (Out V)} {k : Nat} {r : Option (LPat V)} (x : Out V)
    (h : G1Val outs k r) : G1Val (outs.push x) k r := by
  cases r with
  | none => exact h
  | some p =>
    obtain ⟨hk, o, ho, hv, hl⟩ := h
    refine ⟨hk, o, ?_, hv, hl⟩
    obtain ⟨hlt, _⟩ := Array.getElem?_eq_some_iff.1 ho
    rw [Array.getElem?_push, if_neg (by omega)]
    exact ho

/-- Invariant of the output pass after the queue prefix `pre`. -/
structure OutInv (P : List (LPat V)) (pre : List (List Nat)) (a : OutAcc V) : Prop where
  done : ∀ u ∈ pre, G1Val a.outs (a.opos.getD u 0) (oposL P u)
  todo : ∀ u, u ∉ pre → a.opos.getD u 0 = 0

/-- Under the invariant, the root and every processed node satisfy (G1). -/
theorem OutInv.at_node {P : List (LPat V)} {pre : List (List Nat)} {a : OutAcc V}
    (hI : OutInv P pre a) (hnil : [] ∉ pre) {f : List Nat} (hf : f = [] ∨ f ∈ pre) :
    G1Val a.outs (a.opos.getD f 0) (oposL P f) := by
  rcases hf with rfl | hf
  · rw [hI.todo [] hnil, oposL_nil]
    rfl
  · exact hI.done f hf

/-- The value a non-pattern node inherits through its fail link satisfies (G1) for the node. -/
theorem oposOf_fail_g1 {P : List (LPat V)} {fm : FailMap} (hkeys : (P.map (·.key)).Nodup)
    (hF : FailChar P fm) {pre : List (List Nat)} {a : OutAcc V} (hI : OutInv P pre a)
    (hnil : [] ∉ pre) {s : List Nat} (hs : s ∈ nodeList P) (hs0 : s ≠ [])
    (hshort : ∀ w, w ∈ nodeList P → w ≠ [] → w.length < s.length → w ∈ pre)
    (hnp : ∀ q ∈ P, q.key ≠ s) :
    G1Val a.outs (a.oposOf (fm.get s)) (oposL P s) := by
  have hf := hF s hs hs0
  have hnode : lps (nodeList P) s = [] ∨ lps (nodeList P) s ∈ pre := by
    by_cases h0 : lps (nodeList P) s = []
    · exact Or.inl h0
    · exact Or.inr (hshort _ (lps_mem P s) h0 (lps_length_lt P hs0))
  cases hbu : bestIn P s 0 with
  | none =>
    rw [hbu] at hf
    simp only at hf
    rw [hf, ← oposL_fail hkeys (by intro s' p' h; rw [hbu] at h; cases h)]
    exact hI.at_node hnil hnode
  | some r =>
    obtain ⟨k, p⟩ := r
    rw [hbu] at hf
    simp only at hf
    by_cases hd : s.length - (lps (nodeList P) s).length > k
    · rw [if_pos hd] at hf
      rw [hf, oposL_dead hnp hbu hd]
      rfl
    · rw [if_neg hd] at hf
      rw [hf, ← oposL_fail hkeys (by
        intro s' p' h
        rw [hbu] at h
        simp only [Option.some.injEq, Prod.mk.injEq] at h
        omega)]
      exact hI.at_node hnil hnode

theorem outStep_inv_g {t : Trie V} {P : List (LPat V)} {fm : FailMap} (hS : TrieSem t P)
    (hF : FailChar P fm) {pre : List (List Nat)} {a : OutAcc V} (hI : OutInv P pre a)
    (hnil : [] ∉ pre) {s : List Nat} (hs : s ∈ nodeList P) (hs0 : s ≠ []) (hspre : s ∉ pre)
    (hshort : ∀ w, w ∈ nodeList P → w ≠ [] → w.length < s.length → w ∈ pre) :
    OutInv P (pre ++ [s]) (outStep t fm a s) := by
  unfold outStep
  have houts := hS.outs s
  cases hfind : P.find? (fun p => p.key = s) with
  | none =>
    rw [hfind] at houts
    simp only [Option.map_none] at houts
    rw [houts]
    simp only
    have hnp : ∀ q ∈ P, q.key ≠ s := by
      intro q hq he
      have := List.find?_eq_none.1 hfind q hq
      simp [he] at this
    have hg := oposOf_fail_g1 hS.keys hF hI hnil hs hs0 hshort hnp
    refine ⟨?_, ?_⟩
    · intro u hu
      simp only
      rw [Std.HashMap.getD_insert]
      rcases List.mem_append.1 hu with hu | hu
      · have hne : ¬ ((s == u) = true) := by
          intro he; exact hspre ((beq_iff_eq.1 he) ▸ hu)
        rw [if_neg hne]
        exact hI.done u hu
      · have : u = s := by simpa using hu
        subst this
        rw [if_pos (by simp)]
        exact hg
    · intro u hu
      simp only
      rw [Std.HashMap.getD_insert]
      have hu' : u ∉ pre ∧ u ≠ s := by simpa using hu
      have hne : ¬ ((s == u) = true) := by
        intro he; exact hu'.2 (beq_iff_eq.1 he).symm
      rw [if_neg hne]
      exact hI.todo u hu'.1
  | some p =>
    rw [hfind] at houts
    simp only [Option.map_some] at houts
    rw [houts]
    simp only
    have hp := List.mem_of_find?_eq_some hfind
    have hk : p.key = s := by simpa using List.find?_some hfind
    have hop : oposL P s = some p := hk ▸ oposL_pattern hS.keys hp (hS.nonempty p hp)
    refine ⟨?_, ?_⟩
    · intro u hu
      simp only
      rw [Std.HashMap.getD_insert]
      rcases List.mem_append.1 hu with hu | hu
      · have hne : ¬ ((s == u) = true) := by
          intro he; exact hspre ((beq_iff_eq.1 he) ▸ hu)
        rw [if_neg hne]
        exact (hI.done u hu).push _
      · have : u = s := by simpa using hu
        subst this
        rw [if_pos (by simp), hop]
        refine ⟨by omega, ⟨p.value, p.blen, a.oposOf (fm.get u)⟩, ?_, rfl, rfl⟩
        simp
    · intro u hu
      simp only
      rw [Std.HashMap.getD_insert]
      have hu' : u ∉ pre ∧ u ≠ s := by simpa using hu
      have hne : ¬ ((s == u) = true) := by
        intro he; exact hu'.2 (beq_iff_eq.1 he).symm
      rw [if_neg hne]
      exact hI.todo u hu'.1

theorem outFold_inv {t : Trie V} {P : List (LPat V)} {fm : FailMap} (hS : TrieSem t P)
    (hnd : t.queue.Nodup) (hF : FailChar P fm) :
    ∀ (post pre : List (List Nat)) (a : OutAcc V), t.queue = pre ++ post → OutInv P pre a →
      OutInv P (pre ++ post) (post.foldl (outStep t fm) a) := by
  intro post
  induction post with
  | nil => intro pre a _ hI; simpa using hI
  | cons s post ih =>
    intro pre a hq hI
    have hsq : s ∈ t.queue := by rw [hq]; simp
    obtain ⟨hsn, hs0⟩ := (Trie.mem_queue t s).1 hsq
    have hs : s ∈ nodeList P := (hS.nodes s).1 hsn
    have hnd' := hq ▸ hnd
    have hspre : s ∉ pre := fun hin =>
      (List.nodup_append.1 hnd').2.2 s hin s (List.mem_cons_self) rfl
    have hnil : [] ∉ pre := by
      intro hin
      have : ([] : List Nat) ∈ t.queue := by rw [hq]; exact List.mem_append_left _ hin
      exact ((Trie.mem_queue t []).1 this).2 rfl
    have hshort : ∀ w, w ∈ nodeList P → w ≠ [] → w.length < s.length → w ∈ pre :=
      fun w hw hw0 hl => Trie.queue_split_shorter t hq w ((hS.nodes w).2 hw) hw0 hl
    have hI' := outStep_inv_g hS hF hI hnil hs hs0 hspre hshort
    have := ih (pre ++ [s]) (outStep t fm a s) (by rw [hq]; simp) hI'
    simpa using this

/-- (G1): after the output pass, every node's output position is the record of the pattern
`oposL` names (the leftmost-longest occurrence in the node when it is a suffix of the node). -/
theorem oposLm {t : Trie V} {P : List (LPat V)} {fm : FailMap} (hS : TrieSem t P)
    (hsort : t.Sorted) (hF : FailChar P fm) :
    ∀ u, u ∈ nodeList P →
      (match oposL P u with
       | some p => (buildOutAcc t fm).opos.getD u 0 ≠ 0 ∧
           ∃ o, (buildOutAcc t fm).outs[(buildOutAcc t fm).opos.getD u 0 - 1]? = some o ∧
             o.value = p.value ∧ o.length = p.blen
       | none => (buildOutAcc t fm).opos.getD u 0 = 0) := by
  intro u hu
  have hI0 : OutInv P [] (⟨{}, #[]⟩ : OutAcc V) :=
    ⟨fun u hu => absurd hu (by simp), fun u _ => Std.HashMap.getD_empty⟩
  have hI := outFold_inv hS (Trie.nodup_queue t hsort) hF t.queue [] ⟨{}, #[]⟩ (by simp) hI0
  simp only [List.nil_append] at hI
  have hnil : [] ∉ t.queue := fun h => ((Trie.mem_queue t []).1 h).2 rfl
  have hm : u = [] ∨ u ∈ t.queue := by
    by_cases h0 : u = []
    · exact Or.inl h0
    · exact Or.inr ((Trie.mem_queue t u).2 ⟨(hS.nodes u).2 hu, h0⟩)
  exact hI.at_node hnil hm

end Daac

#print axioms Daac.nfaNextLm_eq_deltaL
#print axioms Daac.oposLm

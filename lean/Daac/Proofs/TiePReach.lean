/-
`Reach`: an invariant of the translated insertion code (`NfaBuilder::{new, add}` of Daac/Gen/Nfa.lean),
independent of `Tie.N.Rep` / the trie model: every state except the dead state (id 1) is reached from
the root by following the edge lists.
-/
import Daac.Proofs.TieFFresh
namespace Daac.Tie.P
open Daac Daac.Gen Daac.Gen.N Daac.Tie.N Daac.Tie.F
variable {V : Type}

/-- every state except the dead state (id 1) is reached from the root along the edge lists -/
def Reach (st : Tie.N.St V) : Prop :=
  2 ≤ st.size ∧ ∀ i, i < st.size → i ≠ 1 → ∃ u, idAt st 0 u = some i

theorem new_reach (kind : Nat) : Reach (NfaBuilder.new kind : NfaBuilder V).states := by
  refine ⟨by simp [NfaBuilder.new], fun i hi h1 => ?_⟩
  have hi : i < 2 := by simpa [NfaBuilder.new] using hi
  have : i = 0 := by omega
  subst this
  exact ⟨[], rfl⟩

/-- (a) lookup after insert, for any association list -/
theorem get_insert : (es : Rs.EdgeMap) → (c n c' : Nat) →
    Rs.EdgeMap.get (Rs.EdgeMap.insert es c n) c' = if c' = c then some n else Rs.EdgeMap.get es c'
  | [], c, n, c' => by
    simp only [Rs.EdgeMap.insert, Rs.EdgeMap.get]
    by_cases e : c = c'
    · subst e; simp
    · have : ¬ c' = c := fun h => e h.symm
      simp [e, this]
  | (l, w) :: r, c, n, c' => by
    simp only [Rs.EdgeMap.insert]
    by_cases h1 : c < l
    · simp only [h1, if_true, Rs.EdgeMap.get]
      by_cases e : c = c'
      · subst e; simp
      · have : ¬ c' = c := fun h => e h.symm
        simp [e, this]
    · simp only [h1, if_false]
      by_cases h2 : c = l
      · subst h2
        simp only [if_true, Rs.EdgeMap.get]
        by_cases e : c = c'
        · subst e; simp
        · have : ¬ c' = c := fun h => e h.symm
          simp [e, this]
      · simp only [h2, if_false, Rs.EdgeMap.get]
        by_cases e : l = c'
        · subst e
          have : ¬ l = c := fun h => h2 h.symm
          simp [this]
        · simp only [e, if_false]
          exact get_insert r c n c'

/-- `st'` keeps every edge of `st` -/
def EdgeLe (st st' : Tie.N.St V) : Prop :=
  ∀ (i : Nat) (s : NfaBuilderState V), st[i]? = some s →
    ∃ s' : NfaBuilderState V, st'[i]? = some s' ∧
      ∀ c j, Rs.EdgeMap.get s.edges c = some j → Rs.EdgeMap.get s'.edges c = some j

theorem idAt_mono {st st' : Tie.N.St V} (hs : EdgeLe st st') : (u : List Nat) → (i j : Nat) →
    idAt st i u = some j → idAt st' i u = some j
  | [], i, j, h => by simpa [idAt] using h
  | c :: u, i, j, h => by
    simp only [idAt] at h ⊢
    cases hi : st[i]? with
    | none => simp [hi] at h
    | some s =>
      obtain ⟨s', e1, e2⟩ := hs i s hi
      rw [hi] at h
      rw [e1]
      cases hg : Rs.EdgeMap.get s.edges c with
      | none => simp [hg] at h
      | some k =>
        simp only [hg] at h
        simp only [e2 c k hg]
        exact idAt_mono hs u k j h

/-- (b) writing only the `output` field keeps every edge -/
theorem edgeLe_set_output {st : Tie.N.St V} {id : Nat} {s : NfaBuilderState V} (hs : st[id]? = some s)
    (o : Option (V × Nat)) : EdgeLe st (st.setIfInBounds id { s with output := o }) := by
  intro k sk hk
  by_cases e : id = k
  · subst e
    rw [hs] at hk; cases hk
    exact ⟨{ s with output := o }, by simp [lt_of_get hs], fun c j h => h⟩
  · exact ⟨sk, by simp [e, hk], fun c j h => h⟩

/-- (c) the new-edge write keeps every edge -/
theorem edgeLe_new {st : Tie.N.St V} {id : Nat} {s : NfaBuilderState V} (hs : st[id]? = some s)
    (c n : Nat) (hg : Rs.EdgeMap.get s.edges c = none) :
    EdgeLe st ((st.setIfInBounds id { s with edges := Rs.EdgeMap.insert s.edges c n }).push NfaBuilderState.default) := by
  intro k sk hk
  have hlt := lt_of_get hk
  by_cases e : id = k
  · subst e
    rw [hs] at hk; cases hk
    refine ⟨{ s with edges := Rs.EdgeMap.insert s.edges c n }, ?_, fun c' j h => ?_⟩
    · rw [Array.getElem?_push]; simp [hlt, Nat.ne_of_lt hlt]
    · simp only [get_insert]
      have : ¬ c' = c := fun e => by subst e; rw [hg] at h; cases h
      simp [this, h]
  · refine ⟨sk, ?_, fun c j h => h⟩
    rw [Array.getElem?_push]; simp [e, hk, Nat.ne_of_lt hlt]

theorem reach_set_output {st : Tie.N.St V} {id : Nat} {s : NfaBuilderState V} (hs : st[id]? = some s)
    (o : Option (V × Nat)) (hr : Reach st) : Reach (st.setIfInBounds id { s with output := o }) := by
  refine ⟨by simpa using hr.1, fun i hi h1 => ?_⟩
  obtain ⟨u, hu⟩ := hr.2 i (by simpa using hi) h1
  exact ⟨u, idAt_mono (edgeLe_set_output hs o) u 0 i hu⟩

theorem reach_new {st : Tie.N.St V} {id : Nat} {s : NfaBuilderState V} (hs : st[id]? = some s)
    (c : Nat) (hg : Rs.EdgeMap.get s.edges c = none) (hr : Reach st) (w : List Nat)
    (hw : idAt st 0 w = some id) :
    Reach ((st.setIfInBounds id { s with edges := Rs.EdgeMap.insert s.edges c st.size }).push NfaBuilderState.default) ∧
    ∃ w', idAt ((st.setIfInBounds id { s with edges := Rs.EdgeMap.insert s.edges c st.size }).push NfaBuilderState.default) 0 w'
      = some st.size := by
  have hle := edgeLe_new hs c st.size hg
  have hlt := lt_of_get hs
  have hnew : idAt ((st.setIfInBounds id { s with edges := Rs.EdgeMap.insert s.edges c st.size }).push NfaBuilderState.default) 0 (w ++ [c])
      = some st.size := by
    have h1 := idAt_mono hle w 0 id hw
    rw [idAt_snoc w c id { s with edges := Rs.EdgeMap.insert s.edges c st.size } h1
      (by rw [Array.getElem?_push]; simp [hlt, Nat.ne_of_lt hlt])]
    simp [get_insert]
  refine ⟨⟨by have := hr.1; simp; omega, fun i hi h1 => ?_⟩, _, hnew⟩
  have hi : i < st.size + 1 := by simpa using hi
  by_cases e : i = st.size
  · subst e; exact ⟨_, hnew⟩
  · obtain ⟨u, hu⟩ := hr.2 i (by omega) h1
    exact ⟨u, idAt_mono hle u 0 i hu⟩

/-- (d) the found-edge step -/
theorem reach_found {st : Tie.N.St V} {id cid c : Nat} {s : NfaBuilderState V} (hs : st[id]? = some s)
    (hg : Rs.EdgeMap.get s.edges c = some cid) (w : List Nat) (hw : idAt st 0 w = some id) :
    idAt st 0 (w ++ [c]) = some cid := by
  rw [idAt_snoc w c id s hw hs, hg]

theorem u32TryFrom_some {n m : Nat} (h : Rs.u32TryFrom n = some m) : m = n := by
  unfold Rs.u32TryFrom at h
  split at h
  · cases h; rfl
  · cases h

theorem child_id_ok {g : NfaBuilder V} {id c : Nat} {r : Option Nat} (h : NfaBuilder.child_id g id c = .ok r) :
    ∃ s, g.states[id]? = some s ∧ Rs.EdgeMap.get s.edges c = r := by
  unfold NfaBuilder.child_id at h
  split at h
  · cases h
  · rename_i s hs
    cases h
    exact ⟨s, index_some hs, rfl⟩

theorem loop_reach (pat : List Nat) (v : V) (pl : Nat) : (cs : List Nat) → (g g' : NfaBuilder V) → (id : Nat) →
    (u : Unit) → NfaBuilder.add.loop0 pat v pl cs g id = .ok (u, g') → Reach g.states →
    (∃ w, idAt g.states 0 w = some id) → Reach g'.states
  | [], g, g', id, u, h, hr, hw => by
    simp only [NfaBuilder.add.loop0] at h
    split at h
    · cases h
    · rename_i s hs
      have hs := index_some hs
      split at h
      · cases h
      · cases h
        exact reach_set_output hs _ hr
  | c :: cs, g, g', id, u, h, hr, hw => by
    obtain ⟨w, hw⟩ := hw
    have hnew : ∀ (n : Nat) (s : NfaBuilderState V), g.states[id]? = some s →
        NfaBuilder.child_id g id c = .ok none → Rs.u32TryFrom g.states.size = some n →
        NfaBuilder.add.loop0 pat v pl cs
          { g with states := (g.states.setIfInBounds id { s with edges := Rs.EdgeMap.insert s.edges c n }).push NfaBuilderState.default }
          n = .ok (u, g') → Reach g'.states := by
      intro n s hs hc hn h
      have hn := u32TryFrom_some hn
      subst hn
      rw [child_id_eq g id c s hs] at hc
      have hg : Rs.EdgeMap.get s.edges c = none := Except.ok.inj hc
      have hh := reach_new hs c hg hr w hw
      exact loop_reach pat v pl cs _ g' _ u h hh.1 hh.2
    have hfound : ∀ (n : Nat), NfaBuilder.child_id g id c = .ok (some n) →
        NfaBuilder.add.loop0 pat v pl cs g n = .ok (u, g') → Reach g'.states := by
      intro n hc h
      obtain ⟨s, hs, hg⟩ := child_id_ok hc
      exact loop_reach pat v pl cs g g' n u h hr ⟨_, reach_found hs hg w hw⟩
    simp only [NfaBuilder.add.loop0] at h
    split at h
    · split at h
      · cases h
      · rename_i s3 hs3
        split at h
        · split at h
          · cases h
          · split at h
            · simp at h
            · split at h
              · cases h
              · cases h
                exact hr
        · split at h
          · cases h
          · split at h
            · rename_i hc
              exact hfound _ hc h
            · split at h
              · split at h
                · cases h
                · rename_i hc _ _ hn _ s hs
                  cases hs
                  exact hnew _ _ (index_some hs3) hc hn h
              · cases h
    · split at h
      · cases h
      · split at h
        · rename_i hc
          exact hfound _ hc h
        · split at h
          · split at h
            · cases h
            · rename_i hc _ _ hn _ s hs
              exact hnew _ s (index_some hs) hc hn h
          · cases h

theorem add_reach (nb : Nat → Nat) (g g' : NfaBuilder V) (p : List Nat) (v : V) (u : Unit)
    (h : NfaBuilder.add nb g p v = .ok (u, g')) (hr : Reach g.states) : Reach g'.states := by
  simp only [NfaBuilder.add] at h
  split at h
  · cases h
  · split at h
    · cases h
    · exact loop_reach p v _ p g g' _ u h hr ⟨[], rfl⟩

theorem addAllGen_reach (nb : Nat → Nat) : (ps : List (LPat V)) → (g g' : NfaBuilder V) →
    addAllGen nb g ps = .ok g' → Reach g.states → Reach g'.states
  | [], g, g', h, hr => by
    simp only [addAllGen] at h
    cases h
    exact hr
  | p :: ps, g, g', h, hr => by
    simp only [addAllGen] at h
    split at h
    · cases h
    · rename_i u g1 hadd
      exact addAllGen_reach nb ps g1 g' h (add_reach nb g g1 p.key p.value u hadd hr)


end Daac.Tie.P

/-
Translation tie, leftmost fail pass: `NfaBuilder::build_fails_leftmost` GENERATED from
`src/nfa_builder.rs` refines `buildFailMap t true` (Daac/Model/Nfa.lean); same three layers as the
standard pass in Daac/Proofs/TieF.lean, with an invariant that allows the dead state (`FailRel`).
-/
import Daac.Proofs.TieF
import Daac.Proofs.TieFCount
namespace Daac.Tie.F
open Daac Daac.Gen Daac.Gen.N Daac.Tie.N

variable {V : Type}

/-- The links of the nodes in `D` are set: the `fail` field represents the model target (a node or the
dead state); a node target is strictly shorter (or root ↦ root). -/
def LInv (st : Tie.N.St V) (m : FailMap) (D : List Nat → Prop) : Prop :=
  ∀ u i, D u → idAt st 0 u = some i → ∃ s : NfaBuilderState V, st[i]? = some s ∧
    FailRel st (m.get u) s.fail ∧
    ∀ nx, m.get u = .node nx → (nx.length < u.length ∨ (u = [] ∧ nx = []))

theorem LInv.mono {st : Tie.N.St V} {m : FailMap} {D D' : List Nat → Prop} (h : LInv st m D)
    (hd : ∀ u, D' u → D u) : LInv st m D' :=
  fun u i hu hi => h u i (hd u hu) hi

theorem LInv.mono' {st : Tie.N.St V} {m : FailMap} {D D' : List Nat → Prop} (h : LInv st m D)
    (hd : ∀ u i, idAt st 0 u = some i → D' u → D u) : LInv st m D' :=
  fun u i hu hi => h u i (hd u i hi hu) hi

theorem id_ne_dead {st : Tie.N.St V} {pth : Pth} {t : Trie V} (hrep : Rep st pth t 0 [])
    (hpd : pth Gen.deadStateId = none) {u : List Nat} {i : Nat} (hi : idAt st 0 u = some i) : i ≠ 1 := by
  intro e
  have := idAt_pth hrep hi
  rw [e] at this
  have h1 : pth 1 = none := hpd
  rw [h1] at this; cases this

/-! ## 1. the inner fail walk -/

theorem walk_lm (g : NfaBuilder V) (pth : Pth) (t : Trie V) (m : FailMap) (c L : Nat)
    (hrep : Rep g.states pth t 0 []) (hpd : pth Gen.deadStateId = none)
    (hinv : LInv g.states m (fun u => u.length ≤ L)) :
    ∀ (fm fc : Nat) (f : List Nat) (fid : Nat), idAt g.states 0 f = some fid → f.length ≤ L →
      f.length < fm → f.length < fc →
      ∃ r fid', NfaBuilder.build_fails_leftmost.loop3 g c fc fid = .ok (r, fid') ∧
        FailRel g.states (failWalkLm t m fm f c) r ∧
        ∀ x, failWalkLm t m fm f c = .node x → x.length ≤ f.length + 1 := by
  intro fm
  induction fm with
  | zero => intro fc f fid _ _ h; omega
  | succ fm ih =>
    intro fc f fid hfid hL hfm hfc
    cases fc with
    | zero => omega
    | succ fc =>
      obtain ⟨n, hw, hr⟩ := walk_some_of_idAt hrep hfid
      obtain ⟨s, hs, _, hk⟩ := rep_get hr
      have hfind := RepK.find c n.kids f 0 s.edges hk
      simp only [NfaBuilder.build_fails_leftmost.loop3, child_id_eq g fid c s hs, failWalkLm, hasNode_snoc_eq c hw]
      cases hkf : n.kids.find? c with
      | some tc =>
        rw [hkf] at hfind
        cases hg : Rs.EdgeMap.get s.edges c with
        | none => rw [hg] at hfind; exact hfind.elim
        | some cid =>
          refine ⟨cid, fid, by simp, ?_, by simp⟩
          simp only [Option.isSome_some, if_true, FailRel]
          rw [idAt_snoc f c fid s hfid hs, hg]
      | none =>
        rw [hkf] at hfind
        cases hg : Rs.EdgeMap.get s.edges c with
        | some cid => rw [hg] at hfind; exact hfind.elim
        | none =>
          obtain ⟨s', hs', hrel, hsh⟩ := hinv f fid hL hfid
          rw [hs] at hs'; cases hs'
          simp only [index_eq _ _ _ hs, Option.isSome_none, Bool.false_eq_true, if_false]
          cases hmf : m.get f with
          | dead =>
            rw [hmf] at hrel
            have hrel' : s.fail = 1 := hrel
            exact ⟨Gen.deadStateId, fid, by simp [hrel', Gen.deadStateId], rfl, by simp⟩
          | node nx =>
            rw [hmf] at hrel
            have hnx : idAt g.states 0 nx = some s.fail := hrel
            have hne1 : s.fail ≠ 1 := id_ne_dead hrep hpd hnx
            have hsh := hsh nx hmf
            by_cases hf0 : f = []
            · subst hf0
              have hfid0 : fid = 0 := by simpa [idAt] using hfid.symm
              have hnx0 : nx = [] := by
                rcases hsh with h | h
                · simp at h
                · exact h.2
              subst hnx0
              have hsf : s.fail = 0 := by simpa [idAt] using hnx.symm
              refine ⟨0, fid, ?_, by simp [FailRel, idAt], by simp⟩
              simp [hfid0, hsf, Gen.rootStateId, Gen.deadStateId]
            · have hfid0 : fid ≠ 0 := by
                intro e
                subst e
                exact hf0 (idAt_inj hrep hfid (by simp [idAt]))
              have hlt : nx.length < f.length := by
                rcases hsh with h | h
                · exact h
                · exact (hf0 h.1).elim
              obtain ⟨r, fid', h1, h2, h3⟩ := ih fc nx s.fail hnx (by omega) (by omega) (by omega)
              refine ⟨r, fid', ?_, ?_, ?_⟩
              · simp [hfid0, hne1, Gen.rootStateId, Gen.deadStateId, h1]
              · simpa [hf0] using h2
              · intro x hx
                have := h3 x (by simpa [hf0] using hx)
                omega


/-! ## 2. one queue entry -/

/-- The step function of the fold in `failStepLm`. -/
abbrev lmStep (t : Trie V) (s : List Nat) : FailMap → List Nat → FailMap := fun m child =>
  match m.get s, child.getLast? with
  | .dead, _ => m.insert child .dead
  | .node f, some c => m.insert child (failWalkLm t m (s.length + 2) f c)
  | _, none => m

theorem step_lm (pth : Pth) (t : Trie V) (s : List Nat) (sid : Nat) (hs0 : s ≠ [])
    (hpd : pth Gen.deadStateId = none) :
    ∀ (ks : Kids V) (lo : Nat) (es : List (Nat × Nat)) (g : NfaBuilder V) (q : Array Nat) (m : FailMap)
      (P : List Nat → Prop),
      Rep g.states pth t 0 [] → RepK g.states pth ks s lo es → idAt g.states 0 s = some sid →
      (∀ l cid, (l, cid) ∈ es → idAt g.states 0 (s ++ [l]) = some cid) →
      (∀ u i, idAt g.states 0 u = some i → u.length < g.states.size) →
      LInv g.states m (fun u => (u.length < s.length ∨ u = s) ∨ P u) →
      ∃ g' q', NfaBuilder.build_fails_leftmost.loop2 sid es g q = .ok (g', q') ∧
        q'.toList = q.toList ++ es.map (·.2) ∧ SameShape g.states g'.states ∧ g'.outputs = g.outputs ∧
        LInv g'.states ((ks.labelList.map (fun c => s ++ [c])).foldl (lmStep t s) m)
          (fun u => (u.length < s.length ∨ u = s) ∨ P u ∨ ∃ l ∈ ks.labelList, u = s ++ [l]) ∧
        PosKeep g.states g'.states
  | .nil, lo, es, g, q, m, P, hrep, hk, hsid, hes, hdep, hinv => by
    unfold RepK at hk; subst hk
    refine ⟨g, q, by simp [NfaBuilder.build_fails_leftmost.loop2], by simp, SameShape.refl _, rfl, ?_, PosKeep.refl _⟩
    simp only [Kids.labelList, List.map_nil, List.foldl_nil]
    exact hinv.mono (fun u hu => by
      rcases hu with h | h | ⟨l, hl, _⟩
      · exact Or.inl h
      · exact Or.inr h
      · simp at hl)
  | .cons l tc r, lo, es, g, q, m, P, hrep, hk, hsid, hes, hdep, hinv => by
    unfold RepK at hk
    obtain ⟨cid, es', h1, h2, h3, h4⟩ := hk
    subst h1
    obtain ⟨ss, hss, hrel, hshort⟩ := hinv s sid (Or.inl (Or.inr rfl)) hsid
    obtain ⟨sc, hsc, _, _⟩ := rep_get h3
    have hcid : idAt g.states 0 (s ++ [l]) = some cid := hes l cid (by simp)
    -- the new link of the child: code value `rr`, model value `w`
    have hnew : ∃ rr w, FailRel g.states w rr ∧ (∀ x, w = .node x → x.length ≤ s.length) ∧
        (∀ rest q, NfaBuilder.build_fails_leftmost.loop2 sid ((l, cid) :: rest) g q =
          NfaBuilder.build_fails_leftmost.loop2 sid rest
            { g with states := g.states.setIfInBounds cid { sc with fail := rr } } (q.push cid)) ∧
        lmStep t s m (s ++ [l]) = m.insert (s ++ [l]) w := by
      cases hms : m.get s with
      | dead =>
        rw [hms] at hrel
        have hrel' : ss.fail = 1 := hrel
        refine ⟨Gen.deadStateId, .dead, rfl, by simp, ?_, by simp [lmStep, hms]⟩
        intro rest q
        simp [NfaBuilder.build_fails_leftmost.loop2, index_eq _ _ _ hss, hrel', Gen.deadStateId,
          index_eq _ _ _ hsc]
      | node f =>
        rw [hms] at hrel
        have hf : idAt g.states 0 f = some ss.fail := hrel
        have hne1 : ss.fail ≠ 1 := id_ne_dead hrep hpd hf
        have hflt : f.length < s.length := by
          rcases hshort f hms with h | h
          · exact h
          · exact (hs0 h.1).elim
        have hfsz := hdep f ss.fail hf
        obtain ⟨rr, fid', hw1, hw2, hw3⟩ :=
          walk_lm g pth t m l (s.length - 1) hrep hpd (hinv.mono (fun u hu => Or.inl (Or.inl (by omega))))
            (s.length + 2) (g.states.size + 1) f ss.fail hf (by omega) (by omega) (by omega)
        refine ⟨rr, failWalkLm t m (s.length + 2) f l, hw2, fun x hx => by have := hw3 x hx; omega, ?_,
          by simp [lmStep, hms]⟩
        intro rest q
        simp [NfaBuilder.build_fails_leftmost.loop2, index_eq _ _ _ hss, hne1, Gen.deadStateId, hw1,
          index_eq _ _ _ hsc]
    obtain ⟨rr, w, hwrel, hwlen, hcode, hmodel⟩ := hnew
    let g1 : NfaBuilder V := { g with states := g.states.setIfInBounds cid { sc with fail := rr } }
    have hshape : SameShape g.states g1.states := SameShape.set g.states cid sc _ hsc rfl rfl
    have hinv1 : LInv g1.states (m.insert (s ++ [l]) w)
        (fun u => (u.length < s.length ∨ u = s) ∨ (P u ∨ u = s ++ [l])) := by
      intro u i hu hi
      have hi' := (idAt_shape_iff hshape u 0 i).mp hi
      by_cases hul : u = s ++ [l]
      · subst hul
        rw [hcid] at hi'; cases hi'
        refine ⟨{ sc with fail := rr }, by simp [g1, lt_of_get hsc], ?_, ?_⟩
        · simp only [FailMap.get_insert, if_true]
          exact hwrel.shape hshape
        · intro nx hnx
          simp only [FailMap.get_insert, if_true] at hnx
          have := hwlen nx hnx
          exact Or.inl (by simp; omega)
      · have hne : i ≠ cid := by
          intro e; subst e; exact hul (idAt_inj hrep hi' hcid)
        have hu' : (u.length < s.length ∨ u = s) ∨ P u := by
          rcases hu with h | h | h
          · exact Or.inl h
          · exact Or.inr h
          · exact (hul h).elim
        obtain ⟨su, hsu, hr, hl⟩ := hinv u i hu' hi'
        have hne' : ¬ (s ++ [l] = u) := fun e => hul e.symm
        refine ⟨su, write_keep g.states cid i _ su hsu hne, ?_, ?_⟩
        · simp only [FailMap.get_insert, hne', if_false]
          exact hr.shape hshape
        · intro nx hnx
          simp only [FailMap.get_insert, hne', if_false] at hnx
          exact hl nx hnx
    have ih := step_lm pth t s sid hs0 hpd r (l + 1) es' g1 (q.push cid) (m.insert (s ++ [l]) w)
      (fun u => P u ∨ u = s ++ [l]) (rep_shape t 0 [] hrep hshape) (repK_shape r s (l + 1) es' h4 hshape)
      (idAt_shape hshape s 0 sid hsid)
      (fun l' c' hm' => idAt_shape hshape _ 0 c' (hes l' c' (by simp [hm'])))
      (fun u i hi => by
        have := hdep u i ((idAt_shape_iff hshape u 0 i).mp hi)
        rw [hshape.1]; exact this)
      hinv1
    obtain ⟨g', q', e1, e2, e3, e4, e5, e6⟩ := ih
    refine ⟨g', q', ?_, by simp [e2], hshape.trans e3, by rw [e4], ?_,
      (PosKeep.set g.states cid sc { sc with fail := rr } hsc rfl).trans e6⟩
    · rw [hcode]; exact e1
    · simp only [Kids.labelList, List.map_cons, List.foldl_cons, hmodel]
      exact e5.mono (fun u hu => by
        rcases hu with h | h | ⟨l', hl', e⟩
        · exact Or.inl h
        · exact Or.inr (Or.inl (Or.inl h))
        · rcases List.mem_cons.mp hl' with e' | e'
          · subst e'; exact Or.inr (Or.inl (Or.inr e))
          · exact Or.inr (Or.inr ⟨l', e', e⟩))


/-! ## 3. the `while` loop -/

theorem failStepLm_eq {t : Trie V} {s : List Nat} {n : Trie V} (hw : t.walk s = some n) (m : FailMap) :
    failStepLm t m s = (n.kids.labelList.map (fun c => s ++ [c])).foldl (lmStep t s)
      (if t.hasOutput s then m.insert s .dead else m) := by
  unfold failStepLm
  rw [childPaths_eq hw]
  rfl

theorem loop1_lm_unfold (fuel : Nat) (g : NfaBuilder V) (q : Array Nat) (qi sid : Nat) (ss : NfaBuilderState V)
    (hqlt : qi < q.size) (hidx : Rs.index q qi = .ok sid) (hss : g.states[sid]? = some ss) :
    NfaBuilder.build_fails_leftmost.loop1 (fuel + 1) g q qi =
      match NfaBuilder.build_fails_leftmost.loop2 sid ss.edges
        (if ss.output.isSome then
          { g with states := g.states.setIfInBounds sid { ss with fail := Gen.deadStateId } } else g) q with
      | .error e => .error e
      | .ok (g', q') => NfaBuilder.build_fails_leftmost.loop1 fuel g' q' (qi + 1) := by
  cases hiso : ss.output.isSome <;>
    simp [NfaBuilder.build_fails_leftmost.loop1, hqlt, hidx, index_eq _ _ _ hss, hiso,
      index_set_self _ _ _ _ hss] <;> rfl

theorem dead_write {g : NfaBuilder V} {pth : Pth} {t : Trie V} (hrep : Rep g.states pth t 0 [])
    {m : FailMap} {D : List Nat → Prop} (hinv : LInv g.states m D) {s : List Nat} {sid : Nat}
    {ss : NfaBuilderState V} (hsid : idAt g.states 0 s = some sid) (hss : g.states[sid]? = some ss) :
    SameShape g.states (g.states.setIfInBounds sid { ss with fail := Gen.deadStateId }) ∧
    PosKeep g.states (g.states.setIfInBounds sid { ss with fail := Gen.deadStateId }) ∧
    LInv (g.states.setIfInBounds sid { ss with fail := Gen.deadStateId }) (m.insert s .dead) D := by
  have hshape : SameShape g.states (g.states.setIfInBounds sid { ss with fail := Gen.deadStateId }) :=
    SameShape.set g.states sid ss _ hss rfl rfl
  refine ⟨hshape, PosKeep.set g.states sid ss _ hss rfl, ?_⟩
  intro u i hu hi
  have hi' := (idAt_shape_iff hshape u 0 i).mp hi
  by_cases hus : u = s
  · subst hus
    rw [hsid] at hi'; cases hi'
    refine ⟨{ ss with fail := Gen.deadStateId }, by simp [lt_of_get hss], ?_, ?_⟩
    · simp only [FailMap.get_insert, if_true]; rfl
    · intro nx hnx
      simp [FailMap.get_insert] at hnx
  · have hne : i ≠ sid := by
      intro e; subst e; exact hus (idAt_inj hrep hi' hsid)
    obtain ⟨su, hsu, hr, hl⟩ := hinv u i hu hi'
    have hne' : ¬ (s = u) := fun e => hus e.symm
    refine ⟨su, write_keep g.states sid i _ su hsu hne, ?_, ?_⟩
    · simp only [FailMap.get_insert, hne', if_false]
      exact hr.shape hshape
    · intro nx hnx
      simp only [FailMap.get_insert, hne', if_false] at hnx
      exact hl nx hnx

theorem bfs_lm (pth : Pth) (t : Trie V) (st0 : Tie.N.St V) (hrep0 : Rep st0 pth t 0 [])
    (hpd : pth Gen.deadStateId = none)
    (hdep : ∀ u i, idAt st0 0 u = some i → u.length < st0.size) :
    ∀ (fuel : Nat) (g : NfaBuilder V) (q : Array Nat) (qi : Nat) (done pend : List (List Nat)) (m : FailMap),
      SameShape st0 g.states → IdsOf st0 q.toList (done ++ pend) → qi = done.length →
      done ++ pend = t.childPaths [] ++ done.flatMap t.childPaths →
      (done ++ pend) <+: t.queue →
      m = done.foldl (failStepLm t) {} →
      LInv g.states m (fun u => u = [] ∨ u ∈ done ++ pend) →
      t.queue.length - qi < fuel →
      ∃ g' q' qi', NfaBuilder.build_fails_leftmost.loop1 fuel g q qi = .ok (g', q', qi') ∧
        SameShape st0 g'.states ∧ g'.outputs = g.outputs ∧ IdsOf st0 q'.toList t.queue ∧
        LInv g'.states (t.queue.foldl (failStepLm t) {}) (fun u => u = [] ∨ u ∈ t.queue) ∧
        PosKeep g.states g'.states := by
  intro fuel
  induction fuel with
  | zero => intro g q qi done pend m _ _ _ _ _ _ _ h; omega
  | succ fuel ih =>
    intro g q qi done pend m hsh hids hqi hfix hpre hm hinv hfuel
    have hlen := hids.length_eq
    cases pend with
    | nil =>
      simp only [List.append_nil] at hids hfix hpre hinv hlen
      have hdq : done = t.queue := fix_unique t done hpre hfix
      have hq : ¬ qi < q.size := by
        rw [hqi]; simp at hlen; omega
      refine ⟨g, q, qi, by simp [NfaBuilder.build_fails_leftmost.loop1, hq], hsh, rfl, hdq ▸ hids, ?_, PosKeep.refl _⟩
      rw [← hdq, ← hm]; exact hinv
    | cons s pend =>
      obtain ⟨sid, hq1, hsid0⟩ := idsOf_mid done q.toList s pend hids
      have hqlt : qi < q.size := by
        simp at hlen; omega
      have hidx : Rs.index q qi = .ok sid := by
        rw [← hqi] at hq1
        simp only [Array.getElem?_toList] at hq1
        simp [Rs.index, hq1]
      have hsq : s ∈ t.queue := hpre.subset (by simp)
      obtain ⟨hsn, hs0⟩ := (Trie.mem_queue t s).mp hsq
      have hrepg := rep_shape t 0 [] hrep0 hsh
      have hsidg := idAt_shape hsh s 0 sid hsid0
      obtain ⟨n, hw, hrg⟩ := walk_some_of_idAt hrepg hsidg
      obtain ⟨ss, hss, hso, _⟩ := rep_get hrg
      have hout : t.hasOutput s = ss.output.isSome := by simp [Trie.hasOutput, hw, hso]
      -- the pattern-end write
      obtain ⟨g0, m0, hg0, hm0, hsh0, hpk0, ho0, hinv0⟩ : ∃ (g0 : NfaBuilder V) (m0 : FailMap),
          g0 = (if ss.output.isSome then
            { g with states := g.states.setIfInBounds sid { ss with fail := Gen.deadStateId } } else g) ∧
          m0 = (if t.hasOutput s then m.insert s .dead else m) ∧
          SameShape g.states g0.states ∧ PosKeep g.states g0.states ∧ g0.outputs = g.outputs ∧
          LInv g0.states m0 (fun u => u = [] ∨ u ∈ done ++ s :: pend) := by
        cases hiso : ss.output.isSome with
        | false =>
          exact ⟨g, m, by simp, by simp [hout, hiso], SameShape.refl _, PosKeep.refl _, rfl, hinv⟩
        | true =>
          obtain ⟨a, b, c⟩ := dead_write hrepg hinv hsidg hss
          exact ⟨{ g with states := g.states.setIfInBounds sid { ss with fail := Gen.deadStateId } },
            m.insert s .dead, by simp, by simp [hout, hiso], a, b, rfl, c⟩
      have hsh' := hsh.trans hsh0
      have hrep := rep_shape t 0 [] hrep0 hsh'
      have hsid := idAt_shape hsh' s 0 sid hsid0
      obtain ⟨n', hw', hr⟩ := walk_some_of_idAt hrep hsid
      rw [hw] at hw'; cases hw'
      obtain ⟨ss0, hss0, _, hk⟩ := rep_get hr
      have hedges : ss0.edges = ss.edges := by
        obtain ⟨x, e1, e2, _⟩ := hsh0.2 sid ss hss
        rw [hss0] at e1; cases e1; exact e2
      have hple := hpre.length_le
      simp only [List.length_append, List.length_cons] at hple
      obtain ⟨rest, hrest⟩ := hpre
      have hsplit : t.queue = done ++ s :: (pend ++ rest) := by rw [← hrest]; simp
      have hinvS : LInv g0.states m0
          (fun u => (u.length < s.length ∨ u = s) ∨ (u = [] ∨ u ∈ done ++ s :: pend)) :=
        hinv0.mono' (fun u i hi hu => by
          rcases hu with (h | h) | h
          · by_cases hu0 : u = []
            · exact Or.inl hu0
            · obtain ⟨nu, hwu, _⟩ := walk_some_of_idAt hrep hi
              have hn : t.hasNode u = true := by simp [Trie.hasNode, hwu]
              exact Or.inr (List.mem_append_left _ (Trie.queue_split_shorter t hsplit u hn hu0 h))
          · subst h; exact Or.inr (by simp)
          · exact h)
      have hes : ∀ l cid, (l, cid) ∈ ss0.edges → idAt g0.states 0 (s ++ [l]) = some cid := fun l cid hm' => by
        rw [idAt_snoc s l sid ss0 hsid hss0]; exact (RepK.get_mem n.kids s 0 ss0.edges hk l cid hm').1
      have hdepg : ∀ u i, idAt g0.states 0 u = some i → u.length < g0.states.size := fun u i hi => by
        rw [hsh'.1]; exact hdep u i ((idAt_shape_iff hsh' u 0 i).mp hi)
      obtain ⟨g1, q1, e1, e2, e3, e4, e5, e6⟩ :=
        step_lm pth t s sid hs0 hpd n.kids 0 ss0.edges g0 q m0 _ hrep hk hsid hes hdepg hinvS
      rw [hm0, ← failStepLm_eq hw m] at e5
      have hl1 : (done ++ [s]) ++ (pend ++ t.childPaths s) = (done ++ s :: pend) ++ t.childPaths s := by simp
      have hfix' : (done ++ [s]) ++ (pend ++ t.childPaths s) =
          t.childPaths [] ++ (done ++ [s]).flatMap t.childPaths := by
        rw [hl1, hfix]; simp [List.flatMap_append]
      have hids' : IdsOf st0 q1.toList ((done ++ [s]) ++ (pend ++ t.childPaths s)) := by
        rw [hl1, e2]
        refine idsOf_append hids ?_
        rw [childPaths_eq hw, ← RepK.labels n.kids s 0 ss0.edges hk]
        exact idsOf_edges s ss0.edges (fun l cid hm' => (idAt_shape_iff hsh' _ 0 cid).mp (hes l cid hm'))
      have hpre' : ((done ++ [s]) ++ (pend ++ t.childPaths s)) <+: t.queue := by
        rw [hfix']
        exact prefix_step t (done ++ [s]) ⟨pend ++ rest, by rw [← hrest]; simp⟩
      have hinv' : LInv g1.states (failStepLm t m s)
          (fun u => u = [] ∨ u ∈ (done ++ [s]) ++ (pend ++ t.childPaths s)) :=
        e5.mono (fun u hu => by
          rcases hu with h | h
          · exact Or.inr (Or.inl (Or.inl h))
          · rw [hl1] at h
            rcases List.mem_append.mp h with h | h
            · exact Or.inr (Or.inl (Or.inr h))
            · rw [childPaths_eq hw] at h
              obtain ⟨l, hl, e⟩ := List.mem_map.mp h
              exact Or.inr (Or.inr ⟨l, hl, e.symm⟩))
      obtain ⟨g', q', qi', f1, f2, f3, f4, f5, f6⟩ :=
        ih g1 q1 (qi + 1) (done ++ [s]) (pend ++ t.childPaths s) (failStepLm t m s) (hsh'.trans e3) hids'
          (by simp [hqi]) hfix' hpre' (by rw [hm]; simp [List.foldl_append]) hinv' (by omega)
      refine ⟨g', q', qi', ?_, f2, by rw [f3, e4, ho0], f4, f5, (hpk0.trans e6).trans f6⟩
      rw [loop1_lm_unfold fuel g q qi sid ss hqlt hidx hss, ← hg0, ← hedges, e1]
      exact f1


/-! ## 4. `build_fails_leftmost` -/

theorem loop0_lm_eq : (l : List Nat) → (q : Array Nat) →
    ∃ q', NfaBuilder.build_fails_leftmost.loop0 l q = .ok q' ∧ q'.toList = q.toList ++ l
  | [], q => ⟨q, by simp [NfaBuilder.build_fails_leftmost.loop0], by simp⟩
  | x :: l, q => by
    obtain ⟨q', h1, h2⟩ := loop0_lm_eq l (q.push x)
    exact ⟨q', by simp [NfaBuilder.build_fails_leftmost.loop0, h1], by simp [h2]⟩

theorem buildFailMap_lm_eq (t : Trie V) : buildFailMap t true = t.queue.foldl (failStepLm t) {} := by
  unfold buildFailMap
  simp

/-- `build_fails_leftmost` refines `buildFailMap t true`. -/
theorem build_fails_leftmost_refines (g : NfaBuilder V) (pth : Pth) (t : Trie V)
    (hrep : Rep g.states pth t 0 []) (hpd : pth Gen.deadStateId = none)
    (hfail0 : ∀ (i : Nat) (s : NfaBuilderState V), g.states[i]? = some s → s.fail = 0) :
    ∃ q g', NfaBuilder.build_fails_leftmost g = .ok (q, g') ∧ SameShape g.states g'.states ∧
      PosKeep g.states g'.states ∧ g'.outputs = g.outputs ∧
      IdsOf g.states q.toList t.queue ∧
      (∀ u i, idAt g.states 0 u = some i → ∃ s : NfaBuilderState V, g'.states[i]? = some s ∧
        FailRel g.states ((buildFailMap t true).get u) s.fail) ∧
      (∀ u ∈ t.queue, (buildFailMap t true).get u ≠ .node u) := by
  have hdep : ∀ u i, idAt g.states 0 u = some i → u.length < g.states.size := fun u i hi => depth_lt_size hrep hi
  have hq := queue_lt_size hrep
  obtain ⟨s0, hs0, _, hk0⟩ := rep_get hrep
  obtain ⟨q0, hl0, hq0⟩ := loop0_lm_eq (Rs.EdgeMap.values s0.edges) (Rs.vecWithCapacity g.states.size)
  have hroot : idAt g.states 0 [] = some 0 := by simp [idAt]
  have hw0 : t.walk [] = some t := by simp [Trie.walk]
  have hes : ∀ l cid, (l, cid) ∈ s0.edges → idAt g.states 0 ([] ++ [l]) = some cid := fun l cid hm' => by
    rw [idAt_snoc [] l 0 s0 hroot hs0]; exact (RepK.get_mem t.kids [] 0 s0.edges hk0 l cid hm').1
  have hids : IdsOf g.states q0.toList ([] ++ t.childPaths []) := by
    rw [hq0]
    simp only [Rs.vecWithCapacity, List.nil_append, Rs.EdgeMap.values]
    rw [childPaths_eq hw0, ← RepK.labels t.kids [] 0 s0.edges hk0]
    exact idsOf_edges [] s0.edges hes
  have hinv : LInv g.states ({} : FailMap) (fun u => u = [] ∨ u ∈ [] ++ t.childPaths []) := by
    intro u i hu hi
    obtain ⟨n, _, hr⟩ := walk_some_of_idAt hrep hi
    obtain ⟨s, hs, _⟩ := rep_get hr
    refine ⟨s, hs, ?_, ?_⟩
    · rw [FailMap.get_empty u, hfail0 i s hs]; exact hroot
    · intro nx hnx
      rw [FailMap.get_empty u] at hnx
      cases hnx
      rcases hu with h | h
      · exact Or.inr ⟨h, rfl⟩
      · obtain ⟨c, rfl, _, _⟩ := (Trie.mem_childPaths t [] u).mp (by simpa using h)
        exact Or.inl (by simp)
  obtain ⟨g', q', qi', f1, f2, f3, f4, f5, f6⟩ :=
    bfs_lm pth t g.states hrep hpd hdep (g.states.size + 1) g q0 0 [] (t.childPaths []) {} (SameShape.refl _)
      hids rfl (by simp) (by simpa using prefix_step t [] (List.nil_prefix)) rfl hinv (by omega)
  refine ⟨q', g', ?_, f2, f6, f3, f4, ?_, ?_⟩
  · simp [NfaBuilder.build_fails_leftmost, Gen.rootStateId, index_eq _ _ _ hs0, hl0, f1]
  · intro u i hi
    have hmem : u = [] ∨ u ∈ t.queue := by
      by_cases hu0 : u = []
      · exact Or.inl hu0
      · obtain ⟨n, hwu, _⟩ := walk_some_of_idAt hrep hi
        exact Or.inr ((Trie.mem_queue t u).mpr ⟨by simp [Trie.hasNode, hwu], hu0⟩)
    obtain ⟨s, hs, hr, _⟩ := f5 u i hmem (idAt_shape f2 u 0 i hi)
    refine ⟨s, hs, ?_⟩
    rw [buildFailMap_lm_eq]
    exact hr.shape f2.symm
  · intro u hu
    obtain ⟨hn, hu0⟩ := (Trie.mem_queue t u).mp hu
    obtain ⟨n, hwn⟩ := Option.isSome_iff_exists.mp hn
    obtain ⟨i, hi, _⟩ := idAt_some_of_walk hrep hwn
    obtain ⟨s, hs, _, hsh⟩ := f5 u i (Or.inr hu) (idAt_shape f2 u 0 i hi)
    rw [buildFailMap_lm_eq]
    intro e
    rcases hsh u e with h | h
    · omega
    · exact hu0 h.1


/-- Leftmost kinds: `build_fails_leftmost` then `build_outputs` = `buildNfa t true`. -/
theorem lm_refines (g : NfaBuilder V) (pth : Pth) (t : Trie V) (hrep : Rep g.states pth t 0 [])
    (hfail0 : ∀ (i : Nat) (s : NfaBuilderState V), g.states[i]? = some s → s.fail = 0)
    (hpos0 : ∀ (i : Nat) (s : NfaBuilderState V), g.states[i]? = some s → s.output_pos = none)
    (hout0 : g.outputs = #[])
    (hd1 : ∃ sd : NfaBuilderState V, g.states[Gen.deadStateId]? = some sd) (hpd : pth Gen.deadStateId = none)
    (hne : t.queue ≠ []) (hsz : g.states.size ≤ 4294967295) :
    ∃ q g1 g2, NfaBuilder.build_fails_leftmost g = .ok (q, g1) ∧ NfaBuilder.build_outputs g1 q = .ok ((), g2) ∧
      SameShape g.states g2.states ∧ q.toList.map pth = t.queue.map some ∧
      (∀ u i, idAt g.states 0 u = some i → ∃ s : NfaBuilderState V, g2.states[i]? = some s ∧
        FailRel g.states ((buildNfa t true).fail.get u) s.fail ∧
        OposRel s.output_pos ((buildNfa t true).out.opos.getD u 0)) ∧
      OutsRel g2.outputs (buildNfa t true).out.outs := by
  obtain ⟨q, g1, h1, hsh1, hpk, hout, hids, hfl, hself⟩ := build_fails_leftmost_refines g pth t hrep hpd hfail0
  obtain ⟨g2, h2, r⟩ := pass_then_outputs g g1 pth t (buildFailMap t true) q hrep hpos0 hout0 hd1 hpd hne hsz
    hsh1 hpk hout hids hfl hself
  exact ⟨q, g1, g2, h1, h2, r⟩

end Daac.Tie.F

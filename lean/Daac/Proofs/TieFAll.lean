/-
Translation tie, sparse-NFA construction end to end: the GENERATED insertion fold (`add` from
`NfaBuilder::new`), the fail pass selected by the match kind and `build_outputs`
(Daac/Gen/Nfa.lean, from `src/nfa_builder.rs`; the sequencing mirrors `build_sparse_nfa` of
src/bytewise/builder.rs / src/charwise/builder.rs) refine the hand-written model
`buildTrie` / `buildNfa` (Daac/Model/Trie.lean, Daac/Model/Nfa.lean).
-/
import Daac.Proofs.TieFLm
import Daac.Proofs.TieFFresh
namespace Daac.Tie.F
open Daac Daac.Gen Daac.Gen.N Daac.Tie.N

variable {V : Type}

/-- `match self.match_kind { Standard => nfa.build_fails(), LeftmostLongest | LeftmostFirst =>
nfa.build_fails_leftmost() }` of `build_sparse_nfa` (kinds as bytes: `Gen.kindBytes`). -/
def failPass (kind : Nat) (g : NfaBuilder V) : Except BuildErr (Array Nat × NfaBuilder V) :=
  if kind = 0 then NfaBuilder.build_fails g else NfaBuilder.build_fails_leftmost g

/-- If the translated insertion fold succeeds and registered a pattern, the translated fail pass and
`build_outputs` succeed (no panic, no fuel exhaustion) and the final builder represents
`buildNfa t (kind != 0)` for the model trie `t = buildTrie kind P`: queue, fail links, output
positions and output records. `hsz`: the u32 scale bound; `hlen`: `blen` is the byte length of `key`
under `nb`. -/
theorem sparse_nfa_refines (nb : Nat → Nat) (kind : Nat) (P : List (LPat V)) (g : NfaBuilder V)
    (hsz : 2 + (P.map (·.key.length)).sum ≤ 4294967295)
    (hlen : ∀ p ∈ P, (p.key.map nb).sum = p.blen ∧ p.blen ≤ 4294967295)
    (hadd : addAllGen nb (NfaBuilder.new kind) P = .ok g) (hl : g.len ≠ 0) :
    ∃ t pth q g1 g2, buildTrie kind P = .ok t ∧ Rep g.states pth t 0 [] ∧
      failPass kind g = .ok (q, g1) ∧ NfaBuilder.build_outputs g1 q = .ok ((), g2) ∧
      SameShape g.states g2.states ∧ q.toList.map pth = t.queue.map some ∧
      (∀ u i, idAt g.states 0 u = some i → ∃ s : NfaBuilderState V, g2.states[i]? = some s ∧
        FailRel g.states ((buildNfa t (kind != 0)).fail.get u) s.fail ∧
        OposRel s.output_pos ((buildNfa t (kind != 0)).out.opos.getD u 0)) ∧
      OutsRel g2.outputs (buildNfa t (kind != 0)).out.outs := by
  have hb := build_refines nb kind P hsz hlen
  rw [hadd] at hb
  cases hm : (NfaAcc.init : NfaAcc V).addAll (kind == 2) P with
  | error e => rw [hm] at hb; exact hb.elim
  | ok a =>
    rw [hm] at hb
    obtain ⟨pth, hrep, hlen', _, hd, hpd⟩ : RepAcc g a := hb
    have hal : a.len ≠ 0 := by rw [← hlen']; exact hl
    have hbt : buildTrie kind P = .ok a.trie := by simp [buildTrie, hm, hal]
    obtain ⟨⟨hfr, hout0⟩, hsize, _⟩ := addAllGen_fresh nb P (NfaBuilder.new kind) g hadd (new_fresh kind)
    have hsz' : g.states.size ≤ 4294967295 := by
      have : (NfaBuilder.new kind : NfaBuilder V).states.size = 2 := by simp [NfaBuilder.new]
      omega
    have hne : a.trie.queue ≠ [] := queue_ne_nil_of_len (kind == 2) P a hm
      (fun p hp hk => by
        have := (hlen p hp).1
        rw [hk] at this; simpa using this.symm) hal
    have hfail0 : ∀ (i : Nat) (s : NfaBuilderState V), g.states[i]? = some s → s.fail = 0 :=
      fun i s hs => (hfr i s hs).1
    have hpos0 : ∀ (i : Nat) (s : NfaBuilderState V), g.states[i]? = some s → s.output_pos = none :=
      fun i s hs => (hfr i s hs).2
    by_cases hk : kind = 0
    · obtain ⟨q, g1, g2, h1, h2, r⟩ := std_refines g pth a.trie hrep hfail0 hpos0 hout0 ⟨_, hd⟩ hpd hne hsz'
      have hb : (kind != 0) = false := by simp [hk]
      rw [hb]
      exact ⟨a.trie, pth, q, g1, g2, hbt, hrep, by simp [failPass, hk, h1], h2, r⟩
    · obtain ⟨q, g1, g2, h1, h2, r⟩ := lm_refines g pth a.trie hrep hfail0 hpos0 hout0 ⟨_, hd⟩ hpd hne hsz'
      have hb : (kind != 0) = true := by simp [hk]
      rw [hb]
      exact ⟨a.trie, pth, q, g1, g2, hbt, hrep, by simp [failPass, hk, h1], h2, r⟩

end Daac.Tie.F

/-
From the evaluated invariant `DA.leftmostInv` to the semantic interface `LmSem` (LmIface.lean).
Mirrors `StdSem2.lean`. Core Lean only.
-/
import Daac.Proofs.LmIface
import Daac.Proofs.StdSem2
namespace Daac
set_option linter.unusedSectionVars false
variable {V : Type} [DecidableEq V]

/-! ### The check passes at a node (for some fuel) -/

/-- The probe labels of `DA.leftmostInv`. -/
def DA.probeLm (da : DA V) : List Nat :=
  match da.variant with
  | .bytewise => da.sigma
  | .charwise => da.mapTable.size :: da.sigma

def GoodLm (da : DA V) (P : List (LPat V)) (sig probe : List Nat) (u : List Nat) (i : Nat)
    (R : List (LPat V)) : Prop :=
  ∃ f, da.checkNodeLm P sig probe f i u R = true

theorem GoodLm.unfold {da : DA V} {P : List (LPat V)} {sig probe u i} {R : List (LPat V)}
    (h : GoodLm da P sig probe u i R) :
    ∃ st, da.st i = .ok st ∧
      (∀ p ∈ R, ∀ k ks, p.key = k :: ks → k ∈ sig) ∧
      da.g1Ok (bestIn P u 0) st u = true ∧
      (∀ c ∈ probe, da.nextLm i c = .ok (da.deltaLIdx (bestIn P u 0) u c)) ∧
      (∀ c ∈ sig, (stepRes R c = [] ∧ da.childL i c = .ok none) ∨
        (stepRes R c ≠ [] ∧ ∃ j, da.childL i c = .ok (some j) ∧ j ≠ rootIdx ∧ j ≠ deadIdx ∧
          GoodLm da P sig probe (u ++ [c]) j (stepRes R c))) := by
  obtain ⟨f, hf⟩ := h
  cases f with
  | zero => simp [DA.checkNodeLm] at hf
  | succ f =>
    unfold DA.checkNodeLm at hf
    split at hf
    · exact absurd hf (by simp)
    · rename_i st hst
      simp only [Bool.and_eq_true, List.all_eq_true] at hf
      obtain ⟨⟨⟨hheads, hg1⟩, hprobe⟩, hch⟩ := hf
      refine ⟨st, hst, ?_, hg1, ?_, ?_⟩
      · intro p hp k ks hk
        have := hheads p hp
        simp only [hk] at this
        simpa using this
      · intro c hc
        have := hprobe c hc
        split at this
        · rename_i j hj
          rw [hj]
          congr 1
          simpa using this
        · exact absurd this (by simp)
      · intro c hc
        have := hch c hc
        split at this
        · exact absurd this (by simp)
        · rename_i hcl
          left; exact ⟨by simpa using this, hcl⟩
        · rename_i j hcl
          simp only [Bool.and_eq_true, Bool.not_eq_true', bne_iff_ne, ne_eq] at this
          right
          refine ⟨?_, j, hcl, this.1.1.2, this.1.2, ⟨f, this.2⟩⟩
          intro h0; simp [h0] at this

/-! ### Labels -/

theorem GoodLm.head_mem {da : DA V} {P : List (LPat V)} {sig probe u i} {R : List (LPat V)}
    (h : GoodLm da P sig probe u i R) {c : Nat} (hc : stepRes R c ≠ []) : c ∈ sig := by
  obtain ⟨st, _, hh, _⟩ := h.unfold
  obtain ⟨p, hp⟩ := List.exists_mem_of_ne_nil _ hc
  obtain ⟨q, hq, hk, _⟩ := mem_stepRes.1 hp
  exact hh q hq _ _ hk

theorem GoodLm.step {da : DA V} {P : List (LPat V)} {probe u i} {R : List (LPat V)}
    (h : GoodLm da P da.sigma probe u i R) {c : Nat} (hc : LabelOk da c) :
    (stepRes R c = [] ∧ da.childL i c = .ok none) ∨
      (stepRes R c ≠ [] ∧ ∃ j, da.childL i c = .ok (some j) ∧ j ≠ rootIdx ∧ j ≠ deadIdx ∧
        GoodLm da P da.sigma probe (u ++ [c]) j (stepRes R c)) := by
  rcases hc with hc | hc
  · obtain ⟨st, _, _, _, _, hch⟩ := h.unfold
    exact hch c hc
  · left
    refine ⟨?_, childL_of_code_none i hc⟩
    apply Classical.byContradiction
    intro hne
    have := code_isSome_of_mem_sigma (h.head_mem hne)
    simp [hc] at this

/-! ### Walking -/

theorem GoodLm.walk_some {da : DA V} {P : List (LPat V)} {sig probe : List Nat} :
    ∀ (w : List Nat) {u : List Nat} {i : Nat}
    {R : List (LPat V)}, GoodLm da P sig probe u i R → (w = [] ∨ resid R w ≠ []) →
    ∃ j, da.walkFrom i w = some j ∧ GoodLm da P sig probe (u ++ w) j (resid R w) ∧
      (w ≠ [] → j ≠ rootIdx) ∧ (∀ c ∈ w, c ∈ sig)
  | [], u, i, R, h, _ => ⟨i, rfl, by simpa [resid] using h, by simp, by simp⟩
  | c :: w, u, i, R, h, hw => by
    have hne : resid R (c :: w) ≠ [] := by simpa using hw
    have hs : stepRes R c ≠ [] := fun h0 => hne (resid_eq_nil_of_stepRes w h0)
    have hc : c ∈ sig := h.head_mem hs
    obtain ⟨st, _, _, _, _, hch⟩ := h.unfold
    rcases hch c hc with ⟨h0, _⟩ | ⟨_, j, hcl, hjr, _, hg⟩
    · exact absurd h0 hs
    · have hw' : w = [] ∨ resid (stepRes R c) w ≠ [] := by
        by_cases hw0 : w = []
        · exact Or.inl hw0
        · exact Or.inr (by rwa [resid_cons] at hne)
      obtain ⟨k, hk, hgk, hkr, hsig⟩ := GoodLm.walk_some w hg hw'
      refine ⟨k, by simp [DA.walkFrom, hcl, hk], ?_, ?_, ?_⟩
      · rw [resid_cons]; simpa [List.append_assoc] using hgk
      · intro _
        by_cases hw0 : w = []
        · subst hw0; simp [DA.walkFrom] at hk; exact hk ▸ hjr
        · exact hkr hw0
      · intro d hd
        rcases List.mem_cons.1 hd with rfl | hd
        · exact hc
        · exact hsig d hd

theorem GoodLm.walk_none {da : DA V} {P : List (LPat V)} {probe : List Nat} :
    ∀ (w : List Nat) {u : List Nat} {i : Nat}
    {R : List (LPat V)}, GoodLm da P da.sigma probe u i R → (∀ c ∈ w, LabelOk da c) → w ≠ [] →
    resid R w = [] → da.walkFrom i w = none
  | [], _, _, _, _, _, hw, _ => absurd rfl hw
  | c :: w, u, i, R, h, hl, _, hr => by
    rcases h.step (hl c (by simp)) with ⟨_, hcl⟩ | ⟨hs, j, hcl, _, _, hg⟩
    · simp [DA.walkFrom, hcl]
    · have hw0 : w ≠ [] := by
        rintro rfl
        exact hs (by simpa [resid] using hr)
      have := GoodLm.walk_none w hg (fun d hd => hl d (by simp [hd])) hw0
        (by rwa [resid_cons] at hr)
      simp [DA.walkFrom, hcl, this]

/-! ### Nodes -/

theorem good_rootLm {da : DA V} {P : List (LPat V)} (hT : da.leftmostInv P = true) :
    GoodLm da P da.sigma da.probeLm [] rootIdx P := ⟨_, hT⟩

theorem node_goodLm {da : DA V} {P : List (LPat V)} (hT : da.leftmostInv P = true) {u : List Nat}
    (hu : u ∈ nodeList P) :
    ∃ j, da.walk u = some j ∧ GoodLm da P da.sigma da.probeLm u j (resid P u) ∧
      (u ≠ [] → j ≠ rootIdx) ∧ (∀ c ∈ u, c ∈ da.sigma) := by
  have hw : u = [] ∨ resid P u ≠ [] := by
    rcases mem_nodeList.1 hu with h | h
    · exact Or.inl h
    · exact Or.inr (resid_ne_nil_iff.2 h)
  simpa [DA.walk] using GoodLm.walk_some u (good_rootLm hT) hw

theorem walk_isSome_iff_lm {da : DA V} {P : List (LPat V)} (hT : da.leftmostInv P = true)
    {s : List Nat} (hl : ∀ c ∈ s, LabelOk da c) : (da.walk s).isSome ↔ s ∈ nodeList P := by
  constructor
  · intro h
    apply Classical.byContradiction
    intro hs
    have hs0 : s ≠ [] := by rintro rfl; exact hs (by simp [nodeList])
    have hr : resid P s = [] := by
      apply Classical.byContradiction
      intro hr
      exact hs (mem_nodeList.2 (Or.inr (resid_ne_nil_iff.1 hr)))
    have := GoodLm.walk_none s (good_rootLm hT) hl hs0 hr
    simp [DA.walk, this] at h
  · intro h
    obtain ⟨j, hj, _⟩ := node_goodLm hT h
    simp [hj]

theorem idx_root_iff_of_leftmostInv {da : DA V} {P : List (LPat V)}
    (hT : da.leftmostInv P = true) :
    ∀ u ∈ nodeList P, da.idx u = rootIdx ↔ u = [] := by
  intro u hu
  obtain ⟨j, hj, _, hjr, _⟩ := node_goodLm hT hu
  rw [idx_of_walk hj]
  constructor
  · intro h
    exact Classical.byContradiction fun hne => hjr hne h
  · rintro rfl
    simp [DA.walk, DA.walkFrom] at hj
    exact hj.symm

/-! ### `lsufIdx` -/

theorem head_filterMap_walk_pair (da : DA V) (N : List (List Nat)) :
    ∀ (L : List (List Nat)), (∀ s ∈ L, (da.walk s).isSome ↔ s ∈ N) →
    ((L.filterMap fun s => (da.walk s).map fun j => (s, j)).head?).getD ([], rootIdx)
      = ((L.find? (fun s => decide (s ∈ N))).getD [],
          da.idx ((L.find? (fun s => decide (s ∈ N))).getD []))
  | [], _ => by simp [idx_nil]
  | s :: L, h => by
    have ih := head_filterMap_walk_pair da N L (fun t ht => h t (by simp [ht]))
    by_cases hs : s ∈ N
    · have := (h s (by simp)).2 hs
      obtain ⟨j, hj⟩ := Option.isSome_iff_exists.1 this
      simp [hj, hs, DA.idx]
    · have : da.walk s = none := by
        cases hw : da.walk s with
        | none => rfl
        | some j => exact absurd ((h s (by simp)).1 (by simp [hw])) hs
      simp only [List.filterMap_cons, this, Option.map_none, List.find?_cons, hs, decide_false]
      exact ih

theorem lsufIdx_eq {da : DA V} {P : List (LPat V)} (hT : da.leftmostInv P = true) {x : List Nat}
    (hl : ∀ c ∈ x, LabelOk da c) :
    da.lsufIdx x = (lsuf (nodeList P) x, da.idx (lsuf (nodeList P) x)) := by
  unfold DA.lsufIdx lsuf
  apply head_filterMap_walk_pair
  intro s hs
  apply walk_isSome_iff_lm hT
  intro c hc
  exact hl c ((mem_sufs.1 hs).subset hc)

theorem deltaLIdx_eq {da : DA V} {P : List (LPat V)} (hT : da.leftmostInv P = true) {u : List Nat}
    (hu : u ∈ nodeList P) {c : Nat} (hc : LabelOk da c) :
    da.deltaLIdx (bestIn P u 0) u c = da.idx (deltaL P u c) := by
  obtain ⟨_, _, _, _, hsig⟩ := node_goodLm hT hu
  have hl : ∀ d ∈ u ++ [c], LabelOk da d := by
    intro d hd
    rcases List.mem_append.1 hd with hd | hd
    · exact Or.inl (hsig d hd)
    · simp at hd; exact hd ▸ hc
  unfold DA.deltaLIdx deltaL
  rw [lsufIdx_eq hT hl]
  cases hb : bestIn P u 0 with
  | none => rfl
  | some sp =>
    obtain ⟨s, p⟩ := sp
    simp only
    split
    · exact (idx_nil da).symm
    · rfl

/-! ### Transitions -/

theorem mem_probeLm_of_mem_sigma {da : DA V} {c : Nat} (h : c ∈ da.sigma) : c ∈ da.probeLm := by
  unfold DA.probeLm
  split
  · exact h
  · exact List.mem_cons_of_mem _ h

theorem lsuf_concat_of_code_none {da : DA V} {P : List (LPat V)} (hT : da.leftmostInv P = true)
    (u : List Nat) {c : Nat} (hcc : da.code c = none) : lsuf (nodeList P) (u ++ [c]) = [] := by
  have hN := nodeList_prefClosed P
  obtain ⟨a, b, _⟩ := lsuf_spec hN.nil_mem (u ++ [c])
  rcases List.suffix_concat_iff.1 a with h0 | ⟨t, ht, _⟩
  · exact h0
  · exfalso
    obtain ⟨_, _, _, _, hsig⟩ := node_goodLm hT b
    have := code_isSome_of_mem_sigma (hsig c (by simp [ht]))
    simp [hcc] at this

theorem deltaL_of_code_none {da : DA V} {P : List (LPat V)} (hT : da.leftmostInv P = true)
    (u : List Nat) {c : Nat} (hcc : da.code c = none) : deltaL P u c = [] := by
  unfold deltaL
  rw [lsuf_concat_of_code_none hT u hcc]
  cases hb : bestIn P u 0 with
  | none => rfl
  | some sp =>
    obtain ⟨s, p⟩ := sp
    simp

theorem next_ok_of_leftmostInv {da : DA V} {P : List (LPat V)} (hT : da.leftmostInv P = true) :
    ∀ u ∈ nodeList P, ∀ c, LabelOk da c →
      da.nextLm (da.idx u) c = .ok (da.idx (deltaL P u c)) := by
  intro u hu c hc
  rcases hc with hcs | hcc
  · obtain ⟨j, hj, hg, _, _⟩ := node_goodLm hT hu
    obtain ⟨st, _, _, _, hprobe, _⟩ := hg.unfold
    rw [idx_of_walk hj, hprobe c (mem_probeLm_of_mem_sigma hcs), deltaLIdx_eq hT hu (Or.inl hcs)]
  · rw [deltaL_of_code_none hT u hcc, idx_nil]
    simp [DA.nextLm, DA.nextLmS, hcc, Except.map]

theorem delta_node_of_nodeList (P : List (LPat V)) (u : List Nat) (c : Nat) :
    deltaL P u c ∈ nodeList P := by
  have hN := nodeList_prefClosed P
  obtain ⟨_, b, _⟩ := lsuf_spec hN.nil_mem (u ++ [c])
  unfold deltaL
  cases hb : bestIn P u 0 with
  | none => exact b
  | some sp =>
    obtain ⟨s, p⟩ := sp
    simp only
    split
    · exact hN.nil_mem
    · exact b

/-! ### Outputs -/

theorem out_ok_of_leftmostInv {da : DA V} {P : List (LPat V)} (hT : da.leftmostInv P = true) :
    ∀ u ∈ nodeList P, ∃ st, da.st (da.idx u) = .ok st ∧
      (match oposL P u with
       | some p => st.opos ≠ 0 ∧ ∃ o, da.out st.opos = .ok o ∧ o.value = p.value ∧ o.length = p.blen
       | none => st.opos = 0) := by
  intro u hu
  obtain ⟨j, hj, hg, _, _⟩ := node_goodLm hT hu
  obtain ⟨st, hst, _, hg1, _⟩ := hg.unfold
  refine ⟨st, by rw [idx_of_walk hj]; exact hst, ?_⟩
  unfold DA.g1Ok at hg1
  unfold oposL
  cases hb : bestIn P u 0 with
  | none =>
    rw [hb] at hg1
    simpa using hg1
  | some sp =>
    obtain ⟨s, p⟩ := sp
    rw [hb] at hg1
    simp only at hg1 ⊢
    by_cases hlen : s + p.key.length = u.length
    · simp only [hlen, if_true] at hg1 ⊢
      split at hg1
      · exact absurd hg1 (by simp)
      · rename_i o ho
        simp only [Bool.and_eq_true, decide_eq_true_eq, beq_iff_eq] at hg1
        refine ⟨?_, o, ho, hg1.1, hg1.2⟩
        intro h0
        simp [DA.out, h0] at ho
    · simp only [hlen, if_false] at hg1 ⊢
      simpa using hg1

/-! ### Assembly -/

/-- The evaluated leftmost invariant implies the semantic interface. The hypotheses `hkeys` and
`hne` are not needed by the proof; they are kept so that the statement has the agreed shape. -/
theorem lmSem_of_leftmostInv (da : DA V) (P : List (LPat V))
    (_hkeys : (P.map (·.key)).Nodup) (_hne : ∀ p ∈ P, p.key ≠ [])
    (hT : da.leftmostInv P = true) : LmSem da P where
  root := idx_nil da
  idx_root_iff := idx_root_iff_of_leftmostInv hT
  next_ok := next_ok_of_leftmostInv hT
  delta_node := fun u _ c => delta_node_of_nodeList P u c
  out_ok := out_ok_of_leftmostInv hT

#print axioms lmSem_of_leftmostInv

end Daac

/-
Property C13 ("standard scans are linear") from the LAYOUT interface (Rung 2): the 2n transition
bound of Proofs/Steps.lean, re-derived from `LayoutSem da t (buildNfa t false) idx` instead of the
boolean table invariant `tableInv`.

  1. `scanSteps_of_step` / `steps_total_of_step`: the scan theorem, generic in a one-transition
     hypothesis `hstep`.
  2. `nextLoop_steps_of_layout` / `nextS_steps_of_layout`: the one-transition fact with its
     iteration count, from the layout.
  3. `steps_le_2n_of_layout`: the final bound.

The source-level helpers (`ItemsOk`, `itemsOk_of_allItems`, `allItems_length_le`) are those of
Steps.lean. `V` needs no decidable equality here (Steps.lean's helpers take an instance; the
proofs below supply the classical one).
Core Lean only.
-/
import Daac.Proofs.Steps
import Daac.Proofs.LayoutSem
namespace Daac
variable {V : Type}

/-! ### 1. The scan, generic in the one-transition fact -/

/-- The scan from the node `u`, given only a one-transition fact `hstep` over a node set `N`
closed under `lsuf N`: a decoding fault is passed on unchanged; otherwise the scan succeeds and
`total + |final node| ≤ n + |u| + 2 * #items`. -/
theorem scanSteps_of_step {da : DA V} (N : List (List Nat)) (hN : ∀ x, lsuf N x ∈ N)
    (hstep : ∀ u ∈ N, ∀ c, LabelOk da c →
      ∃ k, da.nextS (da.idx u) c = .ok (da.idx (lsuf N (u ++ [c])), k) ∧
        k + (lsuf N (u ++ [c])).length ≤ u.length + 2) :
    ∀ (fuel : Nat) (u : List Nat) (src : Src) (n : Nat), u ∈ N → ItemsOk da fuel src →
      (∀ e, allItems da.variant fuel src = .error e →
        scanSteps da fuel (da.idx u) src n = .error e) ∧
      (∀ items, allItems da.variant fuel src = .ok items →
        ∃ total t, scanSteps da fuel (da.idx u) src n = .ok total ∧ t ∈ N ∧
          total + t.length ≤ n + u.length + 2 * items.length)
  | 0, u, src, n, _, _ => by
    constructor
    · intro e h; simp only [allItems] at h; cases h; rfl
    · intro items h; simp [allItems] at h
  | fuel + 1, u, src, n, hu, hok => by
    unfold ItemsOk at hok
    unfold allItems scanSteps
    cases hi : nextItem da.variant src with
    | error e0 =>
      dsimp only
      constructor
      · intro e h; cases h; rfl
      · intro items h; cases h
    | ok r =>
      cases r with
      | none =>
        dsimp only
        constructor
        · intro e h; cases h
        · intro items h
          cases h
          exact ⟨n, u, rfl, hu, by simp⟩
      | some pr =>
        obtain ⟨item, src'⟩ := pr
        dsimp only
        rw [hi] at hok
        obtain ⟨hl, hok'⟩ := hok
        obtain ⟨k, hk, hk2⟩ := hstep u hu item.label hl
        have ht := hN (u ++ [item.label])
        obtain ⟨ih1, ih2⟩ :=
          scanSteps_of_step N hN hstep fuel (lsuf N (u ++ [item.label])) src' (n + k) ht hok'
        simp only [hk]
        constructor
        · intro e h
          split at h
          · next e' he => cases h; exact ih1 _ he
          · cases h
        · intro items h
          split at h
          · cases h
          · next l hl' =>
            cases h
            obtain ⟨total, t, h1, h2, h3⟩ := ih2 l hl'
            refine ⟨total, t, h1, h2, ?_⟩
            simp only [List.length_cons]
            omega

/-- Whole haystacks: the scan succeeds with at most `2 * #items ≤ 2 * |h|` transitions. -/
theorem steps_total_of_step {da : DA V} (N : List (List Nat)) (hN : ∀ x, lsuf N x ∈ N)
    (hstep : ∀ u ∈ N, ∀ c, LabelOk da c →
      ∃ k, da.nextS (da.idx u) c = .ok (da.idx (lsuf N (u ++ [c])), k) ∧
        k + (lsuf N (u ++ [c])).length ≤ u.length + 2)
    {h : List Nat} {items : List WItem}
    (hi : allItems da.variant (h.length + 1) ⟨h, 0⟩ = .ok items)
    (hl : ∀ w ∈ items, LabelOk da w.label) (hnil : [] ∈ N) (hroot : da.idx [] = rootIdx) :
    ∃ total, scanSteps da (h.length + 1) rootIdx (startSrc h) 0 = .ok total ∧
      total ≤ 2 * items.length ∧ total ≤ 2 * h.length := by
  classical
  obtain ⟨total, t, h1, _, h3⟩ :=
    (scanSteps_of_step N hN hstep (h.length + 1) [] ⟨h, 0⟩ 0 hnil
      (itemsOk_of_allItems _ _ items hi hl)).2 items hi
  rw [hroot] at h1
  have := allItems_length_le _ _ _ hi
  simp only [List.length_nil] at h3
  simp only at this
  exact ⟨total, h1, by omega, by omega⟩

/-! ### 2. One transition from the layout, with its step count -/

theorem lsuf_mem_nodeList' (P : List (LPat V)) (x : List Nat) :
    lsuf (nodeList P) x ∈ nodeList P := by
  classical
  exact (lsuf_spec (nodeList_prefClosed P).nil_mem x).2.1

/-- `nextLoop_layout` carrying the iteration count: from the node `u` the loop takes `k ≥ 1`
iterations and lands on the node `t = lsuf N (u ++ [c])` with `k + |t| ≤ |u| + 2`. -/
theorem nextLoop_steps_of_layout {da : DA V} {t : Trie V} {idx : List Nat → Nat}
    {P : List (LPat V)}
    (hL : LayoutSem da t (buildNfa t false) idx) (hS : TrieSem t P) {c cc : Nat}
    (hc : LabelOk da c) (hcc : da.code c = some cc) :
    ∀ (fuel : Nat) (u : List Nat), u ∈ nodeList P → u.length < fuel → ∀ n,
      ∃ k, da.nextLoop fuel (idx u) cc n
          = .ok (idx (lsuf (nodeList P) (u ++ [c])), n + k) ∧
        1 ≤ k ∧ k + (lsuf (nodeList P) (u ++ [c])).length ≤ u.length + 2 := by
  classical
  intro fuel
  induction fuel with
  | zero => intro u _ h; exact absurd h (Nat.not_lt_zero _)
  | succ fuel ih =>
    intro u hu hlen n
    have hN := nodeList_prefClosed P
    have hun : t.hasNode u = true := (hS.nodes u).2 hu
    have hch := hL.child u hun c hc
    unfold DA.nextLoop
    rw [child_eq_childL hcc, hch]
    by_cases hm : t.hasNode (u ++ [c]) = true
    · rw [if_pos hm]
      rw [lsuf_mem_self ((hS.nodes _).1 hm) hN.nil_mem]
      refine ⟨1, rfl, Nat.le_refl _, ?_⟩
      simp only [List.length_append, List.length_singleton]
      omega
    · rw [if_neg hm]
      have hnot : u ++ [c] ∉ nodeList P := fun h => hm ((hS.nodes _).2 h)
      by_cases hroot : idx u = rootIdx
      · have hu0 : u = [] := (layout_idx_root_iff hL hun).1 hroot
        subst hu0
        have : lsuf (nodeList P) ([] ++ [c]) = [] := by
          simp only [List.nil_append] at hnot ⊢
          rw [lsuf_cons_of_not_mem hnot, lsuf_nil]
        refine ⟨1, ?_, Nat.le_refl _, ?_⟩
        · simp only [hroot, if_true]
          rw [this, hL.root]
        · rw [this]; simp
      · have hu0 : u ≠ [] := fun h => hroot ((layout_idx_root_iff hL hun).2 h)
        obtain ⟨st, hst, _, hfail⟩ := hL.node u hun
        have hfail := hfail hu0
        simp only [buildNfa] at hfail
        rw [Props.Builder.fails_std t P hS u hu] at hfail
        simp only at hfail
        simp only [hroot, if_false, hst]
        rw [hfail, lsuf_fail hN u c hu0 hnot]
        obtain ⟨hv, hvl⟩ := lps_mem_lt (P := P) hu0
        obtain ⟨k, hk, hk1, hk2⟩ := ih _ hv (by omega) (n + 1)
        refine ⟨k + 1, ?_, by omega, by omega⟩
        rw [hk]
        congr 2
        omega

/-- One call of the transition function from the node `u`: it returns the node
`t = lsuf N (u ++ [c])` after `k` loop iterations with `k + |t| ≤ |u| + 2`. -/
theorem nextS_steps_of_layout {da : DA V} {t : Trie V} {idx : List Nat → Nat}
    {P : List (LPat V)}
    (hL : LayoutSem da t (buildNfa t false) idx) (hS : TrieSem t P)
    (hlab : ∀ u, t.hasNode u = true → ∀ c ∈ u, LabelOk da c)
    (hD : ∀ u, t.hasNode u = true → u.length < da.states.size) :
    ∀ u ∈ nodeList P, ∀ c, LabelOk da c →
      ∃ k, da.nextS (da.idx u) c = .ok (da.idx (lsuf (nodeList P) (u ++ [c])), k) ∧
        k + (lsuf (nodeList P) (u ++ [c])).length ≤ u.length + 2 := by
  classical
  intro u hu c hc
  rw [idx_eq_of_mem hL hS hlab hu,
    idx_eq_of_mem hL hS hlab (lsuf_mem_nodeList' P (u ++ [c]))]
  cases hcc : da.code c with
  | none =>
    rw [lsuf_snoc_of_code_none hL hS u hcc, hL.root]
    refine ⟨0, ?_, by simp⟩
    simp [DA.nextS, hcc]
  | some cc =>
    have hlen : u.length < da.fuel := by
      have := hD u ((hS.nodes u).2 hu)
      unfold DA.fuel; omega
    obtain ⟨k, hk, _, hk2⟩ := nextLoop_steps_of_layout hL hS hc hcc da.fuel u hu hlen 0
    refine ⟨k, ?_, hk2⟩
    simp only [DA.nextS, hcc, hk, Nat.zero_add]

/-- When the label has a code, at least one iteration is taken. -/
theorem nextS_steps_pos_of_layout {da : DA V} {t : Trie V} {idx : List Nat → Nat}
    {P : List (LPat V)}
    (hL : LayoutSem da t (buildNfa t false) idx) (hS : TrieSem t P)
    (hlab : ∀ u, t.hasNode u = true → ∀ c ∈ u, LabelOk da c)
    (hD : ∀ u, t.hasNode u = true → u.length < da.states.size)
    {u : List Nat} (hu : u ∈ nodeList P) {c cc : Nat} (hc : LabelOk da c)
    (hcc : da.code c = some cc) :
    ∃ k, da.nextS (da.idx u) c = .ok (da.idx (lsuf (nodeList P) (u ++ [c])), k) ∧ 1 ≤ k ∧
      k + (lsuf (nodeList P) (u ++ [c])).length ≤ u.length + 2 := by
  classical
  rw [idx_eq_of_mem hL hS hlab hu,
    idx_eq_of_mem hL hS hlab (lsuf_mem_nodeList' P (u ++ [c]))]
  have hlen : u.length < da.fuel := by
    have := hD u ((hS.nodes u).2 hu)
    unfold DA.fuel; omega
  obtain ⟨k, hk, hk1, hk2⟩ := nextLoop_steps_of_layout hL hS hc hcc da.fuel u hu hlen 0
  refine ⟨k, ?_, hk1, hk2⟩
  simp only [DA.nextS, hcc, hk, Nat.zero_add]

/-! ### 3. The 2n bound from the layout -/

/-- **Standard scans are linear** (from the layout interface): for a table that mirrors the NFA of
`buildNfa t false`, the scan of a haystack whose items decode without fault and carry `LabelOk`
labels succeeds, and the total number of automaton transitions is at most twice the number of
items, hence at most twice the number of bytes. -/
theorem steps_le_2n_of_layout {da : DA V} {t : Trie V} {idx : List Nat → Nat}
    {P : List (LPat V)}
    (hL : LayoutSem da t (buildNfa t false) idx) (hS : TrieSem t P)
    (hlab : ∀ u, t.hasNode u = true → ∀ c ∈ u, LabelOk da c)
    (hD : ∀ u, t.hasNode u = true → u.length < da.states.size)
    {h : List Nat} {items : List WItem}
    (hi : allItems da.variant (h.length + 1) ⟨h, 0⟩ = .ok items)
    (hl : ∀ w ∈ items, LabelOk da w.label) :
    ∃ total, scanSteps da (h.length + 1) rootIdx (startSrc h) 0 = .ok total ∧
      total ≤ 2 * items.length ∧ total ≤ 2 * h.length := by
  have hnil := nil_mem_nodeList_ls P
  refine steps_total_of_step (nodeList P) (lsuf_mem_nodeList' P)
    (nextS_steps_of_layout hL hS hlab hD) hi hl hnil ?_
  rw [idx_eq_of_mem hL hS hlab hnil, hL.root]

/-- Uniqueness form: whatever total the scan returns obeys the bound. -/
theorem steps_le_2n_of_layout' {da : DA V} {t : Trie V} {idx : List Nat → Nat}
    {P : List (LPat V)}
    (hL : LayoutSem da t (buildNfa t false) idx) (hS : TrieSem t P)
    (hlab : ∀ u, t.hasNode u = true → ∀ c ∈ u, LabelOk da c)
    (hD : ∀ u, t.hasNode u = true → u.length < da.states.size)
    {h : List Nat} {items : List WItem}
    (hi : allItems da.variant (h.length + 1) ⟨h, 0⟩ = .ok items)
    (hl : ∀ w ∈ items, LabelOk da w.label) {total : Nat}
    (hs : scanSteps da (h.length + 1) rootIdx (startSrc h) 0 = .ok total) :
    total ≤ 2 * items.length ∧ total ≤ 2 * h.length := by
  obtain ⟨total', h1, h2, h3⟩ := steps_le_2n_of_layout hL hS hlab hD hi hl
  rw [h1] at hs
  cases hs
  exact ⟨h2, h3⟩

#print axioms scanSteps_of_step
#print axioms steps_total_of_step
#print axioms nextLoop_steps_of_layout
#print axioms nextS_steps_of_layout
#print axioms steps_le_2n_of_layout
#print axioms steps_le_2n_of_layout'

end Daac

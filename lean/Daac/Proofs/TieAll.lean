/-
Translation tie, whole searches: the GENERATED entry point (`find_iter`, … — `none` = the
documented panic on a match-kind mismatch) followed by GENERATED `next()` calls until `None`
gives exactly the model's `findAll` / `ovAll` / `noSufAll` / `lmAll`, which the property theorems
are about.
-/
import Daac.Proofs.TieB
import Daac.Proofs.TieC
import Daac.Proofs.TieCollect
namespace Daac.Tie
open Daac Daac.Gen

variable {V : Type}

/-- Entry point (may panic = `none`), then `next()` until `None`, recording matches and the
number of bytes pulled when each was returned. -/
def runGen {σ : Type} (next : σ → Except Fault (Option (Rs.Match V) × σ)) (pulled : σ → Nat)
    (fuel : Nat) (start : Option σ) : Option (Except Fault (List (Daac.Match V × Nat) × Nat)) :=
  start.map (fun it => collectWith (asStep next) pulled fuel it)

namespace B
def findAll (da : DA V) (h : List Nat) :=
  runGen Gen.B.FindIterator.next (·.haystack.pulled) (collectFuel da h) (Gen.B.DA.find_iter da h)
def findAllFromIter (da : DA V) (h : List Nat) :=
  runGen Gen.B.FindIterator.next (·.haystack.pulled) (collectFuel da h) (Gen.B.DA.find_iter_from_iter da h)
def ovAll (da : DA V) (h : List Nat) :=
  runGen Gen.B.FindOverlappingIterator.next (·.haystack.pulled) (collectFuel da h) (Gen.B.DA.find_overlapping_iter da h)
def ovAllFromIter (da : DA V) (h : List Nat) :=
  runGen Gen.B.FindOverlappingIterator.next (·.haystack.pulled) (collectFuel da h) (Gen.B.DA.find_overlapping_iter_from_iter da h)
def noSufAll (da : DA V) (h : List Nat) :=
  runGen Gen.B.FindOverlappingNoSuffixIterator.next (·.haystack.pulled) (collectFuel da h) (Gen.B.DA.find_overlapping_no_suffix_iter da h)
def noSufAllFromIter (da : DA V) (h : List Nat) :=
  runGen Gen.B.FindOverlappingNoSuffixIterator.next (·.haystack.pulled) (collectFuel da h) (Gen.B.DA.find_overlapping_no_suffix_iter_from_iter da h)
def lmAll (da : DA V) (h : List Nat) :=
  runGen Gen.B.LestmostFindIterator.next (fun _ => 0) (collectFuel da h) (Gen.B.DA.leftmost_find_iter da h)

theorem findAll_eq (da : DA V) (hv : da.variant = .bytewise) (h : List Nat) :
    findAll da h = if da.kind = 0 then some (Daac.findAll da h) else none := by
  sorry
theorem findAllFromIter_eq (da : DA V) (hv : da.variant = .bytewise) (h : List Nat) :
    findAllFromIter da h = if da.kind = 0 then some (Daac.findAll da h) else none := by
  sorry
theorem ovAll_eq (da : DA V) (hv : da.variant = .bytewise) (h : List Nat) :
    ovAll da h = if da.kind = 0 then some (Daac.ovAll da h) else none := by
  sorry
theorem ovAllFromIter_eq (da : DA V) (hv : da.variant = .bytewise) (h : List Nat) :
    ovAllFromIter da h = if da.kind = 0 then some (Daac.ovAll da h) else none := by
  sorry
theorem noSufAll_eq (da : DA V) (hv : da.variant = .bytewise) (h : List Nat) :
    noSufAll da h = if da.kind = 0 then some (Daac.noSufAll da h) else none := by
  sorry
theorem noSufAllFromIter_eq (da : DA V) (hv : da.variant = .bytewise) (h : List Nat) :
    noSufAllFromIter da h = if da.kind = 0 then some (Daac.noSufAll da h) else none := by
  sorry
theorem lmAll_eq (da : DA V) (hv : da.variant = .bytewise) (h : List Nat) :
    lmAll da h = if da.kind = 1 ∨ da.kind = 2 then some (Daac.lmAll da h) else none := by
  sorry
end B

namespace C
def findAll (da : DA V) (h : List Nat) :=
  runGen Gen.C.FindIterator.next (·.haystack.inner.pulled) (collectFuel da h) (Gen.C.DA.find_iter da h)
def findAllFromIter (da : DA V) (h : List Nat) :=
  runGen Gen.C.FindIterator.next (·.haystack.inner.pulled) (collectFuel da h) (Gen.C.DA.find_iter_from_iter da h)
def ovAll (da : DA V) (h : List Nat) :=
  runGen Gen.C.FindOverlappingIterator.next (·.haystack.inner.pulled) (collectFuel da h) (Gen.C.DA.find_overlapping_iter da h)
def ovAllFromIter (da : DA V) (h : List Nat) :=
  runGen Gen.C.FindOverlappingIterator.next (·.haystack.inner.pulled) (collectFuel da h) (Gen.C.DA.find_overlapping_iter_from_iter da h)
def noSufAll (da : DA V) (h : List Nat) :=
  runGen Gen.C.FindOverlappingNoSuffixIterator.next (·.haystack.inner.pulled) (collectFuel da h) (Gen.C.DA.find_overlapping_no_suffix_iter da h)
def noSufAllFromIter (da : DA V) (h : List Nat) :=
  runGen Gen.C.FindOverlappingNoSuffixIterator.next (·.haystack.inner.pulled) (collectFuel da h) (Gen.C.DA.find_overlapping_no_suffix_iter_from_iter da h)
def lmAll (da : DA V) (h : List Nat) :=
  runGen Gen.C.LestmostFindIterator.next (fun _ => 0) (collectFuel da h) (Gen.C.DA.leftmost_find_iter da h)

theorem findAll_eq (da : DA V) (hv : da.variant = .charwise) (h : List Nat) :
    findAll da h = if da.kind = 0 then some (Daac.findAll da h) else none := by
  sorry
theorem findAllFromIter_eq (da : DA V) (hv : da.variant = .charwise) (h : List Nat) :
    findAllFromIter da h = if da.kind = 0 then some (Daac.findAll da h) else none := by
  sorry
theorem ovAll_eq (da : DA V) (hv : da.variant = .charwise) (h : List Nat) :
    ovAll da h = if da.kind = 0 then some (Daac.ovAll da h) else none := by
  sorry
theorem ovAllFromIter_eq (da : DA V) (hv : da.variant = .charwise) (h : List Nat) :
    ovAllFromIter da h = if da.kind = 0 then some (Daac.ovAll da h) else none := by
  sorry
theorem noSufAll_eq (da : DA V) (hv : da.variant = .charwise) (h : List Nat) :
    noSufAll da h = if da.kind = 0 then some (Daac.noSufAll da h) else none := by
  sorry
theorem noSufAllFromIter_eq (da : DA V) (hv : da.variant = .charwise) (h : List Nat) :
    noSufAllFromIter da h = if da.kind = 0 then some (Daac.noSufAll da h) else none := by
  sorry
/-- Char-wise leftmost search of a `str` (valid UTF-8 text with scalar values `t`). -/
theorem lmAll_eq (da : DA V) (hv : da.variant = .charwise) (t : List Nat)
    (ht : ∀ c ∈ t, isScalar c = true) :
    lmAll da (encAll t) = if da.kind = 1 ∨ da.kind = 2 then some (Daac.lmAll da (encAll t)) else none := by
  sorry
end C

end Daac.Tie

/-
Translation tie, whole searches: the GENERATED entry point (`find_iter`, … — `none` = the
documented panic on a match-kind mismatch) followed by GENERATED `next()` calls until `None`
gives exactly the model's `findAll` / `ovAll` / `noSufAll` / `lmAll`, which the property theorems
are about.
-/
import Daac.Proofs.TieB
import Daac.Proofs.TieC
import Daac.Proofs.TieCollect
namespace Daac.Tie
open Daac Daac.Gen

variable {V : Type}

/-- Entry point (may panic = `none`), then `next()` until `None`, recording matches and the
number of bytes pulled when each was returned. -/
def runGen {σ : Type} (next : σ → Except Fault (Option (Rs.Match V) × σ)) (pulled : σ → Nat)
    (fuel : Nat) (start : Option σ) : Option (Except Fault (List (Daac.Match V × Nat) × Nat)) :=
  start.map (fun it => collectWith (asStep next) pulled fuel it)

/-! ### Generic lifting -/

/-- From a per-call equality stated on the pair `(pma, abs)`: the `abs` component alone, and the
preservation of the automaton reference. -/
theorem split_step {σ τ : Type} (abs : σ → τ) (pma : σ → DA V) (d : DA V)
    (x : Except Fault (Option (Rs.Match V) × σ)) (y : Except Fault (Step τ V))
    (h : x.map (obs (fun i => (pma i, abs i))) = y.map (fun st => (st.result, (d, st.it)))) :
    x.map (obs abs) = y.map obsM ∧ ∀ r s', x = .ok (r, s') → pma s' = d := by
  cases x with
  | error e =>
    cases y with
    | error e' => simp [Except.map] at h ⊢; exact h
    | ok st => simp [Except.map] at h
  | ok p =>
    cases y with
    | error e' => simp [Except.map] at h
    | ok st =>
      simp only [Except.map, obs, Except.ok.injEq, Prod.mk.injEq] at h
      obtain ⟨h1, h2, h3⟩ := h
      refine ⟨by simp [Except.map, obs, obsM, h1, h3], ?_⟩
      intro r s' e
      simp only [Except.ok.injEq] at e
      subst e
      exact h2

theorem collect_sim' {σ τ : Type} (da : DA V)
    (nextG : σ → Except Fault (Option (Rs.Match V) × σ)) (nextM : τ → Except Fault (Step τ V))
    (abs : σ → τ) (pma : σ → DA V) (Extra : σ → Prop) (pulledG : σ → Nat) (pulledM : τ → Nat)
    (hp : ∀ s, pulledG s = pulledM (abs s))
    (hstep : ∀ s, pma s = da → Extra s →
      (nextG s).map (obs (fun i => (pma i, abs i)))
        = (nextM (abs s)).map (fun st => (st.result, (da, st.it))))
    (hextra : ∀ s r s', pma s = da → Extra s → nextG s = .ok (r, s') → Extra s')
    (fuel : Nat) (s : σ) (h1 : pma s = da) (h2 : Extra s) :
    collectWith (asStep nextG) pulledG fuel s = collectWith nextM pulledM fuel (abs s) := by
  apply collect_sim nextG nextM abs (fun s => pma s = da ∧ Extra s) pulledG pulledM hp
  · intro s hs
    exact (split_step abs pma da _ _ (hstep s hs.1 hs.2)).1
  · intro s r s' hs e
    exact ⟨(split_step abs pma da _ _ (hstep s hs.1 hs.2)).2 r s' e, hextra s r s' hs.1 hs.2 e⟩
  · exact ⟨h1, h2⟩

namespace B
def findAll (da : DA V) (h : List Nat) :=
  runGen Gen.B.FindIterator.next (·.haystack.pulled) (collectFuel da h) (Gen.B.DA.find_iter da h)
def findAllFromIter (da : DA V) (h : List Nat) :=
  runGen Gen.B.FindIterator.next (·.haystack.pulled) (collectFuel da h) (Gen.B.DA.find_iter_from_iter da h)
def ovAll (da : DA V) (h : List Nat) :=
  runGen Gen.B.FindOverlappingIterator.next (·.haystack.pulled) (collectFuel da h) (Gen.B.DA.find_overlapping_iter da h)
def ovAllFromIter (da : DA V) (h : List Nat) :=
  runGen Gen.B.FindOverlappingIterator.next (·.haystack.pulled) (collectFuel da h) (Gen.B.DA.find_overlapping_iter_from_iter da h)
def noSufAll (da : DA V) (h : List Nat) :=
  runGen Gen.B.FindOverlappingNoSuffixIterator.next (·.haystack.pulled) (collectFuel da h) (Gen.B.DA.find_overlapping_no_suffix_iter da h)
def noSufAllFromIter (da : DA V) (h : List Nat) :=
  runGen Gen.B.FindOverlappingNoSuffixIterator.next (·.haystack.pulled) (collectFuel da h) (Gen.B.DA.find_overlapping_no_suffix_iter_from_iter da h)
def lmAll (da : DA V) (h : List Nat) :=
  runGen Gen.B.LestmostFindIterator.next (fun _ => 0) (collectFuel da h) (Gen.B.DA.leftmost_find_iter da h)

theorem findAll_eq (da : DA V) (hv : da.variant = .bytewise) (h : List Nat) :
    findAll da h = if da.kind = 0 then some (Daac.findAll da h) else none := by
  unfold B.findAll runGen Gen.B.DA.find_iter Gen.B.MatchKind.is_standard
  by_cases hk : da.kind = 0
  · simp only [hk, decide_true, if_true, Option.map_some]
    congr 1
    apply collect_sim' da Gen.B.FindIterator.next (FindIt.next da) absFind (·.pma) (fun _ => True)
    · intro s; rfl
    · intro s hs _
      have := find_next_eq s (hs ▸ hv); rw [hs] at this; exact this
    · intros; trivial
    · rfl
    · trivial
  · simp [hk]
theorem findAllFromIter_eq (da : DA V) (hv : da.variant = .bytewise) (h : List Nat) :
    findAllFromIter da h = if da.kind = 0 then some (Daac.findAll da h) else none := by
  unfold B.findAllFromIter runGen Gen.B.DA.find_iter_from_iter Gen.B.MatchKind.is_standard
  by_cases hk : da.kind = 0
  · simp only [hk, decide_true, if_true, Option.map_some]
    congr 1
    apply collect_sim' da Gen.B.FindIterator.next (FindIt.next da) absFind (·.pma) (fun _ => True)
    · intro s; rfl
    · intro s hs _
      have := find_next_eq s (hs ▸ hv); rw [hs] at this; exact this
    · intros; trivial
    · rfl
    · trivial
  · simp [hk]
theorem ovAll_eq (da : DA V) (hv : da.variant = .bytewise) (h : List Nat) :
    ovAll da h = if da.kind = 0 then some (Daac.ovAll da h) else none := by
  unfold B.ovAll runGen Gen.B.DA.find_overlapping_iter Gen.B.MatchKind.is_standard
  by_cases hk : da.kind = 0
  · simp only [hk, decide_true, if_true, Option.map_some]
    congr 1
    apply collect_sim' da Gen.B.FindOverlappingIterator.next (OvIt.next da) absOv (·.pma) OvWf
    · intro s; rfl
    · intro s hs hw
      have := ov_next_eq s (hs ▸ hv) hw; rw [hs] at this; exact this
    · intro s r s' _ hw e; exact ov_next_wf s hw r s' e
    · rfl
    · simp [OvWf]
  · simp [hk]
theorem ovAllFromIter_eq (da : DA V) (hv : da.variant = .bytewise) (h : List Nat) :
    ovAllFromIter da h = if da.kind = 0 then some (Daac.ovAll da h) else none := by
  unfold B.ovAllFromIter runGen Gen.B.DA.find_overlapping_iter_from_iter Gen.B.MatchKind.is_standard
  by_cases hk : da.kind = 0
  · simp only [hk, decide_true, if_true, Option.map_some]
    congr 1
    apply collect_sim' da Gen.B.FindOverlappingIterator.next (OvIt.next da) absOv (·.pma) OvWf
    · intro s; rfl
    · intro s hs hw
      have := ov_next_eq s (hs ▸ hv) hw; rw [hs] at this; exact this
    · intro s r s' _ hw e; exact ov_next_wf s hw r s' e
    · rfl
    · simp [OvWf]
  · simp [hk]
theorem noSufAll_eq (da : DA V) (hv : da.variant = .bytewise) (h : List Nat) :
    noSufAll da h = if da.kind = 0 then some (Daac.noSufAll da h) else none := by
  unfold B.noSufAll runGen Gen.B.DA.find_overlapping_no_suffix_iter Gen.B.MatchKind.is_standard
  by_cases hk : da.kind = 0
  · simp only [hk, decide_true, if_true, Option.map_some]
    congr 1
    apply collect_sim' da Gen.B.FindOverlappingNoSuffixIterator.next (NoSufIt.next da) absNoSuf (·.pma) (fun _ => True)
    · intro s; rfl
    · intro s hs _
      have := nosuf_next_eq s (hs ▸ hv); rw [hs] at this; exact this
    · intros; trivial
    · rfl
    · trivial
  · simp [hk]
theorem noSufAllFromIter_eq (da : DA V) (hv : da.variant = .bytewise) (h : List Nat) :
    noSufAllFromIter da h = if da.kind = 0 then some (Daac.noSufAll da h) else none := by
  unfold B.noSufAllFromIter runGen Gen.B.DA.find_overlapping_no_suffix_iter_from_iter Gen.B.MatchKind.is_standard
  by_cases hk : da.kind = 0
  · simp only [hk, decide_true, if_true, Option.map_some]
    congr 1
    apply collect_sim' da Gen.B.FindOverlappingNoSuffixIterator.next (NoSufIt.next da) absNoSuf (·.pma) (fun _ => True)
    · intro s; rfl
    · intro s hs _
      have := nosuf_next_eq s (hs ▸ hv); rw [hs] at this; exact this
    · intros; trivial
    · rfl
    · trivial
  · simp [hk]
theorem lmAll_eq (da : DA V) (hv : da.variant = .bytewise) (h : List Nat) :
    lmAll da h = if da.kind = 1 ∨ da.kind = 2 then some (Daac.lmAll da h) else none := by
  unfold B.lmAll runGen Gen.B.DA.leftmost_find_iter Gen.B.MatchKind.is_leftmost
  by_cases hk : da.kind = 1 ∨ da.kind = 2
  · have hk' : (decide (da.kind = 2) || decide (da.kind = 1)) = true := by
      rcases hk with h | h <;> simp [h]
    simp only [hk', hk, if_true, Option.map_some]
    congr 1
    apply collect_sim' da Gen.B.LestmostFindIterator.next (LmIt.next da) absLm (·.pma) (fun _ => True)
    · intro s; rfl
    · intro s hs _
      have := lm_next_eq s (hs ▸ hv); rw [hs] at this; exact this
    · intros; trivial
    · rfl
    · trivial
  · have hk' : (decide (da.kind = 2) || decide (da.kind = 1)) = false := by
      simp only [not_or] at hk
      simp [hk.1, hk.2]
    simp [hk', hk]
end B

namespace C
def findAll (da : DA V) (h : List Nat) :=
  runGen Gen.C.FindIterator.next (·.haystack.inner.pulled) (collectFuel da h) (Gen.C.DA.find_iter da h)
def findAllFromIter (da : DA V) (h : List Nat) :=
  runGen Gen.C.FindIterator.next (·.haystack.inner.pulled) (collectFuel da h) (Gen.C.DA.find_iter_from_iter da h)
def ovAll (da : DA V) (h : List Nat) :=
  runGen Gen.C.FindOverlappingIterator.next (·.haystack.inner.pulled) (collectFuel da h) (Gen.C.DA.find_overlapping_iter da h)
def ovAllFromIter (da : DA V) (h : List Nat) :=
  runGen Gen.C.FindOverlappingIterator.next (·.haystack.inner.pulled) (collectFuel da h) (Gen.C.DA.find_overlapping_iter_from_iter da h)
def noSufAll (da : DA V) (h : List Nat) :=
  runGen Gen.C.FindOverlappingNoSuffixIterator.next (·.haystack.inner.pulled) (collectFuel da h) (Gen.C.DA.find_overlapping_no_suffix_iter da h)
def noSufAllFromIter (da : DA V) (h : List Nat) :=
  runGen Gen.C.FindOverlappingNoSuffixIterator.next (·.haystack.inner.pulled) (collectFuel da h) (Gen.C.DA.find_overlapping_no_suffix_iter_from_iter da h)
def lmAll (da : DA V) (h : List Nat) :=
  runGen Gen.C.LestmostFindIterator.next (fun _ => 0) (collectFuel da h) (Gen.C.DA.leftmost_find_iter da h)

theorem findAll_eq (da : DA V) (hv : da.variant = .charwise) (h : List Nat) :
    findAll da h = if da.kind = 0 then some (Daac.findAll da h) else none := by
  unfold C.findAll runGen Gen.C.DA.find_iter Gen.C.MatchKind.is_standard
  by_cases hk : da.kind = 0
  · simp only [hk, decide_true, if_true, Option.map_some]
    congr 1
    apply collect_sim' da Gen.C.FindIterator.next (FindIt.next da) absFind (·.pma) (fun _ => True)
    · intro s; rfl
    · intro s hs _
      have := find_next_eq s (hs ▸ hv); rw [hs] at this; exact this
    · intros; trivial
    · rfl
    · trivial
  · simp [hk]
theorem findAllFromIter_eq (da : DA V) (hv : da.variant = .charwise) (h : List Nat) :
    findAllFromIter da h = if da.kind = 0 then some (Daac.findAll da h) else none := by
  unfold C.findAllFromIter runGen Gen.C.DA.find_iter_from_iter Gen.C.MatchKind.is_standard
  by_cases hk : da.kind = 0
  · simp only [hk, decide_true, if_true, Option.map_some]
    congr 1
    apply collect_sim' da Gen.C.FindIterator.next (FindIt.next da) absFind (·.pma) (fun _ => True)
    · intro s; rfl
    · intro s hs _
      have := find_next_eq s (hs ▸ hv); rw [hs] at this; exact this
    · intros; trivial
    · rfl
    · trivial
  · simp [hk]
theorem ovAll_eq (da : DA V) (hv : da.variant = .charwise) (h : List Nat) :
    ovAll da h = if da.kind = 0 then some (Daac.ovAll da h) else none := by
  unfold C.ovAll runGen Gen.C.DA.find_overlapping_iter Gen.C.MatchKind.is_standard
  by_cases hk : da.kind = 0
  · simp only [hk, decide_true, if_true, Option.map_some]
    congr 1
    apply collect_sim' da Gen.C.FindOverlappingIterator.next (OvIt.next da) absOv (·.pma) OvWf
    · intro s; rfl
    · intro s hs hw
      have := ov_next_eq s (hs ▸ hv) hw; rw [hs] at this; exact this
    · intro s r s' _ hw e; exact ov_next_wf s hw r s' e
    · rfl
    · simp [OvWf]
  · simp [hk]
theorem ovAllFromIter_eq (da : DA V) (hv : da.variant = .charwise) (h : List Nat) :
    ovAllFromIter da h = if da.kind = 0 then some (Daac.ovAll da h) else none := by
  unfold C.ovAllFromIter runGen Gen.C.DA.find_overlapping_iter_from_iter Gen.C.MatchKind.is_standard
  by_cases hk : da.kind = 0
  · simp only [hk, decide_true, if_true, Option.map_some]
    congr 1
    apply collect_sim' da Gen.C.FindOverlappingIterator.next (OvIt.next da) absOv (·.pma) OvWf
    · intro s; rfl
    · intro s hs hw
      have := ov_next_eq s (hs ▸ hv) hw; rw [hs] at this; exact this
    · intro s r s' _ hw e; exact ov_next_wf s hw r s' e
    · rfl
    · simp [OvWf]
  · simp [hk]
theorem noSufAll_eq (da : DA V) (hv : da.variant = .charwise) (h : List Nat) :
    noSufAll da h = if da.kind = 0 then some (Daac.noSufAll da h) else none := by
  unfold C.noSufAll runGen Gen.C.DA.find_overlapping_no_suffix_iter Gen.C.MatchKind.is_standard
  by_cases hk : da.kind = 0
  · simp only [hk, decide_true, if_true, Option.map_some]
    congr 1
    apply collect_sim' da Gen.C.FindOverlappingNoSuffixIterator.next (NoSufIt.next da) absNoSuf (·.pma) (fun _ => True)
    · intro s; rfl
    · intro s hs _
      have := nosuf_next_eq s (hs ▸ hv); rw [hs] at this; exact this
    · intros; trivial
    · rfl
    · trivial
  · simp [hk]
theorem noSufAllFromIter_eq (da : DA V) (hv : da.variant = .charwise) (h : List Nat) :
    noSufAllFromIter da h = if da.kind = 0 then some (Daac.noSufAll da h) else none := by
  unfold C.noSufAllFromIter runGen Gen.C.DA.find_overlapping_no_suffix_iter_from_iter Gen.C.MatchKind.is_standard
  by_cases hk : da.kind = 0
  · simp only [hk, decide_true, if_true, Option.map_some]
    congr 1
    apply collect_sim' da Gen.C.FindOverlappingNoSuffixIterator.next (NoSufIt.next da) absNoSuf (·.pma) (fun _ => True)
    · intro s; rfl
    · intro s hs _
      have := nosuf_next_eq s (hs ▸ hv); rw [hs] at this; exact this
    · intros; trivial
    · rfl
    · trivial
  · simp [hk]

/-! ### The char-wise leftmost iterator stays on character boundaries -/

/-- `it'` has the haystack of `it`, and its resume offset is that of `it`, possibly advanced by
`skips` plus the widths of a prefix of the characters `cs`. -/
def PosOk (it it' : Gen.C.LestmostFindIterator V) (cs : List Nat) (skips : Nat) : Prop :=
  it'.haystack = it.haystack ∧
    (it'.pos = it.pos ∨
      ∃ k, k ≤ cs.length ∧ it'.pos = it.pos + skips + (encAll (cs.take k)).length)

theorem PosOk.refl (it : Gen.C.LestmostFindIterator V) (cs : List Nat) (skips : Nat) :
    PosOk it it cs skips := ⟨rfl, Or.inl rfl⟩

theorem PosOk.keep {it it' : Gen.C.LestmostFindIterator V} {c : Nat} {rest : List Nat}
    {skips : Nat} (h : PosOk it it' rest (skips + utf8Width c)) :
    PosOk it it' (c :: rest) skips := by
  obtain ⟨h1, h2⟩ := h
  refine ⟨h1, ?_⟩
  rcases h2 with h2 | ⟨k, hk, h2⟩
  · exact Or.inl h2
  · refine Or.inr ⟨k + 1, by simp; omega, ?_⟩
    rw [List.take_succ_cons, encAll_length_cons, h2]; omega

theorem PosOk.upd {it it' : Gen.C.LestmostFindIterator V} {c : Nat} {rest : List Nat}
    {skips : Nat}
    (h : PosOk ⟨it.pma, it.haystack, it.pos + (skips + utf8Width c)⟩ it' rest 0) :
    PosOk it it' (c :: rest) skips := by
  obtain ⟨h1, h2⟩ := h
  refine ⟨h1, Or.inr ?_⟩
  rcases h2 with h2 | ⟨k, hk, h2⟩
  · refine ⟨1, by simp, ?_⟩
    rw [List.take_succ_cons, List.take_zero, encAll_length_cons, h2]; simp; omega
  · refine ⟨k + 1, by simp; omega, ?_⟩
    rw [List.take_succ_cons, encAll_length_cons, h2]; simp only []; omega

theorem lm_loop_pos (cs : List Nat) (it : Gen.C.LestmostFindIterator V) (state : Nat)
    (cand : Option Nat) (skips : Nat) :
    match Gen.C.LestmostFindIterator.next.loop0 cs it state cand skips with
    | .error _ => True
    | .ok (.ret (_, it')) => PosOk it it' cs skips
    | .ok (.done (it', _, _, _)) => PosOk it it' cs skips := by
  induction cs generalizing it state cand skips with
  | nil =>
    unfold Gen.C.LestmostFindIterator.next.loop0
    exact PosOk.refl _ _ _
  | cons c rest ih =>
    unfold Gen.C.LestmostFindIterator.next.loop0
    simp only [lenUtf8_eq]
    cases Gen.C.DA.next_state_id_leftmost_unchecked it.pma state c with
    | error e => trivial
    | ok state' =>
      simp only []
      by_cases hr : state' = Gen.rootStateIdx
      · simp only [hr, decide_true, if_true]
        cases cand with
        | none =>
          have := ih it Gen.rootStateIdx none (skips + utf8Width c)
          revert this
          cases Gen.C.LestmostFindIterator.next.loop0 rest it Gen.rootStateIdx none (skips + utf8Width c) with
          | error e => intro _; trivial
          | ok x =>
            cases x with
            | ret p => intro h; exact h.keep
            | done p => intro h; exact h.keep
        | some q =>
          simp only []
          cases Rs.getUnchecked it.pma.outputs (q - 1) Fault.oobOutputs with
          | error e => trivial
          | ok o => exact PosOk.refl _ _ _
      · simp only [hr, decide_false]
        cases Rs.getUnchecked it.pma.states state' Fault.oobStates with
        | error e => trivial
        | ok st =>
          simp only []
          cases Rs.St.outputPos st with
          | none =>
            have := ih it state' cand (skips + utf8Width c)
            revert this
            cases Gen.C.LestmostFindIterator.next.loop0 rest it state' cand (skips + utf8Width c) with
            | error e => intro _; trivial
            | ok x =>
              cases x with
              | ret p => intro h; exact h.keep
              | done p => intro h; exact h.keep
          | some op =>
            have := ih ⟨it.pma, it.haystack, it.pos + (skips + utf8Width c)⟩ state' (some op) 0
            revert this
            simp only []
            cases Gen.C.LestmostFindIterator.next.loop0 rest
                ⟨it.pma, it.haystack, it.pos + (skips + utf8Width c)⟩ state' (some op) 0 with
            | error e => intro _; trivial
            | ok x =>
              cases x with
              | ret p => intro h; exact h.upd
              | done p => intro h; exact h.upd


/-- The resume offset of the char-wise leftmost iterator is a character boundary of the text. -/
def LmInv (s : Gen.C.LestmostFindIterator V) : Prop :=
  ∃ t1 t2 : List Nat, (∀ c ∈ t1, isScalar c = true) ∧ (∀ c ∈ t2, isScalar c = true) ∧
    s.haystack = encAll t1 ++ encAll t2 ∧ s.pos = (encAll t1).length

theorem lm_next_key (it : Gen.C.LestmostFindIterator V)
    (t1 t2 : List Nat) (h2 : ∀ c ∈ t2, isScalar c = true)
    (hh : it.haystack = encAll t1 ++ encAll t2) (hp : it.pos = (encAll t1).length) :
    Gen.C.LestmostFindIterator.next it
      = lmFin (Gen.C.LestmostFindIterator.next.loop0 t2 it Gen.rootStateIdx none 0) := by
  have hh' : it.haystack = encAll (t1 ++ t2) := by rw [hh, encAll_append]
  have e1 : Rs.strGetUncheckedFrom it.haystack it.pos = .ok (encAll t2) := by
    unfold Rs.strGetUncheckedFrom
    rw [hh', hp, isBoundary_encAll]
    simp
  have e2 : Rs.chars (encAll t2) = .ok t2 := by
    unfold Rs.chars
    rw [allItems_encAll t2 h2 0 _ (Nat.le_refl _)]
    simp [itemsOf_labels]
  unfold Gen.C.LestmostFindIterator.next
  simp only [e1, e2]
  rfl

theorem PosOk.inv {it it' : Gen.C.LestmostFindIterator V} {t1 t2 : List Nat}
    (h1 : ∀ c ∈ t1, isScalar c = true) (h2 : ∀ c ∈ t2, isScalar c = true)
    (hh : it.haystack = encAll t1 ++ encAll t2) (hp : it.pos = (encAll t1).length)
    (h : PosOk it it' t2 0) : LmInv it' := by
  obtain ⟨e1, e2⟩ := h
  rcases e2 with e2 | ⟨k, _, e2⟩
  · exact ⟨t1, t2, h1, h2, by rw [e1, hh], by rw [e2, hp]⟩
  · refine ⟨t1 ++ t2.take k, t2.drop k, ?_, ?_, ?_, ?_⟩
    · intro c hc
      rcases List.mem_append.1 hc with hc | hc
      · exact h1 c hc
      · exact h2 c (List.mem_of_mem_take hc)
    · intro c hc; exact h2 c (List.mem_of_mem_drop hc)
    · rw [e1, hh, encAll_append, List.append_assoc, ← encAll_append (t2.take k), List.take_append_drop]
    · rw [e2, hp, encAll_append, List.length_append]; omega

theorem lm_next_inv (it : Gen.C.LestmostFindIterator V) (hi : LmInv it)
    (r : Option (Rs.Match V)) (it' : Gen.C.LestmostFindIterator V)
    (e : Gen.C.LestmostFindIterator.next it = .ok (r, it')) : LmInv it' := by
  obtain ⟨t1, t2, h1, h2, hh, hp⟩ := hi
  rw [lm_next_key it t1 t2 h2 hh hp] at e
  have hl := lm_loop_pos t2 it Gen.rootStateIdx none 0
  revert hl e
  cases Gen.C.LestmostFindIterator.next.loop0 t2 it Gen.rootStateIdx none 0 with
  | error e => intro e; simp [lmFin] at e
  | ok x =>
    cases x with
    | ret p =>
      obtain ⟨r', i⟩ := p
      intro e hl
      simp only [lmFin, Except.ok.injEq, Prod.mk.injEq] at e
      obtain ⟨-, rfl⟩ := e
      exact hl.inv h1 h2 hh hp
    | done p =>
      obtain ⟨i, s, cand, sk⟩ := p
      intro e hl
      have hi : LmInv i := hl.inv h1 h2 hh hp
      cases cand with
      | none =>
        simp only [lmFin, Except.ok.injEq, Prod.mk.injEq] at e
        obtain ⟨-, rfl⟩ := e
        exact hi
      | some q =>
        simp only [lmFin] at e
        cases hg : Rs.getUnchecked i.pma.outputs (q - 1) Fault.oobOutputs with
        | error e' => simp [hg] at e
        | ok o =>
          simp only [hg, Except.ok.injEq, Prod.mk.injEq] at e
          obtain ⟨-, rfl⟩ := e
          exact hi

/-- Char-wise leftmost search of a `str` (valid UTF-8 text with scalar values `t`). -/
theorem lmAll_eq (da : DA V) (hv : da.variant = .charwise) (t : List Nat)
    (ht : ∀ c ∈ t, isScalar c = true) :
    lmAll da (encAll t) = if da.kind = 1 ∨ da.kind = 2 then some (Daac.lmAll da (encAll t)) else none := by
  unfold C.lmAll runGen Gen.C.DA.leftmost_find_iter Gen.C.MatchKind.is_leftmost
  by_cases hk : da.kind = 1 ∨ da.kind = 2
  · have hk' : (decide (da.kind = 2) || decide (da.kind = 1)) = true := by
      rcases hk with h | h <;> simp [h]
    simp only [hk', hk, if_true, Option.map_some]
    congr 1
    apply collect_sim' da Gen.C.LestmostFindIterator.next (LmIt.next da) absLm (·.pma) LmInv
    · intro s; rfl
    · intro s hs hi
      obtain ⟨t1, t2, h1, h2, hh, hp⟩ := hi
      have := lm_next_eq s (hs ▸ hv) t1 t2 h1 h2 hh hp; rw [hs] at this; exact this
    · intro s r s' _ hi e; exact lm_next_inv s hi r s' e
    · rfl
    · exact ⟨[], t, by simp, ht, by simp, by simp⟩
  · have hk' : (decide (da.kind = 2) || decide (da.kind = 1)) = false := by
      simp only [not_or] at hk
      simp [hk.1, hk.2]
    simp [hk', hk]
end C

end Daac.Tie

/-
Translation tie, construction side, char-wise: the fail / output_pos pass of
`CharwiseDoubleArrayAhoCorasickBuilder::build_double_array` (GENERATED: `Daac/Gen/BuildC.lean`,
`DC.Builder.build_double_array.loop3`) against the model's `setFailOut .charwise`.

Same argument as section (3) of Proofs/TieD.lean (byte-wise): both passes are folds of the same per-node
write over a list of triples (slot, output position, fail index) with pairwise distinct slots; the
char-wise setters never fail, so the fold `foMC` has no `u24Max` test.
-/
import Daac.Gen.BuildC
import Daac.Proofs.TieD
import Daac.Proofs.LayoutC
namespace Daac.Tie.DC
open Daac Daac.Gen Daac.Tie.H Daac.Tie.D
variable {V : Type}

/-- The fold both char-wise passes perform. -/
def foMC : List (Nat × Nat × Nat) → Array St → Except BuildErr (Array St)
  | [], A => .ok A
  | (k, op, f) :: r, A =>
    match setSt A k (wFO op f) with
    | .error e => .error e
    | .ok A' => foMC r A'

theorem foMC_cases : ∀ (T : List (Nat × Nat × Nat)) (A : Array St), (∀ x ∈ T, x.1 < A.size) →
    ∃ A', foMC T A = .ok A' ∧ A'.size = A.size ∧
      (∀ j, (∀ x ∈ T, x.1 ≠ j) → A'[j]? = A[j]?) ∧
      ((∀ x y, x ∈ T → y ∈ T → x.1 = y.1 → x = y) →
        ∀ x ∈ T, A'[x.1]? = A[x.1]?.map (wFO x.2.1 x.2.2)) := by
  intro T
  induction T with
  | nil =>
    intro A _
    exact ⟨A, rfl, rfl, fun _ _ => rfl, fun _ x hx => by cases hx⟩
  | cons x0 r ih =>
    intro A hlt
    obtain ⟨k, op, f⟩ := x0
    have hk : k < A.size := hlt (k, op, f) List.mem_cons_self
    have es := setSt_lt (s := A) (i := k) (wFO op f) hk
    have hsz : (A.modify k (wFO op f)).size = A.size := by simp
    obtain ⟨A', e, sz, hun, hfun⟩ :=
      ih (A.modify k (wFO op f)) (fun x hx => by rw [hsz]; exact hlt x (List.mem_cons_of_mem _ hx))
    refine ⟨A', by simp only [foMC, es, e], sz.trans hsz, ?_, ?_⟩
    · intro j hj
      rw [hun j (fun x hx => hj x (List.mem_cons_of_mem _ hx)), Array.getElem?_modify,
        if_neg (hj (k, op, f) List.mem_cons_self)]
    · intro hinj x hx
      have hinj' : ∀ a b, a ∈ r → b ∈ r → a.1 = b.1 → a = b :=
        fun a b ha hb => hinj a b (List.mem_cons_of_mem _ ha) (List.mem_cons_of_mem _ hb)
      by_cases hr : x ∈ r
      · rw [hfun hinj' x hr, Array.getElem?_modify]
        by_cases hkx : k = x.1
        · have : x = (k, op, f) := hinj x (k, op, f) hx List.mem_cons_self hkx.symm
          subst this
          rw [if_pos rfl]
          exact wFO_idem _ _ _
        · rw [if_neg hkx]
      · rcases List.mem_cons.1 hx with rfl | hx'
        · have hne : ∀ y ∈ r, y.1 ≠ k := by
            intro y hy hyk
            have := hinj y (k, op, f) (List.mem_cons_of_mem _ hy) List.mem_cons_self hyk
            subst this
            exact hr hy
          rw [hun k hne, Array.getElem?_modify, if_pos rfl]
        · exact absurd hx' hr

/-- Two triple lists with the same members, slots in range and pairwise distinct: same result. -/
theorem foMC_set_eq (T1 T2 : List (Nat × Nat × Nat)) (A : Array St) (hmem : ∀ x, x ∈ T1 ↔ x ∈ T2)
    (hlt : ∀ x ∈ T1, x.1 < A.size) (hinj : ∀ x y, x ∈ T1 → y ∈ T1 → x.1 = y.1 → x = y) :
    RelE (fun a b => a = b) (foMC T1 A) (foMC T2 A) := by
  have hlt2 : ∀ x ∈ T2, x.1 < A.size := fun x hx => hlt x ((hmem x).2 hx)
  have hinj2 : ∀ x y, x ∈ T2 → y ∈ T2 → x.1 = y.1 → x = y :=
    fun x y hx hy => hinj x y ((hmem x).2 hx) ((hmem y).2 hy)
  obtain ⟨A1, e1, sz1, un1, fn1⟩ := foMC_cases T1 A hlt
  obtain ⟨A2, e2, sz2, un2, fn2⟩ := foMC_cases T2 A hlt2
  rw [e1, e2]
  show A1 = A2
  apply Array.ext_getElem?
  intro j
  by_cases hj : ∃ x ∈ T1, x.1 = j
  · obtain ⟨x, hx, rfl⟩ := hj
    rw [fn1 hinj x hx, fn2 hinj2 x ((hmem x).1 hx)]
  · have h1 : ∀ x ∈ T1, x.1 ≠ j := fun x hx e => hj ⟨x, hx, e⟩
    rw [un1 j h1, un2 j (fun x hx => h1 x ((hmem x).2 hx))]

theorem setFailOut_eq_foMC (nfa : Nfa V) : ∀ (L : List (List Nat)) (lay : Lay),
    setFailOut .charwise nfa L lay
      = (foMC (L.map (tripM nfa lay.idx)) lay.states).map (fun A => { lay with states := A }) := by
  intro L
  induction L with
  | nil => intro lay; rfl
  | cons u rest ih =>
    intro lay
    simp only [setFailOut, List.map_cons, tripM, foMC, reduceCtorEq, false_and, if_false]
    unfold wFO LayB.failIdx
    generalize nfa.fail.get u = ft
    cases ft with
    | dead =>
      dsimp only
      generalize setSt lay.states (lay.idx.getD u deadIdx) _ = S
      cases S with
      | error e => rfl
      | ok A' => exact ih { lay with states := A' }
    | node w =>
      dsimp only
      generalize setSt lay.states (lay.idx.getD u deadIdx) _ = S
      cases S with
      | error e => rfl
      | ok A' => exact ih { lay with states := A' }

theorem set_set_eq_modify_c (A : Array St) (k : Nat) (op : Option Nat) (f : Nat) (h : k < A.size) :
    (A.setIfInBounds k (Rs.StC.set_output_pos (A.getD k stDefaultC) op)).setIfInBounds k
        (Rs.StC.set_fail (Rs.StC.set_output_pos (A.getD k stDefaultC) op) f)
      = A.modify k (wFO (op.getD 0) f) := by
  rw [Array.setIfInBounds_setIfInBounds, Tie.L.modify_eq_set A k h]
  have : A.getD k stDefaultC = A[k] := by simp [Array.getD, h]
  rw [this]
  rfl

theorem loop3_eq_foMC (sm : Array Nat) : ∀ (items : List (Nat × N.NfaBuilderState V)) (b : LC.Builder),
    (∀ it ∈ items, GoodItem sm b.states.size it) →
    RelE (fun b' A => b'.states = A)
      (DC.Builder.build_double_array.loop3 sm items b)
      (foMC ((items.filter (fun it => it.1 != Gen.deadStateId)).map (tripG sm)) b.states) := by
  intro items
  induction items with
  | nil => intro b _; rfl
  | cons it rest ih =>
    intro b hgood
    obtain ⟨i, st⟩ := it
    have hrest : ∀ b2 : LC.Builder, b2.states.size = b.states.size →
        ∀ it ∈ rest, GoodItem sm b2.states.size it := by
      intro b2 h2 it hit
      rw [h2]; exact hgood it (List.mem_cons_of_mem _ hit)
    simp only [DC.Builder.build_double_array.loop3]
    by_cases hd : i = Gen.deadStateId
    · have h1 : (i == Gen.deadStateId) = true := by simpa using hd
      have h2 : (i != Gen.deadStateId) = false := by simp [hd]
      rw [h1, List.filter_cons]
      simp only [h2, if_true, Bool.false_eq_true, if_false]
      exact ih b (hrest b rfl)
    · have h1 : (i == Gen.deadStateId) = false := by simpa using hd
      have h2 : (i != Gen.deadStateId) = true := by simp [hd]
      obtain ⟨g1, g2, g3⟩ := hgood (i, st) List.mem_cons_self hd
      simp only at g1 g2 g3
      rw [h1, List.filter_cons]
      simp only [h2, if_true, Bool.false_eq_true, if_false, List.map_cons, tripG, foMC]
      rw [index_getD sm i 0 g1]
      simp only
      rw [index_getD b.states (sm.getD i 0) stDefaultC g2]
      simp only
      rw [setSt_lt _ g2]
      simp only
      by_cases hf : st.fail = Gen.deadStateId
      · have hfb : (st.fail == Gen.deadStateId) = true := by simpa using hf
        rw [hfb, if_pos hf]
        simp only [if_true]
        rw [index_set_self _ _ _ g2]
        simp only
        rw [set_set_eq_modify_c _ _ _ _ g2]
        exact ih { b with states := b.states.modify (sm.getD i 0) (wFO (st.output_pos.getD 0) Gen.deadStateIdx) }
          (hrest _ (by simp))
      · have hfb : (st.fail == Gen.deadStateId) = false := by simpa using hf
        rw [hfb, if_neg hf]
        simp only [Bool.false_eq_true, if_false]
        rw [index_getD sm st.fail 0 (g3 hf)]
        simp only
        rw [index_set_self _ _ _ g2]
        simp only
        rw [set_set_eq_modify_c _ _ _ _ g2]
        exact ih { b with states := b.states.modify (sm.getD i 0) (wFO (st.output_pos.getD 0) (sm.getD st.fail 0)) }
          (hrest _ (by simp))

/-- For a node `u` with state `st`, the generated code's triple is the model's. -/
theorem trip_eq_c (t : Trie V) (nfa : Nfa V) (g : N.NfaBuilder V) (ido : List Nat → Nat)
    (R : NfaRep g t nfa ido) (hfn : FailNodes t nfa)
    (sm : Array Nat) (lay : Lay)
    (hmap : ∀ u, t.hasNode u = true → sm[ido u]? = some (lay.idx.getD u deadIdx))
    (u : List Nat) (hu : t.hasNode u = true) (st : N.NfaBuilderState V) (hst : g.states[ido u]? = some st) :
    tripG sm (ido u, st) = tripM nfa lay.idx u := by
  obtain ⟨s, hs, _, hfail, hop⟩ := R.node u hu
  rw [hst] at hs
  cases hs
  unfold tripG tripM LayB.failIdx
  simp only [getD_of_getElem? _ _ _ (hmap u hu), hop, Prod.mk.injEq, true_and]
  rw [hfail]
  cases hf : nfa.fail.get u with
  | dead => simp only [if_true]; rfl
  | node w =>
    have hw := hfn u w hu hf
    simp only [if_neg (R.neDead w hw), getD_of_getElem? _ _ _ (hmap w hw)]

/-- (3) The generated char-wise fail / output_pos pass = the model's `setFailOut .charwise` over all nodes. -/
theorem loop2_sim_c (m : Mapper) (BL : Nat) (t : Trie V) (nfa : Nfa V) (g : N.NfaBuilder V) (ido : List Nat → Nat)
    (R : NfaRep g t nfa ido) (hfn : FailNodes t nfa) (hsort : t.Sorted)
    (b : LC.Builder) (sm : Array Nat) (lay : Lay) (hst : b.states = lay.states)
    (hmap : ∀ u, t.hasNode u = true → sm[ido u]? = some (lay.idx.getD u deadIdx))
    (I : LayC.Inv m t BL lay []) :
    RelE (fun b' lay' => b'.states = lay'.states)
      (DC.Builder.build_double_array.loop3 sm (Rs.enumerateA g.states) b)
      (setFailOut .charwise nfa (t.paths []) lay) := by
  have hpl : ∀ w, t.hasNode w = true → LayC.has lay w := LayC.inv_all_placed I
  have hix : ∀ w, t.hasNode w = true → lay.idx.getD w deadIdx < lay.states.size :=
    fun w hw => I.ixLt w (hpl w hw)
  have hpaths : ∀ u, u ∈ t.paths [] ↔ t.hasNode u = true := fun u => Trie.mem_paths_nil t hsort u
  -- every non-dead item is a node
  have hitem : ∀ i st, (i, st) ∈ Rs.enumerateA g.states → i ≠ Gen.deadStateId →
      ∃ u, t.hasNode u = true ∧ ido u = i ∧ g.states[ido u]? = some st := by
    intro i st hm hd
    have h1 := (mem_enumerateA _ _ _).1 hm
    obtain ⟨u, hu, rfl⟩ := R.onto i (lt_of_getElem? _ _ _ h1) hd
    exact ⟨u, hu, rfl, h1⟩
  have hgood : ∀ it ∈ Rs.enumerateA g.states, GoodItem sm b.states.size it := by
    rintro ⟨i, st⟩ hm hd
    obtain ⟨u, hu, rfl, hst'⟩ := hitem i st hm hd
    have hsm := hmap u hu
    refine ⟨lt_of_getElem? _ _ _ hsm, ?_, ?_⟩
    · simp only [getD_of_getElem? _ _ _ hsm, hst]
      exact hix u hu
    · intro hf
      obtain ⟨s, hs, _, hfail, _⟩ := R.node u hu
      rw [hst'] at hs
      cases hs
      simp only at hf
      rw [hfail] at hf ⊢
      cases hfg : nfa.fail.get u with
      | dead => rw [hfg] at hf; exact absurd rfl hf
      | node w => exact lt_of_getElem? _ _ _ (hmap w (hfn u w hu hfg))
  have G := loop3_eq_foMC sm (Rs.enumerateA g.states) b hgood
  rw [hst] at G
  have E := foMC_set_eq ((t.paths []).map (tripM nfa lay.idx))
    (((Rs.enumerateA g.states).filter (fun it => it.1 != Gen.deadStateId)).map (tripG sm)) lay.states
    (by
      intro x
      simp only [List.mem_map, List.mem_filter]
      constructor
      · rintro ⟨u, hu, rfl⟩
        have hn := (hpaths u).1 hu
        obtain ⟨s, hs, _⟩ := R.node u hn
        refine ⟨(ido u, s), ⟨(mem_enumerateA _ _ _).2 hs, by simpa using R.neDead u hn⟩, ?_⟩
        exact trip_eq_c t nfa g ido R hfn sm lay hmap u hn s hs
      · rintro ⟨⟨i, st⟩, ⟨hm, hd⟩, rfl⟩
        obtain ⟨u, hu, rfl, hst'⟩ := hitem i st hm (by simpa using hd)
        exact ⟨u, (hpaths u).2 hu, (trip_eq_c t nfa g ido R hfn sm lay hmap u hu st hst').symm⟩)
    (by
      intro x hx
      obtain ⟨u, hu, rfl⟩ := List.mem_map.1 hx
      exact hix u ((hpaths u).1 hu))
    (by
      intro x y hx hy hxy
      obtain ⟨u, hu, rfl⟩ := List.mem_map.1 hx
      obtain ⟨u', hu', rfl⟩ := List.mem_map.1 hy
      have := I.ixInj u u' (hpl u ((hpaths u).1 hu)) (hpl u' ((hpaths u').1 hu')) hxy
      rw [this])
  rw [setFailOut_eq_foMC]
  generalize DC.Builder.build_double_array.loop3 sm (Rs.enumerateA g.states) b = X at G ⊢
  generalize foMC (List.map (tripM nfa lay.idx) (t.paths [])) lay.states = Y at E ⊢
  generalize foMC (List.map (tripG sm) ((Rs.enumerateA g.states).filter (fun it => it.1 != Gen.deadStateId))) lay.states = Z at G E
  cases X <;> cases Y <;> cases Z <;> simp only [RelE, Except.map] at G E ⊢
  · exact fun γ => (G γ).trans (E γ).symm
  · exact G.trans E.symm

end Daac.Tie.DC
#print axioms Daac.Tie.DC.loop2_sim_c

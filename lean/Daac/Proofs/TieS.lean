/-
Translation tie, serialisation side: the definitions GENERATED from /repo's Rust source by
tools/ser2lean.py (Daac/Gen/Serial.lean: every `serialize_to_vec` / `deserialize_from_slice` /
`serialized_bytes`, the two `serialize` / `deserialize_unchecked` entry points) are equal to the
hand-written model `Daac/Model/Serial.lean` that the C09 theorems are about.

The generated code works on the Rust representation (`Option<NonZeroU32>` fields, the byte-wise
`State` with its packed `opos_ch` word, `Vec`s as lists); `toDAB` / `toDAC` map a model automaton to
that representation.
-/
import Daac.Gen.Serial
import Daac.Proofs.SerialRT
namespace Daac.Tie.S
open Daac Daac.Gen
variable {V : Type}

/-- `NonZeroU32::new`: the model keeps `0` for `None`. -/
def optNZ (x : Nat) : Option Nat := if x = 0 then none else some x

def toStB (s : St) : Gen.S.B.State := ⟨optNZ s.base, s.fail, (s.opos <<< 8) ||| s.check⟩
def toStC (s : St) : Gen.S.C.State := ⟨optNZ s.base, s.check, s.fail, optNZ s.opos⟩
def toOut (o : Out V) : Gen.S.Output V := ⟨o.value, o.length, optNZ o.parent⟩
def toDAB (da : DA V) : Gen.S.B.DA V :=
  ⟨da.states.toList.map toStB, da.outputs.toList.map toOut, da.kind, da.numStates⟩
def toDAC (da : DA V) : Gen.S.C.DA V :=
  ⟨da.states.toList.map toStC, ⟨da.mapTable.toList, da.alphaSize⟩, da.outputs.toList.map toOut, da.kind, da.numStates⟩

/-! ### 1. Serialisation: every generated `serialize_to_vec` appends the model's bytes -/

theorem u32_ser (x : Nat) (dst : List Nat) :
    Gen.S.u32.serialize_to_vec x dst = some (dst ++ serU32 x) := rfl

theorem mapOr_optNZ (x : Nat) : Gen.Rs.map_or_0_get (optNZ x) = x := by
  unfold optNZ
  split
  · next h => simp [Gen.Rs.map_or_0_get, h]
  · simp [Gen.Rs.map_or_0_get]

theorem optNZ_ser (x : Nat) (dst : List Nat) :
    Gen.S.OptionNonZeroU32.serialize_to_vec (optNZ x) dst = some (dst ++ serU32 x) := by
  simp only [Gen.S.OptionNonZeroU32.serialize_to_vec, mapOr_optNZ, u32_ser]

theorem u24n8_ser (x : Nat) (dst : List Nat) :
    Gen.S.U24nU8.serialize_to_vec x dst = some (dst ++ serU32 x) := rfl

theorem kind_ser (k : Nat) (dst : List Nat) :
    Gen.S.MatchKind.serialize_to_vec k dst = some (dst ++ [k]) := rfl

theorem stB_ser (s : St) (dst : List Nat) :
    Gen.S.B.State.serialize_to_vec (toStB s) dst = some (dst ++ serSt .bytewise s) := by
  simp only [Gen.S.B.State.serialize_to_vec, toStB, optNZ_ser, u32_ser, u24n8_ser, serSt,
    List.append_assoc]

theorem stC_ser (s : St) (dst : List Nat) :
    Gen.S.C.State.serialize_to_vec (toStC s) dst = some (dst ++ serSt .charwise s) := by
  simp only [Gen.S.C.State.serialize_to_vec, toStC, optNZ_ser, u32_ser, serSt, List.append_assoc]

theorem out_ser (S : Ser V) (o : Out V) (dst : List Nat) :
    Gen.S.Output.serialize_to_vec S (toOut o) dst = some (dst ++ serOut S o) := by
  simp only [Gen.S.Output.serialize_to_vec, toOut, Gen.Rs.userSer, optNZ_ser, u32_ser, serOut,
    List.append_assoc]

theorem each_ser {α β : Type} (f : β → List Nat → Option (List Nat)) (g : α → β)
    (h : α → List Nat) (hf : ∀ x dst, f (g x) dst = some (dst ++ h x)) (xs : List α)
    (dst : List Nat) :
    Gen.S.Vec.serialize_to_vec.each f (xs.map g) dst = some (dst ++ xs.flatMap h) := by
  induction xs generalizing dst with
  | nil => simp [Gen.S.Vec.serialize_to_vec.each]
  | cons x xs ih =>
    simp only [List.map_cons, Gen.S.Vec.serialize_to_vec.each, hf, ih, List.flatMap_cons,
      List.append_assoc]

theorem vec_ser {α β : Type} (f : β → List Nat → Option (List Nat)) (g : α → β)
    (h : α → List Nat) (hf : ∀ x dst, f (g x) dst = some (dst ++ h x)) (xs : List α)
    (hl : xs.length ≤ 4294967295) (dst : List Nat) :
    Gen.S.Vec.serialize_to_vec f (xs.map g) dst = some (dst ++ serVec h xs) := by
  simp only [Gen.S.Vec.serialize_to_vec, List.length_map, Gen.Rs.u32_try_from_usize, hl, if_true,
    u32_ser, each_ser f g h hf, serVec, List.append_assoc]

theorem vec_ser_id {α : Type} (f : α → List Nat → Option (List Nat))
    (h : α → List Nat) (hf : ∀ x dst, f x dst = some (dst ++ h x)) (xs : List α)
    (hl : xs.length ≤ 4294967295) (dst : List Nat) :
    Gen.S.Vec.serialize_to_vec f xs dst = some (dst ++ serVec h xs) := by
  have := vec_ser f id h hf xs hl dst
  simpa using this

/-! ### 2. Deserialisation: every generated `deserialize_from_slice` is the model's decoder -/

theorem u32_de (bs : List Nat) : Gen.S.u32.deserialize_from_slice bs = deU32 bs := by
  unfold Gen.S.u32.deserialize_from_slice Gen.S.Prim.deserialize_from_slice
    Gen.Rs.from_le_bytes_of_prefix Gen.Rs.slice_from
  match bs with
  | a :: b :: c :: d :: r =>
    have h : ¬ (r.length + 1 + 1 + 1 + 1 < 4) := by omega
    simp [deU32, h]
  | [] | [a] | [a, b] | [a, b, c] => simp [deU32]

theorem nz_eq (x : Nat) : Gen.Rs.NonZeroU32_new x = optNZ x := rfl

theorem optNZ_de (bs : List Nat) :
    Gen.S.OptionNonZeroU32.deserialize_from_slice bs
      = (deU32 bs).map (fun p => (optNZ p.1, p.2)) := by
  unfold Gen.S.OptionNonZeroU32.deserialize_from_slice
  rw [u32_de]
  cases deU32 bs <;> simp [nz_eq]

theorem u24n8_de (bs : List Nat) : Gen.S.U24nU8.deserialize_from_slice bs = deU32 bs := by
  unfold Gen.S.U24nU8.deserialize_from_slice
  rw [u32_de]
  cases deU32 bs <;> simp

theorem unpack_pack (x : Nat) : ((x >>> 8) <<< 8) ||| (x &&& 255) = x := by
  have h255 : (255 : Nat) = 2 ^ 8 - 1 := by decide
  rw [h255, Nat.and_two_pow_sub_one_eq_mod]
  have hlt : x % 2 ^ 8 < 2 ^ 8 := Nat.mod_lt _ (by decide)
  rw [← Nat.shiftLeft_add_eq_or_of_lt hlt, Nat.shiftLeft_eq, Nat.shiftRight_eq_div_pow]
  omega

theorem stB_de (bs : List Nat) :
    Gen.S.B.State.deserialize_from_slice bs
      = (deSt .bytewise bs).map (fun p => (toStB p.1, p.2)) := by
  unfold Gen.S.B.State.deserialize_from_slice deSt
  simp only [optNZ_de, u32_de, u24n8_de]
  cases deU32 bs with
  | none => simp
  | some p1 =>
    obtain ⟨base, r1⟩ := p1
    simp only [Option.map_some]
    cases deU32 r1 with
    | none => simp
    | some p2 =>
      obtain ⟨fail, r2⟩ := p2
      simp only
      cases deU32 r2 with
      | none => simp
      | some p3 =>
        obtain ⟨oc, r3⟩ := p3
        simp [toStB, unpack_pack]

theorem stC_de (bs : List Nat) :
    Gen.S.C.State.deserialize_from_slice bs
      = (deSt .charwise bs).map (fun p => (toStC p.1, p.2)) := by
  unfold Gen.S.C.State.deserialize_from_slice deSt
  simp only [optNZ_de, u32_de]
  cases deU32 bs with
  | none => simp
  | some p1 =>
    obtain ⟨base, r1⟩ := p1
    simp only [Option.map_some]
    cases deU32 r1 with
    | none => simp
    | some p2 =>
      obtain ⟨check, r2⟩ := p2
      simp only
      cases deU32 r2 with
      | none => simp
      | some p3 =>
        obtain ⟨fail, r3⟩ := p3
        simp only
        cases deU32 r3 with
        | none => simp
        | some p4 =>
          obtain ⟨opos, r4⟩ := p4
          simp [toStC]

theorem out_de (S : Ser V) (bs : List Nat) :
    Gen.S.Output.deserialize_from_slice S bs
      = (deOut S bs).map (fun p => (toOut p.1, p.2)) := by
  unfold Gen.S.Output.deserialize_from_slice deOut Gen.Rs.userDe
  simp only [optNZ_de, u32_de, List.length_take]
  by_cases hl : bs.length < S.width
  · have : min S.width bs.length < S.width := by omega
    simp [hl, this]
  · have : ¬ min S.width bs.length < S.width := by omega
    simp only [hl, this, if_false]
    cases deU32 (List.drop S.width bs) with
    | none => simp
    | some p1 =>
      obtain ⟨len, r1⟩ := p1
      simp only
      cases deU32 r1 with
      | none => simp
      | some p2 =>
        obtain ⟨parent, r2⟩ := p2
        simp [toOut]

theorem kind_de (bs : List Nat) :
    Gen.S.MatchKind.deserialize_from_slice bs
      = match bs with
        | [] => none
        | k :: r => some (decodeKind k, r) := by
  unfold Gen.S.MatchKind.deserialize_from_slice Gen.Rs.byte_at Gen.Rs.slice_from Gen.Rs.kind_from_u8
  cases bs <;> simp

theorem loop_de {α β : Type} (f' : List Nat → Option (β × List Nat))
    (f : List Nat → Option (α × List Nat)) (g : α → β)
    (hf : ∀ bs, f' bs = (f bs).map (fun p => (g p.1, p.2))) (n : Nat) (acc : List β)
    (src : List Nat) :
    Gen.S.Vec.deserialize_from_slice.loop0 f' n acc src
      = (deMany f n src).map (fun p => (acc ++ p.1.map g, p.2)) := by
  induction n generalizing acc src with
  | zero => simp [Gen.S.Vec.deserialize_from_slice.loop0, deMany]
  | succ n ih =>
    simp only [Gen.S.Vec.deserialize_from_slice.loop0, deMany, hf]
    cases f src with
    | none => simp
    | some p =>
      obtain ⟨x, r⟩ := p
      simp only [Option.map_some, ih]
      cases deMany f n r with
      | none => simp
      | some q => simp

theorem vec_de {α β : Type} (f' : List Nat → Option (β × List Nat))
    (f : List Nat → Option (α × List Nat)) (g : α → β)
    (hf : ∀ bs, f' bs = (f bs).map (fun p => (g p.1, p.2))) (bs : List Nat) :
    Gen.S.Vec.deserialize_from_slice f' bs
      = (deVec f bs).map (fun p => (p.1.map g, p.2)) := by
  unfold Gen.S.Vec.deserialize_from_slice deVec
  rw [u32_de]
  cases deU32 bs with
  | none => simp
  | some p =>
    obtain ⟨n, r⟩ := p
    simp only [loop_de f' f g hf]
    cases deMany f n r with
    | none => simp
    | some q => simp

theorem vec_de_id {α : Type} (f' f : List Nat → Option (α × List Nat))
    (hf : ∀ bs, f' bs = f bs) (bs : List Nat) :
    Gen.S.Vec.deserialize_from_slice f' bs = deVec f bs := by
  have := vec_de f' f id (fun bs => by rw [hf]; cases f bs <;> simp) bs
  rw [this]
  cases deVec f bs <;> simp

/-- the translated byte-wise `serialize` = the model's, whenever the two `u32::try_from(len).unwrap()` do not panic -/
theorem serialize_eq_B (S : Ser V) (da : DA V) (hv : da.variant = .bytewise)
    (hs : da.states.size ≤ 4294967295) (ho : da.outputs.size ≤ 4294967295) :
    Gen.S.B.DA.serialize S (toDAB da) = some (Daac.serialize S da) := by
  have hs' : da.states.toList.length ≤ 4294967295 := by simpa using hs
  have ho' : da.outputs.toList.length ≤ 4294967295 := by simpa using ho
  simp only [Gen.S.B.DA.serialize, toDAB, Daac.serialize, hv,
    vec_ser _ toStB (serSt .bytewise) stB_ser _ hs',
    vec_ser _ toOut (serOut S) (out_ser S) _ ho', kind_ser, u32_ser, List.nil_append,
    List.append_assoc]

theorem serialize_eq_C (S : Ser V) (da : DA V) (hv : da.variant = .charwise)
    (hs : da.states.size ≤ 4294967295) (hm : da.mapTable.size ≤ 4294967295) (ho : da.outputs.size ≤ 4294967295) :
    Gen.S.C.DA.serialize S (toDAC da) = some (Daac.serialize S da) := by
  have hs' : da.states.toList.length ≤ 4294967295 := by simpa using hs
  have hm' : da.mapTable.toList.length ≤ 4294967295 := by simpa using hm
  have ho' : da.outputs.toList.length ≤ 4294967295 := by simpa using ho
  simp only [Gen.S.C.DA.serialize, Gen.S.CodeMapper.serialize_to_vec, toDAC, Daac.serialize, hv,
    vec_ser _ toStC (serSt .charwise) stC_ser _ hs',
    vec_ser_id _ serU32 u32_ser _ hm',
    vec_ser _ toOut (serOut S) (out_ser S) _ ho', kind_ser, u32_ser, List.nil_append,
    List.append_assoc]

/-- the translated `deserialize_unchecked` = the model's `deserialize`, on EVERY byte string (`none` = panic on both sides) -/
theorem deserialize_eq_B (S : Ser V) (bs : List Nat) :
    Gen.S.B.DA.deserialize_unchecked S bs = (Daac.deserialize S .bytewise bs).map (fun p => (toDAB p.1, p.2)) := by
  unfold Gen.S.B.DA.deserialize_unchecked Daac.deserialize
  simp only [vec_de _ (deSt .bytewise) toStB stB_de, vec_de _ (deOut S) toOut (out_de S),
    kind_de, u32_de]
  cases deVec (deSt .bytewise) bs with
  | none => simp
  | some p1 =>
    obtain ⟨states, r1⟩ := p1
    simp only [Option.map_some]
    cases deVec (deOut S) r1 with
    | none => simp
    | some p2 =>
      obtain ⟨outs, r3⟩ := p2
      simp only [Option.map_some]
      cases r3 with
      | nil => simp
      | cons k r4 =>
        simp only
        cases deU32 r4 with
        | none => simp
        | some p3 =>
          obtain ⟨ns, r5⟩ := p3
          simp [toDAB]

theorem deserialize_eq_C (S : Ser V) (bs : List Nat) :
    Gen.S.C.DA.deserialize_unchecked S bs = (Daac.deserialize S .charwise bs).map (fun p => (toDAC p.1, p.2)) := by
  unfold Gen.S.C.DA.deserialize_unchecked Daac.deserialize Gen.S.CodeMapper.deserialize_from_slice
  simp only [vec_de _ (deSt .charwise) toStC stC_de, vec_de _ (deOut S) toOut (out_de S),
    vec_de_id _ deU32 u32_de, kind_de, u32_de]
  cases deVec (deSt .charwise) bs with
  | none => simp
  | some p1 =>
    obtain ⟨states, r1⟩ := p1
    simp only [Option.map_some]
    cases deVec deU32 r1 with
    | none => simp
    | some pm =>
      obtain ⟨table, rm⟩ := pm
      simp only
      cases deU32 rm with
      | none => simp
      | some pa =>
        obtain ⟨alpha, r2⟩ := pa
        simp only
        cases deVec (deOut S) r2 with
        | none => simp
        | some p2 =>
          obtain ⟨outs, r3⟩ := p2
          simp only [Option.map_some]
          cases r3 with
          | nil => simp
          | cons k r4 =>
            simp only
            cases deU32 r4 with
            | none => simp
            | some p3 =>
              obtain ⟨ns, r5⟩ := p3
              simp [toDAC]

/-- `Vec::with_capacity(...)` in `serialize` reserves exactly the number of bytes written -/
theorem capacity_exact_B (S : Ser V) (D : V → Prop) (hS : S.LawfulOn D) (da : DA V) (hv : da.variant = .bytewise)
    (hD : ∀ o ∈ da.outputs.toList, D o.value) :
    Gen.S.B.DA.serialize.capacity S (toDAB da) = (Daac.serialize S da).length := by
  have e1 := serVec_length (serSt .bytewise) 12 da.states.toList
    (fun s _ => serSt_length .bytewise s)
  have e2 := serVec_length (serOut S) (S.width + 8) da.outputs.toList
    (fun o ho => serOut_length S D hS o (hD o ho))
  have e4 : S.width + 4 + 4 = S.width + 8 := by omega
  simp only [Gen.S.B.DA.serialize.capacity, Gen.S.Vec.serialized_bytes,
    Gen.S.B.State.serialized_bytes, Gen.S.Output.serialized_bytes,
    Gen.S.OptionNonZeroU32.serialized_bytes, Gen.S.U24nU8.serialized_bytes,
    Gen.S.MatchKind.serialized_bytes, Gen.S.u32.serialized_bytes, Gen.S.Prim.serialized_bytes,
    toDAB, List.length_map, Daac.serialize, hv, List.length_append, List.length_cons,
    List.length_nil, serU32_length, e1, e2, e4]
  omega

theorem capacity_exact_C (S : Ser V) (D : V → Prop) (hS : S.LawfulOn D) (da : DA V) (hv : da.variant = .charwise)
    (hD : ∀ o ∈ da.outputs.toList, D o.value) :
    Gen.S.C.DA.serialize.capacity S (toDAC da) = (Daac.serialize S da).length := by
  have e1 := serVec_length (serSt .charwise) 16 da.states.toList
    (fun s _ => serSt_length .charwise s)
  have e2 := serVec_length (serOut S) (S.width + 8) da.outputs.toList
    (fun o ho => serOut_length S D hS o (hD o ho))
  have e3 := serVec_length serU32 4 da.mapTable.toList (fun c _ => serU32_length c)
  simp only [Gen.S.C.DA.serialize.capacity, Gen.S.Vec.serialized_bytes,
    Gen.S.C.State.serialized_bytes, Gen.S.Output.serialized_bytes,
    Gen.S.CodeMapper.serialized_bytes,
    Gen.S.OptionNonZeroU32.serialized_bytes,
    Gen.S.MatchKind.serialized_bytes, Gen.S.u32.serialized_bytes, Gen.S.Prim.serialized_bytes,
    toDAC, List.length_map, Daac.serialize, hv, List.length_append, List.length_cons,
    List.length_nil, serU32_length, e1, e2, e3]

/-- every invocation of `define_serializable_primitive!` passes the type's own width (otherwise
`try_into().unwrap()` would panic on every call) and the table equals the one gen_consts.py extracts -/
theorem prim_invocations_ok :
    (∀ r ∈ Gen.S.primInvocations, r.2.1 = r.2.2) ∧
    Gen.S.primInvocations.map (fun r => (r.1, r.2.2)) = Gen.primWidths.map (fun r => (r.1, r.2.1)) := by
  decide

/-! ### Non-vacuity: the hypotheses of `serialize_eq_B` hold of a non-trivial byte-wise automaton value -/

/-- A small byte-wise leftmost-first automaton value (one `None` base, packed `opos`/`check`, a
non-`None` output parent). -/
def exampleDAB : DA Int where
  variant := .bytewise
  states := #[⟨3, 0, 0, 0⟩, ⟨0, 97, 1, 0⟩, ⟨2, 98, 0, 1⟩, ⟨0, 255, 2, 16777215⟩]
  outputs := #[⟨7, 1, 0⟩, ⟨4294967295, 2, 1⟩]
  mapTable := #[]
  alphaSize := 0
  kind := 2
  numStates := 4

example : Gen.S.B.DA.serialize (serUnsigned 4) (toDAB exampleDAB)
    = some (Daac.serialize (serUnsigned 4) exampleDAB) :=
  serialize_eq_B (serUnsigned 4) exampleDAB rfl (by decide) (by decide)

example : Gen.S.B.DA.serialize.capacity (serUnsigned 4) (toDAB exampleDAB) = 85 := by decide

example : (Daac.serialize (serUnsigned 4) exampleDAB).length = 85 := by decide

end Daac.Tie.S

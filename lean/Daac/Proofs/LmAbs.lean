/-
Pure string combinatorics for the leftmost automaton: the abstract scan `absLm`, driven by the
string-level transition `deltaL` and output `oposL`, returns the leftmost-longest occurrence
`bestIn P x 0`. Core Lean only.
-/
import Daac.Proofs.LmIface
namespace Daac
variable {V : Type}

/-! ### Occurrences and a declarative characterisation of `bestIn` -/

/-- `q` (a pattern of `P` with a non-empty key) occurs in `x` at start `s`. -/
def Occ (P : List (LPat V)) (x : List Nat) (s : Nat) (q : LPat V) : Prop :=
  q ∈ P ∧ q.key ≠ [] ∧ q.key <+: x.drop s

/-- `(s, p)` is the leftmost-longest occurrence in `x`. -/
structure IsBest (P : List (LPat V)) (x : List Nat) (s : Nat) (p : LPat V) : Prop where
  occ : Occ P x s p
  left : ∀ s' q, s' < s → ¬ Occ P x s' q
  long : ∀ q, Occ P x s q → q.key.length ≤ p.key.length

theorem key_inj {P : List (LPat V)} (hkeys : (P.map (·.key)).Nodup) {p q : LPat V}
    (hp : p ∈ P) (hq : q ∈ P) (h : p.key = q.key) : p = q := by
  induction P with
  | nil => simp at hp
  | cons a l ih =>
    simp only [List.map_cons, List.nodup_cons, List.mem_map, not_exists, not_and] at hkeys
    rcases List.mem_cons.1 hp with rfl | hp' <;> rcases List.mem_cons.1 hq with rfl | hq'
    · rfl
    · exact absurd h.symm (hkeys.1 q hq')
    · exact absurd h (hkeys.1 p hp')
    · exact ih hkeys.2 hp' hq'

theorem mem_prefLPats {P : List (LPat V)} {x : List Nat} {q : LPat V} :
    q ∈ prefLPats P x ↔ Occ P x 0 q := by
  simp [prefLPats, Occ, List.mem_filter]

theorem longestLPat_eq_none {l : List (LPat V)} : longestLPat l = none ↔ l = [] := by
  cases l with
  | nil => simp [longestLPat]
  | cons p ps => simp only [longestLPat]; split <;> (try split) <;> simp

theorem longestLPat_some {l : List (LPat V)} {p : LPat V} (h : longestLPat l = some p) :
    p ∈ l ∧ ∀ q ∈ l, q.key.length ≤ p.key.length := by
  induction l generalizing p with
  | nil => simp [longestLPat] at h
  | cons a l ih =>
    simp only [longestLPat] at h
    split at h
    · next hn =>
      have := longestLPat_eq_none.1 hn
      subst this
      simp only [Option.some.injEq] at h
      subst h; simp
    · next q hq =>
      obtain ⟨hm, hmax⟩ := ih hq
      split at h
      · simp only [Option.some.injEq] at h
        subst h
        refine ⟨by simp [hm], ?_⟩
        intro r hr
        rcases List.mem_cons.1 hr with rfl | hr
        · omega
        · exact hmax _ hr
      · simp only [Option.some.injEq] at h
        subst h
        refine ⟨by simp, ?_⟩
        intro r hr
        rcases List.mem_cons.1 hr with rfl | hr
        · omega
        · have := hmax _ hr; omega

theorem occ_length {P : List (LPat V)} {x : List Nat} {s : Nat} {q : LPat V}
    (h : Occ P x s q) : s + q.key.length ≤ x.length := by
  obtain ⟨_, hne, hp⟩ := h
  have h1 := hp.length_le
  have h2 : 0 < q.key.length := List.length_pos_iff.2 hne
  simp only [List.length_drop] at h1
  omega

theorem occ_append_right {P : List (LPat V)} {x : List Nat} {s : Nat} {q : LPat V}
    (h : Occ P x s q) (r : List Nat) : Occ P (x ++ r) s q := by
  have hl := occ_length h
  refine ⟨h.1, h.2.1, h.2.2.trans ?_⟩
  rw [List.drop_append_of_le_length (by omega)]
  exact List.prefix_append _ _

theorem occ_of_append {P : List (LPat V)} {x r : List Nat} {s : Nat} {q : LPat V}
    (h : Occ P (x ++ r) s q) (hfit : s + q.key.length ≤ x.length) : Occ P x s q := by
  obtain ⟨hq, hne, hp⟩ := h
  refine ⟨hq, hne, ?_⟩
  rw [List.drop_append_of_le_length (by omega)] at hp
  exact List.prefix_of_prefix_length_le hp (List.prefix_append _ _)
    (by simp only [List.length_drop]; omega)

theorem occ_append_left {P : List (LPat V)} {v w : List Nat} {s : Nat} {q : LPat V} :
    Occ P (v ++ w) (v.length + s) q ↔ Occ P w s q := by
  simp only [Occ, ← List.drop_drop, List.drop_append_length]

theorem occ_cons {P : List (LPat V)} {c : Nat} {r : List Nat} {s : Nat} {q : LPat V} :
    Occ P (c :: r) (s + 1) q ↔ Occ P r s q := by
  simp [Occ]

theorem not_occ_nil {P : List (LPat V)} {s : Nat} {q : LPat V} : ¬ Occ P [] s q := by
  intro h
  have := occ_length h
  have h2 : 0 < q.key.length := List.length_pos_iff.2 h.2.1
  simp only [List.length_nil] at this; omega

theorem bestIn_none_spec {P : List (LPat V)} {x : List Nat} {n : Nat}
    (h : bestIn P x n = none) : ∀ s q, ¬ Occ P x s q := by
  induction x generalizing n with
  | nil => intro s q; exact not_occ_nil
  | cons c r ih =>
    simp only [bestIn] at h
    split at h
    · exact absurd h (by simp)
    · next hn =>
      have hnil := longestLPat_eq_none.1 hn
      intro s q ho
      cases s with
      | zero =>
        have := mem_prefLPats.2 ho
        rw [hnil] at this; simp at this
      | succ s => exact ih h s q (occ_cons.1 ho)

theorem bestIn_some_spec {P : List (LPat V)} {x : List Nat} {n k : Nat} {p : LPat V}
    (h : bestIn P x n = some (k, p)) : ∃ s, k = n + s ∧ IsBest P x s p := by
  induction x generalizing n with
  | nil => simp [bestIn] at h
  | cons c r ih =>
    simp only [bestIn] at h
    split at h
    · next p' hp' =>
      simp only [Option.some.injEq, Prod.mk.injEq] at h
      obtain ⟨rfl, rfl⟩ := h
      obtain ⟨hm, hmax⟩ := longestLPat_some hp'
      refine ⟨0, rfl, mem_prefLPats.1 hm, ?_, ?_⟩
      · intro s' q hs'; omega
      · intro q hq; exact hmax q (mem_prefLPats.2 hq)
    · next hn =>
      have hnil := longestLPat_eq_none.1 hn
      obtain ⟨s, hk, hb⟩ := ih h
      refine ⟨s + 1, by omega, occ_cons.2 hb.occ, ?_, ?_⟩
      · intro s' q hs' ho
        cases s' with
        | zero =>
          have := mem_prefLPats.2 ho
          rw [hnil] at this; simp at this
        | succ s' => exact hb.left s' q (by omega) (occ_cons.1 ho)
      · intro q hq; exact hb.long q (occ_cons.1 hq)

theorem bestIn_of_isBest {P : List (LPat V)} (hkeys : (P.map (·.key)).Nodup)
    {x : List Nat} {s : Nat} {p : LPat V} (h : IsBest P x s p) (n : Nat) :
    bestIn P x n = some (n + s, p) := by
  induction x generalizing n s with
  | nil => exact absurd h.occ not_occ_nil
  | cons c r ih =>
    simp only [bestIn]
    cases s with
    | zero =>
      have hpm := mem_prefLPats.2 h.occ
      cases hl : longestLPat (prefLPats P (c :: r)) with
      | none =>
        have := longestLPat_eq_none.1 hl
        rw [this] at hpm; simp at hpm
      | some p' =>
        obtain ⟨hm, hmax⟩ := longestLPat_some hl
        have ho' := mem_prefLPats.1 hm
        have l1 := h.long p' ho'
        have l2 := hmax p hpm
        have hpre := List.prefix_of_prefix_length_le ho'.2.2 h.occ.2.2 l1
        have hk : p'.key = p.key := hpre.eq_of_length (by omega)
        have := key_inj hkeys ho'.1 h.occ.1 hk
        subst this; simp
    | succ s =>
      have hnil : prefLPats P (c :: r) = [] := by
        apply List.eq_nil_iff_forall_not_mem.2
        intro q hq
        exact h.left 0 q (by omega) (mem_prefLPats.1 hq)
      rw [hnil]
      simp only [longestLPat]
      have hb : IsBest P r s p := by
        refine ⟨occ_cons.1 h.occ, ?_, ?_⟩
        · intro s' q hs' ho; exact h.left (s' + 1) q (by omega) (occ_cons.2 ho)
        · intro q hq; exact h.long q (occ_cons.2 hq)
      rw [ih hb (n + 1)]
      simp only [Option.some.injEq, Prod.mk.injEq, and_true]; omega

theorem bestIn_of_noOcc {P : List (LPat V)} {x : List Nat} (h : ∀ s q, ¬ Occ P x s q) (n : Nat) :
    bestIn P x n = none := by
  cases hb : bestIn P x n with
  | none => rfl
  | some r =>
    obtain ⟨k, p⟩ := r
    obtain ⟨s, _, hbest⟩ := bestIn_some_spec hb
    exact absurd hbest.occ (h s p)

/-! ### Moving `IsBest` between a text, its suffixes and its extensions -/

theorem isBest_append_left {P : List (LPat V)} {v w : List Nat} {s : Nat} {p : LPat V}
    (hno : ∀ s' q, s' < v.length → ¬ Occ P (v ++ w) s' q) :
    IsBest P (v ++ w) (v.length + s) p ↔ IsBest P w s p := by
  constructor
  · intro h
    refine ⟨occ_append_left.1 h.occ, ?_, ?_⟩
    · intro s' q hs' ho
      exact h.left (v.length + s') q (by omega) (occ_append_left.2 ho)
    · intro q hq; exact h.long q (occ_append_left.2 hq)
  · intro h
    refine ⟨occ_append_left.2 h.occ, ?_, ?_⟩
    · intro s' q hs' ho
      by_cases hlt : s' < v.length
      · exact hno s' q hlt ho
      · obtain ⟨k, rfl⟩ : ∃ k, s' = v.length + k := ⟨s' - v.length, by omega⟩
        exact h.left k q (by omega) (occ_append_left.1 ho)
    · intro q hq; exact h.long q (occ_append_left.1 hq)

theorem isBest_start_ge {P : List (LPat V)} {v w : List Nat} {s : Nat} {p : LPat V}
    (hno : ∀ s' q, s' < v.length → ¬ Occ P (v ++ w) s' q) (h : IsBest P (v ++ w) s p) :
    v.length ≤ s := by
  by_cases hlt : s < v.length
  · exact absurd h.occ (hno s p hlt)
  · omega

theorem isBest_restrict {P : List (LPat V)} {y r : List Nat} {s : Nat} {p : LPat V}
    (h : IsBest P (y ++ r) s p) (hfit : s + p.key.length ≤ y.length) : IsBest P y s p := by
  refine ⟨occ_of_append h.occ hfit, ?_, ?_⟩
  · intro s' q hs' ho; exact h.left s' q hs' (occ_append_right ho r)
  · intro q hq; exact h.long q (occ_append_right hq r)

/-- An occurrence in `y ++ c :: rest` either lies inside `y` or starts inside the longest suffix
of `y ++ [c]` that is a node (its part inside `y ++ [c]` is a prefix of a pattern). -/
theorem occ_split {P : List (LPat V)} {y : List Nat} {c : Nat} {rest : List Nat} {s : Nat}
    {q : LPat V} (h : Occ P (y ++ c :: rest) s q) :
    Occ P y s q ∨ y.length + 1 - (lsuf (nodeList P) (y ++ [c])).length ≤ s := by
  by_cases hfit : s + q.key.length ≤ y.length
  · exact Or.inl (occ_of_append h hfit)
  · right
    by_cases hs : y.length < s
    · omega
    · obtain ⟨hq, hne, hp⟩ := h
      have e : y ++ c :: rest = (y ++ [c]) ++ rest := by simp
      rw [e, List.drop_append_of_le_length (by simp; omega)] at hp
      have hpre : (y ++ [c]).drop s <+: q.key :=
        List.prefix_of_prefix_length_le (List.prefix_append _ _) hp (by simp; omega)
      have hN : (y ++ [c]).drop s ∈ nodeList P := mem_nodeList.2 (Or.inr ⟨q, hq, hpre⟩)
      have := (lsuf_spec (nodeList_prefClosed P).nil_mem (y ++ [c])).2.2 _
        (List.drop_suffix _ _) hN
      simp only [List.length_drop, List.length_append, List.length_singleton] at this
      omega

theorem isBest_extend {P : List (LPat V)} {y : List Nat} {c : Nat} {s : Nat} {p : LPat V}
    (h : IsBest P y s p)
    (hs : s < y.length + 1 - (lsuf (nodeList P) (y ++ [c])).length) (rest : List Nat) :
    IsBest P (y ++ c :: rest) s p := by
  refine ⟨occ_append_right h.occ _, ?_, ?_⟩
  · intro s' q hs' ho
    rcases occ_split ho with h1 | h1
    · exact h.left s' q hs' h1
    · omega
  · intro q hq
    rcases occ_split hq with h1 | h1
    · exact h.long q h1
    · omega

theorem bestIn_skip {P : List (LPat V)} (hkeys : (P.map (·.key)).Nodup) {v w : List Nat}
    (hno : ∀ s' q, s' < v.length → ¬ Occ P (v ++ w) s' q) (n : Nat) :
    bestIn P (v ++ w) n = bestIn P w (n + v.length) := by
  cases hb : bestIn P w (n + v.length) with
  | none =>
    apply bestIn_of_noOcc
    intro s q ho
    by_cases hlt : s < v.length
    · exact hno s q hlt ho
    · obtain ⟨k, rfl⟩ : ∃ k, s = v.length + k := ⟨s - v.length, by omega⟩
      exact bestIn_none_spec hb k q (occ_append_left.1 ho)
  | some r =>
    obtain ⟨k, p⟩ := r
    obtain ⟨s, hk, hbest⟩ := bestIn_some_spec hb
    rw [bestIn_of_isBest hkeys ((isBest_append_left hno).2 hbest) n]
    simp only [Option.some.injEq, Prod.mk.injEq, and_true]; omega

/-! ### The loop invariant -/

/-- Invariant of the scan: `y` = labels consumed since the scan (re)started at the root with no
candidate (at absolute position `n0`), `u` = current node, `cand` = current candidate. -/
structure Inv (P : List (LPat V)) (y u : List Nat) (cand : Option (Nat × LPat V)) (n0 : Nat) :
    Prop where
  node : u = lsuf (nodeList P) y
  cand_eq : cand = bestIn P y n0
  noOcc : ∀ s q, s < y.length - u.length → ¬ Occ P y s q

theorem inv_init (P : List (LPat V)) (n : Nat) : Inv P [] [] none n :=
  ⟨lsuf_nil.symm, by simp [bestIn], by intro s q hs; simp at hs⟩

theorem suffix_decomp {u y : List Nat} (h : u <:+ y) :
    ∃ v, y = v ++ u ∧ v.length = y.length - u.length := by
  obtain ⟨v, hv⟩ := h
  exact ⟨v, hv.symm, by rw [← hv]; simp⟩

theorem inv_decomp {P : List (LPat V)} {y u : List Nat} {cand : Option (Nat × LPat V)} {n0 : Nat}
    (hI : Inv P y u cand n0) : ∃ v, y = v ++ u ∧ v.length = y.length - u.length := by
  apply suffix_decomp
  rw [hI.node]
  exact (lsuf_spec (nodeList_prefClosed P).nil_mem y).1

theorem deltaL_of_inv_none {P : List (LPat V)} {y u : List Nat} {n0 : Nat}
    (hI : Inv P y u none n0) (c : Nat) :
    deltaL P u c = lsuf (nodeList P) (y ++ [c]) ∧ ∀ s q, ¬ Occ P y s q := by
  have hno := bestIn_none_spec hI.cand_eq.symm
  refine ⟨?_, hno⟩
  obtain ⟨v, hy, _⟩ := inv_decomp hI
  have hu : bestIn P u 0 = none := by
    apply bestIn_of_noOcc
    intro s q ho
    apply hno (v.length + s) q
    rw [hy]; exact occ_append_left.2 ho
  unfold deltaL
  rw [hu]
  simp only
  rw [hI.node, lsuf_step (nodeList_prefClosed P)]

theorem deltaL_of_inv_some {P : List (LPat V)} (hkeys : (P.map (·.key)).Nodup)
    {y u : List Nat} {n0 k : Nat} {p : LPat V}
    (hI : Inv P y u (some (k, p)) n0) (c : Nat) :
    ∃ s, k = n0 + s ∧ IsBest P y s p ∧
      deltaL P u c = if s < y.length + 1 - (lsuf (nodeList P) (y ++ [c])).length then []
        else lsuf (nodeList P) (y ++ [c]) := by
  obtain ⟨s, hk, hbest⟩ := bestIn_some_spec hI.cand_eq.symm
  refine ⟨s, hk, hbest, ?_⟩
  obtain ⟨v, hy, hvl⟩ := inv_decomp hI
  have hno : ∀ s' q, s' < v.length → ¬ Occ P (v ++ u) s' q := by
    intro s' q hs'; rw [← hy]; exact hI.noOcc s' q (by omega)
  have hbest' : IsBest P (v ++ u) s p := hy ▸ hbest
  have hge := isBest_start_ge hno hbest'
  obtain ⟨s0, rfl⟩ : ∃ s0, s = v.length + s0 := ⟨s - v.length, by omega⟩
  have hbu := bestIn_of_isBest hkeys ((isBest_append_left hno).1 hbest') 0
  have ht : lsuf (nodeList P) (u ++ [c]) = lsuf (nodeList P) (y ++ [c]) := by
    rw [hI.node, lsuf_step (nodeList_prefClosed P)]
  have htl := (lsuf_spec (nodeList_prefClosed P).nil_mem (u ++ [c])).1.length_le
  rw [ht] at htl
  simp only [List.length_append, List.length_singleton] at htl
  have hyl : y.length = v.length + u.length := by rw [hy]; simp
  unfold deltaL
  rw [hbu, ht]
  simp only [Nat.zero_add]
  by_cases hc : u.length + 1 - (lsuf (nodeList P) (y ++ [c])).length > s0
  · rw [if_pos hc, if_pos (by omega)]
  · rw [if_neg hc, if_neg (by omega)]

/-! ### The three step lemmas -/

/-- The scan stops at the root with a candidate: the candidate is the answer for the whole text. -/
theorem step_stop {P : List (LPat V)} (hkeys : (P.map (·.key)).Nodup)
    {y u : List Nat} {cand : Option (Nat × LPat V)} {n0 : Nat} (hI : Inv P y u cand n0)
    {c : Nat} (hd : deltaL P u c = []) (hc : cand.isSome) (rest : List Nat) :
    bestIn P (y ++ c :: rest) n0 = cand := by
  cases cand with
  | none => simp at hc
  | some r =>
    obtain ⟨k, p⟩ := r
    obtain ⟨s, hk, hbest, hdl⟩ := deltaL_of_inv_some hkeys hI c
    have hlt : s < y.length + 1 - (lsuf (nodeList P) (y ++ [c])).length := by
      by_cases hlt : s < y.length + 1 - (lsuf (nodeList P) (y ++ [c])).length
      · exact hlt
      · rw [if_neg hlt] at hdl
        rw [hdl] at hd
        have := occ_length hbest.occ
        rw [hd] at hlt
        simp only [List.length_nil] at hlt
        omega
    rw [bestIn_of_isBest hkeys (isBest_extend hbest hlt rest) n0, hk]

/-- The scan is back at the root without a candidate: nothing occurs in, or starts inside, the
consumed part. -/
theorem step_restart {P : List (LPat V)} (hkeys : (P.map (·.key)).Nodup)
    {y u : List Nat} {n0 : Nat} (hI : Inv P y u none n0)
    {c : Nat} (hd : deltaL P u c = []) (rest : List Nat) :
    bestIn P (y ++ c :: rest) n0 = bestIn P rest (n0 + y.length + 1) := by
  obtain ⟨hdl, hno⟩ := deltaL_of_inv_none hI c
  rw [hdl] at hd
  have e : y ++ c :: rest = (y ++ [c]) ++ rest := by simp
  have hskip : ∀ s' q, s' < (y ++ [c]).length → ¬ Occ P ((y ++ [c]) ++ rest) s' q := by
    intro s' q hs' ho
    rw [← e] at ho
    rcases occ_split ho with h1 | h1
    · exact hno s' q h1
    · rw [hd] at h1
      simp only [List.length_append, List.length_singleton, List.length_nil] at hs' h1
      omega
  rw [e, bestIn_skip hkeys hskip n0]
  simp only [List.length_append, List.length_singleton, Nat.add_assoc]

/-- Updating the candidate at the new node `t` keeps it equal to `best (y ++ [c])`. -/
theorem cand_update {P : List (LPat V)} (hkeys : (P.map (·.key)).Nodup)
    {y t : List Nat} {c n0 : Nat} (hsuf : t <:+ y ++ [c])
    (hno : ∀ s q, s < (y ++ [c]).length - t.length → ¬ Occ P (y ++ [c]) s q) :
    (match oposL P t with
     | some p => some (n0 + y.length + 1 - p.key.length, p)
     | none => bestIn P y n0) = bestIn P (y ++ [c]) n0 := by
  obtain ⟨v, hz, hvl⟩ := suffix_decomp hsuf
  have hzl : y.length + 1 = v.length + t.length := by
    have := congrArg List.length hz
    simpa using this
  have hno' : ∀ s' q, s' < v.length → ¬ Occ P (v ++ t) s' q := by
    intro s' q hs'; rw [← hz]; exact hno s' q (by omega)
  cases hb : bestIn P t 0 with
  | none =>
    have hnt := bestIn_none_spec hb
    have hnz : ∀ s q, ¬ Occ P (y ++ [c]) s q := by
      intro s q ho
      rw [hz] at ho
      by_cases hlt : s < v.length
      · exact hno' s q hlt ho
      · obtain ⟨k, rfl⟩ : ∃ k, s = v.length + k := ⟨s - v.length, by omega⟩
        exact hnt k q (occ_append_left.1 ho)
    have hny : ∀ s q, ¬ Occ P y s q := fun s q ho => hnz s q (occ_append_right ho _)
    simp only [oposL, hb]
    rw [bestIn_of_noOcc hnz, bestIn_of_noOcc hny]
  | some r =>
    obtain ⟨s2, p2⟩ := r
    obtain ⟨s, hs, hbt⟩ := bestIn_some_spec hb
    simp only [Nat.zero_add] at hs
    subst hs
    have hbz : IsBest P (y ++ [c]) (v.length + s2) p2 := by
      rw [hz]; exact (isBest_append_left hno').2 hbt
    have hfit := occ_length hbt.occ
    rw [bestIn_of_isBest hkeys hbz n0]
    simp only [oposL, hb]
    by_cases he : s2 + p2.key.length = t.length
    · rw [if_pos he]
      simp only [Option.some.injEq, Prod.mk.injEq, and_true]
      omega
    · rw [if_neg he]
      simp only
      exact bestIn_of_isBest hkeys (isBest_restrict hbz (by omega)) n0

/-- The scan continues: the invariant is re-established for `y ++ [c]`. -/
theorem step_cont {P : List (LPat V)} (hkeys : (P.map (·.key)).Nodup)
    {y u : List Nat} {cand : Option (Nat × LPat V)} {n0 : Nat} (hI : Inv P y u cand n0)
    {c : Nat} (hd : deltaL P u c ≠ []) :
    Inv P (y ++ [c]) (deltaL P u c)
      (match oposL P (deltaL P u c) with
       | some p => some (n0 + y.length + 1 - p.key.length, p)
       | none => cand) n0 := by
  have key : deltaL P u c = lsuf (nodeList P) (y ++ [c]) ∧
      ∀ s q, s < y.length + 1 - (lsuf (nodeList P) (y ++ [c])).length →
        ¬ Occ P (y ++ [c]) s q := by
    cases cand with
    | none =>
      obtain ⟨hdl, hno⟩ := deltaL_of_inv_none hI c
      refine ⟨hdl, ?_⟩
      intro s q hs ho
      rcases occ_split (rest := []) ho with h1 | h1
      · exact hno s q h1
      · omega
    | some r =>
      obtain ⟨k, p⟩ := r
      obtain ⟨s, hk, hbest, hdl⟩ := deltaL_of_inv_some hkeys hI c
      by_cases hlt : s < y.length + 1 - (lsuf (nodeList P) (y ++ [c])).length
      · rw [if_pos hlt] at hdl; exact absurd hdl hd
      · rw [if_neg hlt] at hdl
        refine ⟨hdl, ?_⟩
        intro s' q hs' ho
        rcases occ_split (rest := []) ho with h1 | h1
        · exact hbest.left s' q (by omega) h1
        · omega
  obtain ⟨hdl, hno⟩ := key
  have hsuf := (lsuf_spec (nodeList_prefClosed P).nil_mem (y ++ [c])).1
  have hno' : ∀ s q, s < (y ++ [c]).length - (lsuf (nodeList P) (y ++ [c])).length →
      ¬ Occ P (y ++ [c]) s q := by
    intro s q hs; apply hno
    simpa using hs
  rw [hdl]
  refine ⟨rfl, ?_, hno'⟩
  rw [hI.cand_eq]
  exact cand_update hkeys hsuf hno'

/-! ### Main theorem -/

theorem absLm_inv (P : List (LPat V)) (hkeys : (P.map (·.key)).Nodup) (rest : List Nat) :
    ∀ (y u : List Nat) (cand : Option (Nat × LPat V)) (n0 : Nat), Inv P y u cand n0 →
      absLm P rest u cand (n0 + y.length) = bestIn P (y ++ rest) n0 := by
  induction rest with
  | nil =>
    intro y u cand n0 hI
    simp only [absLm, List.append_nil]
    exact hI.cand_eq
  | cons c rest ih =>
    intro y u cand n0 hI
    rw [absLm]
    by_cases hd : deltaL P u c = []
    · rw [if_pos hd]
      by_cases hc : cand.isSome
      · rw [if_pos hc]
        exact (step_stop hkeys hI hd hc rest).symm
      · rw [if_neg hc]
        have hcn : cand = none := by simpa using hc
        subst hcn
        rw [step_restart hkeys hI hd rest]
        have := ih [] [] none (n0 + y.length + 1) (inv_init P _)
        simpa using this
    · rw [if_neg hd]
      have hI' := step_cont hkeys hI hd
      have e : y ++ c :: rest = (y ++ [c]) ++ rest := by simp
      have el : n0 + y.length + 1 = n0 + (y ++ [c]).length := by simp [Nat.add_assoc]
      rw [e, el]
      split
      · next p hp =>
        simp only [hp] at hI'
        rw [el] at hI'
        exact ih _ _ _ _ hI'
      · next hp =>
        simp only [hp] at hI'
        exact ih _ _ _ _ hI'

/-- The abstract leftmost scan returns the leftmost-longest occurrence. (`hne` is not needed:
`bestIn` ignores empty keys by itself.) -/
theorem absLm_eq_bestIn (P : List (LPat V)) (_hne : ∀ p ∈ P, p.key ≠ [])
    (hkeys : (P.map (·.key)).Nodup) (x : List Nat) :
    absLm P x [] none 0 = bestIn P x 0 := by
  have := absLm_inv P hkeys x [] [] none 0 (inv_init P 0)
  simpa using this

end Daac

#print axioms Daac.absLm_eq_bestIn
